import BezierVerif.Model.Valid
import BezierVerif.Lemmas.TriSpecializePy
import Mathlib.Algebra.Order.Field.Basic
import Mathlib.Tactic.Ring
import Mathlib.Tactic.Linarith
import Mathlib.Tactic.LinearCombination
import Mathlib.Tactic.NormNum

/-!
# Lemmas/Valid — helpers for C13 (`Triangle.is_valid`)

* `P m p w` : value at the barycentric point `w` of the degree-`m` Bernstein polynomial with the flat
  coefficient list `p`; `InTri w` : `w` lies in the closed reference triangle `Δ`.
* positivity certificate (`coeffs_gt`, `coeffs_lt`), corner values (`corner_values`).
* `Covers m subdiv` and the soundness of `polynomialSign` under it (`sign_sound`).
* the generic subdivision covers (`covers_generic`).
* the explicit tables `H2, T2, H3, T4` and the polynomial identities
  `jacobianPolynomial … = det J` (degree 2 and 3), and the soundness of `isValid`.
-/

set_option linter.unusedSectionVars false
set_option linter.unusedVariables false
set_option linter.unusedSimpArgs false

namespace BezierVerif.ValidL

open Finset Model BezierVerif BezierVerif.Tri

/-! ## the polynomial of a coefficient list, the closed reference triangle -/

section Basic
variable {K : Type} [Field K]

/-- value at the barycentric point `w` of the degree-`m` polynomial with flat Bernstein
    coefficient list `p` -/
def P (m : ℕ) (p : List K) (w : Bary K) : K := triBern m w.l1 w.l2 w.l3 (netOf m p)

/-- image of `μ` under the affine map of barycentric coordinates that sends the three corners to
    `a, b, c` -/
def bmap (a b c μ : Bary K) : Bary K :=
  ⟨μ.l1 * a.l1 + μ.l2 * b.l1 + μ.l3 * c.l1, μ.l1 * a.l2 + μ.l2 * b.l2 + μ.l3 * c.l2,
   μ.l1 * a.l3 + μ.l2 * b.l3 + μ.l3 * c.l3⟩

theorem P_eq_pow (m : ℕ) (p : List K) (w : Bary K) :
    P m p w = ((T3 w.l1 w.l2 w.l3)^m) (netOf m p) 0 0 := by
  unfold P; rw [T3_pow_apply_zero']

theorem rowStart_last (m : ℕ) : rowStart m m = numNodes m - 1 := by
  rw [numNodes_eq_rowStart, rowStart_succ]; omega

theorem numNodes_pos (m : ℕ) : 1 ≤ numNodes m := by
  rw [numNodes_eq_rowStart, rowStart_succ]; omega

theorem index_lt (m j k : ℕ) (h : j + k ≤ m) : rowStart m k + j < numNodes m := by
  have := rowStart_add_le m k (by omega)
  rw [numNodes_eq_rowStart]; omega

theorem seq_mem' (l : List K) (j : ℕ) (hj : j < l.length) : seq l j ∈ l := by
  unfold seq
  rw [List.getD_eq_getElem?_getD, List.getElem?_eq_getElem hj]
  exact List.getElem_mem hj

theorem netOf_mem (m : ℕ) (p : List K) (hp : p.length = numNodes m) (j k : ℕ) (h : j + k ≤ m) :
    netOf m p j k ∈ p := by
  unfold netOf
  exact seq_mem' p _ (by rw [hp]; exact index_lt m j k h)

theorem T3_corner1 : ∀ (d : ℕ) (w : Net K) (j k : ℕ), ((T3 (1:K) 0 0)^d) w j k = w j k := by
  intro d; induction d with
  | zero => intro w j k; simp
  | succ d ih => intro w j k; rw [pow_succ', Module.End.mul_apply, T3_apply, ih]; simp

theorem T3_corner2 : ∀ (d : ℕ) (w : Net K) (j k : ℕ), ((T3 (0:K) 1 0)^d) w j k = w (j+d) k := by
  intro d; induction d with
  | zero => intro w j k; simp
  | succ d ih =>
    intro w j k
    rw [pow_succ', Module.End.mul_apply, T3_apply, ih, ih, ih]
    have e : j + 1 + d = j + (d + 1) := by omega
    rw [e]; simp

theorem T3_corner3 : ∀ (d : ℕ) (w : Net K) (j k : ℕ), ((T3 (0:K) 0 1)^d) w j k = w j (k+d) := by
  intro d; induction d with
  | zero => intro w j k; simp
  | succ d ih =>
    intro w j k
    rw [pow_succ', Module.End.mul_apply, T3_apply, ih, ih, ih]
    have e : k + 1 + d = k + (d + 1) := by omega
    rw [e]; simp

/-- the three corner coefficients are values of the polynomial -/
theorem corner_values (m : ℕ) (p : List K) :
    seq p 0 = P m p ⟨1, 0, 0⟩ ∧ seq p m = P m p ⟨0, 1, 0⟩ ∧ seq p (numNodes m - 1) = P m p ⟨0, 0, 1⟩ := by
  refine ⟨?_, ?_, ?_⟩
  · rw [P_eq_pow, T3_corner1]; simp [netOf, rowStart]
  · rw [P_eq_pow, T3_corner2]; simp [netOf, rowStart]
  · rw [P_eq_pow, T3_corner3]; simp [netOf, rowStart_last]

theorem P_zero (m : ℕ) (p : List K) (hp : ∀ x ∈ p, x = 0) (w : Bary K) : P m p w = 0 := by
  unfold P triBern
  apply Finset.sum_eq_zero; intro k _
  apply Finset.sum_eq_zero; intro j _
  have : netOf m p j k = 0 := by
    unfold netOf seq
    by_cases h : rowStart m k + j < p.length
    · rw [List.getD_eq_getElem?_getD, List.getElem?_eq_getElem h]
      exact hp _ (List.getElem_mem h)
    · rw [List.getD_eq_getElem?_getD, List.getElem?_eq_none (by omega)]; rfl
  rw [this, mul_zero]

/-- `specialize_triangle` is the restriction to the triangle with corners `a, b, c` (Props/C09) -/
theorem P_specialize (d : ℕ) (row : List K) (h : row.length = numNodes d) (a b c μ : Bary K) :
    P d (F90.triSpecializeRow d row a b c) μ = P d row (bmap a b c μ) := by
  have hrow : row.length = rowStart d (d+1) := by rw [h, numNodes_eq_rowStart]
  unfold P bmap
  rw [triBern_congr d μ.l1 μ.l2 μ.l3 _ _ (fun j k hjk => seq_F90_specializeRow d a b c row hrow j k hjk),
    triBern_eq_bernTri, triBern_eq_bernTri]
  exact specNet_correct d (baryTriple a) (baryTriple b) (baryTriple c) μ.l1 μ.l2 μ.l3 (netOf d row)

end Basic

/-! ## order: the positivity certificate -/

section Order
variable {K : Type} [Field K] [LinearOrder K] [IsStrictOrderedRing K]

/-- the closed reference triangle in barycentric coordinates -/
def InTri (w : Bary K) : Prop := 0 ≤ w.l1 ∧ 0 ≤ w.l2 ∧ 0 ≤ w.l3 ∧ w.l1 + w.l2 + w.l3 = 1

theorem inTri_c1 : InTri (⟨1, 0, 0⟩ : Bary K) := ⟨zero_le_one, le_rfl, le_rfl, by simp⟩
theorem inTri_c2 : InTri (⟨0, 1, 0⟩ : Bary K) := ⟨le_rfl, zero_le_one, le_rfl, by simp⟩
theorem inTri_c3 : InTri (⟨0, 0, 1⟩ : Bary K) := ⟨le_rfl, le_rfl, zero_le_one, by simp⟩

theorem inTri_cartesian (s t : K) (hs : 0 ≤ s) (ht : 0 ≤ t) (hst : s + t ≤ 1) : InTri (cartesian s t) := by
  refine ⟨?_, hs, ht, ?_⟩ <;> simp only [cartesian]
  · linarith
  · ring

theorem inTri_bmap (a b c μ : Bary K) (ha : InTri a) (hb : InTri b) (hc : InTri c) (hμ : InTri μ) :
    InTri (bmap a b c μ) := by
  obtain ⟨a1, a2, a3, as⟩ := ha
  obtain ⟨b1, b2, b3, bs⟩ := hb
  obtain ⟨c1, c2, c3, cs⟩ := hc
  obtain ⟨m1, m2, m3, ms⟩ := hμ
  refine ⟨?_, ?_, ?_, ?_⟩ <;> simp only [bmap]
  · positivity
  · positivity
  · positivity
  · linear_combination μ.l1 * as + μ.l2 * bs + μ.l3 * cs + ms

theorem T3_pow_gt (l1 l2 l3 M : K) (h1 : 0 ≤ l1) (h2 : 0 ≤ l2) (h3 : 0 ≤ l3) (hs : l1 + l2 + l3 = 1) :
    ∀ (d : ℕ) (w : Net K) (j k : ℕ), (∀ j' k', j ≤ j' → k ≤ k' → j' + k' ≤ j + k + d → M < w j' k') →
      M < ((T3 l1 l2 l3)^d) w j k := by
  intro d
  induction d with
  | zero => intro w j k h; simpa using h j k le_rfl le_rfl (by omega)
  | succ d ih =>
    intro w j k h
    rw [pow_succ', Module.End.mul_apply, T3_apply]
    have a := ih w j k (fun j' k' a b c => h j' k' a b (by omega))
    have b := ih w (j+1) k (fun j' k' a b c => h j' k' (by omega) b (by omega))
    have c := ih w j (k+1) (fun j' k' a b c => h j' k' a (by omega) (by omega))
    have : l1 * (((T3 l1 l2 l3)^d) w j k - M) + l2 * (((T3 l1 l2 l3)^d) w (j+1) k - M)
          + l3 * (((T3 l1 l2 l3)^d) w j (k+1) - M) > 0 := by
      have p1 := mul_nonneg h1 (sub_pos.mpr a).le
      have p2 := mul_nonneg h2 (sub_pos.mpr b).le
      have p3 := mul_nonneg h3 (sub_pos.mpr c).le
      rcases lt_or_eq_of_le h1 with q | q
      · have := mul_pos q (sub_pos.mpr a); linarith
      · rcases lt_or_eq_of_le h2 with r | r
        · have := mul_pos r (sub_pos.mpr b); linarith
        · have : l3 = 1 := by rw [← q, ← r] at hs; linarith
          have := mul_pos (by rw [this]; exact one_pos : (0:K) < l3) (sub_pos.mpr c); linarith
    have key : l1 * ((T3 l1 l2 l3)^d) w j k + l2 * ((T3 l1 l2 l3)^d) w (j+1) k + l3 * ((T3 l1 l2 l3)^d) w j (k+1)
        = M + (l1 * (((T3 l1 l2 l3)^d) w j k - M) + l2 * (((T3 l1 l2 l3)^d) w (j+1) k - M)
          + l3 * (((T3 l1 l2 l3)^d) w j (k+1) - M)) := by linear_combination M * hs
    rw [key]; linarith

/-- all Bernstein coefficients `> M` ⇒ the polynomial is `> M` on the closed reference triangle -/
theorem coeffs_gt (m : ℕ) (p : List K) (hp : p.length = numNodes m) (M : K) (h : ∀ x ∈ p, M < x)
    (w : Bary K) (hw : InTri w) : M < P m p w := by
  rw [P_eq_pow]
  exact T3_pow_gt w.l1 w.l2 w.l3 M hw.1 hw.2.1 hw.2.2.1 hw.2.2.2 m _ 0 0
    (fun j k _ _ c => h _ (netOf_mem m p hp j k (by omega)))

theorem P_neg (m : ℕ) (p : List K) (w : Bary K) : P m (p.map (fun x => -x)) w = - P m p w := by
  unfold P triBern
  rw [← Finset.sum_neg_distrib]
  apply Finset.sum_congr rfl; intro k _
  rw [← Finset.sum_neg_distrib]
  apply Finset.sum_congr rfl; intro j _
  have : netOf m (p.map (fun x => -x)) j k = - netOf m p j k := by
    unfold netOf seq
    by_cases h : rowStart m k + j < p.length
    · rw [List.getD_eq_getElem?_getD, List.getD_eq_getElem?_getD, List.getElem?_map,
        List.getElem?_eq_getElem h]; rfl
    · rw [List.getD_eq_getElem?_getD, List.getD_eq_getElem?_getD, List.getElem?_map,
        List.getElem?_eq_none (by omega)]; simp
  rw [this]; ring

/-- all Bernstein coefficients `< M` ⇒ the polynomial is `< M` on the closed reference triangle -/
theorem coeffs_lt (m : ℕ) (p : List K) (hp : p.length = numNodes m) (M : K) (h : ∀ x ∈ p, x < M)
    (w : Bary K) (hw : InTri w) : P m p w < M := by
  have := coeffs_gt m (p.map (fun x => -x)) (by rw [List.length_map, hp]) (-M)
    (by intro x hx; obtain ⟨y, hy, rfl⟩ := List.mem_map.mp hx; exact neg_lt_neg (h y hy)) w hw
  rw [P_neg] at this
  exact neg_lt_neg_iff.mp this

/-! ## `signOf` -/

theorem signOf_eq_one (x : K) : signOf x = 1 ↔ 0 < x := by
  unfold signOf; split_ifs <;> simp_all

theorem signOf_eq_neg_one (x : K) : signOf x = -1 ↔ x < 0 := by
  unfold signOf; split_ifs with h1 h2
  · simp; exact h1.le
  · simp [h2]
  · simp [h2]

theorem signOf_eq_zero (x : K) : signOf x = 0 ↔ x = 0 := by
  unfold signOf; split_ifs with h1 h2
  · simp; exact h1.ne'
  · simp; exact h2.ne
  · simp; exact le_antisymm (not_lt.mp h1) (not_lt.mp h2)

theorem signOf_cases (x : K) : signOf x = 1 ∨ signOf x = -1 ∨ signOf x = 0 := by
  unfold signOf; split_ifs <;> simp

end Order

section Sign
variable {K : Type} [Field K] [LinearOrder K] [IsStrictOrderedRing K]

/-! ## the sign test, with its `let`-bound helpers named -/

def corners (m : ℕ) (p : List K) : List Int :=
  [signOf (seq p 0), signOf (seq p m), signOf (seq p (p.length - 1))]

def addSign (signs : List Int) (s : Int) : List Int := if signs.contains s then signs else signs ++ [s]

def classify (p : List K) (sg : List Int) (und : List (List K)) : List Int × List (List K) :=
  if p.all (fun x => decide (x = 0)) then (addSign sg 0, und)
  else if p.all (fun x => decide (0 < x)) then (addSign sg 1, und)
  else if p.all (fun x => decide (x < 0)) then (addSign sg (-1), und)
  else (sg, und ++ [p])

def stepF (m : ℕ) (st : List Int × List (List K) × Bool) (p : List K) : List Int × List (List K) × Bool :=
  if st.2.2 then st
  else
    let r := classify p ((corners m p).foldl addSign st.1) st.2.1
    (r.1, r.2, decide (r.1.length > 1))

def level (m : ℕ) (signs : List Int) (polys : List (List K)) : List Int × List (List K) × Bool :=
  polys.foldl (stepF m) (signs, [], false)

theorem polynomialSign_eq (subdiv : List K → List (List K)) (maxSub m : ℕ) (p : List K) :
    polynomialSign subdiv maxSub m p = polynomialSign.go subdiv (level m) maxSub [] [p] := rfl

theorem go_zero (subdiv : List K → List (List K)) (lv) (signs : List Int) (polys : List (List K)) :
    polynomialSign.go subdiv lv 0 signs polys = .error .valueError := rfl

theorem go_succ (subdiv : List K → List (List K)) (lv) (fuel : ℕ) (signs : List Int) (polys : List (List K)) :
    polynomialSign.go subdiv lv (fuel + 1) signs polys =
      if (lv signs polys).2.2 then .ok 0
      else if ((lv signs polys).2.1.flatMap subdiv).isEmpty then .ok ((lv signs polys).1.headD 0)
      else if fuel = 0 then .error .valueError
      else polynomialSign.go subdiv lv fuel (lv signs polys).1 ((lv signs polys).2.1.flatMap subdiv) := by
  rfl

theorem mem_addSign (sg : List Int) (s x : Int) : x ∈ addSign sg s ↔ x ∈ sg ∨ x = s := by
  unfold addSign; split_ifs with h
  · rw [List.contains_iff_mem] at h
    constructor
    · exact Or.inl
    · rintro (h' | rfl); exacts [h', h]
  · simp

theorem nodup_addSign (sg : List Int) (s : Int) (h : sg.Nodup) : (addSign sg s).Nodup := by
  unfold addSign; split_ifs with hc
  · exact h
  · rw [List.contains_iff_mem] at hc
    rw [List.nodup_append]
    refine ⟨h, List.nodup_singleton _, ?_⟩
    intro a ha b hb
    rw [List.mem_singleton] at hb
    subst hb
    rintro rfl
    exact hc ha

theorem mem_foldl_addSign (l : List Int) : ∀ (sg : List Int) (x : Int),
    x ∈ l.foldl addSign sg ↔ x ∈ sg ∨ x ∈ l := by
  induction l with
  | nil => intro sg x; simp
  | cons a l ih =>
    intro sg x
    rw [List.foldl_cons, ih, mem_addSign, List.mem_cons]
    tauto

theorem nodup_foldl_addSign (l : List Int) : ∀ (sg : List Int), sg.Nodup → (l.foldl addSign sg).Nodup := by
  induction l with
  | nil => intro sg h; exact h
  | cons a l ih => intro sg h; exact ih _ (nodup_addSign sg a h)

/-! ### `Covers` -/

/-- `q` is the restriction of `p` to the sub-triangle of `Δ` with corners `a, b, c` -/
def Restricts (m : ℕ) (p q : List K) (a b c : Bary K) : Prop :=
  InTri a ∧ InTri b ∧ InTri c ∧ ∀ μ, P m q μ = P m p (bmap a b c μ)

/-- the pieces returned by `subdiv` have the right length, are restrictions of the polynomial to
    sub-triangles of `Δ`, and these sub-triangles cover `Δ` -/
def Covers (m : ℕ) (subdiv : List K → List (List K)) : Prop :=
  ∀ p, p.length = numNodes m →
    (∀ q ∈ subdiv p, q.length = numNodes m ∧ ∃ a b c, Restricts m p q a b c) ∧
    (∀ l, InTri l → ∃ q ∈ subdiv p, ∃ a b c, Restricts m p q a b c ∧ ∃ μ, InTri μ ∧ bmap a b c μ = l)

/-- what the soundness proof uses -/
def CoversW (m : ℕ) (subdiv : List K → List (List K)) : Prop :=
  ∀ p, p.length = numNodes m →
    (∀ q ∈ subdiv p, q.length = numNodes m ∧ ∀ μ, InTri μ → ∃ l, InTri l ∧ P m q μ = P m p l) ∧
    (∀ l, InTri l → ∃ q ∈ subdiv p, ∃ μ, InTri μ ∧ P m q μ = P m p l)

theorem Covers.weak {m : ℕ} {subdiv : List K → List (List K)} (h : Covers m subdiv) : CoversW m subdiv := by
  intro p hp
  obtain ⟨h1, h2⟩ := h p hp
  constructor
  · intro q hq
    obtain ⟨hl, a, b, c, ha, hb, hc, hr⟩ := h1 q hq
    exact ⟨hl, fun μ hμ => ⟨bmap a b c μ, inTri_bmap a b c μ ha hb hc hμ, hr μ⟩⟩
  · intro l hl
    obtain ⟨q, hq, a, b, c, ⟨ha, hb, hc, hr⟩, μ, hμ, e⟩ := h2 l hl
    exact ⟨q, hq, μ, hμ, by rw [hr μ, e]⟩

/-! ### the invariant -/

/-- `q` is a piece of the root polynomial `p0` (values on `Δ` are values of `p0` on `Δ`) -/
def Sub (m : ℕ) (p0 q : List K) : Prop :=
  q.length = numNodes m ∧ ∀ μ, InTri μ → ∃ l, InTri l ∧ P m q μ = P m p0 l

/-- the sign `s` is attained by `p0` at a point of `Δ` -/
def Wit (m : ℕ) (p0 : List K) (s : Int) : Prop := ∃ l, InTri l ∧ signOf (P m p0 l) = s

def Good (m : ℕ) (p0 : List K) (st : List Int × List (List K) × Bool) : Prop :=
  (∀ s ∈ st.1, Wit m p0 s) ∧ st.1.Nodup ∧ (∀ u ∈ st.2.1, Sub m p0 u) ∧
    (st.2.2 = true → 1 < st.1.length) ∧ (st.2.2 = false → st.1.length ≤ 1)

def CovSt (m : ℕ) (p0 : List K) (st : List Int × List (List K) × Bool) (rem : List (List K)) : Prop :=
  st.2.2 = false → ∀ l, InTri l →
    (∃ q ∈ st.2.1 ++ rem, ∃ μ, InTri μ ∧ P m q μ = P m p0 l) ∨ signOf (P m p0 l) ∈ st.1

theorem classify_cases (m : ℕ) (p : List K) (hp : p.length = numNodes m) (sg : List Int) (und : List (List K)) :
    (∃ s, classify p sg und = (addSign sg s, und) ∧ ∀ μ, InTri μ → signOf (P m p μ) = s) ∨
      classify p sg und = (sg, und ++ [p]) := by
  unfold classify
  split_ifs with h0 h1 h2
  · left
    refine ⟨0, rfl, fun μ _ => ?_⟩
    rw [signOf_eq_zero]
    apply P_zero
    intro x hx
    simpa using List.all_eq_true.mp h0 x hx
  · left
    refine ⟨1, rfl, fun μ hμ => ?_⟩
    rw [signOf_eq_one]
    apply coeffs_gt m p hp 0 _ μ hμ
    intro x hx
    simpa using List.all_eq_true.mp h1 x hx
  · left
    refine ⟨-1, rfl, fun μ hμ => ?_⟩
    rw [signOf_eq_neg_one]
    apply coeffs_lt m p hp 0 _ μ hμ
    intro x hx
    simpa using List.all_eq_true.mp h2 x hx
  · right; rfl

theorem corners_wit (m : ℕ) (p0 p : List K) (hp : Sub m p0 p) (s : Int) (hs : s ∈ corners m p) : Wit m p0 s := by
  obtain ⟨c1, c2, c3⟩ := corner_values m p
  unfold corners at hs
  rw [hp.1, c1, c2, c3] at hs
  simp only [List.mem_cons, List.mem_nil_iff, or_false] at hs
  rcases hs with rfl | rfl | rfl
  · obtain ⟨l, hl, e⟩ := hp.2 _ inTri_c1; exact ⟨l, hl, by rw [e]⟩
  · obtain ⟨l, hl, e⟩ := hp.2 _ inTri_c2; exact ⟨l, hl, by rw [e]⟩
  · obtain ⟨l, hl, e⟩ := hp.2 _ inTri_c3; exact ⟨l, hl, by rw [e]⟩

theorem step_inv (m : ℕ) (p0 : List K) (st : List Int × List (List K) × Bool) (p : List K) (rem : List (List K))
    (hG : Good m p0 st) (hC : CovSt m p0 st (p :: rem)) (hp : Sub m p0 p) :
    Good m p0 (stepF m st p) ∧ CovSt m p0 (stepF m st p) rem := by
  unfold stepF
  by_cases hc : st.2.2 = true
  · rw [if_pos hc]
    exact ⟨hG, fun h => by rw [hc] at h; exact absurd h (by decide)⟩
  · rw [if_neg hc]
    have hcf : st.2.2 = false := by simpa using hc
    obtain ⟨gW, gN, gU, _, _⟩ := hG
    have W1 : ∀ s ∈ (corners m p).foldl addSign st.1, Wit m p0 s := by
      intro s hs
      rcases (mem_foldl_addSign _ _ _).mp hs with h | h
      · exact gW s h
      · exact corners_wit m p0 p hp s h
    have N1 := nodup_foldl_addSign (corners m p) st.1 gN
    have M1 : ∀ x ∈ st.1, x ∈ (corners m p).foldl addSign st.1 :=
      fun x hx => (mem_foldl_addSign _ _ _).mpr (Or.inl hx)
    have hcov := hC hcf
    rcases classify_cases m p hp.1 ((corners m p).foldl addSign st.1) st.2.1 with ⟨s, e, hs⟩ | e
    · simp only [e]
      refine ⟨⟨?_, nodup_addSign _ _ N1, gU, ?_, ?_⟩, ?_⟩
      · intro x hx
        rcases (mem_addSign _ _ _).mp hx with h | rfl
        · exact W1 x h
        · obtain ⟨l, hl, e'⟩ := hp.2 _ inTri_c1
          exact ⟨l, hl, by rw [← e']; exact hs _ inTri_c1⟩
      · intro h; simpa using h
      · intro h; simpa using h
      · intro _ l hl
        rcases hcov l hl with ⟨q, hq, μ, hμ, e'⟩ | h
        · rw [List.mem_append, List.mem_cons] at hq
          rcases hq with hq | rfl | hq
          · exact Or.inl ⟨q, List.mem_append_left _ hq, μ, hμ, e'⟩
          · right
            rw [← e', hs μ hμ]
            exact (mem_addSign _ _ _).mpr (Or.inr rfl)
          · exact Or.inl ⟨q, List.mem_append_right _ hq, μ, hμ, e'⟩
        · exact Or.inr ((mem_addSign _ _ _).mpr (Or.inl (M1 _ h)))
    · simp only [e]
      refine ⟨⟨W1, N1, ?_, ?_, ?_⟩, ?_⟩
      · intro u hu
        rcases List.mem_append.mp hu with h | h
        · exact gU u h
        · rw [List.mem_singleton] at h; subst h; exact hp
      · intro h; simpa using h
      · intro h; simpa using h
      · intro _ l hl
        rcases hcov l hl with ⟨q, hq, μ, hμ, e'⟩ | h
        · left
          refine ⟨q, ?_, μ, hμ, e'⟩
          simp only [List.mem_append, List.mem_cons, List.mem_nil_iff, or_false] at hq ⊢
          tauto
        · exact Or.inr (M1 _ h)

theorem fold_inv (m : ℕ) (p0 : List K) : ∀ (polys : List (List K)) (st : List Int × List (List K) × Bool),
    Good m p0 st → CovSt m p0 st polys → (∀ p ∈ polys, Sub m p0 p) →
    Good m p0 (polys.foldl (stepF m) st) ∧ CovSt m p0 (polys.foldl (stepF m) st) [] := by
  intro polys
  induction polys with
  | nil => intro st hG hC _; exact ⟨hG, hC⟩
  | cons p ps ih =>
    intro st hG hC hS
    obtain ⟨g, c⟩ := step_inv m p0 st p ps hG hC (hS p List.mem_cons_self)
    exact ih _ g c (fun q hq => hS q (List.mem_cons_of_mem _ hq))

/-- what a result of the sign test means for the root polynomial -/
def Concl (m : ℕ) (p0 : List K) (r : Int) : Prop :=
  (r = 1 ∨ r = -1 ∨ r = 0) ∧
  (r = 1 → ∀ l, InTri l → 0 < P m p0 l) ∧ (r = -1 → ∀ l, InTri l → P m p0 l < 0) ∧
  (r = 0 → ∃ l μ, InTri l ∧ InTri μ ∧ P m p0 l ≤ 0 ∧ 0 ≤ P m p0 μ)

theorem two_signs (m : ℕ) (p0 : List K) (a b : Int) (hab : a ≠ b) (ha : Wit m p0 a) (hb : Wit m p0 b) :
    ∃ l μ, InTri l ∧ InTri μ ∧ P m p0 l ≤ 0 ∧ 0 ≤ P m p0 μ := by
  obtain ⟨la, hla, ea⟩ := ha
  obtain ⟨lb, hlb, eb⟩ := hb
  rcases lt_trichotomy (P m p0 la) 0 with h1 | h1 | h1 <;>
    rcases lt_trichotomy (P m p0 lb) 0 with h2 | h2 | h2
  · exact absurd (by rw [← ea, ← eb, (signOf_eq_neg_one _).mpr h1, (signOf_eq_neg_one _).mpr h2]) hab
  · exact ⟨la, lb, hla, hlb, h1.le, h2.ge⟩
  · exact ⟨la, lb, hla, hlb, h1.le, h2.le⟩
  · exact ⟨lb, la, hlb, hla, h2.le, h1.ge⟩
  · exact absurd (by rw [← ea, ← eb, (signOf_eq_zero _).mpr h1, (signOf_eq_zero _).mpr h2]) hab
  · exact ⟨la, lb, hla, hlb, h1.le, h2.le⟩
  · exact ⟨lb, la, hlb, hla, h2.le, h1.le⟩
  · exact ⟨lb, la, hlb, hla, h2.le, h1.le⟩
  · exact absurd (by rw [← ea, ← eb, (signOf_eq_one _).mpr h1, (signOf_eq_one _).mpr h2]) hab

theorem go_sound (m : ℕ) (p0 : List K) (subdiv : List K → List (List K)) (hcov : CoversW m subdiv) :
    ∀ (fuel : ℕ) (signs : List Int) (polys : List (List K)) (r : Int),
      (∀ s ∈ signs, Wit m p0 s) → signs.Nodup → signs.length ≤ 1 → (∀ q ∈ polys, Sub m p0 q) →
      (∀ l, InTri l → (∃ q ∈ polys, ∃ μ, InTri μ ∧ P m q μ = P m p0 l) ∨ signOf (P m p0 l) ∈ signs) →
      polynomialSign.go subdiv (level m) fuel signs polys = .ok r → Concl m p0 r := by
  intro fuel
  induction fuel with
  | zero => intro signs polys r _ _ _ _ _ h; rw [go_zero] at h; cases h
  | succ fuel ih =>
    intro signs polys r hW hN hL hS hC h
    rw [go_succ] at h
    have hG0 : Good m p0 (signs, ([] : List (List K)), false) :=
      ⟨hW, hN, fun u hu => (by cases hu), fun h => (by cases h), fun _ => hL⟩
    have hC0 : CovSt m p0 (signs, ([] : List (List K)), false) polys := by
      intro _ l hl
      simpa using hC l hl
    obtain ⟨⟨gW, gN, gU, gT, gF⟩, gC⟩ := fold_inv m p0 polys _ hG0 hC0 hS
    have e : polys.foldl (stepF m) (signs, [], false) = level m signs polys := rfl
    rw [e] at gW gN gU gT gF gC
    generalize level m signs polys = st at *
    obtain ⟨sg, und, conflict⟩ := st
    simp only at gW gN gU gT gF gC h
    split_ifs at h with c1 c2 c3
    · -- conflict
      have hr : r = 0 := by cases h; rfl
      subst hr
      refine ⟨Or.inr (Or.inr rfl), fun h => absurd h (by decide), fun h => absurd h (by decide), fun _ => ?_⟩
      have hlen := gT c1
      match sg, gW, gN, hlen with
      | a :: b :: rest, gW, gN, _ =>
        have hab : a ≠ b := by
          intro hab; subst hab
          simp at gN
        exact two_signs m p0 a b hab (gW a (by simp)) (gW b (by simp))
    · -- nothing left to subdivide
      have hcf : conflict = false := by simpa using c1
      have hund : und = [] := by
        by_contra hne
        obtain ⟨u, hu⟩ := List.exists_mem_of_ne_nil und hne
        obtain ⟨q, hq, _⟩ := (hcov u (gU u hu).1).2 _ inTri_c1
        have : q ∈ und.flatMap subdiv := List.mem_flatMap.mpr ⟨u, hu, hq⟩
        rw [List.isEmpty_iff] at c2
        rw [c2] at this
        cases this
      subst hund
      have hall : ∀ l, InTri l → signOf (P m p0 l) ∈ sg := by
        intro l hl
        rcases gC hcf l hl with ⟨q, hq, _⟩ | h
        · cases hq
        · exact h
      have hlen := gF hcf
      match sg, hall, hlen, h with
      | [], hall, _, _ => exact absurd (hall _ inTri_c1) (by simp)
      | [s], hall, _, h =>
        have hr : r = s := by cases h; rfl
        subst hr
        have hall' : ∀ l, InTri l → signOf (P m p0 l) = r := fun l hl => by simpa using hall l hl
        refine ⟨?_, ?_, ?_, ?_⟩
        · rw [← hall' _ inTri_c1]; exact signOf_cases _
        · intro hr l hl; rw [← signOf_eq_one, hall' l hl, hr]
        · intro hr l hl; rw [← signOf_eq_neg_one, hall' l hl, hr]
        · intro hr
          have := (signOf_eq_zero _).mp ((hall' _ inTri_c1).trans hr)
          exact ⟨_, _, inTri_c1, inTri_c1, this.le, this.ge⟩
    · have hcf : conflict = false := by simpa using c1
      refine ih sg (und.flatMap subdiv) r gW gN (gF hcf) ?_ ?_ h
      · intro q hq
        obtain ⟨u, hu, hq⟩ := List.mem_flatMap.mp hq
        obtain ⟨hul, hus⟩ := gU u hu
        obtain ⟨hql, hqs⟩ := (hcov u hul).1 q hq
        refine ⟨hql, fun μ hμ => ?_⟩
        obtain ⟨l, hl, e1⟩ := hqs μ hμ
        obtain ⟨l', hl', e2⟩ := hus l hl
        exact ⟨l', hl', e1.trans e2⟩
      · intro l hl
        rcases gC hcf l hl with ⟨u, hu, μ, hμ, e1⟩ | h'
        · left
          rw [List.append_nil] at hu
          obtain ⟨q, hq, ν, hν, e2⟩ := (hcov u (gU u hu).1).2 μ hμ
          exact ⟨q, List.mem_flatMap.mpr ⟨u, hu, hq⟩, ν, hν, e2.trans e1⟩
        · exact Or.inr h'

/-- soundness of `polynomial_sign` under `Covers` -/
theorem sign_sound (m : ℕ) (subdiv : List K → List (List K)) (hcov : Covers m subdiv) (maxSub : ℕ)
    (p : List K) (hp : p.length = numNodes m) (r : Int)
    (h : polynomialSign subdiv maxSub m p = .ok r) : Concl m p r := by
  rw [polynomialSign_eq] at h
  refine go_sound m p subdiv hcov.weak maxSub [] [p] r (fun s hs => by cases hs) List.nodup_nil (by simp) ?_ ?_ h
  · intro q hq
    rw [List.mem_singleton] at hq; subst hq
    exact ⟨hp, fun μ hμ => ⟨μ, hμ, rfl⟩⟩
  · intro l hl
    exact Or.inl ⟨p, List.mem_singleton.mpr rfl, l, hl, rfl⟩

/-! ### the generic subdivision covers -/

/-- the four quarters cover the reference triangle, with local barycentric coordinates in `Δ` -/
theorem quarters_cover (l1 l2 l3 : K) (h1 : 0 ≤ l1) (h2 : 0 ≤ l2) (h3 : 0 ≤ l3) (hs : l1 + l2 + l3 = 1) :
    (∃ m1 m2 m3 : K, 0 ≤ m1 ∧ 0 ≤ m2 ∧ 0 ≤ m3 ∧ m1 + m2 + m3 = 1 ∧
        l1 = m1 + m2/2 + m3/2 ∧ l2 = m2/2 ∧ l3 = m3/2) ∨
    (∃ m1 m2 m3 : K, 0 ≤ m1 ∧ 0 ≤ m2 ∧ 0 ≤ m3 ∧ m1 + m2 + m3 = 1 ∧
        l1 = m2/2 + m3/2 ∧ l2 = m1/2 + m3/2 ∧ l3 = m1/2 + m2/2) ∨
    (∃ m1 m2 m3 : K, 0 ≤ m1 ∧ 0 ≤ m2 ∧ 0 ≤ m3 ∧ m1 + m2 + m3 = 1 ∧
        l1 = m1/2 ∧ l2 = m1/2 + m2 + m3/2 ∧ l3 = m3/2) ∨
    (∃ m1 m2 m3 : K, 0 ≤ m1 ∧ 0 ≤ m2 ∧ 0 ≤ m3 ∧ m1 + m2 + m3 = 1 ∧
        l1 = m1/2 ∧ l2 = m2/2 ∧ l3 = m1/2 + m2/2 + m3) := by
  by_cases hA : 1/2 ≤ l1
  · left; exact ⟨2*l1 - 1, 2*l2, 2*l3, by linarith, by linarith, by linarith, by linarith, by ring_nf; linarith, by ring, by ring⟩
  · by_cases hC : 1/2 ≤ l2
    · right; right; left
      exact ⟨2*l1, 2*l2 - 1, 2*l3, by linarith, by linarith, by linarith, by linarith, by ring, by ring_nf; linarith, by ring⟩
    · by_cases hD : 1/2 ≤ l3
      · right; right; right
        exact ⟨2*l1, 2*l2, 2*l3 - 1, by linarith, by linarith, by linarith, by linarith, by ring, by ring, by ring_nf; linarith⟩
      · right; left
        push Not at hA hC hD
        exact ⟨1 - 2*l1, 1 - 2*l2, 1 - 2*l3, by linarith, by linarith, by linarith, by linarith,
          by linarith, by linarith, by linarith⟩

/-- the four pieces of the generic branch of `subdivide_nodes` -/
def genericSubdiv (m : ℕ) (p : List K) : List (List K) :=
  [Quarter.A, Quarter.B, Quarter.C, Quarter.D].map (F90.triSubdivideGenericRow subWeights m p)

theorem half_eq : (1 : K) / (1 + 1) = 1 / 2 := by norm_num

theorem inTri_quarterWeights (qt : Quarter) :
    InTri (quarterWeights (subWeights (K := K)) qt).1 ∧ InTri (quarterWeights (subWeights (K := K)) qt).2.1 ∧
      InTri (quarterWeights (subWeights (K := K)) qt).2.2 := by
  cases qt <;> simp only [quarterWeights, subWeights, InTri, half_eq] <;>
    refine ⟨⟨?_, ?_, ?_, ?_⟩, ⟨?_, ?_, ?_, ?_⟩, ⟨?_, ?_, ?_, ?_⟩⟩ <;> norm_num

theorem restricts_generic (m : ℕ) (p : List K) (hp : p.length = numNodes m) (qt : Quarter) :
    Restricts m p (F90.triSubdivideGenericRow subWeights m p qt)
      (quarterWeights (subWeights (K := K)) qt).1 (quarterWeights (subWeights (K := K)) qt).2.1
      (quarterWeights (subWeights (K := K)) qt).2.2 := by
  obtain ⟨a, b, c⟩ := inTri_quarterWeights (K := K) qt
  exact ⟨a, b, c, fun μ => P_specialize m p hp _ _ _ μ⟩

theorem covers_generic (m : ℕ) : Covers (K := K) m (genericSubdiv m) := by
  intro p hp
  have hrow : p.length = rowStart m (m+1) := by rw [hp, numNodes_eq_rowStart]
  constructor
  · intro q hq
    unfold genericSubdiv at hq
    obtain ⟨qt, _, rfl⟩ := List.mem_map.mp hq
    refine ⟨?_, _, _, _, restricts_generic m p hp qt⟩
    unfold F90.triSubdivideGenericRow
    rw [F90_specializeRow_length m _ _ _ p hrow, hp]
  · intro l hl
    obtain ⟨l1, l2, l3⟩ := l
    obtain ⟨h1, h2, h3, hs⟩ := hl
    simp only at h1 h2 h3 hs
    have hmem : ∀ qt : Quarter, F90.triSubdivideGenericRow subWeights m p qt ∈ genericSubdiv m p := by
      intro qt; unfold genericSubdiv
      exact List.mem_map.mpr ⟨qt, by cases qt <;> simp, rfl⟩
    rcases quarters_cover l1 l2 l3 h1 h2 h3 hs with
      ⟨m1, m2, m3, a, b, c, d, e1, e2, e3⟩ | ⟨m1, m2, m3, a, b, c, d, e1, e2, e3⟩ |
      ⟨m1, m2, m3, a, b, c, d, e1, e2, e3⟩ | ⟨m1, m2, m3, a, b, c, d, e1, e2, e3⟩
    · refine ⟨_, hmem .A, _, _, _, restricts_generic m p hp .A, ⟨m1, m2, m3⟩, ⟨a, b, c, d⟩, ?_⟩
      simp only [bmap, quarterWeights, subWeights, half_eq, e1, e2, e3]
      congr 1 <;> ring
    · refine ⟨_, hmem .B, _, _, _, restricts_generic m p hp .B, ⟨m1, m2, m3⟩, ⟨a, b, c, d⟩, ?_⟩
      simp only [bmap, quarterWeights, subWeights, half_eq, e1, e2, e3]
      congr 1 <;> ring
    · refine ⟨_, hmem .C, _, _, _, restricts_generic m p hp .C, ⟨m1, m2, m3⟩, ⟨a, b, c, d⟩, ?_⟩
      simp only [bmap, quarterWeights, subWeights, half_eq, e1, e2, e3]
      congr 1 <;> ring
    · refine ⟨_, hmem .D, _, _, _, restricts_generic m p hp .D, ⟨m1, m2, m3⟩, ⟨a, b, c, d⟩, ?_⟩
      simp only [bmap, quarterWeights, subWeights, half_eq, e1, e2, e3]
      congr 1 <;> ring

end Sign

/-! ## the tables of `is_valid`, written out (general field); over ℚ they are the model-derived ones -/

section Tables
variable {K : Type} [Field K]

def H2 : List (List K) :=
  [[-2, -2, -1, -1, 0, 0, -1, -1, 0, 0, 0, 0],
   [2, 0, 0, -1, -2, -2, 1, 0, -1, -1, 0, 0],
   [0, 0, 1, 0, 2, 0, 0, 0, 1, 0, 0, 0],
   [0, 2, 0, 1, 0, 0, -1, 0, -1, -1, -2, -2],
   [0, 0, 0, 1, 0, 2, 1, 0, 1, 1, 2, 0],
   [0, 0, 0, 0, 0, 0, 0, 1, 0, 1, 0, 2]]

def T2 : List (List K) :=
  [[1, -1/2, 0, -1/2, 0, 0],
   [0, 2, 0, 0, 0, 0],
   [0, -1/2, 1, 0, -1/2, 0],
   [0, 0, 0, 2, 0, 0],
   [0, 0, 0, 0, 2, 0],
   [0, 0, 0, -1/2, -1/2, 1]]

def H3 : List (List K) :=
  [[-3, -3, -27/16, -27/16, -3/4, -3/4, -3/16, -3/16, 0, 0, -27/16, -27/16, -3/4, -3/4, -3/16, -3/16, 0, 0, -3/4, -3/4, -3/16, -3/16, 0, 0, -3/16, -3/16, 0, 0, 0, 0],
   [3, 0, 9/16, -9/8, -3/4, -3/2, -15/16, -9/8, 0, 0, 27/16, 0, 0, -3/4, -9/16, -3/4, 0, 0, 3/4, 0, -3/16, -3/8, 0, 0, 3/16, 0, 0, 0, 0, 0],
   [0, 0, 15/16, -3/16, 3/4, -3/4, -9/16, -27/16, -3, -3, 0, 0, 9/16, -3/16, 0, -3/4, -27/16, -27/16, 0, 0, 3/16, -3/16, -3/4, -3/4, 0, 0, -3/16, -3/16, 0, 0],
   [0, 0, 3/16, 0, 3/4, 0, 27/16, 0, 3, 0, 0, 0, 3/16, 0, 3/4, 0, 27/16, 0, 0, 0, 3/16, 0, 3/4, 0, 0, 0, 3/16, 0, 0, 0],
   [0, 3, 0, 27/16, 0, 3/4, 0, 3/16, 0, 0, -9/8, 9/16, -3/4, 0, -3/8, -3/16, 0, 0, -3/2, -3/4, -3/4, -9/16, 0, 0, -9/8, -15/16, 0, 0, 0, 0],
   [0, 0, 0, 9/8, 0, 3/2, 0, 9/8, 0, 0, 9/8, 0, 3/8, 3/8, -3/8, 0, -9/8, -9/8, 3/2, 0, 0, -3/8, -3/2, -3/2, 9/8, 0, -9/8, -9/8, 0, 0],
   [0, 0, 0, 3/16, 0, 3/4, 0, 27/16, 0, 3, 0, 0, 3/8, 3/16, 3/4, 3/4, 9/8, 27/16, 0, 0, 3/4, 3/16, 3/2, 3/4, 0, 0, 9/8, 3/16, 0, 0],
   [0, 0, 0, 0, 0, 0, 0, 0, 0, 0, -3/16, 15/16, -3/16, 9/16, -3/16, 3/16, -3/16, -3/16, -3/4, 3/4, -3/4, 0, -3/4, -3/4, -27/16, -9/16, -27/16, -27/16, -3, -3],
   [0, 0, 0, 0, 0, 0, 0, 0, 0, 0, 3/16, 0, 3/16, 3/8, 3/16, 3/4, 3/16, 9/8, 3/4, 0, 3/4, 3/4, 3/4, 3/2, 27/16, 0, 27/16, 9/8, 3, 0],
   [0, 0, 0, 0, 0, 0, 0, 0, 0, 0, 0, 3/16, 0, 3/16, 0, 3/16, 0, 3/16, 0, 3/4, 0, 3/4, 0, 3/4, 0, 27/16, 0, 27/16, 0, 3]]

def T4 : List (List K) :=
  [[36, -39, 26, -9, 0, -39, 26, -9, 0, 26, -9, 0, -9, 0, 0],
   [0, 144, -128, 48, 0, 0, -64, 32, 0, 0, 16, 0, 0, 0, 0],
   [0, -108, 240, -108, 0, 0, -24, -24, 0, 0, 12, 0, 0, 0, 0],
   [0, 48, -128, 144, 0, 0, 32, -64, 0, 0, 16, 0, 0, 0, 0],
   [0, -9, 26, -39, 36, 0, -9, 26, -39, 0, -9, 26, 0, -9, 0],
   [0, 0, 0, 0, 0, 144, -64, 16, 0, -128, 32, 0, 48, 0, 0],
   [0, 0, 0, 0, 0, 0, 288, -96, 0, 0, -96, 0, 0, 0, 0],
   [0, 0, 0, 0, 0, 0, -96, 288, 0, 0, -96, 0, 0, 0, 0],
   [0, 0, 0, 0, 0, 0, 16, -64, 144, 0, 32, -128, 0, 48, 0],
   [0, 0, 0, 0, 0, -108, -24, 12, 0, 240, -24, 0, -108, 0, 0],
   [0, 0, 0, 0, 0, 0, -96, -96, 0, 0, 288, 0, 0, 0, 0],
   [0, 0, 0, 0, 0, 0, 12, -24, -108, 0, -24, 240, 0, -108, 0],
   [0, 0, 0, 0, 0, 48, 32, 16, 0, -128, -64, 0, 144, 0, 0],
   [0, 0, 0, 0, 0, 0, 16, 32, 48, 0, -64, -128, 0, 144, 0],
   [0, 0, 0, 0, 0, -9, -9, -9, -9, 26, 26, 26, -39, -39, 36]]

end Tables

theorem H2_eq : jacobianHelper (K := ℚ) 55 2 2 = H2 := by decide +kernel
theorem T2_eq : toBernstein (K := ℚ) 55 2 = some T2 := by decide +kernel
theorem H3_eq : jacobianHelper (K := ℚ) 55 3 4 = H3 := by decide +kernel
theorem T4_eq : (toBernstein (K := ℚ) 55 4).map (fun m => m.map (fun r => r.map (fun x => 36 * x))) = some T4 := by
  decide +kernel

/-! ## `jacobianPolynomial … = det J` (explicit polynomial identities, `ring`) -/

section Poly
variable {K : Type} [Field K] [CharZero K]

theorem P1_explicit (a b c : K) (w : Bary K) : P 1 [a, b, c] w = w.l1 * a + w.l2 * b + w.l3 * c := by
  simp [P, triBern, netOf, rowStart, seq, Finset.sum_range_succ]
  try ring

theorem P2_explicit (c0 c1 c2 c3 c4 c5 : K) (w : Bary K) :
    P 2 [c0, c1, c2, c3, c4, c5] w = c0 * w.l1^2 + 2 * c1 * w.l1 * w.l2 + c2 * w.l2^2
      + 2 * c3 * w.l1 * w.l3 + 2 * c4 * w.l2 * w.l3 + c5 * w.l3^2 := by
  simp [P, triBern, netOf, rowStart, seq, Finset.sum_range_succ, Nat.choose]
  try ring

theorem evalRow1 (thr : ℕ) (a b c : K) (w : Bary K) :
    Py.evalBarycentricRow thr 1 [a, b, c] w = w.l1 * a + w.l2 * b + w.l3 * c := by
  rw [Py_evalBarycentricRow_eq thr 1 _ w (by simp [rowStart])]
  exact P1_explicit a b c w

theorem jacobianDet_2 (x0 x1 x2 x3 x4 x5 y0 y1 y2 y3 y4 y5 s t : K) :
    jacobianDet 55 2 [[x0, x1, x2, x3, x4, x5], [y0, y1, y2, y3, y4, y5]] s t =
      (2 * ((1 - s - t) * (x1 - x0) + s * (x2 - x1) + t * (x4 - x3))) *
        (2 * ((1 - s - t) * (y3 - y0) + s * (y4 - y1) + t * (y5 - y3))) -
      (2 * ((1 - s - t) * (y1 - y0) + s * (y2 - y1) + t * (y4 - y3))) *
        (2 * ((1 - s - t) * (x3 - x0) + s * (x4 - x1) + t * (x5 - x3))) := by
  have e : jacobianBoth 2 [[x0, x1, x2, x3, x4, x5], [y0, y1, y2, y3, y4, y5]] =
      [[((2:ℕ):K) * (x1 - x0), ((2:ℕ):K) * (x2 - x1), ((2:ℕ):K) * (x4 - x3)],
       [((2:ℕ):K) * (y1 - y0), ((2:ℕ):K) * (y2 - y1), ((2:ℕ):K) * (y4 - y3)],
       [((2:ℕ):K) * (x3 - x0), ((2:ℕ):K) * (x4 - x1), ((2:ℕ):K) * (x5 - x3)],
       [((2:ℕ):K) * (y3 - y0), ((2:ℕ):K) * (y4 - y1), ((2:ℕ):K) * (y5 - y3)]] := rfl
  unfold jacobianDet
  rw [e]
  have h21 : ¬ (2 = 1) := by decide
  simp only [h21, if_false, Nat.add_one_sub_one, Nat.reduceSub, Py.evalBarycentric, List.map, evalRow1, seq, List.getD_cons_zero, List.getD_cons_succ, cartesian]
  push_cast
  ring

theorem jacobian_polynomial_2 (x0 x1 x2 x3 x4 x5 y0 y1 y2 y3 y4 y5 s t : K) :
    P 2 (jacobianPolynomial H2 T2 [[x0, x1, x2, x3, x4, x5], [y0, y1, y2, y3, y4, y5]]) (cartesian s t)
      = jacobianDet 55 2 [[x0, x1, x2, x3, x4, x5], [y0, y1, y2, y3, y4, y5]] s t := by
  rw [jacobianDet_2]
  simp only [jacobianPolynomial, rowMul, ncols, col, dot, H2, T2, twoByTwoDet, seq, List.getD_cons_zero, List.getD_cons_succ,
    List.length_cons, List.length_nil, List.headD_cons, List.map_cons, List.map_nil, List.zipWith_cons_cons, List.zipWith_nil_right,
    List.foldl_cons, List.foldl_nil, List.range_succ, List.range_zero, List.nil_append, List.cons_append, List.length_map,
    List.length_append, Nat.reduceAdd, Nat.reduceDiv, Nat.reduceMul]
  rw [P2_explicit]
  simp only [cartesian]
  ring

theorem P4_explicit (c0 c1 c2 c3 c4 c5 c6 c7 c8 c9 c10 c11 c12 c13 c14 : K) (w : Bary K) :
    P 4 [c0, c1, c2, c3, c4, c5, c6, c7, c8, c9, c10, c11, c12, c13, c14] w = 1 * c0 * w.l1^4 * w.l2^0 * w.l3^0 + 4 * c1 * w.l1^3 * w.l2^1 * w.l3^0 + 6 * c2 * w.l1^2 * w.l2^2 * w.l3^0 + 4 * c3 * w.l1^1 * w.l2^3 * w.l3^0 + 1 * c4 * w.l1^0 * w.l2^4 * w.l3^0 + 4 * c5 * w.l1^3 * w.l2^0 * w.l3^1 + 12 * c6 * w.l1^2 * w.l2^1 * w.l3^1 + 12 * c7 * w.l1^1 * w.l2^2 * w.l3^1 + 4 * c8 * w.l1^0 * w.l2^3 * w.l3^1 + 6 * c9 * w.l1^2 * w.l2^0 * w.l3^2 + 12 * c10 * w.l1^1 * w.l2^1 * w.l3^2 + 6 * c11 * w.l1^0 * w.l2^2 * w.l3^2 + 4 * c12 * w.l1^1 * w.l2^0 * w.l3^3 + 4 * c13 * w.l1^0 * w.l2^1 * w.l3^3 + 1 * c14 * w.l1^0 * w.l2^0 * w.l3^4 := by
  simp [P, triBern, netOf, rowStart, seq, Finset.sum_range_succ, Nat.choose]
  try ring

theorem evalRow2 (thr : ℕ) (c0 c1 c2 c3 c4 c5 : K) (w : Bary K) :
    Py.evalBarycentricRow thr 2 [c0, c1, c2, c3, c4, c5] w = P 2 [c0, c1, c2, c3, c4, c5] w :=
  Py_evalBarycentricRow_eq thr 2 _ w (by simp [rowStart])

theorem P_map_div (m : ℕ) (p : List K) (c : K) (w : Bary K) : P m (p.map (fun x => x / c)) w = P m p w / c := by
  unfold P triBern
  rw [div_eq_mul_inv, Finset.sum_mul]
  apply Finset.sum_congr rfl; intro k _
  rw [Finset.sum_mul]
  apply Finset.sum_congr rfl; intro j _
  have : netOf m (p.map (fun x => x / c)) j k = netOf m p j k * c⁻¹ := by
    rw [← div_eq_mul_inv]
    unfold netOf seq
    by_cases h : rowStart m k + j < p.length
    · rw [List.getD_eq_getElem?_getD, List.getD_eq_getElem?_getD, List.getElem?_map,
        List.getElem?_eq_getElem h]; rfl
    · rw [List.getD_eq_getElem?_getD, List.getD_eq_getElem?_getD, List.getElem?_map,
        List.getElem?_eq_none (by omega)]; simp
  rw [this]; ring

theorem jacobianDet_3 (x0 x1 x2 x3 x4 x5 x6 x7 x8 x9 y0 y1 y2 y3 y4 y5 y6 y7 y8 y9 s t : K) :
    jacobianDet 55 3 [[x0, x1, x2, x3, x4, x5, x6, x7, x8, x9], [y0, y1, y2, y3, y4, y5, y6, y7, y8, y9]] s t =
      P 2 [3 * (x1 - x0), 3 * (x2 - x1), 3 * (x3 - x2), 3 * (x5 - x4), 3 * (x6 - x5), 3 * (x8 - x7)] (cartesian s t) * P 2 [3 * (y4 - y0), 3 * (y5 - y1), 3 * (y6 - y2), 3 * (y7 - y4), 3 * (y8 - y5), 3 * (y9 - y7)] (cartesian s t) -
      P 2 [3 * (y1 - y0), 3 * (y2 - y1), 3 * (y3 - y2), 3 * (y5 - y4), 3 * (y6 - y5), 3 * (y8 - y7)] (cartesian s t) * P 2 [3 * (x4 - x0), 3 * (x5 - x1), 3 * (x6 - x2), 3 * (x7 - x4), 3 * (x8 - x5), 3 * (x9 - x7)] (cartesian s t) := by
  have e : jacobianBoth 3 [[x0, x1, x2, x3, x4, x5, x6, x7, x8, x9], [y0, y1, y2, y3, y4, y5, y6, y7, y8, y9]] =
      [[((3:ℕ):K) * (x1 - x0), ((3:ℕ):K) * (x2 - x1), ((3:ℕ):K) * (x3 - x2), ((3:ℕ):K) * (x5 - x4), ((3:ℕ):K) * (x6 - x5), ((3:ℕ):K) * (x8 - x7)], [((3:ℕ):K) * (y1 - y0), ((3:ℕ):K) * (y2 - y1), ((3:ℕ):K) * (y3 - y2), ((3:ℕ):K) * (y5 - y4), ((3:ℕ):K) * (y6 - y5), ((3:ℕ):K) * (y8 - y7)],
       [((3:ℕ):K) * (x4 - x0), ((3:ℕ):K) * (x5 - x1), ((3:ℕ):K) * (x6 - x2), ((3:ℕ):K) * (x7 - x4), ((3:ℕ):K) * (x8 - x5), ((3:ℕ):K) * (x9 - x7)], [((3:ℕ):K) * (y4 - y0), ((3:ℕ):K) * (y5 - y1), ((3:ℕ):K) * (y6 - y2), ((3:ℕ):K) * (y7 - y4), ((3:ℕ):K) * (y8 - y5), ((3:ℕ):K) * (y9 - y7)]] := rfl
  unfold jacobianDet
  rw [e]
  have h31 : ¬ (3 = 1) := by decide
  simp only [h31, if_false, Nat.add_one_sub_one, Py.evalBarycentric, List.map, evalRow2, seq, List.getD_cons_zero, List.getD_cons_succ]
  push_cast
  ring

set_option maxHeartbeats 1000000 in
theorem jacobian_polynomial_3 (x0 x1 x2 x3 x4 x5 x6 x7 x8 x9 y0 y1 y2 y3 y4 y5 y6 y7 y8 y9 s t : K) :
    P 4 ((jacobianPolynomial H3 T4 [[x0, x1, x2, x3, x4, x5, x6, x7, x8, x9], [y0, y1, y2, y3, y4, y5, y6, y7, y8, y9]]).map (fun x => x / 36)) (cartesian s t)
      = jacobianDet 55 3 [[x0, x1, x2, x3, x4, x5, x6, x7, x8, x9], [y0, y1, y2, y3, y4, y5, y6, y7, y8, y9]] s t := by
  rw [jacobianDet_3, P_map_div]
  simp only [jacobianPolynomial, rowMul, ncols, col, dot, H3, T4, twoByTwoDet, seq, List.getD_cons_zero, List.getD_cons_succ,
    List.length_cons, List.length_nil, List.headD_cons, List.map_cons, List.map_nil, List.zipWith_cons_cons, List.zipWith_nil_right,
    List.foldl_cons, List.foldl_nil, List.range_succ, List.range_zero, List.nil_append, List.cons_append,
    Nat.reduceAdd, Nat.reduceDiv, Nat.reduceMul]
  rw [P4_explicit, P2_explicit, P2_explicit, P2_explicit, P2_explicit]
  simp only [cartesian]
  ring

end Poly

section Deriv
variable {K : Type} [Field K] [CharZero K]

/-! ### `(B_s, B_t)` are the formal partial derivatives; `jacobianDet` is their determinant -/

theorem jacobianDet_eq_partials [DecidableEq K] (thr d : ℕ) (xs ys : List K) (s t : K) :
    jacobianDet thr d [xs, ys] s t =
      (partialsAt thr d xs s t).1 * (partialsAt thr d ys s t).2 -
        (partialsAt thr d ys s t).1 * (partialsAt thr d xs s t).2 := by
  unfold jacobianDet partialsAt jacobianBoth
  by_cases h : d = 1
  · simp [h, seq]
  · simp [h, seq, Py.evalBarycentric]

theorem partialsAt_1 [DecidableEq K] (x0 x1 x2 s t : K) : partialsAt 55 1 [x0, x1, x2] s t = (x1 - x0, x2 - x0) := by
  have e1 : jacobianSRow 1 [x0, x1, x2] = [((1:ℕ):K) * (x1 - x0)] := rfl
  have e2 : jacobianTRow 1 [x0, x1, x2] = [((1:ℕ):K) * (x2 - x0)] := rfl
  unfold partialsAt
  rw [e1, e2]
  simp [seq]

theorem partialsAt_2 [DecidableEq K] (x0 x1 x2 x3 x4 x5 s t : K) :
    partialsAt 55 2 [x0, x1, x2, x3, x4, x5] s t =
      (P 1 [2 * (x1 - x0), 2 * (x2 - x1), 2 * (x4 - x3)] (cartesian s t), P 1 [2 * (x3 - x0), 2 * (x4 - x1), 2 * (x5 - x3)] (cartesian s t)) := by
  have e1 : jacobianSRow 2 [x0, x1, x2, x3, x4, x5] = [((2:ℕ):K) * (x1 - x0), ((2:ℕ):K) * (x2 - x1), ((2:ℕ):K) * (x4 - x3)] := rfl
  have e2 : jacobianTRow 2 [x0, x1, x2, x3, x4, x5] = [((2:ℕ):K) * (x3 - x0), ((2:ℕ):K) * (x4 - x1), ((2:ℕ):K) * (x5 - x3)] := rfl
  unfold partialsAt
  rw [e1, e2]
  have h21 : ¬ (2 = 1) := by decide
  simp only [h21, if_false, Nat.add_one_sub_one, evalRow1, P1_explicit]
  push_cast
  rfl

theorem partialsAt_3 [DecidableEq K] (x0 x1 x2 x3 x4 x5 x6 x7 x8 x9 s t : K) :
    partialsAt 55 3 [x0, x1, x2, x3, x4, x5, x6, x7, x8, x9] s t =
      (P 2 [3 * (x1 - x0), 3 * (x2 - x1), 3 * (x3 - x2), 3 * (x5 - x4), 3 * (x6 - x5), 3 * (x8 - x7)] (cartesian s t), P 2 [3 * (x4 - x0), 3 * (x5 - x1), 3 * (x6 - x2), 3 * (x7 - x4), 3 * (x8 - x5), 3 * (x9 - x7)] (cartesian s t)) := by
  have e1 : jacobianSRow 3 [x0, x1, x2, x3, x4, x5, x6, x7, x8, x9] = [((3:ℕ):K) * (x1 - x0), ((3:ℕ):K) * (x2 - x1), ((3:ℕ):K) * (x3 - x2), ((3:ℕ):K) * (x5 - x4), ((3:ℕ):K) * (x6 - x5), ((3:ℕ):K) * (x8 - x7)] := rfl
  have e2 : jacobianTRow 3 [x0, x1, x2, x3, x4, x5, x6, x7, x8, x9] = [((3:ℕ):K) * (x4 - x0), ((3:ℕ):K) * (x5 - x1), ((3:ℕ):K) * (x6 - x2), ((3:ℕ):K) * (x7 - x4), ((3:ℕ):K) * (x8 - x5), ((3:ℕ):K) * (x9 - x7)] := rfl
  unfold partialsAt
  rw [e1, e2]
  have h31 : ¬ (3 = 1) := by decide
  simp only [h31, if_false, Nat.add_one_sub_one, evalRow2]
  push_cast
  rfl

theorem P3_explicit (c0 c1 c2 c3 c4 c5 c6 c7 c8 c9 : K) (w : Bary K) :
    P 3 [c0, c1, c2, c3, c4, c5, c6, c7, c8, c9] w = 1 * c0 * w.l1^3 * w.l2^0 * w.l3^0 + 3 * c1 * w.l1^2 * w.l2^1 * w.l3^0 + 3 * c2 * w.l1^1 * w.l2^2 * w.l3^0 + 1 * c3 * w.l1^0 * w.l2^3 * w.l3^0 + 3 * c4 * w.l1^2 * w.l2^0 * w.l3^1 + 6 * c5 * w.l1^1 * w.l2^1 * w.l3^1 + 3 * c6 * w.l1^0 * w.l2^2 * w.l3^1 + 3 * c7 * w.l1^1 * w.l2^0 * w.l3^2 + 3 * c8 * w.l1^0 * w.l2^1 * w.l3^2 + 1 * c9 * w.l1^0 * w.l2^0 * w.l3^3 := by
  simp [P, triBern, netOf, rowStart, seq, Finset.sum_range_succ, Nat.choose]
  try ring

/-- degree 1: the map is affine with the constant partial derivatives `(B_s, B_t)` -/
theorem taylor_1 [DecidableEq K] (x0 x1 x2 s t h k : K) :
    P 1 [x0, x1, x2] (cartesian (s + h) (t + k)) = P 1 [x0, x1, x2] (cartesian s t)
      + h * (partialsAt 55 1 [x0, x1, x2] s t).1 + k * (partialsAt 55 1 [x0, x1, x2] s t).2 := by
  rw [partialsAt_1, P1_explicit, P1_explicit]
  simp only [cartesian]
  ring

/-- degree 2: Taylor expansion with explicit second-order remainder -/
theorem taylor_2 [DecidableEq K] (x0 x1 x2 x3 x4 x5 s t h k : K) :
    P 2 [x0, x1, x2, x3, x4, x5] (cartesian (s + h) (t + k)) = P 2 [x0, x1, x2, x3, x4, x5] (cartesian s t)
      + h * (partialsAt 55 2 [x0, x1, x2, x3, x4, x5] s t).1 + k * (partialsAt 55 2 [x0, x1, x2, x3, x4, x5] s t).2
      + (h^2 * (x0 + x2 - 2 * x1) + h * k * (-2 * x1 - 2 * x3 + 2 * x0 + 2 * x4) + k^2 * (x0 + x5 - 2 * x3)) := by
  rw [partialsAt_2, P2_explicit, P2_explicit, P1_explicit, P1_explicit]
  simp only [cartesian]
  ring

/-- degree 3: Taylor expansion with explicit second-order remainder -/
theorem taylor_3 [DecidableEq K] (x0 x1 x2 x3 x4 x5 x6 x7 x8 x9 s t h k : K) :
    P 3 [x0, x1, x2, x3, x4, x5, x6, x7, x8, x9] (cartesian (s + h) (t + k)) = P 3 [x0, x1, x2, x3, x4, x5, x6, x7, x8, x9] (cartesian s t)
      + h * (partialsAt 55 3 [x0, x1, x2, x3, x4, x5, x6, x7, x8, x9] s t).1 + k * (partialsAt 55 3 [x0, x1, x2, x3, x4, x5, x6, x7, x8, x9] s t).2
      + (h^2 * (-6 * x1 + 3 * x0 + 3 * x2 + h * x3 - h * x0 - 9 * s * x2 - 6 * k * x5 - 6 * t * x5 - 3 * h * x2 - 3 * k * x0 - 3 * k * x2 - 3 * s * x0 - 3 * t * x0 - 3 * t * x2 + 3 * h * x1 + 3 * k * x4 + 3 * k * x6 + 3 * s * x3 + 3 * t * x4 + 3 * t * x6 + 6 * k * x1 + 6 * t * x1 + 9 * s * x1)
        + h * k * (-6 * x1 - 6 * x4 + 6 * x0 + 6 * x5 - 12 * s * x5 - 12 * t * x5 - 6 * s * x0 - 6 * s * x2 - 6 * t * x0 - 6 * t * x7 + 6 * s * x4 + 6 * s * x6 + 6 * t * x1 + 6 * t * x8 + 12 * s * x1 + 12 * t * x4)
        + k^2 * (-6 * x4 + 3 * x0 + 3 * x7 + k * x9 - k * x0 - 9 * t * x7 - 6 * h * x5 - 6 * s * x5 - 3 * h * x0 - 3 * h * x7 - 3 * k * x7 - 3 * s * x0 - 3 * s * x7 - 3 * t * x0 + 3 * h * x1 + 3 * h * x8 + 3 * k * x4 + 3 * s * x1 + 3 * s * x8 + 3 * t * x9 + 6 * h * x4 + 6 * s * x4 + 9 * t * x4)) := by
  rw [partialsAt_3, P3_explicit, P3_explicit, P2_explicit, P2_explicit]
  simp only [cartesian]
  ring

end Deriv

/-! ## soundness of `isValid` -/

section Valid
variable {K : Type} [Field K] [LinearOrder K] [IsStrictOrderedRing K]

theorem list_len3 (l : List K) (h : l.length = 3) : ∃ a b c, l = [a, b, c] := by
  rcases l with _ | ⟨a, _ | ⟨b, _ | ⟨c, _ | ⟨d, l⟩⟩⟩⟩ <;> simp at h
  exact ⟨a, b, c, rfl⟩

theorem list_len6 (l : List K) (h : l.length = 6) : ∃ a b c d e f, l = [a, b, c, d, e, f] := by
  rcases l with _ | ⟨a, _ | ⟨b, _ | ⟨c, _ | ⟨d, _ | ⟨e, _ | ⟨f, _ | ⟨g, l⟩⟩⟩⟩⟩⟩⟩ <;> simp at h
  exact ⟨a, b, c, d, e, f, rfl⟩

theorem list_len10 (l : List K) (h : l.length = 10) :
    ∃ a0 a1 a2 a3 a4 a5 a6 a7 a8 a9, l = [a0, a1, a2, a3, a4, a5, a6, a7, a8, a9] := by
  rcases l with _ | ⟨a0, _ | ⟨a1, _ | ⟨a2, _ | ⟨a3, _ | ⟨a4, _ | ⟨a5, _ | ⟨a6, _ | ⟨a7, _ | ⟨a8, _ | ⟨a9, _ | ⟨b, l⟩⟩⟩⟩⟩⟩⟩⟩⟩⟩⟩ <;>
    simp at h
  exact ⟨a0, a1, a2, a3, a4, a5, a6, a7, a8, a9, rfl⟩

theorem inTri_eq_cartesian (l : Bary K) (hl : InTri l) : l = cartesian l.l2 l.l3 := by
  obtain ⟨l1, l2, l3⟩ := l
  obtain ⟨_, _, _, hs⟩ := hl
  simp only at hs
  simp only [cartesian]
  congr 1
  linarith

/-- the Bernstein coefficients computed by `quadratic_jacobian_polynomial` are those of `det J` -/
theorem jacobian_polynomial_2' (xs ys : List K) (hx : xs.length = 6) (hy : ys.length = 6) (s t : K) :
    P 2 (jacobianPolynomial H2 T2 [xs, ys]) (cartesian s t) = jacobianDet 55 2 [xs, ys] s t := by
  obtain ⟨x0, x1, x2, x3, x4, x5, rfl⟩ := list_len6 xs hx
  obtain ⟨y0, y1, y2, y3, y4, y5, rfl⟩ := list_len6 ys hy
  exact jacobian_polynomial_2 ..

theorem jacobian_polynomial_3' (xs ys : List K) (hx : xs.length = 10) (hy : ys.length = 10) (s t : K) :
    P 4 ((jacobianPolynomial H3 T4 [xs, ys]).map (fun x => x / 36)) (cartesian s t)
      = jacobianDet 55 3 [xs, ys] s t := by
  obtain ⟨x0, x1, x2, x3, x4, x5, x6, x7, x8, x9, rfl⟩ := list_len10 xs hx
  obtain ⟨y0, y1, y2, y3, y4, y5, y6, y7, y8, y9, rfl⟩ := list_len10 ys hy
  exact jacobian_polynomial_3 ..

theorem jacobianPolynomial_length_2 (helper : List (List K)) (nodes : List (List K)) :
    (jacobianPolynomial helper T2 nodes).length = numNodes 2 := by
  simp [jacobianPolynomial, rowMul, ncols, T2, numNodes]

theorem jacobianPolynomial_length_3 (helper : List (List K)) (nodes : List (List K)) :
    (jacobianPolynomial helper T4 nodes).length = numNodes 4 := by
  simp [jacobianPolynomial, rowMul, ncols, T4, numNodes]

/-- degree 1: the determinant formed by `_compute_valid` is the (constant) Jacobian determinant -/
theorem jacobianDet_1 (x0 x1 x2 y0 y1 y2 s t : K) :
    jacobianDet 55 1 [[x0, x1, x2], [y0, y1, y2]] s t =
      twoByTwoDet (x1 - x0) (x2 - x1) (y1 - y0) (y2 - y1) := by
  have e : jacobianBoth 1 [[x0, x1, x2], [y0, y1, y2]] =
      [[((1:ℕ):K) * (x1 - x0)], [((1:ℕ):K) * (y1 - y0)], [((1:ℕ):K) * (x2 - x0)], [((1:ℕ):K) * (y2 - y0)]] := rfl
  unfold jacobianDet twoByTwoDet
  rw [e]
  simp only [if_true, List.map, seq, List.getD_cons_zero, List.getD_cons_succ]
  push_cast
  ring

/-- what a decided sign means for the triangle -/
theorem sign_to_det (m : ℕ) (subdiv : List K → List (List K)) (hcov : Covers m subdiv) (maxSub : ℕ)
    (poly : List K) (hp : poly.length = numNodes m) (det : K → K → K)
    (hdet : ∀ s t, P m poly (cartesian s t) = det s t) (r : Int)
    (h : polynomialSign subdiv maxSub m poly = .ok r) :
    (decide (r = 1) = true → ∀ s t : K, 0 ≤ s → 0 ≤ t → s + t ≤ 1 → 0 < det s t) ∧
    (decide (r = 1) = false → ∃ s t : K, 0 ≤ s ∧ 0 ≤ t ∧ s + t ≤ 1 ∧ det s t ≤ 0) := by
  obtain ⟨hr, h1, h2, h3⟩ := sign_sound m subdiv hcov maxSub poly hp r h
  constructor
  · intro hb s t hs ht hst
    rw [← hdet]
    exact h1 (by simpa using hb) _ (inTri_cartesian s t hs ht hst)
  · intro hb
    have hne : r ≠ 1 := by simpa using hb
    rcases hr with hr | hr | hr
    · exact absurd hr hne
    · refine ⟨0, 0, le_rfl, le_rfl, by simp, ?_⟩
      rw [← hdet]
      exact (h2 hr _ (inTri_cartesian 0 0 le_rfl le_rfl (by simp))).le
    · obtain ⟨l, _, hl, _, hle, _⟩ := h3 hr
      refine ⟨l.l2, l.l3, hl.2.1, hl.2.2.1, ?_, ?_⟩
      · have := hl.1; have := hl.2.2.2; linarith
      · rw [← hdet, ← inTri_eq_cartesian l hl]; exact hle

/-- **soundness of `is_valid`** (tables given explicitly) -/
theorem isValid_sound (subdiv2 subdiv4 : List K → List (List K)) (h2 : Covers 2 subdiv2) (h4 : Covers 4 subdiv4)
    (maxSub degree : ℕ) (xs ys : List K) (hx : xs.length = numNodes degree) (hy : ys.length = numNodes degree)
    (b : Bool) (h : isValid H2 T2 H3 T4 36 subdiv2 subdiv4 maxSub 2 degree [xs, ys] = .ok b) :
    (b = true → ∀ s t : K, 0 ≤ s → 0 ≤ t → s + t ≤ 1 → 0 < jacobianDet 55 degree [xs, ys] s t) ∧
    (b = false → ∃ s t : K, 0 ≤ s ∧ 0 ≤ t ∧ s + t ≤ 1 ∧ jacobianDet 55 degree [xs, ys] s t ≤ 0) := by
  unfold isValid at h
  simp only [ne_eq, not_true_eq_false, if_false, List.getD_cons_zero, List.getD_cons_succ] at h
  split_ifs at h with d1 d2 d3
  · subst d1
    obtain ⟨x0, x1, x2, rfl⟩ := list_len3 xs hx
    obtain ⟨y0, y1, y2, rfl⟩ := list_len3 ys hy
    simp only [seq, List.getD_cons_zero, List.getD_cons_succ, Except.ok.injEq] at h
    subst h
    constructor
    · intro hb s t _ _ _
      rw [jacobianDet_1]
      exact (signOf_eq_one _).mp (by simpa using hb)
    · intro hb
      refine ⟨0, 0, le_rfl, le_rfl, by simp, ?_⟩
      rw [jacobianDet_1]
      have : ¬ (signOf (twoByTwoDet (x1 - x0) (x2 - x1) (y1 - y0) (y2 - y1)) = 1) := by simpa using hb
      rw [signOf_eq_one] at this
      exact not_lt.mp this
  · subst d2
    cases hs : polynomialSign subdiv2 maxSub 2 (jacobianPolynomial H2 T2 [xs, ys]) with
    | error e => rw [hs] at h; cases h
    | ok r =>
      rw [hs] at h
      simp only [Except.ok.injEq] at h
      subst h
      exact sign_to_det 2 subdiv2 h2 maxSub _ (jacobianPolynomial_length_2 _ _) _
        (fun s t => jacobian_polynomial_2' xs ys hx hy s t) r hs
  · subst d3
    cases hs : polynomialSign subdiv4 maxSub 4 ((jacobianPolynomial H3 T4 [xs, ys]).map (fun x => x / 36)) with
    | error e => rw [hs] at h; cases h
    | ok r =>
      rw [hs] at h
      simp only [Except.ok.injEq] at h
      subst h
      exact sign_to_det 4 subdiv4 h4 maxSub _ (by rw [List.length_map, jacobianPolynomial_length_3]) _
        (fun s t => jacobian_polynomial_3' xs ys hx hy s t) r hs

/-! ### guards -/

theorem isValid_dimension (h2 tb2 h3 tb3 : List (List K)) (bf : K) (subdiv2 subdiv4 : List K → List (List K))
    (maxSub dimension degree : ℕ) (nodes : List (List K)) (hd : dimension ≠ 2) :
    isValid h2 tb2 h3 tb3 bf subdiv2 subdiv4 maxSub dimension degree nodes = .error .notImplemented := by
  unfold isValid; rw [if_pos hd]

theorem isValid_degree (h2 tb2 h3 tb3 : List (List K)) (bf : K) (subdiv2 subdiv4 : List K → List (List K))
    (maxSub degree : ℕ) (nodes : List (List K)) (d1 : degree ≠ 1) (d2 : degree ≠ 2) (d3 : degree ≠ 3) :
    isValid h2 tb2 h3 tb3 bf subdiv2 subdiv4 maxSub 2 degree nodes = .error .unsupportedDegree := by
  unfold isValid
  rw [if_neg (by simp), if_neg d1, if_neg d2, if_neg d3]

end Valid
end BezierVerif.ValidL
