import BezierVerif.Lemmas.PipelineInst
import BezierVerif.Lemmas.Coverage
import BezierVerif.Lemmas.HullConvex
import BezierVerif.Lemmas.Locate
import BezierVerif.Props.C04
import BezierVerif.Props.C16Hull

/-!
# Lemmas/Variants — congruence of the intersection pipeline in its primitives, and the
pure-Python / compiled variants of the concrete primitives (helpers of Props/C07Variants)

* Part 1 (any number type): `allIntersections`, `coincidentParameters`, `selfIntersections` are
  congruent in the record `Prims` and in the constants.  The refined form needs agreement of the
  two records only on predicates `S1`, `S2` on node arrays that are closed under the halving routine
  (the sub-curves of the first / second curve), and relates two sets of constants that may differ in
  `unhandledLinesRaise` (relation `Rel`: equal results, or the first run raised `ValueError`
  because the first set has the flag and the second has not).
* Part 2 (ordered field): the fields of `concretePrims true C` and `concretePrims false C` one by
  one, with the exact sets of inputs on which they differ.
-/

set_option linter.unusedSectionVars false
set_option linter.unusedVariables false

namespace BezierVerif.Variants

open Model

/-! ## Part 1: congruence (any number type) -/

section Generic
variable {K : Type} [Add K] [Sub K] [Mul K] [Div K] [Neg K] [OfNat K 0] [OfNat K 1] [NatCast K]
  [LT K] [DecidableLT K] [LE K] [DecidableLE K] [DecidableEq K]

/-- two records of primitives that agree field by field on every input are equal -/
theorem prims_ext (P Q : Prims K)
    (h1 : ∀ a b, P.bboxIntersect a b = Q.bboxIntersect a b)
    (h2 : ∀ a s e, P.bboxLineIntersect a s e = Q.bboxLineIntersect a s e)
    (h3 : ∀ a, P.linErrSq a = Q.linErrSq a)
    (h4 : ∀ a b c d, P.segmentIntersection a b c d = Q.segmentIntersection a b c d)
    (h5 : ∀ a b c d, P.parallelLines a b c d = Q.parallelLines a b c d)
    (h6 : ∀ a b, P.hullCollide a b = Q.hullCollide a b)
    (h7 : ∀ u v, P.vectorClose u v = Q.vectorClose u v)
    (h8 : ∀ v, P.wiggle v = Q.wiggle v)
    (h9 : ∀ v, P.inUnit v = Q.inUnit v)
    (h10 : ∀ s a t b, P.fullNewton s a t b = Q.fullNewton s a t b)
    (h11 : ∀ a p, P.locate a p = Q.locate a p)
    (h12 : ∀ a, P.subdivide a = Q.subdivide a)
    (h13 : ∀ a s t, P.specialize a s t = Q.specialize a s t) : P = Q := by
  cases P; cases Q
  simp only [Prims.mk.injEq]
  refine ⟨?_, ?_, ?_, ?_, ?_, ?_, ?_, ?_, ?_, ?_, ?_, ?_, ?_⟩
  · funext a b; exact h1 a b
  · funext a s e; exact h2 a s e
  · funext a; exact h3 a
  · funext a b c d; exact h4 a b c d
  · funext a b c d; exact h5 a b c d
  · funext a b; exact h6 a b
  · funext u v; exact h7 u v
  · funext v; exact h8 v
  · funext v; exact h9 v
  · funext s a t b; exact h10 s a t b
  · funext a p; exact h11 a p
  · funext a; exact h12 a
  · funext a s t; exact h13 a s t

/-- two sets of constants that agree except possibly in `unhandledLinesRaise`, where the second may
    only have the flag if the first has it -/
structure GeoAgree (G1 G2 : GeoConsts K) : Prop where
  errValSq : G1.errValSq = G2.errValSq
  maxRounds : G1.maxRounds = G2.maxRounds
  maxCandidates : G1.maxCandidates = G2.maxCandidates
  zeroThr : G1.zeroThr = G2.zeroThr
  ratioSq : G1.ratioSq = G2.ratioSq
  minWidth : G1.minWidth = G2.minWidth
  raise : G2.unhandledLinesRaise = true → G1.unhandledLinesRaise = true

theorem GeoAgree.refl (G : GeoConsts K) : GeoAgree G G := ⟨rfl, rfl, rfl, rfl, rfl, rfl, id⟩

/-- the constants with the flag `unhandledLinesRaise` set to `b` -/
def withRaise (G : GeoConsts K) (b : Bool) : GeoConsts K := { G with unhandledLinesRaise := b }

theorem GeoAgree.withRaise (G : GeoConsts K) (b : Bool) : GeoAgree (withRaise G true) (withRaise G b) :=
  ⟨rfl, rfl, rfl, rfl, rfl, rfl, fun _ => rfl⟩

/-- the relation between a run with `G1` and a run with `G2`: equal, or the first raised the
    "unhandled lines" `ValueError` that the second does not have -/
def Rel {α : Type} (G1 G2 : GeoConsts K) (x y : Except Err α) : Prop :=
  x = y ∨ (G1.unhandledLinesRaise = true ∧ G2.unhandledLinesRaise = false ∧ x = .error .valueError)

theorem Rel.of_eq {α : Type} {G1 G2 : GeoConsts K} {x y : Except Err α} (h : x = y) : Rel G1 G2 x y :=
  Or.inl h

theorem Rel.same {α : Type} {G : GeoConsts K} {x y : Except Err α} (h : Rel G G x y) : x = y := by
  rcases h with h | ⟨h1, h2, _⟩
  · exact h
  · rw [h1] at h2; cases h2

/-- what the pipeline needs of one side (the sub-curves of one of the two curves) -/
structure SideOK (P Q : Prims K) (S : List (List K) → Prop) : Prop where
  closed : ∀ a, S a → S (P.subdivide a).1 ∧ S (P.subdivide a).2
  subdivide : ∀ a, S a → P.subdivide a = Q.subdivide a
  linErrSq : ∀ a, S a → P.linErrSq a = Q.linErrSq a
  bboxLine : ∀ a s e, S a → P.bboxLineIntersect a s e = Q.bboxLineIntersect a s e

/-- agreement of two records of primitives on the inputs the round loop can form: node arrays of the
    first curve satisfy `S1`, of the second `S2` -/
structure AgreeOn (P Q : Prims K) (S1 S2 : List (List K) → Prop) : Prop where
  side1 : SideOK P Q S1
  side2 : SideOK P Q S2
  bboxIntersect : ∀ a b, S1 a → S2 b → P.bboxIntersect a b = Q.bboxIntersect a b
  hullCollide : ∀ a b, S1 a → S2 b → P.hullCollide a b = Q.hullCollide a b
  segmentIntersection : ∀ a b c d, P.segmentIntersection a b c d = Q.segmentIntersection a b c d
  parallelLines : ∀ a b c d, P.parallelLines a b c d = Q.parallelLines a b c d
  vectorClose : ∀ u v, P.vectorClose u v = Q.vectorClose u v
  wiggle : ∀ v, P.wiggle v = Q.wiggle v
  inUnit : ∀ v, P.inUnit v = Q.inUnit v

theorem SideOK.refl (P : Prims K) : SideOK P P (fun _ => True) :=
  ⟨fun _ _ => ⟨trivial, trivial⟩, fun _ _ => rfl, fun _ _ => rfl, fun _ _ _ _ => rfl⟩

theorem AgreeOn.refl (P : Prims K) : AgreeOn P P (fun _ => True) (fun _ => True) :=
  ⟨SideOK.refl P, SideOK.refl P, fun _ _ _ _ => rfl, fun _ _ _ _ => rfl, fun _ _ _ _ => rfl,
    fun _ _ _ _ => rfl, fun _ _ => rfl, fun _ => rfl, fun _ => rfl⟩

/-- the nets reachable from `n` by repeated halving with `sub`: the smallest closed predicate -/
inductive Reach (sub : List (List K) → List (List K) × List (List K)) (n : List (List K)) :
    List (List K) → Prop
  | base : Reach sub n n
  | left {a : List (List K)} : Reach sub n a → Reach sub n (sub a).1
  | right {a : List (List K)} : Reach sub n a → Reach sub n (sub a).2

theorem Reach.closed (sub : List (List K) → List (List K) × List (List K)) (n a : List (List K))
    (h : Reach sub n a) : Reach sub n (sub a).1 ∧ Reach sub n (sub a).2 := ⟨h.left, h.right⟩

/-- a closed predicate containing `n` contains everything reachable from `n` -/
theorem Reach.le (sub : List (List K) → List (List K) × List (List K)) (n : List (List K))
    (S : List (List K) → Prop) (hn : S n) (hc : ∀ a, S a → S (sub a).1 ∧ S (sub a).2) :
    ∀ a, Reach sub n a → S a := by
  intro a h
  induction h with
  | base => exact hn
  | left _ ih => exact (hc _ ih).1
  | right _ ih => exact (hc _ ih).2

/-! ### the pieces of one round -/

theorem addIntersection_geo {G1 G2 : GeoConsts K} (hG : GeoAgree G1 G2) (s t : K) (acc : List (K × K)) :
    addIntersection G1 s t acc = addIntersection G2 s t acc := by
  unfold addIntersection
  rw [hG.zeroThr, hG.ratioSq]

theorem fromShape_sub (P : Prims K) (G : GeoConsts K) (c : Cand K) : (fromShape P G c).sub = c.sub := by
  cases c with
  | lin c e => rfl
  | curve c =>
    unfold fromShape
    dsimp only
    split <;> rfl

theorem fromShape_congr {P Q : Prims K} {S : List (List K) → Prop} (h : SideOK P Q S)
    {G1 G2 : GeoConsts K} (hG : GeoAgree G1 G2) (c : Cand K) (hc : S c.sub.nodes) :
    fromShape P G1 c = fromShape Q G2 c := by
  cases c with
  | lin c e => rfl
  | curve c =>
    unfold fromShape
    dsimp only
    rw [h.linErrSq c.nodes hc, hG.errValSq]

theorem fromShape_curve_congr {P Q : Prims K} {S : List (List K) → Prop} (h : SideOK P Q S)
    {G1 G2 : GeoConsts K} (hG : GeoAgree G1 G2) (nodes : List (List K)) (a b : K) (hc : S nodes) :
    fromShape P G1 (.curve ⟨nodes, a, b⟩) = fromShape Q G2 (.curve ⟨nodes, a, b⟩) :=
  fromShape_congr h hG _ hc

theorem subdivideCand_congr {P Q : Prims K} {S : List (List K) → Prop} (h : SideOK P Q S)
    {G1 G2 : GeoConsts K} (hG : GeoAgree G1 G2) (c : Cand K) (hc : S c.sub.nodes) :
    subdivideCand P G1 c = subdivideCand Q G2 c ∧ ∀ c' ∈ subdivideCand P G1 c, S c'.sub.nodes := by
  cases c with
  | lin c e =>
    refine ⟨rfl, ?_⟩
    intro c' hc'
    simp only [subdivideCand, List.mem_singleton] at hc'
    subst hc'
    exact hc
  | curve c =>
    have hcl := h.closed c.nodes hc
    have hs := h.subdivide c.nodes hc
    constructor
    · unfold subdivideCand
      dsimp only
      rw [← hs]
      rw [fromShape_curve_congr h hG _ _ _ hcl.1, fromShape_curve_congr h hG _ _ _ hcl.2]
    · intro c' hc'
      unfold subdivideCand at hc'
      dsimp only at hc'
      simp only [List.mem_cons, List.not_mem_nil, or_false] at hc'
      rcases hc' with rfl | rfl
      · rw [fromShape_sub]; exact hcl.1
      · rw [fromShape_sub]; exact hcl.2

theorem tangentBbox_congr {P Q : Prims K} (hv : ∀ u v, P.vectorClose u v = Q.vectorClose u v)
    {G1 G2 : GeoConsts K} (hG : GeoAgree G1 G2) (first second : SubCurve K) (acc : List (K × K)) :
    tangentBbox P G1 first second acc = tangentBbox Q G2 first second acc := by
  simp only [tangentBbox, endpointCheck, hv, addIntersection_geo hG]

/-- `from_linearized`: the only place where `unhandledLinesRaise` is read -/
theorem fromLinearized_rel {P Q : Prims K} {G1 G2 : GeoConsts K} (hG : GeoAgree G1 G2)
    (hseg : ∀ a b c d, P.segmentIntersection a b c d = Q.segmentIntersection a b c d)
    (hin : ∀ v, P.inUnit v = Q.inUnit v) (hw : ∀ v, P.wiggle v = Q.wiggle v)
    (orig1 orig2 : List (List K)) (hN : ∀ s t, P.fullNewton s orig1 t orig2 = Q.fullNewton s orig1 t orig2)
    (c1 : SubCurve K) (e1 : K) (c2 : SubCurve K) (e2 : K)
    (hh : P.hullCollide c1.nodes c2.nodes = Q.hullCollide c1.nodes c2.nodes) (acc : List (K × K)) :
    Rel G1 G2 (fromLinearized P G1 orig1 orig2 c1 e1 c2 e2 acc) (fromLinearized Q G2 orig1 orig2 c1 e1 c2 e2 acc) := by
  unfold fromLinearized
  simp only [hseg, hin, hw, hN, hh, addIntersection_geo hG]
  cases hs : Q.segmentIntersection (firstNode c1.nodes) (lastNode c1.nodes) (firstNode c2.nodes) (lastNode c2.nodes) with
  | some st => exact Or.inl rfl
  | none =>
    dsimp only
    by_cases he : e1 = 0 ∧ e2 = 0
    · cases h1 : G1.unhandledLinesRaise <;> cases h2 : G2.unhandledLinesRaise
      · exact Or.inl rfl
      · have := hG.raise h2; rw [h1] at this; cases this
      · right
        refine ⟨h1, h2, ?_⟩
        rw [if_pos ⟨he.1, he.2, rfl⟩]
      · exact Or.inl rfl
    · have n1 : ¬ (e1 = 0 ∧ e2 = 0 ∧ G1.unhandledLinesRaise = true) := fun h => he ⟨h.1, h.2.1⟩
      have n2 : ¬ (e1 = 0 ∧ e2 = 0 ∧ G2.unhandledLinesRaise = true) := fun h => he ⟨h.1, h.2.1⟩
      rw [if_neg n1, if_neg n2]
      exact Or.inl rfl

/-- the invariant of a candidate pair -/
def PairOK (S1 S2 : List (List K) → Prop) (pr : Cand K × Cand K) : Prop :=
  S1 pr.1.sub.nodes ∧ S2 pr.2.sub.nodes

theorem mem_pairs {α : Type} (l1 l2 : List α) (pr : α × α)
    (h : pr ∈ l1.flatMap (fun a => l2.map (fun b => (a, b)))) : pr.1 ∈ l1 ∧ pr.2 ∈ l2 := by
  simp only [List.mem_flatMap, List.mem_map] at h
  obtain ⟨a, ha, b, hb, rfl⟩ := h
  exact ⟨ha, hb⟩

/-- one candidate pair -/
theorem intersectPair_rel {P Q : Prims K} {S1 S2 : List (List K) → Prop} (h : AgreeOn P Q S1 S2)
    {G1 G2 : GeoConsts K} (hG : GeoAgree G1 G2) (orig1 orig2 : List (List K))
    (hN : ∀ s t, P.fullNewton s orig1 t orig2 = Q.fullNewton s orig1 t orig2)
    (first second : Cand K) (hp : PairOK S1 S2 (first, second)) (acc : List (K × K)) :
    Rel G1 G2 (intersectPair P G1 orig1 orig2 first second acc) (intersectPair Q G2 orig1 orig2 first second acc) ∧
    ∀ next acc', intersectPair P G1 orig1 orig2 first second acc = .ok (next, acc') →
      ∀ pr ∈ next, PairOK S1 S2 pr := by
  have h1 : S1 first.sub.nodes := hp.1
  have h2 : S2 second.sub.nodes := hp.2
  have hsub1 := subdivideCand_congr h.side1 hG first h1
  have hsub2 := subdivideCand_congr h.side2 hG second h2
  have htan := tangentBbox_congr h.vectorClose hG first.sub second.sub acc
  have hnext : ∀ pr ∈ (subdivideCand P G1 first).flatMap (fun a => (subdivideCand P G1 second).map (fun b => (a, b))),
      PairOK S1 S2 pr := fun pr hpr =>
    ⟨hsub1.2 _ (mem_pairs _ _ pr hpr).1, hsub2.2 _ (mem_pairs _ _ pr hpr).2⟩
  cases first with
  | lin c1 e1 =>
    cases second with
    | lin c2 e2 =>
      have hb := h.bboxIntersect c1.nodes c2.nodes h1 h2
      have hl := fromLinearized_rel hG h.segmentIntersection h.inUnit h.wiggle orig1 orig2 hN c1 e1 c2 e2
        (h.hullCollide c1.nodes c2.nodes h1 h2) acc
      unfold intersectPair
      simp only [Cand.isLin, Bool.and_self, Bool.not_true, Bool.false_eq_true, and_false, if_false, hb]
      constructor
      · split
        · exact Or.inl rfl
        · rcases hl with hl | ⟨a, b, hl⟩
          · rw [hl]; exact Or.inl rfl
          · rw [hl]; exact Or.inr ⟨a, b, rfl⟩
      · intro next acc' hr pr hpr
        split at hr
        · cases hr; cases hpr
        · split at hr
          · cases hr
          · cases hr; cases hpr
    | curve c2 =>
      have hb := h.side2.bboxLine c2.nodes (firstNode c1.nodes) (lastNode c1.nodes) h2
      unfold intersectPair
      simp only [Cand.isLin, Bool.and_false, Bool.not_false, and_true, hb]
      constructor
      · split
        · exact Or.inl rfl
        · split
          · rw [htan]; exact Or.inl rfl
          · rw [hsub1.1, hsub2.1]; exact Or.inl rfl
      · intro next acc' hr pr hpr
        split at hr
        · cases hr; cases hpr
        · split at hr
          · cases hr; cases hpr
          · cases hr; exact hnext pr hpr
  | curve c1 =>
    cases second with
    | lin c2 e2 =>
      have hb := h.side1.bboxLine c1.nodes (firstNode c2.nodes) (lastNode c2.nodes) h1
      unfold intersectPair
      simp only [Cand.isLin, Bool.false_and, Bool.not_false, and_true, hb]
      constructor
      · split
        · exact Or.inl rfl
        · split
          · rw [htan]; exact Or.inl rfl
          · rw [hsub1.1, hsub2.1]; exact Or.inl rfl
      · intro next acc' hr pr hpr
        split at hr
        · cases hr; cases hpr
        · split at hr
          · cases hr; cases hpr
          · cases hr; exact hnext pr hpr
    | curve c2 =>
      have hb := h.bboxIntersect c1.nodes c2.nodes h1 h2
      unfold intersectPair
      simp only [Cand.isLin, Bool.and_self, Bool.not_false, and_true, hb]
      constructor
      · split
        · exact Or.inl rfl
        · split
          · rw [htan]; exact Or.inl rfl
          · rw [hsub1.1, hsub2.1]; exact Or.inl rfl
      · intro next acc' hr pr hpr
        split at hr
        · cases hr; cases hpr
        · split at hr
          · cases hr; cases hpr
          · cases hr; exact hnext pr hpr


/-- the step function of the fold in `intersect_one_round` -/
def roundStep (P : Prims K) (G : GeoConsts K) (orig1 orig2 : List (List K))
    (st : Except Err (List (Cand K × Cand K) × List (K × K))) (pr : Cand K × Cand K) :
    Except Err (List (Cand K × Cand K) × List (K × K)) :=
  match st with
  | .error e => .error e
  | .ok (next, acc) =>
    match intersectPair P G orig1 orig2 pr.1 pr.2 acc with
    | .error e => .error e
    | .ok (more, acc') => .ok (next ++ more, acc')

theorem intersectOneRound_eq (P : Prims K) (G : GeoConsts K) (orig1 orig2 : List (List K))
    (cands : List (Cand K × Cand K)) (acc : List (K × K)) :
    intersectOneRound P G orig1 orig2 cands acc = cands.foldl (roundStep P G orig1 orig2) (.ok ([], acc)) := rfl

theorem foldl_roundStep_error (P : Prims K) (G : GeoConsts K) (orig1 orig2 : List (List K)) (e : Err) :
    ∀ cands : List (Cand K × Cand K), cands.foldl (roundStep P G orig1 orig2) (.error e) = .error e := by
  intro cands
  induction cands with
  | nil => rfl
  | cons pr rest ih => exact ih

theorem foldl_roundStep_rel {P Q : Prims K} {S1 S2 : List (List K) → Prop} (h : AgreeOn P Q S1 S2)
    {G1 G2 : GeoConsts K} (hG : GeoAgree G1 G2) (orig1 orig2 : List (List K))
    (hN : ∀ s t, P.fullNewton s orig1 t orig2 = Q.fullNewton s orig1 t orig2) :
    ∀ (cands : List (Cand K × Cand K)), (∀ pr ∈ cands, PairOK S1 S2 pr) →
      ∀ (st : Except Err (List (Cand K × Cand K) × List (K × K))),
        (∀ next acc, st = .ok (next, acc) → ∀ pr ∈ next, PairOK S1 S2 pr) →
        Rel G1 G2 (cands.foldl (roundStep P G1 orig1 orig2) st) (cands.foldl (roundStep Q G2 orig1 orig2) st) ∧
        ∀ next acc, cands.foldl (roundStep P G1 orig1 orig2) st = .ok (next, acc) → ∀ pr ∈ next, PairOK S1 S2 pr := by
  intro cands
  induction cands with
  | nil =>
    intro _ st hst
    exact ⟨Or.inl rfl, hst⟩
  | cons pr rest ih =>
    intro hc st hst
    have hrest : ∀ pr ∈ rest, PairOK S1 S2 pr := fun x hx => hc x (List.mem_cons_of_mem _ hx)
    simp only [List.foldl_cons]
    match st, hst with
    | .error e, _ =>
      simp only [roundStep]
      exact ih hrest (.error e) (fun _ _ hh => by cases hh)
    | .ok (next, acc), hst =>
      have hpair := intersectPair_rel h hG orig1 orig2 hN pr.1 pr.2 (hc pr List.mem_cons_self) acc
      have hnext := hst next acc rfl
      -- the state after this pair, first run
      have hstP : ∀ next' acc', roundStep P G1 orig1 orig2 (.ok (next, acc)) pr = .ok (next', acc') →
          ∀ x ∈ next', PairOK S1 S2 x := by
        intro next' acc' hr x hx
        simp only [roundStep] at hr
        cases hm : intersectPair P G1 orig1 orig2 pr.1 pr.2 acc with
        | error e => rw [hm] at hr; cases hr
        | ok r =>
          obtain ⟨more, acc''⟩ := r
          rw [hm] at hr
          cases hr
          rcases List.mem_append.1 hx with hx | hx
          · exact hnext x hx
          · exact hpair.2 more _ hm x hx
      rcases hpair.1 with he | ⟨a, b, he⟩
      · have hstep : roundStep P G1 orig1 orig2 (.ok (next, acc)) pr = roundStep Q G2 orig1 orig2 (.ok (next, acc)) pr := by
          simp only [roundStep, he]
        rw [← hstep]
        exact ih hrest _ hstP
      · have hstep : roundStep P G1 orig1 orig2 (.ok (next, acc)) pr = .error .valueError := by
          simp only [roundStep, he]
        rw [hstep, foldl_roundStep_error]
        exact ⟨Or.inr ⟨a, b, rfl⟩, fun _ _ hh => by cases hh⟩

theorem intersectOneRound_rel {P Q : Prims K} {S1 S2 : List (List K) → Prop} (h : AgreeOn P Q S1 S2)
    {G1 G2 : GeoConsts K} (hG : GeoAgree G1 G2) (orig1 orig2 : List (List K))
    (hN : ∀ s t, P.fullNewton s orig1 t orig2 = Q.fullNewton s orig1 t orig2)
    (cands : List (Cand K × Cand K)) (hc : ∀ pr ∈ cands, PairOK S1 S2 pr) (acc : List (K × K)) :
    Rel G1 G2 (intersectOneRound P G1 orig1 orig2 cands acc) (intersectOneRound Q G2 orig1 orig2 cands acc) ∧
    ∀ next acc', intersectOneRound P G1 orig1 orig2 cands acc = .ok (next, acc') → ∀ pr ∈ next, PairOK S1 S2 pr := by
  rw [intersectOneRound_eq, intersectOneRound_eq]
  exact foldl_roundStep_rel h hG orig1 orig2 hN cands hc _ (fun _ _ hh => by cases hh; intro pr hpr; cases hpr)

theorem pruneCandidates_congr {P Q : Prims K} {S1 S2 : List (List K) → Prop} (h : AgreeOn P Q S1 S2)
    (cands : List (Cand K × Cand K)) (hc : ∀ pr ∈ cands, PairOK S1 S2 pr) :
    pruneCandidates P cands = pruneCandidates Q cands := by
  unfold pruneCandidates
  apply List.filter_congr
  intro pr hpr
  exact h.hullCollide _ _ (hc pr hpr).1 (hc pr hpr).2

theorem pruneCandidates_sub (P : Prims K) (cands : List (Cand K × Cand K)) :
    ∀ pr ∈ pruneCandidates P cands, pr ∈ cands := fun pr hpr => (List.mem_filter.1 hpr).1

theorem checkLines_congr {P Q : Prims K}
    (hseg : ∀ a b c d, P.segmentIntersection a b c d = Q.segmentIntersection a b c d)
    (hpar : ∀ a b c d, P.parallelLines a b c d = Q.parallelLines a b c d)
    (hin : ∀ v, P.inUnit v = Q.inUnit v) (c1 c2 : Cand K) : checkLines P c1 c2 = checkLines Q c1 c2 := by
  unfold checkLines
  simp only [hseg, hpar, hin]

/-- `coincident_parameters`: agreement of `locate_point`, `specialize_curve` on the two (degree-matched)
    original curves and of `vector_close` -/
theorem coincidentParameters_congr {P Q : Prims K} {G1 G2 : GeoConsts K} (hG : GeoAgree G1 G2)
    (n1 n2 : List (List K))
    (hl1 : ∀ pt, P.locate (makeSameDegree n1 n2).1 pt = Q.locate (makeSameDegree n1 n2).1 pt)
    (hl2 : ∀ pt, P.locate (makeSameDegree n1 n2).2 pt = Q.locate (makeSameDegree n1 n2).2 pt)
    (hs1 : ∀ a b, P.specialize (makeSameDegree n1 n2).1 a b = Q.specialize (makeSameDegree n1 n2).1 a b)
    (hs2 : ∀ a b, P.specialize (makeSameDegree n1 n2).2 a b = Q.specialize (makeSameDegree n1 n2).2 a b)
    (hv : ∀ u v, P.vectorClose u v = Q.vectorClose u v) :
    coincidentParameters P G1 n1 n2 = coincidentParameters Q G2 n1 n2 := by
  unfold coincidentParameters
  generalize makeSameDegree n1 n2 = m at hl1 hl2 hs1 hs2
  obtain ⟨m1, m2⟩ := m
  simp only [hl1, hl2, hs1, hs2, hv, hG.minWidth]

/-- `coincident_parameters` when the second record's `locate_point` returns the first one's result with the error
    translated by `f` (all other primitives agreeing): the result is translated in the same way -/
theorem coincidentParameters_mapError {P Q : Prims K} (G : GeoConsts K) (n1 n2 : List (List K)) (f : Err → Err)
    (hl1 : ∀ pt, Q.locate (makeSameDegree n1 n2).1 pt = (P.locate (makeSameDegree n1 n2).1 pt).mapError f)
    (hl2 : ∀ pt, Q.locate (makeSameDegree n1 n2).2 pt = (P.locate (makeSameDegree n1 n2).2 pt).mapError f)
    (hs1 : ∀ a b, P.specialize (makeSameDegree n1 n2).1 a b = Q.specialize (makeSameDegree n1 n2).1 a b)
    (hs2 : ∀ a b, P.specialize (makeSameDegree n1 n2).2 a b = Q.specialize (makeSameDegree n1 n2).2 a b)
    (hv : ∀ u v, P.vectorClose u v = Q.vectorClose u v) :
    coincidentParameters Q G n1 n2 = (coincidentParameters P G n1 n2).mapError f := by
  unfold coincidentParameters
  generalize makeSameDegree n1 n2 = m at hl1 hl2 hs1 hs2
  obtain ⟨m1, m2⟩ := m
  simp only [hl1, hl2, ← hs1, ← hs2, ← hv]
  generalize P.locate m1 (firstNode m2) = A1
  generalize P.locate m1 (lastNode m2) = A2
  generalize P.locate m2 (firstNode m1) = B1
  generalize P.locate m2 (lastNode m1) = B2
  rcases A1 with e1 | (_ | a1) <;> rcases A2 with e2 | (_ | a2) <;> rcases B1 with e3 | (_ | b1) <;>
    rcases B2 with e4 | (_ | b2) <;> simp only [Except.mapError] <;> (try split_ifs) <;> (try rfl)

/-- the candidate list after the optional pruning -/
def afterPrune (P : Prims K) (G : GeoConsts K) (next : List (Cand K × Cand K)) : List (Cand K × Cand K) :=
  if next.length > G.maxCandidates then pruneCandidates P next else next

theorem rounds_succ (P : Prims K) (G : GeoConsts K) (n1 n2 : List (List K)) (f : Nat)
    (cands : List (Cand K × Cand K)) (acc : List (K × K)) :
    allIntersections.rounds P G n1 n2 (f + 1) cands acc =
      match intersectOneRound P G n1 n2 cands acc with
      | .error e => .error e
      | .ok (next, acc') =>
        if (afterPrune P G next).length > G.maxCandidates then
          match coincidentParameters P G n1 n2 with
          | .error e => .error e
          | .ok none => .error .notImplemented
          | .ok (some params) => .ok (params, true)
        else if (afterPrune P G next).isEmpty then .ok (acc', false)
        else allIntersections.rounds P G n1 n2 f (afterPrune P G next) acc' := rfl

theorem afterPrune_congr {P Q : Prims K} {S1 S2 : List (List K) → Prop} (h : AgreeOn P Q S1 S2)
    {G1 G2 : GeoConsts K} (hG : GeoAgree G1 G2) (next : List (Cand K × Cand K))
    (hc : ∀ pr ∈ next, PairOK S1 S2 pr) :
    afterPrune P G1 next = afterPrune Q G2 next ∧ ∀ pr ∈ afterPrune P G1 next, PairOK S1 S2 pr := by
  unfold afterPrune
  rw [← hG.maxCandidates, ← pruneCandidates_congr h next hc]
  refine ⟨rfl, ?_⟩
  intro pr hpr
  split at hpr
  · exact hc pr (pruneCandidates_sub P next pr hpr)
  · exact hc pr hpr

/-- `Rel`, or the two runs ended in the errors `e1` / `e2` (of `coincident_parameters`) -/
def Rel2 {α : Type} (G1 G2 : GeoConsts K) (e1 e2 : Err) (x y : Except Err α) : Prop :=
  Rel G1 G2 x y ∨ (x = .error e1 ∧ y = .error e2)

/-- the round loop; `coincident_parameters` may agree or fail with `e1` / `e2` -/
theorem rounds_rel2 {P Q : Prims K} {S1 S2 : List (List K) → Prop} (h : AgreeOn P Q S1 S2)
    {G1 G2 : GeoConsts K} (hG : GeoAgree G1 G2) (n1 n2 : List (List K))
    (hN : ∀ s t, P.fullNewton s n1 t n2 = Q.fullNewton s n1 t n2) (e1 e2 : Err)
    (hC : coincidentParameters P G1 n1 n2 = coincidentParameters Q G2 n1 n2 ∨
      (coincidentParameters P G1 n1 n2 = .error e1 ∧ coincidentParameters Q G2 n1 n2 = .error e2)) :
    ∀ (fuel : Nat) (cands : List (Cand K × Cand K)), (∀ pr ∈ cands, PairOK S1 S2 pr) → ∀ acc : List (K × K),
      Rel2 G1 G2 e1 e2 (allIntersections.rounds P G1 n1 n2 fuel cands acc)
        (allIntersections.rounds Q G2 n1 n2 fuel cands acc) := by
  intro fuel
  induction fuel with
  | zero => intro _ _ _; exact Or.inl (Or.inl rfl)
  | succ f ih =>
    intro cands hc acc
    have hround := intersectOneRound_rel h hG n1 n2 hN cands hc acc
    rw [rounds_succ, rounds_succ]
    rcases hround.1 with he | ⟨a, b, he⟩
    · rw [← he]
      cases hr : intersectOneRound P G1 n1 n2 cands acc with
      | error e => exact Or.inl (Or.inl rfl)
      | ok r =>
        obtain ⟨next, acc'⟩ := r
        have hnext := hround.2 next acc' hr
        have hap := afterPrune_congr h hG next hnext
        dsimp only
        rw [← hap.1, ← hG.maxCandidates]
        by_cases hc1 : (afterPrune P G1 next).length > G1.maxCandidates
        · rw [if_pos hc1, if_pos hc1]
          rcases hC with hC | ⟨hC1, hC2⟩
          · rw [← hC]; exact Or.inl (Or.inl rfl)
          · rw [hC1, hC2]; exact Or.inr ⟨rfl, rfl⟩
        · rw [if_neg hc1, if_neg hc1]
          by_cases hc2 : (afterPrune P G1 next).isEmpty = true
          · rw [if_pos hc2, if_pos hc2]; exact Or.inl (Or.inl rfl)
          · rw [if_neg hc2, if_neg hc2]
            exact ih _ hap.2 acc'
    · rw [he]
      exact Or.inl (Or.inr ⟨a, b, rfl⟩)

/-- **`all_intersections` is congruent in its primitives and constants**, most general form -/
theorem allIntersections_rel2 {P Q : Prims K} {S1 S2 : List (List K) → Prop} (h : AgreeOn P Q S1 S2)
    {G1 G2 : GeoConsts K} (hG : GeoAgree G1 G2) (n1 n2 : List (List K)) (h1 : S1 n1) (h2 : S2 n2)
    (hN : ∀ s t, P.fullNewton s n1 t n2 = Q.fullNewton s n1 t n2) (e1 e2 : Err)
    (hC : coincidentParameters P G1 n1 n2 = coincidentParameters Q G2 n1 n2 ∨
      (coincidentParameters P G1 n1 n2 = .error e1 ∧ coincidentParameters Q G2 n1 n2 = .error e2)) :
    Rel2 G1 G2 e1 e2 (allIntersections P G1 n1 n2) (allIntersections Q G2 n1 n2) := by
  unfold allIntersections
  dsimp only
  rw [← fromShape_curve_congr h.side1 hG n1 0 1 h1, ← fromShape_curve_congr h.side2 hG n2 0 1 h2,
    ← checkLines_congr h.segmentIntersection h.parallelLines h.inUnit, ← hG.maxRounds]
  split
  · exact Or.inl (Or.inl rfl)
  · apply rounds_rel2 h hG n1 n2 hN e1 e2 hC
    intro pr hpr
    simp only [List.mem_singleton] at hpr
    subst hpr
    exact ⟨by rw [fromShape_sub]; exact h1, by rw [fromShape_sub]; exact h2⟩

/-- the round loop, `coincident_parameters` agreeing -/
theorem rounds_rel {P Q : Prims K} {S1 S2 : List (List K) → Prop} (h : AgreeOn P Q S1 S2)
    {G1 G2 : GeoConsts K} (hG : GeoAgree G1 G2) (n1 n2 : List (List K))
    (hN : ∀ s t, P.fullNewton s n1 t n2 = Q.fullNewton s n1 t n2)
    (hC : coincidentParameters P G1 n1 n2 = coincidentParameters Q G2 n1 n2)
    (fuel : Nat) (cands : List (Cand K × Cand K)) (hc : ∀ pr ∈ cands, PairOK S1 S2 pr) (acc : List (K × K)) :
    Rel G1 G2 (allIntersections.rounds P G1 n1 n2 fuel cands acc) (allIntersections.rounds Q G2 n1 n2 fuel cands acc) := by
  rcases rounds_rel2 h hG n1 n2 hN .valueError .valueError (Or.inl hC) fuel cands hc acc with hr | ⟨h1, h2⟩
  · exact hr
  · exact Or.inl (h1.trans h2.symm)

/-- **`all_intersections` is congruent in its primitives and constants**, refined form -/
theorem allIntersections_rel {P Q : Prims K} {S1 S2 : List (List K) → Prop} (h : AgreeOn P Q S1 S2)
    {G1 G2 : GeoConsts K} (hG : GeoAgree G1 G2) (n1 n2 : List (List K)) (h1 : S1 n1) (h2 : S2 n2)
    (hN : ∀ s t, P.fullNewton s n1 t n2 = Q.fullNewton s n1 t n2)
    (hC : coincidentParameters P G1 n1 n2 = coincidentParameters Q G2 n1 n2) :
    Rel G1 G2 (allIntersections P G1 n1 n2) (allIntersections Q G2 n1 n2) := by
  rcases allIntersections_rel2 h hG n1 n2 h1 h2 hN .valueError .valueError (Or.inl hC) with hr | ⟨e1, e2⟩
  · exact hr
  · exact Or.inl (e1.trans e2.symm)

/-! ### congruence of the round loop under an arbitrary invariant of the candidate pairs -/

theorem foldl_roundStep_congr_inv {P1 P2 : Prims K} {G1 G2 : GeoConsts K} {o1 o2 : List (List K)}
    (Inv : Cand K × Cand K → Prop)
    (hstep : ∀ pr acc, Inv pr →
      intersectPair P1 G1 o1 o2 pr.1 pr.2 acc = intersectPair P2 G2 o1 o2 pr.1 pr.2 acc ∧
      ∀ next acc', intersectPair P1 G1 o1 o2 pr.1 pr.2 acc = .ok (next, acc') → ∀ x ∈ next, Inv x) :
    ∀ (cands : List (Cand K × Cand K)), (∀ pr ∈ cands, Inv pr) →
      ∀ (st : Except Err (List (Cand K × Cand K) × List (K × K))),
        (∀ next acc, st = .ok (next, acc) → ∀ x ∈ next, Inv x) →
        cands.foldl (roundStep P1 G1 o1 o2) st = cands.foldl (roundStep P2 G2 o1 o2) st ∧
        ∀ next acc, cands.foldl (roundStep P1 G1 o1 o2) st = .ok (next, acc) → ∀ x ∈ next, Inv x := by
  intro cands
  induction cands with
  | nil => intro _ st hst; exact ⟨rfl, hst⟩
  | cons pr rest ih =>
    intro hc st hst
    have hrest : ∀ x ∈ rest, Inv x := fun x hx => hc x (List.mem_cons_of_mem _ hx)
    simp only [List.foldl_cons]
    match st, hst with
    | .error e, _ =>
      simp only [roundStep]
      exact ih hrest (.error e) (fun _ _ hh => by cases hh)
    | .ok (next, acc), hst =>
      have hpair := hstep pr acc (hc pr List.mem_cons_self)
      have hnext := hst next acc rfl
      have hstP : ∀ next' acc', roundStep P1 G1 o1 o2 (.ok (next, acc)) pr = .ok (next', acc') →
          ∀ x ∈ next', Inv x := by
        intro next' acc' hr x hx
        simp only [roundStep] at hr
        cases hm : intersectPair P1 G1 o1 o2 pr.1 pr.2 acc with
        | error e => rw [hm] at hr; cases hr
        | ok r =>
          obtain ⟨more, acc''⟩ := r
          rw [hm] at hr
          cases hr
          rcases List.mem_append.1 hx with hx | hx
          · exact hnext x hx
          · exact hpair.2 more _ hm x hx
      have hstep' : roundStep P1 G1 o1 o2 (.ok (next, acc)) pr = roundStep P2 G2 o1 o2 (.ok (next, acc)) pr := by
        simp only [roundStep, hpair.1]
      rw [← hstep']
      exact ih hrest _ hstP


/-! ### `self_intersections` -/

/-- how `self_intersections` combines the results of the two halves and of the left/right call -/
def selfCombine (G : GeoConsts K) (L R : Except Err (List (K × K))) (A : Except Err (List (K × K) × Bool)) :
    Except Err (List (K × K)) :=
  let half : K := 1 / (1 + 1)
  match L, R with
  | .error e, _ => .error e
  | _, .error e => .error e
  | .ok leftSelf, .ok rightSelf =>
    match A with
    | .error e => .error e
    | .ok (lrInts, _) =>
      let scaled := lrInts.map (fun p => (half * p.1, half * p.2 + half))
      let kept := scaled.filter (fun p => !(p.1 = half ∧ p.2 = half))
      let blocks := leftSelf.map (fun p => (half * p.1, half * p.2))
            ++ kept ++ rightSelf.map (fun p => (half + half * p.1, half + half * p.2))
      .ok (blocks.foldl (fun acc p => addIntersection G p.1 p.2 acc) [])

theorem selfIntersections_succ (P : Prims K) (G : GeoConsts K) (fuel : Nat) (nodes : List (List K)) :
    selfIntersections P G (fuel + 1) nodes =
      if turningBelowPi nodes then .ok []
      else selfCombine G (selfIntersections P G fuel (P.subdivide nodes).1)
        (selfIntersections P G fuel (P.subdivide nodes).2)
        (allIntersections P G (P.subdivide nodes).1 (P.subdivide nodes).2) := rfl

theorem selfCombine_rel {G1 G2 : GeoConsts K} (hG : GeoAgree G1 G2)
    (L1 L2 R1 R2 : Except Err (List (K × K))) (A1 A2 : Except Err (List (K × K) × Bool))
    (hL : Rel G1 G2 L1 L2) (hR : Rel G1 G2 R1 R2) (hA : Rel G1 G2 A1 A2) :
    Rel G1 G2 (selfCombine G1 L1 R1 A1) (selfCombine G2 L2 R2 A2) := by
  have hadd : (fun (acc : List (K × K)) (p : K × K) => addIntersection G1 p.1 p.2 acc)
      = (fun acc p => addIntersection G2 p.1 p.2 acc) := by
    funext acc p; exact addIntersection_geo hG _ _ _
  rcases hL with hL | ⟨a, b, hL⟩
  · subst hL
    cases L1 with
    | error e => exact Or.inl rfl
    | ok l =>
      rcases hR with hR | ⟨a, b, hR⟩
      · subst hR
        cases R1 with
        | error e => exact Or.inl rfl
        | ok r =>
          rcases hA with hA | ⟨a, b, hA⟩
          · subst hA
            cases A1 with
            | error e => exact Or.inl rfl
            | ok x =>
              obtain ⟨ints, fl⟩ := x
              simp only [selfCombine, hadd]
              exact Or.inl rfl
          · subst hA; exact Or.inr ⟨a, b, rfl⟩
      · subst hR; exact Or.inr ⟨a, b, rfl⟩
  · subst hL; exact Or.inr ⟨a, b, rfl⟩

/-- **`self_intersections` is congruent in its primitives and constants**: it suffices that the halving routines agree on
    a closed predicate and that the `all_intersections` calls on the two halves of every such net are related -/
theorem selfIntersections_rel {P Q : Prims K} {S : List (List K) → Prop} {G1 G2 : GeoConsts K} (hG : GeoAgree G1 G2)
    (hclosed : ∀ a, S a → S (P.subdivide a).1 ∧ S (P.subdivide a).2)
    (hsub : ∀ a, S a → P.subdivide a = Q.subdivide a)
    (hall : ∀ a, S a → Rel G1 G2 (allIntersections P G1 (P.subdivide a).1 (P.subdivide a).2)
      (allIntersections Q G2 (P.subdivide a).1 (P.subdivide a).2)) :
    ∀ (fuel : Nat) (nodes : List (List K)), S nodes →
      Rel G1 G2 (selfIntersections P G1 fuel nodes) (selfIntersections Q G2 fuel nodes) := by
  intro fuel
  induction fuel with
  | zero => intro _ _; exact Or.inl rfl
  | succ f ih =>
    intro nodes hn
    rw [selfIntersections_succ, selfIntersections_succ, ← hsub nodes hn]
    split
    · exact Or.inl rfl
    · exact selfCombine_rel hG _ _ _ _ _ _ (ih _ (hclosed nodes hn).1) (ih _ (hclosed nodes hn).2) (hall nodes hn)


end Generic

/-! ## Part 2: the two variants of the concrete primitives -/

section Field
variable {K : Type} [Field K] [LinearOrder K] [IsStrictOrderedRing K]

/-! ### `polygon_collide` / `convex_hull_collide` -/

theorem normSq_eq_zero_iff (d : Pt K) : d.1 * d.1 + d.2 * d.2 = 0 ↔ d = (0, 0) := by
  constructor
  · intro h0
    have h1 : d.1 * d.1 = 0 ∧ d.2 * d.2 = 0 :=
      (add_eq_zero_iff_of_nonneg (mul_self_nonneg _) (mul_self_nonneg _)).1 h0
    exact Prod.ext (mul_self_eq_zero.1 h1.1) (mul_self_eq_zero.1 h1.2)
  · intro h; rw [h]; simp

/-- the two `is_separating` routines differ exactly on the zero direction (NaN parameters):
    Python answers `True`, Fortran `.FALSE.` -/
theorem py_isSeparating_eq (d : Pt K) (P Q : List (Pt K)) :
    Py.isSeparating d P Q = (decide (d = (0, 0)) || F90.isSeparatingCore d P Q) := by
  unfold Py.isSeparating F90.isSeparatingCore dot2
  dsimp only
  by_cases hd : d = (0, 0)
  · rw [if_pos ((normSq_eq_zero_iff d).2 hd), if_pos ((normSq_eq_zero_iff d).2 hd)]
    simp [hd]
  · have hn : ¬ (d.1 * d.1 + d.2 * d.2 = 0) := fun h => hd ((normSq_eq_zero_iff d).1 h)
    rw [if_neg hn, if_neg hn]
    simp [hd]

theorem any_or_split {α : Type} (p q : α → Bool) : ∀ l : List α,
    l.any (fun x => p x || q x) = (l.any p || l.any q)
  | [] => rfl
  | x :: l => by
    simp only [List.any_cons, any_or_split p q l]
    cases p x <;> cases q x <;> cases l.any p <;> cases l.any q <;> rfl

/-- **`polygon_collide`, the two variants on arbitrary vertex lists**: Python's answer is Fortran's answer
    (computed on the non-zero edge directions), switched to `False` as soon as some edge direction is the zero vector -/
theorem py_polygonCollide_eq (P Q : List (Pt K)) :
    Py.polygonCollide P Q =
      (!(decide (((0, 0) : Pt K) ∈ polygonEdgeDirs P ++ polygonEdgeDirs Q)) &&
        !((polygonEdgeDirs P ++ polygonEdgeDirs Q).any (fun d => F90.isSeparatingCore d P Q))) := by
  unfold Py.polygonCollide
  have h : (fun d => Py.isSeparating d P Q) = (fun d => decide (d = ((0, 0) : Pt K)) || F90.isSeparatingCore d P Q) := by
    funext d; exact py_isSeparating_eq d P Q
  rw [h, any_or_split]
  have h2 : (polygonEdgeDirs P ++ polygonEdgeDirs Q).any (fun d => decide (d = ((0, 0) : Pt K)))
      = decide (((0, 0) : Pt K) ∈ polygonEdgeDirs P ++ polygonEdgeDirs Q) := by
    rw [Bool.eq_iff_iff]
    simp only [List.any_eq_true, decide_eq_true_eq]
    constructor
    · rintro ⟨x, hx, rfl⟩; exact hx
    · intro hx; exact ⟨_, hx, rfl⟩
  rw [h2, Bool.not_or]

theorem f90_polygonCollide_eq (P Q : List (Pt K)) (hP : P ≠ []) (hQ : Q ≠ []) :
    F90.polygonCollide P Q =
      .ok (!((polygonEdgeDirs P ++ polygonEdgeDirs Q).any (fun d => F90.isSeparatingCore d P Q))) := by
  unfold F90.polygonCollide
  rw [if_neg]
  simp [hP, hQ]

/-- a polygon with an empty partner: every direction "separates" for Python -/
theorem py_polygonCollide_empty_left (Q : List (Pt K)) (hQ : Q ≠ []) : Py.polygonCollide [] Q = false := by
  obtain ⟨q, Q', rfl⟩ := List.exists_cons_of_ne_nil hQ
  unfold Py.polygonCollide
  simp only [polygonEdgeDirs, List.zipWith_nil_left, List.nil_append, List.zipWith_cons_cons, List.any_cons,
    Bool.not_eq_false', Bool.or_eq_true]
  left
  unfold Py.isSeparating
  dsimp only
  split
  · rfl
  · rfl

theorem py_polygonCollide_empty_right (P : List (Pt K)) (hP : P ≠ []) : Py.polygonCollide P [] = false := by
  obtain ⟨p, P', rfl⟩ := List.exists_cons_of_ne_nil hP
  unfold Py.polygonCollide
  simp only [polygonEdgeDirs, List.zipWith_nil_left, List.append_nil, List.zipWith_cons_cons, List.any_cons,
    Bool.not_eq_false', Bool.or_eq_true]
  left
  unfold Py.isSeparating
  dsimp only
  split
  · rfl
  · cases h : paramRange (psub p ((p :: P').getLastD (0, 0)))
        ((psub p ((p :: P').getLastD (0, 0))).1 * (psub p ((p :: P').getLastD (0, 0))).1 +
          (psub p ((p :: P').getLastD (0, 0))).2 * (psub p ((p :: P').getLastD (0, 0))).2) (p :: P') <;> rfl

theorem singleton_edgeDirs (p : Pt K) : polygonEdgeDirs [p] = [((0, 0) : Pt K)] := by
  simp [polygonEdgeDirs, psub]

/-- the pair of hulls on which the Python routine answers `False` whatever the geometry -/
def DegenerateHulls (H1 H2 : List (Pt K)) : Prop :=
  (H1 = [] ∧ H2 ≠ []) ∨ (H1 ≠ [] ∧ H2 = []) ∨ (H1 ≠ [] ∧ H2 ≠ [] ∧ (H1.length = 1 ∨ H2.length = 1))

instance (H1 H2 : List (Pt K)) : Decidable (DegenerateHulls H1 H2) := by
  unfold DegenerateHulls; infer_instance

/-- the primitive `hullCollide` of `concretePrims` in terms of the hulls -/
theorem hullCollide_py (C : PipelineConsts K) (n1 n2 : List (List K)) :
    (concretePrims true C).hullCollide n1 n2 =
      match (Py.convexHullCollide (colsOf n1) (colsOf n2)) with
      | .ok b => b
      | .error _ => true := rfl

theorem hullCollide_f90 (C : PipelineConsts K) (n1 n2 : List (List K)) :
    (concretePrims false C).hullCollide n1 n2 =
      match (F90.convexHullCollide (colsOf n1) (colsOf n2)) with
      | .ok b => b
      | .error _ => true := rfl

theorem py_chc_segments (p1 p2 : List (Pt K)) (a0 a1 b0 b1 : Pt K) (h1 : Py.convexHull p1 = [a0, a1])
    (h2 : Py.convexHull p2 = [b0, b1]) : Py.convexHullCollide p1 p2 = lineLineCollide a0 a1 b0 b1 := by
  unfold Py.convexHullCollide
  rw [h1, h2]

theorem f90_chc_segments (p1 p2 : List (Pt K)) (a0 a1 b0 b1 : Pt K) (h1 : Py.convexHull p1 = [a0, a1])
    (h2 : Py.convexHull p2 = [b0, b1]) : F90.convexHullCollide p1 p2 = lineLineCollide a0 a1 b0 b1 := by
  unfold F90.convexHullCollide
  rw [PredicatesHull.convexHull_variants_agree, PredicatesHull.convexHull_variants_agree, h1, h2]

theorem py_chc_other (p1 p2 : List (Pt K)) (h : ¬ ((Py.convexHull p1).length = 2 ∧ (Py.convexHull p2).length = 2)) :
    Py.convexHullCollide p1 p2 = .ok (Py.polygonCollide (Py.convexHull p1) (Py.convexHull p2)) := by
  unfold Py.convexHullCollide
  dsimp only
  split
  · rename_i h1 h2
    exact absurd ⟨by rw [h1]; rfl, by rw [h2]; rfl⟩ h
  · rfl

theorem f90_chc_other (p1 p2 : List (Pt K)) (h : ¬ ((Py.convexHull p1).length = 2 ∧ (Py.convexHull p2).length = 2)) :
    F90.convexHullCollide p1 p2 = F90.polygonCollide (Py.convexHull p1) (Py.convexHull p2) := by
  unfold F90.convexHullCollide
  rw [PredicatesHull.convexHull_variants_agree, PredicatesHull.convexHull_variants_agree]
  dsimp only
  split
  · rename_i h1 h2
    exact absurd ⟨by rw [h1]; rfl, by rw [h2]; rfl⟩ h
  · rfl

/-- **`convex_hull_collide`, exact comparison of the variants**: with `H1, H2` the convex hulls of the two
    nets (the same list for both implementations, `C16.hull_variants_agree`), the Python answer is the
    Fortran answer unless the hulls are degenerate (exactly one is empty, or one is a single point),
    where Python answers `False` -/
theorem hullCollide_variants (C : PipelineConsts K) (n1 n2 : List (List K)) :
    (concretePrims true C).hullCollide n1 n2 =
      ((concretePrims false C).hullCollide n1 n2 &&
        !(decide (DegenerateHulls (Py.convexHull (colsOf n1)) (Py.convexHull (colsOf n2))))) := by
  rw [hullCollide_py, hullCollide_f90]
  by_cases hboth : (Py.convexHull (colsOf n1)).length = 2 ∧ (Py.convexHull (colsOf n2)).length = 2
  · obtain ⟨a0, a1, h1⟩ := List.length_eq_two.1 hboth.1
    obtain ⟨b0, b1, h2⟩ := List.length_eq_two.1 hboth.2
    rw [py_chc_segments _ _ a0 a1 b0 b1 h1 h2, f90_chc_segments _ _ a0 a1 b0 b1 h1 h2, h1, h2]
    have : ¬ DegenerateHulls [a0, a1] [b0, b1] := by
      unfold DegenerateHulls; simp
    simp [this]
  rw [py_chc_other _ _ hboth, f90_chc_other _ _ hboth]
  generalize hH1 : Py.convexHull (colsOf n1) = H1
  generalize hH2 : Py.convexHull (colsOf n2) = H2
  have nd1 : H1.Nodup := hH1 ▸ HullCorrect.py_hull_nodup _
  have nd2 : H2.Nodup := hH2 ▸ HullCorrect.py_hull_nodup _
  by_cases e1 : H1 = []
  · by_cases e2 : H2 = []
    · subst e1 e2
      have : ¬ DegenerateHulls ([] : List (Pt K)) [] := by unfold DegenerateHulls; simp
      simp [this, Py.polygonCollide, F90.polygonCollide, polygonEdgeDirs]
    · subst e1
      have : DegenerateHulls ([] : List (Pt K)) H2 := Or.inl ⟨rfl, e2⟩
      simp [this, py_polygonCollide_empty_left H2 e2]
  · by_cases e2 : H2 = []
    · subst e2
      have : DegenerateHulls H1 ([] : List (Pt K)) := Or.inr (Or.inl ⟨e1, rfl⟩)
      simp [this, py_polygonCollide_empty_right H1 e1]
    · rw [f90_polygonCollide_eq H1 H2 e1 e2, py_polygonCollide_eq]
      dsimp only
      by_cases hs : H1.length = 1 ∨ H2.length = 1
      · have hd : DegenerateHulls H1 H2 := Or.inr (Or.inr ⟨e1, e2, hs⟩)
        have hz : ((0, 0) : Pt K) ∈ polygonEdgeDirs H1 ++ polygonEdgeDirs H2 := by
          rcases hs with hs | hs
          · obtain ⟨p, rfl⟩ := List.length_eq_one_iff.1 hs
            rw [singleton_edgeDirs]; simp
          · obtain ⟨p, rfl⟩ := List.length_eq_one_iff.1 hs
            rw [singleton_edgeDirs]; simp
        simp [hd, hz]
      · have hd : ¬ DegenerateHulls H1 H2 := by
          unfold DegenerateHulls
          rintro (⟨h, _⟩ | ⟨_, h⟩ | ⟨_, _, h⟩)
          · exact e1 h
          · exact e2 h
          · exact hs h
        have l1 : 2 ≤ H1.length := by
          have : H1.length ≠ 0 := fun h => e1 (List.length_eq_zero_iff.1 h)
          have : H1.length ≠ 1 := fun h => hs (Or.inl h)
          omega
        have l2 : 2 ≤ H2.length := by
          have : H2.length ≠ 0 := fun h => e2 (List.length_eq_zero_iff.1 h)
          have : H2.length ≠ 1 := fun h => hs (Or.inr h)
          omega
        have hz : ((0, 0) : Pt K) ∉ polygonEdgeDirs H1 ++ polygonEdgeDirs H2 := by
          intro hm
          rcases List.mem_append.1 hm with hm | hm
          · exact HullConvex.edgeDirs_ne_zero H1 nd1 l1 hm
          · exact HullConvex.edgeDirs_ne_zero H2 nd2 l2 hm
        simp [hd, hz]

/-- the variants of `hullCollide` agree whenever no hull is degenerate – in particular when each net has two
    distinct control points -/
theorem hullCollide_variants_agree (C : PipelineConsts K) (n1 n2 : List (List K))
    (h : ¬ DegenerateHulls (Py.convexHull (colsOf n1)) (Py.convexHull (colsOf n2))) :
    (concretePrims true C).hullCollide n1 n2 = (concretePrims false C).hullCollide n1 n2 := by
  rw [hullCollide_variants]
  simp [h]

/-- … and differ exactly when the hulls are degenerate and the Fortran routine answers "collide" -/
theorem hullCollide_differ_iff (C : PipelineConsts K) (n1 n2 : List (List K)) :
    (concretePrims true C).hullCollide n1 n2 ≠ (concretePrims false C).hullCollide n1 n2 ↔
      (DegenerateHulls (Py.convexHull (colsOf n1)) (Py.convexHull (colsOf n2)) ∧
        (concretePrims false C).hullCollide n1 n2 = true ∧ (concretePrims true C).hullCollide n1 n2 = false) := by
  rw [hullCollide_variants]
  by_cases hd : DegenerateHulls (Py.convexHull (colsOf n1)) (Py.convexHull (colsOf n2))
  · cases hf : (concretePrims false C).hullCollide n1 n2 <;> simp [hd]
  · simp [hd]

/-- two distinct control points give a hull with at least two vertices -/
theorem not_degenerate_of_two (pts1 pts2 : List (Pt K)) (h1 : 2 ≤ (Py.sortUnique pts1).length)
    (h2 : 2 ≤ (Py.sortUnique pts2).length) : ¬ DegenerateHulls (Py.convexHull pts1) (Py.convexHull pts2) := by
  have l1 := HullConvex.py_hull_length pts1 h1
  have l2 := HullConvex.py_hull_length pts2 h2
  unfold DegenerateHulls
  rintro (⟨h, _⟩ | ⟨_, h⟩ | ⟨_, _, h | h⟩)
  · rw [h] at l1; simp at l1
  · rw [h] at l2; simp at l2
  · omega
  · omega

/-! ### `subdivide_nodes`, `specialize_curve` -/

/-- every row is non-empty -/
def RowsNE (nodes : List (List K)) : Prop := ∀ row ∈ nodes, 1 ≤ row.length

theorem subdivideRow_nil :
    Py.subdivideRow ([] : List K) = ([0], [0]) ∧ F90.subdivideRow ([] : List K) = ([], []) := by
  constructor
  · simp [Py.subdivideRow, rowMul, leftMat, rightMat, ncols, dot, col, leftCol]
  · simp [F90.subdivideRow, F90.subdivideGenericRow]

theorem subdivideRow_eq_iff (row : List K) : F90.subdivideRow row = Py.subdivideRow row ↔ 1 ≤ row.length := by
  constructor
  · intro h
    cases row with
    | nil =>
      rw [subdivideRow_nil.1, subdivideRow_nil.2] at h
      simp at h
    | cons x t => simp
  · exact C04.subdivide_variants_agree row

/-- `subdivide_nodes`: the variants agree exactly on the nets without an empty row -/
theorem subdivide_variants_iff (C : PipelineConsts K) (nodes : List (List K)) :
    (concretePrims true C).subdivide nodes = (concretePrims false C).subdivide nodes ↔ RowsNE nodes := by
  show Py.subdivide nodes = F90.subdivide nodes ↔ _
  constructor
  · intro h row hrow
    unfold Py.subdivide F90.subdivide at h
    have h1 := (List.map_inj_left.1 (Prod.ext_iff.1 h).1) row hrow
    have h2 := (List.map_inj_left.1 (Prod.ext_iff.1 h).2) row hrow
    exact (subdivideRow_eq_iff row).1 (Prod.ext h1.symm h2.symm)
  · intro h
    exact (Locate.f90_subdivide_eq nodes h).symm

theorem py_subdivide_rowsNE (nodes : List (List K)) (h : RowsNE nodes) :
    RowsNE (Py.subdivide nodes).1 ∧ RowsNE (Py.subdivide nodes).2 := by
  constructor <;> intro row hrow <;> simp only [Py.subdivide, List.mem_map] at hrow <;>
    obtain ⟨r, hr, rfl⟩ := hrow <;> have := h r hr
  · rw [(Cover.py_subdivideRow_length r this).1]; exact this
  · rw [(Cover.py_subdivideRow_length r this).2]; exact this

theorem f90_specializeRow_short (row : List K) (h : row.length < 2) (a b : K) :
    (F90.specializeRow row a b).length = 2 := by
  match row, h with
  | [], _ => simp [F90.specializeRow, F90.specializeGenericRow]
  | [x], _ => simp [F90.specializeRow, F90.specializeGenericRow]

theorem specializeRow_eq_iff (row : List K) (a b : K) :
    F90.specializeRow row a b = Py.specializeRow row a b ↔ 2 ≤ row.length := by
  constructor
  · intro h
    by_contra hlt
    have h1 := f90_specializeRow_short row (by omega) a b
    rw [h, C04.specialize_length] at h1
    omega
  · intro h; exact C04.specialize_variants_agree row h a b

/-- `specialize_curve`: the variants agree exactly on the nets whose rows have at least two entries (degree ≥ 1);
    on shorter rows the transcription of the Fortran workspace returns two entries -/
theorem specialize_variants_iff (C : PipelineConsts K) (nodes : List (List K)) (a b : K) :
    (concretePrims true C).specialize nodes a b = (concretePrims false C).specialize nodes a b ↔
      ∀ row ∈ nodes, 2 ≤ row.length := by
  show Py.specialize nodes a b = F90.specialize nodes a b ↔ _
  unfold Py.specialize F90.specialize
  rw [List.map_inj_left]
  constructor
  · intro h row hrow; exact (specializeRow_eq_iff row a b).1 (h row hrow).symm
  · intro h row hrow; exact ((specializeRow_eq_iff row a b).2 (h row hrow)).symm

/-! ### `full_newton`: the cut rule -/

/-- the repaired Python cut rule is the Fortran cut rule -/
theorem py_cut_eq_f90 : Py.cut = F90.cut := by
  funext i l
  unfold Py.cut F90.cut
  by_cases h1 : 4 ≤ i <;> by_cases h3 : 2 * (i + 1) ≤ 3 * l <;> simp [h1, h3] <;> omega

/-- HISTORICAL (the Python rule before the repair `ab67aa1`): the old rule and the Fortran rule differ exactly when
    `2·index ≤ 3·linear_updates < 2·index + 2` from the fifth iteration on; then Python stopped and Fortran went on -/
theorem cut_differ_iff (i l : ℕ) :
    Py.cutOld i l ≠ F90.cut i l ↔ (4 ≤ i ∧ 2 * i ≤ 3 * l ∧ 3 * l < 2 * i + 2) := by
  unfold Py.cutOld F90.cut
  by_cases h1 : 4 ≤ i <;> by_cases h2 : 2 * i ≤ 3 * l <;> by_cases h3 : 2 * (i + 1) ≤ 3 * l <;>
    simp [h1, h2, h3] <;> omega

/-- HISTORICAL -/
theorem cut_differ_values (i l : ℕ) (h : Py.cutOld i l ≠ F90.cut i l) : Py.cutOld i l = true ∧ F90.cut i l = false := by
  have h' := (cut_differ_iff i l).1 h
  unfold Py.cutOld F90.cut
  constructor
  · simp only [ge_iff_le, Bool.and_eq_true, decide_eq_true_eq]
    omega
  · have : ¬ (2 * (i + 1) ≤ 3 * l) := by omega
    simp [this]

/-- HISTORICAL: the counter states `(index, linear_updates)` with `linear_updates ≤ index < 10` on which the old rule and
    the Fortran rule differ -/
theorem cut_differ_reachable : ∀ i < 10, ∀ l ≤ i,
    (Py.cutOld i l ≠ F90.cut i l ↔ (i, l) ∈ [(4, 3), (6, 4), (7, 5), (9, 6)]) := by decide

/-- the update of `linear_updates` in one iteration -/
def linUpdate (prev : Option K) (index : ℕ) (nuSq : K) (linear : ℕ) : ℕ :=
  match prev with
  | some p => if index > 0 ∧ p < ((16 : ℕ) : K) * nuSq then linear + 1 else linear
  | none => linear

theorem linUpdate_le (prev : Option K) (index : ℕ) (nuSq : K) (linear : ℕ) (h : linear ≤ index - 1) :
    linUpdate prev index nuSq linear ≤ index := by
  unfold linUpdate
  split
  · split
    · rename_i hc; omega
    · omega
  · omega

theorem go_succ (solve : Solver K) (cut : ℕ → ℕ → Bool) (rnd : K → K) (ratioSq : K) (ev : NewtonEval K)
    (r index : ℕ) (st : NewtonState K) :
    newtonIterate.go solve cut rnd ratioSq ev (r + 1) index st =
      match ev st.s st.t with
      | none => .converged st.s st.t
      | some (lhs, rhs) =>
        match solve lhs rhs with
        | none => .failed st.s st.t
        | some (ds, dt) =>
          if cut index (linUpdate st.normPrevSq index (ds * ds + dt * dt) st.linear) then .failed st.s st.t
          else if ds * ds + dt * dt < ratioSq * (st.s * st.s + st.t * st.t) then
            .converged (rnd (st.s - ds)) (rnd (st.t - dt))
          else newtonIterate.go solve cut rnd ratioSq ev r (index + 1)
            { s := rnd (st.s - ds), t := rnd (st.t - dt), normPrevSq := some (ds * ds + dt * dt),
              linear := linUpdate st.normPrevSq index (ds * ds + dt * dt) st.linear } := by
  rw [newtonIterate.go]
  rfl

/-- `newton_iterate` only depends on the cut rule at the counter states a run can reach -/
theorem go_cut_congr (solve : Solver K) (cut1 cut2 : ℕ → ℕ → Bool) (rnd : K → K) (ratioSq : K) (ev : NewtonEval K) :
    ∀ (remaining index : ℕ) (st : NewtonState K), st.linear ≤ index - 1 →
      (∀ i l, index ≤ i → i < index + remaining → l ≤ i → cut1 i l = cut2 i l) →
      newtonIterate.go solve cut1 rnd ratioSq ev remaining index st
        = newtonIterate.go solve cut2 rnd ratioSq ev remaining index st := by
  intro remaining
  induction remaining with
  | zero => intro index st _ _; rw [newtonIterate.go, newtonIterate.go]
  | succ r ih =>
    intro index st hl hcut
    rw [go_succ, go_succ]
    cases hev : ev st.s st.t with
    | none => rfl
    | some p =>
      obtain ⟨lhs, rhs⟩ := p
      dsimp only
      cases hsol : solve lhs rhs with
      | none => rfl
      | some d =>
        obtain ⟨ds, dt⟩ := d
        dsimp only
        have hlin_le := linUpdate_le st.normPrevSq index (ds * ds + dt * dt) st.linear hl
        generalize linUpdate st.normPrevSq index (ds * ds + dt * dt) st.linear = lin at hlin_le
        rw [hcut index lin le_rfl (by omega) hlin_le]
        split
        · rfl
        · split
          · rfl
          · apply ih
            · show lin ≤ index + 1 - 1
              omega
            · intro i l h1 h2 h3
              exact hcut i l (by omega) (by omega) h3

theorem newtonIterate_cut_congr (solve : Solver K) (cut1 cut2 : ℕ → ℕ → Bool) (rnd : K → K) (ratioSq : K)
    (ev : NewtonEval K) (fuel : ℕ) (s t : K) (h : ∀ i l, i < fuel → l ≤ i → cut1 i l = cut2 i l) :
    newtonIterate solve cut1 rnd ratioSq ev fuel s t = newtonIterate solve cut2 rnd ratioSq ev fuel s t := by
  unfold newtonIterate
  exact go_cut_congr solve cut1 cut2 rnd ratioSq ev fuel 0 _ (Nat.zero_le _) (fun i l _ h2 h3 => h i l (by omega) h3)

theorem fullNewton_cut_congr (solve : Solver K) (cut1 cut2 : ℕ → ℕ → Bool) (rnd : K → K) (ratioSq zeroThr : K)
    (thr fuel : ℕ) (h : ∀ i l, i < fuel → l ≤ i → cut1 i l = cut2 i l) (s : K) (n1 : List (List K)) (t : K)
    (n2 : List (List K)) :
    fullNewton solve cut1 rnd ratioSq zeroThr thr fuel s n1 t n2
      = fullNewton solve cut2 rnd ratioSq zeroThr thr fuel s n1 t n2 := by
  have hnz : ∀ s n1 t n2, fullNewtonNonzero solve cut1 rnd ratioSq thr fuel s n1 t n2
      = fullNewtonNonzero solve cut2 rnd ratioSq thr fuel s n1 t n2 := by
    intro s n1 t n2
    unfold fullNewtonNonzero
    simp only [newtonIterate_cut_congr solve cut1 cut2 rnd ratioSq _ fuel _ _ h]
  unfold fullNewton
  simp only [hnz]

/-- `full_newton`: after the repair `ab67aa1` the two cut rules are the same function, so the variants of the primitive
    agree on every input, for every iteration budget -/
theorem fullNewton_variants_agree (C : PipelineConsts K) (s : K) (n1 : List (List K)) (t : K) (n2 : List (List K)) :
    (concretePrims true C).fullNewton s n1 t n2 = (concretePrims false C).fullNewton s n1 t n2 := by
  show fullNewton solverOf Py.cut C.rnd C.geo.ratioSq C.geo.zeroThr C.vsThr C.newtonFuel s n1 t n2
    = fullNewton solverOf F90.cut C.rnd C.geo.ratioSq C.geo.zeroThr C.vsThr C.newtonFuel s n1 t n2
  rw [py_cut_eq_f90]

/-- HISTORICAL: with the old Python rule the variants agreed on every input only as long as at most four Newton iterations
    were allowed (the old rule is never consulted at a state where it differs from the Fortran rule) -/
theorem fullNewton_old_agree_of_fuel (solve : Solver K) (rnd : K → K) (ratioSq zeroThr : K) (thr fuel : ℕ) (h : fuel ≤ 4)
    (s : K) (n1 : List (List K)) (t : K) (n2 : List (List K)) :
    fullNewton solve Py.cutOld rnd ratioSq zeroThr thr fuel s n1 t n2
      = fullNewton solve F90.cut rnd ratioSq zeroThr thr fuel s n1 t n2 := by
  apply fullNewton_cut_congr
  intro i l hi _
  by_contra hne
  have := (cut_differ_iff i l).1 hne
  omega

/-! ### `locate_point` -/

theorem locateRound_congr (sub1 sub2 : List (List K) → List (List K) × List (List K)) (S : List (List K) → Prop)
    (hclosed : ∀ a, S a → S (sub1 a).1 ∧ S (sub1 a).2) (hsub : ∀ a, S a → sub1 a = sub2 a) (point : List K)
    (cands : List (LocCand K)) (hc : ∀ c ∈ cands, S c.nodes) :
    locateRound sub1 point cands = locateRound sub2 point cands ∧
      ∀ c ∈ locateRound sub1 point cands, S c.nodes := by
  unfold locateRound
  constructor
  · apply List.flatMap_congr
    intro c hcm
    rw [hsub c.nodes (hc c hcm)]
  · intro c hcm
    simp only [List.mem_flatMap] at hcm
    obtain ⟨c0, hc0, hcm⟩ := hcm
    split at hcm
    · simp only [List.mem_cons, List.not_mem_nil, or_false] at hcm
      rcases hcm with rfl | rfl
      · exact (hclosed _ (hc c0 hc0)).1
      · exact (hclosed _ (hc c0 hc0)).2
    · cases hcm

theorem locateRounds_congr (sub1 sub2 : List (List K) → List (List K) × List (List K)) (S : List (List K) → Prop)
    (hclosed : ∀ a, S a → S (sub1 a).1 ∧ S (sub1 a).2) (hsub : ∀ a, S a → sub1 a = sub2 a) (point : List K) :
    ∀ (r : ℕ) (cands : List (LocCand K)), (∀ c ∈ cands, S c.nodes) →
      iter (locateRound sub1 point) r cands = iter (locateRound sub2 point) r cands := by
  intro r
  induction r with
  | zero => intro _ _; rfl
  | succ r ih =>
    intro cands hc
    have h := locateRound_congr sub1 sub2 S hclosed hsub point cands hc
    simp only [iter]
    rw [← h.1]
    exact ih _ h.2

/-- `locate_point` is congruent in the halving routine (agreement on a closed predicate suffices) -/
theorem locatePoint_congr (sub1 sub2 : List (List K) → List (List K) × List (List K)) (S : List (List K) → Prop)
    (hclosed : ∀ a, S a → S (sub1 a).1 ∧ S (sub1 a).2) (hsub : ∀ a, S a → sub1 a = sub2 a)
    (thr rounds : ℕ) (capSq : K) (nodes : List (List K)) (point : List K) (hn : S nodes) :
    locatePoint sub1 thr rounds capSq nodes point = locatePoint sub2 thr rounds capSq nodes point := by
  unfold locatePoint
  rw [locateRounds_congr sub1 sub2 S hclosed hsub point rounds _ (by
    intro c hc
    simp only [List.mem_singleton] at hc
    subst hc
    exact hn)]

theorem locatePoint_variants_agree (thr rounds : ℕ) (capSq : K) (nodes : List (List K)) (point : List K)
    (hn : RowsNE nodes) :
    locatePoint F90.subdivide thr rounds capSq nodes point = locatePoint Py.subdivide thr rounds capSq nodes point :=
  (locatePoint_congr Py.subdivide F90.subdivide RowsNE py_subdivide_rowsNE
    (fun a ha => (Locate.f90_subdivide_eq a ha).symm) thr rounds capSq nodes point hn).symm

/-- how `concretePrims` maps the outcome of the bisection -/
def locateOut (py : Bool) : LocResult K → Except Err (Option K)
  | .miss => .ok none
  | .invalid => .error (if py then .valueError else .notImplemented)
  | .found s => .ok (some s)

theorem locate_py (C : PipelineConsts K) (nodes : List (List K)) (point : List K) :
    (concretePrims true C).locate nodes point
      = locateOut true (locatePoint Py.subdivide C.vsThr C.locateRounds C.locateCapSq nodes point) := by
  show (match locatePoint Py.subdivide C.vsThr C.locateRounds C.locateCapSq nodes point with
      | .miss => Except.ok none
      | .invalid => Except.error Err.valueError
      | .found s => Except.ok (some s)) = _
  cases locatePoint Py.subdivide C.vsThr C.locateRounds C.locateCapSq nodes point <;> rfl

theorem locate_f90 (C : PipelineConsts K) (nodes : List (List K)) (point : List K) :
    (concretePrims false C).locate nodes point
      = locateOut false (locatePoint F90.subdivide C.vsThr C.locateRounds C.locateCapSq nodes point) := by
  show (match locatePoint F90.subdivide C.vsThr C.locateRounds C.locateCapSq nodes point with
      | .miss => Except.ok none
      | .invalid => Except.error Err.notImplemented
      | .found s => Except.ok (some s)) = _
  cases locatePoint F90.subdivide C.vsThr C.locateRounds C.locateCapSq nodes point <;> rfl

/-- the primitive `locate`: the compiled variant returns what the Python variant returns, except that an
    invalid bisection (`ValueError` in Python) surfaces as `NotImplementedError` -/
theorem locate_variants (C : PipelineConsts K) (nodes : List (List K)) (point : List K) (hn : RowsNE nodes) :
    (concretePrims false C).locate nodes point =
      match (concretePrims true C).locate nodes point with
      | .ok r => .ok r
      | .error _ => .error .notImplemented := by
  rw [locate_py, locate_f90, locatePoint_variants_agree _ _ _ _ _ hn]
  cases locatePoint Py.subdivide C.vsThr C.locateRounds C.locateCapSq nodes point <;> rfl

/-- … so the variants of `locate` differ exactly when the bisection is invalid (spread test) -/
theorem locate_differ_iff (C : PipelineConsts K) (nodes : List (List K)) (point : List K) (hn : RowsNE nodes) :
    (concretePrims true C).locate nodes point ≠ (concretePrims false C).locate nodes point ↔
      locatePoint Py.subdivide C.vsThr C.locateRounds C.locateCapSq nodes point = .invalid := by
  rw [locate_py, locate_f90, locatePoint_variants_agree _ _ _ _ _ hn]
  cases locatePoint Py.subdivide C.vsThr C.locateRounds C.locateCapSq nodes point <;> simp [locateOut]

/-! ### the pipeline with the concrete primitives -/

/-- the concrete primitives agree on predicates `S1`, `S2` that are closed under (Python) subdivision, contain
    only nets without empty rows, and on which the hulls are never degenerate -/
theorem concrete_agreeOn (C : PipelineConsts K) (S1 S2 : List (List K) → Prop)
    (hc1 : ∀ a, S1 a → S1 (Py.subdivide a).1 ∧ S1 (Py.subdivide a).2)
    (hc2 : ∀ a, S2 a → S2 (Py.subdivide a).1 ∧ S2 (Py.subdivide a).2)
    (hr1 : ∀ a, S1 a → RowsNE a) (hr2 : ∀ a, S2 a → RowsNE a)
    (hh : ∀ a b, S1 a → S2 b → (concretePrims true C).hullCollide a b = (concretePrims false C).hullCollide a b) :
    AgreeOn (concretePrims true C) (concretePrims false C) S1 S2 where
  side1 := ⟨hc1, fun a ha => (subdivide_variants_iff C a).2 (hr1 a ha), fun _ _ => rfl, fun _ _ _ _ => rfl⟩
  side2 := ⟨hc2, fun a ha => (subdivide_variants_iff C a).2 (hr2 a ha), fun _ _ => rfl, fun _ _ _ _ => rfl⟩
  bboxIntersect := fun _ _ _ _ => rfl
  hullCollide := hh
  segmentIntersection := fun _ _ _ _ => rfl
  parallelLines := fun _ _ _ _ => rfl
  vectorClose := fun _ _ => rfl
  wiggle := fun _ => rfl
  inUnit := fun _ => rfl

/-- `coincident_parameters` with the concrete primitives: the variants agree when the degree-matched nets have at
    least two entries per row and none of the four `locate_point` calls is invalid -/
theorem concrete_coincident_agree (C : PipelineConsts K) {G1 G2 : GeoConsts K} (hG : GeoAgree G1 G2)
    (n1 n2 : List (List K))
    (hr1 : ∀ row ∈ (makeSameDegree n1 n2).1, 2 ≤ row.length)
    (hr2 : ∀ row ∈ (makeSameDegree n1 n2).2, 2 ≤ row.length)
    (hv1 : ∀ pt, locatePoint Py.subdivide C.vsThr C.locateRounds C.locateCapSq (makeSameDegree n1 n2).1 pt ≠ .invalid)
    (hv2 : ∀ pt, locatePoint Py.subdivide C.vsThr C.locateRounds C.locateCapSq (makeSameDegree n1 n2).2 pt ≠ .invalid) :
    coincidentParameters (concretePrims true C) G1 n1 n2 = coincidentParameters (concretePrims false C) G2 n1 n2 := by
  have ne1 : RowsNE (makeSameDegree n1 n2).1 := fun r hr => by have := hr1 r hr; omega
  have ne2 : RowsNE (makeSameDegree n1 n2).2 := fun r hr => by have := hr2 r hr; omega
  apply coincidentParameters_congr hG
  · intro pt
    by_contra hne
    exact hv1 pt ((locate_differ_iff C _ pt ne1).1 hne)
  · intro pt
    by_contra hne
    exact hv2 pt ((locate_differ_iff C _ pt ne2).1 hne)
  · intro a b; exact (specialize_variants_iff C _ a b).2 hr1
  · intro a b; exact (specialize_variants_iff C _ a b).2 hr2
  · intro _ _; rfl


/-- `coincident_parameters` of the two variants, exactly: the compiled result is the Python result with every error
    (always the `ValueError` of an invalid `locate_point`) replaced by `NotImplementedError` -/
theorem concrete_coincident_rel (C : PipelineConsts K) (G : GeoConsts K) (n1 n2 : List (List K))
    (hr1 : ∀ row ∈ (makeSameDegree n1 n2).1, 2 ≤ row.length)
    (hr2 : ∀ row ∈ (makeSameDegree n1 n2).2, 2 ≤ row.length) :
    coincidentParameters (concretePrims false C) G n1 n2
      = (coincidentParameters (concretePrims true C) G n1 n2).mapError (fun _ => .notImplemented) := by
  have ne1 : RowsNE (makeSameDegree n1 n2).1 := fun r hr => by have := hr1 r hr; omega
  have ne2 : RowsNE (makeSameDegree n1 n2).2 := fun r hr => by have := hr2 r hr; omega
  have hloc : ∀ nodes pt, RowsNE nodes → (concretePrims false C).locate nodes pt
      = ((concretePrims true C).locate nodes pt).mapError (fun _ => .notImplemented) := by
    intro nodes pt hn
    rw [locate_variants C nodes pt hn]
    cases (concretePrims true C).locate nodes pt <;> rfl
  apply coincidentParameters_mapError
  · intro pt; exact hloc _ pt ne1
  · intro pt; exact hloc _ pt ne2
  · intro a b; exact (specialize_variants_iff C _ a b).2 hr1
  · intro a b; exact (specialize_variants_iff C _ a b).2 hr2
  · intro _ _; rfl

/-- … so either the two variants of `coincident_parameters` agree, or Python raises `ValueError` and the compiled code
    `NotImplementedError` -/
theorem concrete_coincident_cases (C : PipelineConsts K) (G : GeoConsts K) (n1 n2 : List (List K))
    (hr1 : ∀ row ∈ (makeSameDegree n1 n2).1, 2 ≤ row.length)
    (hr2 : ∀ row ∈ (makeSameDegree n1 n2).2, 2 ≤ row.length) :
    coincidentParameters (concretePrims true C) G n1 n2 = coincidentParameters (concretePrims false C) G n1 n2 ∨
      (coincidentParameters (concretePrims true C) G n1 n2 = .error .valueError ∧
        coincidentParameters (concretePrims false C) G n1 n2 = .error .notImplemented) := by
  rw [concrete_coincident_rel C G n1 n2 hr1 hr2]
  cases hc : coincidentParameters (concretePrims true C) G n1 n2 with
  | ok r => exact Or.inl rfl
  | error e =>
    right
    have he : e = .valueError := by
      rcases PipeInst.coincidentParameters_error _ G n1 n2 e hc with h | h | h | h <;>
        exact PipeInst.concrete_locate_error true C _ _ e h
    subst he
    exact ⟨rfl, rfl⟩


/-! ### nets with two distinct control points: closed under subdivision (exact arithmetic) -/

open Finset in
theorem bern_sub_const (n : ℕ) (a b c : K) (v : ℕ → K) (hab : a + b = 1) :
    bern n a b (fun j => v j - c) = bern n a b v - c := by
  have hconst : bern n a b (fun _ => c) = c := by
    unfold bern
    have : ∑ j ∈ range (n + 1), (n.choose j : K) * a ^ (n - j) * b ^ j * c = (b + a) ^ n * c := by
      rw [add_pow, Finset.sum_mul]
      apply Finset.sum_congr rfl
      intro j _
      ring
    rw [this, add_comm b a, hab, one_pow, one_mul]
  have hsub : bern n a b (fun j => v j - c) = bern n a b v - bern n a b (fun _ => c) := by
    unfold bern
    rw [← Finset.sum_sub_distrib]
    apply Finset.sum_congr rfl
    intro j _
    ring
  rw [hsub, hconst]

theorem T_one_zero : T (1 - 0) (0 : K) = 1 := by
  ext v j; simp [T]

theorem T_zero_one : T (1 - 1) (1 : K) = S := by
  ext v j; simp [T]

theorem S_commute_T (a b : K) : Commute (S : Module.End K (ℕ → K)) (T a b) := by
  unfold T
  apply Commute.add_right
  · exact Commute.smul_right (Commute.one_right _) _
  · exact Commute.smul_right (Commute.refl _) _

/-- control point `i` of the left half: `i` rounds with `(½, ½)` -/
theorem specPt_left (n i : ℕ) (v : ℕ → K) : specPt n 0 (1 / 2) v i = bern i (1 - 1 / 2) (1 / 2) v := by
  unfold specPt
  rw [T_one_zero, one_pow, mul_one, T_pow_apply_zero]

/-- control point `i` of the right half: `n - i` rounds with `(½, ½)`, read at position `i` -/
theorem specPt_right (n i : ℕ) (v : ℕ → K) :
    specPt n (1 / 2) 1 v i = bern (n - i) (1 - 1 / 2) (1 / 2) (fun j => v (j + i)) := by
  unfold specPt
  rw [T_zero_one, ((S_commute_T (1 - 1 / 2) (1 / 2 : K)).pow_pow i (n - i)).eq, Module.End.mul_apply,
    T_pow_apply_zero]
  apply Subdivide.bern_congr
  intro j _
  exact S_pow_apply i v j

open Finset in
/-- the left-half operator is lower triangular with a non-zero diagonal -/
theorem tri_left (n : ℕ) (w : ℕ → K) (h : ∀ i ≤ n, bern i (1 - 1 / 2) (1 / 2) w = 0) : ∀ i ≤ n, w i = 0 := by
  intro i
  induction i using Nat.strong_induction_on with
  | _ i ih =>
    intro hi
    have h0 := h i hi
    unfold bern at h0
    rw [Finset.sum_range_succ] at h0
    have hz : ∑ j ∈ range i, (i.choose j : K) * (1 - 1 / 2) ^ (i - j) * (1 / 2) ^ j * w j = 0 := by
      apply Finset.sum_eq_zero
      intro j hj
      rw [ih j (Finset.mem_range.1 hj) (by have := Finset.mem_range.1 hj; omega)]
      ring
    rw [hz, zero_add, Nat.choose_self, Nat.sub_self, pow_zero, Nat.cast_one, one_mul, one_mul] at h0
    rcases mul_eq_zero.1 h0 with h1 | h1
    · exact absurd h1 (pow_ne_zero _ (by norm_num))
    · exact h1

open Finset in
/-- the right-half operator is upper triangular with a non-zero diagonal -/
theorem tri_right (n : ℕ) (w : ℕ → K)
    (h : ∀ i ≤ n, bern (n - i) (1 - 1 / 2) (1 / 2) (fun j => w (j + i)) = 0) : ∀ i ≤ n, w i = 0 := by
  have key : ∀ k ≤ n, w (n - k) = 0 := by
    intro k
    induction k using Nat.strong_induction_on with
    | _ k ih =>
      intro hk
      have h0 := h (n - k) (Nat.sub_le _ _)
      rw [Nat.sub_sub_self hk] at h0
      unfold bern at h0
      rw [Finset.sum_range_succ'] at h0
      have hz : ∑ j ∈ range k, (k.choose (j + 1) : K) * (1 - 1 / 2) ^ (k - (j + 1)) * (1 / 2) ^ (j + 1)
          * w (j + 1 + (n - k)) = 0 := by
        apply Finset.sum_eq_zero
        intro j hj
        have hjk := Finset.mem_range.1 hj
        have e : j + 1 + (n - k) = n - (k - j - 1) := by omega
        rw [e, ih (k - j - 1) (by omega) (by omega)]
        ring
      rw [hz, zero_add, Nat.choose_zero_right, Nat.cast_one, one_mul, pow_zero, mul_one, Nat.sub_zero] at h0
      simp only [Nat.zero_add] at h0
      rcases mul_eq_zero.1 h0 with h1 | h1
      · exact absurd h1 (pow_ne_zero _ (by norm_num))
      · exact h1
  intro i hi
  have := key (n - i) (Nat.sub_le _ _)
  rwa [Nat.sub_sub_self hi] at this

/-- a row whose left half is constant is constant -/
theorem const_of_left_const (row : List K) (h1 : 1 ≤ row.length) (c : K)
    (hc : ∀ i < row.length, seq (Py.subdivideRow row).1 i = c) : ∀ i < row.length, seq row i = c := by
  rw [C04.subdivide_is_specialize row h1] at hc
  have hb : ∀ i ≤ row.length - 1, bern i (1 - 1 / 2) (1 / 2) (fun j => seq row j - c) = 0 := by
    intro i hi
    rw [bern_sub_const _ _ _ _ _ (by ring), ← specPt_left (row.length - 1) i,
      ← Subdivide.seq_specializeRow row 0 (1 / 2) i (by omega), hc i (by omega), sub_self]
  intro i hi
  have := tri_left (row.length - 1) (fun j => seq row j - c) hb i (by omega)
  exact sub_eq_zero.1 this

/-- a row whose right half is constant is constant -/
theorem const_of_right_const (row : List K) (h1 : 1 ≤ row.length) (c : K)
    (hc : ∀ i < row.length, seq (Py.subdivideRow row).2 i = c) : ∀ i < row.length, seq row i = c := by
  rw [C04.subdivide_is_specialize row h1] at hc
  have hb : ∀ i ≤ row.length - 1,
      bern (row.length - 1 - i) (1 - 1 / 2) (1 / 2) (fun j => (fun m => seq row m - c) (j + i)) = 0 := by
    intro i hi
    show bern (row.length - 1 - i) (1 - 1 / 2) (1 / 2) (fun j => seq row (j + i) - c) = 0
    rw [bern_sub_const _ _ _ _ (fun j => seq row (j + i)) (by ring), ← specPt_right (row.length - 1) i,
      ← Subdivide.seq_specializeRow row (1 / 2) 1 i (by omega), hc i (by omega), sub_self]
  intro i hi
  have := tri_right (row.length - 1) (fun j => seq row j - c) hb i (by omega)
  exact sub_eq_zero.1 this

/-- the row takes two different values -/
def RowVaries (row : List K) : Prop := ∃ i j, i < row.length ∧ j < row.length ∧ seq row i ≠ seq row j

theorem RowVaries.length_pos {row : List K} (h : RowVaries row) : 1 ≤ row.length := by
  obtain ⟨i, _, hi, _⟩ := h; omega

theorem rowVaries_subdivide (row : List K) (h : RowVaries row) :
    RowVaries (Py.subdivideRow row).1 ∧ RowVaries (Py.subdivideRow row).2 := by
  have h1 := h.length_pos
  have hl := Cover.py_subdivideRow_length row h1
  obtain ⟨i, j, hi, hj, hne⟩ := h
  constructor
  · by_contra hnot
    have hc : ∀ k < row.length, seq (Py.subdivideRow row).1 k = seq (Py.subdivideRow row).1 0 := by
      intro k hk
      by_contra hk'
      exact hnot ⟨k, 0, by omega, by omega, hk'⟩
    have := const_of_left_const row h1 _ hc
    exact hne ((this i hi).trans (this j hj).symm)
  · by_contra hnot
    have hc : ∀ k < row.length, seq (Py.subdivideRow row).2 k = seq (Py.subdivideRow row).2 0 := by
      intro k hk
      by_contra hk'
      exact hnot ⟨k, 0, by omega, by omega, hk'⟩
    have := const_of_right_const row h1 _ hc
    exact hne ((this i hi).trans (this j hj).symm)

/-- a planar net (two coordinate rows of the same length) with two distinct control points -/
def NetVaries (n : List (List K)) : Prop :=
  ∃ xs ys, n = [xs, ys] ∧ xs.length = ys.length ∧ (RowVaries xs ∨ RowVaries ys)

theorem NetVaries.rowsNE {n : List (List K)} (h : NetVaries n) : RowsNE n := by
  obtain ⟨xs, ys, rfl, hl, hv⟩ := h
  have : 1 ≤ xs.length := by
    rcases hv with hv | hv
    · exact hv.length_pos
    · have := hv.length_pos; omega
  intro row hrow
  simp only [List.mem_cons, List.not_mem_nil, or_false] at hrow
  rcases hrow with rfl | rfl <;> omega

/-- **closed under subdivision**: in exact arithmetic the halves of a non-constant net are non-constant -/
theorem netVaries_subdivide (n : List (List K)) (h : NetVaries n) :
    NetVaries (Py.subdivide n).1 ∧ NetVaries (Py.subdivide n).2 := by
  have hne := h.rowsNE
  obtain ⟨xs, ys, rfl, hl, hv⟩ := h
  have hx := Cover.py_subdivideRow_length xs (hne xs (by simp))
  have hy := Cover.py_subdivideRow_length ys (hne ys (by simp))
  constructor
  · refine ⟨(Py.subdivideRow xs).1, (Py.subdivideRow ys).1, by simp [Py.subdivide], by rw [hx.1, hy.1, hl], ?_⟩
    rcases hv with hv | hv
    · exact Or.inl (rowVaries_subdivide xs hv).1
    · exact Or.inr (rowVaries_subdivide ys hv).1
  · refine ⟨(Py.subdivideRow xs).2, (Py.subdivideRow ys).2, by simp [Py.subdivide], by rw [hx.2, hy.2, hl], ?_⟩
    rcases hv with hv | hv
    · exact Or.inl (rowVaries_subdivide xs hv).2
    · exact Or.inr (rowVaries_subdivide ys hv).2

theorem two_le_length_of_two_mem {α : Type} (l : List α) (a b : α) (ha : a ∈ l) (hb : b ∈ l) (hab : a ≠ b) :
    2 ≤ l.length := by
  match l, ha, hb with
  | [x], ha, hb =>
    simp only [List.mem_singleton] at ha hb
    exact absurd (ha.trans hb.symm) hab
  | _ :: _ :: _, _, _ => simp

/-- a non-constant net has at least two distinct control points -/
theorem netVaries_two_points (n : List (List K)) (h : NetVaries n) : 2 ≤ (Py.sortUnique (colsOf n)).length := by
  obtain ⟨xs, ys, rfl, hl, hv⟩ := h
  have hmem : ∀ i, i < xs.length → (seq xs i, seq ys i) ∈ Py.sortUnique (colsOf [xs, ys]) := by
    intro i hi
    rw [PredicatesHull.mem_sortUnique_iff]
    show (seq xs i, seq ys i) ∈ List.zip xs ys
    have hi' : i < (List.zip xs ys).length := by simp [List.length_zip]; omega
    have : (List.zip xs ys)[i] = (seq xs i, seq ys i) := by
      simp [seq, List.getElem_zip, List.getD_eq_getElem?_getD, List.getElem?_eq_getElem hi,
        List.getElem?_eq_getElem (show i < ys.length by omega)]
    rw [← this]
    exact List.getElem_mem hi'
  rcases hv with ⟨i, j, hi, hj, hne⟩ | ⟨i, j, hi, hj, hne⟩
  · exact two_le_length_of_two_mem _ _ _ (hmem i hi) (hmem j hj) (fun h => hne (Prod.ext_iff.1 h).1)
  · exact two_le_length_of_two_mem _ _ _ (hmem i (by omega)) (hmem j (by omega)) (fun h => hne (Prod.ext_iff.1 h).2)

/-! ### degree matching keeps rows of length ≥ 2 -/

theorem iter_elevate_rows (k : ℕ) : ∀ (nodes : List (List K)), (∀ row ∈ nodes, 2 ≤ row.length) →
    ∀ row ∈ iter elevate k nodes, 2 ≤ row.length := by
  induction k with
  | zero => intro nodes h; exact h
  | succ k ih =>
    intro nodes h
    apply ih
    intro row hrow
    simp only [elevate, List.mem_map] at hrow
    obtain ⟨r, hr, rfl⟩ := hrow
    have := h r hr
    simp only [elevateRow, List.length_map, List.length_range]
    omega

theorem makeSameDegree_rows (n1 n2 : List (List K)) (h1 : ∀ row ∈ n1, 2 ≤ row.length)
    (h2 : ∀ row ∈ n2, 2 ≤ row.length) :
    (∀ row ∈ (makeSameDegree n1 n2).1, 2 ≤ row.length) ∧ (∀ row ∈ (makeSameDegree n1 n2).2, 2 ≤ row.length) :=
  ⟨iter_elevate_rows _ n1 h1, iter_elevate_rows _ n2 h2⟩

theorem NetVaries.rows2 {n : List (List K)} (h : NetVaries n) : ∀ row ∈ n, 2 ≤ row.length := by
  obtain ⟨xs, ys, rfl, hl, hv⟩ := h
  have : 2 ≤ xs.length := by
    rcases hv with ⟨i, j, hi, hj, hne⟩ | ⟨i, j, hi, hj, hne⟩
    · by_contra hlt
      have hi0 : i = 0 := by omega
      have hj0 : j = 0 := by omega
      subst hi0 hj0
      exact hne rfl
    · by_contra hlt
      have hi0 : i = 0 := by omega
      have hj0 : j = 0 := by omega
      subst hi0 hj0
      exact hne rfl
  intro row hrow
  simp only [List.mem_cons, List.not_mem_nil, or_false] at hrow
  rcases hrow with rfl | rfl <;> omega


/-- on non-constant nets the two variants of `hullCollide` agree -/
theorem hullCollide_agree_of_varies (C : PipelineConsts K) (a b : List (List K)) (ha : NetVaries a) (hb : NetVaries b) :
    (concretePrims true C).hullCollide a b = (concretePrims false C).hullCollide a b :=
  hullCollide_variants_agree C a b
    (not_degenerate_of_two _ _ (netVaries_two_points a ha) (netVaries_two_points b hb))

/-- the concrete primitives agree on the non-constant planar nets -/
theorem concrete_agreeOn_varies (C : PipelineConsts K) :
    AgreeOn (concretePrims true C) (concretePrims false C) NetVaries NetVaries :=
  concrete_agreeOn C NetVaries NetVaries netVaries_subdivide netVaries_subdivide
    (fun _ h => h.rowsNE) (fun _ h => h.rowsNE) (hullCollide_agree_of_varies C)


/-! ### the `_UNHANDLED_LINES` exit cannot be reached in exact arithmetic

`from_linearized` raises only for two candidates with linearisation error exactly `0` and parallel chords.  A piece of
a curve has error `0` only if the whole curve has (second differences of a half are a triangular, invertible image of
the second differences of the net), and two whole curves of error `0` are answered by `check_lines`. -/

/-- a quarter of the second difference -/
def q2 (v : ℕ → K) : ℕ → K := fun j => (1 / 4) * (v j - 2 * v (j + 1) + v (j + 2))

theorem q2_left (v : ℕ → K) :
    q2 v = v - (2 : K) • (T (1 - 1 / 2) (1 / 2) v) + T (1 - 1 / 2) (1 / 2) (T (1 - 1 / 2) (1 / 2) v) := by
  funext j
  simp only [q2, Pi.add_apply, Pi.sub_apply, Pi.smul_apply, smul_eq_mul, T_apply]
  ring

theorem q2_right (u : ℕ → K) :
    q2 u = T (1 - 1 / 2) (1 / 2) (T (1 - 1 / 2) (1 / 2) u) - (2 : K) • (T (1 - 1 / 2) (1 / 2) (S u)) + S (S u) := by
  funext j
  simp only [q2, Pi.add_apply, Pi.sub_apply, Pi.smul_apply, smul_eq_mul, T_apply, S_apply]
  ring

theorem T_pow_succ_apply (a b : K) (i : ℕ) (v : ℕ → K) : ((T a b) ^ (i + 1)) v = ((T a b) ^ i) (T a b v) := by
  rw [pow_succ, Module.End.mul_apply]

/-- second differences of the left half -/
theorem left_second_diff (i : ℕ) (v : ℕ → K) :
    bern i (1 - 1 / 2) (1 / 2) v - 2 * bern (i + 1) (1 - 1 / 2) (1 / 2) v + bern (i + 2) (1 - 1 / 2) (1 / 2) v
      = bern i (1 - 1 / 2) (1 / 2) (q2 v) := by
  simp only [← T_pow_apply_zero]
  rw [T_pow_succ_apply _ _ (i + 1), T_pow_succ_apply, T_pow_succ_apply, q2_left]
  simp only [map_add, map_sub, map_smul, Pi.add_apply, Pi.sub_apply, Pi.smul_apply, smul_eq_mul]

/-- second differences of the right half -/
theorem right_second_diff (m : ℕ) (u : ℕ → K) :
    bern (m + 2) (1 - 1 / 2) (1 / 2) u - 2 * bern (m + 1) (1 - 1 / 2) (1 / 2) (S u) + bern m (1 - 1 / 2) (1 / 2) (S (S u))
      = bern m (1 - 1 / 2) (1 / 2) (q2 u) := by
  simp only [← T_pow_apply_zero]
  rw [T_pow_succ_apply _ _ (m + 1), T_pow_succ_apply, T_pow_succ_apply, q2_right]
  simp only [map_add, map_sub, map_smul, Pi.add_apply, Pi.sub_apply, Pi.smul_apply, smul_eq_mul]

/-- every second difference of the row vanishes (the control points are equally spaced on a line) -/
def RowAffine (row : List K) : Prop :=
  ∀ j, j + 2 < row.length → seq row j - 2 * seq row (j + 1) + seq row (j + 2) = 0

theorem affine_of_left_affine (row : List K) (h : RowAffine (Py.subdivideRow row).1) : RowAffine row := by
  intro j hj
  have h1 : 1 ≤ row.length := by omega
  rw [C04.subdivide_is_specialize row h1] at h
  have hlen := C04.specialize_length row 0 (1 / 2 : K)
  have hb : ∀ i ≤ row.length - 3, bern i (1 - 1 / 2) (1 / 2) (q2 (seq row)) = 0 := by
    intro i hi
    have := h i (by rw [hlen]; omega)
    dsimp only at this
    rw [Subdivide.seq_specializeRow row 0 (1 / 2) i (by omega),
      Subdivide.seq_specializeRow row 0 (1 / 2) (i + 1) (by omega),
      Subdivide.seq_specializeRow row 0 (1 / 2) (i + 2) (by omega),
      specPt_left, specPt_left, specPt_left, left_second_diff] at this
    exact this
  have := tri_left (row.length - 3) (q2 (seq row)) hb j (by omega)
  unfold q2 at this
  rcases mul_eq_zero.1 this with h0 | h0
  · norm_num at h0
  · exact h0

theorem affine_of_right_affine (row : List K) (h : RowAffine (Py.subdivideRow row).2) : RowAffine row := by
  intro j hj
  have h1 : 1 ≤ row.length := by omega
  rw [C04.subdivide_is_specialize row h1] at h
  have hlen := C04.specialize_length row (1 / 2 : K) 1
  have hb : ∀ i ≤ row.length - 3,
      bern (row.length - 3 - i) (1 - 1 / 2) (1 / 2) (fun k => q2 (seq row) (k + i)) = 0 := by
    intro i hi
    have := h i (by rw [hlen]; omega)
    dsimp only at this
    rw [Subdivide.seq_specializeRow row (1 / 2) 1 i (by omega),
      Subdivide.seq_specializeRow row (1 / 2) 1 (i + 1) (by omega),
      Subdivide.seq_specializeRow row (1 / 2) 1 (i + 2) (by omega),
      specPt_right, specPt_right, specPt_right] at this
    have e0 : row.length - 1 - i = (row.length - 3 - i) + 2 := by omega
    have e1 : row.length - 1 - (i + 1) = (row.length - 3 - i) + 1 := by omega
    have e2 : row.length - 1 - (i + 2) = row.length - 3 - i := by omega
    rw [e0, e1, e2] at this
    have hS1 : (fun k => seq row (k + (i + 1))) = S (fun k => seq row (k + i)) := by
      funext k; simp only [S_apply]; congr 1; omega
    have hS2 : (fun k => seq row (k + (i + 2))) = S (S (fun k => seq row (k + i))) := by
      funext k; simp only [S_apply]; congr 1; omega
    rw [hS1, hS2, right_second_diff] at this
    have hq : q2 (fun k => seq row (k + i)) = fun k => q2 (seq row) (k + i) := by
      funext k
      simp only [q2]
      have a1 : k + 1 + i = k + i + 1 := by omega
      have a2 : k + 2 + i = k + i + 2 := by omega
      rw [a1, a2]
    rw [hq] at this
    exact this
  have := tri_right (row.length - 3) (q2 (seq row)) hb j (by omega)
  unfold q2 at this
  rcases mul_eq_zero.1 this with h0 | h0
  · norm_num at h0
  · exact h0


/-- the value `concretePrims` stores for `linearization_error²` (a failing call counts as `0`) -/
def linErr (nodes : List (List K)) : K :=
  match linearizationErrorSq nodes with
  | .ok e => e
  | .error _ => 0

theorem concrete_linErrSq (py : Bool) (C : PipelineConsts K) (nodes : List (List K)) :
    (concretePrims py C).linErrSq nodes = linErr nodes := rfl

theorem secondDiffs_eq_nil_iff : ∀ r : List K, secondDiffs r = [] ↔ r.length < 3
  | [] => by simp [secondDiffs]
  | [_] => by simp [secondDiffs]
  | [_, _] => by simp [secondDiffs]
  | _ :: _ :: _ :: _ => by simp [secondDiffs]

theorem rowAffine_cons3 (x y z : K) (rest : List K) :
    RowAffine (x :: y :: z :: rest) ↔ (x - 2 * y + z = 0 ∧ RowAffine (y :: z :: rest)) := by
  constructor
  · intro h
    refine ⟨by simpa [seq] using h 0 (by simp), ?_⟩
    intro j hj
    have := h (j + 1) (by simp only [List.length_cons] at hj ⊢; omega)
    simpa [seq] using this
  · rintro ⟨h0, ht⟩ j hj
    cases j with
    | zero => simpa [seq] using h0
    | succ j =>
      have := ht j (by simp only [List.length_cons] at hj ⊢; omega)
      simpa [seq] using this

theorem secondDiffs_zero_iff : ∀ r : List K, (∀ d ∈ secondDiffs r, d = 0) ↔ RowAffine r
  | [] => by simp [secondDiffs, RowAffine]
  | [_] => by simp [secondDiffs, RowAffine]
  | [_, _] => by simp [secondDiffs, RowAffine]
  | x :: y :: z :: rest => by
    rw [rowAffine_cons3, ← secondDiffs_zero_iff (y :: z :: rest)]
    simp only [secondDiffs, List.mem_cons, forall_eq_or_imp]
    have : (1 + 1 : K) = 2 := by norm_num
    rw [this]

theorem maxAbs?_zero_iff (l : List K) (m : K) (h : maxAbs? l = some m) :
    0 ≤ m ∧ (m = 0 ↔ ∀ d ∈ l, d = 0) := by
  cases l with
  | nil => simp [maxAbs?] at h
  | cons x xs =>
    simp only [maxAbs?, Option.some.injEq] at h
    have hge : ∀ d ∈ x :: xs, |d| ≤ m := by
      intro d hd
      rw [← h, ← Predicates.absK_eq_abs]
      apply Predicates.le_maxOf_of_mem
      rcases List.mem_cons.mp hd with rfl | hd
      · exact List.mem_cons_self ..
      · exact List.mem_cons_of_mem _ (List.mem_map_of_mem hd)
    have hmem : ∃ d ∈ x :: xs, m = |d| := by
      have hm := Predicates.maxOf_mem (xs.map absK) (absK x)
      rw [h] at hm
      rcases List.mem_cons.mp hm with hm | hm
      · exact ⟨x, List.mem_cons_self .., by rw [hm, Predicates.absK_eq_abs]⟩
      · obtain ⟨d, hd, hd'⟩ := List.mem_map.mp hm
        exact ⟨d, List.mem_cons_of_mem _ hd, by rw [← hd', Predicates.absK_eq_abs]⟩
    refine ⟨le_trans (abs_nonneg x) (hge x (List.mem_cons_self ..)), ?_, ?_⟩
    · intro hm d hd
      have := hge d hd
      rw [hm] at this
      exact abs_eq_zero.1 (le_antisymm this (abs_nonneg d))
    · intro hall
      obtain ⟨d, hd, hmd⟩ := hmem
      rw [hmd, hall d hd, abs_zero]

theorem foldl_sq_zero_iff : ∀ (l : List K) (a : K), 0 ≤ a →
    (l.foldl (fun acc x => acc + x * x) a = 0 ↔ a = 0 ∧ ∀ w ∈ l, w = 0)
  | [], a, _ => by simp
  | x :: rest, a, ha => by
    rw [List.foldl_cons, foldl_sq_zero_iff rest (a + x * x) (add_nonneg ha (mul_self_nonneg x)),
      add_eq_zero_iff_of_nonneg ha (mul_self_nonneg x), mul_self_eq_zero]
    simp only [List.mem_cons, forall_eq_or_imp, and_assoc]

theorem normSq_zero_iff (l : List K) : normSq l = 0 ↔ ∀ w ∈ l, w = 0 := by
  unfold normSq
  rw [foldl_sq_zero_iff l 0 le_rfl]
  simp

/-- `mapM` into `Option` -/
theorem mapM_option {α β : Type} (f : α → Option β) : ∀ l : List α,
    (l.mapM f = none ∧ ∃ a ∈ l, f a = none) ∨
    (∃ ys, l.mapM f = some ys ∧ (∀ a ∈ l, (f a).isSome) ∧ ∀ y, y ∈ ys ↔ ∃ a ∈ l, f a = some y)
  | [] => Or.inr ⟨[], by simp⟩
  | a :: l => by
    cases hfa : f a with
    | none => left; exact ⟨by simp [List.mapM_cons, hfa], a, List.mem_cons_self .., hfa⟩
    | some b =>
      rcases mapM_option f l with ⟨hn, a', ha', hfa'⟩ | ⟨ys, hs, hall, hmem⟩
      · left; exact ⟨by simp [List.mapM_cons, hfa, hn], a', List.mem_cons_of_mem _ ha', hfa'⟩
      · right
        refine ⟨b :: ys, by simp [List.mapM_cons, hfa, hs], ?_, ?_⟩
        · intro x hx
          rcases List.mem_cons.mp hx with rfl | hx
          · simp [hfa]
          · exact hall x hx
        · intro y
          simp only [List.mem_cons, hmem, exists_eq_or_imp, hfa, Option.some.injEq]
          constructor
          · rintro (rfl | h)
            · exact Or.inl rfl
            · exact Or.inr h
          · rintro (h | h)
            · exact Or.inl h.symm
            · exact Or.inr h

theorem multiplier_ne_zero (d : ℕ) (hd : 2 ≤ d) : (q 1 8 : K) * ((d : ℕ) : K) * (((d - 1 : ℕ)) : K) ≠ 0 := by
  have h8 : (q 1 8 : K) = 1 / 8 := by simp [q]
  rw [h8]
  have h1 : ((d : ℕ) : K) ≠ 0 := Nat.cast_ne_zero.2 (by omega)
  have h2 : (((d - 1 : ℕ)) : K) ≠ 0 := Nat.cast_ne_zero.2 (by omega)
  exact mul_ne_zero (mul_ne_zero (by norm_num) h1) h2

/-- **when the stored linearisation error is not zero**: at least three nodes, every row long enough, and some row
    with a non-vanishing second difference -/
theorem linErr_ne_zero_iff (nodes : List (List K)) :
    linErr nodes ≠ 0 ↔ (3 ≤ ncols nodes ∧ (∀ r ∈ nodes, 3 ≤ r.length) ∧ ∃ r ∈ nodes, ¬ RowAffine r) := by
  unfold linErr linearizationErrorSq
  dsimp only
  by_cases h2 : ncols nodes = 2
  · simp [h2]
  by_cases h3 : ncols nodes < 3
  · simp only [h2, if_false, h3, if_true]
    constructor
    · intro h; exact absurd rfl h
    · rintro ⟨h, _⟩; omega
  have hn3 : 3 ≤ ncols nodes := by omega
  simp only [h2, if_false, h3]
  rcases mapM_option (fun r => maxAbs? (secondDiffs r)) nodes with ⟨hn, r, hr, hfr⟩ | ⟨worst, hs, hall, hmem⟩
  · rw [hn]
    constructor
    · intro h; exact absurd rfl h
    · rintro ⟨_, hrows, _⟩
      have := hrows r hr
      cases hsd : secondDiffs r with
      | nil => have := (secondDiffs_eq_nil_iff r).1 hsd; omega
      | cons x xs => rw [hsd] at hfr; simp [maxAbs?] at hfr
  · rw [hs]
    dsimp only
    have hrows : ∀ r ∈ nodes, 3 ≤ r.length := by
      intro r hr
      by_contra hlt
      have := hall r hr
      rw [(secondDiffs_eq_nil_iff r).2 (by omega)] at this
      simp [maxAbs?] at this
    have hmult := multiplier_ne_zero (K := K) (ncols nodes - 1) (by omega)
    rw [mul_ne_zero_iff, mul_self_ne_zero, ne_eq, ne_eq, normSq_zero_iff]
    constructor
    · rintro ⟨_, hw⟩
      refine ⟨hn3, hrows, ?_⟩
      by_contra hno
      apply hw
      intro w hwm
      obtain ⟨r, hr, hrw⟩ := (hmem w).1 hwm
      have haff : RowAffine r := by
        by_contra hna; exact hno ⟨r, hr, hna⟩
      exact ((maxAbs?_zero_iff _ _ hrw).2).2 ((secondDiffs_zero_iff r).2 haff)
    · rintro ⟨_, _, r, hr, hna⟩
      refine ⟨hmult, ?_⟩
      intro hw
      apply hna
      have hsome := hall r hr
      obtain ⟨m, hm⟩ := Option.isSome_iff_exists.1 hsome
      have hm0 : m = 0 := hw m ((hmem m).2 ⟨r, hr, hm⟩)
      exact (secondDiffs_zero_iff r).1 (((maxAbs?_zero_iff _ _ hm).2).1 hm0)


theorem linErr_ne_zero_subdivide (nodes : List (List K)) (h : linErr nodes ≠ 0) :
    linErr (Py.subdivide nodes).1 ≠ 0 ∧ linErr (Py.subdivide nodes).2 ≠ 0 := by
  obtain ⟨hn3, hrows, r, hr, hna⟩ := (linErr_ne_zero_iff nodes).1 h
  have hlen : ∀ r ∈ nodes, (Py.subdivideRow r).1.length = r.length ∧ (Py.subdivideRow r).2.length = r.length :=
    fun r hr => Cover.py_subdivideRow_length r (by have := hrows r hr; omega)
  cases nodes with
  | nil => simp [ncols] at hn3
  | cons r0 t =>
    have h0 := hlen r0 List.mem_cons_self
    constructor
    · rw [linErr_ne_zero_iff]
      refine ⟨?_, ?_, (Py.subdivideRow r).1, ?_, fun ha => hna (affine_of_left_affine r ha)⟩
      · simp only [Py.subdivide, List.map_cons, ncols, List.headD_cons] at hn3 ⊢
        rw [h0.1]; exact hn3
      · intro r' hr'
        simp only [Py.subdivide, List.mem_map] at hr'
        obtain ⟨r1, hr1, rfl⟩ := hr'
        rw [(hlen r1 hr1).1]; exact hrows r1 hr1
      · simp only [Py.subdivide, List.mem_map]; exact ⟨r, hr, rfl⟩
    · rw [linErr_ne_zero_iff]
      refine ⟨?_, ?_, (Py.subdivideRow r).2, ?_, fun ha => hna (affine_of_right_affine r ha)⟩
      · simp only [Py.subdivide, List.map_cons, ncols, List.headD_cons] at hn3 ⊢
        rw [h0.2]; exact hn3
      · intro r' hr'
        simp only [Py.subdivide, List.mem_map] at hr'
        obtain ⟨r1, hr1, rfl⟩ := hr'
        rw [(hlen r1 hr1).2]; exact hrows r1 hr1
      · simp only [Py.subdivide, List.mem_map]; exact ⟨r, hr, rfl⟩

/-- the subdivision routine of either variant, on a net with non-zero stored error, is the Python one -/
theorem concrete_subdivide_of_linErr (py : Bool) (C : PipelineConsts K) (nodes : List (List K)) (h : linErr nodes ≠ 0) :
    (concretePrims py C).subdivide nodes = Py.subdivide nodes := by
  cases py
  · have hr : RowsNE nodes := fun r hr => by
      have := ((linErr_ne_zero_iff nodes).1 h).2.1 r hr; omega
    exact ((subdivide_variants_iff C nodes).2 hr).symm
  · rfl

/-- a curve candidate carries a non-zero stored error -/
def CandNZ : Cand K → Prop
  | .curve s => linErr s.nodes ≠ 0
  | .lin _ _ => True

/-- an exactly linear candidate -/
def ZeroLin : Cand K → Prop
  | .curve _ => False
  | .lin _ e => e = 0

/-- the invariant of the candidate pairs of the round loop: never two exactly linear candidates -/
def PairNZ (pr : Cand K × Cand K) : Prop := CandNZ pr.1 ∧ CandNZ pr.2 ∧ ¬ (ZeroLin pr.1 ∧ ZeroLin pr.2)

theorem fromShape_nz (py : Bool) (C : PipelineConsts K) (G : GeoConsts K) (s : SubCurve K) (h : linErr s.nodes ≠ 0) :
    CandNZ (fromShape (concretePrims py C) G (.curve s)) ∧ ¬ ZeroLin (fromShape (concretePrims py C) G (.curve s)) := by
  unfold fromShape
  dsimp only
  rw [concrete_linErrSq]
  split
  · exact ⟨trivial, h⟩
  · exact ⟨h, fun hz => hz⟩

theorem subdivideCand_nz (py : Bool) (C : PipelineConsts K) (G : GeoConsts K) (c : Cand K) (hc : CandNZ c) :
    ∀ c' ∈ subdivideCand (concretePrims py C) G c, CandNZ c' ∧ (ZeroLin c' → c' = c) := by
  cases c with
  | lin s e =>
    intro c' hc'
    simp only [subdivideCand, List.mem_singleton] at hc'
    subst hc'
    exact ⟨trivial, fun _ => rfl⟩
  | curve s =>
    have hs := concrete_subdivide_of_linErr py C s.nodes hc
    have hh := linErr_ne_zero_subdivide s.nodes hc
    intro c' hc'
    unfold subdivideCand at hc'
    dsimp only at hc'
    rw [hs] at hc'
    simp only [List.mem_cons, List.not_mem_nil, or_false] at hc'
    rcases hc' with rfl | rfl
    · have := fromShape_nz py C G ⟨(Py.subdivide s.nodes).1, s.start, 1 / (1 + 1) * (s.start + s.stop)⟩ hh.1
      exact ⟨this.1, fun hz => absurd hz this.2⟩
    · have := fromShape_nz py C G ⟨(Py.subdivide s.nodes).2, 1 / (1 + 1) * (s.start + s.stop), s.stop⟩ hh.2
      exact ⟨this.1, fun hz => absurd hz this.2⟩

theorem fromLinearized_noflag (P : Prims K) (G : GeoConsts K) (b1 b2 : Bool) (o1 o2 : List (List K))
    (c1 : SubCurve K) (e1 : K) (c2 : SubCurve K) (e2 : K) (acc : List (K × K)) (h : ¬ (e1 = 0 ∧ e2 = 0)) :
    fromLinearized P (withRaise G b1) o1 o2 c1 e1 c2 e2 acc = fromLinearized P (withRaise G b2) o1 o2 c1 e1 c2 e2 acc := by
  have n1 : ¬ (e1 = 0 ∧ e2 = 0 ∧ (withRaise G b1).unhandledLinesRaise = true) := fun hh => h ⟨hh.1, hh.2.1⟩
  have n2 : ¬ (e1 = 0 ∧ e2 = 0 ∧ (withRaise G b2).unhandledLinesRaise = true) := fun hh => h ⟨hh.1, hh.2.1⟩
  unfold fromLinearized
  simp only [if_neg n1, if_neg n2]
  rfl

theorem intersectPair_noflag (py : Bool) (C : PipelineConsts K) (G : GeoConsts K) (b1 b2 : Bool)
    (o1 o2 : List (List K)) (pr : Cand K × Cand K) (acc : List (K × K)) (hp : PairNZ pr) :
    intersectPair (concretePrims py C) (withRaise G b1) o1 o2 pr.1 pr.2 acc
        = intersectPair (concretePrims py C) (withRaise G b2) o1 o2 pr.1 pr.2 acc ∧
      ∀ next acc', intersectPair (concretePrims py C) (withRaise G b1) o1 o2 pr.1 pr.2 acc = .ok (next, acc') →
        ∀ x ∈ next, PairNZ x := by
  obtain ⟨first, second⟩ := pr
  obtain ⟨h1, h2, hz⟩ := hp
  dsimp only at h1 h2 hz ⊢
  have hsub1 := subdivideCand_nz py C (withRaise G b1) first h1
  have hsub2 := subdivideCand_nz py C (withRaise G b1) second h2
  cases first with
  | lin c1 e1 =>
    cases second with
    | lin c2 e2 =>
      have hne : ¬ (e1 = 0 ∧ e2 = 0) := hz
      constructor
      · unfold intersectPair
        simp only [fromLinearized_noflag _ G b1 b2 o1 o2 c1 e1 c2 e2 acc hne]
        rfl
      · intro next acc' hr x hx
        unfold intersectPair at hr
        simp only [Cand.isLin, Bool.and_self, Bool.not_true, Bool.false_eq_true, and_false, if_false] at hr
        split at hr
        · cases hr; cases hx
        · split at hr
          · cases hr
          · cases hr; cases hx
    | curve c2 =>
      refine ⟨rfl, ?_⟩
      intro next acc' hr x hx
      unfold intersectPair at hr
      simp only [Cand.isLin, Bool.and_false, Bool.not_false, and_true] at hr
      split at hr
      · cases hr; cases hx
      · split at hr
        · cases hr; cases hx
        · cases hr
          have hm := mem_pairs _ _ x hx
          refine ⟨(hsub1 _ hm.1).1, (hsub2 _ hm.2).1, ?_⟩
          rintro ⟨_, hz2⟩
          have := (hsub2 _ hm.2).2 hz2
          rw [this] at hz2
          exact hz2
  | curve c1 =>
    have key : ∀ next acc', intersectPair (concretePrims py C) (withRaise G b1) o1 o2 (.curve c1) second acc
        = .ok (next, acc') → ∀ x ∈ next, PairNZ x := by
      intro next acc' hr x hx
      have hnext : ∀ x ∈ (subdivideCand (concretePrims py C) (withRaise G b1) (.curve c1)).flatMap
          (fun a => (subdivideCand (concretePrims py C) (withRaise G b1) second).map (fun b => (a, b))), PairNZ x := by
        intro x hx
        have hm := mem_pairs _ _ x hx
        refine ⟨(hsub1 _ hm.1).1, (hsub2 _ hm.2).1, ?_⟩
        rintro ⟨hz1, _⟩
        have := (hsub1 _ hm.1).2 hz1
        rw [this] at hz1
        exact hz1
      cases second with
      | lin c2 e2 =>
        unfold intersectPair at hr
        simp only [Cand.isLin, Bool.false_and, Bool.not_false, and_true] at hr
        split at hr
        · cases hr; cases hx
        · split at hr
          · cases hr; cases hx
          · cases hr; exact hnext x hx
      | curve c2 =>
        unfold intersectPair at hr
        simp only [Cand.isLin, Bool.and_self, Bool.not_false, and_true] at hr
        split at hr
        · cases hr; cases hx
        · split at hr
          · cases hr; cases hx
          · cases hr; exact hnext x hx
    refine ⟨?_, key⟩
    cases second <;> rfl

/-- **the flag is dead code in exact arithmetic**: with a positive linearisation threshold the concrete pipeline (either
    variant) returns the same with and without the `_UNHANDLED_LINES` exit, on every pair of nets -/
theorem allIntersections_noflag (py : Bool) (C : PipelineConsts K) (G : GeoConsts K) (hE : 0 < G.errValSq) (b1 b2 : Bool)
    (n1 n2 : List (List K)) :
    allIntersections (concretePrims py C) (withRaise G b1) n1 n2
      = allIntersections (concretePrims py C) (withRaise G b2) n1 n2 := by
  have hrounds : ∀ (fuel : ℕ) (cands : List (Cand K × Cand K)), (∀ pr ∈ cands, PairNZ pr) → ∀ acc : List (K × K),
      allIntersections.rounds (concretePrims py C) (withRaise G b1) n1 n2 fuel cands acc
        = allIntersections.rounds (concretePrims py C) (withRaise G b2) n1 n2 fuel cands acc := by
    intro fuel
    induction fuel with
    | zero => intro _ _ _; rfl
    | succ f ih =>
      intro cands hc acc
      rw [rounds_succ, rounds_succ, intersectOneRound_eq, intersectOneRound_eq]
      have hf := foldl_roundStep_congr_inv (P1 := concretePrims py C) (P2 := concretePrims py C)
        (G1 := withRaise G b1) (G2 := withRaise G b2) (o1 := n1) (o2 := n2) PairNZ
        (fun pr acc hp => intersectPair_noflag py C G b1 b2 n1 n2 pr acc hp) cands hc (.ok ([], acc))
        (fun _ _ hh => by cases hh; intro x hx; cases hx)
      rw [← hf.1]
      cases hr : cands.foldl (roundStep (concretePrims py C) (withRaise G b1) n1 n2) (.ok ([], acc)) with
      | error e => rfl
      | ok r =>
        obtain ⟨next, acc'⟩ := r
        have hnext := hf.2 next acc' hr
        dsimp only
        have hap : afterPrune (concretePrims py C) (withRaise G b2) next
            = afterPrune (concretePrims py C) (withRaise G b1) next := rfl
        have hcp : coincidentParameters (concretePrims py C) (withRaise G b2) n1 n2
            = coincidentParameters (concretePrims py C) (withRaise G b1) n1 n2 := rfl
        have hmc : (withRaise G b2).maxCandidates = (withRaise G b1).maxCandidates := rfl
        rw [hap, hcp, hmc]
        by_cases hc1 : (afterPrune (concretePrims py C) (withRaise G b1) next).length > (withRaise G b1).maxCandidates
        · rw [if_pos hc1, if_pos hc1]
        · rw [if_neg hc1, if_neg hc1]
          by_cases hc2 : (afterPrune (concretePrims py C) (withRaise G b1) next).isEmpty = true
          · rw [if_pos hc2, if_pos hc2]
          · rw [if_neg hc2, if_neg hc2]
            apply ih
            intro pr hpr
            unfold afterPrune at hpr
            split at hpr
            · exact hnext pr (pruneCandidates_sub _ next pr hpr)
            · exact hnext pr hpr
  unfold allIntersections
  dsimp only
  have hfs : ∀ c : Cand K, fromShape (concretePrims py C) (withRaise G b2) c
      = fromShape (concretePrims py C) (withRaise G b1) c := fun c => by cases c <;> rfl
  rw [hfs, hfs]
  have hmr : (withRaise G b2).maxRounds = (withRaise G b1).maxRounds := rfl
  rw [hmr]
  cases hcl : checkLines (concretePrims py C)
      (fromShape (concretePrims py C) (withRaise G b1) (.curve { nodes := n1, start := 0, stop := 1 }))
      (fromShape (concretePrims py C) (withRaise G b1) (.curve { nodes := n2, start := 0, stop := 1 })) with
  | some r => rfl
  | none =>
    dsimp only
    apply hrounds
    intro pr hpr
    simp only [List.mem_singleton] at hpr
    subst hpr
    -- the initial pair: a curve candidate has error ≥ threshold > 0; two exactly linear ones are answered by `check_lines`
    have hinit : ∀ n : List (List K), CandNZ (fromShape (concretePrims py C) (withRaise G b1)
        (.curve { nodes := n, start := 0, stop := 1 })) := by
      intro n
      unfold fromShape
      dsimp only
      rw [concrete_linErrSq]
      split
      · trivial
      · rename_i hlt
        show linErr n ≠ 0
        intro h0
        rw [h0] at hlt
        exact hlt hE
    refine ⟨hinit n1, hinit n2, ?_⟩
    rintro ⟨hz1, hz2⟩
    -- both exactly linear: `check_lines` would have answered
    revert hcl hz1 hz2
    generalize fromShape (concretePrims py C) (withRaise G b1) (.curve { nodes := n1, start := 0, stop := 1 }) = c1
    generalize fromShape (concretePrims py C) (withRaise G b1) (.curve { nodes := n2, start := 0, stop := 1 }) = c2
    intro hcl hz1 hz2
    cases c1 with
    | curve _ => exact hz1
    | lin s1 e1 =>
      cases c2 with
      | curve _ => exact hz2
      | lin s2 e2 =>
        have he1 : e1 = 0 := hz1
        have he2 : e2 = 0 := hz2
        subst he1 he2
        unfold checkLines at hcl
        simp only [and_self, if_true] at hcl
        split at hcl
        · split at hcl <;> cases hcl
        · split at hcl <;> cases hcl


/-- the same for `self_intersections` -/
theorem selfIntersections_noflag (py : Bool) (C : PipelineConsts K) (G : GeoConsts K) (hE : 0 < G.errValSq) (b1 b2 : Bool) :
    ∀ (fuel : ℕ) (nodes : List (List K)),
      selfIntersections (concretePrims py C) (withRaise G b1) fuel nodes
        = selfIntersections (concretePrims py C) (withRaise G b2) fuel nodes := by
  intro fuel
  induction fuel with
  | zero => intro _; rfl
  | succ f ih =>
    intro nodes
    rw [selfIntersections_succ, selfIntersections_succ, ih, ih, allIntersections_noflag py C G hE b1 b2]
    rfl


end Field

/-! ## data of the decided examples of Props/C07Variants -/

/-- the near-tangent parabola `y = (x − 3/8)² − 2⁻³²` over `[0,1]` (all control points dyadic) and the `x`-axis: they
    cross at `x = 3/8 ∓ 2⁻¹⁶` -/
def nearTangent : List (List ℚ) := [[0, 1/2, 1], [9/64 - 1/2^32, 9/64 - 1/2^32 - 3/8, 25/64 - 1/2^32]]

/-- HISTORICAL: the pure-Python primitives with the Newton cut rule as it was before the repair `ab67aa1`
    (`Py.cutOld`); every other field is the one of `concretePrims true C`.  Only for `C07.pipeline_old_differs`. -/
def concretePrimsOld {K : Type} [Add K] [Sub K] [Mul K] [Div K] [Neg K] [OfNat K 0] [OfNat K 1] [NatCast K]
    [LT K] [DecidableLT K] [LE K] [DecidableLE K] [DecidableEq K] (C : PipelineConsts K) : Prims K :=
  { concretePrims true C with
    fullNewton := fun s n1 t n2 =>
      fullNewton solverOf Py.cutOld C.rnd C.geo.ratioSq C.geo.zeroThr C.vsThr C.newtonFuel s n1 t n2 }

end BezierVerif.Variants
