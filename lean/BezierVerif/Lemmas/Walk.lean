import BezierVerif.Model.Walk
import BezierVerif.Model.GeometricInst
import BezierVerif.Lemmas.Classify
import Mathlib.Algebra.Order.Field.Basic
import Mathlib.Tactic.Linarith
import Mathlib.Tactic.NormNum

/-!
# Lemmas/Walk — helper lemmas for the boundary-walk theorems (Props/C06Walk.lean)

* the scan `alongLoop` of `get_next_first` / `get_next_second` returns the first among the nearest candidates;
* `toFrontNode` / `getNextCore` do not depend on `unused` in their node component; `toFrontNode` is
  `Classify.toFront` with identity tracked;
* invariants of `Py.innerLoop` / `Py.outerLoop` (closed chain, `unused` bookkeeping, fuel never exhausted).
-/

set_option linter.unusedSectionVars false
set_option linter.unusedVariables false

namespace BezierVerif.WalkLemmas

open Model Model.Classify Model.Walk ClassifyLemmas

variable {K : Type} [Field K] [LinearOrder K] [IsStrictOrderedRing K]

/-! ### optional comparisons -/

theorem optGt_iff (a b : Option K) : optGt a b = true ↔ ∃ x y, a = some x ∧ b = some y ∧ y < x := by
  cases a <;> cases b <;> simp [optGt]

theorem optLt_iff (a b : Option K) : optLt a b = true ↔ ∃ x y, a = some x ∧ b = some y ∧ x < y := by
  cases a <;> cases b <;> simp [optLt]

/-! ### the scan of `get_next_first` / `get_next_second` -/

/-- `other_int` qualifies: same edge, strictly larger parameter -/
def Cand (idx : Intersection K → Option Nat) (par : Intersection K → Option K) (index : Option Nat) (p : Option K)
    (o : Intersection K) : Prop :=
  idx o = index ∧ optGt (par o) p = true

theorem cand_some {idx : Intersection K → Option Nat} {par : Intersection K → Option K} {index : Option Nat}
    {p : Option K} {o : Intersection K} (h : Cand idx par index p o) :
    ∃ x y, par o = some x ∧ p = some y ∧ y < x := (optGt_iff _ _).mp h.2

theorem alongLoop_none (idx : Intersection K → Option Nat) (par : Intersection K → Option K) (index : Option Nat)
    (p : Option K) : ∀ (l : List (Intersection K)) (i : Nat) (acc : Option (Nat × Intersection K)),
    alongLoop idx par index p l i acc = none → acc = none ∧ ∀ o ∈ l, ¬ Cand idx par index p o := by
  intro l
  induction l with
  | nil => intro i acc h; simpa [alongLoop] using h
  | cons a rest ih =>
    intro i acc h
    simp only [alongLoop] at h
    obtain ⟨h1, h2⟩ := ih _ _ h
    by_cases hc : idx a = index ∧ optGt (par a) p = true
    · rw [if_pos hc] at h1
      cases acc with
      | none => simp at h1
      | some b =>
        simp only at h1
        split_ifs at h1
    · rw [if_neg hc] at h1
      refine ⟨h1, ?_⟩
      intro o ho
      rcases List.mem_cons.mp ho with rfl | ho
      · exact hc
      · exact h2 o ho

theorem alongLoop_some (idx : Intersection K → Option Nat) (par : Intersection K → Option K) (index : Option Nat)
    (p : Option K) : ∀ (l : List (Intersection K)) (i : Nat) (acc : Option (Nat × Intersection K))
    (b : Nat × Intersection K),
    (∀ a, acc = some a → Cand idx par index p a.2) →
    alongLoop idx par index p l i acc = some b →
    Cand idx par index p b.2 ∧ (acc = some b ∨ ∃ k, l[k]? = some b.2 ∧ b.1 = i + k) ∧
    (∀ o ∈ l, Cand idx par index p o → ∀ x y, par o = some x → par b.2 = some y → y ≤ x) ∧
    (∀ a, acc = some a → ∀ x y, par a.2 = some x → par b.2 = some y → y ≤ x) := by
  intro l
  induction l with
  | nil =>
    intro i acc b hacc h
    simp only [alongLoop] at h
    subst h
    refine ⟨hacc b rfl, Or.inl rfl, by simp, ?_⟩
    intro a ha x y hx hy
    cases ha
    rw [hx] at hy; cases hy; exact le_rfl
  | cons a rest ih =>
    intro i acc b hacc h
    simp only [alongLoop] at h
    by_cases hc : idx a = index ∧ optGt (par a) p = true
    · rw [if_pos hc] at h
      have hca : Cand idx par index p a := hc
      cases acc with
      | none =>
        simp only at h
        obtain ⟨g1, g2, g3, g4⟩ := ih (i + 1) (some (i, a)) b (by intro a' ha'; cases ha'; exact hca) h
        refine ⟨g1, Or.inr ?_, ?_, by simp⟩
        · rcases g2 with g2 | ⟨k, hk, hb⟩
          · cases g2; exact ⟨0, by simp, by simp⟩
          · exact ⟨k + 1, by simpa using hk, by omega⟩
        · intro o ho hco x y hx hy
          rcases List.mem_cons.mp ho with rfl | ho
          · exact g4 (i, o) rfl x y hx hy
          · exact g3 o ho hco x y hx hy
      | some c =>
        simp only at h
        have hcc : Cand idx par index p c.2 := hacc c rfl
        by_cases hlt : optLt (par a) (par c.2) = true
        · rw [if_pos hlt] at h
          obtain ⟨g1, g2, g3, g4⟩ := ih (i + 1) (some (i, a)) b (by intro a' ha'; cases ha'; exact hca) h
          obtain ⟨xa, xc, hxa, hxc, hlt'⟩ := (optLt_iff _ _).mp hlt
          refine ⟨g1, Or.inr ?_, ?_, ?_⟩
          · rcases g2 with g2 | ⟨k, hk, hb⟩
            · cases g2; exact ⟨0, by simp, by simp⟩
            · exact ⟨k + 1, by simpa using hk, by omega⟩
          · intro o ho hco x y hx hy
            rcases List.mem_cons.mp ho with rfl | ho
            · exact g4 (i, o) rfl x y hx hy
            · exact g3 o ho hco x y hx hy
          · intro c' hc' x y hx hy
            cases hc'
            rw [hxc] at hx; cases hx
            have := g4 (i, a) rfl xa y hxa hy
            exact le_trans this (le_of_lt hlt')
        · rw [if_neg hlt] at h
          obtain ⟨g1, g2, g3, g4⟩ := ih (i + 1) (some c) b (by intro a' ha'; cases ha'; exact hcc) h
          refine ⟨g1, ?_, ?_, g4⟩
          · rcases g2 with g2 | ⟨k, hk, hb⟩
            · exact Or.inl g2
            · exact Or.inr ⟨k + 1, by simpa using hk, by omega⟩
          · intro o ho hco x y hx hy
            rcases List.mem_cons.mp ho with rfl | ho
            · obtain ⟨xc, _, hxc, _, _⟩ := cand_some hcc
              have h1 := g4 c rfl xc y hxc hy
              have h2 : xc ≤ x := by
                by_contra hcon
                apply hlt
                exact (optLt_iff _ _).mpr ⟨x, xc, hx, hxc, not_le.mp hcon⟩
              exact le_trans h1 h2
            · exact g3 o ho hco x y hx hy
    · rw [if_neg hc] at h
      obtain ⟨g1, g2, g3, g4⟩ := ih (i + 1) acc b hacc h
      refine ⟨g1, ?_, ?_, g4⟩
      · rcases g2 with g2 | ⟨k, hk, hb⟩
        · exact Or.inl g2
        · exact Or.inr ⟨k + 1, by simpa using hk, by omega⟩
      · intro o ho hco x y hx hy
        rcases List.mem_cons.mp ho with rfl | ho
        · exact absurd hco hc
        · exact g3 o ho hco x y hx hy

/-- the scan started with `along_edge = None` at position 0 -/
theorem alongLoop_spec (idx : Intersection K → Option Nat) (par : Intersection K → Option K) (index : Option Nat)
    (p : Option K) (l : List (Intersection K)) :
    (alongLoop idx par index p l 0 none = none ∧ ∀ o ∈ l, ¬ Cand idx par index p o) ∨
    ∃ b, alongLoop idx par index p l 0 none = some b ∧ l[b.1]? = some b.2 ∧ Cand idx par index p b.2 ∧
      ∀ o ∈ l, Cand idx par index p o → ∀ x y, par o = some x → par b.2 = some y → y ≤ x := by
  cases h : alongLoop idx par index p l 0 none with
  | none => exact Or.inl ⟨rfl, (alongLoop_none idx par index p l 0 none h).2⟩
  | some b =>
    obtain ⟨g1, g2, g3, _⟩ := alongLoop_some idx par index p l 0 none b (by simp) h
    refine Or.inr ⟨b, rfl, ?_, g1, g3⟩
    rcases g2 with g2 | ⟨k, hk, hb⟩
    · cases g2
    · have : b.1 = k := by omega
      rw [this]; exact hk


/-! ### nodes produced by `get_next` -/

/-- a node is the list element at its position -/
def AtPos (ints : List (Intersection K)) (m : WNode K) : Prop := ∃ i, m.pos = some i ∧ ints[i]? = some m.val

/-- what `get_next` can return: a list element (with its position) or an artificial edge end -/
def NodeOK (ints : List (Intersection K)) (m : WNode K) : Prop :=
  AtPos ints m ∨ (m.pos = none ∧ (m.val.s = some 1 ∨ m.val.t = some 1))

/-- the artificial nodes `to_front` creates -/
def artFirst (k : Nat) : Intersection K :=
  { indexFirst := some k, s := some 0, indexSecond := none, t := none, interior := some .first }
def artSecond (k : Nat) : Intersection K :=
  { indexFirst := none, s := none, indexSecond := some k, t := some 0, interior := some .second }

/-- what the walk uses as `curr_node`: a list element or an artificial edge start -/
def CurrOK (ints : List (Intersection K)) (c : WNode K) : Prop :=
  AtPos ints c ∨ (c.pos = none ∧ ∃ k, c.val = artFirst k) ∨ (c.pos = none ∧ ∃ k, c.val = artSecond k)

/-- classes from which `get_next` can continue -/
def Walkable (c : Option Cls) : Prop := isFirst c = true ∨ isSecond c = true ∨ c = some .coincident

/-- the artificial end nodes `get_next_*` creates -/
def endFirst (x : Intersection K) : WNode K :=
  { pos := none, val := { indexFirst := x.indexFirst, s := some 1, indexSecond := none, t := none, interior := some .first } }
def endSecond (x : Intersection K) : WNode K :=
  { pos := none, val := { indexFirst := none, s := none, indexSecond := x.indexSecond, t := some 1, interior := some .second } }
def endCoincident (x : Intersection K) : WNode K :=
  { pos := none, val := { indexFirst := x.indexFirst, s := some 1, indexSecond := x.indexSecond, t := some 1, interior := some .coincident } }

theorem getNextFirst_cases (x : Intersection K) (ints : List (Intersection K)) (toEnd : Bool) :
    (getNextFirst x ints toEnd = (if toEnd then some (endFirst x) else none) ∧
      ∀ o ∈ ints, ¬ Cand (·.indexFirst) (·.s) x.indexFirst x.s o) ∨
    ∃ i o, getNextFirst x ints toEnd = some { pos := some i, val := o } ∧ ints[i]? = some o ∧
      Cand (·.indexFirst) (·.s) x.indexFirst x.s o ∧
      ∀ o' ∈ ints, Cand (·.indexFirst) (·.s) x.indexFirst x.s o' → ∀ a b, o'.s = some a → o.s = some b → b ≤ a := by
  rcases alongLoop_spec (·.indexFirst) (·.s) x.indexFirst x.s ints with ⟨h1, h2⟩ | ⟨b, h1, h2, h3, h4⟩
  · left
    refine ⟨?_, h2⟩
    unfold getNextFirst; rw [h1]; rfl
  · right
    refine ⟨b.1, b.2, ?_, h2, h3, h4⟩
    unfold getNextFirst; rw [h1]

theorem getNextSecond_cases (x : Intersection K) (ints : List (Intersection K)) (toEnd : Bool) :
    (getNextSecond x ints toEnd = (if toEnd then some (endSecond x) else none) ∧
      ∀ o ∈ ints, ¬ Cand (·.indexSecond) (·.t) x.indexSecond x.t o) ∨
    ∃ i o, getNextSecond x ints toEnd = some { pos := some i, val := o } ∧ ints[i]? = some o ∧
      Cand (·.indexSecond) (·.t) x.indexSecond x.t o ∧
      ∀ o' ∈ ints, Cand (·.indexSecond) (·.t) x.indexSecond x.t o' → ∀ a b, o'.t = some a → o.t = some b → b ≤ a := by
  rcases alongLoop_spec (·.indexSecond) (·.t) x.indexSecond x.t ints with ⟨h1, h2⟩ | ⟨b, h1, h2, h3, h4⟩
  · left
    refine ⟨?_, h2⟩
    unfold getNextSecond; rw [h1]; rfl
  · right
    refine ⟨b.1, b.2, ?_, h2, h3, h4⟩
    unfold getNextSecond; rw [h1]


theorem endFirst_nodeOK (ints : List (Intersection K)) (x : Intersection K) : NodeOK ints (endFirst x) :=
  Or.inr ⟨rfl, Or.inl rfl⟩
theorem endSecond_nodeOK (ints : List (Intersection K)) (x : Intersection K) : NodeOK ints (endSecond x) :=
  Or.inr ⟨rfl, Or.inr rfl⟩
theorem endCoincident_nodeOK (ints : List (Intersection K)) (x : Intersection K) : NodeOK ints (endCoincident x) :=
  Or.inr ⟨rfl, Or.inl rfl⟩

/-- the three ways `get_next_coincident` ends -/
theorem getNextCoincident_cases (x : Intersection K) (ints : List (Intersection K)) :
    (∃ i o, getNextCoincident x ints = { pos := some i, val := o } ∧ ints[i]? = some o ∧
      Cand (·.indexFirst) (·.s) x.indexFirst x.s o ∧
      ∀ o' ∈ ints, Cand (·.indexFirst) (·.s) x.indexFirst x.s o' → ∀ a b, o'.s = some a → o.s = some b → b ≤ a) ∨
    ((∀ o ∈ ints, ¬ Cand (·.indexFirst) (·.s) x.indexFirst x.s o) ∧
      ∃ i o, getNextCoincident x ints = { pos := some i, val := o } ∧ ints[i]? = some o ∧
      Cand (·.indexSecond) (·.t) x.indexSecond x.t o ∧
      ∀ o' ∈ ints, Cand (·.indexSecond) (·.t) x.indexSecond x.t o' → ∀ a b, o'.t = some a → o.t = some b → b ≤ a) ∨
    ((∀ o ∈ ints, ¬ Cand (·.indexFirst) (·.s) x.indexFirst x.s o) ∧
      (∀ o ∈ ints, ¬ Cand (·.indexSecond) (·.t) x.indexSecond x.t o) ∧
      getNextCoincident x ints = endCoincident x) := by
  rcases getNextFirst_cases x ints false with ⟨h1, h2⟩ | ⟨i, o, h1, h2, h3, h4⟩
  · rcases getNextSecond_cases x ints false with ⟨g1, g2⟩ | ⟨i, o, g1, g2, g3, g4⟩
    · right; right
      refine ⟨h2, g2, ?_⟩
      unfold getNextCoincident
      rw [h1, g1]; rfl
    · right; left
      refine ⟨h2, i, o, ?_, g2, g3, g4⟩
      unfold getNextCoincident
      rw [h1, g1]; rfl
  · left
    refine ⟨i, o, ?_, h2, h3, h4⟩
    unfold getNextCoincident
    rw [h1]

theorem getNextCore_none_iff (x : Intersection K) (ints : List (Intersection K)) :
    getNextCore x ints = none ↔ ¬ Walkable x.interior := by
  unfold getNextCore Walkable
  constructor
  · intro h
    by_cases h1 : isFirst x.interior = true
    · rw [if_pos h1] at h
      rcases getNextFirst_cases x ints true with ⟨g, _⟩ | ⟨i, o, g, _⟩ <;> rw [g] at h <;> simp at h
    · rw [if_neg h1] at h
      by_cases h2 : isSecond x.interior = true
      · rw [if_pos h2] at h
        rcases getNextSecond_cases x ints true with ⟨g, _⟩ | ⟨i, o, g, _⟩ <;> rw [g] at h <;> simp at h
      · rw [if_neg h2] at h
        by_cases h3 : x.interior = some .coincident
        · rw [if_pos h3] at h; simp at h
        · intro hw; rcases hw with hw | hw | hw <;> contradiction
  · intro h
    have h1 : ¬ isFirst x.interior = true := fun g => h (Or.inl g)
    have h2 : ¬ isSecond x.interior = true := fun g => h (Or.inr (Or.inl g))
    have h3 : ¬ x.interior = some .coincident := fun g => h (Or.inr (Or.inr g))
    rw [if_neg h1, if_neg h2, if_neg h3]

theorem getNextCore_isSome (x : Intersection K) (ints : List (Intersection K)) (h : Walkable x.interior) :
    ∃ m, getNextCore x ints = some m := by
  cases hm : getNextCore x ints with
  | none => exact absurd h ((getNextCore_none_iff x ints).mp hm)
  | some m => exact ⟨m, rfl⟩

theorem getNextCore_nodeOK (x : Intersection K) (ints : List (Intersection K)) (m : WNode K)
    (h : getNextCore x ints = some m) : NodeOK ints m := by
  unfold getNextCore at h
  split_ifs at h with h1 h2 h3
  · rcases getNextFirst_cases x ints true with ⟨g, _⟩ | ⟨i, o, g, g2, _⟩
    · rw [g] at h; simp only [if_true, Option.some.injEq] at h; subst h; exact endFirst_nodeOK ints x
    · rw [g] at h; simp only [Option.some.injEq] at h; subst h; exact Or.inl ⟨i, rfl, g2⟩
  · rcases getNextSecond_cases x ints true with ⟨g, _⟩ | ⟨i, o, g, g2, _⟩
    · rw [g] at h; simp only [if_true, Option.some.injEq] at h; subst h; exact endSecond_nodeOK ints x
    · rw [g] at h; simp only [Option.some.injEq] at h; subst h; exact Or.inl ⟨i, rfl, g2⟩
  · simp only [Option.some.injEq] at h; subst h
    rcases getNextCoincident_cases x ints with ⟨i, o, g, g2, _⟩ | ⟨_, i, o, g, g2, _⟩ | ⟨_, _, g⟩
    · rw [g]; exact Or.inl ⟨i, rfl, g2⟩
    · rw [g]; exact Or.inl ⟨i, rfl, g2⟩
    · rw [g]; exact endCoincident_nodeOK ints x

/-! ### `to_front` on nodes -/

/-- the node `to_front` returns (it does not depend on `unused`) -/
def frontOf (n : WNode K) (ints : List (Intersection K)) : WNode K := (toFrontNode n ints []).1

theorem toFrontNode_fst (n : WNode K) (ints : List (Intersection K)) (u : List Nat) :
    (toFrontNode n ints u).1 = frontOf n ints := by
  unfold frontOf toFrontNode
  split_ifs with h1 h2
  · dsimp only; split <;> rfl
  · dsimp only; split <;> rfl
  · rfl

/-- `to_front` removes the returned list element from `unused` exactly when it rotates the node -/
theorem toFrontNode_snd (n : WNode K) (ints : List (Intersection K)) (u : List Nat) :
    (toFrontNode n ints u).2 = if n.val.s = some 1 ∨ n.val.t = some 1 then consume (frontOf n ints) u else u := by
  unfold frontOf toFrontNode consume
  split_ifs with h1 h2 h3 h4 h5
  · dsimp only; split <;> rfl
  · exact absurd (Or.inl h1) h2
  · dsimp only; split <;> rfl
  · exact absurd (Or.inr h3) h4
  · rcases h5 with h5 | h5 <;> contradiction
  · rfl

theorem frontOf_of_not_end (n : WNode K) (ints : List (Intersection K)) (h1 : n.val.s ≠ some 1) (h2 : n.val.t ≠ some 1) :
    frontOf n ints = n := by
  unfold frontOf toFrontNode
  rw [if_neg h1, if_neg h2]

theorem frontOf_currOK (ints : List (Intersection K)) (n : WNode K) (hn : NodeOK ints n) : CurrOK ints (frontOf n ints) := by
  by_cases h1 : n.val.s = some 1
  · unfold frontOf toFrontNode
    rw [if_pos h1]
    dsimp only
    split
    · rename_i i hi
      obtain ⟨hlt, _, _⟩ := findIdx?_some _ ints i hi
      left
      refine ⟨i, rfl, ?_⟩
      simp [List.getD, hlt]
    · right; left; exact ⟨rfl, _, rfl⟩
  · by_cases h2 : n.val.t = some 1
    · unfold frontOf toFrontNode
      rw [if_neg h1, if_pos h2]
      dsimp only
      split
      · rename_i i hi
        obtain ⟨hlt, _, _⟩ := findIdx?_some _ ints i hi
        left
        refine ⟨i, rfl, ?_⟩
        simp [List.getD, hlt]
      · right; right; exact ⟨rfl, _, rfl⟩
    · rw [frontOf_of_not_end n ints h1 h2]
      rcases hn with hn | ⟨_, hn | hn⟩
      · exact Or.inl hn
      · exact absurd hn h1
      · exact absurd hn h2

/-! ### `unused` as a duplicate-free list -/

theorem consume_eq_filter (m : WNode K) (u : List Nat) (hu : u.Nodup) :
    consume m u = u.filter (fun i => decide (m.pos ≠ some i)) := by
  unfold consume
  cases hp : m.pos with
  | none => simp
  | some j =>
    simp only
    rw [hu.erase_eq_filter]
    apply List.filter_congr
    intro i _
    by_cases hij : i = j
    · subst hij; simp
    · have : ¬ j = i := fun g => hij g.symm
      simp [hij, this]

theorem consume_nodup (m : WNode K) (u : List Nat) (hu : u.Nodup) : (consume m u).Nodup := by
  rw [consume_eq_filter m u hu]; exact hu.filter _

theorem mem_consume (m : WNode K) (u : List Nat) (hu : u.Nodup) (i : Nat) :
    i ∈ consume m u ↔ i ∈ u ∧ m.pos ≠ some i := by
  rw [consume_eq_filter m u hu]; simp

theorem toFrontNode_snd_filter (n : WNode K) (ints : List (Intersection K)) (u : List Nat) (hu : u.Nodup)
    (hn : ∀ i, n.pos = some i → i ∉ u) :
    (toFrontNode n ints u).2 = u.filter (fun i => decide ((frontOf n ints).pos ≠ some i)) := by
  rw [toFrontNode_snd]
  split_ifs with h
  · exact consume_eq_filter _ u hu
  · have : frontOf n ints = n := frontOf_of_not_end n ints (fun g => h (Or.inl g)) (fun g => h (Or.inr g))
    rw [this]
    symm
    rw [List.filter_eq_self]
    intro i hi
    simp only [ne_eq, decide_eq_true_eq]
    intro hp
    exact hn i hp hi


/-! ### the inner loop of `basic_interior_combine` -/

/-- positions of the list elements among the nodes of `edge_ends` -/
def posOf (E : EdgeEnds K) : List Nat := E.flatMap (fun p => p.1.pos.toList ++ p.2.pos.toList)

theorem posOf_nil : posOf ([] : EdgeEnds K) = [] := rfl

theorem mem_posOf_cons (c m : WNode K) (T : EdgeEnds K) (i : Nat) :
    i ∈ posOf ((c, m) :: T) ↔ c.pos = some i ∨ m.pos = some i ∨ i ∈ posOf T := by
  unfold posOf
  simp only [List.flatMap_cons, List.mem_append, Option.mem_toList, Option.mem_def]
  tauto

theorem mem_posOf_append (E T : EdgeEnds K) (i : Nat) : i ∈ posOf (E ++ T) ↔ i ∈ posOf E ∨ i ∈ posOf T := by
  unfold posOf; simp [List.flatMap_append]

/-- the pairs `(curr_node, next_node)` the inner loop appends when it is entered with `next_node = n`:
    `curr = to_front(next)`, `next' = get_next(curr)`, until `next` or `to_front(next)` is the start object -/
inductive ChainFrom (ints : List (Intersection K)) (st : Nat) : WNode K → EdgeEnds K → Prop
  | stopNext (n : WNode K) : n.pos = some st → ChainFrom ints st n []
  | stopFront (n : WNode K) : n.pos ≠ some st → (frontOf n ints).pos = some st → ChainFrom ints st n []
  | step (n m : WNode K) (T : EdgeEnds K) : n.pos ≠ some st → (frontOf n ints).pos ≠ some st →
      getNextCore (frontOf n ints).val ints = some m → ChainFrom ints st m T →
      ChainFrom ints st n ((frontOf n ints, m) :: T)

theorem getNext_ok (x : Intersection K) (ints : List (Intersection K)) (u : List Nat) (r : WNode K × List Nat)
    (h : Py.getNext x ints u = .ok r) : getNextCore x ints = some r.1 ∧ r.2 = consume r.1 u := by
  unfold Py.getNext at h
  cases hg : getNextCore x ints with
  | none => rw [hg] at h; simp at h
  | some m =>
    rw [hg] at h
    simp only [Except.ok.injEq] at h
    subst h
    exact ⟨rfl, rfl⟩

theorem getNext_error (x : Intersection K) (ints : List (Intersection K)) (u : List Nat) (e : Err)
    (h : Py.getNext x ints u = .error e) : e = .valueError ∧ ¬ Walkable x.interior := by
  unfold Py.getNext at h
  cases hg : getNextCore x ints with
  | none =>
    rw [hg] at h
    simp only [Except.error.injEq] at h
    exact ⟨h.symm, (getNextCore_none_iff x ints).mp hg⟩
  | some m => rw [hg] at h; simp at h

theorem innerLoop_spec (maxEdges : Nat) (ints : List (Intersection K)) (st : Nat) :
    ∀ (fuel : Nat) (E : EdgeEnds K) (n : WNode K) (u : List Nat) (E' : EdgeEnds K) (u' : List Nat),
    u.Nodup → st ∉ u → (∀ i, n.pos = some i → i ∉ u) →
    Py.innerLoop maxEdges ints st fuel E n u = .ok (E', u') →
    ∃ T, E' = E ++ T ∧ ChainFrom ints st n T ∧ u' = u.filter (fun i => decide (i ∉ posOf T)) ∧
      (T = [] ∨ E'.length ≤ maxEdges) := by
  intro fuel
  induction fuel with
  | zero => intro E n u E' u' _ _ _ h; simp [Py.innerLoop] at h
  | succ f ih =>
    intro E n u E' u' hu hst hn h
    rw [Py.innerLoop] at h
    by_cases h1 : n.pos = some st
    · rw [if_pos h1] at h
      simp only [Except.ok.injEq, Prod.mk.injEq] at h
      obtain ⟨rfl, rfl⟩ := h
      exact ⟨[], by simp, .stopNext n h1, by simp [posOf_nil], Or.inl rfl⟩
    · rw [if_neg h1] at h
      dsimp only at h
      rw [toFrontNode_fst, toFrontNode_snd_filter n ints u hu hn] at h
      by_cases h2 : (frontOf n ints).pos = some st
      · rw [if_pos h2] at h
        simp only [Except.ok.injEq, Prod.mk.injEq] at h
        obtain ⟨rfl, rfl⟩ := h
        refine ⟨[], by simp, .stopFront n h1 h2, ?_, Or.inl rfl⟩
        simp only [posOf_nil, List.not_mem_nil, not_false_eq_true, decide_true, List.filter_true]
        rw [List.filter_eq_self]
        intro i hi
        simp only [ne_eq, decide_eq_true_eq, h2, Option.some.injEq]
        intro g; subst g; exact hst hi
      · rw [if_neg h2] at h
        set u1 := u.filter (fun i => decide ((frontOf n ints).pos ≠ some i)) with hu1
        have hu1n : u1.Nodup := hu.filter _
        cases hg : Py.getNext (frontOf n ints).val ints u1 with
        | error e => rw [hg] at h; simp at h
        | ok nu =>
          rw [hg] at h
          dsimp only at h
          obtain ⟨g1, g2⟩ := getNext_ok _ _ _ _ hg
          split_ifs at h with hlen
          have hu2n : nu.2.Nodup := by rw [g2]; exact consume_nodup _ _ hu1n
          have hst2 : st ∉ nu.2 := by
            rw [g2]; intro hc
            have := ((mem_consume nu.1 u1 hu1n st).mp hc).1
            rw [hu1] at this
            exact hst (List.mem_filter.mp this).1
          have hn2 : ∀ i, nu.1.pos = some i → i ∉ nu.2 := by
            intro i hi hc
            rw [g2] at hc
            exact ((mem_consume nu.1 u1 hu1n i).mp hc).2 hi
          obtain ⟨T, hT1, hT2, hT3, hT4⟩ := ih _ nu.1 nu.2 E' u' hu2n hst2 hn2 h
          refine ⟨(frontOf n ints, nu.1) :: T, by rw [hT1]; simp, .step n nu.1 T h1 h2 g1 hT2, ?_, Or.inr ?_⟩
          · rw [hT3, g2, consume_eq_filter nu.1 u1 hu1n, hu1, List.filter_filter, List.filter_filter]
            apply List.filter_congr
            intro i _
            have := mem_posOf_cons (frontOf n ints) nu.1 T i
            by_cases a1 : (frontOf n ints).pos = some i <;> by_cases a2 : nu.1.pos = some i <;>
              by_cases a3 : i ∈ posOf T <;> simp [a1, a2, a3, this]
          · rcases hT4 with hT4 | hT4
            · subst hT4
              rw [hT1]
              simpa using (not_lt.mp hlen)
            · exact hT4


/-! ### one polygon -/

/-- the start object of a polygon -/
def startNode (ints : List (Intersection K)) (st : Nat) : WNode K := { pos := some st, val := ints.getD st blank }

/-- the `edge_ends` of the polygon through the list element at position `st`: it starts at that object, every
    pair is `(curr, get_next(curr))`, consecutive pairs are linked by `to_front`, and the chain stops exactly when
    the start object is reached again (as `next_node` or as `to_front(next_node)`) -/
def ClosedWalk (ints : List (Intersection K)) (st : Nat) (E : EdgeEnds K) : Prop :=
  ∃ n0 T, E = (startNode ints st, n0) :: T ∧ getNextCore (startNode ints st).val ints = some n0 ∧
    ChainFrom ints st n0 T

theorem walkFrom_spec (maxEdges : Nat) (ints : List (Intersection K)) (st : Nat) (u : List Nat) (E' : EdgeEnds K)
    (u' : List Nat) (hu : u.Nodup) (hst : st ∉ u) (h : Py.walkFrom maxEdges ints st u = .ok (E', u')) :
    ClosedWalk ints st E' ∧ u' = u.filter (fun i => decide (i ∉ posOf E')) ∧
      (E'.length = 1 ∨ E'.length ≤ maxEdges) := by
  unfold Py.walkFrom at h
  dsimp only at h
  cases hg : Py.getNext (ints.getD st blank) ints u with
  | error e => rw [hg] at h; simp at h
  | ok nu =>
    rw [hg] at h
    dsimp only at h
    obtain ⟨g1, g2⟩ := getNext_ok _ _ _ _ hg
    have hu1 : nu.2.Nodup := by rw [g2]; exact consume_nodup _ _ hu
    have hst1 : st ∉ nu.2 := by
      rw [g2]; intro hc; exact hst ((mem_consume nu.1 u hu st).mp hc).1
    have hn1 : ∀ i, nu.1.pos = some i → i ∉ nu.2 := by
      intro i hi hc
      rw [g2] at hc
      exact ((mem_consume nu.1 u hu i).mp hc).2 hi
    obtain ⟨T, hT1, hT2, hT3, hT4⟩ := innerLoop_spec maxEdges ints st _ _ nu.1 nu.2 E' u' hu1 hst1 hn1 h
    refine ⟨⟨nu.1, T, by rw [hT1]; rfl, g1, hT2⟩, ?_, ?_⟩
    · rw [hT3, g2, consume_eq_filter nu.1 u hu, List.filter_filter, hT1]
      apply List.filter_congr
      intro i hi
      have hne : i ≠ st := fun g => hst (g ▸ hi)
      have hne' : ¬ st = i := fun g => hne g.symm
      have key : i ∈ posOf ([(({ pos := some st, val := ints.getD st blank } : WNode K), nu.1)] ++ T) ↔
          (nu.1.pos = some i ∨ i ∈ posOf T) := by
        rw [List.singleton_append, mem_posOf_cons]
        constructor
        · rintro (g | g | g)
          · exact absurd (Option.some.inj g) hne'
          · exact Or.inl g
          · exact Or.inr g
        · rintro (g | g)
          · exact Or.inr (Or.inl g)
          · exact Or.inr (Or.inr g)
      by_cases a2 : nu.1.pos = some i <;> by_cases a3 : i ∈ posOf T <;> simp only [key, a2, a3] <;> simp [a2]
    · rcases hT4 with hT4 | hT4
      · left; rw [hT1, hT4]; rfl
      · exact Or.inr hT4

/-! ### the outer loop -/

/-- the polygons produced from the stack `unused = u`: the start is popped from the end, the polygon through it
    is walked, every list element met on the way leaves `unused`, and the rest is processed the same way -/
inductive RegionsFrom (maxEdges : Nat) (ints : List (Intersection K)) :
    List Nat → List (EdgeEnds K × List (Segment K)) → Prop
  | done : RegionsFrom maxEdges ints [] []
  | region (u : List Nat) (st : Nat) (E : EdgeEnds K) (info : List (Segment K))
      (rest : List (EdgeEnds K × List (Segment K))) :
      u.getLast? = some st → ClosedWalk ints st E → edgeInfoOf E = .ok info →
      (E.length = 1 ∨ E.length ≤ maxEdges) →
      RegionsFrom maxEdges ints (u.dropLast.filter (fun i => decide (i ∉ posOf E))) rest →
      RegionsFrom maxEdges ints u ((E, info) :: rest)

theorem outerLoop_spec (maxEdges : Nat) (ints : List (Intersection K)) :
    ∀ (fuel : Nat) (u : List Nat) (res out : List (EdgeEnds K × List (Segment K))),
    u.Nodup → Py.outerLoop maxEdges ints fuel u res = .ok out →
    ∃ new, out = res ++ new ∧ RegionsFrom maxEdges ints u new := by
  intro fuel
  induction fuel with
  | zero =>
    intro u res out _ h
    rw [Py.outerLoop] at h
    split_ifs at h with he
    simp only [Except.ok.injEq] at h
    subst h
    have : u = [] := by simpa using he
    subst this
    exact ⟨[], by simp, .done⟩
  | succ f ih =>
    intro u res out hu h
    rw [Py.outerLoop] at h
    cases hl : u.getLast? with
    | none =>
      rw [hl] at h
      simp only [Except.ok.injEq] at h
      subst h
      have : u = [] := List.getLast?_eq_none_iff.mp hl
      subst this
      exact ⟨[], by simp, .done⟩
    | some st =>
      rw [hl] at h
      dsimp only at h
      have hsplit : u.dropLast ++ [st] = u := List.dropLast_append_getLast? st hl
      have hud : u.dropLast.Nodup := (List.dropLast_sublist u).nodup hu
      have hstd : st ∉ u.dropLast := by
        intro hc
        rw [← hsplit] at hu
        have := List.nodup_append.mp hu
        exact this.2.2 st hc st (by simp) rfl
      cases hw : Py.walkFrom maxEdges ints st u.dropLast with
      | error e => rw [hw] at h; simp at h
      | ok eu =>
        rw [hw] at h
        dsimp only at h
        cases hi : edgeInfoOf eu.1 with
        | error e => rw [hi] at h; simp at h
        | ok info =>
          rw [hi] at h
          dsimp only at h
          obtain ⟨g1, g2, g3⟩ := walkFrom_spec maxEdges ints st u.dropLast eu.1 eu.2 hud hstd hw
          have hu2 : eu.2.Nodup := by rw [g2]; exact hud.filter _
          obtain ⟨new, hn1, hn2⟩ := ih eu.2 _ out hu2 h
          refine ⟨(eu.1, info) :: new, by rw [hn1]; simp, ?_⟩
          rw [g2] at hn2
          exact .region u st eu.1 info new hl g1 hi g3 hn2

/-- start position of a polygon -/
def startPos (E : EdgeEnds K) : Option Nat := E.head?.bind (fun p => p.1.pos)

theorem closedWalk_startPos (ints : List (Intersection K)) (st : Nat) (E : EdgeEnds K) (h : ClosedWalk ints st E) :
    startPos E = some st ∧ st ∈ posOf E := by
  obtain ⟨n0, T, rfl, _, _⟩ := h
  refine ⟨rfl, ?_⟩
  rw [mem_posOf_cons]; exact Or.inl rfl

theorem regionsFrom_start_mem (maxEdges : Nat) (ints : List (Intersection K)) (u : List Nat)
    (regs : List (EdgeEnds K × List (Segment K))) (h : RegionsFrom maxEdges ints u regs) :
    ∀ r ∈ regs, ∃ st, startPos r.1 = some st ∧ st ∈ u := by
  induction h with
  | done => intro r hr; simp at hr
  | region u st E info rest hl hE _ _ _ ih =>
    intro r hr
    rcases List.mem_cons.mp hr with rfl | hr
    · exact ⟨st, (closedWalk_startPos ints st E hE).1, List.mem_of_getLast? hl⟩
    · obtain ⟨s', h1, h2⟩ := ih r hr
      exact ⟨s', h1, List.mem_of_mem_dropLast (List.mem_filter.mp h2).1⟩

/-- every position of the stack is met by some polygon -/
theorem regionsFrom_cover (maxEdges : Nat) (ints : List (Intersection K)) (u : List Nat)
    (regs : List (EdgeEnds K × List (Segment K))) (h : RegionsFrom maxEdges ints u regs) :
    ∀ i ∈ u, ∃ r ∈ regs, i ∈ posOf r.1 := by
  induction h with
  | done => intro i hi; simp at hi
  | region u st E info rest hl hE _ _ _ ih =>
    intro i hi
    have hsplit : u.dropLast ++ [st] = u := List.dropLast_append_getLast? st hl
    rw [← hsplit] at hi
    rcases List.mem_append.mp hi with hi | hi
    · by_cases hp : i ∈ posOf E
      · exact ⟨(E, info), by simp, hp⟩
      · obtain ⟨r, hr, hir⟩ := ih i (List.mem_filter.mpr ⟨hi, by simpa using hp⟩)
        exact ⟨r, List.mem_cons_of_mem _ hr, hir⟩
    · have : i = st := by simpa using hi
      subst this
      exact ⟨(E, info), by simp, (closedWalk_startPos ints i E hE).2⟩

/-- the start of a polygon was not met by any earlier polygon -/
theorem regionsFrom_fresh (maxEdges : Nat) (ints : List (Intersection K)) (u : List Nat)
    (regs : List (EdgeEnds K × List (Segment K))) (h : RegionsFrom maxEdges ints u regs) :
    regs.Pairwise (fun a b => ∀ st, startPos b.1 = some st → st ∉ posOf a.1) := by
  induction h with
  | done => exact List.Pairwise.nil
  | region u st E info rest hl hE _ _ hrest ih =>
    refine List.Pairwise.cons ?_ ih
    intro b hb s' hs'
    obtain ⟨s'', h1, h2⟩ := regionsFrom_start_mem maxEdges ints _ rest hrest b hb
    rw [hs'] at h1
    cases h1
    have := (List.mem_filter.mp h2).2
    simpa using this


/-! ### no error other than `RuntimeError` on lists of complete, walkable intersections -/

def AllWalkable (ints : List (Intersection K)) : Prop := ∀ x ∈ ints, Walkable x.interior
def AllFull (ints : List (Intersection K)) : Prop := ∀ x ∈ ints, isFull x = true

theorem isFull_iff (x : Intersection K) : isFull x = true ↔
    ∃ a b c d e, x = { indexFirst := some a, s := some b, indexSecond := some c, t := some d, interior := some e } := by
  constructor
  · intro h
    obtain ⟨a, b, c, d, e⟩ := x
    cases a <;> cases b <;> cases c <;> cases d <;> cases e <;> simp [isFull] at h
    exact ⟨_, _, _, _, _, rfl⟩
  · rintro ⟨a, b, c, d, e, rfl⟩; rfl

theorem atPos_mem (ints : List (Intersection K)) (c : WNode K) (h : AtPos ints c) : c.val ∈ ints := by
  obtain ⟨i, _, hi⟩ := h
  exact List.mem_of_getElem? hi

theorem currOK_walkable (ints : List (Intersection K)) (hw : AllWalkable ints) (c : WNode K) (hc : CurrOK ints c) :
    Walkable c.val.interior := by
  rcases hc with hc | ⟨_, k, hk⟩ | ⟨_, k, hk⟩
  · exact hw _ (atPos_mem ints c hc)
  · rw [hk]; exact Or.inl rfl
  · rw [hk]; exact Or.inr (Or.inl rfl)

theorem innerLoop_error (maxEdges : Nat) (ints : List (Intersection K)) (st : Nat) (hw : AllWalkable ints) :
    ∀ (fuel : Nat) (E : EdgeEnds K) (n : WNode K) (u : List Nat) (e : Err), NodeOK ints n →
    Py.innerLoop maxEdges ints st fuel E n u = .error e → e = .runtimeError := by
  intro fuel
  induction fuel with
  | zero => intro E n u e _ h; simp only [Py.innerLoop, Except.error.injEq] at h; exact h.symm
  | succ f ih =>
    intro E n u e hn h
    rw [Py.innerLoop] at h
    dsimp only at h
    split_ifs at h with h1 h2
    rw [toFrontNode_fst] at h
    have hc : CurrOK ints (frontOf n ints) := frontOf_currOK ints n hn
    cases hg : Py.getNext (frontOf n ints).val ints (toFrontNode n ints u).2 with
    | error e' =>
      exact absurd (currOK_walkable ints hw _ hc) (getNext_error _ _ _ _ hg).2
    | ok nu =>
      rw [hg] at h
      dsimp only at h
      split_ifs at h with hlen
      · simp only [Except.error.injEq] at h; exact h.symm
      · exact ih _ nu.1 nu.2 e (getNextCore_nodeOK _ _ _ (getNext_ok _ _ _ _ hg).1) h

/-- in general the inner loop fails only with `RuntimeError` (too many edges) or `ValueError` (`get_next` from a
    node that is not FIRST / SECOND / COINCIDENT) -/
theorem innerLoop_error_general (maxEdges : Nat) (ints : List (Intersection K)) (st : Nat) :
    ∀ (fuel : Nat) (E : EdgeEnds K) (n : WNode K) (u : List Nat) (e : Err),
    Py.innerLoop maxEdges ints st fuel E n u = .error e → e = .runtimeError ∨ e = .valueError := by
  intro fuel
  induction fuel with
  | zero => intro E n u e h; simp only [Py.innerLoop, Except.error.injEq] at h; exact Or.inl h.symm
  | succ f ih =>
    intro E n u e h
    rw [Py.innerLoop] at h
    dsimp only at h
    split_ifs at h with h1 h2
    cases hg : Py.getNext (toFrontNode n ints u).1.val ints (toFrontNode n ints u).2 with
    | error e' =>
      rw [hg] at h
      simp only [Except.error.injEq] at h
      subst h
      exact Or.inr (getNext_error _ _ _ _ hg).1
    | ok nu =>
      rw [hg] at h
      dsimp only at h
      split_ifs at h with hlen
      · simp only [Except.error.injEq] at h; exact Or.inl h.symm
      · exact ih _ nu.1 nu.2 e h

theorem endsToCurve_error (a b : Intersection K) (e : Err) (h : endsToCurve a b = .error e) :
    e = .valueError ∨ e = .badInput := by
  unfold endsToCurve at h
  split_ifs at h <;> first
    | (simp only [Except.error.injEq] at h; exact Or.inl h.symm)
    | (split at h <;> simp only [Except.error.injEq, reduceCtorEq] at h <;> exact Or.inr h.symm)

theorem mapM_except_ok {α β : Type} (f : α → Except Err β) : ∀ (l : List α),
    (∀ x ∈ l, ∃ y, f x = .ok y) → ∃ ys, l.mapM f = .ok ys := by
  intro l
  induction l with
  | nil => intro _; exact ⟨[], rfl⟩
  | cons a rest ih =>
    intro h
    obtain ⟨y, hy⟩ := h a (by simp)
    obtain ⟨ys, hys⟩ := ih (fun x hx => h x (by simp [hx]))
    refine ⟨y :: ys, ?_⟩
    rw [List.mapM_cons, hy, hys]
    rfl

theorem mapM_except_error {α β : Type} (f : α → Except Err β) : ∀ (l : List α) (e : Err),
    l.mapM f = .error e → ∃ x ∈ l, f x = .error e := by
  intro l
  induction l with
  | nil => intro e h; simp [List.mapM_nil, pure, Except.pure] at h
  | cons a rest ih =>
    intro e h
    rw [List.mapM_cons] at h
    cases hy : f a with
    | error e' =>
      rw [hy] at h
      simp only [bind, Except.bind, Except.error.injEq] at h
      subst h
      exact ⟨a, by simp, hy⟩
    | ok y =>
      rw [hy] at h
      cases hys : rest.mapM f with
      | error e' =>
        rw [hys] at h
        simp only [bind, Except.bind, Except.error.injEq] at h
        subst h
        obtain ⟨x, hx, hfx⟩ := ih e' hys
        exact ⟨x, by simp [hx], hfx⟩
      | ok ys =>
        rw [hys] at h
        simp [bind, Except.bind, pure, Except.pure] at h

theorem mapM_except_forall₂ {α β : Type} (f : α → Except Err β) : ∀ (l : List α) (ys : List β),
    l.mapM f = .ok ys → List.Forall₂ (fun x y => f x = .ok y) l ys := by
  intro l
  induction l with
  | nil =>
    intro ys h
    simp only [List.mapM_nil, pure, Except.pure, Except.ok.injEq] at h
    subst h; exact List.Forall₂.nil
  | cons a rest ih =>
    intro ys h
    rw [List.mapM_cons] at h
    cases hy : f a with
    | error e' => rw [hy] at h; simp [bind, Except.bind] at h
    | ok y =>
      rw [hy] at h
      cases hys : rest.mapM f with
      | error e' => rw [hys] at h; simp [bind, Except.bind] at h
      | ok zs =>
        rw [hys] at h
        simp only [bind, Except.bind, pure, Except.pure, Except.ok.injEq] at h
        subst h
        exact List.Forall₂.cons hy (ih zs hys)


/-- the fields `ends_to_curve` reads are present at a `curr_node` of FIRST / SECOND type -/
theorem currOK_fields (ints : List (Intersection K)) (hf : AllFull ints) (c : WNode K) (hc : CurrOK ints c) :
    (isFirst c.val.interior = true → ∃ i s0, c.val.indexFirst = some i ∧ c.val.s = some s0) ∧
    (isSecond c.val.interior = true → ∃ i t0, c.val.indexSecond = some i ∧ c.val.t = some t0) ∧
    (c.val.interior = some .coincident → isFull c.val = true) := by
  rcases hc with hc | ⟨_, k, hk⟩ | ⟨_, k, hk⟩
  · obtain ⟨a, b, c', d, e, hx⟩ := (isFull_iff _).mp (hf _ (atPos_mem ints c hc))
    rw [hx]
    exact ⟨fun _ => ⟨a, b, rfl, rfl⟩, fun _ => ⟨c', d, rfl, rfl⟩, fun _ => rfl⟩
  · rw [hk]
    refine ⟨fun _ => ⟨k, 0, rfl, rfl⟩, fun h => ?_, fun h => ?_⟩
    · simp [artFirst, isSecond] at h
    · simp [artFirst] at h
  · rw [hk]
    refine ⟨fun h => ?_, fun _ => ⟨k, 0, rfl, rfl⟩, fun h => ?_⟩
    · simp [artSecond, isFirst] at h
    · simp [artSecond] at h

/-- `ends_to_curve(curr, get_next(curr))` never raises on a list of complete intersections -/
theorem endsToCurve_ok (ints : List (Intersection K)) (hf : AllFull ints) (c m : WNode K) (hc : CurrOK ints c)
    (hm : getNextCore c.val ints = some m) : ∃ sg, endsToCurve c.val m.val = .ok sg := by
  obtain ⟨f1, f2, f3⟩ := currOK_fields ints hf c hc
  unfold getNextCore at hm
  unfold endsToCurve
  by_cases h1 : isFirst c.val.interior = true
  · rw [if_pos h1] at hm
    rw [if_pos h1]
    obtain ⟨i, s0, hi, hs0⟩ := f1 h1
    rcases getNextFirst_cases c.val ints true with ⟨g, _⟩ | ⟨j, o, g, _, g3, _⟩
    · rw [g] at hm; simp only [if_true, Option.some.injEq] at hm; subst hm
      simp [endFirst, hi, hs0]
    · rw [g] at hm; simp only [Option.some.injEq] at hm; subst hm
      obtain ⟨x, y, hx, _, _⟩ := cand_some g3
      have : o.indexFirst = c.val.indexFirst := g3.1
      simp [this, hi, hs0, hx]
  · rw [if_neg h1] at hm
    rw [if_neg h1]
    by_cases h2 : isSecond c.val.interior = true
    · rw [if_pos h2] at hm
      rw [if_pos h2]
      obtain ⟨i, t0, hi, ht0⟩ := f2 h2
      rcases getNextSecond_cases c.val ints true with ⟨g, _⟩ | ⟨j, o, g, _, g3, _⟩
      · rw [g] at hm; simp only [if_true, Option.some.injEq] at hm; subst hm
        simp [endSecond, hi, ht0]
      · rw [g] at hm; simp only [Option.some.injEq] at hm; subst hm
        obtain ⟨x, y, hx, _, _⟩ := cand_some g3
        have : o.indexSecond = c.val.indexSecond := g3.1
        simp [this, hi, ht0, hx]
    · rw [if_neg h2] at hm
      rw [if_neg h2]
      by_cases h3 : c.val.interior = some .coincident
      · rw [if_pos h3] at hm
        rw [if_pos h3]
        simp only [Option.some.injEq] at hm
        subst hm
        obtain ⟨a, b, c', d, e, hx⟩ := (isFull_iff _).mp (f3 h3)
        rcases getNextCoincident_cases c.val ints with ⟨j, o, g, g2, g3, _⟩ | ⟨_, j, o, g, g2, g3, _⟩ | ⟨_, _, g⟩
        · rw [g]
          obtain ⟨x, y, hx', _, _⟩ := cand_some g3
          have : o.indexFirst = c.val.indexFirst := g3.1
          rw [hx] at this
          simp [hx, this, hx']
        · rw [g]
          obtain ⟨a', b', c'', d', e', ho⟩ := (isFull_iff _).mp (hf o (List.mem_of_getElem? g2))
          have : o.indexSecond = c.val.indexSecond := g3.1
          rw [hx, ho] at this
          simp only [Option.some.injEq] at this
          subst this
          rw [hx, ho]
          by_cases hab : a' = a
          · subst hab; simp
          · have : ¬ (some a' : Option Nat) = some a := fun g => hab (Option.some.inj g)
            simp [this]
        · rw [g, hx]
          simp [endCoincident]
      · rw [if_neg h3] at hm; simp at hm

/-- every pair appended by the inner loop is `(curr, get_next(curr))` with `curr` a list element or an artificial
    edge start -/
theorem chainFrom_pairs (ints : List (Intersection K)) (st : Nat) (n : WNode K) (T : EdgeEnds K)
    (h : ChainFrom ints st n T) (hn : NodeOK ints n) :
    ∀ p ∈ T, CurrOK ints p.1 ∧ getNextCore p.1.val ints = some p.2 := by
  induction h with
  | stopNext n _ => intro p hp; simp at hp
  | stopFront n _ _ => intro p hp; simp at hp
  | step n m T _ _ hg _ ih =>
    intro p hp
    rcases List.mem_cons.mp hp with rfl | hp
    · exact ⟨frontOf_currOK ints n hn, hg⟩
    · exact ih (getNextCore_nodeOK _ _ _ hg) p hp

theorem startNode_currOK (ints : List (Intersection K)) (st : Nat) (h : st < ints.length) :
    CurrOK ints (startNode ints st) := by
  left
  refine ⟨st, rfl, ?_⟩
  simp [startNode, List.getD, h]

theorem closedWalk_pairs (ints : List (Intersection K)) (st : Nat) (E : EdgeEnds K) (h : ClosedWalk ints st E)
    (hst : st < ints.length) : ∀ p ∈ E, CurrOK ints p.1 ∧ getNextCore p.1.val ints = some p.2 := by
  obtain ⟨n0, T, rfl, g1, g2⟩ := h
  intro p hp
  rcases List.mem_cons.mp hp with rfl | hp
  · exact ⟨startNode_currOK ints st hst, g1⟩
  · exact chainFrom_pairs ints st n0 T g2 (getNextCore_nodeOK _ _ _ g1) p hp


/-! ### the outer loop: errors -/

theorem regionsFrom_mem (maxEdges : Nat) (ints : List (Intersection K)) (u : List Nat)
    (regs : List (EdgeEnds K × List (Segment K))) (h : RegionsFrom maxEdges ints u regs) :
    ∀ r ∈ regs, ∃ st ∈ u, ClosedWalk ints st r.1 ∧ edgeInfoOf r.1 = .ok r.2 ∧
      (r.1.length = 1 ∨ r.1.length ≤ maxEdges) := by
  induction h with
  | done => intro r hr; simp at hr
  | region u st E info rest hl hE hi hb _ ih =>
    intro r hr
    rcases List.mem_cons.mp hr with rfl | hr
    · exact ⟨st, List.mem_of_getLast? hl, hE, hi, hb⟩
    · obtain ⟨s', h1, h2⟩ := ih r hr
      exact ⟨s', List.mem_of_mem_dropLast (List.mem_filter.mp h1).1, h2⟩

theorem walkFrom_error_general (maxEdges : Nat) (ints : List (Intersection K)) (st : Nat) (u : List Nat) (e : Err)
    (h : Py.walkFrom maxEdges ints st u = .error e) : e = .runtimeError ∨ e = .valueError := by
  unfold Py.walkFrom at h
  dsimp only at h
  cases hg : Py.getNext (ints.getD st blank) ints u with
  | error e' =>
    rw [hg] at h
    simp only [Except.error.injEq] at h
    subst h
    exact Or.inr (getNext_error _ _ _ _ hg).1
  | ok nu =>
    rw [hg] at h
    exact innerLoop_error_general maxEdges ints st _ _ _ _ e h

theorem walkFrom_error (maxEdges : Nat) (ints : List (Intersection K)) (hw : AllWalkable ints) (st : Nat)
    (hst : st < ints.length) (u : List Nat) (e : Err)
    (h : Py.walkFrom maxEdges ints st u = .error e) : e = .runtimeError := by
  unfold Py.walkFrom at h
  dsimp only at h
  have hc := startNode_currOK ints st hst
  cases hg : Py.getNext (ints.getD st blank) ints u with
  | error e' => exact absurd (currOK_walkable ints hw _ hc) (getNext_error _ _ _ _ hg).2
  | ok nu =>
    rw [hg] at h
    exact innerLoop_error maxEdges ints st hw _ _ _ _ e (getNextCore_nodeOK _ _ _ (getNext_ok _ _ _ _ hg).1) h

theorem edgeInfoOf_ok (ints : List (Intersection K)) (hf : AllFull ints) (st : Nat) (hst : st < ints.length)
    (E : EdgeEnds K) (h : ClosedWalk ints st E) : ∃ info, edgeInfoOf E = .ok info := by
  unfold edgeInfoOf
  apply mapM_except_ok
  intro p hp
  obtain ⟨g1, g2⟩ := closedWalk_pairs ints st E h hst p hp
  exact endsToCurve_ok ints hf p.1 p.2 g1 g2

theorem edgeInfoOf_error (E : EdgeEnds K) (e : Err) (h : edgeInfoOf E = .error e) : e = .valueError ∨ e = .badInput := by
  unfold edgeInfoOf at h
  obtain ⟨p, _, hp⟩ := mapM_except_error _ E e h
  exact endsToCurve_error _ _ _ hp

/-- the outer loop never runs out of fuel and fails only with the errors of its parts -/
theorem outerLoop_error_general (maxEdges : Nat) (ints : List (Intersection K)) :
    ∀ (fuel : Nat) (u : List Nat) (res : List (EdgeEnds K × List (Segment K))) (e : Err),
    u.Nodup → u.length ≤ fuel → Py.outerLoop maxEdges ints fuel u res = .error e →
    e = .runtimeError ∨ e = .valueError ∨ e = .badInput := by
  intro fuel
  induction fuel with
  | zero =>
    intro u res e _ hlen h
    have : u = [] := List.length_eq_zero_iff.mp (Nat.le_zero.mp hlen)
    subst this
    simp [Py.outerLoop] at h
  | succ f ih =>
    intro u res e hu hlen h
    rw [Py.outerLoop] at h
    cases hl : u.getLast? with
    | none => rw [hl] at h; simp at h
    | some st =>
      rw [hl] at h
      dsimp only at h
      have hsplit : u.dropLast ++ [st] = u := List.dropLast_append_getLast? st hl
      have hud : u.dropLast.Nodup := (List.dropLast_sublist u).nodup hu
      have hstd : st ∉ u.dropLast := by
        intro hc
        rw [← hsplit] at hu
        exact (List.nodup_append.mp hu).2.2 st hc st (by simp) rfl
      cases hw : Py.walkFrom maxEdges ints st u.dropLast with
      | error e' =>
        rw [hw] at h
        simp only [Except.error.injEq] at h
        subst h
        rcases walkFrom_error_general _ _ _ _ _ hw with g | g
        · exact Or.inl g
        · exact Or.inr (Or.inl g)
      | ok eu =>
        rw [hw] at h
        dsimp only at h
        cases hi : edgeInfoOf eu.1 with
        | error e' =>
          rw [hi] at h
          simp only [Except.error.injEq] at h
          subst h
          exact Or.inr (edgeInfoOf_error _ _ hi)
        | ok info =>
          rw [hi] at h
          dsimp only at h
          obtain ⟨_, g2, _⟩ := walkFrom_spec maxEdges ints st u.dropLast eu.1 eu.2 hud hstd hw
          refine ih eu.2 _ e (by rw [g2]; exact hud.filter _) ?_ h
          rw [g2]
          have h1 := List.length_filter_le (fun i => decide (i ∉ posOf eu.1)) u.dropLast
          have h2 : u.dropLast.length = u.length - 1 := List.length_dropLast
          have h3 : 0 < u.length := by rw [← hsplit]; simp
          omega

/-- on complete, walkable intersections the only possible failure is `RuntimeError` (too many edges) -/
theorem outerLoop_error (maxEdges : Nat) (ints : List (Intersection K)) (hf : AllFull ints) (hw : AllWalkable ints) :
    ∀ (fuel : Nat) (u : List Nat) (res : List (EdgeEnds K × List (Segment K))) (e : Err),
    u.Nodup → (∀ i ∈ u, i < ints.length) → u.length ≤ fuel → Py.outerLoop maxEdges ints fuel u res = .error e →
    e = .runtimeError := by
  intro fuel
  induction fuel with
  | zero =>
    intro u res e _ _ hlen h
    have : u = [] := List.length_eq_zero_iff.mp (Nat.le_zero.mp hlen)
    subst this
    simp [Py.outerLoop] at h
  | succ f ih =>
    intro u res e hu hlt hlen h
    rw [Py.outerLoop] at h
    cases hl : u.getLast? with
    | none => rw [hl] at h; simp at h
    | some st =>
      rw [hl] at h
      dsimp only at h
      have hsplit : u.dropLast ++ [st] = u := List.dropLast_append_getLast? st hl
      have hud : u.dropLast.Nodup := (List.dropLast_sublist u).nodup hu
      have hstd : st ∉ u.dropLast := by
        intro hc
        rw [← hsplit] at hu
        exact (List.nodup_append.mp hu).2.2 st hc st (by simp) rfl
      have hstlt : st < ints.length := hlt st (List.mem_of_getLast? hl)
      cases hwf : Py.walkFrom maxEdges ints st u.dropLast with
      | error e' =>
        rw [hwf] at h
        simp only [Except.error.injEq] at h
        subst h
        exact walkFrom_error maxEdges ints hw st hstlt _ _ hwf
      | ok eu =>
        rw [hwf] at h
        dsimp only at h
        obtain ⟨g1, g2, _⟩ := walkFrom_spec maxEdges ints st u.dropLast eu.1 eu.2 hud hstd hwf
        obtain ⟨info, hi⟩ := edgeInfoOf_ok ints hf st hstlt eu.1 g1
        rw [hi] at h
        dsimp only at h
        refine ih eu.2 _ e (by rw [g2]; exact hud.filter _) ?_ ?_ h
        · intro i hi'
          rw [g2] at hi'
          exact hlt i (List.mem_of_mem_dropLast (List.mem_filter.mp hi').1)
        · rw [g2]
          have h1 := List.length_filter_le (fun i => decide (i ∉ posOf eu.1)) u.dropLast
          have h2 : u.dropLast.length = u.length - 1 := List.length_dropLast
          have h3 : 0 < u.length := by rw [← hsplit]; simp
          omega

theorem allFull_of_all (ints : List (Intersection K)) (h : ints.all isFull = true) : AllFull ints := by
  intro x hx
  exact List.all_eq_true.mp h x hx


/-! ### index form of a closed walk -/

theorem chainFrom_links (ints : List (Intersection K)) (st : Nat) (n : WNode K) (T : EdgeEnds K)
    (h : ChainFrom ints st n T) : ∀ c : WNode K,
    (∀ k (hk : k + 1 < ((c, n) :: T).length),
        (((c, n) :: T)[k + 1]).1 = frontOf (((c, n) :: T)[k]'(by omega)).2 ints ∧
        (((c, n) :: T)[k]'(by omega)).2.pos ≠ some st ∧
        (frontOf (((c, n) :: T)[k]'(by omega)).2 ints).pos ≠ some st) ∧
    (∃ p, ((c, n) :: T).getLast? = some p ∧ (p.2.pos = some st ∨ (frontOf p.2 ints).pos = some st)) := by
  induction h with
  | stopNext n hn =>
    intro c
    exact ⟨fun k hk => by simp at hk, (c, n), rfl, Or.inl hn⟩
  | stopFront n _ hf =>
    intro c
    exact ⟨fun k hk => by simp at hk, (c, n), rfl, Or.inr hf⟩
  | step n m T h1 h2 hg _ ih =>
    intro c
    obtain ⟨i1, i2⟩ := ih (frontOf n ints)
    refine ⟨?_, ?_⟩
    · intro k hk
      cases k with
      | zero => exact ⟨rfl, h1, h2⟩
      | succ k =>
        have := i1 k (by simpa using hk)
        simpa using this
    · obtain ⟨p, hp1, hp2⟩ := i2
      exact ⟨p, by simpa [List.getLast?_cons_cons] using hp1, hp2⟩

/-! ### the fuel of the inner loop is never the reason for `RuntimeError` -/

theorem innerLoop_fuel (maxEdges : Nat) (ints : List (Intersection K)) (st : Nat) :
    ∀ (f1 f2 : Nat) (E : EdgeEnds K) (n : WNode K) (u : List Nat),
    0 < f1 → 0 < f2 → maxEdges < E.length + f1 → maxEdges < E.length + f2 →
    Py.innerLoop maxEdges ints st f1 E n u = Py.innerLoop maxEdges ints st f2 E n u := by
  intro f1
  induction f1 with
  | zero => intro f2 E n u h; omega
  | succ a ih =>
    intro f2 E n u _ h2 h3 h4
    cases f2 with
    | zero => omega
    | succ b =>
      rw [Py.innerLoop, Py.innerLoop]
      dsimp only
      split_ifs with c1 c2
      · rfl
      · rfl
      · cases hg : Py.getNext (toFrontNode n ints u).1.val ints (toFrontNode n ints u).2 with
        | error e => rfl
        | ok nu =>
          dsimp only
          split_ifs with hlen
          · rfl
          · have hl : (E ++ [((toFrontNode n ints u).1, nu.1)]).length = E.length + 1 := by simp
            rw [hl] at hlen
            apply ih
            all_goals (try rw [hl])
            all_goals omega

/-! ### `Py.finish` and `F90.checkContained` -/

/-- membership in `FIRST_TRIANGLE_INFO` / `SECOND_TRIANGLE_INFO` spelled out the way `check_contained` tests it -/
theorem mem_triangleInfo (base : Nat) (r : List (Segment K)) :
    r ∈ triangleInfo (K := K) base ↔
      r.length = 3 ∧ (∀ sg ∈ r, sg.2.1 = 0 ∧ sg.2.2 = 1) ∧
      (r.map (·.1) = [base, base + 1, base + 2] ∨ r.map (·.1) = [base + 1, base + 2, base] ∨
        r.map (·.1) = [base + 2, base, base + 1]) := by
  constructor
  · intro h
    simp only [triangleInfo, List.mem_cons, List.not_mem_nil, or_false] at h
    rcases h with rfl | rfl | rfl <;> simp
  · rintro ⟨hl, hp, hm⟩
    match r, hl with
    | [(i1, a1, b1), (i2, a2, b2), (i3, a3, b3)], _ =>
      obtain ⟨h1a, h1b⟩ := hp (i1, a1, b1) (by simp)
      obtain ⟨h2a, h2b⟩ := hp (i2, a2, b2) (by simp)
      obtain ⟨h3a, h3b⟩ := hp (i3, a3, b3) (by simp)
      dsimp only at h1a h1b h2a h2b h3a h3b
      subst h1a h1b h2a h2b h3a h3b
      simp only [List.map_cons, List.map_nil, List.cons.injEq, and_true] at hm
      rcases hm with ⟨rfl, rfl, rfl⟩ | ⟨rfl, rfl, rfl⟩ | ⟨rfl, rfl, rfl⟩ <;> simp [triangleInfo]

theorem finish_eq_checkContained (result : List (List (Segment K))) :
    F90.wrap (F90.checkContained result) = Py.finish result := by
  unfold Py.finish F90.checkContained
  match result with
  | [] => rfl
  | _ :: _ :: _ => rfl
  | [r] =>
    dsimp only
    by_cases hl : r.length = 3
    · rw [if_neg (by simpa using hl)]
      by_cases hp : ∀ sg ∈ r, sg.2.1 = 0 ∧ sg.2.2 = 1
      · have hany : (r.any (fun sg => decide (sg.2.1 ≠ 0)) || r.any (fun sg => decide (sg.2.2 ≠ 1))) = false := by
          simp only [Bool.or_eq_false_iff, List.any_eq_false, decide_eq_true_eq, ne_eq, not_not]
          exact ⟨fun sg h => (hp sg h).1, fun sg h => (hp sg h).2⟩
        rw [hany]
        simp only [Bool.false_eq_true, if_false]
        have e0 : r ∈ triangleInfo (K := K) 0 ↔
            (r.map (·.1) = [0, 1, 2] ∨ r.map (·.1) = [1, 2, 0] ∨ r.map (·.1) = [2, 0, 1]) := by
          rw [mem_triangleInfo]
          exact ⟨fun h => by simpa using h.2.2, fun h => ⟨hl, hp, by simpa using h⟩⟩
        have e3 : r ∈ triangleInfo (K := K) 3 ↔
            (r.map (·.1) = [3, 4, 5] ∨ r.map (·.1) = [4, 5, 3] ∨ r.map (·.1) = [5, 3, 4]) := by
          rw [mem_triangleInfo]
          exact ⟨fun h => by simpa using h.2.2, fun h => ⟨hl, hp, by simpa using h⟩⟩
        by_cases m0 : r.map (·.1) = [0, 1, 2] ∨ r.map (·.1) = [1, 2, 0] ∨ r.map (·.1) = [2, 0, 1]
        · rw [if_pos m0, if_pos (e0.mpr m0)]; rfl
        · rw [if_neg m0, if_neg (fun h => m0 (e0.mp h))]
          by_cases m3 : r.map (·.1) = [3, 4, 5] ∨ r.map (·.1) = [4, 5, 3] ∨ r.map (·.1) = [5, 3, 4]
          · rw [if_pos m3, if_pos (e3.mpr m3)]; rfl
          · rw [if_neg m3, if_neg (fun h => m3 (e3.mp h))]; rfl
      · have hany : (r.any (fun sg => decide (sg.2.1 ≠ 0)) || r.any (fun sg => decide (sg.2.2 ≠ 1))) = true := by
          by_contra hcon
          apply hp
          simp only [Bool.not_eq_true, Bool.or_eq_false_iff, List.any_eq_false, decide_eq_true_eq, ne_eq,
            not_not] at hcon
          exact fun sg h => ⟨hcon.1 sg h, hcon.2 sg h⟩
        rw [hany]
        simp only [if_true]
        rw [if_neg (fun h => hp ((mem_triangleInfo 0 r).mp h).2.1),
            if_neg (fun h => hp ((mem_triangleInfo 3 r).mp h).2.1)]
        rfl
    · rw [if_pos (by simpa using hl)]
      rw [if_neg (fun h => hl ((mem_triangleInfo 0 r).mp h).1), if_neg (fun h => hl ((mem_triangleInfo 3 r).mp h).1)]
      rfl


/-! ### the Fortran loop `interior_combine` against the Python loop -/

theorem addSegment_of_endsToCurve (a b : Intersection K) (sg : Segment K) (h : endsToCurve a b = .ok sg) :
    F90.addSegment a b = .ok sg := by
  unfold endsToCurve at h
  unfold F90.addSegment
  split_ifs at h with h1 h2 h3 h4 h5 h6 h7
  · rw [if_pos h1]; exact h
  · rw [if_neg h1, if_pos h3]; exact h
  · rw [if_neg h1, if_neg h3, if_pos h6.symm]; exact h
  · rw [if_neg h1, if_neg h3, if_neg (fun g => h6 g.symm)]; exact h

theorem edgeInfoOf_append (E : EdgeEnds K) (segs : List (Segment K)) (c n : WNode K) (sg : Segment K)
    (hE : edgeInfoOf E = .ok segs) (hsg : endsToCurve c.val n.val = .ok sg) :
    edgeInfoOf (E ++ [(c, n)]) = .ok (segs ++ [sg]) := by
  unfold edgeInfoOf at hE ⊢
  rw [List.mapM_append, hE]
  simp only [List.mapM_cons, List.mapM_nil, hsg]
  rfl

/-- the Python walk continued from a `curr_node` -/
def pyFrom (maxEdges : Nat) (ints : List (Intersection K)) (st : Nat) (g : Nat) (c : WNode K) (E : EdgeEnds K)
    (u : List Nat) : Except Err (EdgeEnds K × List Nat) :=
  match Py.getNext c.val ints u with
  | .error e => .error e
  | .ok nu =>
    if (E ++ [(c, nu.1)]).length > maxEdges then .error .runtimeError
    else Py.innerLoop maxEdges ints st g (E ++ [(c, nu.1)]) nu.1 nu.2

/-- `edge_info` computed at the end (Python) -/
def finalize (r : Except Err (EdgeEnds K × List Nat)) : Except Err (EdgeEnds K × List (Segment K) × List Nat) :=
  match r with
  | .error e => .error e
  | .ok eu =>
    match edgeInfoOf eu.1 with
    | .error e => .error e
    | .ok info => .ok (eu.1, info, eu.2)

theorem innerLoop_succ (maxEdges : Nat) (ints : List (Intersection K)) (st g : Nat) (E : EdgeEnds K) (n : WNode K)
    (u : List Nat) :
    Py.innerLoop maxEdges ints st (g + 1) E n u =
      if n.pos = some st then .ok (E, u)
      else if (toFrontNode n ints u).1.pos = some st then .ok (E, (toFrontNode n ints u).2)
      else pyFrom maxEdges ints st g (toFrontNode n ints u).1 E (toFrontNode n ints u).2 := by
  rw [Py.innerLoop]
  unfold pyFrom
  dsimp only
  by_cases h1 : n.pos = some st
  · rw [if_pos h1, if_pos h1]
  · rw [if_neg h1, if_neg h1]
    by_cases h2 : (toFrontNode n ints u).1.pos = some st
    · rw [if_pos h2, if_pos h2]
    · rw [if_neg h2, if_neg h2]
      cases Py.getNext (toFrontNode n ints u).1.val ints (toFrontNode n ints u).2 <;> rfl

theorem edgeLoop_eq (maxEdges : Nat) (ints : List (Intersection K)) (st : Nat) (hf : AllFull ints)
    (hw : AllWalkable ints) :
    ∀ (f g : Nat) (c : WNode K) (E : EdgeEnds K) (segs : List (Segment K)) (u : List Nat),
    f + 1 ≤ g → E.length + f = maxEdges → CurrOK ints c → edgeInfoOf E = .ok segs →
    F90.edgeLoop ints st f c E segs u = finalize (pyFrom maxEdges ints st g c E u) := by
  intro f
  induction f with
  | zero =>
    intro g c E segs u _ hlen hc _
    rw [F90.edgeLoop]
    obtain ⟨m, hm⟩ := getNextCore_isSome c.val ints (currOK_walkable ints hw c hc)
    unfold pyFrom Py.getNext
    rw [hm]
    dsimp only
    rw [if_pos (by simp; omega)]
    rfl
  | succ f ih =>
    intro g c E segs u hg hlen hc hE
    rw [F90.edgeLoop]
    obtain ⟨m, hm⟩ := getNextCore_isSome c.val ints (currOK_walkable ints hw c hc)
    obtain ⟨sg, hsg⟩ := endsToCurve_ok ints hf c m hc hm
    have hF : F90.getNext c.val ints u = (m, consume m u) := by
      unfold F90.getNext; rw [hm]
    have hP : Py.getNext c.val ints u = .ok (m, consume m u) := by
      unfold Py.getNext; rw [hm]
    have hE1 := edgeInfoOf_append E segs c m sg hE hsg
    have hlen' : ¬ (E ++ [(c, m)]).length > maxEdges := by simp; omega
    obtain ⟨g', rfl⟩ : ∃ g', g = g' + 1 := ⟨g - 1, by omega⟩
    have hR : pyFrom maxEdges ints st (g' + 1) c E u =
        Py.innerLoop maxEdges ints st (g' + 1) (E ++ [(c, m)]) m (consume m u) := by
      unfold pyFrom
      rw [hP]
      dsimp only
      rw [if_neg hlen']
    rw [hR, innerLoop_succ, hF]
    dsimp only
    rw [addSegment_of_endsToCurve _ _ _ hsg]
    dsimp only
    by_cases h1 : m.pos = some st
    · rw [if_pos h1, if_pos h1]
      unfold finalize
      dsimp only
      rw [hE1]
    · rw [if_neg h1, if_neg h1]
      by_cases h2 : (toFrontNode m ints (consume m u)).1.pos = some st
      · rw [if_pos h2, if_pos h2]
        unfold finalize
        dsimp only
        rw [hE1]
      · rw [if_neg h2, if_neg h2]
        have hc' : CurrOK ints (toFrontNode m ints (consume m u)).1 := by
          rw [toFrontNode_fst]
          exact frontOf_currOK ints m (getNextCore_nodeOK _ _ _ hm)
        exact ih g' _ _ _ _ (by omega) (by simp; omega) hc' hE1

theorem walkFrom_eq_pyFrom (maxEdges : Nat) (ints : List (Intersection K)) (st : Nat) (u : List Nat)
    (hme : 1 ≤ maxEdges) :
    Py.walkFrom maxEdges ints st u = pyFrom maxEdges ints st (maxEdges + 1) (startNode ints st) [] u := by
  unfold Py.walkFrom pyFrom startNode
  dsimp only
  cases hg : Py.getNext (ints.getD st blank) ints u with
  | error e => rfl
  | ok nu =>
    dsimp only
    rw [if_neg (by simp; omega)]
    rfl

theorem f90_outerLoop_eq (maxEdges : Nat) (ints : List (Intersection K)) (hf : AllFull ints) (hw : AllWalkable ints)
    (hme : 1 ≤ maxEdges) :
    ∀ (fuel : Nat) (u : List Nat) (res : List (EdgeEnds K × List (Segment K))),
    u.Nodup → (∀ i ∈ u, i < ints.length) →
    F90.outerLoop maxEdges ints fuel u res = Py.outerLoop maxEdges ints fuel u res := by
  intro fuel
  induction fuel with
  | zero => intro u res _ _; rw [F90.outerLoop, Py.outerLoop]
  | succ f ih =>
    intro u res hu hlt
    rw [F90.outerLoop, Py.outerLoop]
    cases hl : u.getLast? with
    | none => rfl
    | some st =>
      dsimp only
      have hsplit : u.dropLast ++ [st] = u := List.dropLast_append_getLast? st hl
      have hud : u.dropLast.Nodup := (List.dropLast_sublist u).nodup hu
      have hstd : st ∉ u.dropLast := by
        intro hc
        rw [← hsplit] at hu
        exact (List.nodup_append.mp hu).2.2 st hc st (by simp) rfl
      have hstlt : st < ints.length := hlt st (List.mem_of_getLast? hl)
      have key := edgeLoop_eq maxEdges ints st hf hw maxEdges (maxEdges + 1) (startNode ints st) [] [] u.dropLast
        (le_refl _) (by simp) (startNode_currOK ints st hstlt) rfl
      rw [← walkFrom_eq_pyFrom maxEdges ints st u.dropLast hme] at key
      have key' : F90.edgeLoop ints st maxEdges { pos := some st, val := ints.getD st blank } [] [] u.dropLast =
          finalize (Py.walkFrom maxEdges ints st u.dropLast) := key
      rw [key']
      cases hwf : Py.walkFrom maxEdges ints st u.dropLast with
      | error e => rfl
      | ok eu =>
        unfold finalize
        dsimp only
        cases hi : edgeInfoOf eu.1 with
        | error e => rfl
        | ok info =>
          dsimp only
          obtain ⟨_, g2, _⟩ := walkFrom_spec maxEdges ints st u.dropLast eu.1 eu.2 hud hstd hwf
          apply ih
          · rw [g2]; exact hud.filter _
          · intro i hi'
            rw [g2] at hi'
            exact hlt i (List.mem_of_mem_dropLast (List.mem_filter.mp hi').1)

/-! ### data for the non-vacuity examples of `Props/C06Walk.lean` -/

/-- the constants of the intersection pipeline (values of the current tree; used only by examples) -/
def exampleConsts : PipelineConsts ℚ :=
  { geo := { errValSq := (1 / 67108864) * (1 / 67108864), maxRounds := 20, maxCandidates := 64, zeroThr := 1 / 1024,
             ratioSq := (1 / 68719476736) * (1 / 68719476736), minWidth := 1 / 1099511627776,
             unhandledLinesRaise := true },
    vsThr := 55, wiggle := 1 / 17592186044416, epsSq := (1 / 1099511627776) * (1 / 1099511627776),
    newtonFuel := 10, locateRounds := 21, locateCapSq := (1 / 1048576) * (1 / 1048576), rnd := id }

/-- the curve–curve primitive of the examples: the pipeline model with the concrete primitives (for straight
    edges: `check_lines` → `segment_intersection` / `parallel_lines_parameters`) -/
def exampleAllInt (py : Bool) : AllIntFn ℚ :=
  fun a b => allIntersections (concretePrims py exampleConsts) exampleConsts.geo a b

/-- exact point location in a straight triangle (closed) -/
def exampleLocate : LocateFn ℚ := fun nodes degree x y =>
  if degree ≠ 1 then none
  else
    let xs := nodes.getD 0 []
    let ys := nodes.getD 1 []
    let c (i j : Nat) : ℚ := (seq xs j - seq xs i) * (y - seq ys i) - (seq ys j - seq ys i) * (x - seq xs i)
    if (0 ≤ c 0 1 ∧ 0 ≤ c 1 2 ∧ 0 ≤ c 2 0) ∨ (c 0 1 ≤ 0 ∧ c 1 2 ≤ 0 ∧ c 2 0 ≤ 0) then some (0, 0) else none

/-- a complete intersection -/
def mkInt (i1 : Nat) (s : ℚ) (i2 : Nat) (t : ℚ) (c : Cls) : Intersection ℚ :=
  { indexFirst := some i1, s := some s, indexSecond := some i2, t := some t, interior := some c }

/-- `.ok` with the expected value (Bool-valued, for `decide`) -/
def isOk {α : Type} [DecidableEq α] (r : Except Err α) (v : α) : Bool :=
  match r with
  | .ok a => decide (a = v)
  | .error _ => false

/-- `.ok (regions, contained)` with the expected components -/
def isOut (r : Except Err (Outcome ℚ)) (regs : Option (List (List (Segment ℚ)))) (cont : Option Bool) : Bool :=
  match r with
  | .ok a => decide (a.1 = regs) && decide (a.2 = cont)
  | .error _ => false

def isErr {α : Type} (r : Except Err α) (e : Err) : Bool :=
  match r with
  | .ok _ => false
  | .error e' => decide (e' = e)

end BezierVerif.WalkLemmas
