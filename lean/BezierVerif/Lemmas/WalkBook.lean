import BezierVerif.Model.Walk
import BezierVerif.Lemmas.Classify
import Mathlib.Data.List.Perm.Basic
import Mathlib.Algebra.Order.Group.Abs

/-!
# Lemmas/WalkBook — helper lemmas for the dispatch / bookkeeping theorems of `Props/C06WalkBook`

* the bit set `all_types` of the Fortran code (`bitsOf`) and its `testBit` characterisation;
* `splitKept` / `filterKept` as folds with an arbitrary start state;
* `List.foldlM` in `Except Err`: invariants, error propagation;
* the association list of `countDuplicates` (`counterIncr`): keys stay distinct, the value of key `k` is the
  number of increments of `k`;
* `absK` is Mathlib's `|·|`;
* `setUnusedAt`.
-/

set_option linter.unusedSectionVars false
set_option linter.unusedVariables false

namespace BezierVerif.WalkLemmas

open Model Model.Classify Model.Walk ClassifyLemmas

/-! ### the Fortran bit set -/

/-- the integer `all_types` after OR-ing in `2 ** enum` for every class of the list -/
def bitsOf (types : List Cls) : Nat := types.foldl (fun s c => s ||| bitOf c) 0

theorem code_injective : ∀ a b : Cls, a.code = b.code → a = b := by
  intro a b; cases a <;> cases b <;> simp [Cls.code]

theorem testBit_foldl_bitOf (types : List Cls) : ∀ (init k : Nat),
    (types.foldl (fun s c => s ||| bitOf c) init).testBit k =
      (init.testBit k || types.any (fun c => decide (c.code = k))) := by
  induction types with
  | nil => intro init k; simp
  | cons a rest ih =>
    intro init k
    simp only [List.foldl_cons, List.any_cons]
    rw [ih, Nat.testBit_or, bitOf, Nat.testBit_two_pow, Bool.or_assoc]

theorem testBit_bitsOf (types : List Cls) (k : Nat) :
    (bitsOf types).testBit k = true ↔ ∃ c ∈ types, c.code = k := by
  unfold bitsOf
  rw [testBit_foldl_bitOf]
  simp

theorem bitsOf_eq_zero_iff (types : List Cls) : bitsOf types = 0 ↔ types = [] := by
  constructor
  · intro h
    cases types with
    | nil => rfl
    | cons a rest =>
      exfalso
      have h1 : (bitsOf (a :: rest)).testBit a.code = true :=
        (testBit_bitsOf _ _).mpr ⟨a, by simp, rfl⟩
      rw [h] at h1
      simp at h1
  · intro h; subst h; rfl

/-- the OR of at least two distinct powers of two is not a power of two -/
theorem bitsOf_ne_two_pow (types : List Cls) (hnd : types.Nodup) (hlen : 2 ≤ types.length) (k : Nat) :
    bitsOf types ≠ 2 ^ k := by
  intro h
  match types, hnd, hlen with
  | a :: b :: rest, hnd, _ =>
    have ha : (bitsOf (a :: b :: rest)).testBit a.code = true :=
      (testBit_bitsOf _ _).mpr ⟨a, by simp, rfl⟩
    have hb : (bitsOf (a :: b :: rest)).testBit b.code = true :=
      (testBit_bitsOf _ _).mpr ⟨b, by simp, rfl⟩
    rw [h, Nat.testBit_two_pow] at ha hb
    have ha' : k = a.code := by simpa using ha
    have hb' : k = b.code := by simpa using hb
    have hab : a = b := code_injective a b (by omega)
    subst hab
    simp at hnd


/-! ### `List.foldlM` in `Except Err` -/

theorem foldlM_cons_except {α β : Type} (f : β → α → Except Err β) (a : α) (l : List α) (b : β) :
    (a :: l).foldlM f b = (match f b a with
      | .error e => .error e
      | .ok b' => l.foldlM f b') := by
  rw [List.foldlM_cons]
  cases f b a <;> rfl

theorem foldlM_nil_except {α β : Type} (f : β → α → Except Err β) (b : β) :
    ([] : List α).foldlM f b = .ok b := rfl

/-- an invariant of every successful step is an invariant of the successful loop -/
theorem foldlM_inv {α β : Type} (f : β → α → Except Err β) (P : β → Prop) : ∀ (l : List α)
    (hf : ∀ a ∈ l, ∀ b b', P b → f b a = .ok b' → P b') (b b' : β), P b → l.foldlM f b = .ok b' → P b' := by
  intro l
  induction l with
  | nil =>
    intro _ b b' hb h
    rw [foldlM_nil_except] at h
    cases h; exact hb
  | cons a rest ih =>
    intro hf b b' hb h
    rw [foldlM_cons_except] at h
    cases hfa : f b a with
    | error e => rw [hfa] at h; cases h
    | ok b1 =>
      rw [hfa] at h
      exact ih (fun a' ha' => hf a' (List.mem_cons_of_mem _ ha')) b1 b'
        (hf a (List.mem_cons_self) b b1 hb hfa) h

theorem foldlM_append_except {α β : Type} (f : β → α → Except Err β) : ∀ (l1 l2 : List α) (b : β),
    (l1 ++ l2).foldlM f b = (match l1.foldlM f b with
      | .error e => .error e
      | .ok b' => l2.foldlM f b') := by
  intro l1
  induction l1 with
  | nil => intro l2 b; rfl
  | cons a rest ih =>
    intro l2 b
    rw [List.cons_append, foldlM_cons_except, foldlM_cons_except]
    cases f b a with
    | error e => rfl
    | ok b1 => exact ih l2 b1

/-- the loop fails with `e` iff some step, reached through successful steps, fails with `e` -/
theorem foldlM_error_iff {α β : Type} (f : β → α → Except Err β) (e : Err) : ∀ (l : List α) (b : β),
    l.foldlM f b = .error e ↔
      ∃ l1 a l2 b1, l = l1 ++ a :: l2 ∧ l1.foldlM f b = .ok b1 ∧ f b1 a = .error e := by
  intro l
  induction l with
  | nil =>
    intro b
    constructor
    · intro h; cases h
    · rintro ⟨l1, a, l2, b1, h, _⟩; simp at h
  | cons a rest ih =>
    intro b
    rw [foldlM_cons_except]
    cases hfa : f b a with
    | error e' =>
      constructor
      · intro h
        cases h
        exact ⟨[], a, rest, b, rfl, rfl, hfa⟩
      · rintro ⟨l1, a', l2, b1, h, h1, h2⟩
        cases l1 with
        | nil =>
          simp only [List.nil_append, List.cons.injEq] at h
          rw [foldlM_nil_except] at h1
          cases h1
          rw [← h.1, hfa] at h2
          exact h2
        | cons c l1' =>
          simp only [List.cons_append, List.cons.injEq] at h
          rw [foldlM_cons_except, ← h.1, hfa] at h1
          cases h1
    | ok b0 =>
      show rest.foldlM f b0 = .error e ↔ _
      rw [ih b0]
      constructor
      · rintro ⟨l1, a', l2, b1, h, h1, h2⟩
        refine ⟨a :: l1, a', l2, b1, by rw [h]; rfl, ?_, h2⟩
        rw [foldlM_cons_except, hfa]; exact h1
      · rintro ⟨l1, a', l2, b1, h, h1, h2⟩
        cases l1 with
        | nil =>
          simp only [List.nil_append, List.cons.injEq] at h
          rw [foldlM_nil_except] at h1
          cases h1
          rw [← h.1, hfa] at h2
          cases h2
        | cons c l1' =>
          simp only [List.cons_append, List.cons.injEq] at h
          rw [foldlM_cons_except, ← h.1, hfa] at h1
          exact ⟨l1', a', l2, b1, h.2, h1, h2⟩

/-- `forM` whose steps fail only with `ValueError` fails only with `ValueError` -/
theorem forM_ok_or_valueError {α : Type} (f : α → Except Err Unit)
    (hf : ∀ x, f x = .ok () ∨ f x = .error .valueError) : ∀ l : List α,
    l.forM f = .ok () ∨ l.forM f = .error .valueError := by
  intro l
  induction l with
  | nil => left; rfl
  | cons a rest ih =>
    have hc : (a :: rest).forM f = (do f a; rest.forM f) := rfl
    rw [hc]
    rcases hf a with h | h
    · rw [h]; exact ih
    · rw [h]; right; rfl

/-! ### the association list of `countDuplicates` -/

/-- value of key `k` (0 when absent) -/
def counterGet (k : Nat) : List (Nat × Nat) → Nat
  | [] => 0
  | (j, c) :: rest => if j = k then c else counterGet k rest

/-- keys distinct, values positive: what `counterIncr` maintains -/
def CounterWF (l : List (Nat × Nat)) : Prop := (l.map Prod.fst).Nodup ∧ ∀ p ∈ l, 1 ≤ p.2

theorem counterWF_nil : CounterWF [] := ⟨by simp, by simp⟩

theorem counterIncr_keys (k : Nat) : ∀ (l : List (Nat × Nat)) (j : Nat),
    j ∈ (counterIncr k l).map Prod.fst ↔ j = k ∨ j ∈ l.map Prod.fst := by
  intro l
  induction l with
  | nil => intro j; simp [counterIncr]
  | cons p rest ih =>
    intro j
    rcases p with ⟨i, c⟩
    simp only [counterIncr]
    by_cases h : i = k
    · simp only [h, if_true, List.map_cons, List.mem_cons]
      constructor
      · rintro (h1 | h1)
        · left; exact h1
        · right; right; exact h1
      · rintro (h1 | h1 | h1)
        · left; exact h1
        · left; exact h1
        · right; exact h1
    · simp only [h, if_false, List.map_cons, List.mem_cons, ih j]
      constructor
      · rintro (h1 | h1 | h1)
        · right; left; exact h1
        · left; exact h1
        · right; right; exact h1
      · rintro (h1 | h1 | h1)
        · right; left; exact h1
        · left; exact h1
        · right; right; exact h1

theorem counterIncr_wf (k : Nat) : ∀ (l : List (Nat × Nat)), CounterWF l → CounterWF (counterIncr k l) := by
  intro l
  induction l with
  | nil => intro _; exact ⟨by simp [counterIncr], by simp [counterIncr]⟩
  | cons p rest ih =>
    rintro ⟨hnd, hpos⟩
    rcases p with ⟨i, c⟩
    simp only [List.map_cons, List.nodup_cons] at hnd
    have hrest : CounterWF rest := ⟨hnd.2, fun p hp => hpos p (List.mem_cons_of_mem _ hp)⟩
    simp only [counterIncr]
    by_cases h : i = k
    · simp only [h, if_true]
      refine ⟨?_, ?_⟩
      · simp only [List.map_cons, List.nodup_cons]
        exact ⟨by rw [← h]; exact hnd.1, hnd.2⟩
      · intro p hp
        rcases List.mem_cons.mp hp with rfl | hp
        · show 1 ≤ c + 1; omega
        · exact hpos p (List.mem_cons_of_mem _ hp)
    · simp only [h, if_false]
      obtain ⟨ih1, ih2⟩ := ih hrest
      refine ⟨?_, ?_⟩
      · simp only [List.map_cons, List.nodup_cons]
        refine ⟨?_, ih1⟩
        rw [counterIncr_keys]
        rintro (h1 | h1)
        · exact h h1
        · exact hnd.1 h1
      · intro p hp
        rcases List.mem_cons.mp hp with rfl | hp
        · exact hpos _ (List.mem_cons_self)
        · exact ih2 p hp

theorem counterGet_incr (k j : Nat) : ∀ (l : List (Nat × Nat)),
    counterGet j (counterIncr k l) = counterGet j l + (if k = j then 1 else 0) := by
  intro l
  induction l with
  | nil => simp [counterIncr, counterGet]
  | cons p rest ih =>
    rcases p with ⟨i, c⟩
    simp only [counterIncr]
    by_cases h : i = k
    · subst h
      simp only [if_true, counterGet]
      by_cases h2 : i = j
      · simp [h2]
      · simp [h2]
    · simp only [h, if_false, counterGet]
      by_cases h2 : i = j
      · have : ¬ k = j := fun hk => h (by omega)
        simp [h2, this]
      · simp only [h2, if_false]; exact ih

theorem counterGet_pos_mem : ∀ (l : List (Nat × Nat)) (k : Nat), 1 ≤ counterGet k l → (k, counterGet k l) ∈ l := by
  intro l
  induction l with
  | nil => intro k h; simp [counterGet] at h
  | cons p rest ih =>
    intro k h
    rcases p with ⟨i, c⟩
    simp only [counterGet] at h ⊢
    by_cases h2 : i = k
    · simp [h2]
    · simp only [h2, if_false] at h ⊢
      exact List.mem_cons_of_mem _ (ih k h)

/-- in a well-formed counter the entries are exactly the positive values of `counterGet` -/
theorem mem_counter_iff : ∀ (l : List (Nat × Nat)), CounterWF l → ∀ (k c : Nat),
    (k, c) ∈ l ↔ c = counterGet k l ∧ 1 ≤ c := by
  intro l
  induction l with
  | nil => intro _ k c; simp [counterGet]
  | cons p rest ih =>
    rintro ⟨hnd, hpos⟩ k c
    rcases p with ⟨i, c0⟩
    simp only [List.map_cons, List.nodup_cons] at hnd
    have hrest : CounterWF rest := ⟨hnd.2, fun p hp => hpos p (List.mem_cons_of_mem _ hp)⟩
    simp only [counterGet, List.mem_cons, Prod.mk.injEq]
    by_cases h : i = k
    · subst h
      simp only [if_true]
      constructor
      · rintro (⟨_, h2⟩ | h2)
        · exact ⟨h2, by rw [h2]; exact hpos (i, c0) (List.mem_cons_self)⟩
        · exfalso; apply hnd.1
          exact List.mem_map.mpr ⟨(i, c), h2, rfl⟩
      · rintro ⟨h2, _⟩
        left; simpa using h2
    · simp only [h, if_false]
      rw [← ih hrest k c]
      constructor
      · rintro (⟨h2, _⟩ | h2)
        · exact absurd h2.symm h
        · exact h2
      · intro h2; right; exact h2

/-! ### `setUnusedAt` -/

section Generic
variable {K : Type} [Field K] [LinearOrder K] [IsStrictOrderedRing K]

theorem setUnusedAt_length : ∀ (l : List (Intersection K)) (i : Nat), (setUnusedAt i l).length = l.length := by
  intro l
  induction l with
  | nil => intro i; simp [setUnusedAt]
  | cons a rest ih =>
    intro i
    cases i with
    | zero => simp [setUnusedAt]
    | succ j => simp only [setUnusedAt, List.length_cons, ih j]

theorem setUnusedAt_getD : ∀ (l : List (Intersection K)) (i j : Nat), j < l.length →
    (setUnusedAt i l).getD j blank =
      if j = i then { l.getD j blank with interior := some .coincidentUnused } else l.getD j blank := by
  intro l
  induction l with
  | nil => intro i j h; simp at h
  | cons a rest ih =>
    intro i j h
    cases i with
    | zero =>
      cases j with
      | zero => simp [setUnusedAt]
      | succ j' => simp [setUnusedAt]
    | succ i' =>
      cases j with
      | zero => simp [setUnusedAt]
      | succ j' =>
        simp only [setUnusedAt, List.getD_cons_succ, Nat.add_right_cancel_iff]
        exact ih i' j' (by simpa using h)

/-- `handle_ends` applied to an intersection record: a parameter `1` on edge `i` becomes `0` on edge
    `(i + 1) % 3` -/
def rotated (i1 : Nat) (s : K) (i2 : Nat) (t : K) (interior : Option Cls) : Intersection K :=
  { indexFirst := some (if s = 1 then (i1 + 1) % 3 else i1), s := some (if s = 1 then 0 else s),
    indexSecond := some (if t = 1 then (i2 + 1) % 3 else i2), t := some (if t = 1 then 0 else t),
    interior := interior }

/-! ### the invariant of the stored intersections -/

/-- what every element of `intersections` satisfies during the edge-pair loop: all five fields present, no
    parameter equal to `1`, edge indices below 3 -/
def StoredOK (x : Intersection K) : Prop :=
  isFull x = true ∧ x.s ≠ some 1 ∧ x.t ≠ some 1 ∧ (∃ i, i < 3 ∧ x.indexFirst = some i) ∧
    (∃ j, j < 3 ∧ x.indexSecond = some j)

theorem rotated_stored (i1 : Nat) (s : K) (i2 : Nat) (t : K) (c : Cls) (h1 : i1 < 3) (h2 : i2 < 3) :
    StoredOK (rotated i1 s i2 t (some c)) := by
  refine ⟨by simp [isFull, rotated], ?_, ?_, ⟨_, ?_, rfl⟩, ⟨_, ?_, rfl⟩⟩
  · simp only [rotated, ne_eq, Option.some.injEq]
    split_ifs with h
    · exact zero_ne_one
    · exact h
  · simp only [rotated, ne_eq, Option.some.injEq]
    split_ifs with h
    · exact zero_ne_one
    · exact h
  · split_ifs
    · exact Nat.mod_lt _ (by decide)
    · exact h1
  · split_ifs
    · exact Nat.mod_lt _ (by decide)
    · exact h2

theorem plain_stored (i1 : Nat) (s : K) (i2 : Nat) (t : K) (c : Cls) (h1 : i1 < 3) (h2 : i2 < 3) (hs : s ≠ 1)
    (ht : t ≠ 1) : StoredOK (⟨some i1, some s, some i2, some t, some c⟩ : Intersection K) := by
  refine ⟨by simp [isFull], ?_, ?_, ⟨i1, h1, rfl⟩, ⟨i2, h2, rfl⟩⟩
  · simpa using hs
  · simpa using ht

theorem relabel_stored (y : Intersection K) (h : StoredOK y) :
    StoredOK { y with interior := some .coincidentUnused } := by
  obtain ⟨hf, hs, ht, hi, hj⟩ := h
  refine ⟨?_, hs, ht, hi, hj⟩
  simp only [isFull, Bool.and_eq_true] at hf ⊢
  exact ⟨hf.1, rfl⟩

theorem mem_setUnusedAt : ∀ (l : List (Intersection K)) (i : Nat) (x : Intersection K), x ∈ setUnusedAt i l →
    x ∈ l ∨ ∃ y ∈ l, x = { y with interior := some .coincidentUnused } := by
  intro l
  induction l with
  | nil => intro i x h; simp [setUnusedAt] at h
  | cons a rest ih =>
    intro i x h
    cases i with
    | zero =>
      simp only [setUnusedAt, List.mem_cons] at h
      rcases h with h | h
      · right; exact ⟨a, by simp, h⟩
      · left; simp [h]
    | succ j =>
      simp only [setUnusedAt, List.mem_cons] at h
      rcases h with h | h
      · left; simp [h]
      · rcases ih j x h with h' | ⟨y, hy, hxy⟩
        · left; simp [h']
        · right; exact ⟨y, by simp [hy], hxy⟩

/-- the test of the search loop of the Fortran `update_edge_end_unused`: same edge pair as the rotated
    intersection and ONE parameter equal to `0` — `s` when the rotated `s` is `0`, otherwise `t` -/
def f90Match (s : K) (i1 : Nat) (t : K) (i2 : Nat) (o : Intersection K) : Bool :=
  decide (some (if s = 1 then (i1 + 1) % 3 else i1) = o.indexFirst) &&
    decide (some (if t = 1 then (i2 + 1) % 3 else i2) = o.indexSecond) &&
    (if (if s = 1 then (0 : K) else s) = 0 then decide (o.s = some 0) else decide (o.t = some 0))

/-! ### kernel-reducible equality tests (for `decide +kernel` examples)

The `DecidableEq (Intersection K)` instance of `Model/Classify` is built by `simp only [Intersection.mk.injEq]`, i.e.
it casts along `propext`; the kernel cannot evaluate it.  The tests below compare field by field. -/

def eqI (x y : Intersection K) : Bool :=
  decide (x.indexFirst = y.indexFirst) && decide (x.s = y.s) && decide (x.indexSecond = y.indexSecond) &&
    decide (x.t = y.t) && decide (x.interior = y.interior)

theorem eqI_iff (x y : Intersection K) : eqI x y = true ↔ x = y := by
  rcases x with ⟨a, b, c, d, e⟩
  rcases y with ⟨a', b', c', d', e'⟩
  simp [eqI, and_assoc]

def eqL : List (Intersection K) → List (Intersection K) → Bool
  | [], [] => true
  | a :: l, b :: m => eqI a b && eqL l m
  | _, _ => false

theorem eqL_iff : ∀ (l m : List (Intersection K)), eqL l m = true ↔ l = m := by
  intro l
  induction l with
  | nil => intro m; cases m <;> simp [eqL]
  | cons a l ih =>
    intro m
    cases m with
    | nil => simp [eqL]
    | cons b m => simp [eqL, eqI_iff, ih m]

/-- `r = .ok a` as a Boolean -/
def eqAcc (r : Except Err (Acc K)) (a : Acc K) : Bool :=
  match r with
  | .ok b => eqL b.1 a.1 && eqL b.2 a.2
  | .error _ => false

theorem eqAcc_iff (r : Except Err (Acc K)) (a : Acc K) : eqAcc r a = true ↔ r = .ok a := by
  cases r with
  | error e => simp [eqAcc]
  | ok b =>
    rcases a with ⟨a1, a2⟩
    rcases b with ⟨b1, b2⟩
    simp [eqAcc, eqL_iff]

/-- `r = .ok l` as a Boolean -/
def eqOkL (r : Except Err (List (Intersection K))) (l : List (Intersection K)) : Bool :=
  match r with
  | .ok b => eqL b l
  | .error _ => false

theorem eqOkL_iff (r : Except Err (List (Intersection K))) (l : List (Intersection K)) :
    eqOkL r l = true ↔ r = .ok l := by
  cases r with
  | error e => simp [eqOkL]
  | ok b => simp [eqOkL, eqL_iff]

/-! ### `absK` -/

theorem absK_eq_abs (x : K) : absK x = |x| := by
  unfold absK
  split_ifs with h
  · exact (abs_of_neg h).symm
  · exact (abs_of_nonneg (not_lt.mp h)).symm

theorem closeRel_iff (w a b : K) : closeRel w a b = true ↔ |a - b| ≤ w * |b| := by
  unfold closeRel
  rw [absK_eq_abs, absK_eq_abs]
  simp

/-! ### `splitKept`, `filterKept` as folds from an arbitrary state -/

/-- the body of the loop of `Py.splitKept` -/
def splitStep (st : List Cls × List (Intersection K) × List (Intersection K)) (x : Intersection K) :
    List Cls × List (Intersection K) × List (Intersection K) :=
  let types := match x.interior with
    | some c => setAdd c st.1
    | none => st.1
  if shouldUse x then (types, st.2.1 ++ [x], st.2.2) else (types, st.2.1, st.2.2 ++ [x])

theorem splitKept_eq (ints : List (Intersection K)) : Py.splitKept ints = ints.foldl splitStep ([], [], []) := rfl

theorem setAdd_nodup (c : Cls) (s : List Cls) (h : s.Nodup) : (setAdd c s).Nodup := by
  unfold setAdd
  split_ifs with hc
  · exact h
  · exact List.nodup_append.mpr ⟨h, by simp, by
      intro a ha b hb; simp at hb; subst hb; intro hab; subst hab; exact hc ha⟩

theorem mem_setAdd (c a : Cls) (s : List Cls) : a ∈ setAdd c s ↔ a = c ∨ a ∈ s := by
  unfold setAdd
  split_ifs with hc
  · constructor
    · intro h; right; exact h
    · rintro (h | h)
      · subst h; exact hc
      · exact h
  · simp only [List.mem_append, List.mem_singleton]
    constructor
    · rintro (h | h)
      · right; exact h
      · left; exact h
    · rintro (h | h)
      · right; exact h
      · left; exact h

theorem splitStep_fold (ints : List (Intersection K)) :
    ∀ st : List Cls × List (Intersection K) × List (Intersection K),
      (ints.foldl splitStep st).2.1 = st.2.1 ++ ints.filter shouldUse ∧
      (ints.foldl splitStep st).2.2 = st.2.2 ++ ints.filter (fun x => !shouldUse x) ∧
      (st.1.Nodup → (ints.foldl splitStep st).1.Nodup) ∧
      ∀ c, c ∈ (ints.foldl splitStep st).1 ↔ c ∈ st.1 ∨ ∃ x ∈ ints, x.interior = some c := by
  induction ints with
  | nil => intro st; simp
  | cons a rest ih =>
    intro st
    simp only [List.foldl_cons]
    obtain ⟨h1, h2, h3, h4⟩ := ih (splitStep st a)
    have e1 : (splitStep st a).2.1 = if shouldUse a then st.2.1 ++ [a] else st.2.1 := by
      unfold splitStep; split_ifs <;> rfl
    have e2 : (splitStep st a).2.2 = if shouldUse a then st.2.2 else st.2.2 ++ [a] := by
      unfold splitStep; split_ifs <;> rfl
    have e3 : (splitStep st a).1 = match a.interior with
        | some c => setAdd c st.1
        | none => st.1 := by
      unfold splitStep; split_ifs <;> rfl
    refine ⟨?_, ?_, ?_, ?_⟩
    · rw [h1, e1]
      by_cases hs : shouldUse a = true
      · simp [hs]
      · simp [hs]
    · rw [h2, e2]
      by_cases hs : shouldUse a = true
      · simp [hs]
      · simp [hs]
    · intro hnd
      apply h3
      rw [e3]
      cases a.interior with
      | none => exact hnd
      | some c => exact setAdd_nodup c _ hnd
    · intro c
      rw [h4 c, e3]
      cases hai : a.interior with
      | none =>
        simp only [List.mem_cons, exists_eq_or_imp, hai]
        simp
      | some c0 =>
        simp only [mem_setAdd, List.mem_cons, exists_eq_or_imp, hai, Option.some.injEq]
        constructor
        · rintro ((h | h) | h)
          · right; left; exact h.symm
          · left; exact h
          · right; right; exact h
        · rintro (h | h | h)
          · left; right; exact h
          · left; left; exact h.symm
          · right; exact h

/-- the body of the loop of `F90.filterKept` -/
def filterStep (st : Nat × List (Intersection K)) (x : Intersection K) : Nat × List (Intersection K) :=
  let types := match x.interior with
    | some c => st.1 ||| bitOf c
    | none => st.1
  if shouldUse x then (types, st.2 ++ [x]) else (types, st.2)

theorem filterKept_eq (ints : List (Intersection K)) : F90.filterKept ints = ints.foldl filterStep (0, []) := rfl

theorem filterStep_fold (ints : List (Intersection K)) : ∀ st : Nat × List (Intersection K),
    (ints.foldl filterStep st).2 = st.2 ++ ints.filter shouldUse ∧
    (ints.foldl filterStep st).1 = (ints.filterMap (·.interior)).foldl (fun s c => s ||| bitOf c) st.1 := by
  induction ints with
  | nil => intro st; simp
  | cons a rest ih =>
    intro st
    simp only [List.foldl_cons]
    obtain ⟨h1, h2⟩ := ih (filterStep st a)
    have e1 : (filterStep st a).2 = if shouldUse a then st.2 ++ [a] else st.2 := by
      unfold filterStep; split_ifs <;> rfl
    have e2 : (filterStep st a).1 = match a.interior with
        | some c => st.1 ||| bitOf c
        | none => st.1 := by
      unfold filterStep; split_ifs <;> rfl
    refine ⟨?_, ?_⟩
    · rw [h1, e1]
      by_cases hs : shouldUse a = true
      · simp [hs]
      · simp [hs]
    · rw [h2, e2]
      cases hai : a.interior with
      | none => simp [hai]
      | some c => simp [hai]


/-! ### `verify_duplicates` -/

/-- `countDuplicates` from an arbitrary counter: fails (with `ValueError`) iff some duplicate does not match
    exactly one unique; otherwise every key gains the number of duplicates matched to it -/
theorem countDuplicates_spec (w : K) (uniq : List (Intersection K)) :
    ∀ (dups : List (Intersection K)) (counter : List (Nat × Nat)),
    (countDuplicates w uniq dups counter = .error .valueError ∧
        ¬ ∀ d ∈ dups, ∃ i, matchesOf w d uniq = [i]) ∨
    (∃ c', countDuplicates w uniq dups counter = .ok c' ∧ (∀ d ∈ dups, ∃ i, matchesOf w d uniq = [i]) ∧
      (CounterWF counter → CounterWF c') ∧
      ∀ k, counterGet k c' =
        counterGet k counter + (dups.filter (fun d => decide (matchesOf w d uniq = [k]))).length) := by
  intro dups
  induction dups with
  | nil => intro counter; right; exact ⟨counter, rfl, by simp, id, by simp⟩
  | cons d rest ih =>
    intro counter
    cases hm : matchesOf w d uniq with
    | nil =>
      left
      refine ⟨by simp only [countDuplicates, hm], ?_⟩
      intro h
      obtain ⟨i, hi⟩ := h d (by simp)
      rw [hm] at hi; cases hi
    | cons m tl =>
      cases tl with
      | cons m2 tl2 =>
        left
        refine ⟨by simp only [countDuplicates, hm], ?_⟩
        intro h
        obtain ⟨i, hi⟩ := h d (by simp)
        rw [hm] at hi; cases hi
      | nil =>
        have e : countDuplicates w uniq (d :: rest) counter =
            countDuplicates w uniq rest (counterIncr m counter) := by
          simp only [countDuplicates, hm]
        rw [e]
        rcases ih (counterIncr m counter) with ⟨h1, h2⟩ | ⟨c', h1, h2, h3, h4⟩
        · left
          exact ⟨h1, fun h => h2 (fun d' hd' => h d' (List.mem_cons_of_mem _ hd'))⟩
        · right
          refine ⟨c', h1, ?_, fun hwf => h3 (counterIncr_wf m counter hwf), ?_⟩
          · intro d' hd'
            rcases List.mem_cons.mp hd' with rfl | hd'
            · exact ⟨m, hm⟩
            · exact h2 d' hd'
          · intro k
            rw [h4 k, counterGet_incr, List.filter_cons, hm]
            by_cases hk : m = k
            · subst hk; simp; omega
            · simp [hk]

theorem checkCount_ok_iff (uniq : List (Intersection K)) (k n : Nat) :
    checkCount uniq (k, n) = .ok () ↔
      (n = 1 ∧ (((uniq.getD k blank).s = some 0 ∧ (uniq.getD k blank).t ≠ some 0) ∨
                ((uniq.getD k blank).s ≠ some 0 ∧ (uniq.getD k blank).t = some 0))) ∨
      (n = 3 ∧ (uniq.getD k blank).s = some 0 ∧ (uniq.getD k blank).t = some 0) := by
  unfold checkCount
  dsimp only
  generalize uniq.getD k blank = u
  by_cases h1 : n = 1
  · subst h1
    by_cases hs : u.s = some 0 <;> by_cases ht : u.t = some 0 <;> simp [hs, ht]
  · by_cases h3 : n = 3
    · subst h3
      by_cases hs : u.s = some 0 <;> by_cases ht : u.t = some 0 <;> simp [hs, ht]
    · simp [h1, h3]

theorem checkCount_ok_or_valueError (uniq : List (Intersection K)) (p : Nat × Nat) :
    checkCount uniq p = .ok () ∨ checkCount uniq p = .error .valueError := by
  unfold checkCount
  dsimp only
  split_ifs <;> simp

theorem anyPairSame_false_iff (w : K) : ∀ l : List (Intersection K),
    anyPairSame w l = false ↔ l.Pairwise (fun u v => sameIntersection w u v = false) := by
  intro l
  induction l with
  | nil => simp [anyPairSame]
  | cons u rest ih =>
    simp only [anyPairSame, Bool.or_eq_false_iff, List.any_eq_false, List.pairwise_cons, ih]
    constructor
    · rintro ⟨h1, h2⟩
      exact ⟨fun v hv => by simpa using h1 v hv, h2⟩
    · rintro ⟨h1, h2⟩
      exact ⟨fun v hv => by simpa using h1 v hv, h2⟩

end Generic

end BezierVerif.WalkLemmas
