import BezierVerif.Model.Basic
import BezierVerif.Model.Curve

/-!
# Model/Algebraic — executable model of `hazmat/algebraic_intersection.py` (pure Python only)

Transcribed routine by routine.  External numerics (`numpy.linalg.det` is replaced by the
mathematical determinant `det` = Laplace expansion; `np.sqrt`, `polynomial.polyfit`,
`np.linalg.eigvals`, `polynomial.polyroots`, `np.linalg.matrix_rank` are fields of `Externals`).
Hard-coded constants of the module are fields of `Params` (their values are extracted into
`Generated/Data.lean`, `Generated/Algebraic.lean` and tied by `Tables/C19.lean`).
Everything lives in `BezierVerif.Model.Alg`.
-/

namespace BezierVerif.Model.Alg

variable {K : Type} [Add K] [Sub K] [Mul K] [Div K] [Neg K] [OfNat K 0] [OfNat K 1] [NatCast K]

/-- an integer literal of the Python source (`2`, `3.0`, `19.0`, …) -/
def nat (n : Nat) : K := ((n : Nat) : K)

/-- `x ** n` by repeated multiplication -/
def powK (x : K) : Nat → K
  | 0 => 1
  | n+1 => powK x n * x

/-- `map` in the error monad, left to right (first error wins) -/
def mapE {α β : Type} (f : α → Except Err β) : List α → Except Err (List β)
  | [] => .ok []
  | a :: rest =>
    match f a with
    | .error e => .error e
    | .ok b =>
      match mapE f rest with
      | .error e => .error e
      | .ok bs => .ok (b :: bs)

/-! ## `evaluate`: the implicit function of a curve of degree 1, 2, 3 -/

/-- `num_nodes == 2` branch: the 2×2 determinant -/
def evaluate1 (x0 x1 y0 y1 x y : K) : K :=
  (x0 - x) * (y1 - y) - (x1 - x) * (y0 - y)

/-- `num_nodes == 3` branch: the expanded 4×4 modified Sylvester determinant, exactly as coded -/
def evaluate2 (x0 x1 x2 y0 y1 y2 x y : K) : K :=
  let a := x0 - x
  let b := (x1 - x) * nat 2
  let c := x2 - x
  let d := y0 - y
  let e := (y1 - y) * nat 2
  let f := y2 - y
  let sub1 := b * f - c * e
  let sub2 := a * f - c * d
  let subDetA := (-e) * sub1 + f * sub2
  let subDetD := b * sub1 - c * sub2
  a * subDetA + d * subDetD

/-- one row of `delta = nodes - [[x_val], [y_val]]; delta[:, 1:3] *= 3.0` (4 entries) -/
def delta3 (row : List K) (v : K) : List K :=
  (List.range 4).map (fun j =>
    let d := seq row j - v
    if j = 1 ∨ j = 2 then d * nat 3 else d)

/-- a `delta` row placed at columns `k .. k+3` of a zero row of length 6 -/
def shiftRow (k : Nat) (d : List K) : List K :=
  List.replicate k (0 : K) ++ d ++ List.replicate (2 - k) (0 : K)

/-- the 6×6 matrix of `_evaluate3`: `[:2, :4] = delta`, `[2:4, 1:5] = delta`, `[4:, 2:] = delta` -/
def sylvester3 (xs ys : List K) (x y : K) : List (List K) :=
  let dx := delta3 xs x
  let dy := delta3 ys y
  [shiftRow 0 dx, shiftRow 0 dy, shiftRow 1 dx, shiftRow 1 dy, shiftRow 2 dx, shiftRow 2 dy]

/-- `x` or `-x` according to the parity of `j` -/
def altSign (j : Nat) (x : K) : K := if j % 2 = 0 then x else -x

/-- the determinant of the leading `n × n` part of a list of rows: Laplace expansion along the
    first row (this is the *definition* of what `np.linalg.det` approximates) -/
def det : Nat → List (List K) → K
  | 0, _ => 1
  | n+1, m =>
    let r0 := m.headD []
    let rest := m.tail
    (List.range (n+1)).foldl
      (fun acc j => acc + altSign j (seq r0 j * det n (rest.map (fun r => r.eraseIdx j)))) 0

/-- `_evaluate3` -/
def evaluate3 (xs ys : List K) (x y : K) : K := det 6 (sylvester3 xs ys x y)

/-- `evaluate(nodes, x_val, y_val)` -/
def evaluate (nodes : List (List K)) (x y : K) : Except Err K :=
  let xs := nodes.getD 0 []
  let ys := nodes.getD 1 []
  match ncols nodes with
  | 1 => .error .valueError
  | 2 => .ok (evaluate1 (seq xs 0) (seq xs 1) (seq ys 0) (seq ys 1) x y)
  | 3 => .ok (evaluate2 (seq xs 0) (seq xs 1) (seq xs 2) (seq ys 0) (seq ys 1) (seq ys 2) x y)
  | 4 => .ok (evaluate3 xs ys x y)
  | _ => .error .unsupportedDegree

/-- `eval_intersection_polynomial`: `evaluate(nodes1, *evaluate_multi(nodes2, [t]))`;
    `thr` is the VS / de Casteljau switch of `evaluate_multi` -/
def evalIntersectionPolynomial (thr : Nat) (nodes1 nodes2 : List (List K)) (t : K) : Except Err K :=
  let p := evalPoint thr nodes2 t
  evaluate nodes1 (seq p 0) (seq p 1)

/-! ## interpolation: sample nodes, hand-inverted Vandermonde matrices, model-derived inverse -/

/-- sample parameters of `_to_power_basis11` -/
def pbNodes11 : List K := [0, 1]
/-- sample parameters of `_to_power_basis12` -/
def pbNodes12 : List K := [0, q 1 2, 1]
/-- sample parameters of `_to_power_basis13` -/
def pbNodes13 : List K := [0, q 1 4, q 3 4, 1]
/-- sample parameters of `_to_power_basis_degree4` -/
def pbNodes4 : List K := [0, q 1 4, q 1 2, q 3 4, 1]

/-- return expression of `_to_power_basis11`, exactly as coded -/
def pbCombine11 : List K → List K
  | [v0, v1] => [v0, -v0 + v1]
  | _ => []

/-- return expression of `_to_power_basis12` -/
def pbCombine12 : List K → List K
  | [v0, v1, v2] =>
    [v0,
     (-(nat 3)) * v0 + nat 4 * v1 - v2,
     nat 2 * v0 - nat 4 * v1 + nat 2 * v2]
  | _ => []

/-- return expression of `_to_power_basis13` (3 × the coefficients) -/
def pbCombine13 : List K → List K
  | [v0, v1, v2, v3] =>
    [nat 3 * v0,
     (-(nat 19)) * v0 + nat 24 * v1 - nat 8 * v2 + nat 3 * v3,
     nat 32 * v0 - nat 56 * v1 + nat 40 * v2 - nat 16 * v3,
     (-(nat 16)) * v0 + nat 32 * v1 - nat 32 * v2 + nat 16 * v3]
  | _ => []

/-- return expression of `_to_power_basis_degree4` (3 × the coefficients) -/
def pbCombine4 : List K → List K
  | [v0, v1, v2, v3, v4] =>
    [nat 3 * v0,
     (-(nat 25)) * v0 + nat 48 * v1 - nat 36 * v2 + nat 16 * v3 - nat 3 * v4,
     nat 70 * v0 - nat 208 * v1 + nat 228 * v2 - nat 112 * v3 + nat 22 * v4,
     (-(nat 80)) * v0 + nat 288 * v1 - nat 384 * v2 + nat 224 * v3 - nat 48 * v4,
     nat 32 * v0 - nat 128 * v1 + nat 192 * v2 - nat 128 * v3 + nat 32 * v4]
  | _ => []

/-- the coefficient matrices of the four return expressions (what the extractor reads off the
    AST; `Tables/C19` proves the extracted ones equal these and `Props/C19` that `pbCombine*`
    is multiplication by them) -/
def pbMatrix11 : List (List K) := [[1, 0], [-(1:K), 1]]
def pbMatrix12 : List (List K) := [[1, 0, 0], [-(nat 3), nat 4, -(1:K)], [nat 2, -(nat 4), nat 2]]
def pbMatrix13 : List (List K) :=
  [[nat 3, 0, 0, 0],
   [-(nat 19), nat 24, -(nat 8), nat 3],
   [nat 32, -(nat 56), nat 40, -(nat 16)],
   [-(nat 16), nat 32, -(nat 32), nat 16]]
def pbMatrix4 : List (List K) :=
  [[nat 3, 0, 0, 0, 0],
   [-(nat 25), nat 48, -(nat 36), nat 16, -(nat 3)],
   [nat 70, -(nat 208), nat 228, -(nat 112), nat 22],
   [-(nat 80), nat 288, -(nat 384), nat 224, -(nat 48)],
   [nat 32, -(nat 128), nat 192, -(nat 128), nat 32]]

/-- matrix times column vector -/
def matVec (m : List (List K)) (v : List K) : List K := m.map (fun r => dot r v)

/-- Vandermonde matrix `V[i][k] = t_i ^ k` (square, one row per sample node) -/
def vandermonde (nodes : List K) : List (List K) :=
  nodes.map (fun t => (List.range nodes.length).map (fun k => powK t k))

/-- `p(t) · (t − r)` on ascending coefficient lists -/
def polyMulLin (p : List K) (r : K) : List K :=
  addRow ((0 : K) :: p) (p.map (fun a => (-r) * a) ++ [0])

/-- numerator `Π_{j ≠ i} (t − t_j)` of the `i`-th Lagrange basis polynomial -/
def lagrangeNum (nodes : List K) (i : Nat) : List K :=
  (List.range nodes.length).foldl
    (fun p j => if j = i then p else polyMulLin p (seq nodes j)) [1]

/-- denominator `Π_{j ≠ i} (t_i − t_j)` -/
def lagrangeDen (nodes : List K) (i : Nat) : K :=
  (List.range nodes.length).foldl
    (fun d j => if j = i then d else d * (seq nodes i - seq nodes j)) 1

/-- the inverse Vandermonde matrix derived in the model: column `i` holds the power-basis
    coefficients of the `i`-th Lagrange basis polynomial (no pivoting, no zero tests) -/
def invVandermonde (nodes : List K) : List (List K) :=
  transpose ((List.range nodes.length).map
    (fun i => divRow (lagrangeNum nodes i) (lagrangeDen nodes i)))

/-- exact polynomial interpolation: coefficients (ascending) of the polynomial of degree
    `< nodes.length` through `(nodes_i, vals_i)`; this is what `polyfit(nodes, vals, len-1)`
    approximates -/
def interpolate (nodes vals : List K) : List K := matVec (invVandermonde nodes) vals

/-- entrywise scaling of a matrix -/
def scaleMat (c : K) (m : List (List K)) : List (List K) := m.map (scaleRow c)

/-! ## external numerics and module constants -/

/-- external numerical routines (never modelled, only their use) -/
structure Externals (K : Type) where
  /-- `numpy.polynomial.polynomial.polyfit(x, y, deg)` -/
  fit : List K → List K → Nat → List K
  /-- `np.sqrt` -/
  sqrt : K → K
  /-- `np.linalg.matrix_rank` -/
  rank : List (List K) → Nat
  /-- `np.linalg.eigvals` (complex numbers as pairs `(re, im)`) -/
  eigvals : List (List K) → List (K × K)
  /-- `numpy.polynomial.polynomial.polyroots` -/
  polyroots : List K → List (K × K)

/-- module constants (norm thresholds squared because norms are compared through squares) -/
structure Params (K : Type) where
  /-- `evaluate_multi_barycentric`: `num_nodes > 55` -/
  vsThr : Nat
  cheb7 : List K
  cheb9 : List K
  cheb10 : List K
  /-- `_REDUCE_THRESHOLD ** 2` of `curve_helpers` -/
  reduceThrSq : K
  /-- `_L2_THRESHOLD ** 2` -/
  l2ThrSq : K
  /-- `_COEFFICIENT_THRESHOLD` -/
  coeffThr : K
  /-- `_NON_SIMPLE_THRESHOLD` -/
  nonSimpleThr : K
  /-- `_SIGMA_THRESHOLD ** 2` -/
  sigmaThrSq : K
  /-- `_UNIT_INTERVAL_WIGGLE_START` -/
  wiggleStart : K
  /-- `_UNIT_INTERVAL_WIGGLE_END` -/
  wiggleEnd : K
  /-- `_IMAGINARY_WIGGLE` -/
  imagWiggle : K
  /-- `_ZERO_THRESHOLD` -/
  zeroThr : K

/-! ## `to_power_basis`: dispatch on the pair of node counts -/

/-- which helper `to_power_basis` calls -/
inductive PBKind where
  | pb11 | pb12 | pb13 | deg4 | pb23 | deg8 | pb33
  deriving DecidableEq, Repr, Inhabited

/-- numeric code used by the extractor / driver -/
def PBKind.code : PBKind → Nat
  | .pb11 => 11 | .pb12 => 12 | .pb13 => 13 | .deg4 => 4 | .pb23 => 23 | .deg8 => 8 | .pb33 => 33

/-- the `if / elif` chain of `to_power_basis` on `(num_nodes1, num_nodes2)`; `none` = the
    final `raise NotImplementedError` -/
def pbKind : Nat → Nat → Option PBKind
  | 2, 2 => some .pb11
  | 2, 3 => some .pb12
  | 2, 4 => some .pb13
  | 2, 5 => some .deg4
  | 3, 3 => some .deg4
  | 3, 4 => some .pb23
  | 3, 5 => some .deg8
  | 4, 4 => some .pb33
  | _, _ => none

/-- the seven helpers, given the sampled function -/
def pbApply (ext : Externals K) (par : Params K) (f : K → Except Err K) : PBKind → Except Err (List K)
  | .pb11 => match mapE f pbNodes11 with
    | .ok vals => .ok (pbCombine11 vals)
    | .error e => .error e
  | .pb12 => match mapE f pbNodes12 with
    | .ok vals => .ok (pbCombine12 vals)
    | .error e => .error e
  | .pb13 => match mapE f pbNodes13 with
    | .ok vals => .ok (pbCombine13 vals)
    | .error e => .error e
  | .deg4 => match mapE f pbNodes4 with
    | .ok vals => .ok (pbCombine4 vals)
    | .error e => .error e
  | .pb23 => match mapE f par.cheb7 with
    | .ok vals => .ok (ext.fit par.cheb7 vals 6)
    | .error e => .error e
  | .deg8 => match mapE f par.cheb9 with
    | .ok vals => .ok (ext.fit par.cheb9 vals 8)
    | .error e => .error e
  | .pb33 => match mapE f par.cheb10 with
    | .ok vals => .ok (ext.fit par.cheb10 vals 9)
    | .error e => .error e

/-- `to_power_basis(nodes1, nodes2)` -/
def toPowerBasis (ext : Externals K) (par : Params K) (nodes1 nodes2 : List (List K)) :
    Except Err (List K) :=
  match pbKind (ncols nodes1) (ncols nodes2) with
  | none => .error .notImplemented
  | some k => pbApply ext par (evalIntersectionPolynomial par.vsThr nodes1 nodes2) k

/-! ## L2 norm -/

/-- `polynomial_norm(coeffs) ** 2`: the running `result` of the two nested loops -/
def polynomialNormSq (coeffs : List K) : K :=
  let n := coeffs.length
  let c := seq coeffs
  (List.range n).foldl (fun result i =>
    let r1 := result + (c i * c i) / (nat 2 * nat i + 1)
    (List.range (n - (i + 1))).foldl (fun r dj =>
      let j := i + 1 + dj
      r + (nat 2 * c i * c j) / (nat (i + j) + 1)) r1) 0

/-- `normalize_polynomial(coeffs, threshold)`; `l2` is the value `np.sqrt(result)` computed by
    `polynomial_norm`, the comparison `l2_norm < threshold` is made on squares -/
def normalizePolynomial [LT K] [DecidableLT K] (thrSq : K) (l2 : K) (coeffs : List K) : List K :=
  if polynomialNormSq coeffs < thrSq then coeffs.map (fun _ => (0 : K)) else divRow coeffs l2

/-! ## Bernstein → σ-polynomial, companion matrix -/

/-- `for index in range(degree, -1, -1): if coeffs[index] != 0.0` over the first `k` entries -/
def effectiveDegree [DecidableEq K] (c : Nat → K) : Nat → Option Nat
  | 0 => none
  | k+1 => if c k ≠ 0 then some k else effectiveDegree c k

/-- the loop `for exponent in range(effective_degree - 1, -1, -1)` with its running integers
    `binom_numerator`, `binom_denominator`; `k` = number of entries still to process (the next
    exponent is `k - 1`); returns entries `0 .. k-1` -/
def sigmaScale (degree : Nat) (v : Nat → K) : Nat → Nat → Nat → List K
  | 0, _, _ => []
  | k+1, num, den =>
    sigmaScale degree v k (num * k) (den * (degree - k + 1)) ++ [(v k * nat num) / nat den]

/-- `_get_sigma_coeffs(coeffs)` : `(sigma_coeffs, degree, effective_degree)` -/
def getSigmaCoeffs [DecidableEq K] (coeffs : List K) : Option (List K) × Nat × Nat :=
  let degree := coeffs.length - 1
  match effectiveDegree (seq coeffs) coeffs.length with
  | none => (none, 0, 0)
  | some 0 => (none, degree, 0)
  | some e =>
    let lead := seq coeffs e
    (some (sigmaScale degree (fun i => seq coeffs i / lead) e e (degree - e + 1)), degree, e)

/-- the `e × e` companion matrix: first row `-sigma_coeffs[::-1]`, ones on the sub-diagonal
    (`companion.flat[e::e+1] = 1.0`, i.e. entries `(k+1, k)`) -/
def companionOfSigma (sc : List K) (e : Nat) : List (List K) :=
  (sc.reverse.map (fun x => -x)) :: (List.range (e - 1)).map (fun i => unitVec e i)

/-- `bernstein_companion(coeffs)` : `(companion, degree, effective_degree)` -/
def bernsteinCompanion [DecidableEq K] (coeffs : List K) : List (List K) × Nat × Nat :=
  match getSigmaCoeffs coeffs with
  | (some sc, degree, e) =>
    if e = 0 then ([], degree, 0) else (companionOfSigma sc e, degree, e)
  | (none, degree, _) => ([], degree, 0)

/-- complex division `(a + bi) / (c + di)` on pairs -/
def cdiv (z w : K × K) : K × K :=
  let n := w.1 * w.1 + w.2 * w.2
  ((z.1 * w.1 + z.2 * w.2) / n, (z.2 * w.1 - z.1 * w.2) / n)

/-- the part of `bezier_roots` after `eigvals`: drop `|σ + 1| ≤ threshold`, map `σ ↦ σ/(1+σ)`,
    append `degree - effective_degree` roots at `1` -/
def bezierRootsFilter [LT K] [DecidableLT K] (sigmaThrSq : K) (sigmaRoots : List (K × K))
    (degree e : Nat) : List (K × K) :=
  let svals :=
    if e ≠ 0 then
      let kept := sigmaRoots.filter
        (fun z => decide (sigmaThrSq < (z.1 + 1) * (z.1 + 1) + z.2 * z.2))
      kept.map (fun z => cdiv z (1 + z.1, z.2))
    else []
  if e ≠ degree then svals ++ List.replicate (degree - e) ((1 : K), (0 : K)) else svals

/-- `bezier_roots(coeffs)` -/
def bezierRoots [DecidableEq K] [LT K] [DecidableLT K] (ext : Externals K) (par : Params K)
    (coeffs : List K) : List (K × K) :=
  let r := bernsteinCompanion coeffs
  bezierRootsFilter par.sigmaThrSq (if r.2.2 ≠ 0 then ext.eigvals r.1 else []) r.2.1 r.2.2

/-! ## `lu_companion` -/

def absK [LT K] [DecidableLT K] (x : K) : K := if x < 0 then -x else x

/-- Python `max(a, b)` (the second only if strictly larger) -/
def maxK [LT K] [DecidableLT K] (a b : K) : K := if a < b then b else a

/-- running variables of the loop in `lu_companion` -/
structure LUState (K : Type) where
  horner : K
  oneNorm : K
  /-- the Horner values written into the last row so far (columns `0 ..`) -/
  hs : List K

/-- loop body for `col` (`1 ≤ col ≤ degree - 2`) -/
def luStep [LT K] [DecidableLT K] (value absOnePlus : K) (top : Nat → K) (st : LUState K) (col : Nat) :
    LUState K :=
  let curr := top col
  let h := value * st.horner + curr
  { horner := h, oneNorm := maxK st.oneNorm (absOnePlus + absK curr), hs := st.hs ++ [h] }

/-- the loop `for col in range(1, degree - 1)` after `m` iterations -/
def luLoop [LT K] [DecidableLT K] (value absOnePlus : K) (top : Nat → K) (st0 : LUState K) (m : Nat) :
    LUState K :=
  (List.range m).foldl (fun st i => luStep value absOnePlus top st (i + 1)) st0

/-- the entries written into `lu_mat` (`d ≥ 2`): ones on the diagonal, `-value` above it, the
    Horner values `hs` in the last row -/
def luMatrix (d : Nat) (value : K) (hs : List K) : List (List K) :=
  (List.range d).map (fun r => (List.range d).map (fun c =>
    if r = d - 1 then seq hs c
    else if r = c then (1 : K)
    else if r + 1 = c then -value
    else 0))

/-- `lu_companion(top_row, value)` : `(lu_mat, one_norm)` -/
def luCompanion [LT K] [DecidableLT K] (topRow : List K) (value : K) : Except Err (List (List K) × K) :=
  let d := topRow.length
  let top := seq topRow
  if d = 0 then .error .badInput          -- `top_row[0]`: IndexError
  else if d = 1 then
    let e := top 0 - value
    .ok ([[e]], absK e)
  else
    let h0 := top 0 - value
    let st := luLoop value (1 + absK value) top { horner := h0, oneNorm := 1 + absK h0, hs := [h0] } (d - 2)
    let curr := top (d - 1)
    let hLast := value * st.horner + curr
    .ok (luMatrix d value (st.hs ++ [hLast]), maxK st.oneNorm (absK value + absK curr))

/-! ## power basis of one Bernstein polynomial, Horner evaluation -/

/-- `poly_to_power_basis(bezier_coeffs)` -/
def polyToPowerBasis : List K → Except Err (List K)
  | [c0] => .ok [c0]
  | [c0, c1] => .ok [c0, c1 - c0]
  | [c0, c1, c2] => .ok [c0, nat 2 * (c1 - c0), c2 - nat 2 * c1 + c0]
  | [c0, c1, c2, c3] =>
    .ok [c0, nat 3 * (c1 - c0), nat 3 * (c2 - nat 2 * c1 + c0), c3 - nat 3 * c2 + nat 3 * c1 - c0]
  | _ => .error .unsupportedDegree

/-- `polynomial.polyval(x, coeffs)` (Horner from the leading coefficient) -/
def polyval (coeffs : List K) (x : K) : K := coeffs.foldr (fun c acc => c + acc * x) 0

/-! ## root filters -/

/-- `roots_in_unit_interval(coeffs)` after `polyroots`: real part in the widened interval, then
    imaginary part below the wiggle; returns the real parts -/
def unitIntervalFilter [LT K] [DecidableLT K] (par : Params K) (roots : List (K × K)) : List K :=
  let inside := roots.filter (fun z => decide (par.wiggleStart < z.1) && decide (z.1 < par.wiggleEnd))
  (inside.filter (fun z => decide (absK z.2 < par.imagWiggle))).map (fun z => z.1)

def rootsInUnitInterval [LT K] [DecidableLT K] (ext : Externals K) (par : Params K) (coeffs : List K) :
    List K :=
  unitIntervalFilter par (ext.polyroots coeffs)

/-! ## `_strip_leading_zeros`, `_check_non_simple` -/

/-- the `while np.abs(coeffs[-1]) < threshold` loop on the reversed list; an empty array makes
    `coeffs[-1]` raise `IndexError` (reported as `badInput`) -/
def stripRev [LT K] [DecidableLT K] (thr : K) : List K → Except Err (List K)
  | [] => .error .badInput
  | x :: rest => if absK x < thr then stripRev thr rest else .ok (x :: rest)

def stripLeadingZeros [LT K] [DecidableLT K] (thr : K) (coeffs : List K) : Except Err (List K) :=
  match stripRev thr coeffs.reverse with
  | .ok l => .ok l.reverse
  | .error e => .error e

/-- `polynomial.polyder(coeffs)`: `j * c_j`, `j = 1 ..` -/
def polyder (coeffs : List K) : List K :=
  (List.range (coeffs.length - 1)).map (fun i => nat (i + 1) * seq coeffs (i + 1))

/-- `polynomial.polycompanion(c).T` for `len(c) = m + 1 ≥ 2`: ones on the sub-diagonal, last
    column `0 - c_i / c_m`, transposed -/
def polyCompanionT (c : List K) : List (List K) :=
  let m := c.length - 1
  (List.range m).map (fun i => (List.range m).map (fun j =>
    -- entry (i, j) of the transpose = entry (j, i) of the companion
    if i + 1 = m then (if j = i + 1 then (1 : K) else 0) - seq c j / seq c m
    else if j = i + 1 then 1 else 0))

def addMat (a b : List (List K)) : List (List K) := List.zipWith addRow a b

/-- `evaluated` of `_check_non_simple`: Horner evaluation of the polynomial at the matrix -/
def polyAtMatrix (coeffs : List K) (comp : List (List K)) : List (List K) :=
  let m := comp.length
  let idm : List (List K) := identity m
  match coeffs.reverse with
  | [] => []
  | lead :: rest =>
    rest.foldl (fun ev coeff => addMat (matMul ev comp) (scaleMat coeff idm)) (scaleMat lead idm)

/-- `_check_non_simple(coeffs)`: `ok ()` = returns normally; `notImplemented` = raises -/
def checkNonSimple [LT K] [DecidableLT K] (ext : Externals K) (par : Params K) (coeffs : List K) :
    Except Err Unit :=
  match stripLeadingZeros par.coeffThr coeffs with
  | .error e => .error e
  | .ok cs =>
    if cs.length < 3 then .ok ()
    else
      let comp := polyCompanionT (polyder cs)
      let numCompanion := comp.length
      let evaluated := polyAtMatrix cs comp
      let rank :=
        if numCompanion = 1 then
          (if par.nonSimpleThr < absK (seq (evaluated.headD []) 0) then 1 else 0)
        else ext.rank evaluated
      if rank < numCompanion then .error .notImplemented else .ok ()

/-! ## refusal logic of `intersect_curves` / `all_intersections` -/

/-- `min` / `max` of a row (`np.min`, `np.max`) -/
def minRow [LT K] [DecidableLT K] (r : List K) : K := r.tail.foldl (fun m x => if x < m then x else m) (r.headD 0)
def maxRow [LT K] [DecidableLT K] (r : List K) : K := r.tail.foldl (fun m x => if m < x then x else m) (r.headD 0)

/-- `bbox_intersect(nodes1, nodes2) == DISJOINT` -/
def bboxDisjoint [LT K] [DecidableLT K] (nodes1 nodes2 : List (List K)) : Bool :=
  let x1 := nodes1.getD 0 []
  let y1 := nodes1.getD 1 []
  let x2 := nodes2.getD 0 []
  let y2 := nodes2.getD 1 []
  decide (maxRow x2 < minRow x1) || decide (maxRow x1 < minRow x2) ||
    decide (maxRow y2 < minRow y1) || decide (maxRow y1 < minRow y2)

/-- what `intersect_curves` has in hand when it starts root finding -/
structure Prepared (K : Type) where
  nodes1 : List (List K)
  nodes2 : List (List K)
  swapped : Bool
  coeffs : List K

/-- `intersect_curves` up to and including `_check_non_simple`: every way of refusing -/
def intersectCurvesPrepare [DecidableEq K] [LT K] [DecidableLT K] (ext : Externals K) (par : Params K)
    (nodesA nodesB : List (List K)) : Except Err (Prepared K) :=
  match fullReduce par.reduceThrSq nodesA with
  | .error e => .error e
  | .ok r1 =>
    match fullReduce par.reduceThrSq nodesB with
    | .error e => .error e
    | .ok r2 =>
      let swapped := decide (ncols r1 > ncols r2)
      let n1 := if swapped then r2 else r1
      let n2 := if swapped then r1 else r2
      match toPowerBasis ext par n1 n2 with
      | .error e => .error e
      | .ok raw =>
        let coeffs := normalizePolynomial par.l2ThrSq (ext.sqrt (polynomialNormSq raw)) raw
        if coeffs.all (fun x => decide (x = 0)) then .error .notImplemented    -- coincident
        else
          match checkNonSimple ext par coeffs with
          | .error e => .error e
          | .ok () => .ok { nodes1 := n1, nodes2 := n2, swapped := swapped, coeffs := coeffs }

/-- `all_intersections`: `none` = disjoint boxes (empty answer), otherwise the prepared state
    or the refusal of `intersect_curves` -/
def allIntersectionsGate [DecidableEq K] [LT K] [DecidableLT K] (ext : Externals K) (par : Params K)
    (nodesFirst nodesSecond : List (List K)) : Except Err (Option (Prepared K)) :=
  if bboxDisjoint nodesFirst nodesSecond then .ok none
  else
    match intersectCurvesPrepare ext par nodesFirst nodesSecond with
    | .error e => .error e
    | .ok p => .ok (some p)

/-! ## `locate_point` -/

/-- index of the first minimum (`np.argmin`) -/
def argminIdx [LT K] [DecidableLT K] : List K → Nat
  | [] => 0
  | x :: rest =>
    (rest.foldl (fun (st : Nat × K × Nat) y =>
      if y < st.2.1 then (st.2.2, y, st.2.2 + 1) else (st.1, st.2.1, st.2.2 + 1)) (0, x, 1)).1

/-- `locate_point(nodes, x_val, y_val)` -/
def locatePoint [DecidableEq K] [LT K] [DecidableLT K] (ext : Externals K) (par : Params K)
    (nodes : List (List K)) (x y : K) : Except Err (Option K) :=
  match fullReduce par.reduceThrSq [nodes.getD 0 []], fullReduce par.reduceThrSq [nodes.getD 1 []] with
  | .error e, _ => .error e
  | _, .error e => .error e
  | .ok r1, .ok r2 =>
    let z1 := (r1.headD []).map (fun v => v - x)
    let z2 := (r2.headD []).map (fun v => v - y)
    let (z1, z2) := if z1.length > z2.length then (z2, z1) else (z1, z2)
    let (z1, z2) := if z1.length = 1 then (z2, z1) else (z1, z2)
    match polyToPowerBasis z1 with
    | .error e => .error e
    | .ok pb1 =>
      let roots := rootsInUnitInterval ext par pb1
      if roots.length = 0 then .ok none
      else
        match polyToPowerBasis z2 with
        | .error e => .error e
        | .ok pb2raw =>
          let pb2 := normalizePolynomial par.l2ThrSq (ext.sqrt (polynomialNormSq pb2raw)) pb2raw
          let nearZero := roots.map (fun r => absK (polyval pb2 r))
          let index := argminIdx nearZero
          if seq nearZero index < par.zeroThr then .ok (some (seq roots index)) else .ok none

end BezierVerif.Model.Alg
