import BezierVerif.Model.Basic
import BezierVerif.Model.Curve
import BezierVerif.Model.Solve2x2
import BezierVerif.Model.Helpers
import BezierVerif.Model.Algebraic

/-!
# Model/AlgebraicAssembly — the final assembly of the algebraic strategy (pure Python)

`Model/Algebraic.lean` stops at `intersectCurvesPrepare` (`intersect_curves` up to and including
`_check_non_simple`) and `allIntersectionsGate`.  This file transcribes the rest of
`hazmat/algebraic_intersection.py`:

* `intersection_helpers.newton_refine(s, nodes1, t, nodes2)` (one Newton step of `B₁(s) − B₂(t)`, called by
  `_resolve_and_add` through the shim `_intersection_helpers`) — `newtonRefineCurves`;
* `_resolve_and_add` — `resolveAndAdd` (Newton polish, `wiggle_interval` on both parameters, append to the two
  running lists `final_s`, `final_t`);
* the loop `for t_val in t_vals:` of `intersect_curves` with its two accumulators — `intersectLoop`
  (evaluate `B₂(t)`, `locate_point` on curve 1, `_resolve_and_add`);
* `intersect_curves` — `algIntersectCurves` (`roots_in_unit_interval(coeffs)`, the loop, the swap back);
* `all_intersections` — `algAllIntersections` (bounding-box gate, the constant flag `False`).

`wiggle` is the default argument `0.5 ** 44` of `helpers.wiggle_interval` (extracted constant, a parameter
here).  Curves are planar (`(x_val,), (y_val,) = evaluate_multi(...)`: rows `0`, `1`, as in
`evalIntersectionPolynomial`).  The oracle used for the `t`-roots and inside `locate_point` is
`Externals.polyroots` (`numpy.polynomial.polynomial.polyroots`, i.e. `eigvals` of numpy's own companion matrix).

`locatePolys` exposes the two polynomials `locate_point` works with (`Lemmas/AlgebraicSound` proves that
`locatePoint` factors through it); the driver uses it to name the oracle queries.
-/

namespace BezierVerif.Model.Alg

variable {K : Type} [Add K] [Sub K] [Mul K] [Div K] [Neg K] [OfNat K 0] [OfNat K 1] [NatCast K]
  [DecidableEq K] [LT K] [DecidableLT K] [LE K] [DecidableLE K]

/-- `intersection_helpers.newton_refine(s, nodes1, t, nodes2)`: `func_val = B₂(t) − B₁(s)`; when it is exactly
    zero the pair is returned unchanged; otherwise the 2×2 system `[B₁'(s), −B₂'(t)] (Δs, Δt) = func_val` is
    solved with `solve2x2`; `valueError` = `ValueError("Jacobian is singular.")` -/
def newtonRefineCurves (thr : Nat) (s : K) (nodes1 : List (List K)) (t : K) (nodes2 : List (List K)) :
    Except Err (K × K) :=
  let funcVal := subRow (evalPoint thr nodes2 t) (evalPoint thr nodes1 s)
  if funcVal.all (fun v => decide (v = 0)) then .ok (s, t)
  else
    let h1 := hodograph thr nodes1 s
    let h2 := hodograph thr nodes2 t
    match solve2x2 (seq h1 0) (-(seq h2 0)) (seq h1 1) (-(seq h2 1)) (seq funcVal 0) (seq funcVal 1) with
    | none => .error .valueError
    | some (ds, dt) => .ok (s + ds, t + dt)

/-- `_resolve_and_add(nodes1, s_val, final_s, nodes2, t_val, final_t)`: returns the two lists after the call
    (unchanged when one of the two `wiggle_interval` calls fails) -/
def resolveAndAdd (thr : Nat) (wiggle : K) (nodes1 : List (List K)) (s : K) (finalS : List K)
    (nodes2 : List (List K)) (t : K) (finalT : List K) : Except Err (List K × List K) :=
  match newtonRefineCurves thr s nodes1 t nodes2 with
  | .error e => .error e
  | .ok (s', t') =>
    match wiggleInterval wiggle s', wiggleInterval wiggle t' with
    | some s'', some t'' => .ok (finalS ++ [s''], finalT ++ [t''])
    | _, _ => .ok (finalS, finalT)

/-- the loop `for t_val in t_vals:` of `intersect_curves`; the accumulator is `(final_s, final_t)` -/
def intersectLoop (ext : Externals K) (par : Params K) (wiggle : K) (nodes1 nodes2 : List (List K)) :
    List K → List K × List K → Except Err (List K × List K)
  | [], acc => .ok acc
  | t :: rest, acc =>
    let p := evalPoint par.vsThr nodes2 t
    match locatePoint ext par nodes1 (seq p 0) (seq p 1) with
    | .error e => .error e
    | .ok none => intersectLoop ext par wiggle nodes1 nodes2 rest acc
    | .ok (some s) =>
      match resolveAndAdd par.vsThr wiggle nodes1 s acc.1 nodes2 t acc.2 with
      | .error e => .error e
      | .ok acc' => intersectLoop ext par wiggle nodes1 nodes2 rest acc'

/-- `intersect_curves(nodes1, nodes2)`: the two rows of the `2 × N` result -/
def algIntersectCurves (ext : Externals K) (par : Params K) (wiggle : K) (nodesA nodesB : List (List K)) :
    Except Err (List K × List K) :=
  match intersectCurvesPrepare ext par nodesA nodesB with
  | .error e => .error e
  | .ok p =>
    let tVals := rootsInUnitInterval ext par p.coeffs
    match intersectLoop ext par wiggle p.nodes1 p.nodes2 tVals ([], []) with
    | .error e => .error e
    | .ok (finalS, finalT) => if p.swapped then .ok (finalT, finalS) else .ok (finalS, finalT)

/-- `all_intersections(nodes_first, nodes_second)`: `(rows of the 2 × N array, coincident flag)` -/
def algAllIntersections (ext : Externals K) (par : Params K) (wiggle : K) (nodesFirst nodesSecond : List (List K)) :
    Except Err ((List K × List K) × Bool) :=
  if bboxDisjoint nodesFirst nodesSecond then .ok (([], []), false)
  else
    match algIntersectCurves ext par wiggle nodesFirst nodesSecond with
    | .error e => .error e
    | .ok r => .ok (r, false)

/-- the two coefficient rows `locate_point` works with, after `full_reduce` of each coordinate row, the
    subtraction of the point and the two swaps: `(power_basis1, zero2[0, :])` -/
def locatePolys (par : Params K) (nodes : List (List K)) (x y : K) : Except Err (List K × List K) :=
  match fullReduce par.reduceThrSq [nodes.getD 0 []], fullReduce par.reduceThrSq [nodes.getD 1 []] with
  | .error e, _ => .error e
  | _, .error e => .error e
  | .ok r1, .ok r2 =>
    let z1 := (r1.headD []).map (fun v => v - x)
    let z2 := (r2.headD []).map (fun v => v - y)
    let (z1, z2) := if z1.length > z2.length then (z2, z1) else (z1, z2)
    let (z1, z2) := if z1.length = 1 then (z2, z1) else (z1, z2)
    match polyToPowerBasis z1 with
    | .error e => .error e
    | .ok pb1 => .ok (pb1, z2)

/-- `locate_point` after the two rows are fixed -/
def locateFinish (ext : Externals K) (par : Params K) (pb1 z2 : List K) : Except Err (Option K) :=
  let roots := rootsInUnitInterval ext par pb1
  if roots.length = 0 then .ok none
  else
    match polyToPowerBasis z2 with
    | .error e => .error e
    | .ok pb2raw =>
      let pb2 := normalizePolynomial par.l2ThrSq (ext.sqrt (polynomialNormSq pb2raw)) pb2raw
      let nearZero := roots.map (fun r => absK (polyval pb2 r))
      let index := argminIdx nearZero
      if seq nearZero index < par.zeroThr then .ok (some (seq roots index)) else .ok none

end BezierVerif.Model.Alg
