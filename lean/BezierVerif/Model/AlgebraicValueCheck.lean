import BezierVerif.Model.Algebraic

/-!
# Model/AlgebraicValueCheck — `bezier_value_check` and `_reciprocal_condition_number` of `hazmat/algebraic_intersection.py`

Added with the phase-4 source translation (the two routines were not modelled before): "is `s` a root of `f − rhs`?" decided by
the reciprocal 1-norm condition number of the LU-factored `C_g − σ I` (`luCompanion`), `σ = s / (1 − s)`.
LAPACK's `dgecon` (`scipy.linalg.lapack.dgecon(lu_mat, one_norm) = (rcond, info)`) is external: a parameter.
`singularEps` is the module constant `_SINGULAR_EPS = 0.5 ** 52`.
-/

namespace BezierVerif.Model.Alg

variable {K : Type} [Add K] [Sub K] [Mul K] [Div K] [Neg K] [OfNat K 0] [OfNat K 1] [NatCast K]

/-- `_reciprocal_condition_number(lu_mat, one_norm)`: `info != 0` raises `RuntimeError` -/
def reciprocalConditionNumber (dgecon : List (List K) → K → K × Int) (lu : List (List K)) (oneNorm : K) :
    Except Err K :=
  let r := dgecon lu oneNorm
  if r.2 ≠ 0 then .error .runtimeError else .ok r.1

/-- `bezier_value_check(coeffs, s_val, rhs_val)`; `badInput` = the `IndexError` of `coeffs[-1]` / `shifted_coeffs[0]` on an
    empty array (and the unreachable `None[::-1]`) -/
def bezierValueCheck [DecidableEq K] [LT K] [DecidableLT K] (dgecon : List (List K) → K → K × Int) (singularEps : K)
    (coeffs : List K) (s rhs : K) : Except Err Bool :=
  if s = 1 then
    match coeffs.getLast? with
    | none => .error .badInput
    | some c => .ok (decide (c = rhs))
  else
    let shifted := coeffs.map (fun x => x - rhs)
    let r := getSigmaCoeffs shifted
    if r.2.2 = 0 then
      match shifted with
      | [] => .error .badInput
      | c0 :: _ => .ok (decide (c0 = 0))
    else
      match r.1 with
      | none => .error .badInput
      | some sc =>
        match luCompanion (sc.reverse.map (fun x => -x)) (s / (1 - s)) with
        | .error e => .error e
        | .ok (lu, oneNorm) =>
          match reciprocalConditionNumber dgecon lu oneNorm with
          | .error e => .error e
          | .ok rcond => .ok (decide (rcond < nat r.2.2 * singularEps))

end BezierVerif.Model.Alg
