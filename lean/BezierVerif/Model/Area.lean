import BezierVerif.Model.Basic
import BezierVerif.Model.Curve

/-!
# Model/Area — `shoelace_for_area` / `compute_area` (triangle_helpers.py, triangle.f90)

The shoelace weights are the model's data (`shoelaceTable`); `Props/C12` proves that with exactly
these weights the sum equals the Green-theorem boundary integral for every control net, and
`Tables/C12` proves that the tables extracted from the Python and the Fortran source equal them.
-/

namespace BezierVerif.Model

variable {K : Type} [Add K] [Sub K] [Mul K] [Div K] [Neg K] [OfNat K 0] [OfNat K 1] [NatCast K]

/-- `(multiplier, index1, index2)` triples and the scale factor, by number of nodes -/
def shoelaceTable : Nat → Option (List (Nat × Nat × Nat) × Nat)
  | 2 => some ([(1, 0, 1)], 2)
  | 3 => some ([(2, 0, 1), (1, 0, 2), (2, 1, 2)], 6)
  | 4 => some ([(6, 0, 1), (3, 0, 2), (1, 0, 3), (3, 1, 2), (3, 1, 3), (6, 2, 3)], 20)
  | 5 => some ([(20, 0, 1), (10, 0, 2), (4, 0, 3), (1, 0, 4), (8, 1, 2), (8, 1, 3), (4, 1, 4),
               (8, 2, 3), (10, 2, 4), (20, 3, 4)], 70)
  | _ => none

/-- `shoelace_for_area` for one edge given by its two coordinate rows -/
def shoelace (xs ys : List K) : Except Err K :=
  match shoelaceTable xs.length with
  | none => .error .unsupportedDegree
  | some (tab, scale) =>
    let x := seq xs
    let y := seq ys
    let total := tab.foldl (fun acc (t : Nat × Nat × Nat) =>
      acc + ((t.1 : Nat) : K) * (x t.2.1 * y t.2.2 - y t.2.1 * x t.2.2)) 0
    .ok (total / ((scale : Nat) : K))

/-- `compute_area`: sum over the edges (each edge = `[xs, ys]`) -/
def computeArea (edges : List (List (List K))) : Except Err K :=
  edges.foldl (fun acc e =>
    match acc with
    | .error err => .error err
    | .ok a =>
      match shoelace (e.getD 0 []) (e.getD 1 []) with
      | .error err => .error err
      | .ok s => .ok (a + s)) (.ok 0)

/-! ## length: everything except the external quadrature -/

/-- squared integrand of `compute_length`: `vec_size(first_deriv, s)² = Σ_r B_r'(s)²` -/
def lengthIntegrandSq (thr : Nat) (nodes : List (List K)) (s : K) : K :=
  (hodograph thr nodes s).foldl (fun acc d => acc + d * d) 0

/-- the closed-form branches of `compute_length`: no nodes → error, one node → 0 (as square),
    two nodes → squared length `‖v₁ − v₀‖²`; more nodes → `none` (delegated to the quadrature of
    `sqrt ∘ lengthIntegrandSq`) -/
def lengthClosedFormSq (nodes : List (List K)) : Except Err (Option K) :=
  match ncols nodes with
  | 0 => .error .valueError
  | 1 => .ok (some 0)
  | 2 => .ok (some (nodes.foldl (fun acc r => acc + (seq r 1 - seq r 0) * (seq r 1 - seq r 0)) 0))
  | _ => .ok none

end BezierVerif.Model
