/-!
# Model/Basic — shared list / matrix helpers of the executable model

No Mathlib.  Everything is polymorphic in the number type `K`; only notation classes are
assumed so that the same definitions run at `K := Rat` (driver), are reasoned about at any field
(theorems) and at `K := Float` (bit-level witnesses).

Representation: a `dimension × N` array of the library (Fortran order) is a `List (List K)` of
*rows* (one list of `N` entries per coordinate).  Every routine of the library treats the rows
independently with the same scalars, so the model defines the one-row function and maps it.
-/

namespace BezierVerif.Model

universe u
variable {K : Type} [Add K] [Sub K] [Mul K] [Div K] [Neg K] [OfNat K 0] [OfNat K 1] [NatCast K]

/-- `f` applied `n` times -/
def iter {α : Type} (f : α → α) : Nat → α → α
  | 0, a => a
  | n+1, a => iter f n (f a)

/-- the sequence read off a list; only ever used below the length -/
def seq (l : List K) : Nat → K := fun j => l.getD j 0

/-- `Σ_{i<n} f i`, left to right starting from `0` (the order of a plain `do` loop) -/
def sumTo (n : Nat) (f : Nat → K) : K :=
  (List.range n).foldl (fun acc i => acc + f i) 0

/-- dot product of two lists, left to right -/
def dot (x y : List K) : K :=
  (List.zipWith (· * ·) x y).foldl (· + ·) 0

/-- column `c` of a matrix given as list of rows -/
def col (m : List (List K)) (c : Nat) : List K := m.map (fun r => r.getD c 0)

/-- number of columns (length of the first row) -/
def ncols (m : List (List K)) : Nat := (m.headD []).length

/-- transpose of a rectangular matrix given as list of rows -/
def transpose (m : List (List K)) : List (List K) :=
  (List.range (ncols m)).map (col m)

/-- `row · M` where `M` (list of rows, `N × P`) acts on the right: result has `P` entries -/
def rowMul (row : List K) (m : List (List K)) : List K :=
  (List.range (ncols m)).map (fun c => dot row (col m c))

/-- `nodes · M`, rows independently (this is `matrix_product(nodes, M)`) -/
def matMul (nodes : List (List K)) (m : List (List K)) : List (List K) :=
  nodes.map (fun r => rowMul r m)

/-- unit vector `e_i` of length `n` -/
def unitVec (n i : Nat) : List K := (List.range n).map (fun t => if t = i then 1 else 0)

/-- the identity matrix -/
def identity (n : Nat) : List (List K) := (List.range n).map (fun i => unitVec n i)

/-- entrywise scaling -/
def scaleRow (c : K) (r : List K) : List K := r.map (fun x => c * x)

/-- entrywise division (`result /= denom`) -/
def divRow (r : List K) (c : K) : List K := r.map (fun x => x / c)

def addRow (x y : List K) : List K := List.zipWith (· + ·) x y
def subRow (x y : List K) : List K := List.zipWith (· - ·) x y

/-- forward differences `v_{j+1} - v_j` (`nodes[:, 1:] - nodes[:, :-1]`) -/
def diffs : List K → List K
  | x :: y :: rest => (y - x) :: diffs (y :: rest)
  | _ => []

/-- errors of the library, as a small enum (never a default value) -/
inductive Err where
  | unsupportedDegree | notImplemented | valueError | runtimeError | recursion | badInput
  deriving Repr, DecidableEq, Inhabited

def Err.toString : Err → String
  | .unsupportedDegree => "unsupportedDegree"
  | .notImplemented => "notImplemented"
  | .valueError => "valueError"
  | .runtimeError => "runtimeError"
  | .recursion => "recursion"
  | .badInput => "badInput"

end BezierVerif.Model
