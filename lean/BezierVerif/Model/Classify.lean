import BezierVerif.Model.Basic
import BezierVerif.Model.Curve

/-!
# Model/Classify — decision functions of the triangle-triangle intersection

Transcription of the *decision* routines of `hazmat/triangle_helpers.py` / `hazmat/triangle_intersection.py`
(and their Fortran twins in `triangle_intersection.f90`): `handle_ends`, `classify_coincident`,
`should_use` (`should_keep`), `ignored_edge_corner`, `ignored_double_corner`, `ignored_corner`,
`classify_tangent_intersection`, `classify_intersection`, `to_front`, `ends_to_curve`,
`verify_edge_segments`, `bbox` / `bbox_intersect` and the bounding-box gate of `generic_intersect`.
The boundary walk itself (`get_next*`, `basic_interior_combine`) is NOT modelled here.

Conventions
* parameters and indices of an `Intersection` are `Option`s because the walk creates artificial nodes
  with `None` fields;
* tangent vectors are lists `[x, y]`; the decision functions take the tangents as inputs, the
  wrapper `classifyIntersection` computes them with `Model.hodograph` (= `evaluate_hodograph`);
* curvature `κ = (T × C) / ‖T‖³` enters through the pair `(c, n) = (T × C, ‖T‖²)` of
  `Model.curvatureParts`; comparisons of curvatures are made in squared form (`c₁² n₂³` vs `c₂² n₁³`);
* Python `(i - 1) % 3` on `i ∈ {0,1,2}` is `(i + 2) % 3`.
-/

namespace BezierVerif.Model.Classify

open BezierVerif.Model

variable {K : Type} [Add K] [Sub K] [Mul K] [Div K] [Neg K] [OfNat K 0] [OfNat K 1] [NatCast K]
  [LT K] [DecidableLT K] [LE K] [DecidableLE K] [DecidableEq K]

/-- `IntersectionClassification` -/
inductive Cls where
  | first | second | opposed | tangentFirst | tangentSecond | ignoredCorner | tangentBoth
  | coincident | coincidentUnused
  deriving DecidableEq, Repr, Inhabited

/-- the enum values of the library -/
def Cls.code : Cls → Nat
  | .first => 0 | .second => 1 | .opposed => 2 | .tangentFirst => 3 | .tangentSecond => 4
  | .ignoredCorner => 5 | .tangentBoth => 6 | .coincident => 7 | .coincidentUnused => 8

def Cls.ofCode : Nat → Option Cls
  | 0 => some .first | 1 => some .second | 2 => some .opposed | 3 => some .tangentFirst
  | 4 => some .tangentSecond | 5 => some .ignoredCorner | 6 => some .tangentBoth
  | 7 => some .coincident | 8 => some .coincidentUnused | _ => none

/-- `ALMOST_TANGENT = 0.5 ** 50` -/
def almostTangent : K := q 1 1125899906842624

/-- the `Intersection` record (`__slots__ = index_first, s, index_second, t, interior_curve`) -/
structure Intersection (K : Type) where
  indexFirst : Option Nat
  s : Option K
  indexSecond : Option Nat
  t : Option K
  interior : Option Cls
  deriving Repr

instance [DecidableEq K] : DecidableEq (Intersection K) := by
  intro a b
  cases a; cases b
  simp only [Intersection.mk.injEq]
  infer_instance

/-! ## `handle_ends` -/

/-- `handle_ends(index1, s, index2, t)` → `(edge_end, is_corner, (index1, s, index2, t))`;
    both parameters may be rotated (the code's "this is not a typo") -/
def handleEnds (index1 : Nat) (s : K) (index2 : Nat) (t : K) : Bool × Bool × (Nat × K × Nat × K) :=
  let edgeEnd := false
  let (s, index1, edgeEnd) := if s = 1 then ((0 : K), (index1 + 1) % 3, true) else (s, index1, edgeEnd)
  let (t, index2, edgeEnd) := if t = 1 then ((0 : K), (index2 + 1) % 3, true) else (t, index2, edgeEnd)
  let isCorner := decide (s = 0) || decide (t = 0)
  (edgeEnd, isCorner, (index1, s, index2, t))

/-! ## `classify_coincident`, `should_use` -/

/-- `classify_coincident(st_vals, coincident)`; `st` = the two rows `[s-values, t-values]` -/
def classifyCoincident (st : List (List K)) (coincident : Bool) : Option Cls :=
  if !coincident then none
  else
    let s0 := seq (st.getD 0 []) 0
    let s1 := seq (st.getD 0 []) 1
    let t0 := seq (st.getD 1 []) 0
    let t1 := seq (st.getD 1 []) 1
    if s1 ≤ s0 ∨ t1 ≤ t0 then some .coincidentUnused else some .coincident

/-- `should_use(intersection)` (Fortran: `should_keep`) -/
def shouldUse (x : Intersection K) : Bool :=
  match x.interior with
  | some .first | some .second | some .coincident => true
  | some .tangentFirst | some .tangentSecond => decide (x.s = some 0) || decide (x.t = some 0)
  | _ => false

/-! ## corners -/

/-- `vec *= -1.0` -/
def negVec (v : List K) : List K := v.map (fun x => x * (-1))

/-- `ignored_edge_corner(edge_tangent, corner_tangent, corner_previous_edge)`;
    `prevIn = evaluate_hodograph(1.0, corner_previous_edge)` (the tangent arriving at the corner) -/
def ignoredEdgeCorner (edgeTangent cornerTangent prevIn : List K) : Bool :=
  let crossProd := cross2 edgeTangent cornerTangent
  if crossProd > 0 then false
  else
    let altCornerTangent := negVec prevIn
    let crossProd := cross2 edgeTangent altCornerTangent
    decide (crossProd ≤ 0)

/-- `ignored_double_corner`; `altS = evaluate_hodograph(1.0, previous edge of the s triangle)`,
    `prevInT = evaluate_hodograph(1.0, previous edge of the t triangle)` -/
def ignoredDoubleCorner (tangentS tangentT altS prevInT : List K) : Bool :=
  let crossProd1 := cross2 tangentS tangentT
  if 0 ≤ crossProd1 ∧ 0 ≤ cross2 altS tangentT then false
  else
    let altTangentT := negVec prevInT
    let crossProd3 := cross2 tangentS altTangentT
    if 0 ≤ crossProd3 ∧ 0 ≤ cross2 altS altTangentT then false
    else decide (crossProd1 > 0) || decide (crossProd3 < 0)

/-- `ignored_corner(intersection, tangent_s, tangent_t, edge_nodes1, edge_nodes2)` with the two arriving
    tangents `prevIn1`, `prevIn2` (at the end of edge `(index - 1) % 3` of either triangle) as inputs -/
def ignoredCorner (s t : K) (tangentS tangentT prevIn1 prevIn2 : List K) : Bool :=
  if s = 0 then
    if t = 0 then ignoredDoubleCorner tangentS tangentT prevIn1 prevIn2
    else ignoredEdgeCorner tangentT tangentS prevIn1
  else if t = 0 then ignoredEdgeCorner tangentS tangentT prevIn2
  else false

/-! ## tangent intersections -/

/-- `np.sign` -/
def sgn (x : K) : Int := if x > 0 then 1 else if x < 0 then -1 else 0

/-- sign of `|κ₁| − |κ₂|` for `κᵢ = cᵢ / nᵢ^{3/2}`, `nᵢ > 0`: compare `c₁² n₂³` with `c₂² n₁³` -/
def absCurvCmp (c1 n1 c2 n2 : K) : Int :=
  let a := c1 * c1 * (n2 * n2 * n2)
  let b := c2 * c2 * (n1 * n1 * n1)
  if a > b then 1 else if a < b then -1 else 0

/-- sign of `κ₁ − κ₂` -/
def curvCmp (c1 n1 c2 n2 : K) : Int :=
  let s1 := sgn c1
  let s2 := sgn c2
  if s1 ≠ s2 then (if s1 > s2 then 1 else -1)
  else if s1 = 1 then absCurvCmp c1 n1 c2 n2
  else if s1 = -1 then - absCurvCmp c1 n1 c2 n2
  else 0

/-- `classify_tangent_intersection`: `dotProd = <T₁, T₂>`, curvatures through `(cᵢ, nᵢ)`.
    `nᵢ ≤ 0` (a vanishing tangent: the library divides by zero) is outside the modelled domain. -/
def classifyTangent (dotProd c1 n1 c2 n2 : K) : Except Err Cls :=
  if ¬ (n1 > 0 ∧ n2 > 0) then .error .badInput
  else if dotProd < 0 then
    let sign1 := sgn c1
    let sign2 := sgn c2
    if sign1 = sign2 then
      if sign1 = 1 then .ok .opposed else .ok .tangentBoth
    else
      let deltaC := absCurvCmp c1 n1 c2 n2
      if deltaC = 0 then .error .notImplemented
      else if sign1 = deltaC then .ok .opposed
      else .ok .tangentBoth
  else
    let c := curvCmp c1 n1 c2 n2
    if c = 1 then .ok .tangentFirst
    else if c = -1 then .ok .tangentSecond
    else .error .notImplemented

/-! ## `classify_intersection` -/

/-- the decision part of `classify_intersection`, all vectors given:
    `tangent1 = B₁'(s)`, `tangent2 = B₂'(t)`, `prevIn1/2` the tangents arriving at the start corner of the
    two edges, `(c1, n1)`, `(c2, n2)` the curvature parts at the intersection -/
def classifyWithTangents (s t : K) (tangent1 tangent2 prevIn1 prevIn2 : List K) (c1 n1 c2 n2 : K) :
    Except Err Cls :=
  if s = 1 ∨ t = 1 then .error .valueError
  else if ignoredCorner s t tangent1 tangent2 prevIn1 prevIn2 then .ok .ignoredCorner
  else
    let crossProd := cross2 tangent1 tangent2
    if crossProd < -almostTangent then .ok .first
    else if crossProd > almostTangent then .ok .second
    else classifyTangent (dot tangent1 tangent2) c1 n1 c2 n2

/-- `classify_intersection(intersection, edge_nodes1, edge_nodes2)`; `thr` is the switch of
    `evaluate_multi_barycentric` -/
def classifyIntersection (thr : Nat) (index1 : Nat) (s : K) (index2 : Nat) (t : K)
    (edges1 edges2 : List (List (List K))) : Except Err Cls :=
  let nodes1 := edges1.getD index1 []
  let tangent1 := hodograph thr nodes1 s
  let nodes2 := edges2.getD index2 []
  let tangent2 := hodograph thr nodes2 t
  let prevIn1 := hodograph thr (edges1.getD ((index1 + 2) % 3) []) 1
  let prevIn2 := hodograph thr (edges2.getD ((index2 + 2) % 3) []) 1
  let p1 := curvatureParts thr nodes1 tangent1 s
  let p2 := curvatureParts thr nodes2 tangent2 t
  classifyWithTangents s t tangent1 tangent2 prevIn1 prevIn2 p1.1 p1.2 p2.1 p2.2

/-! ## `to_front`, `ends_to_curve` -/

/-- first position `i` with `p (l[i])` -/
def findIdx? {α : Type} (p : α → Bool) : List α → Option Nat
  | [] => none
  | a :: rest => if p a then some 0 else (findIdx? p rest).map (· + 1)

/-- result of `to_front`: an existing intersection (position in `intersections`, removed from `unused`),
    or a node that is not in the list (the input itself or a new artificial node) -/
inductive Node (K : Type) where
  | existing (i : Nat)
  | other (x : Intersection K)

/-- `to_front(intersection, intersections, unused)`; `unused` = positions (in `intersections`) not yet
    used.  Returns the node and the updated `unused`. -/
def toFront (x : Intersection K) (intersections : List (Intersection K)) (unused : List Nat) :
    Node K × List Nat :=
  if x.s = some 1 then
    let nextIndex := ((x.indexFirst.getD 0) + 1) % 3
    match findIdx? (fun o => decide (o.s = some 0) && decide (o.indexFirst = some nextIndex)) intersections with
    | some i => (.existing i, unused.erase i)
    | none => (.other { indexFirst := some nextIndex, s := some 0, indexSecond := none, t := none,
                        interior := some .first }, unused)
  else if x.t = some 1 then
    let nextIndex := ((x.indexSecond.getD 0) + 1) % 3
    match findIdx? (fun o => decide (o.t = some 0) && decide (o.indexSecond = some nextIndex)) intersections with
    | some i => (.existing i, unused.erase i)
    | none => (.other { indexFirst := none, s := none, indexSecond := some nextIndex, t := some 0,
                        interior := some .second }, unused)
  else (.other x, unused)

def isFirst (c : Option Cls) : Bool := c = some .first || c = some .tangentFirst
def isSecond (c : Option Cls) : Bool := c = some .second || c = some .tangentSecond

/-- one boundary segment `(edge index 0..5, start, end)` -/
abbrev Segment (K : Type) := Nat × K × K

/-- `ends_to_curve(start_node, end_node)`.  A `None` where the code reads a number (never produced by the
    walk) is outside the modelled domain (`badInput`). -/
def endsToCurve (a b : Intersection K) : Except Err (Segment K) :=
  if isFirst a.interior then
    if b.indexFirst ≠ a.indexFirst then .error .valueError
    else match a.indexFirst, a.s, b.s with
      | some i, some s0, some s1 => .ok (i, s0, s1)
      | _, _, _ => .error .badInput
  else if isSecond a.interior then
    if b.indexSecond ≠ a.indexSecond then .error .valueError
    else match a.indexSecond, a.t, b.t with
      | some i, some t0, some t1 => .ok (i + 3, t0, t1)
      | _, _, _ => .error .badInput
  else if a.interior = some .coincident then
    if b.indexFirst = a.indexFirst then
      match a.indexFirst, a.s, b.s with
      | some i, some s0, some s1 => .ok (i, s0, s1)
      | _, _, _ => .error .badInput
    else if b.indexSecond = a.indexSecond then
      match a.indexSecond, a.t, b.t with
      | some i, some t0, some t1 => .ok (i + 3, t0, t1)
      | _, _, _ => .error .badInput
    else .error .valueError
  else .error .valueError

/-! ## `verify_edge_segments` -/

/-- the check of one `(edge_info[index], edge_info[index + 1])` pair -/
def verifyPair (cur nxt : Segment K) : Except Err Unit :=
  if ¬ (0 ≤ cur.2.1 ∧ cur.2.1 < cur.2.2 ∧ cur.2.2 ≤ 1) then .error .valueError
  else if cur.1 = nxt.1 then .error .valueError
  else .ok ()

/-- one `edge_info`: `for index in range(-1, num_segments - 1)`; position `k = index + 1`, the current
    segment is `edge_info[index]` (Python: `-1` is the last one) -/
def verifyEdgeInfo (info : List (Segment K)) : Except Err Unit :=
  let n := info.length
  (List.range n).forM (fun k =>
    verifyPair (info.getD ((k + n - 1) % n) (0, 0, 0)) (info.getD k (0, 0, 0)))

/-- `verify_edge_segments(edge_infos)` -/
def verifyEdgeSegments (infos : Option (List (List (Segment K)))) : Except Err Unit :=
  match infos with
  | none => .ok ()
  | some l => l.forM verifyEdgeInfo

/-! ## bounding-box gate of `generic_intersect` -/

def minRow (r : List K) : K := r.tail.foldl (fun m x => if x < m then x else m) (r.headD 0)
def maxRow (r : List K) : K := r.tail.foldl (fun m x => if m < x then x else m) (r.headD 0)

/-- `BoxIntersectionType` -/
inductive BoxType where
  | intersection | tangent | disjoint
  deriving DecidableEq, Repr

def BoxType.code : BoxType → Nat
  | .intersection => 0 | .tangent => 1 | .disjoint => 2

/-- `bbox_intersect(nodes1, nodes2)` on `2 × N` arrays (rows x, y) -/
def bboxIntersect (nodes1 nodes2 : List (List K)) : BoxType :=
  let left1 := minRow (nodes1.getD 0 []); let right1 := maxRow (nodes1.getD 0 [])
  let bottom1 := minRow (nodes1.getD 1 []); let top1 := maxRow (nodes1.getD 1 [])
  let left2 := minRow (nodes2.getD 0 []); let right2 := maxRow (nodes2.getD 0 [])
  let bottom2 := minRow (nodes2.getD 1 []); let top2 := maxRow (nodes2.getD 1 [])
  if right2 < left1 ∨ right1 < left2 ∨ top2 < bottom1 ∨ top1 < bottom2 then .disjoint
  else if right2 = left1 ∨ right1 = left2 ∨ top2 = bottom1 ∨ top1 = bottom2 then .tangent
  else .intersection

/-- result shape of `generic_intersect`: `(edge_infos, contained)` -/
abbrev Outcome (K : Type) := Option (List (List (Segment K))) × Option Bool

/-- `generic_intersect`: the bounding-box gate in front of the (abstract) edge-pair loop + boundary walk -/
def genericIntersect (nodes1 nodes2 : List (List K)) (walk : Unit → Except Err (Outcome K)) :
    Except Err (Outcome K) :=
  if bboxIntersect nodes1 nodes2 ≠ .intersection then .ok (some [], none)
  else walk ()

end BezierVerif.Model.Classify
