import BezierVerif.Model.Classify
import BezierVerif.Model.Solve2x2

/-!
# Model/ClassifyF90 — the Fortran variants of the decision routines of `triangle_intersection.f90`

`Model/Classify.lean` transcribes the PYTHON decision routines (`np.sign`, curvature in squared form).  The Fortran twins
differ in two places, found when the source was translated (`Tables/SrcF90Classify.lean`):

* `classify_tangent_intersection` takes the sign of a curvature with `sign(1.0_dp, x)`, which has TWO values (`+1` for
  `x >= 0`, `-1` for `x < 0`), Python uses `np.sign` with three values.  With a vanishing curvature (`κ₁ = 0 < κ₂`,
  opposite tangents) Fortran answers `OPPOSED`, Python `TANGENT_BOTH` (`fortran_python_differ_at_zero_curvature`).
* the Fortran routine works on the curvature VALUES `κ = (T × C) / ‖T‖³` returned by `get_curvature`; the model
  compares `c² n³` (`Classify.absCurvCmp`).

`F90.classifyTangentK` is the Fortran routine on curvature values, statement by statement; `Tables/SrcF90Classify.lean`
proves the generated definition equal to it for every `K`, and `Lemmas`-style bridge theorems there relate it to
`Classify.classifyTangent` over an ordered field for non-vanishing curvatures.
-/

namespace BezierVerif.Model.Classify.F90

open BezierVerif.Model BezierVerif.Model.Classify

variable {K : Type} [Add K] [Sub K] [Mul K] [Div K] [Neg K] [OfNat K 0] [OfNat K 1] [NatCast K]
  [LT K] [DecidableLT K] [LE K] [DecidableLE K] [DecidableEq K]

/-- Fortran `sign(a, b)`: `|a|` if `b >= 0`, `-|a|` if `b < 0` -/
def fsign (a b : K) : K := if b < 0 then -absK a else absK a

/-- `classify_tangent_intersection` (Fortran) on the curvature values `k1`, `k2`:
    `Status_SAME_CURVATURE` is `notImplemented` (the exception the wrapper raises) -/
def classifyTangentK (dotProd k1 k2 : K) : Except Err Cls :=
  if dotProd < 0 then
    let sign1 := fsign 1 k1
    let sign2 := fsign 1 k2
    if sign1 = sign2 then
      if sign1 = 1 then .ok .opposed else .ok .tangentBoth
    else
      let deltaC := absK k1 - absK k2
      if deltaC = 0 then .error .notImplemented
      else
        let sign2 := fsign 1 deltaC
        if sign1 = sign2 then .ok .opposed else .ok .tangentBoth
  else if k1 > k2 then .ok .tangentFirst
  else if k1 < k2 then .ok .tangentSecond
  else .error .notImplemented

/-- the decision part of the Fortran `classify_intersection`, all vectors and the two curvature values given
    (`Status_EDGE_END` is `valueError`) -/
def classifyWithTangentsK (s t : K) (tangent1 tangent2 prevIn1 prevIn2 : List K) (k1 k2 : K) : Except Err Cls :=
  if s = 1 ∨ t = 1 then .error .valueError
  else if ignoredCorner s t tangent1 tangent2 prevIn1 prevIn2 then .ok .ignoredCorner
  else
    let crossProd := cross2 tangent1 tangent2
    if crossProd < -almostTangent then .ok .first
    else if crossProd > almostTangent then .ok .second
    else classifyTangentK (dot tangent1 tangent2) k1 k2

/-- `(enum_, status)` of the Fortran routines: `Status_SUCCESS = 0` with the classification code, or the status of the
    error with `enum_` left undefined (`undefI`).  `Status_SAME_CURVATURE = 4`, `Status_EDGE_END = 6`,
    `Status_BAD_INTERIOR = 5`, `Status_UNKNOWN = 999`; the wrapper `_speedup.pyx` raises `NotImplementedError`,
    `ValueError`, `RuntimeError`, `RuntimeError` for them. -/
def statusOf : Err → Int
  | .notImplemented => 4
  | .valueError => 6
  | .runtimeError => 5
  | _ => 999

def encode (undefI : Int) : Except Err Cls → Int × Int
  | .ok c => ((c.code : Nat), 0)
  | .error e => (undefI, statusOf e)

end BezierVerif.Model.Classify.F90
