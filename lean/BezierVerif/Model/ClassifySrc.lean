import BezierVerif.Model.Classify
import BezierVerif.Model.Solve2x2

/-!
# Model/ClassifySrc — the curvature-valued form of `classify_tangent_intersection` / `classify_intersection`

`Model/Classify.lean` states the tangent classification on the PARTS `(c, n) = (T × C, ‖T‖²)` of the curvature
`κ = c / ‖T‖³` and compares curvatures in squared form (no square root).  The source
(`hazmat/triangle_helpers.py`) computes the numbers `κ₁ = get_curvature(nodes1, tangent1, s)`,
`κ₂ = get_curvature(nodes2, tangent2, t)` and branches on `np.sign`, `abs` and `<` of these numbers.

This file transcribes the source's form (additive; nothing of `Model/Classify.lean` is changed):

* `sgnK`                       — `np.sign` as a number of `K`;
* `classifyTangentCurv`        — `classify_tangent_intersection` on `dot_prod`, `κ₁`, `κ₂`;
* `classifyWithTangentsCurv`   — the decision part of `classify_intersection`, curvatures given lazily;
* `classifyIntersectionCurv`   — `classify_intersection` with the curvature routine `gc` as a parameter.

`Tables/SrcPyClassify.lean` proves (a) the translated source equals these definitions for EVERY `gc`, and (b) over an
ordered field they equal `Classify.classifyTangent` / `classifyWithTangents` / `classifyIntersection` whenever `gc` is
"first curvature part divided by a positive cube root of `n³`" (what `get_curvature` computes: `Tables/SrcF90Kernels.get_curvature_eq`)
and the tangents do not vanish (the model answers `badInput` there, the library divides by zero).
-/

namespace BezierVerif.Model.Classify

open BezierVerif.Model

variable {K : Type} [Add K] [Sub K] [Mul K] [Div K] [Neg K] [OfNat K 0] [OfNat K 1] [NatCast K]
  [LT K] [DecidableLT K] [LE K] [DecidableLE K] [DecidableEq K]

/-- `np.sign` with its float result -/
def sgnK (x : K) : K := if 0 < x then 1 else if x < 0 then -1 else 0

/-- `classify_tangent_intersection` as written in the source: `dotProd = <T₁, T₂>`, `k1`, `k2` the two curvatures -/
def classifyTangentCurv (dotProd k1 k2 : K) : Except Err Cls :=
  if dotProd < 0 then
    let sign1 := sgnK k1
    let sign2 := sgnK k2
    if sign1 = sign2 then
      if sign1 = 1 then .ok .opposed else .ok .tangentBoth
    else
      let deltaC := Model.absK k1 - Model.absK k2
      if deltaC = 0 then .error .notImplemented
      else if sign1 = sgnK deltaC then .ok .opposed
      else .ok .tangentBoth
  else if k2 < k1 then .ok .tangentFirst
  else if k1 < k2 then .ok .tangentSecond
  else .error .notImplemented

/-- the decision part of `classify_intersection` in the source's form: `k1`, `k2` are only looked at in the tangent case -/
def classifyWithTangentsCurv (s t : K) (tangent1 tangent2 prevIn1 prevIn2 : List K) (k1 k2 : K) : Except Err Cls :=
  if s = 1 ∨ t = 1 then .error .valueError
  else if ignoredCorner s t tangent1 tangent2 prevIn1 prevIn2 then .ok .ignoredCorner
  else
    let crossProd := cross2 tangent1 tangent2
    if crossProd < -almostTangent then .ok .first
    else if crossProd > almostTangent then .ok .second
    else classifyTangentCurv (dot tangent1 tangent2) k1 k2

/-- `classify_intersection(intersection, edge_nodes1, edge_nodes2)` with the curvature routine
    `gc = curve_helpers.get_curvature` as a parameter -/
def classifyIntersectionCurv (gc : List (List K) → List K → K → K) (thr : Nat) (index1 : Nat) (s : K) (index2 : Nat) (t : K)
    (edges1 edges2 : List (List (List K))) : Except Err Cls :=
  let nodes1 := edges1.getD index1 []
  let tangent1 := hodograph thr nodes1 s
  let nodes2 := edges2.getD index2 []
  let tangent2 := hodograph thr nodes2 t
  let prevIn1 := hodograph thr (edges1.getD ((index1 + 2) % 3) []) 1
  let prevIn2 := hodograph thr (edges2.getD ((index2 + 2) % 3) []) 1
  classifyWithTangentsCurv s t tangent1 tangent2 prevIn1 prevIn2 (gc nodes1 tangent1 s) (gc nodes2 tangent2 t)

end BezierVerif.Model.Classify
