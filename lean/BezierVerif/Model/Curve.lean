import BezierVerif.Model.Basic

/-!
# Model/Curve — executable model of `hazmat/curve_helpers.py` and `curve.f90`

Transcribed routine by routine; loops keep their running variables (`binom_val`, `lambda2_pow`,
Pascal rows, workspaces) so that index arithmetic is modelled, not replaced by a closed form.
Where the Python and the Fortran implementation use *different* algorithms there are two
variants (`Py.*`, `F90.*`).
-/

namespace BezierVerif.Model

variable {K : Type} [Add K] [Sub K] [Mul K] [Div K] [Neg K] [OfNat K 0] [OfNat K 1] [NatCast K]

/-- rational literal `a / b` -/
def q (a : Int) (b : Nat) : K :=
  if a < 0 then (-((a.natAbs : Nat) : K)) / ((b : Nat) : K) else ((a.natAbs : Nat) : K) / ((b : Nat) : K)

/-! ## evaluation -/

/-- `de_casteljau_one_round` on one row: `a * nodes[:, :-1] + b * nodes[:, 1:]` -/
def dcRound (a b : K) : List K → List K
  | x :: y :: rest => (a * x + b * y) :: dcRound a b (y :: rest)
  | _ => []

/-- `evaluate_multi_de_casteljau`, one row, one parameter pair, `n` rounds -/
def evalDC (a b : K) : Nat → List K → K
  | 0, l => l.headD 0
  | n+1, l => evalDC a b n (dcRound a b l)

/-- running variables of the VS (Horner-like) loop -/
structure VSState (K : Type) where
  result : K
  binom : K
  pow : K

/-- loop body of `evaluate_multi_vs` for `index` -/
def vsStep (degree : Nat) (l1 l2 : K) (v : Nat → K) (st : VSState K) (index : Nat) : VSState K :=
  let pow := st.pow * l2
  let binom := (st.binom * ((degree - index + 1 : Nat) : K)) / ((index : Nat) : K)
  { result := (st.result + binom * pow * v index) * l1, binom := binom, pow := pow }

/-- state after the loop iteration `index = i` (`i = 0`: the initialisation) -/
def vsLoop (degree : Nat) (l1 l2 : K) (v : Nat → K) : Nat → VSState K
  | 0 => { result := l1 * v 0, binom := 1, pow := 1 }
  | i+1 => vsStep degree l1 l2 v (vsLoop degree l1 l2 v i) (i+1)

/-- `evaluate_multi_vs`, one row, one parameter pair -/
def evalVS (degree : Nat) (l1 l2 : K) (v : Nat → K) : K :=
  let st := vsLoop degree l1 l2 v (degree - 1)
  st.result + l2 * st.pow * v degree

/-- `evaluate_multi_barycentric` on one row; `thr` is the extracted switch (`num_nodes > 55`) -/
def evalBary (thr : Nat) (row : List K) (l1 l2 : K) : K :=
  if row.length > thr then evalDC l1 l2 (row.length - 1) row
  else evalVS (row.length - 1) l1 l2 (seq row)

/-- `evaluate_multi_barycentric`: all rows, all parameter pairs; result row-major `dim × num_vals` -/
def evalMultiBary (thr : Nat) (nodes : List (List K)) (ls : List (K × K)) : List (List K) :=
  nodes.map (fun row => ls.map (fun l => evalBary thr row l.1 l.2))

/-- `evaluate_multi`: `one_less = 1 - s` -/
def evalMulti (thr : Nat) (nodes : List (List K)) (ss : List K) : List (List K) :=
  evalMultiBary thr nodes (ss.map (fun s => (1 - s, s)))

/-- one point -/
def evalPoint (thr : Nat) (nodes : List (List K)) (s : K) : List K :=
  nodes.map (fun row => evalBary thr row (1 - s) s)

/-! ## subdivision -/

/-- column `col` of `left` in `make_subdivision_matrices` from column `col-1` (as lists of the
    first `col` resp. `col+1` entries): `half_prev = 0.5*prev; new[:col] = half_prev;
    new[1:col+1] += half_prev` -/
def pascalHalfStep (prev : List K) : List K :=
  let half : K := 1 / (1 + 1)
  let hp := prev.map (fun x => half * x)
  -- new[0] = hp[0]; new[i] = hp[i] + hp[i-1]; new[col] = 0 + hp[col-1]
  List.zipWith (· + ·) (hp ++ [0]) ((0 : K) :: hp)

/-- column `c` of the left subdivision matrix (entries `0..c`), by the Python recurrence -/
def leftCol : Nat → List K
  | 0 => [1]
  | c+1 => pascalHalfStep (leftCol c)

/-- left matrix, `(n+1) × (n+1)` as list of rows: `left[r][c]` -/
def leftMat (n : Nat) : List (List K) :=
  (List.range (n+1)).map (fun r => (List.range (n+1)).map (fun c => (leftCol c : List K).getD r 0))

/-- right matrix: `right[-(col+1):, n-col] = left[:col+1, col]` -/
def rightMat (n : Nat) : List (List K) :=
  (List.range (n+1)).map (fun r => (List.range (n+1)).map (fun c =>
    -- column c = n - col, so col = n - c; rows n-col .. n hold left[0..col, col]
    let cl := n - c
    if r + cl < n then (0 : K) else (leftCol cl : List K).getD (r + cl - n) 0))

/-- `Py.subdivide_nodes` on one row: two matrix products -/
def Py.subdivideRow (row : List K) : List K × List K :=
  let n := row.length - 1
  (rowMul row (leftMat n), rowMul row (rightMat n))

/-- the statement `right_nodes[:, 0] = left_nodes[:, -1]` / `right_nodes(:, 1) = left_nodes(:, num_nodes)` with which BOTH
    implementations end `subdivide_nodes` since the repair e1b4310 (the two matrix / Pascal-row dot products for the junction
    point are mathematically identical but may round differently, so the value is copied).  In exact arithmetic it changes
    nothing (`C04.withJunction_exact`); in ANY arithmetic it makes the two halves share the junction point
    (`C04.junction_copied`). -/
def withJunction (lr : List K × List K) : List K × List K :=
  (lr.1, lr.2.set 0 (seq lr.1 (lr.1.length - 1)))

/-- `subdivide_nodes` on one row as the current source computes it: the products, then the junction copy -/
def Py.subdivideRowJ (row : List K) : List K × List K :=
  let n := row.length - 1
  withJunction (rowMul row (leftMat n), rowMul row (rightMat n))

def Py.subdivide (nodes : List (List K)) : List (List K) × List (List K) :=
  (nodes.map (fun r => (Py.subdivideRow r).1), nodes.map (fun r => (Py.subdivideRow r).2))

/-- the in-place Pascal row update of `subdivide_nodes_generic`:
    `p(:e) = 0.5 * (p(:e) + p(e:1:-1))`, on the first `e` entries of a zero-padded row -/
def f90PascalStep (p : List K) (e : Nat) : List K :=
  let half : K := 1 / (1 + 1)
  let pre := p.take e
  let rev := pre.reverse
  (List.zipWith (fun x y => half * (x + y)) pre rev) ++ p.drop e

/-- Pascal row used for `elt_index = e` (1-based), as a zero-padded list of length `numNodes` -/
def f90PascalRow (numNodes : Nat) : Nat → List K
  | 0 => (1 : K) :: List.replicate (numNodes - 1) 0          -- before the loop
  | 1 => (1 : K) :: List.replicate (numNodes - 1) 0          -- elt_index = 1: no update
  | e+1 => f90PascalStep (f90PascalRow numNodes e) (e+1)

/-- `subdivide_nodes_generic` on one row (accumulation order as in the Fortran loops) -/
def F90.subdivideGenericRow (row : List K) : List K × List K :=
  let nn := row.length
  let v := seq row
  let left := (List.range nn).map (fun e0 =>            -- elt_index = e0+1
    let p := seq (f90PascalRow (K := K) nn (e0+1))
    (List.range (e0+1)).foldl (fun acc pi => acc + p pi * v pi) 0)
  let rightRev := (List.range nn).map (fun e0 =>        -- column num_nodes+1-elt_index
    let p := seq (f90PascalRow (K := K) nn (e0+1))
    (List.range (e0+1)).foldl (fun acc pi => acc + p pi * v (nn - 1 - pi)) 0)
  (left, rightRev.reverse)

/-- `subdivide_nodes_generic` on one row as the current source computes it (with the junction copy) -/
def F90.subdivideGenericRowJ (row : List K) : List K × List K := withJunction (F90.subdivideGenericRow row)

/-- `F90.subdivide_nodes` on one row: closed forms for 2, 3, 4 nodes, generic otherwise -/
def F90.subdivideRow (row : List K) : List K × List K :=
  let half : K := 1 / (1 + 1)
  let quarter : K := 1 / (1 + 1 + 1 + 1)
  let eighth : K := 1 / (1 + 1 + 1 + 1 + 1 + 1 + 1 + 1)
  let two : K := 1 + 1
  let three : K := 1 + 1 + 1
  match row with
  | [a, b] =>
    let l2 := half * (a + b)
    ([a, l2], [l2, b])
  | [a, b, c] =>
    let l3 := quarter * (a + two * b + c)
    ([a, half * (a + b), l3], [l3, half * (b + c), c])
  | [a, b, c, d] =>
    let l4 := eighth * (a + three * b + three * c + d)
    ([a, half * (a + b), quarter * (a + two * b + c), l4],
     [l4, quarter * (b + two * c + d), half * (c + d), d])
  | _ => F90.subdivideGenericRow row

def F90.subdivide (nodes : List (List K)) : List (List K) × List (List K) :=
  (nodes.map (fun r => (F90.subdivideRow r).1), nodes.map (fun r => (F90.subdivideRow r).2))

/-! ## specialisation -/

/-- control point `i` of the curve restricted to `[a, b]`: `n-i` rounds with `a`, then `i` with `b`
    (key `(0,)*(n-i) + (1,)*i` of the Python dictionary) -/
def specPoint (a b : K) (row : List K) (i : Nat) : K :=
  let n := row.length - 1
  let afterA := iter (dcRound (1 - a) a) (n - i) row
  let afterB := iter (dcRound (1 - b) b) i afterA
  afterB.headD 0

/-- `specialize_curve` (Python) on one row -/
def Py.specializeRow (row : List K) (a b : K) : List K :=
  (List.range row.length).map (specPoint a b row)

def Py.specialize (nodes : List (List K)) (a b : K) : List (List K) :=
  nodes.map (fun r => Py.specializeRow r a b)

/-- generic Fortran workspace: column `j` (0-based) after processing; all columns shrink together.
    State: list of columns (each a list), `workspace(:, :, 1)` uses `start`, the others `end_` then
    every older column gets one more `start` round. -/
def F90.specializeGenericRow (row : List K) (a b : K) : List K :=
  let nn := row.length
  let c1 := dcRound (1 - a) a row
  let c2 := dcRound (1 - b) b row
  -- index_ = 3 .. nn
  let cols := (List.range (nn - 2)).foldl (fun (cols : List (List K)) _ =>
      let last := cols.getLastD []
      let newCol := dcRound (1 - b) b last
      (cols.map (dcRound (1 - a) a)) ++ [newCol]) [c1, c2]
  cols.map (fun c => c.headD 0)

/-- `specialize_curve` (Fortran): linear, quadratic closed form, generic -/
def F90.specializeRow (row : List K) (a b : K) : List K :=
  let two : K := 1 + 1
  match row with
  | [x, y] => [(1 - a) * x + a * y, (1 - b) * x + b * y]
  | [x, y, z] =>
    let ma := 1 - a
    let mb := 1 - b
    let pb := a * b
    [ma * ma * x + two * a * ma * y + a * a * z,
     ma * mb * x + (b + a - two * pb) * y + pb * z,
     mb * mb * x + two * b * mb * y + b * b * z]
  | _ => F90.specializeGenericRow row a b

def F90.specialize (nodes : List (List K)) (a b : K) : List (List K) :=
  nodes.map (fun r => F90.specializeRow r a b)

/-! ## elevation / reduction -/

/-- interior entries of `elevate_nodes`: `(j * v_{j-1} + (N - j) * v_j) / N`, `N = num_nodes` -/
def elevateRow (row : List K) : List K :=
  let nn := row.length
  let v := seq row
  (List.range (nn + 1)).map (fun j =>
    if j = 0 then v 0
    else if j = nn then v (nn - 1)
    else (((j : Nat) : K) * v (j - 1) + ((((nn : Nat) : K)) - ((j : Nat) : K)) * v j) / ((nn : Nat) : K))

/-- Fortran: integer weights `i`, `num_nodes - i` -/
def F90.elevateRow (row : List K) : List K :=
  let nn := row.length
  let v := seq row
  (List.range (nn + 1)).map (fun j =>
    if j = 0 then v 0
    else if j = nn then v (nn - 1)
    else (((j : Nat) : K) * v (j - 1) + (((nn - j : Nat) : K)) * v j) / ((nn : Nat) : K))

def elevate (nodes : List (List K)) : List (List K) := nodes.map elevateRow

/-- elevation matrix `E` (`(n+1) × (n+2)`, acting on the right), derived from `elevateRow` -/
def elevMat (numNodes : Nat) : List (List K) :=
  (List.range numNodes).map (fun i => elevateRow (unitVec numNodes i))

/-- the model's reduction matrices `R_k` (`(k+2) × (k+1)`), as rational data; Props prove they are
    the Moore–Penrose pseudo-inverse of `E`; Tables prove the extracted tables equal them. -/
def reductionMat : Nat → Option (List (List K))
  | 2 => some [[q 1 2], [q 1 2]]
  | 3 => some [[q 5 6, q (-1) 6], [q 2 6, q 2 6], [q (-1) 6, q 5 6]]
  | 4 => some [[q 19 20, q (-5) 20, q 1 20], [q 3 20, q 15 20, q (-3) 20],
               [q (-3) 20, q 15 20, q 3 20], [q 1 20, q (-5) 20, q 19 20]]
  | 5 => some [[q 207 210, q (-53) 210, q 17 210, q (-3) 210],
               [q 12 210, q 212 210, q (-68) 210, q 12 210],
               [q (-18) 210, q 102 210, q 102 210, q (-18) 210],
               [q 12 210, q (-68) 210, q 212 210, q 12 210],
               [q (-3) 210, q 17 210, q (-53) 210, q 207 210]]
  | _ => none

/-- `reduce_pseudo_inverse` -/
def reducePinv (nodes : List (List K)) : Except Err (List (List K)) :=
  match reductionMat (K := K) (ncols nodes) with
  | some r => .ok (matMul nodes r)
  | none => .error .unsupportedDegree

/-- projection matrix `P_k = R_k · E_k` (`(k+2) × (k+2)`) -/
def projectionMat (numNodes : Nat) : Option (List (List K)) :=
  match reductionMat (K := K) numNodes with
  | some r => some (matMul r (elevMat (numNodes - 1)))
  | none => none

/-- squared Frobenius norm -/
def frobSq (m : List (List K)) : K :=
  m.foldl (fun acc r => r.foldl (fun a x => a + x * x) acc) 0

/-- `maybe_reduce`'s test `relative_err < thr` in squared form:
    `relative_err = 0` (not `0 < err²`) or `‖nodes - projected‖² < thr² · ‖nodes‖²` -/
def canReduce [LT K] [DecidableLT K] (thrSq : K) (nodes : List (List K)) : Except Err Bool :=
  let nn := ncols nodes
  if nn < 2 then .ok false
  else match projectionMat (K := K) nn with
    | none => .error .unsupportedDegree
    | some p =>
      let projected := matMul nodes p
      let err := frobSq (List.zipWith subRow nodes projected)
      .ok (!(decide ((0:K) < err)) || decide (err < thrSq * frobSq nodes))

/-- `full_reduce`: reduce while the projection error is below threshold (at most `num_nodes-1`
    times – the Fortran loop bound; the Python `while` stops no later because a 1-node curve is
    never reduced) -/
def fullReduce [LT K] [DecidableLT K] (thrSq : K) (nodes : List (List K)) : Except Err (List (List K)) :=
  let rec go : Nat → List (List K) → Except Err (List (List K))
    | 0, cur => .ok cur
    | fuel+1, cur =>
      match canReduce thrSq cur with
      | .error e => .error e
      | .ok false => .ok cur
      | .ok true =>
        match reducePinv cur with
        | .error e => .error e
        | .ok r => go fuel r
  go (ncols nodes - 1) nodes

/-! ## derivatives -/

/-- `evaluate_hodograph`: `(num_nodes - 1) * evaluate_multi(first_deriv, [s])` -/
def hodographRow (thr : Nat) (row : List K) (s : K) : K :=
  (((row.length - 1 : Nat)) : K) * evalBary thr (diffs row) (1 - s) s

def hodograph (thr : Nat) (nodes : List (List K)) (s : K) : List K :=
  nodes.map (fun r => hodographRow thr r s)

/-- concavity vector of `get_curvature`: `(N-1)(N-2) * evaluate_multi(second_deriv, [s])` -/
def concavityRow (thr : Nat) (row : List K) (s : K) : K :=
  (((row.length - 1 : Nat) : K) * (((row.length - 2 : Nat)) : K)) * evalBary thr (diffs (diffs row)) (1 - s) s

/-- 2-D cross product -/
def cross2 (u v : List K) : K := seq u 0 * seq v 1 - seq u 1 * seq v 0

/-- `get_curvature` without the final division: returns `(tangent × concavity, ‖tangent‖²)`;
    the library divides the first by `‖tangent‖³` -/
def curvatureParts (thr : Nat) (nodes : List (List K)) (tangent : List K) (s : K) : K × K :=
  if ncols nodes = 2 then (0, dot tangent tangent)
  else (cross2 tangent (nodes.map (fun r => concavityRow thr r s)), dot tangent tangent)

/-- `newton_refine` (curve): `s + <p - B(s), B'(s)> / <B'(s), B'(s)>` -/
def newtonRefine (thr : Nat) (nodes : List (List K)) (point : List K) (s : K) : K :=
  let delta := subRow point (evalPoint thr nodes s)
  let d := hodograph thr nodes s
  s + dot delta d / dot d d

end BezierVerif.Model
