import BezierVerif.Model.Basic
import BezierVerif.Model.Curve
import BezierVerif.Model.Helpers
import BezierVerif.Model.Area

/-!
# Model/CurvePy — whole-array forms of the Python curve routines as the CURRENT source computes them

Additive companions of `Model/Curve.lean`, written for the source-to-Lean tie `Tables/SrcPyCurve.lean`
(`harness/translate_py.py`, phase 4): the row-wise model routines lifted to `d × N` arrays exactly in the shape the
source returns them.

* `Py.subdivideJ` – `subdivide_nodes` WITH the junction copy of the repair e1b4310 on every row (`Py.subdivide` of
  `Model/Curve.lean` is the product form without the copy; `Py.subdivideRowJ` is the one-row routine).
* `Py.curvature` – `get_curvature` including the final division by `‖tangent‖³` (`curvatureParts` stops before it);
  the square root is a parameter.
* `Py.lengthDerivNet`, `Py.computeLength` – `compute_length` as a whole: the closed forms of `lengthClosedFormSq` and the
  call of the external quadrature (`scipy.integrate.quad`, a parameter) on the integrand `vec_size(first_deriv, ·)`.
-/

namespace BezierVerif.Model

variable {K : Type} [Add K] [Sub K] [Mul K] [Div K] [Neg K] [OfNat K 0] [OfNat K 1] [NatCast K]

/-- `subdivide_nodes` (Python): both halves of every row, the right halves starting with the copied junction point -/
def Py.subdivideJ (nodes : List (List K)) : List (List K) × List (List K) :=
  (nodes.map (fun r => (Py.subdivideRowJ r).1), nodes.map (fun r => (Py.subdivideRowJ r).2))

/-- `get_curvature` (Python): `cross(tangent, concavity) / ‖tangent‖³`, `‖·‖ = sqrt (Σ x²)`, the cube as the source's
    `** 3` (`(n * n) * n`) -/
def Py.curvature (sqrt : K → K) (thr : Nat) (nodes : List (List K)) (tangent : List K) (s : K) : K :=
  let parts := curvatureParts thr nodes tangent s
  if ncols nodes = 2 then parts.1
  else
    let nrm := sqrt (normSq tangent)
    parts.1 / ((nrm * nrm) * nrm)

/-- the derivative net `(N - 1) Δ` that `compute_length` hands to the integrand `vec_size` -/
def Py.lengthDerivNet (nodes : List (List K)) : List (List K) :=
  nodes.map fun r => (diffs r).map fun x => ((r.length - 1 : Nat) : K) * x

/-- `compute_length` (Python): the closed forms of `lengthClosedFormSq` (one node: `0.0`, two nodes: the norm), otherwise
    the external quadrature `quad(f, 0, 1)[0]` of `f(s) = vec_size(first_deriv, s) = ‖evaluate_multi(first_deriv, [s])‖₂`;
    `sqrt` and `quad` (scipy.integrate.quad) are parameters -/
def Py.computeLength (sqrt : K → K) (quad : (K → Except Err K) → K → K → Except Err (K × K)) (thr : Nat)
    (nodes : List (List K)) : Except Err K :=
  match lengthClosedFormSq nodes with
  | .error e => .error e
  | .ok (some sq) => .ok (if ncols nodes = 1 then 0 else sqrt sq)
  | .ok none =>
    match quad (fun s => .ok (sqrt (normSq (evalPoint thr (Py.lengthDerivNet nodes) s)))) 0 1 with
    | .error e => .error e
    | .ok p => .ok p.1

end BezierVerif.Model
