import BezierVerif.Model.Basic
import BezierVerif.Model.Curve

/-!
# Model/Geometric — the curve–curve intersection pipeline
(`hazmat/geometric_intersection.py`: `Linearization.from_shape`, `from_linearized`,
`add_intersection`, `endpoint_check`, `tangent_bbox_intersection`, `intersect_one_round`,
`prune_candidates`, `make_same_degree`, `coincident_parameters`, `check_lines`,
`all_intersections`, `self_intersections`; `curve_intersection.f90` is the same algorithm on
explicit buffers)

The pipeline is written over a record `Prims K` of the primitive predicates / solvers it calls
(box tests, segment tests, hull collision, closeness, interval snapping, Newton refinement, point
location).  The driver instantiates `Prims` with the transcriptions in `Model/Helpers.lean`,
`Model/Newton.lean`, `Model/Locate.lean`; the theorems are stated for ANY `Prims` satisfying the
contracts that those transcriptions are proved to satisfy (refinement in two layers).
-/

namespace BezierVerif.Model

variable {K : Type} [Add K] [Sub K] [Mul K] [Div K] [Neg K] [OfNat K 0] [OfNat K 1] [NatCast K]
  [LT K] [DecidableLT K] [LE K] [DecidableLE K] [DecidableEq K]

/-- `BoxIntersectionType` -/
inductive BoxKind where
  | intersection | tangent | disjoint
  deriving DecidableEq, Repr, Inhabited

/-- the primitives the pipeline calls -/
structure Prims (K : Type) where
  /-- `bbox_intersect(nodes1, nodes2)` -/
  bboxIntersect : List (List K) → List (List K) → BoxKind
  /-- `bbox_line_intersect(nodes, line_start, line_end)` -/
  bboxLineIntersect : List (List K) → List K → List K → BoxKind
  /-- `linearization_error(nodes)²` -/
  linErrSq : List (List K) → K
  /-- `segment_intersection(start0, end0, start1, end1)`: `some (s, t)` on success -/
  segmentIntersection : List K → List K → List K → List K → Option (K × K)
  /-- `parallel_lines_parameters`: `none` = disjoint, `some [(s₀,t₀),(s₁,t₁)]` otherwise -/
  parallelLines : List K → List K → List K → List K → Option (List (K × K))
  /-- `convex_hull_collide(nodes1, nodes2)` -/
  hullCollide : List (List K) → List (List K) → Bool
  /-- `vector_close(vec1, vec2)` on flattened arrays -/
  vectorClose : List K → List K → Bool
  /-- `wiggle_interval(value)` -/
  wiggle : K → Option K
  /-- `in_interval(value, 0, 1)` -/
  inUnit : K → Bool
  /-- `full_newton(s, nodes1, t, nodes2)` on the ORIGINAL nodes -/
  fullNewton : K → List (List K) → K → List (List K) → Except Err (K × K)
  /-- `locate_point(nodes, point)`: `ok none` = not on the curve -/
  locate : List (List K) → List K → Except Err (Option K)
  /-- `subdivide_nodes` -/
  subdivide : List (List K) → List (List K) × List (List K)
  /-- `specialize_curve` -/
  specialize : List (List K) → K → K → List (List K)

/-- extracted constants of the pipeline -/
structure GeoConsts (K : Type) where
  errValSq : K            -- `_ERROR_VAL²` = (2^-26)²
  maxRounds : Nat         -- `_MAX_INTERSECT_SUBDIVISIONS`
  maxCandidates : Nat     -- `_MAX_CANDIDATES`
  zeroThr : K             -- `ZERO_THRESHOLD` = 2^-10
  ratioSq : K             -- `NEWTON_ERROR_RATIO²` = (2^-36)²
  minWidth : K            -- `_MIN_INTERVAL_WIDTH` = 2^-40
  unhandledLinesRaise : Bool   -- Python raises `ValueError(_UNHANDLED_LINES)`; Fortran has no such exit

/-- `SubdividedCurve` (the original nodes are global to one call) -/
structure SubCurve (K : Type) where
  nodes : List (List K)
  start : K
  stop : K

/-- a candidate is a sub-curve or its `Linearization` (with the squared error) -/
inductive Cand (K : Type) where
  | curve (c : SubCurve K)
  | lin (c : SubCurve K) (errSq : K)

def Cand.sub : Cand K → SubCurve K
  | .curve c => c
  | .lin c _ => c

def Cand.isLin : Cand K → Bool
  | .curve _ => false
  | .lin _ _ => true

/-- first / last column of a node array -/
def firstNode (nodes : List (List K)) : List K := nodes.map (fun r => r.headD 0)
def lastNode (nodes : List (List K)) : List K := nodes.map (fun r => r.getD (r.length - 1) 0)

/-- `Linearization.from_shape` -/
def fromShape (P : Prims K) (G : GeoConsts K) : Cand K → Cand K
  | .lin c e => .lin c e
  | .curve c =>
    let e := P.linErrSq c.nodes
    if e < G.errValSq then .lin c e else .curve c

/-- `subdivide()` of a candidate, followed by `from_shape` on each piece -/
def subdivideCand (P : Prims K) (G : GeoConsts K) : Cand K → List (Cand K)
  | .lin c e => [.lin c e]
  | .curve c =>
    let lr := P.subdivide c.nodes
    let mid := (1 / (1 + 1) : K) * (c.start + c.stop)
    [fromShape P G (.curve { nodes := lr.1, start := c.start, stop := mid }),
     fromShape P G (.curve { nodes := lr.2, start := mid, stop := c.stop })]

/-- `add_intersection`: de-duplication relative to `‖(s,t)‖` (or `‖(1-s,..)‖` near zero), squared -/
def addIntersection (G : GeoConsts K) (s t : K) (acc : List (K × K)) : List (K × K) :=
  if acc.isEmpty then [(s, t)]
  else
    let cs := if s < G.zeroThr then 1 - s else s
    let ct := if t < G.zeroThr then 1 - t else t
    let normSq := cs * cs + ct * ct
    if acc.any (fun p =>
        let ds := s - p.1
        let dt := t - p.2
        decide (ds * ds + dt * dt < G.ratioSq * normSq)) then acc
    else acc ++ [(s, t)]

/-- `endpoint_check` -/
def endpointCheck (P : Prims K) (G : GeoConsts K) (first : SubCurve K) (nodeFirst : List K) (s : K)
    (second : SubCurve K) (nodeSecond : List K) (t : K) (acc : List (K × K)) : List (K × K) :=
  if P.vectorClose nodeFirst nodeSecond then
    let origS := (1 - s) * first.start + s * first.stop
    let origT := (1 - t) * second.start + t * second.stop
    addIntersection G origS origT acc
  else acc

/-- `tangent_bbox_intersection`: the four end-point pairs -/
def tangentBbox (P : Prims K) (G : GeoConsts K) (first second : SubCurve K) (acc : List (K × K)) : List (K × K) :=
  let f1 := firstNode first.nodes
  let f2 := lastNode first.nodes
  let s1 := firstNode second.nodes
  let s2 := lastNode second.nodes
  let acc := endpointCheck P G first f1 0 second s1 0 acc
  let acc := endpointCheck P G first f1 0 second s2 1 acc
  let acc := endpointCheck P G first f2 1 second s1 0 acc
  endpointCheck P G first f2 1 second s2 1 acc

/-- `from_linearized` -/
def fromLinearized (P : Prims K) (G : GeoConsts K) (orig1 orig2 : List (List K))
    (c1 : SubCurve K) (e1 : K) (c2 : SubCurve K) (e2 : K) (acc : List (K × K)) : Except Err (List (K × K)) :=
  let seg := P.segmentIntersection (firstNode c1.nodes) (lastNode c1.nodes) (firstNode c2.nodes) (lastNode c2.nodes)
  let half : K := 1 / (1 + 1)
  -- (s, t, bad_parameters) or the unhandled-lines error
  let r : Except Err (K × K × Bool) :=
    match seg with
    | some (s, t) => .ok (s, t, !(P.inUnit s && P.inUnit t))
    | none =>
      if e1 = 0 ∧ e2 = 0 ∧ G.unhandledLinesRaise then .error .valueError
      else .ok (half, half, true)
  match r with
  | .error e => .error e
  | .ok (s, t, bad) =>
    if bad && !(P.hullCollide c1.nodes c2.nodes) then .ok acc
    else
      let origS := (1 - s) * c1.start + s * c1.stop
      let origT := (1 - t) * c2.start + t * c2.stop
      match P.fullNewton origS orig1 origT orig2 with
      | .error e => .error e
      | .ok (rs, rt) =>
        match P.wiggle rs with
        | none => .ok acc
        | some ws =>
          match P.wiggle rt with
          | none => .ok acc
          | some wt => .ok (addIntersection G ws wt acc)

/-- one candidate pair of `intersect_one_round` -/
def intersectPair (P : Prims K) (G : GeoConsts K) (orig1 orig2 : List (List K)) (first second : Cand K)
    (acc : List (K × K)) : Except Err (List (Cand K × Cand K) × List (K × K)) :=
  let bothLin := first.isLin && second.isLin
  let box : BoxKind :=
    match first, second with
    | .lin c1 _, .lin c2 _ => P.bboxIntersect c1.nodes c2.nodes
    | .lin c1 _, .curve c2 => P.bboxLineIntersect c2.nodes (firstNode c1.nodes) (lastNode c1.nodes)
    | .curve c1, .lin c2 _ => P.bboxLineIntersect c1.nodes (firstNode c2.nodes) (lastNode c2.nodes)
    | .curve c1, .curve c2 => P.bboxIntersect c1.nodes c2.nodes
  if box = .disjoint then .ok ([], acc)
  else if box = .tangent ∧ !bothLin then .ok ([], tangentBbox P G first.sub second.sub acc)
  else
    match first, second with
    | .lin c1 e1, .lin c2 e2 =>
      match fromLinearized P G orig1 orig2 c1 e1 c2 e2 acc with
      | .error e => .error e
      | .ok acc' => .ok ([], acc')
    | _, _ =>
      let l1 := subdivideCand P G first
      let l2 := subdivideCand P G second
      .ok (l1.flatMap (fun a => l2.map (fun b => (a, b))), acc)

/-- `intersect_one_round` -/
def intersectOneRound (P : Prims K) (G : GeoConsts K) (orig1 orig2 : List (List K))
    (cands : List (Cand K × Cand K)) (acc : List (K × K)) : Except Err (List (Cand K × Cand K) × List (K × K)) :=
  cands.foldl (fun (st : Except Err (List (Cand K × Cand K) × List (K × K))) pr =>
    match st with
    | .error e => .error e
    | .ok (next, acc) =>
      match intersectPair P G orig1 orig2 pr.1 pr.2 acc with
      | .error e => .error e
      | .ok (more, acc') => .ok (next ++ more, acc')) (.ok ([], acc))

/-- `prune_candidates` -/
def pruneCandidates (P : Prims K) (cands : List (Cand K × Cand K)) : List (Cand K × Cand K) :=
  cands.filter (fun pr => P.hullCollide pr.1.sub.nodes pr.2.sub.nodes)

/-- `make_same_degree` -/
def makeSameDegree (n1 n2 : List (List K)) : List (List K) × List (List K) :=
  let c1 := ncols n1
  let c2 := ncols n2
  (iter elevate (c2 - c1) n1, iter elevate (c1 - c2) n2)

def flatten (nodes : List (List K)) : List K := (transpose nodes).flatten   -- `ravel(order='F')`

def absDiff (a b : K) : K := if a < b then b - a else a - b

/-- `coincident_parameters` -/
def coincidentParameters (P : Prims K) (G : GeoConsts K) (n1 n2 : List (List K)) :
    Except Err (Option (List (K × K))) :=
  let (n1, n2) := makeSameDegree n1 n2
  match P.locate n1 (firstNode n2), P.locate n1 (lastNode n2) with
  | .error e, _ => .error e
  | _, .error e => .error e
  | .ok sInit, .ok sFinal =>
    match sInit, sFinal with
    | some si, some sf =>
      if P.vectorClose (flatten (P.specialize n1 si sf)) (flatten n2) then .ok (some [(si, 0), (sf, 1)]) else .ok none
    | _, _ =>
      match P.locate n2 (firstNode n1), P.locate n2 (lastNode n1) with
      | .error e, _ => .error e
      | _, .error e => .error e
      | .ok tInit, .ok tFinal =>
        match tInit, tFinal with
        | none, none => .ok none
        | some ti, some tf =>
          if P.vectorClose (flatten n1) (flatten (P.specialize n2 ti tf)) then .ok (some [(0, ti), (1, tf)]) else .ok none
        | _, _ =>
          -- exactly one of t_initial / t_final is present
          if sInit.isNone ∧ sFinal.isNone then .ok none
          else
            let quad : K × K × K × K :=
              match sInit, tInit with
              | none, none => (sFinal.getD 0, 1, 1, tFinal.getD 0)
              | none, some ti => (0, sFinal.getD 0, ti, 1)
              | some si, none => (si, 1, 0, tFinal.getD 0)
              | some si, some ti => (0, si, ti, 0)
            let (startS, endS, startT, endT) := quad
            if absDiff startS endS < G.minWidth ∧ absDiff startT endT < G.minWidth then .ok none
            else if P.vectorClose (flatten (P.specialize n1 startS endS)) (flatten (P.specialize n2 startT endT))
            then .ok (some [(startS, startT), (endS, endT)]) else .ok none

/-- `check_lines`: `none` when not both exactly linear -/
def checkLines (P : Prims K) (c1 c2 : Cand K) : Option (List (K × K) × Bool) :=
  match c1, c2 with
  | .lin s1 e1, .lin s2 e2 =>
    if e1 = 0 ∧ e2 = 0 then
      match P.segmentIntersection (firstNode s1.nodes) (lastNode s1.nodes) (firstNode s2.nodes) (lastNode s2.nodes) with
      | some (s, t) => if P.inUnit s && P.inUnit t then some ([(s, t)], false) else some ([], false)
      | none =>
        match P.parallelLines (firstNode s1.nodes) (lastNode s1.nodes) (firstNode s2.nodes) (lastNode s2.nodes) with
        | none => some ([], false)
        | some params => some (params, true)
    else none
  | _, _ => none

/-- `all_intersections` -/
def allIntersections (P : Prims K) (G : GeoConsts K) (n1 n2 : List (List K)) : Except Err (List (K × K) × Bool) :=
  let c1 := fromShape P G (.curve { nodes := n1, start := 0, stop := 1 })
  let c2 := fromShape P G (.curve { nodes := n2, start := 0, stop := 1 })
  match checkLines P c1 c2 with
  | some r => .ok r
  | none =>
    let rec rounds (fuel : Nat) (cands : List (Cand K × Cand K)) (acc : List (K × K)) :
        Except Err (List (K × K) × Bool) :=
      match fuel with
      | 0 => .error .valueError                          -- no convergence after `maxRounds`
      | f + 1 =>
        match intersectOneRound P G n1 n2 cands acc with
        | .error e => .error e
        | .ok (next, acc') =>
          let next := if next.length > G.maxCandidates then pruneCandidates P next else next
          if next.length > G.maxCandidates then
            match coincidentParameters P G n1 n2 with
            | .error e => .error e
            | .ok none => .error .notImplemented
            | .ok (some params) => .ok (params, true)
          else if next.isEmpty then .ok (acc', false)
          else rounds f next acc'
    rounds G.maxRounds [(c1, c2)] []

end BezierVerif.Model
