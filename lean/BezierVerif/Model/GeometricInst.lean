import BezierVerif.Model.Geometric
import BezierVerif.Model.Self
import BezierVerif.Model.Helpers
import BezierVerif.Model.Newton
import BezierVerif.Model.Locate
import BezierVerif.Model.Solve2x2

/-!
# Model/GeometricInst — the concrete primitives of the intersection pipeline

`concretePrims` plugs the transcriptions of `hazmat/helpers.py`, `hazmat/geometric_intersection.py`
(predicates), `hazmat/intersection_helpers.py` (Newton) and `hazmat/curve_helpers.py` (locate,
subdivide, specialize) into the record `Prims` over which `Model/Geometric.lean` is written.
Two variants: `py` (pure Python) and `f90` (compiled): they differ in the subdivision /
specialisation routine, the Newton cut rule, the convex-hull sort, the separating-axis test on zero
edges and in how an invalid `locate_point` inside `coincident_parameters` surfaces
(Python: `ValueError`; Fortran: `LOCATE_INVALID` ⇒ "not coincident" ⇒ `NotImplementedError`).
-/

namespace BezierVerif.Model

variable {K : Type} [Add K] [Sub K] [Mul K] [Div K] [Neg K] [OfNat K 0] [OfNat K 1] [NatCast K]
  [LT K] [DecidableLT K] [LE K] [DecidableLE K] [DecidableEq K]

/-- every extracted constant the pipeline and its primitives use -/
structure PipelineConsts (K : Type) where
  geo : GeoConsts K
  vsThr : Nat              -- evaluation switch (55)
  wiggle : K               -- 2^-44
  epsSq : K                -- `vector_close` eps² = (2^-40)²
  newtonFuel : Nat         -- MAX_NEWTON_ITERATIONS (10)
  locateRounds : Nat       -- MAX_LOCATE_SUBDIVISIONS + 1
  locateCapSq : K          -- LOCATE_STD_CAP²
  rnd : K → K              -- rounding of Newton iterates (identity in theorems)

def boxKindOf : Except Err BoxType → BoxKind
  | .ok .intersection => .intersection
  | .ok .tangent => .tangent
  | .ok .disjoint => .disjoint
  | .error _ => .disjoint          -- only for empty node arrays, which the pipeline never forms

def solverOf : Solver K := fun lhs rhs => solve2x2 lhs.1 lhs.2.1 lhs.2.2.1 lhs.2.2.2 rhs.1 rhs.2

/-- `py = true`: pure-Python variant, `false`: compiled variant -/
def concretePrims (py : Bool) (C : PipelineConsts K) : Prims K where
  bboxIntersect n1 n2 := boxKindOf (bboxIntersect n1 n2)
  bboxLineIntersect nodes s e := boxKindOf (bboxLineIntersect nodes (ptOf s) (ptOf e))
  linErrSq nodes := match linearizationErrorSq nodes with
    | .ok e => e
    | .error _ => 0
  segmentIntersection s0 e0 s1 e1 := segmentIntersection (ptOf s0) (ptOf e0) (ptOf s1) (ptOf e1)
  parallelLines s0 e0 s1 e1 :=
    match parallelLinesParameters (ptOf s0) (ptOf e0) (ptOf s1) (ptOf e1) with
    | .ok (some (startS, endS, startT, endT)) => some [(startS, startT), (endS, endT)]
    | _ => none
  hullCollide n1 n2 :=
    match (if py then Py.convexHullCollide (colsOf n1) (colsOf n2) else F90.convexHullCollide (colsOf n1) (colsOf n2)) with
    | .ok b => b
    | .error _ => true
  vectorClose v1 v2 := vectorCloseSq v1 v2 C.epsSq
  wiggle v := wiggleInterval C.wiggle v
  inUnit v := inInterval v 0 1
  fullNewton s n1 t n2 :=
    fullNewton solverOf (if py then Py.cut else F90.cut) C.rnd C.geo.ratioSq C.geo.zeroThr C.vsThr C.newtonFuel s n1 t n2
  locate nodes point :=
    match locatePoint (if py then Py.subdivide else F90.subdivide) C.vsThr C.locateRounds C.locateCapSq nodes point with
    | .miss => .ok none
    | .invalid => .error (if py then .valueError else .notImplemented)
    | .found s => .ok (some s)
  subdivide := if py then Py.subdivide else F90.subdivide
  specialize := if py then Py.specialize else F90.specialize

end BezierVerif.Model
