import BezierVerif.Model.Geometric

/-!
# Model/GeometricTrace — `all_intersections` with the candidate lists of every round exposed

`allIntersectionsTrace` is `allIntersections` returning, next to the result, the list of candidate
lists that enter `intersect_one_round` (one entry per executed round) and the accumulated
intersections after that round.  The harness records the same sequence from the running Python
implementation (wrapping `intersect_one_round`) and compares it round by round: a step-level tie of
the pipeline model, stronger than the comparison of final results.  `Props/C03Trace.lean` proves
that the first component is `allIntersections` itself.
-/

namespace BezierVerif.Model

variable {K : Type} [Add K] [Sub K] [Mul K] [Div K] [Neg K] [OfNat K 0] [OfNat K 1] [NatCast K]
  [LT K] [DecidableLT K] [LE K] [DecidableLE K] [DecidableEq K]

/-- one executed round: the candidates handed to `intersect_one_round`, and the accumulator after it
(`none` when the round raised) -/
structure RoundLog (K : Type) where
  cands : List (Cand K × Cand K)
  accAfter : Option (List (K × K))

/-- the round loop of `all_intersections` with its log -/
def roundsTrace (P : Prims K) (G : GeoConsts K) (n1 n2 : List (List K)) :
    Nat → List (Cand K × Cand K) → List (K × K) → Except Err (List (K × K) × Bool) × List (RoundLog K)
  | 0, _, _ => (.error .valueError, [])
  | f + 1, cands, acc =>
    match intersectOneRound P G n1 n2 cands acc with
    | .error e => (.error e, [{ cands := cands, accAfter := none }])
    | .ok (next, acc') =>
      let next := if next.length > G.maxCandidates then pruneCandidates P next else next
      let entry : RoundLog K := { cands := cands, accAfter := some acc' }
      if next.length > G.maxCandidates then
        (match coincidentParameters P G n1 n2 with
          | .error e => .error e
          | .ok none => .error .notImplemented
          | .ok (some params) => .ok (params, true), [entry])
      else if next.isEmpty then (.ok (acc', false), [entry])
      else
        let r := roundsTrace P G n1 n2 f next acc'
        (r.1, entry :: r.2)

/-- `all_intersections` with the log of its rounds (empty when `check_lines` answers) -/
def allIntersectionsTrace (P : Prims K) (G : GeoConsts K) (n1 n2 : List (List K)) :
    Except Err (List (K × K) × Bool) × List (RoundLog K) :=
  let c1 := fromShape P G (.curve { nodes := n1, start := 0, stop := 1 })
  let c2 := fromShape P G (.curve { nodes := n2, start := 0, stop := 1 })
  match checkLines P c1 c2 with
  | some r => (.ok r, [])
  | none => roundsTrace P G n1 n2 G.maxRounds [(c1, c2)] []

end BezierVerif.Model
