import BezierVerif.Model.Basic
import BezierVerif.Model.Curve
import BezierVerif.Model.Solve2x2

/-!
# Model/Helpers — executable model of the planar pruning predicates

Transcription, routine by routine, of

* `hazmat/helpers.py` / `helpers.f90`: `vector_close`, `in_interval`, `bbox`, `contains_nd`,
  `cross_product`, `matrix_product`, `wiggle_interval`, `cross_product_compare`, `in_sorted`,
  `simple_convex_hull` (+ `min_index`, `sort_in_place`), `is_separating`, `polygon_collide`
  (`solve2x2`: see `Model/Solve2x2.lean`);
* `hazmat/geometric_intersection.py` / `curve_intersection.f90`: `bbox_intersect`,
  `linearization_error`, `segment_intersection`, `parallel_lines_parameters`, `line_line_collide`,
  `convex_hull_collide`, `bbox_line_intersect`;
* `hazmat/clipping.py`: `compute_implicit_line`, `compute_fat_line`, `_update_parameters`,
  `clip_range` (the library itself works with the *un-normalised* implicit line, so no square
  root occurs and the transcription is literal).

Conventions

* a planar point / 2-vector is a pair `Pt K = K × K`; a `2 × N` array given as list of rows is
  converted by `colsOf`, back by `rowsOf`;
* norms are compared through their squares: `vectorCloseSq` takes `eps²`, `linearizationErrorSq`
  returns `error²` (equivalences are stated at the definitions);
* IEEE special values cannot occur in an exact field.  Where the *code* produces NaN on finite
  input (division `0/0`) the model either returns `Err.badInput` (`parallel_lines_parameters` with a
  degenerate first segment: the code returns NaN parameters) or transcribes the documented outcome
  of the NaN comparisons (`is_separating` with a zero edge direction: see `Py.isSeparating`,
  `F90.isSeparating`);
* two variants (`Py.*`, `F90.*`) where the implementations differ: `contains_nd` (negated
  comparison), `in_sorted` (bisect vs. hand-written binary search), `simple_convex_hull`
  (`np.unique` vs. `sort_in_place`; equal on every input: `C16.hull_variants_agree`),
  `is_separating` / `polygon_collide` (NaN handling, see above), `convex_hull_collide`;
* `F90.sortStepOld / sortInPlaceOld / convexHullOld` transcribe `sort_in_place` as it was before its
  repair (repeated points could leave the array unsorted); they only serve the decided
  counter-examples `C16.hull_old_differs` etc. and are not reachable from the driver.
-/

namespace BezierVerif.Model

variable {K : Type} [Add K] [Sub K] [Mul K] [Div K] [Neg K] [OfNat K 0] [OfNat K 1] [NatCast K]

/-! ## planar points -/

/-- a point / vector of the plane -/
abbrev Pt (K : Type) := K × K

/-- `p - q` on 2-vectors -/
def psub (p q : Pt K) : Pt K := (p.1 - q.1, p.2 - q.2)

/-- `cross_product`: `vec0[0] * vec1[1] - vec0[1] * vec1[0]` -/
def cross (u v : Pt K) : K := u.1 * v.2 - u.2 * v.1

/-- `np.vdot` / `dot_product` of two 2-vectors -/
def dot2 (u v : Pt K) : K := u.1 * v.1 + u.2 * v.2

/-- the first two entries of a 1D array as a point -/
def ptOf (v : List K) : Pt K := (seq v 0, seq v 1)

/-- columns of a `2 × N` array (list of two rows) -/
def colsOf (nodes : List (List K)) : List (Pt K) :=
  match nodes with
  | [xs, ys] => List.zip xs ys
  | _ => []

/-- a list of points as `2 × N` array (list of two rows) -/
def rowsOf (pts : List (Pt K)) : List (List K) := [pts.map (·.1), pts.map (·.2)]

/-- `cross_product` on 1D arrays -/
def crossProduct (vec0 vec1 : List K) : K := cross (ptOf vec0) (ptOf vec1)

/-- `matrix_product(mat1, mat2) = (mat2ᵀ mat1ᵀ)ᵀ = mat1 · mat2` -/
def matrixProduct (mat1 mat2 : List (List K)) : List (List K) := matMul mat1 mat2

/-- `cross_product_compare`: `cross(candidate1 - start, candidate2 - start)` -/
def crossProductCompare (start c1 c2 : Pt K) : K := cross (psub c1 start) (psub c2 start)

/-- point `i` of a list (only ever used below the length) -/
def getP (pts : List (Pt K)) (i : Nat) : Pt K := pts.getD i (0, 0)

/-- squared Euclidean norm of a 1D array, summed left to right -/
def normSq (v : List K) : K := v.foldl (fun acc x => acc + x * x) 0

/-! ## `in_sorted` (integers) -/

/-- `bisect.bisect_left(values, x)` with `lo, hi` and the loop bound `len + 1` as fuel -/
def bisectLeft (values : List Nat) (x : Nat) : Nat → Nat → Nat → Nat
  | 0, lo, _ => lo
  | fuel+1, lo, hi =>
    if lo < hi then
      let mid := (lo + hi) / 2
      if values.getD mid 0 < x then bisectLeft values x fuel (mid + 1) hi
      else bisectLeft values x fuel lo mid
    else lo

/-- `in_sorted` (Python): insertion point by `bisect_left`, then compare -/
def Py.inSorted (values : List Nat) (value : Nat) : Bool :=
  let index := bisectLeft values value (values.length + 1) 0 values.length
  if index ≥ values.length then false
  else values[index]? == some value

/-- loop of the Fortran `in_sorted` (positions `left`, `right`, `midpoint` are 1-based) -/
def F90.inSortedGo (values : List Nat) (value : Nat) : Nat → Nat → Nat → Bool
  | 0, left, _ => values[left - 1]? == some value
  | fuel+1, left, right =>
    if left < right then
      let midpoint := (left + right) / 2
      let vm := values.getD (midpoint - 1) 0
      if value = vm then true
      else if value < vm then F90.inSortedGo values value fuel left (midpoint - 1)
      else F90.inSortedGo values value fuel (midpoint + 1) right
    else values[left - 1]? == some value

/-- `in_sorted` (Fortran): `left = 1; right = num_values; do while (left < right) …` -/
def F90.inSorted (values : List Nat) (value : Nat) : Bool :=
  F90.inSortedGo values value (values.length + 1) 1 values.length

section Order
variable [LT K] [DecidableLT K] [LE K] [DecidableLE K]

/-! ## scalar helpers -/

-- `absK` (`np.abs` on scalars) is the one of Model/Solve2x2

/-- `min(a, b)` of Python (`b if b < a else a`) = `np.min` / `minval` on non-NaN data -/
def minK (a b : K) : K := if b < a then b else a

def maxK (a b : K) : K := if a < b then b else a

/-- minimum of a non-empty row `x :: xs` -/
def minOf (x : K) (xs : List K) : K := xs.foldl minK x

def maxOf (x : K) (xs : List K) : K := xs.foldl maxK x

/-- `in_interval`: `start <= value <= end` -/
def inInterval (value start end_ : K) : Bool := decide (start ≤ value) && decide (value ≤ end_)

/-- `wiggle_interval(value, wiggle)`: `none` is the failure `(nan, False)` -/
def wiggleInterval (w v : K) : Option K :=
  if -w < v ∧ v < w then some 0
  else if w ≤ v ∧ v ≤ 1 - w then some v
  else if 1 - w < v ∧ v < 1 + w then some 1
  else none

/-! ## bounding boxes -/

/-- `bbox(nodes)`: `(left, right, bottom, top)` of a `2 × N` array, `N ≥ 1`
    (`np.min` of a zero-size array raises) -/
def bbox (nodes : List (List K)) : Except Err (K × K × K × K) :=
  match nodes with
  | [x :: xs, y :: ys] => .ok (minOf x xs, maxOf x xs, minOf y ys, maxOf y ys)
  | [[], _] => .error .valueError
  | [_, []] => .error .valueError
  | _ => .error .badInput

/-- `contains_nd` (Python): `all(min_vals <= point)` and `all(point <= max_vals)`, any dimension -/
def Py.containsND : List (List K) → List K → Except Err Bool
  | [], [] => .ok true
  | (x :: xs) :: rows, p :: ps =>
    match Py.containsND rows ps with
    | .error e => .error e
    | .ok rest => .ok (decide (minOf x xs ≤ p) && decide (p ≤ maxOf x xs) && rest)
  | [] :: _, _ :: _ => .error .valueError
  | _, _ => .error .badInput

/-- `contains_nd` (Fortran): `any(point < minval)` → false, `any(maxval < point)` → false -/
def F90.containsND : List (List K) → List K → Except Err Bool
  | [], [] => .ok true
  | (x :: xs) :: rows, p :: ps =>
    match F90.containsND rows ps with
    | .error e => .error e
    | .ok rest => .ok (!(decide (p < minOf x xs)) && !(decide (maxOf x xs < p)) && rest)
  | [] :: _, _ :: _ => .error .valueError
  | _, _ => .error .badInput

/-- `BoxIntersectionType` (values checked against both implementations in Tables/C16) -/
inductive BoxType where
  | intersection | tangent | disjoint
  deriving Repr, DecidableEq, Inhabited

def BoxType.toNat : BoxType → Nat
  | .intersection => 0
  | .tangent => 1
  | .disjoint => 2

section Eq
variable [DecidableEq K]

/-- the comparison cascade of `bbox_intersect` on the two boxes -/
def boxRelation (b1 b2 : K × K × K × K) : BoxType :=
  let (left1, right1, bottom1, top1) := b1
  let (left2, right2, bottom2, top2) := b2
  if right2 < left1 ∨ right1 < left2 ∨ top2 < bottom1 ∨ top1 < bottom2 then .disjoint
  else if right2 = left1 ∨ right1 = left2 ∨ top2 = bottom1 ∨ top1 = bottom2 then .tangent
  else .intersection

/-- `bbox_intersect(nodes1, nodes2)` -/
def bboxIntersect (nodes1 nodes2 : List (List K)) : Except Err BoxType :=
  match bbox nodes1, bbox nodes2 with
  | .ok b1, .ok b2 => .ok (boxRelation b1 b2)
  | .error e, _ => .error e
  | _, .error e => .error e

/-! ## norms (compared through squares)

`vector_close(vec1, vec2, eps)` with `size_i = ‖vec_i‖`:
`size1 == 0 → size2 <= eps`, `size2 == 0 → size1 <= eps`, else `‖vec1 - vec2‖ <= eps * min(size1, size2)`.
For `eps ≥ 0` and an exact square root: `size == 0 ⇔ size² = 0`, `size <= eps ⇔ size² <= eps²`,
`‖d‖ <= eps·min(size1, size2) ⇔ ‖d‖² <= eps²·min(size1², size2²)`.  The model takes `eps²`. -/
def vectorCloseSq (vec1 vec2 : List K) (epsSq : K) : Bool :=
  let size1Sq := normSq vec1
  let size2Sq := normSq vec2
  if size1Sq = 0 then decide (size2Sq ≤ epsSq)
  else if size2Sq = 0 then decide (size1Sq ≤ epsSq)
  else decide (normSq (subRow vec1 vec2) ≤ epsSq * minK size1Sq size2Sq)

end Eq

/-- `nodes[:, :-2] - 2.0 * nodes[:, 1:-1] + nodes[:, 2:]` on one row -/
def secondDiffs : List K → List K
  | x :: y :: z :: rest => (x - (1 + 1) * y + z) :: secondDiffs (y :: z :: rest)
  | _ => []

/-- `np.max(np.abs(row))`; `none` for an empty row (`np.max` raises) -/
def maxAbs? : List K → Option K
  | [] => none
  | x :: xs => some (maxOf (absK x) (xs.map absK))

/-- `linearization_error(nodes)²`: the code returns
    `0.125 * degree * (degree - 1) * ‖worst_case‖₂`, the model returns the square of it
    (`multiplier² · Σ worst_case_i²`); `degree == 1 → 0`.  Fewer than 2 nodes: `np.max` of a
    zero-size array raises `ValueError`. -/
def linearizationErrorSq (nodes : List (List K)) : Except Err K :=
  let numNodes := ncols nodes
  if numNodes = 2 then .ok 0
  else if numNodes < 3 then .error .valueError
  else
    match nodes.mapM (fun r => maxAbs? (secondDiffs r)) with
    | none => .error .badInput
    | some worst =>
      let degree := numNodes - 1
      let multiplier : K := q 1 8 * ((degree : Nat) : K) * (((degree - 1 : Nat)) : K)
      .ok (multiplier * multiplier * normSq worst)

/-! ## segments -/

section Eq2
variable [DecidableEq K]

/-- `segment_intersection(start0, end0, start1, end1)`: `none` is `success = False` -/
def segmentIntersection (start0 end0 start1 end1 : Pt K) : Option (K × K) :=
  let delta0 := psub end0 start0
  let delta1 := psub end1 start1
  let crossD0D1 := cross delta0 delta1
  if crossD0D1 = 0 then none
  else
    let startDelta := psub start1 start0
    let s := cross startDelta delta1 / crossD0D1
    let t := cross startDelta delta0 / crossD0D1
    some (s, t)

/-- the twelve leaves of `parallel_lines_parameters` given the projections `s_val0`, `s_val1`;
    `none` is `disjoint = True`, otherwise `(start_s, end_s, start_t, end_t)` -/
def parallelParams (s0 s1 : K) : Option (K × K × K × K) :=
  if s0 ≤ s1 then
    if 1 < s0 then none
    else
      let (startS, startT) := if s0 < 0 then ((0 : K), -s0 / (s1 - s0)) else (s0, (0 : K))
      if s1 < 0 then none
      else
        let (endS, endT) := if 1 < s1 then ((1 : K), (1 - s0) / (s1 - s0)) else (s1, (1 : K))
        some (startS, endS, startT, endT)
  else
    if s0 < 0 then none
    else
      let (startS, startT) := if 1 < s0 then ((1 : K), (s0 - 1) / (s0 - s1)) else (s0, (0 : K))
      if 1 < s1 then none
      else
        let (endS, endT) := if s1 < 0 then ((0 : K), s0 / (s0 - s1)) else (s1, (1 : K))
        some (startS, endS, startT, endT)

/-- `parallel_lines_parameters(start0, end0, start1, end1)`: `.ok none` is `disjoint = True`,
    `.ok (some (start_s, end_s, start_t, end_t))` the matrix `[[start_s, end_s], [start_t, end_t]]`.
    A degenerate first segment (`delta0 = 0`) passes the collinearity test and divides `0/0`:
    the code returns `disjoint = False` with NaN parameters – `Err.badInput` here. -/
def parallelLinesParameters (start0 end0 start1 end1 : Pt K) : Except Err (Option (K × K × K × K)) :=
  let delta0 := psub end0 start0
  let line0Const := cross start0 delta0
  let start1Against := cross start1 delta0
  if line0Const ≠ start1Against then .ok none
  else
    let norm0Sq := dot2 delta0 delta0
    if norm0Sq = 0 then .error .badInput
    else
      let sVal0 := dot2 (psub start1 start0) delta0 / norm0Sq
      let sVal1 := dot2 (psub end1 start0) delta0 / norm0Sq
      .ok (parallelParams sVal0 sVal1)

/-- `line_line_collide(line1, line2)` on the two columns of each `2 × 2` array -/
def lineLineCollide (a0 a1 b0 b1 : Pt K) : Except Err Bool :=
  match segmentIntersection a0 a1 b0 b1 with
  | some (s, t) => .ok (inInterval s 0 1 && inInterval t 0 1)
  | none =>
    match parallelLinesParameters a0 a1 b0 b1 with
    | .error e => .error e
    | .ok none => .ok false
    | .ok (some _) => .ok true

/-- `bbox_line_intersect(nodes, line_start, line_end)` -/
def bboxLineIntersect (nodes : List (List K)) (lineStart lineEnd : Pt K) : Except Err BoxType :=
  match bbox nodes with
  | .error e => .error e
  | .ok (left, right, bottom, top) =>
    if inInterval lineStart.1 left right && inInterval lineStart.2 bottom top then .ok .intersection
    else if inInterval lineEnd.1 left right && inInterval lineEnd.2 bottom top then .ok .intersection
    else
      let hit (e0 e1 : Pt K) : Bool :=
        match segmentIntersection e0 e1 lineStart lineEnd with
        | some (s, t) => inInterval s 0 1 && inInterval t 0 1
        | none => false
      -- bottom edge, right edge, top edge (the left edge is skipped by the code)
      if hit (left, bottom) (right, bottom) then .ok .intersection
      else if hit (right, bottom) (right, top) then .ok .intersection
      else if hit (right, top) (left, top) then .ok .intersection
      else .ok .disjoint

/-! ## `solve2x2`

`helpers.solve2x2` is modelled in `Model/Solve2x2.lean` (`Model.solve2x2 A B C D E F`, `none` = singular);
the op `solve2x2` of Driver/Ops/Helpers and the theorems of Props/C16 refer to that definition. -/

/-! ## convex hull -/

/-- lexicographic `<` on points (`x` first, then `y`) -/
def lexLt (p r : Pt K) : Bool := decide (p.1 < r.1) || (decide (p.1 = r.1) && decide (p.2 < r.2))

/-- insertion into a lexicographically sorted duplicate-free list -/
def insertUnique (p : Pt K) : List (Pt K) → List (Pt K)
  | [] => [p]
  | r :: rest =>
    if lexLt p r then p :: r :: rest
    else if p = r then r :: rest
    else r :: insertUnique p rest

/-- the *result* of `np.unique(points, axis=1)` followed by `sorted(tuple(column) …)`:
    the distinct columns in lexicographic order (NumPy's sort is external; any correct
    sort-and-deduplicate gives this list) -/
def Py.sortUnique (pts : List (Pt K)) : List (Pt K) := pts.foldr insertUnique []

/-- inner `while len(stack) >= 2: … pop()` of the monotone chain; the stack is stored with
    its top first -/
def chainPop (pts : List (Pt K)) (point2 : Pt K) : List Nat → List Nat
  | i1 :: i0 :: rest =>
    if 0 < crossProductCompare (getP pts i0) (getP pts i1) point2 then i1 :: i0 :: rest
    else chainPop pts point2 (i0 :: rest)
  | st => st

/-- Andrew's monotone chain exactly as coded in both implementations (they differ only in the
    `in_sorted` routine passed in): `lower = [0, 1]`, loop `index = 2 … n-1`;
    `upper = [n-1]`, loop `index = n-2 … 0` skipping interior members of `lower`;
    result `lower[:-1] ++ upper[:-1]`.  Only called with `n ≥ 3`. -/
def hullChain (inS : List Nat → Nat → Bool) (pts : List (Pt K)) : List (Pt K) :=
  let n := pts.length
  let lowerRev := (List.range' 2 (n - 2)).foldl
    (fun st index => index :: chainPop pts (getP pts index) st) [1, 0]
  let lower := lowerRev.reverse
  let upperRev := ((List.range (n - 1)).reverse).foldl
    (fun st index =>
      if decide (0 < index) && inS lower index then st
      else index :: chainPop pts (getP pts index) st) [n - 1]
  (lower.dropLast ++ upperRev.reverse.dropLast).map (getP pts)

/-- `simple_convex_hull` (Python) -/
def Py.convexHull (points : List (Pt K)) : List (Pt K) :=
  let uniq := Py.sortUnique points
  if uniq.length < 3 then uniq else hullChain Py.inSorted uniq

/-- `min_index`: 0-based position of the first lexicographically smallest point -/
def F90.minIndex (pts : List (Pt K)) : Nat :=
  (List.range' 1 (pts.length - 1)).foldl (fun m i =>
    if (getP pts i).1 < (getP pts m).1 then i
    else if (getP pts i).1 = (getP pts m).1 then
      (if (getP pts i).2 < (getP pts m).2 then i else m)
    else m) 0

/-- one iteration of the `do while (i <= num_uniques)` loop of `sort_in_place`; the state is
    `(points, num_uniques, i)` with `i` 1-based as in the Fortran.  The minimum `match` of
    `points(:, i:num_uniques)` is a duplicate iff it equals `points(:, i - 1)` (also when
    `match == i`): then it is moved past the end, `num_uniques` decreases and slot `i` is examined
    again; otherwise it is swapped into slot `i` (if `match /= i`) and `i` increases. -/
def F90.sortStep (st : List (Pt K) × Nat × Nat) : List (Pt K) × Nat × Nat :=
  let (pts, numUniques, i) := st
  if i ≤ numUniques then
    -- `min_index(num_uniques + 1 - i, points(:, i:num_uniques), match)`; `match += i - 1`
    let slice := (pts.drop (i - 1)).take (numUniques + 1 - i)
    let match_ := (F90.minIndex slice + 1) + i - 1
    let swap := getP pts (match_ - 1)
    if swap = getP pts (i - 2) then
      let pts1 := pts.set (match_ - 1) (getP pts (numUniques - 1))
      (pts1.set (numUniques - 1) swap, numUniques - 1, i)
    else
      let pts2 := if match_ ≠ i then (pts.set (match_ - 1) (getP pts (i - 1))).set (i - 1) swap else pts
      (pts2, numUniques, i + 1)
  else st

/-- `sort_in_place(num_points, points, num_uniques)`: the array after the routine and `num_uniques`.
    Every iteration of the `do while` decreases `num_uniques - i` by one, so it runs at most
    `num_points - 1` times (the fuel; further steps leave the state unchanged). -/
def F90.sortInPlace (pts : List (Pt K)) : List (Pt K) × Nat :=
  let n := pts.length
  let m := F90.minIndex pts
  let pts0 := if m ≠ 0 then (pts.set m (getP pts 0)).set 0 (getP pts m) else pts
  let r := iter F90.sortStep (n - 1) (pts0, n, 2)
  (r.1, r.2.1)

/-- `simple_convex_hull` (Fortran `convex_hull`) -/
def F90.convexHull (points : List (Pt K)) : List (Pt K) :=
  let (arr, numUniques) := F90.sortInPlace points
  let uniques := arr.take numUniques
  if numUniques < 3 then uniques else hullChain F90.inSorted uniques

/-! ### historical variant (before the repair of `sort_in_place`)

Kept only for the decided counter-examples of Props/C16Hull (`hull_old_differs`, …): the old loop
made the duplicate test only when `match /= i` and did not re-examine slot `i` after removing a
duplicate, so that repeated input points could leave the array unsorted.  Not used by the driver. -/

/-- HISTORICAL (tree before the repair of `sort_in_place`, see `F90.convexHullOld`):
    one pass of the `do while (i <= num_uniques)` body of the old `sort_in_place` (`i` 1-based as in the
    Fortran; the guard is re-tested so that running `i = 2 … num_points` is the `do while`) -/
def F90.sortStepOld (st : List (Pt K) × Nat) (i : Nat) : List (Pt K) × Nat :=
  let (pts, numUniques) := st
  if i ≤ numUniques then
    -- `min_index(num_uniques + 1 - i, points(:, i:num_uniques), match)`; `match += i - 1`
    let slice := (pts.drop (i - 1)).take (numUniques + 1 - i)
    let match_ := (F90.minIndex slice + 1) + i - 1
    if match_ ≠ i then
      let swap := getP pts (match_ - 1)
      if swap = getP pts (i - 2) then
        -- "this means `match` is a duplicate"
        let pts1 := pts.set (match_ - 1) (getP pts (numUniques - 1))
        (pts1.set (numUniques - 1) swap, numUniques - 1)
      else
        let pts1 := pts.set (match_ - 1) (getP pts (i - 1))
        (pts1.set (i - 1) swap, numUniques)
    else (pts, numUniques)
  else (pts, numUniques)

/-- HISTORICAL: the old `sort_in_place(num_points, points, num_uniques)`.
    Faithful, including what it does with repeated points: the duplicate test is only made when
    `match /= i`, and after removing a duplicate position `i` is not re-examined. -/
def F90.sortInPlaceOld (pts : List (Pt K)) : List (Pt K) × Nat :=
  let n := pts.length
  let m := F90.minIndex pts
  let pts0 := if m ≠ 0 then (pts.set m (getP pts 0)).set 0 (getP pts m) else pts
  (List.range' 2 (n - 1)).foldl F90.sortStepOld (pts0, n)

/-- HISTORICAL: `simple_convex_hull` (Fortran) with the old `sort_in_place` -/
def F90.convexHullOld (points : List (Pt K)) : List (Pt K) :=
  let (arr, numUniques) := F90.sortInPlaceOld points
  let uniques := arr.take numUniques
  if numUniques < 3 then uniques else hullChain F90.inSorted uniques

/-! ## separating axis test -/

/-- `(min_param, max_param)` of `cross(direction, vertex) / norm_squared` over the vertices;
    `none` for no vertex (Python: `(inf, -inf)`) -/
def paramRange (direction : Pt K) (normSquared : K) : List (Pt K) → Option (K × K)
  | [] => none
  | v :: vs =>
    let p0 := cross direction v / normSquared
    some (vs.foldl (fun (acc : K × K) w =>
      let param := cross direction w / normSquared
      (minK acc.1 param, maxK acc.2 param)) (p0, p0))

/-- `params[0][0] > params[1][1] or params[0][1] < params[1][0]` (`none` = `(inf, -inf)`) -/
def sepRanges : Option (K × K) → Option (K × K) → Bool
  | some (min1, max1), some (min2, max2) => decide (max2 < min1) || decide (max1 < min2)
  | _, _ => true

/-- edge directions in the order both implementations visit them:
    `polygon[:, index] - polygon[:, index - 1]` for `index = 0, 1, …` (index `-1` wraps) -/
def polygonEdgeDirs (poly : List (Pt K)) : List (Pt K) :=
  List.zipWith psub poly (poly.getLastD (0, 0) :: poly)

/-- `is_separating` (Python).  With `direction = 0` every `param` is `0/0 = NaN`;
    `min(inf, nan) = inf`, `max(-inf, nan) = -inf` (builtin `min`/`max` keep the first argument
    unless the comparison is true), so both ranges stay `(inf, -inf)` and `inf > -inf` holds:
    the routine answers `True`.  Transcribed as such. -/
def Py.isSeparating (direction : Pt K) (polygon1 polygon2 : List (Pt K)) : Bool :=
  let normSquared := direction.1 * direction.1 + direction.2 * direction.2
  if normSquared = 0 then true
  else sepRanges (paramRange direction normSquared polygon1) (paramRange direction normSquared polygon2)

/-- `polygon_collide` (Python) -/
def Py.polygonCollide (polygon1 polygon2 : List (Pt K)) : Bool :=
  !((polygonEdgeDirs polygon1 ++ polygonEdgeDirs polygon2).any (fun d => Py.isSeparating d polygon1 polygon2))

/-- `is_separating` (Fortran), both polygons non-empty.  With `edge_direction = 0` every
    `param` is NaN, the running minima / maxima start from NaN and stay NaN, and both
    comparisons are false: the routine answers `.FALSE.`.  Transcribed as such. -/
def F90.isSeparatingCore (direction : Pt K) (polygon1 polygon2 : List (Pt K)) : Bool :=
  let normSquared := dot2 direction direction
  if normSquared = 0 then false
  else sepRanges (paramRange direction normSquared polygon1) (paramRange direction normSquared polygon2)

/-- `is_separating` (Fortran): reads `polygon(:, 1)` unconditionally – an empty polygon is outside
    the routine's contract -/
def F90.isSeparating (direction : Pt K) (polygon1 polygon2 : List (Pt K)) : Except Err Bool :=
  if polygon1.isEmpty || polygon2.isEmpty then .error .badInput
  else .ok (F90.isSeparatingCore direction polygon1 polygon2)

/-- `polygon_collide` (Fortran): wrap-around edge first, then the others, polygon 1 then 2 -/
def F90.polygonCollide (polygon1 polygon2 : List (Pt K)) : Except Err Bool :=
  if polygon1.isEmpty || polygon2.isEmpty then .error .badInput
  else .ok (!((polygonEdgeDirs polygon1 ++ polygonEdgeDirs polygon2).any
    (fun d => F90.isSeparatingCore d polygon1 polygon2)))

/-- `convex_hull_collide` (Python) -/
def Py.convexHullCollide (nodes1 nodes2 : List (Pt K)) : Except Err Bool :=
  let polygon1 := Py.convexHull nodes1
  let polygon2 := Py.convexHull nodes2
  match polygon1, polygon2 with
  | [a0, a1], [b0, b1] => lineLineCollide a0 a1 b0 b1
  | _, _ => .ok (Py.polygonCollide polygon1 polygon2)

/-- `convex_hull_collide` (Fortran) -/
def F90.convexHullCollide (nodes1 nodes2 : List (Pt K)) : Except Err Bool :=
  let polygon1 := F90.convexHull nodes1
  let polygon2 := F90.convexHull nodes2
  match polygon1, polygon2 with
  | [a0, a1], [b0, b1] => lineLineCollide a0 a1 b0 b1
  | _, _ => F90.polygonCollide polygon1 polygon2

/-! ## clipping -/

/-- `compute_implicit_line(nodes)`: `(a, b, c)` of the line through the first and last node,
    not normalised (exactly as the library) -/
def computeImplicitLine (nodes : List (Pt K)) : Except Err (K × K × K) :=
  match nodes with
  | [] => .error .badInput
  | first :: _ =>
    let delta := psub (nodes.getLastD first) first
    .ok (-delta.2, delta.1, delta.2 * first.1 - delta.1 * first.2)

/-- `compute_fat_line(nodes)`: `(a, b, c, d_min, d_max)`; loop over the interior nodes with the
    code's `if … elif` update -/
def computeFatLine (nodes : List (Pt K)) : Except Err (K × K × K × K × K) :=
  match computeImplicitLine nodes with
  | .error e => .error e
  | .ok (a, b, c) =>
    let interior := (nodes.drop 1).dropLast
    let d := interior.foldl (fun (acc : K × K) p =>
      let currDist := a * p.1 + b * p.2 + c
      if currDist < acc.1 then (currDist, acc.2)
      else if acc.2 < currDist then (acc.1, currDist)
      else acc) ((0 : K), (0 : K))
    .ok (a, b, c, d.1, d.2)

/-- `_update_parameters(s_min, s_max, start0, end0, start1, end1)`;
    parallel segments raise `NotImplementedError` -/
def updateParameters (sMin sMax : K) (start0 end0 start1 end1 : Pt K) : Except Err (K × K) :=
  match segmentIntersection start0 end0 start1 end1 with
  | none => .error .notImplemented
  | some (s, t) =>
    if inInterval t 0 1 then
      let sMin' := if inInterval s 0 sMin then s else sMin
      let sMax' := if inInterval s sMax 1 then s else sMax
      .ok (sMin', sMax')
    else .ok (sMin, sMax)

/-- `_clip_range_polynomial`: `(index, a x_index + b y_index + c)` -/
def clipRangePolynomial (nodes : List (Pt K)) (a b c : K) : List (Pt K) :=
  (List.range nodes.length).map (fun index =>
    let p := getP nodes index
    (((index : Nat) : K), a * p.1 + b * p.2 + c))

/-- `clip_range(nodes1, nodes2)` with `DEFAULT_S_MIN = 1`, `DEFAULT_S_MAX = 0` (checked against the
    extracted constants in Tables/C16) -/
def clipRange (nodes1 nodes2 : List (Pt K)) : Except Err (K × K) :=
  match computeFatLine nodes1 with
  | .error e => .error e
  | .ok (a, b, c, dMin, dMax) =>
    if nodes2.isEmpty then .error .badInput
    else
      let polynomial := clipRangePolynomial nodes2 a b c
      let degree2 := nodes2.length - 1
      let deg : K := ((degree2 : Nat) : K)
      let startBottom : Pt K := (0, dMin)
      let endBottom : Pt K := (deg, dMin)
      let startTop : Pt K := (0, dMax)
      let endTop : Pt K := (deg, dMax)
      let first := (getP polynomial 0).2
      let last := (getP polynomial degree2).2
      let sMin0 : K := if dMin ≤ first ∧ first ≤ dMax then 0 else 1
      let sMax0 : K := if dMin ≤ last ∧ last ≤ dMax then 1 else 0
      let pairs := (List.range degree2).flatMap (fun startIndex =>
        (List.range' (startIndex + 1) (degree2 - startIndex)).map (fun endIndex => (startIndex, endIndex)))
      pairs.foldlM (fun (acc : K × K) (ie : Nat × Nat) =>
        match updateParameters acc.1 acc.2 startBottom endBottom
            (getP polynomial ie.1) (getP polynomial ie.2) with
        | .error e => .error e
        | .ok (m1, m2) =>
          updateParameters m1 m2 startTop endTop (getP polynomial ie.1) (getP polynomial ie.2))
        (sMin0, sMax0)

end Eq2

end Order

end BezierVerif.Model
