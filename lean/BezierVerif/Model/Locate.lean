import BezierVerif.Model.Basic
import BezierVerif.Model.Curve

/-!
# Model/Locate — `locate_point` for curves (curve_helpers.py / curve.f90)

Candidates `(start, end, nodes)`; `MAX_LOCATE_SUBDIVISIONS + 1` rounds of "keep the pieces whose
closed control-point box contains the point, split them in two"; then mean of all interval end
points, spread test (squared), one Newton step on the ORIGINAL nodes, clamp to `[0,1]`.
Python and Fortran (odd/even candidate buffers, `LOCATE_MISS`/`LOCATE_INVALID`) are the same
algorithm; the subdivision routine is a parameter so that either variant can be plugged in.
-/

namespace BezierVerif.Model

variable {K : Type} [Add K] [Sub K] [Mul K] [Div K] [Neg K] [OfNat K 0] [OfNat K 1] [NatCast K]
  [LT K] [DecidableLT K] [LE K] [DecidableLE K]

/-- `contains_nd`: closed bounding box of the control points, every coordinate -/
def containsRow (row : List K) (p : K) : Bool :=
  -- `min row ≤ p` ⇔ some entry is `≤ p`;  `p ≤ max row` ⇔ some entry is `≥ p`
  row.any (fun x => decide (x ≤ p)) && row.any (fun x => decide (p ≤ x))

def containsND (nodes : List (List K)) (point : List K) : Bool :=
  (List.zipWith containsRow nodes point).all id

/-- a candidate of the bisection -/
structure LocCand (K : Type) where
  start : K
  stop : K
  nodes : List (List K)

/-- one round: `update_candidates` -/
def locateRound (subdiv : List (List K) → List (List K) × List (List K)) (point : List K)
    (cands : List (LocCand K)) : List (LocCand K) :=
  cands.flatMap (fun c =>
    if containsND c.nodes point then
      let mid := (1 / (1 + 1) : K) * (c.start + c.stop)
      let lr := subdiv c.nodes
      [{ start := c.start, stop := mid, nodes := lr.1 }, { start := mid, stop := c.stop, nodes := lr.2 }]
    else [])

/-- result of the bisection stage -/
inductive LocResult (K : Type) where
  | miss                       -- no candidate survived: `None` / `LOCATE_MISS`
  | invalid                    -- spread too large: `ValueError` / `LOCATE_INVALID`
  | found (s : K)

/-- `locate_point` (curve).  `rounds = MAX_LOCATE_SUBDIVISIONS + 1`, `stdCapSq = LOCATE_STD_CAP²` -/
def locatePoint (subdiv : List (List K) → List (List K) × List (List K)) (thr rounds : Nat) (stdCapSq : K)
    (nodes : List (List K)) (point : List K) : LocResult K :=
  let cands := iter (locateRound subdiv point) rounds [{ start := 0, stop := 1, nodes := nodes }]
  if cands.isEmpty then .miss
  else
    let params := cands.map (·.start) ++ cands.map (·.stop)     -- order of the Fortran buffer; the mean does not depend on it
    let cnt : K := ((params.length : Nat) : K)
    let mean := params.foldl (· + ·) 0 / cnt
    let var := (params.foldl (fun acc p => acc + (p - mean) * (p - mean)) 0) / cnt
    if stdCapSq < var then .invalid
    else
      let s := newtonRefine thr nodes point mean
      if s < 0 then .found 0 else if 1 < s then .found 1 else .found s

end BezierVerif.Model
