import BezierVerif.Model.Basic
import BezierVerif.Model.Curve
import BezierVerif.Model.Triangle
import BezierVerif.Model.TriDeriv
import BezierVerif.Model.Locate
import BezierVerif.Model.Helpers

/-!
# Model/LocateTri — `locate_point` for triangles
(`hazmat/triangle_intersection.py`: `update_locate_candidates`, `mean_centroid`, `locate_point`,
`newton_refine`, `newton_refine_solve`; `triangle_intersection.f90`: `split_candidate`,
`update_candidates`, `locate_point`, `newton_refine`, `newton_refine_solve`)

A candidate is the 4-tuple of the code `(3·centroid_x, 3·centroid_y, width, nodes)` (Fortran:
`type LocateCandidate`).  The reference triangle is `(1, 1, 1, nodes)`.  One round keeps the
candidates whose closed control-point box contains the point (`contains_nd`) and replaces each by
its four quarters (`subdivide_nodes`), in the order A, B, C, D, with

    half_width = 0.5 * width
    A : (cx - half_width, cy - half_width,  half_width)
    B : (cx,              cy,              -half_width)      -- the middle triangle: NEGATIVE width
    C : (cx + width,      cy - half_width,  half_width)
    D : (cx - half_width, cy + width,       half_width)

`MAX_LOCATE_SUBDIVISIONS + 1` rounds (`range(MAX_LOCATE_SUBDIVISIONS + 1)` /
`do sub_index = 1, MAX_LOCATE_SUBDIVISIONS + 1`), `None` / `LOCATE_MISS` if no candidate is left,
otherwise `mean_centroid` (sum of the tripled centroids from `0.0`, divided by `3.0 * len`), ONE
`newton_refine` on the ORIGINAL nodes, an evaluation at the refined parameters, and a SECOND
`newton_refine` iff that value is not `vector_close` to the point (`eps = LOCATE_EPS`).  No clamp.

Python and Fortran differ (observably only through their sub-routines) in

* the subdivision routine (tables resp. closed forms / dictionary resp. workspace: parameter `subdiv`),
* `evaluate_barycentric` (binary64 resp. `integer(c_int)` running binomial: parameter `ev`),
* the argument order of `vector_close` (`actual, expected` resp. `point, actual`),
* the candidate loop: Python runs all rounds (on an empty list, too); Fortran returns as soon as a
  round leaves no candidate (`F90.triLocateRounds`), and keeps two alternating buffers (odd/even)
  that are read in the order written (same order A, B, C, D as Python's `extend`).
  Fortran writes `centroid_y` of C and `centroid_x` of D as copies of A's fields (same values).

A zero Newton denominator (the code then returns non-finite parameters) is `Err.badInput`.
-/

namespace BezierVerif.Model

variable {K : Type} [Add K] [Sub K] [Mul K] [Div K] [Neg K] [OfNat K 0] [OfNat K 1] [NatCast K]

/-! ## `subdivide_nodes` on whole nets (four pieces) -/

/-- the four pieces `nodes_a, nodes_b, nodes_c, nodes_d` -/
structure TriFour (K : Type) where
  a : List (List K)
  b : List (List K)
  c : List (List K)
  d : List (List K)

/-- `subdivide_nodes(nodes, degree)` (Python): every coordinate row, the four quarters -/
def Py.triSubdivideNodes (tables : Nat → Quarter → List (List K)) (W : SubWeights K) (degree : Nat)
    (nodes : List (List K)) : Except Err (TriFour K) :=
  match triMapE (fun r => Py.triSubdivideNodesRow tables W degree r .A) nodes with
  | .error e => .error e
  | .ok a =>
    match triMapE (fun r => Py.triSubdivideNodesRow tables W degree r .B) nodes with
    | .error e => .error e
    | .ok b =>
      match triMapE (fun r => Py.triSubdivideNodesRow tables W degree r .C) nodes with
      | .error e => .error e
      | .ok c =>
        match triMapE (fun r => Py.triSubdivideNodesRow tables W degree r .D) nodes with
        | .error e => .error e
        | .ok d => .ok ⟨a, b, c, d⟩

/-- `subdivide_nodes` (Fortran) -/
def F90.triSubdivideNodes (forms : Nat → Quarter → List (List K)) (W : SubWeights K) (degree : Nat)
    (nodes : List (List K)) : Except Err (TriFour K) :=
  .ok ⟨nodes.map (fun r => F90.triSubdivideNodesRow forms W degree r .A),
       nodes.map (fun r => F90.triSubdivideNodesRow forms W degree r .B),
       nodes.map (fun r => F90.triSubdivideNodesRow forms W degree r .C),
       nodes.map (fun r => F90.triSubdivideNodesRow forms W degree r .D)⟩

/-! ## candidates -/

/-- `(3·centroid_x, 3·centroid_y, width, nodes)` -/
structure TriCand (K : Type) where
  cx : K
  cy : K
  width : K
  nodes : List (List K)

/-- the four tuples appended by `update_locate_candidates` / written by `split_candidate` -/
def triSplitCand (c : TriCand K) (four : TriFour K) : List (TriCand K) :=
  let halfWidth := (1 / (1 + 1) : K) * c.width
  [ { cx := c.cx - halfWidth, cy := c.cy - halfWidth, width := halfWidth, nodes := four.a },
    { cx := c.cx, cy := c.cy, width := -halfWidth, nodes := four.b },
    { cx := c.cx + c.width, cy := c.cy - halfWidth, width := halfWidth, nodes := four.c },
    { cx := c.cx - halfWidth, cy := c.cy + c.width, width := halfWidth, nodes := four.d } ]

section Order
variable [LT K] [DecidableLT K] [LE K] [DecidableLE K]

/-- one round: `for candidate in candidates: update_locate_candidates(...)` /
    `update_candidates` (the subdivision is only called for candidates that pass the box test;
    an error of the subdivision of the first such candidate ends the computation) -/
def triLocateRound (subdiv : List (List K) → Except Err (TriFour K)) (point : List K) :
    List (TriCand K) → Except Err (List (TriCand K))
  | [] => .ok []
  | c :: rest =>
    if containsND c.nodes point then
      match subdiv c.nodes with
      | .error e => .error e
      | .ok four =>
        match triLocateRound subdiv point rest with
        | .error e => .error e
        | .ok more => .ok (triSplitCand c four ++ more)
    else triLocateRound subdiv point rest

/-- Python: `for _ in range(MAX_LOCATE_SUBDIVISIONS + 1)` – all rounds are run -/
def Py.triLocateRounds (subdiv : List (List K) → Except Err (TriFour K)) (point : List K) :
    Nat → List (TriCand K) → Except Err (List (TriCand K))
  | 0, cands => .ok cands
  | r+1, cands =>
    match triLocateRound subdiv point cands with
    | .error e => .error e
    | .ok next => Py.triLocateRounds subdiv point r next

/-- Fortran: `if (num_next_candidates == 0) return` inside the loop -/
def F90.triLocateRounds (subdiv : List (List K) → Except Err (TriFour K)) (point : List K) :
    Nat → List (TriCand K) → Except Err (List (TriCand K))
  | 0, cands => .ok cands
  | r+1, cands =>
    match triLocateRound subdiv point cands with
    | .error e => .error e
    | .ok next => if next.isEmpty then .ok [] else F90.triLocateRounds subdiv point r next

/-- `mean_centroid`: `sum_x`, `sum_y` accumulated from `0.0` in list order,
    `denom = 3.0 * len(candidates)` (Fortran: `sum(...%centroid_x) / (3.0_dp * num_candidates)`) -/
def triMeanCentroid (cands : List (TriCand K)) : K × K :=
  let sumX := cands.foldl (fun acc c => acc + c.cx) 0
  let sumY := cands.foldl (fun acc c => acc + c.cy) 0
  let denom := (1 + 1 + 1 : K) * ((cands.length : Nat) : K)
  (sumX / denom, sumY / denom)

variable [DecidableEq K]

/-- `newton_refine` (triangle) on top of an evaluation routine `ev degree nodes weights`;
    a zero denominator in `newton_refine_solve` (non-finite result in the code) is `badInput` -/
def newtonRefineTriE (ev : Nat → List (List K) → Bary K → List K) (degree : Nat)
    (nodes : List (List K)) (xVal yVal s t : K) : Except Err (K × K) :=
  let w := cartesian s t
  let p := ev degree nodes w
  let tx := seq p 0
  let ty := seq p 1
  if tx = xVal ∧ ty = yVal then .ok (s, t)
  else
    let jb := ev (degree - 1) (jacobianBoth degree nodes) w
    let a := seq jb 0; let b := seq jb 1; let c := seq jb 2; let d := seq jb 3
    let e := xVal - tx
    let f := yVal - ty
    let denom := a * d - b * c
    if denom = 0 then .error .badInput
    else .ok (s + (d * e - c * f) / denom, t + (a * f - b * e) / denom)

/-- the part of `locate_point` after the loop: `None` for an empty list, otherwise mean of the
    centroids, one Newton step, evaluation, `close actual` decides about the second Newton step -/
def triLocateFinish (ev : Nat → List (List K) → Bary K → List K) (close : List K → Bool)
    (degree : Nat) (nodes : List (List K)) (xVal yVal : K) (cands : List (TriCand K)) :
    Except Err (Option (K × K)) :=
  if cands.isEmpty then .ok none
  else
    let m := triMeanCentroid cands
    match newtonRefineTriE ev degree nodes xVal yVal m.1 m.2 with
    | .error e => .error e
    | .ok st =>
      let actual := ev degree nodes (cartesian st.1 st.2)
      if close actual then .ok (some st)
      else
        match newtonRefineTriE ev degree nodes xVal yVal st.1 st.2 with
        | .error e => .error e
        | .ok st2 => .ok (some st2)

/-- `locate_point(nodes, degree, x_val, y_val)` (Python).  `rounds = MAX_LOCATE_SUBDIVISIONS + 1`,
    `epsSq = LOCATE_EPS²`; `vector_close(actual.ravel(order="F"), expected, eps=LOCATE_EPS)` -/
def Py.locatePointTri (subdiv : List (List K) → Except Err (TriFour K)) (thr rounds : Nat) (epsSq : K)
    (degree : Nat) (nodes : List (List K)) (xVal yVal : K) : Except Err (Option (K × K)) :=
  match Py.triLocateRounds subdiv [xVal, yVal] rounds
      [{ cx := 1, cy := 1, width := 1, nodes := nodes }] with
  | .error e => .error e
  | .ok cands =>
    triLocateFinish (fun d n w => Py.evalBarycentric thr d n w)
      (fun actual => vectorCloseSq actual [xVal, yVal] epsSq) degree nodes xVal yVal cands

/-- `evaluate_barycentric` of `triangle.f90` with the declared type of `binom_val`:
    `integer(c_int)` (`realBinom = false`) or `real(c_double)` (`realBinom = true`) -/
def F90.evalBarycentricKind (realBinom : Bool) (thr degree : Nat) (nodes : List (List K)) (w : Bary K) :
    List K :=
  if realBinom then nodes.map (fun row => F90.evalBarycentricRowReal thr degree row w)
  else F90.evalBarycentric thr degree nodes w

/-- `locate_point` (Fortran, `BEZ_locate_point_triangle`); `vector_close(2, point, actual, LOCATE_EPS)` -/
def F90.locatePointTri (subdiv : List (List K) → Except Err (TriFour K)) (realBinom : Bool)
    (thr rounds : Nat) (epsSq : K) (degree : Nat) (nodes : List (List K)) (xVal yVal : K) :
    Except Err (Option (K × K)) :=
  match F90.triLocateRounds subdiv [xVal, yVal] rounds
      [{ cx := 1, cy := 1, width := 1, nodes := nodes }] with
  | .error e => .error e
  | .ok cands =>
    triLocateFinish (fun d n w => F90.evalBarycentricKind realBinom thr d n w)
      (fun actual => vectorCloseSq [xVal, yVal] actual epsSq) degree nodes xVal yVal cands

end Order

end BezierVerif.Model
