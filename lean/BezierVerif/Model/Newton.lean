import BezierVerif.Model.Basic
import BezierVerif.Model.Curve

/-!
# Model/Newton — Newton refinement of a curve–curve intersection
(`hazmat/intersection_helpers.py`: `NewtonSimpleRoot`, `NewtonDoubleRoot`, `newton_iterate`,
`full_newton_nonzero`, `full_newton`; `curve_intersection.f90`: `f_simple`, `f_double`,
`newton_iterate`, `full_newton_nonzero`, `full_newton`)

* norms only occur in comparisons and are modelled by their squares;
* the linear solver is a parameter (`solve`), instantiated with the transcription of `solve2x2`;
* `rnd` is applied to the iterates after every update (identity for the theorems; a dyadic rounding
  in the driver, because exact rational Newton iterates grow five-fold in bit length per step);
* the "linear convergence" cut: Python tests `index ≥ 4 ∧ 3·lu ≥ 2·(index+1)` (0-based; repaired in `ab67aa1`, before that
  `3·lu ≥ 2·index`: `Py.cutOld`), Fortran `i ≥ 5 ∧ 3·lu ≥ 2·i` (1-based): `Py.cut`, `F90.cut` (equal as functions).
-/

namespace BezierVerif.Model

variable {K : Type} [Add K] [Sub K] [Mul K] [Div K] [Neg K] [OfNat K 0] [OfNat K 1] [NatCast K]
  [LT K] [DecidableLT K] [LE K] [DecidableLE K] [DecidableEq K]

/-- a 2×2 system `[[a, b], [c, d]] · (x, y) = (e, f)`; `none` = singular -/
abbrev Solver (K : Type) := (K × K × K × K) → (K × K) → Option (K × K)

/-- what `evaluate_fn` returns: `none` when `F = 0` exactly, else `(lhs, rhs)` of the linear system -/
abbrev NewtonEval (K : Type) := K → K → Option ((K × K × K × K) × (K × K))

/-- first-derivative control net `(N-1) * (v_{j+1} - v_j)` -/
def derivNet (row : List K) : List K :=
  (diffs row).map (fun x => (((row.length - 1 : Nat) : K)) * x)

def evalRow (thr : Nat) (row : List K) (s : K) : K := evalBary thr row (1 - s) s

/-- `NewtonSimpleRoot.__call__` / `f_simple`: `F = B₁(s) − B₂(t)`, `J = [B₁'(s), −B₂'(t)]` -/
def newtonSimple (thr : Nat) (n1 n2 : List (List K)) : NewtonEval K := fun s t =>
  let x1 := n1.getD 0 []; let y1 := n1.getD 1 []
  let x2 := n2.getD 0 []; let y2 := n2.getD 1 []
  let f0 := evalRow thr x1 s - evalRow thr x2 t
  let f1 := evalRow thr y1 s - evalRow thr y2 t
  if f0 = 0 ∧ f1 = 0 then none
  else
    let a := evalRow thr (derivNet x1) s
    let c := evalRow thr (derivNet y1) s
    let b := -(evalRow thr (derivNet x2) t)
    let d := -(evalRow thr (derivNet y2) t)
    some ((a, b, c, d), (f0, f1))

/-- value of a derivative net that may be empty (`second_deriv.size == 0` ⇒ 0) -/
def evalRowOrZero (thr : Nat) (row : List K) (s : K) : K :=
  if row.isEmpty then 0 else evalRow thr row s

/-- `NewtonDoubleRoot.__call__` / `f_double`: `G = (F, B₁' × B₂')`, Gauss–Newton normal equations
    `JᵀJ δ = JᵀG` with the 3×2 Jacobian of `G` -/
def newtonDouble (thr : Nat) (n1 n2 : List (List K)) : NewtonEval K := fun s t =>
  let x1 := n1.getD 0 []; let y1 := n1.getD 1 []
  let x2 := n2.getD 0 []; let y2 := n2.getD 1 []
  let f0 := evalRow thr x1 s - evalRow thr x2 t
  let f1 := evalRow thr y1 s - evalRow thr y2 t
  let dx1 := evalRow thr (derivNet x1) s
  let dy1 := evalRow thr (derivNet y1) s
  let dx2 := evalRow thr (derivNet x2) t
  let dy2 := evalRow thr (derivNet y2) t
  let f2 := dx1 * dy2 - dy1 * dx2
  if f0 = 0 ∧ f1 = 0 ∧ f2 = 0 then none
  else
    let ddx1 := evalRowOrZero thr (derivNet (derivNet x1)) s
    let ddy1 := evalRowOrZero thr (derivNet (derivNet y1)) s
    let ddx2 := evalRowOrZero thr (derivNet (derivNet x2)) t
    let ddy2 := evalRowOrZero thr (derivNet (derivNet y2)) t
    -- rows of J: (dx1, -dx2), (dy1, -dy2), (B₁'' × B₂', B₁' × B₂'')
    let j00 := dx1; let j01 := -dx2
    let j10 := dy1; let j11 := -dy2
    let j20 := ddx1 * dy2 - ddy1 * dx2
    let j21 := dx1 * ddy2 - dy1 * ddx2
    let a := j00 * j00 + j10 * j10 + j20 * j20
    let b := j00 * j01 + j10 * j11 + j20 * j21
    let d := j01 * j01 + j11 * j11 + j21 * j21
    let e := j00 * f0 + j10 * f1 + j20 * f2
    let f := j01 * f0 + j11 * f1 + j21 * f2
    some ((a, b, b, d), (e, f))

/-- the "converging only linearly" cut of the Python loop (`index` 0-based) -/
def Py.cut (index lu : Nat) : Bool := decide (index ≥ 4) && decide (3 * lu ≥ 2 * (index + 1))

/-- HISTORICAL (tree before the repair `ab67aa1`): the Python loop compared with `2 * index` although `index + 1` updates
have occurred, and gave up one step early at the counter states (4,3), (6,4), (7,5), (9,6).  Kept only for the decided
counter-examples; not reachable from the driver. -/
def Py.cutOld (index lu : Nat) : Bool := decide (index ≥ 4) && decide (3 * lu ≥ 2 * index)
/-- the same test in the Fortran loop (`i = index + 1`) -/
def F90.cut (index lu : Nat) : Bool := decide (index + 1 ≥ 5) && decide (3 * lu ≥ 2 * (index + 1))

structure NewtonState (K : Type) where
  s : K
  t : K
  normPrevSq : Option K      -- ‖δ‖² of the previous step
  linear : Nat

inductive NewtonOutcome (K : Type) where
  | converged (s t : K)
  | failed (s t : K)

/-- `newton_iterate`; `ratioSq = NEWTON_ERROR_RATIO²`; `fuel = MAX_NEWTON_ITERATIONS` -/
def newtonIterate (solve : Solver K) (cut : Nat → Nat → Bool) (rnd : K → K) (ratioSq : K)
    (ev : NewtonEval K) (fuel : Nat) (s t : K) : NewtonOutcome K :=
  let rec go (remaining index : Nat) (st : NewtonState K) : NewtonOutcome K :=
    match remaining with
    | 0 => .failed st.s st.t
    | r + 1 =>
      match ev st.s st.t with
      | none => .converged st.s st.t
      | some (lhs, rhs) =>
        match solve lhs rhs with
        | none => .failed st.s st.t
        | some (ds, dt) =>
          let nuSq := ds * ds + dt * dt
          let sixteen : K := ((16 : Nat) : K)
          let lin := match st.normPrevSq with
            | some p => if index > 0 ∧ p < sixteen * nuSq then st.linear + 1 else st.linear   -- ‖δ‖ > ¼‖δ_prev‖
            | none => st.linear
          if cut index lin then .failed st.s st.t
          else
            let nsSq := st.s * st.s + st.t * st.t
            let s' := rnd (st.s - ds)
            let t' := rnd (st.t - dt)
            if nuSq < ratioSq * nsSq then .converged s' t'
            else go r (index + 1) { s := s', t := t', normPrevSq := some nuSq, linear := lin }
  go fuel 0 { s := s, t := t, normPrevSq := none, linear := 0 }

/-- `full_newton_nonzero`: simple-root iteration, then the double-root iteration from where it stopped -/
def fullNewtonNonzero (solve : Solver K) (cut : Nat → Nat → Bool) (rnd : K → K) (ratioSq : K) (thr fuel : Nat)
    (s : K) (n1 : List (List K)) (t : K) (n2 : List (List K)) : Except Err (K × K) :=
  match newtonIterate solve cut rnd ratioSq (newtonSimple thr n1 n2) fuel s t with
  | .converged s' t' => .ok (s', t')
  | .failed s' t' =>
    match newtonIterate solve cut rnd ratioSq (newtonDouble thr n1 n2) fuel s' t' with
    | .converged s'' t'' => .ok (s'', t'')
    | .failed _ _ => .error .notImplemented

/-- `full_newton`: parameters below `ZERO_THRESHOLD` are handled on the reversed curve -/
def fullNewton (solve : Solver K) (cut : Nat → Nat → Bool) (rnd : K → K) (ratioSq zeroThr : K) (thr fuel : Nat)
    (s : K) (n1 : List (List K)) (t : K) (n2 : List (List K)) : Except Err (K × K) :=
  let rev (n : List (List K)) := n.map List.reverse
  if s < zeroThr then
    if t < zeroThr then
      match fullNewtonNonzero solve cut rnd ratioSq thr fuel (1 - s) (rev n1) (1 - t) (rev n2) with
      | .ok (a, b) => .ok (1 - a, 1 - b)
      | .error e => .error e
    else
      match fullNewtonNonzero solve cut rnd ratioSq thr fuel (1 - s) (rev n1) t n2 with
      | .ok (a, b) => .ok (1 - a, b)
      | .error e => .error e
  else if t < zeroThr then
    match fullNewtonNonzero solve cut rnd ratioSq thr fuel s n1 (1 - t) (rev n2) with
    | .ok (a, b) => .ok (a, 1 - b)
    | .error e => .error e
  else fullNewtonNonzero solve cut rnd ratioSq thr fuel s n1 t n2

end BezierVerif.Model
