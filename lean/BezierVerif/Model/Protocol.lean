import BezierVerif.Model.Basic

/-!
# Model/Protocol — the hidden state behind the compiled intersection entry points

`src/python/bezier/_speedup.pyx` keeps three module globals that survive between calls

* `CURVES_WORKSPACE`        (`np.empty((2, 2), order="F")`, one *column* per intersection),
* `SEGMENT_ENDS_WORKSPACE`  (`np.empty(3, dtype=np.intc)`),
* `SEGMENTS_WORKSPACE`      (`np.empty(6, dtype=SEGMENT_DTYPE)`),

and the Fortran modules keep module-level allocatables (`INTERSECTIONS_WORKSPACE` in
`curve_intersection.f90`, `SEGMENT_ENDS_WORKSPACE` / `SEGMENTS_WORKSPACE` in
`triangle_intersection.f90`; `CANDIDATES_ODD/EVEN`, `POLYGON1/2` are scratch of the abstract inner
function and are not modelled).  All of these are *uninitialised* (`np.empty`, `allocate`) and keep
stale contents of earlier calls.

This file is a state machine of that hidden state.  The numerical work is a parameter:
`fc : CIn → CurveRes Out` is what `all_intersections` does with unlimited room (status word, the
`(s, t)` pairs it hands to `add_intersection`, the `coincident` flag), `ft : TIn → TriRes Seg` the same
for `triangles_intersect`.  Around them the model transcribes

* the Fortran writers into the module-level buffers (`add_intersection` with its duplicate scan over
  the cells written so far; prefix writes of `check_lines` / `interior_combine`),
* the `*_abi` routines (copy out only if the caller's buffer is large enough, else
  `Status_INSUFFICIENT_SPACE` with the needed count),
* the Cython wrappers `curve_intersections` (`allow_resize`) and `triangle_intersections`
  (`resizes_allowed = 2`, `_triangle_intersections_resize`, `_triangle_intersections_success`),
  the status → exception tables, `reset_*`, `free_*`, and the size accessors.

Core Lean only (no Mathlib).  A buffer is a `List` whose length is its capacity; a cell that was never
written holds whatever `Junk` says (arbitrary).
-/

namespace BezierVerif.Model.Protocol

open BezierVerif.Model

/-! ## status words (`status.f90`, `_status.pxd`; tied to the extracted values in `Tables/C14`) -/

def stSuccess : Int := 0
def stBadMultiplicity : Int := 1
def stNoConverge : Int := 2
def stInsufficientSpace : Int := 3
def stSameCurvature : Int := 4
def stBadInterior : Int := 5
def stEdgeEnd : Int := 6
def stSingular : Int := 7
def stUnknown : Int := 999

/-- every enum value of `status.f90`, in declaration order -/
def allStatusCodes : List Int :=
  [stSuccess, stBadMultiplicity, stNoConverge, stInsufficientSpace, stSameCurvature, stBadInterior,
   stEdgeEnd, stSingular, stUnknown]

/-- what a wrapper does with a status word -/
inductive Action where
  | ret                 -- build and return the result
  | resize              -- `Status.INSUFFICIENT_SPACE`: resize / retry logic
  | raise (e : Err)     -- raise the Python exception of class `e`
  deriving DecidableEq, Repr, Inhabited

/-- the `if / elif` chain of `_speedup.curve_intersections`, in source order -/
def curveTable : List (Int × Action) :=
  [ (stSuccess, .ret),
    (stNoConverge, .raise .valueError),            -- SUBDIVISION_NO_CONVERGE
    (stInsufficientSpace, .resize),
    (stBadMultiplicity, .raise .notImplemented) ]  -- NEWTON_NO_CONVERGE

/-- its `else:` branch (`TOO_MANY_TEMPLATE`: the status word is a candidate count) -/
def curveElse : Action := .raise .notImplemented

/-- the `if / elif` chain of `_speedup.triangle_intersections`, in source order -/
def triangleTable : List (Int × Action) :=
  [ (stSuccess, .ret),
    (stInsufficientSpace, .resize),
    (stNoConverge, .raise .valueError),
    (stBadMultiplicity, .raise .notImplemented),
    (stEdgeEnd, .raise .valueError),
    (stSameCurvature, .raise .notImplemented),
    (stBadInterior, .raise .runtimeError),
    (stUnknown, .raise .runtimeError) ]

def triangleElse : Action := .raise .notImplemented

/-- first matching branch of the chain, else the `else:` branch -/
def actionOf (table : List (Int × Action)) (dflt : Action) (status : Int) : Action :=
  match table.lookup status with
  | some a => a
  | none => dflt

def curveAction (status : Int) : Action := actionOf curveTable curveElse status
def triangleAction (status : Int) : Action := actionOf triangleTable triangleElse status

/-! ## buffers -/

/-- `buf(:n) = xs` with `n = xs.length`: the first cells are overwritten, the others keep their stale
contents.  (If `xs` is longer than `buf` the result is `xs`: the Fortran writers grow their
allocatable to exactly the needed size before writing.) -/
def writePrefix {α : Type} (xs buf : List α) : List α := xs ++ buf.drop xs.length

/-- contents of uninitialised memory: `out a i` is cell `i` of the `a`-th array handed out by
`np.empty` (arbitrary) -/
structure Junk (Out Seg : Type) where
  out : Nat → Nat → Out
  nat : Nat → Nat → Nat
  seg : Nat → Nat → Seg

/-- the hidden state -/
structure Hidden (Out Seg : Type) where
  /-- `_speedup.CURVES_WORKSPACE`, a cell is one column; `curves_workspace_size()` is the length -/
  curves : List Out
  /-- `_speedup.SEGMENT_ENDS_WORKSPACE` -/
  segEnds : List Nat
  /-- `_speedup.SEGMENTS_WORKSPACE` -/
  segs : List Seg
  /-- `curve_intersection.f90 :: INTERSECTIONS_WORKSPACE` (`[]` = not allocated) -/
  fInter : List Out
  /-- `triangle_intersection.f90 :: SEGMENT_ENDS_WORKSPACE` (`[]` = not allocated) -/
  fSegEnds : List Nat
  /-- `triangle_intersection.f90 :: SEGMENTS_WORKSPACE` (`[]` = not allocated) -/
  fSegs : List Seg
  /-- ghost: number of `np.empty` workspaces handed out so far (= number of `reset_*` effects) -/
  allocs : Nat

/-- the part of the state that Python can observe: `(curves_workspace_size(), triangle_workspace_sizes())` -/
def Hidden.sizes {Out Seg : Type} (h : Hidden Out Seg) : Nat × Nat × Nat :=
  (h.curves.length, h.segEnds.length, h.segs.length)

/-- module import: workspaces of the given sizes with arbitrary contents, nothing allocated in Fortran -/
def initial {Out Seg : Type} (j : Junk Out Seg) (w e s : Nat) : Hidden Out Seg :=
  { curves := (List.range w).map (j.out 0), segEnds := (List.range e).map (j.nat 1),
    segs := (List.range s).map (j.seg 2), fInter := [], fSegEnds := [], fSegs := [], allocs := 3 }

/-- `reset_curves_workspace(n)`: `CURVES_WORKSPACE = np.empty((2, n), order="F")` -/
def resetCurves {Out Seg : Type} (j : Junk Out Seg) (n : Nat) (h : Hidden Out Seg) : Hidden Out Seg :=
  { h with curves := (List.range n).map (j.out h.allocs), allocs := h.allocs + 1 }

/-- `reset_triangle_workspaces(segment_ends_size=n)` -/
def resetSegEnds {Out Seg : Type} (j : Junk Out Seg) (n : Nat) (h : Hidden Out Seg) : Hidden Out Seg :=
  { h with segEnds := (List.range n).map (j.nat h.allocs), allocs := h.allocs + 1 }

/-- `reset_triangle_workspaces(segments_size=n)` -/
def resetSegs {Out Seg : Type} (j : Junk Out Seg) (n : Nat) (h : Hidden Out Seg) : Hidden Out Seg :=
  { h with segs := (List.range n).map (j.seg h.allocs), allocs := h.allocs + 1 }

/-- `free_curve_intersections_workspace()`: deallocates the *Fortran* buffers only; the Cython
globals keep their size -/
def freeCurve {Out Seg : Type} (h : Hidden Out Seg) : Hidden Out Seg := { h with fInter := [] }

/-- `free_triangle_intersections_workspace()` -/
def freeTriangle {Out Seg : Type} (h : Hidden Out Seg) : Hidden Out Seg :=
  { h with fSegEnds := [], fSegs := [] }

/-! ## curve–curve intersection -/

/-- what `all_intersections` computes for one input, independent of any buffer -/
structure CurveRes (Out : Type) where
  /-- status word it ends with (never `INSUFFICIENT_SPACE`: that one is set by the `_abi` routine) -/
  status : Int
  /-- `true`: both curves are lines, `check_lines` writes the columns directly;
      `false`: the subdivision process hands `found` one by one to `add_intersection` -/
  direct : Bool
  /-- the `(s, t)` pairs, in the order they are produced -/
  found : List Out
  coincident : Bool

/-- `add_intersection(s, t, num_intersections, intersections)`: scan the `num` cells written so far for a
duplicate (`dup x y` is the `norm2 < NEWTON_ERROR_RATIO * norm_candidate` test), otherwise grow the
allocatable by one column if it is full and store the pair in cell `num`. -/
def addIntersection {Out : Type} (dup : Out → Out → Bool) (st : Nat × List Out) (x : Out) : Nat × List Out :=
  let num := st.1
  let buf := st.2
  if (buf.take num).any (fun y => dup x y) then (num, buf)
  else if num < buf.length then (num + 1, buf.set num x)
  else (num + 1, buf.take num ++ [x])

/-- the Fortran side of one call: `(num_intersections, INTERSECTIONS_WORKSPACE)` after
`all_intersections` ran on a buffer with stale contents `buf` -/
def fortranCurve {Out : Type} (dup : Out → Out → Bool) (r : CurveRes Out) (buf : List Out) : Nat × List Out :=
  if r.direct then (r.found.length, writePrefix r.found buf)
  else r.found.foldl (addIntersection dup) (0, buf)

/-- the columns `all_intersections` produces when it starts from an unallocated buffer -/
def curveOuts {Out : Type} (dup : Out → Out → Bool) (r : CurveRes Out) : List Out :=
  (fortranCurve dup r []).2

/-- `all_intersections_abi` (`BEZ_curve_intersections`): status word, `num_intersections`, new state -/
def curveABI {Out Seg : Type} (dup : Out → Out → Bool) (r : CurveRes Out) (h : Hidden Out Seg) :
    Int × Nat × Hidden Out Seg :=
  let fr := fortranCurve dup r h.fInter
  let num := fr.1
  let h1 := { h with fInter := fr.2 }
  if r.status ≠ stSuccess then (r.status, num, h1)
  else if h1.curves.length < num then (stInsufficientSpace, num, h1)
  else (stSuccess, num, { h1 with curves := writePrefix (fr.2.take num) h1.curves })

/-- outcome of one pass through a wrapper body -/
inductive Attempt (R : Type) where
  | done (r : Except Err R)
  | tooSmall (needed : Nat)

/-- body of `_speedup.curve_intersections` up to the `allow_resize` decision -/
def curveAttempt {Out Seg : Type} (dup : Out → Out → Bool) (r : CurveRes Out) (h : Hidden Out Seg) :
    Attempt (List Out × Bool) × Hidden Out Seg :=
  let a := curveABI dup r h
  let status := a.1
  let num := a.2.1
  let h1 := a.2.2
  match curveAction status with
  | .ret => (.done (.ok (h1.curves.take num, r.coincident)), h1)   -- `CURVES_WORKSPACE[:, :num_intersections]`
  | .raise e => (.done (.error e), h1)
  | .resize => (.tooSmall num, h1)

/-- `_speedup.curve_intersections` with `resizes` retries left (`allow_resize=True` is `1`,
`allow_resize=False` is `0`) -/
def curveCallN {Out Seg : Type} (dup : Out → Out → Bool) (j : Junk Out Seg) (r : CurveRes Out) :
    Nat → Hidden Out Seg → Except Err (List Out × Bool) × Hidden Out Seg
  | 0, h =>
    match curveAttempt dup r h with
    | (.done res, h1) => (res, h1)
    | (.tooSmall _, h1) => (.error .valueError, h1)               -- TOO_SMALL_TEMPLATE
  | k + 1, h =>
    match curveAttempt dup r h with
    | (.done res, h1) => (res, h1)
    | (.tooSmall n, h1) => curveCallN dup j r k (resetCurves j n h1)  -- `reset_curves_workspace(num_intersections)`; retry

/-- the public call (`allow_resize=True`) -/
def curveCall {Out Seg : Type} (dup : Out → Out → Bool) (j : Junk Out Seg) (r : CurveRes Out)
    (h : Hidden Out Seg) : Except Err (List Out × Bool) × Hidden Out Seg :=
  curveCallN dup j r 1 h

/-- SPECIFICATION: the value of a curve intersection call as a function of its input alone -/
def pureCurve {Out : Type} (dup : Out → Out → Bool) (r : CurveRes Out) : Except Err (List Out × Bool) :=
  match curveAction r.status with
  | .ret => .ok (curveOuts dup r, r.coincident)
  | .raise e => .error e
  | .resize => .error .valueError

/-- number of columns the call needs in `CURVES_WORKSPACE` (`0` when it raises) -/
def curveNeed {Out : Type} (dup : Out → Out → Bool) (r : CurveRes Out) : Nat :=
  if r.status = stSuccess then (curveOuts dup r).length else 0

/-! ## triangle–triangle intersection -/

inductive Contained where
  | neither | first | second
  deriving DecidableEq, Repr, Inhabited

/-- what `triangles_intersect` computes for one input, independent of any buffer -/
structure TriRes (Seg : Type) where
  status : Int
  contained : Contained
  /-- the curved polygons, each the list of its `CurvedPolygonSegment`s, in the order `interior_combine`
      emits them; `num_intersected` is the number of polygons -/
  polys : List (List Seg)

/-- `segment_ends`: running total of segments after each polygon (`[3, 7]` for a 3-gon and a 4-gon) -/
def cumEnds {Seg : Type} : Nat → List (List Seg) → List Nat
  | _, [] => []
  | acc, p :: ps => (acc + p.length) :: cumEnds (acc + p.length) ps

/-- value of the Python result of `triangle_intersections` (the six edge-node arrays are fresh arrays
computed from the arguments by `compute_edge_nodes` and are left out) -/
inductive TOut (Seg : Type) where
  | contained (first : Bool)            -- `(None, True, ())` / `(None, False, ())`
  | polys (ps : List (List Seg))        -- `(curved_polygons, None, all_edge_nodes)` or `([], None, ())`

/-- `triangles_intersect_abi` (`BEZ_triangle_intersections`): status word, `num_intersected`, new state -/
def triangleABI {Out Seg : Type} (r : TriRes Seg) (h : Hidden Out Seg) : Int × Nat × Hidden Out Seg :=
  -- `interior_combine` writes prefixes of the (grown as needed) module-level allocatables
  let h1 := { h with fSegEnds := writePrefix (cumEnds 0 r.polys) h.fSegEnds,
                     fSegs := writePrefix r.polys.flatten h.fSegs }
  let num := r.polys.length
  if r.status ≠ stSuccess then (r.status, num, h1)
  else if num = 0 then (stSuccess, num, h1)
  else if h1.segEnds.length < num then (stInsufficientSpace, num, h1)
  else
    -- `segment_ends(:num_intersected) = SEGMENT_ENDS_WORKSPACE(:num_intersected)`
    let ends := writePrefix (h1.fSegEnds.take num) h1.segEnds
    let h2 := { h1 with segEnds := ends }
    let numSeg := ends.getD (num - 1) 0          -- `segment_ends(num_intersected)`
    if h2.segs.length < numSeg then (stInsufficientSpace, num, h2)
    else (stSuccess, num, { h2 with segs := writePrefix (h2.fSegs.take numSeg) h2.segs })

/-- the loop of `_triangle_intersections_success` with its running `begin_index`:
polygon `i` is `SEGMENTS_WORKSPACE[begin_index:end_index]`, `end_index = SEGMENT_ENDS_WORKSPACE[i]` -/
def rebuildFrom {Seg : Type} (segs : List Seg) : Nat → List Nat → List (List Seg)
  | _, [] => []
  | beginIndex, endIndex :: rest =>
    ((segs.drop beginIndex).take (endIndex - beginIndex)) :: rebuildFrom segs endIndex rest

/-- what the wrapper decided after one pass: a result, or a resize request carrying `num_intersected` -/
def triangleAttempt {Out Seg : Type} (r : TriRes Seg) (h : Hidden Out Seg) :
    Attempt (TOut Seg) × Hidden Out Seg :=
  let a := triangleABI r h
  let status := a.1
  let num := a.2.1
  let h1 := a.2.2
  match triangleAction status with
  | .ret =>
    match r.contained with
    | .first => (.done (.ok (.contained true)), h1)
    | .second => (.done (.ok (.contained false)), h1)
    | .neither => (.done (.ok (.polys (rebuildFrom h1.segs 0 (h1.segEnds.take num)))), h1)
  | .raise e => (.done (.error e), h1)
  | .resize => (.tooSmall num, h1)

/-- the resize branch of `_triangle_intersections_resize` (`segment_ends_size` is the size the failed
attempt was made with) -/
def triangleResize {Out Seg : Type} (j : Junk Out Seg) (segmentEndsSize num : Nat) (h : Hidden Out Seg) :
    Hidden Out Seg :=
  if segmentEndsSize < num then resetSegEnds j num h
  else resetSegs j (h.segEnds.getD (num - 1) 0) h   -- `SEGMENT_ENDS_WORKSPACE[num_intersected - 1]`

/-- `_speedup.triangle_intersections(..., resizes_allowed)` -/
def triangleCallN {Out Seg : Type} (j : Junk Out Seg) (r : TriRes Seg) :
    Nat → Hidden Out Seg → Except Err (TOut Seg) × Hidden Out Seg
  | 0, h =>
    match triangleAttempt r h with
    | (.done res, h1) => (res, h1)
    | (.tooSmall _, h1) => (.error .valueError, h1)      -- SEGMENT_ENDS_TOO_SMALL / SEGMENTS_TOO_SMALL
  | k + 1, h =>
    match triangleAttempt r h with
    | (.done res, h1) => (res, h1)
    | (.tooSmall n, h1) => triangleCallN j r k (triangleResize j h.segEnds.length n h1)

/-- the literal default `resizes_allowed=2` of `_speedup.triangle_intersections` -/
def resizesAllowedDefault : Nat := 2

/-- the public call -/
def triangleCall {Out Seg : Type} (j : Junk Out Seg) (r : TriRes Seg) (h : Hidden Out Seg) :
    Except Err (TOut Seg) × Hidden Out Seg :=
  triangleCallN j r resizesAllowedDefault h

/-- SPECIFICATION: the value of a triangle intersection call as a function of its input alone -/
def pureTriangle {Seg : Type} (r : TriRes Seg) : Except Err (TOut Seg) :=
  match triangleAction r.status with
  | .ret =>
    match r.contained with
    | .first => .ok (.contained true)
    | .second => .ok (.contained false)
    | .neither => .ok (.polys r.polys)
  | .raise e => .error e
  | .resize => .error .valueError

/-- `(num_intersected, num_segments)` the call needs in the two workspaces (`(0, 0)` when it raises) -/
def triangleNeed {Seg : Type} (r : TriRes Seg) : Nat × Nat :=
  if r.status = stSuccess then (r.polys.length, r.polys.flatten.length) else (0, 0)

/-! ## the state machine -/

/-- the module-level constants of `_speedup.pyx`: `np.empty((2, 2))`, `np.empty(3)`, `np.empty(6)` -/
def curvesWorkspaceInit : Nat := 2
def segmentEndsWorkspaceInit : Nat := 3
def segmentsWorkspaceInit : Nat := 6

/-- the parameters: the two pure functions, the duplicate test, the contents of fresh memory -/
structure World (CIn TIn Out Seg : Type) where
  fc : CIn → CurveRes Out
  ft : TIn → TriRes Seg
  dup : Out → Out → Bool
  junk : Junk Out Seg

inductive Op (CIn TIn : Type) where
  | curve (inp : CIn)                   -- `curve_intersections(nodes1, nodes2)`
  | triangle (inp : TIn)                -- `triangle_intersections(nodes1, degree1, nodes2, degree2)`
  | freeCurve                           -- `free_curve_intersections_workspace()`
  | freeTriangle                        -- `free_triangle_intersections_workspace()`
  | curveSize                           -- `curves_workspace_size()`
  | triangleSizes                       -- `triangle_workspace_sizes()`
  | resetCurves (n : Nat)               -- `reset_curves_workspace(n)`
  | resetSegEnds (n : Nat)              -- `reset_triangle_workspaces(segment_ends_size=n)`
  | resetSegs (n : Nat)                 -- `reset_triangle_workspaces(segments_size=n)`

/-- the two computational entry points (the others only manage or read the hidden state) -/
def Op.isCall {CIn TIn : Type} : Op CIn TIn → Bool
  | .curve _ => true
  | .triangle _ => true
  | _ => false

inductive Res (Out Seg : Type) where
  | curve (r : Except Err (List Out × Bool))
  | triangle (r : Except Err (TOut Seg))
  | unit
  | size (n : Nat)
  | sizes (e s : Nat)

def step {CIn TIn Out Seg : Type} (W : World CIn TIn Out Seg) :
    Op CIn TIn → Hidden Out Seg → Res Out Seg × Hidden Out Seg
  | .curve inp, h => let c := curveCall W.dup W.junk (W.fc inp) h; (.curve c.1, c.2)
  | .triangle inp, h => let c := triangleCall W.junk (W.ft inp) h; (.triangle c.1, c.2)
  | .freeCurve, h => (.unit, freeCurve h)
  | .freeTriangle, h => (.unit, freeTriangle h)
  | .curveSize, h => (.size h.curves.length, h)
  | .triangleSizes, h => (.sizes h.segEnds.length h.segs.length, h)
  | .resetCurves n, h => (.unit, resetCurves W.junk n h)
  | .resetSegEnds n, h => (.unit, resetSegEnds W.junk n h)
  | .resetSegs n, h => (.unit, resetSegs W.junk n h)

/-- a history of operations: the results in order and the final state -/
def run {CIn TIn Out Seg : Type} (W : World CIn TIn Out Seg) :
    List (Op CIn TIn) → Hidden Out Seg → List (Res Out Seg) × Hidden Out Seg
  | [], h => ([], h)
  | op :: ops, h =>
    let s := step W op h
    let rest := run W ops s.2
    (s.1 :: rest.1, rest.2)

/-- SPECIFICATION of the observable behaviour: results are the pure values, the three sizes are running
maxima of what the calls needed (set by `reset_*`, untouched by `free_*`) -/
def specStep {CIn TIn Out Seg : Type} (W : World CIn TIn Out Seg) :
    Op CIn TIn → Nat × Nat × Nat → Res Out Seg × (Nat × Nat × Nat)
  | .curve inp, (w, e, s) => (.curve (pureCurve W.dup (W.fc inp)), (max w (curveNeed W.dup (W.fc inp)), e, s))
  | .triangle inp, (w, e, s) =>
    (.triangle (pureTriangle (W.ft inp)), (w, max e (triangleNeed (W.ft inp)).1, max s (triangleNeed (W.ft inp)).2))
  | .freeCurve, z => (.unit, z)
  | .freeTriangle, z => (.unit, z)
  | .curveSize, (w, e, s) => (.size w, (w, e, s))
  | .triangleSizes, (w, e, s) => (.sizes e s, (w, e, s))
  | .resetCurves n, (_, e, s) => (.unit, (n, e, s))
  | .resetSegEnds n, (w, _, s) => (.unit, (w, n, s))
  | .resetSegs n, (w, e, _) => (.unit, (w, e, n))

def specRun {CIn TIn Out Seg : Type} (W : World CIn TIn Out Seg) :
    List (Op CIn TIn) → Nat × Nat × Nat → List (Res Out Seg) × (Nat × Nat × Nat)
  | [], z => ([], z)
  | op :: ops, z =>
    let s := specStep W op z
    let rest := specRun W ops s.2
    (s.1 :: rest.1, rest.2)

/-- capacity of the Fortran allocatables `(INTERSECTIONS_WORKSPACE, SEGMENT_ENDS_WORKSPACE, SEGMENTS_WORKSPACE)`;
not observable from Python -/
def Hidden.fcaps {Out Seg : Type} (h : Hidden Out Seg) : Nat × Nat × Nat :=
  (h.fInter.length, h.fSegEnds.length, h.fSegs.length)

/-- how the Fortran capacities evolve: running maximum of what was produced, back to `0` on `free_*` -/
def fcapStep {CIn TIn Out Seg : Type} (W : World CIn TIn Out Seg) : Op CIn TIn → Nat × Nat × Nat → Nat × Nat × Nat
  | .curve inp, (a, b, c) => (max a (curveOuts W.dup (W.fc inp)).length, b, c)
  | .triangle inp, (a, b, c) => (a, max b (W.ft inp).polys.length, max c (W.ft inp).polys.flatten.length)
  | .freeCurve, (_, b, c) => (0, b, c)
  | .freeTriangle, (a, _, _) => (a, 0, 0)
  | _, z => z

end BezierVerif.Model.Protocol
