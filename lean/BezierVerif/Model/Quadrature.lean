import BezierVerif.Model.Basic
import BezierVerif.Model.Curve

/-!
# Model/Quadrature — the non-adaptive core of the length quadrature

`compute_length` (curve.f90) integrates the speed `‖B'(s)‖₂` over `[0, 1]` with QUADPACK's
`dqagse`, whose FIRST action is one call of the 21-point Gauss–Kronrod rule `dqk21` on the whole
interval, followed by an acceptance test.  Transcribed here, statement by statement and with the
running variables of the Fortran source (quadpack.f90):

* `qk21`          – `dqk21`: `centr`, `hlgth`, `dhlgth`, `fc`, the loop over the Gauss nodes
                    (`jtw = 2j`), the loop over the added Kronrod nodes (`jtwm1 = 2j − 1`), `reskh`,
                    the `resasc` loop, `result`, `resabs`, `resasc` and the raw error
                    `|(resk − resg)·hlgth|`;
* `qk21Abserr`    – the error heuristic at the end of `dqk21`; the real power `x ↦ x^1.5` is
                    external and enters as the parameter `pow15`;
* `agseFirstStep` – the statements of `dqagse` up to and including the first exit test
                    (`go to 140`): `ier`, `errbnd`, and whether the routine returns after one call;
* `lengthSpeed`, `lengthFirstStep` – the integrand closure `vec_size` of `compute_length`
                    (`norm2 ∘ evaluate_multi(first_deriv, ·)`; `sqrt` is external: parameter
                    `sqrtK`) and the first step of `compute_length`, with its closed-form branches.

NOT modelled: the bisection loop of `dqagse` (`do 90 last = 2,limit`), `dqelg`, `dqpsrt`.
The tables `wg`, `wgk`, `xgk` are parameters (`QKTables`); the extracted literals are
`Generated.qp_wg / qp_wgk / qp_xgk` (harness/extract_quadpack.py), see Tables/C12Quad.
-/

namespace BezierVerif.Model.Quad

open BezierVerif.Model

variable {K : Type} [Add K] [Sub K] [Mul K] [Div K] [Neg K] [OfNat K 0] [OfNat K 1] [NatCast K]
  [LT K] [DecidableLT K] [LE K] [DecidableLE K]

/-- `abs` -/
def qabs (x : K) : K := if x < 0 then -x else x
/-- `max` -/
def qmax (a b : K) : K := if a < b then b else a
/-- `min` -/
def qmin (a b : K) : K := if b < a then b else a

/-- `x ** m` for the monomial test integrands -/
def qpow (x : K) : Nat → K
  | 0 => 1
  | m+1 => qpow x m * x

/-- a polynomial integrand given by its power-basis coefficients `c₀, c₁, …` (Horner) -/
def polyEval : List K → K → K
  | [], _ => 0
  | c :: cs, x => c + x * polyEval cs x

/-- the literal tables of `dqk21`: `wg(1..5)`, `wgk(1..11)`, `xgk(1..11)` -/
structure QKTables (K : Type) where
  wg : List K
  wgk : List K
  xgk : List K

/-- running variables of the two node loops of `dqk21` -/
structure QKState (K : Type) where
  resg : K
  resk : K
  resabs : K
  fv1 : List K
  fv2 : List K

/-- what `dqk21` has computed before the error heuristic -/
structure QK21 (K : Type) where
  result : K
  /-- `abs((resk − resg)·hlgth)`: `abserr` before the rescaling -/
  rawErr : K
  resabs : K
  resasc : K
  resk : K
  resg : K
  reskh : K
  deriving Repr

/-- body of the first loop, `j = 1..5` (`jtw = 2*j`: the Gauss nodes) -/
def gaussStep (T : QKTables K) (f : K → K) (centr hlgth : K) (st : QKState K) (j : Nat) : QKState K :=
  let jtw := 2 * j
  let absc := hlgth * seq T.xgk (jtw - 1)
  let fval1 := f (centr - absc)
  let fval2 := f (centr + absc)
  let fsum := fval1 + fval2
  { resg := st.resg + seq T.wg (j - 1) * fsum
    resk := st.resk + seq T.wgk (jtw - 1) * fsum
    resabs := st.resabs + seq T.wgk (jtw - 1) * (qabs fval1 + qabs fval2)
    fv1 := st.fv1.set (jtw - 1) fval1
    fv2 := st.fv2.set (jtw - 1) fval2 }

/-- body of the second loop, `j = 1..5` (`jtwm1 = 2*j-1`: the added Kronrod nodes) -/
def kronrodStep (T : QKTables K) (f : K → K) (centr hlgth : K) (st : QKState K) (j : Nat) : QKState K :=
  let jtwm1 := 2 * j - 1
  let absc := hlgth * seq T.xgk (jtwm1 - 1)
  let fval1 := f (centr - absc)
  let fval2 := f (centr + absc)
  let fsum := fval1 + fval2
  { resg := st.resg
    resk := st.resk + seq T.wgk (jtwm1 - 1) * fsum
    resabs := st.resabs + seq T.wgk (jtwm1 - 1) * (qabs fval1 + qabs fval2)
    fv1 := st.fv1.set (jtwm1 - 1) fval1
    fv2 := st.fv2.set (jtwm1 - 1) fval2 }

/-- `do j = 1, n` -/
def doLoop {σ : Type} (n : Nat) (body : σ → Nat → σ) (init : σ) : σ :=
  (List.range n).foldl (fun st j0 => body st (j0 + 1)) init

/-- `dqk21(f, a, b, result, abserr, resabs, resasc)` without the final error heuristic -/
def qk21 (T : QKTables K) (f : K → K) (a b : K) : QK21 K :=
  let half : K := 1 / (1 + 1)                       -- 0.5D+00
  let centr := half * (a + b)
  let hlgth := half * (b - a)
  let dhlgth := qabs hlgth
  let fc := f centr
  let resk0 := seq T.wgk 10 * fc                    -- wgk(11)*fc
  let st0 : QKState K :=
    { resg := 0, resk := resk0, resabs := qabs resk0,
      fv1 := List.replicate 10 0, fv2 := List.replicate 10 0 }
  let st1 := doLoop 5 (gaussStep T f centr hlgth) st0
  let st2 := doLoop 5 (kronrodStep T f centr hlgth) st1
  let reskh := st2.resk * half
  let resasc0 := seq T.wgk 10 * qabs (fc - reskh)
  let resasc := doLoop 10 (fun acc j =>
    acc + seq T.wgk (j - 1) * (qabs (seq st2.fv1 (j - 1) - reskh) + qabs (seq st2.fv2 (j - 1) - reskh))) resasc0
  { result := st2.resk * hlgth
    rawErr := qabs ((st2.resk - st2.resg) * hlgth)
    resabs := st2.resabs * dhlgth
    resasc := resasc * dhlgth
    resk := st2.resk
    resg := st2.resg
    reskh := reskh }

/-- the error heuristic closing `dqk21`:
    `if (resasc ≠ 0 ∧ abserr ≠ 0) abserr = resasc*min(1, (200*abserr/resasc)**1.5)`,
    `if (resabs > uflow/(50*epmach)) abserr = max((epmach*50)*resabs, abserr)`;
    `pow15` stands for the external real power `x ↦ x**1.5D+00` -/
def qk21Abserr [DecidableEq K] (pow15 : K → K) (epmach uflow : K) (r : QK21 K) : K :=
  let c200 : K := ((200 : Nat) : K)
  let c50 : K := ((50 : Nat) : K)
  let abserr := r.rawErr
  let abserr := if r.resasc ≠ 0 ∧ abserr ≠ 0 then r.resasc * qmin 1 (pow15 (c200 * abserr / r.resasc)) else abserr
  if uflow / (c50 * epmach) < r.resabs then qmax ((epmach * c50) * r.resabs) abserr else abserr

/-- outcome of the statements of `dqagse` up to its first exit test -/
structure FirstStep (K : Type) where
  result : K
  abserr : K
  ier : Nat
  /-- `true`: `go to 140` is taken, i.e. `dqagse` returns after this single `dqk21` call (`last = 1`) -/
  done : Bool
  deriving Repr, DecidableEq

/-- `dqagse(f, a, b, epsabs, epsrel, limit, …)` up to `go to 140`.
    `call dqk21(f,a,b,result,abserr,defabs,resabs)`: `defabs` receives dqk21's `resabs`, the local
    `resabs` receives dqk21's `resasc`.  `floor28` is the literal `0.5d-28` of the `ier = 6` guard. -/
def agseFirstStep [DecidableEq K] (pow15 : K → K) (epmach uflow floor28 : K) (T : QKTables K) (f : K → K)
    (a b epsabs epsrel : K) (limit : Nat) : FirstStep K :=
  let c50 : K := ((50 : Nat) : K)
  let c100 : K := ((100 : Nat) : K)
  if epsabs ≤ 0 ∧ epsrel < qmax (c50 * epmach) floor28 then
    { result := 0, abserr := 0, ier := 6, done := true }
  else
    let r := qk21 T f a b
    let result := r.result
    let abserr := qk21Abserr pow15 epmach uflow r
    let defabs := r.resabs
    let resabs := r.resasc
    let dres := qabs result
    let errbnd := qmax epsabs (epsrel * dres)
    let ier := if abserr ≤ c100 * epmach * defabs ∧ errbnd < abserr then 2 else 0
    let ier := if limit = 1 then 1 else ier
    let done := decide (ier ≠ 0) || (decide (abserr ≤ errbnd) && decide (abserr ≠ resabs)) || decide (abserr = 0)
    { result := result, abserr := abserr, ier := ier, done := done }

/-! ## the integrand of `compute_length` -/

/-- `first_deriv = (num_nodes - 1) * (nodes(:, 2:) - nodes(:, :num_nodes - 1))`, one row -/
def firstDerivRow (row : List K) : List K :=
  (diffs row).map (fun d => (((row.length - 1 : Nat)) : K) * d)

/-- the closure `vec_size(s)`: `norm2(evaluate_multi(first_deriv, [s]))`; `sqrtK` = external `sqrt` -/
def lengthSpeed (sqrtK : K → K) (thr : Nat) (nodes : List (List K)) (s : K) : K :=
  sqrtK (((nodes.map firstDerivRow).map (fun r => evalBary thr r (1 - s) s)).foldl (fun acc d => acc + d * d) 0)

/-- `compute_length` with the quadrature cut after the first `dqk21` call:
    no node → error, one node → `0`, two nodes → `norm2(first_deriv)`, otherwise the first step of
    `dqagse(vec_size, 0, 1, epsabs, epsrel, limit, …)` -/
def lengthFirstStep [DecidableEq K] (sqrtK pow15 : K → K) (epmach uflow floor28 : K) (T : QKTables K)
    (thr : Nat) (epsabs epsrel : K) (limit : Nat) (nodes : List (List K)) : Except Err (FirstStep K) :=
  match ncols nodes with
  | 0 => .error .valueError
  | 1 => .ok { result := 0, abserr := 0, ier := 0, done := true }
  | 2 => .ok { result := sqrtK ((nodes.map firstDerivRow).foldl (fun acc r => acc + seq r 0 * seq r 0) 0),
               abserr := 0, ier := 0, done := true }
  | _ => .ok (agseFirstStep pow15 epmach uflow floor28 T (lengthSpeed sqrtK thr nodes) 0 1 epsabs epsrel limit)

/-! ## obligations on a table (checked for the extracted literals in Tables/C12Quad) -/

/-- the Kronrod rule applied to `t ↦ t^m` on `[-1, 1]`, minus the exact moment `2/(m+1)` -/
def kronrodMomentDefect (T : QKTables K) (m : Nat) : K :=
  (qk21 T (fun t => qpow t m) (-1) 1).result - (1 + 1) / ((m + 1 : Nat) : K)

/-- the embedded Gauss rule (`resg·hlgth`) applied to `t ↦ t^m` on `[-1, 1]`, minus `2/(m+1)` -/
def gaussMomentDefect (T : QKTables K) (m : Nat) : K :=
  (qk21 T (fun t => qpow t m) (-1) 1).resg - (1 + 1) / ((m + 1 : Nat) : K)

/-- `|defect| ≤ eps` for every even `m < n` -/
def kronrodMomentsOK (T : QKTables K) (n : Nat) (eps : K) : Bool :=
  (List.range n).all (fun m => m % 2 == 1 || decide (qabs (kronrodMomentDefect T m) ≤ eps))

def gaussMomentsOK (T : QKTables K) (n : Nat) (eps : K) : Bool :=
  (List.range n).all (fun m => m % 2 == 1 || decide (qabs (gaussMomentDefect T m) ≤ eps))

/-- shape of the tables, positivity of the weights, nodes strictly decreasing in `(0,1)` down to
    `xgk(11) = 0` -/
def shapeOK (T : QKTables K) : Bool :=
  T.wg.length == 5 && T.wgk.length == 11 && T.xgk.length == 11

def weightsPositive (T : QKTables K) : Bool :=
  T.wg.all (fun w => decide (0 < w)) && T.wgk.all (fun w => decide (0 < w))

def strictlyDecreasing : List K → Bool
  | x :: y :: rest => decide (y < x) && strictlyDecreasing (y :: rest)
  | _ => true

def nodesOK [DecidableEq K] (T : QKTables K) : Bool :=
  strictlyDecreasing T.xgk && (T.xgk.take 10).all (fun x => decide (0 < x) && decide (x < 1))
    && decide (seq T.xgk 10 = 0)

end BezierVerif.Model.Quad
