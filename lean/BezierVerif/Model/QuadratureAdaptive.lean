import BezierVerif.Model.Basic
import BezierVerif.Model.Curve
import BezierVerif.Model.Quadrature

/-!
# Model/QuadratureAdaptive — the adaptive part of the length quadrature (QUADPACK `dqagse`)

`Model/Quadrature.lean` transcribes `dqk21` and the first step of `dqagse`.  This file transcribes,
statement by statement and with the running variables and the GOTO structure of
`src/fortran/quadpack.f90` turned into explicit state machines (fuel = the code's own loop bounds):

* `dqpsrt`   – `psrtUp` (the `do i = 1,ido` loop moving `nrmax` up), `psrtDown` (top-down insertion of
               `errmax`, exit `go to 60`), `psrtBottom` (bottom-up insertion of `errmin`, exit
               `go to 80`), `jupbn` / `jbnd`, label 90 (`maxerr = iord(nrmax)`, `ermax = elist(maxerr)`);
* `dqelg`    – the epsilon algorithm: `epstab(52)`, `res3la(3)`, `nres`, `n` (in/out), the loop
               `do 40 i = 1,newelm` (`elgStep`, exits `go to 100` = converged, `go to 50` via label 20,
               label 30 = new element), the `limexp` shift at label 50, both copy loops, labels
               80 / 90 / 100 with the `abserr` formula;
* `dqagse`   – initialisation, the main loop `do 90 last = 2,limit` as `agseBisect` (statements up to and
               including `call dqpsrt`) followed by `agseControl` (the exit tests, `erlarg`, the search
               `do k = id,jupbnd` = `agseSeek`, labels 60–70 = `agseLabel60`, `agseExtrapolate`, `agseLabel70`, label 80), and the
               final part (labels 100, 105, 110, 115, 130, 140) as `agseFinal`.

Arrays are 1-based as in the source (`get1`, `set1`, `geti`, `seti`).  External real functions stay
parameters: the integrand `f`, the power `pow15` of `dqk21`'s error heuristic; `abs`, `max`, `min` are
`qabs`, `qmax`, `qmin` of Model/Quadrature.  The numeric literals of the three routines are the fields
of `AgseConsts` (extracted from the source by harness/extract_quadpack_adaptive.py, tied to
`AgseConsts.default` in Tables/C12QuadAdaptive).  `oflow = huge(…)`, `uflow = tiny(…)`,
`epmach = epsilon(…)` are parameters.

The Fortran `do` loop that runs to completion would continue at label 100 with `last = limit + 1`;
the model does the same (`LoopExit.exhausted`), and `C12.agse_total` shows that this never happens.
-/

namespace BezierVerif.Model.Quad

open BezierVerif.Model

variable {K : Type} [Add K] [Sub K] [Mul K] [Div K] [Neg K] [OfNat K 0] [OfNat K 1] [NatCast K]
  [LT K] [DecidableLT K] [LE K] [DecidableLE K]

/-! ## 1-based arrays -/

/-- `l(i)` of a real array -/
def get1 (l : List K) (i : Nat) : K := seq l (i - 1)
/-- `l(i) = v` -/
def set1 (l : List K) (i : Nat) (v : K) : List K := l.set (i - 1) v
/-- `l(i)` of an integer array -/
def geti (l : List Nat) (i : Nat) : Nat := l.getD (i - 1) 0
/-- `l(i) = v` of an integer array -/
def seti (l : List Nat) (i : Nat) (v : Nat) : List Nat := l.set (i - 1) v

/-! ## the numeric literals of `dqagse` and `dqelg` -/

structure AgseConsts (K : Type) where
  /-- `0.5D+00` (bisection point, `small = small*0.5`) -/
  half : K
  /-- `0.5D+02` (`ier = 6` guard and the `ksgn` test) -/
  c50 : K
  /-- `0.5d-28` -/
  floor28 : K
  /-- `1.0D+02` in `abserr.le.1.0D+02*epmach*defabs` -/
  c100 : K
  /-- `0.1D+01` of the `ksgn` test and of the bad-behaviour test -/
  one : K
  /-- `0.1D-04` in `abs(rlist(maxerr)-area12).gt.0.1D-04*abs(area12)` -/
  roffRel : K
  /-- `0.99D+00` in `erro12.lt.0.99D+00*errmax` -/
  roffShrink : K
  /-- `last.gt.10` -/
  iroff3From : Nat
  /-- `iroff1+iroff2.ge.10` -/
  iroff12Max : Nat
  /-- `iroff3.ge.20` -/
  iroff3Max : Nat
  /-- `iroff2.ge.5` -/
  iroff2Max : Nat
  /-- `0.1D+03` in `(0.1D+01+0.1D+03*epmach)` -/
  badEps : K
  /-- `0.1D+04` in `0.1D+04*uflow` -/
  badUflow : K
  /-- `0.375D+00` in `small = abs(b-a)*0.375D+00` -/
  smallFactor : K
  /-- `ktmin.gt.5` -/
  ktminMax : Nat
  /-- `0.1D-02` in `abserr.lt.0.1D-02*errsum` -/
  ktminFactor : K
  /-- `0.1D-01` of the divergence test (twice) -/
  divLo : K
  /-- `0.1D+03` in `(result/area).gt.0.1D+03` -/
  divHi : K
  /-- `42` and `21` of `neval = 42*last-21` -/
  nevalMul : Nat
  nevalOff : Nat
  /-- `limexp = 50` -/
  limexp : Nat
  /-- `0.1D-03` in `epsinf.gt.0.1D-03` -/
  elgIrregular : K
  /-- `0.5D+01` in `max(abserr, 0.5D+01*epmach*abs(result))` -/
  elgFloor : K
  /-- `0.1D+01` of the three reciprocals in `ss` and of `res = e1+0.1D+01/ss` -/
  elgOne : K
  /-- `n.lt.3` -/
  elgNmin : Nat
  /-- `nres.ge.4` -/
  elgNres : Nat

/-- the literals as they stand in quadpack.f90 (Tables/C12QuadAdaptive: equal to the extracted ones) -/
def AgseConsts.default : AgseConsts K :=
  { half := q 1 2, c50 := q 50 1, floor28 := q 1 20000000000000000000000000000, c100 := q 100 1, one := q 1 1,
    roffRel := q 1 100000, roffShrink := q 99 100, iroff3From := 10, iroff12Max := 10, iroff3Max := 20, iroff2Max := 5,
    badEps := q 100 1, badUflow := q 1000 1, smallFactor := q 3 8, ktminMax := 5, ktminFactor := q 1 1000,
    divLo := q 1 100, divHi := q 100 1, nevalMul := 42, nevalOff := 21,
    limexp := 50, elgIrregular := q 1 10000, elgFloor := q 5 1, elgOne := q 1 1, elgNmin := 3, elgNres := 4 }

/-! ## `dqpsrt` -/

/-- what `dqpsrt` hands back: `iord`, `nrmax`, `maxerr`, `ermax` -/
structure Psrt (K : Type) where
  iord : List Nat
  nrmax : Nat
  maxerr : Nat
  ermax : K

/-- `do i = 1,ido`: `isucc = iord(nrmax-1)`; `if(errmax.le.elist(isucc)) go to 30`;
    `iord(nrmax) = isucc`; `nrmax = nrmax-1` -/
def psrtUp (elist : List K) (errmax : K) : Nat → List Nat → Nat → List Nat × Nat
  | 0, iord, nrmax => (iord, nrmax)
  | k+1, iord, nrmax =>
    let isucc := geti iord (nrmax - 1)
    if errmax ≤ get1 elist isucc then (iord, nrmax)
    else psrtUp elist errmax k (seti iord nrmax isucc) (nrmax - 1)

/-- `do i = ibeg,jbnd`: `isucc = iord(i)`; `if(errmax.ge.elist(isucc)) go to 60`; `iord(i-1) = isucc`.
    `some i`: left through `go to 60` with that `i` -/
def psrtDown (elist : List K) (errmax : K) : Nat → Nat → List Nat → List Nat × Option Nat
  | 0, _, iord => (iord, none)
  | k+1, i, iord =>
    let isucc := geti iord i
    if get1 elist isucc ≤ errmax then (iord, some i)
    else psrtDown elist errmax k (i + 1) (seti iord (i - 1) isucc)

/-- `do j = i,jbnd`: `isucc = iord(k)`; `if(errmin.lt.elist(isucc)) go to 80`; `iord(k+1) = isucc`;
    `k = k-1`.  Returns `iord`, `k` and whether `go to 80` was taken -/
def psrtBottom (elist : List K) (errmin : K) : Nat → Nat → List Nat → List Nat × Nat × Bool
  | 0, k, iord => (iord, k, false)
  | f+1, k, iord =>
    let isucc := geti iord k
    if errmin < get1 elist isucc then (iord, k, true)
    else psrtBottom elist errmin f (k - 1) (seti iord (k + 1) isucc)

/-- label 90: `maxerr = iord(nrmax)`; `ermax = elist(maxerr)` -/
def psrtFinish (elist : List K) (iord : List Nat) (nrmax : Nat) : Psrt K :=
  let maxerr := geti iord nrmax
  { iord := iord, nrmax := nrmax, maxerr := maxerr, ermax := get1 elist maxerr }

/-- `jupbn = last`; `if(last.gt.(limit/2+2)) jupbn = limit+3-last` (the same expression bounds the search
    loop of `dqagse`) -/
def jupbnOf (limit last : Nat) : Nat := if last > limit / 2 + 2 then limit + 3 - last else last

/-- `dqpsrt(limit, last, maxerr, ermax, elist, iord, nrmax)` -/
def dqpsrt (limit last maxerr : Nat) (elist : List K) (iord : List Nat) (nrmax : Nat) : Psrt K :=
  if ¬ (last > 2) then psrtFinish elist (seti (seti iord 1 1) 2 2) nrmax
  else
    let errmax := get1 elist maxerr
    let ido := nrmax - 1
    let up := psrtUp elist errmax ido iord nrmax
    let iord := up.1
    let nrmax := up.2
    let jupbn := jupbnOf limit last
    let errmin := get1 elist last
    let jbnd := jupbn - 1
    let ibeg := nrmax + 1
    match psrtDown elist errmax (jbnd + 1 - ibeg) ibeg iord with
    | (iord, none) => psrtFinish elist (seti (seti iord jbnd maxerr) jupbn last) nrmax
    | (iord, some i) =>
      let iord := seti iord (i - 1) maxerr
      match psrtBottom elist errmin (jbnd + 1 - i) jbnd iord with
      | (iord, _, false) => psrtFinish elist (seti iord i last) nrmax
      | (iord, k, true) => psrtFinish elist (seti iord (k + 1) last) nrmax

/-! ## `dqelg` -/

/-- running variables of `do 40 i = 1,newelm` -/
structure ElgLoop (K : Type) where
  epstab : List K
  result : K
  abserr : K
  k1 : Nat
  n : Nat

/-- how the loop `do 40` is left -/
inductive ElgExit where
  /-- `40 continue` -/
  | next
  /-- `go to 50` (through label 20) -/
  | to50
  /-- `go to 100` (`e0`, `e1`, `e2` equal to machine accuracy) -/
  | to100
  deriving DecidableEq, Repr

/-- body of `do 40 i = 1,newelm` -/
def elgStep (C : AgseConsts K) (epmach : K) (st : ElgLoop K) (i : Nat) : ElgLoop K × ElgExit :=
  let k1 := st.k1
  let k2 := k1 - 1
  let k3 := k1 - 2
  let res := get1 st.epstab (k1 + 2)
  let e0 := get1 st.epstab k3
  let e1 := get1 st.epstab k2
  let e2 := res
  let e1abs := qabs e1
  let delta2 := e2 - e1
  let err2 := qabs delta2
  let tol2 := qmax (qabs e2) e1abs * epmach
  let delta3 := e1 - e0
  let err3 := qabs delta3
  let tol3 := qmax e1abs (qabs e0) * epmach
  if ¬ (tol2 < err2 ∨ tol3 < err3) then
    -- convergence is assumed: `result = res`; `abserr = err2+err3`; `go to 100`
    ({ st with result := res, abserr := err2 + err3 }, .to100)
  else
    -- label 10
    let e3 := get1 st.epstab k1
    let epstab := set1 st.epstab k1 e1
    let delta1 := e1 - e3
    let err1 := qabs delta1
    let tol1 := qmax e1abs (qabs e3) * epmach
    if err1 ≤ tol1 ∨ err2 ≤ tol2 ∨ err3 ≤ tol3 then
      -- label 20: `n = i+i-1`; `go to 50`
      ({ st with epstab := epstab, n := i + i - 1 }, .to50)
    else
      let ss := C.elgOne / delta1 + C.elgOne / delta2 - C.elgOne / delta3
      let epsinf := qabs (ss * e1)
      if ¬ (C.elgIrregular < epsinf) then
        ({ st with epstab := epstab, n := i + i - 1 }, .to50)
      else
        -- label 30
        let res := e1 + C.elgOne / ss
        let epstab := set1 epstab k1 res
        let k1 := k1 - 2
        let error := err2 + qabs (res - e2) + err3
        if error ≤ st.abserr then
          ({ st with epstab := epstab, k1 := k1, abserr := error, result := res }, .next)
        else
          ({ st with epstab := epstab, k1 := k1 }, .next)

/-- `do 40 i = 1,newelm` (fuel = remaining iterations, `i` = loop variable) -/
def elgLoop (C : AgseConsts K) (epmach : K) : Nat → Nat → ElgLoop K → ElgLoop K × ElgExit
  | 0, _, st => (st, .next)
  | f+1, i, st =>
    match elgStep C epmach st i with
    | (st', .next) => elgLoop C epmach f (i + 1) st'
    | r => r

/-- in/out arguments of `dqelg` after the call -/
structure Elg (K : Type) where
  n : Nat
  epstab : List K
  result : K
  abserr : K
  res3la : List K
  nres : Nat

/-- label 100 of `dqelg`: `abserr = max(abserr, 0.5D+01*epmach*abs(result))` -/
def elgFinish (C : AgseConsts K) (epmach : K) (n : Nat) (epstab : List K) (result abserr : K)
    (res3la : List K) (nres : Nat) : Elg K :=
  { n := n, epstab := epstab, result := result,
    abserr := qmax abserr (C.elgFloor * epmach * qabs result), res3la := res3la, nres := nres }

/-- `do i=1,ie`: `ib2 = ib+2`; `epstab(ib) = epstab(ib2)`; `ib = ib2` -/
def elgShift (ie : Nat) (epstab : List K) (ib : Nat) : List K × Nat :=
  doLoop ie (fun (s : List K × Nat) _ => (set1 s.1 s.2 (get1 s.1 (s.2 + 2)), s.2 + 2)) (epstab, ib)

/-- `do i = 1,n`: `epstab(i) = epstab(indx)`; `indx = indx+1` -/
def elgCopy (n : Nat) (epstab : List K) (indx : Nat) : List K × Nat :=
  doLoop n (fun (s : List K × Nat) i => (set1 s.1 i (get1 s.1 s.2), s.2 + 1)) (epstab, indx)

/-- `dqelg(n, epstab, result, abserr, res3la, nres)` -/
def dqelg (C : AgseConsts K) (epmach oflow : K) (n : Nat) (epstab : List K) (res3la : List K) (nres : Nat) :
    Elg K :=
  let nres := nres + 1
  let abserr := oflow
  let result := get1 epstab n
  if n < C.elgNmin then elgFinish C epmach n epstab result abserr res3la nres
  else
    let limexp := C.limexp
    let epstab := set1 epstab (n + 2) (get1 epstab n)
    let newelm := (n - 1) / 2
    let epstab := set1 epstab n oflow
    let num := n
    let k1 := n
    match elgLoop C epmach newelm 1 { epstab := epstab, result := result, abserr := abserr, k1 := k1, n := n } with
    | (st, .to100) => elgFinish C epmach st.n st.epstab st.result st.abserr res3la nres
    | (st, _) =>
      -- label 50
      let n := if st.n = limexp then 2 * (limexp / 2) - 1 else st.n
      let ib := if (num / 2) * 2 = num then 2 else 1
      let ie := newelm + 1
      let epstab := (elgShift ie st.epstab ib).1
      let epstab := if num = n then epstab else (elgCopy n epstab (num - n + 1)).1
      -- label 80
      if nres ≥ C.elgNres then
        -- label 90
        let abserr := qabs (st.result - get1 res3la 3) + qabs (st.result - get1 res3la 2)
          + qabs (st.result - get1 res3la 1)
        let res3la := set1 res3la 1 (get1 res3la 2)
        let res3la := set1 res3la 2 (get1 res3la 3)
        let res3la := set1 res3la 3 st.result
        elgFinish C epmach n epstab st.result abserr res3la nres
      else
        elgFinish C epmach n epstab st.result oflow (set1 res3la nres st.result) nres

/-! ## `dqk21` with its error heuristic -/

/-- the four outputs of `dqk21(f, a, b, result, abserr, resabs, resasc)` -/
structure K21Out (K : Type) where
  result : K
  abserr : K
  resabs : K
  resasc : K

def dqk21 [DecidableEq K] (pow15 : K → K) (epmach uflow : K) (T : QKTables K) (f : K → K) (a b : K) : K21Out K :=
  let r := qk21 T f a b
  { result := r.result, abserr := qk21Abserr pow15 epmach uflow r, resabs := r.resabs, resasc := r.resasc }

/-! ## `dqagse` -/

/-- everything `dqagse` is given: literals, machine constants, externals, arguments -/
structure AgseEnv (K : Type) where
  C : AgseConsts K
  pow15 : K → K
  epmach : K
  uflow : K
  oflow : K
  T : QKTables K
  f : K → K
  a : K
  b : K
  epsabs : K
  epsrel : K
  limit : Nat

/-- the variables of `dqagse` that live across iterations of `do 90 last = 2,limit` -/
structure AgseSt (K : Type) where
  alist : List K
  blist : List K
  rlist : List K
  elist : List K
  iord : List Nat
  last : Nat
  maxerr : Nat
  errmax : K
  area : K
  errsum : K
  abserr : K
  result : K
  errbnd : K
  nrmax : Nat
  nres : Nat
  numrl2 : Nat
  ktmin : Nat
  extrap : Bool
  noext : Bool
  iroff1 : Nat
  iroff2 : Nat
  iroff3 : Nat
  ksgn : Int
  ier : Nat
  ierro : Nat
  small : K
  erlarg : K
  ertest : K
  correc : K
  erlast : K
  a1 : K
  b1 : K
  erro12 : K
  rlist2 : List K
  res3la : List K
  reseps : K
  abseps : K
  defabs : K

/-- how an iteration of the main loop ends -/
inductive LoopExit where
  /-- `90 continue`; as result of the whole loop: the `do` ran to completion -/
  | exhausted
  /-- `go to 100` -/
  | to100
  /-- `go to 115` -/
  | to115
  deriving DecidableEq, Repr

/-- the statements of the loop body from `a1 = alist(maxerr)` to `30 call dqpsrt(…)` -/
def agseBisect [DecidableEq K] (E : AgseEnv K) (st : AgseSt K) (last : Nat) : AgseSt K :=
  let C := E.C
  let maxerr := st.maxerr
  let a1 := get1 st.alist maxerr
  let b1 := C.half * (get1 st.alist maxerr + get1 st.blist maxerr)
  let a2 := b1
  let b2 := get1 st.blist maxerr
  let erlast := st.errmax
  -- `call dqk21(f,a1,b1,area1,error1,resabs,defab1)`: `defab1` receives dqk21's `resasc`
  let r1 := dqk21 E.pow15 E.epmach E.uflow E.T E.f a1 b1
  let r2 := dqk21 E.pow15 E.epmach E.uflow E.T E.f a2 b2
  let area1 := r1.result
  let error1 := r1.abserr
  let defab1 := r1.resasc
  let area2 := r2.result
  let error2 := r2.abserr
  let defab2 := r2.resasc
  let area12 := area1 + area2
  let erro12 := error1 + error2
  let errsum := st.errsum + erro12 - st.errmax
  let area := st.area + area12 - get1 st.rlist maxerr
  -- round-off counters (labels 10, 15)
  let iroff : Nat × Nat × Nat :=
    if defab1 = error1 ∨ defab2 = error2 then (st.iroff1, st.iroff2, st.iroff3)
    else
      let i12 : Nat × Nat :=
        if C.roffRel * qabs area12 < qabs (get1 st.rlist maxerr - area12) ∨ erro12 < C.roffShrink * st.errmax then
          (st.iroff1, st.iroff2)
        else
          let i2 := if st.extrap then st.iroff2 + 1 else st.iroff2
          let i1 := if ¬ st.extrap then st.iroff1 + 1 else st.iroff1
          (i1, i2)
      let i3 := if last > C.iroff3From ∧ st.errmax < erro12 then st.iroff3 + 1 else st.iroff3
      (i12.1, i12.2, i3)
  let iroff1 := iroff.1
  let iroff2 := iroff.2.1
  let iroff3 := iroff.2.2
  let rlist := set1 st.rlist maxerr area1
  let rlist := set1 rlist last area2
  let errbnd := qmax E.epsabs (E.epsrel * qabs area)
  let ier := if iroff1 + iroff2 ≥ C.iroff12Max ∨ iroff3 ≥ C.iroff3Max then 2 else st.ier
  let ierro := if iroff2 ≥ C.iroff2Max then 3 else st.ierro
  let ier := if last = E.limit then 1 else ier
  let ier := if qmax (qabs a1) (qabs b2) ≤ (C.one + C.badEps * E.epmach) * (qabs a2 + C.badUflow * E.uflow) then 4
    else ier
  -- append the newly-created intervals to the list
  let lists : List K × List K × List K × List K :=
    if error1 < error2 then
      -- label 20
      let alist := set1 st.alist maxerr a2
      let alist := set1 alist last a1
      let blist := set1 st.blist last b1
      let rlist := set1 rlist maxerr area2
      let rlist := set1 rlist last area1
      let elist := set1 st.elist maxerr error2
      let elist := set1 elist last error1
      (alist, blist, rlist, elist)
    else
      let alist := set1 st.alist last a2
      let blist := set1 st.blist maxerr b1
      let blist := set1 blist last b2
      let elist := set1 st.elist maxerr error1
      let elist := set1 elist last error2
      (alist, blist, rlist, elist)
  -- label 30
  let p := dqpsrt E.limit last maxerr lists.2.2.2 st.iord st.nrmax
  { st with
    alist := lists.1, blist := lists.2.1, rlist := lists.2.2.1, elist := lists.2.2.2,
    iord := p.iord, nrmax := p.nrmax, maxerr := p.maxerr, errmax := p.ermax,
    last := last, area := area, errsum := errsum, errbnd := errbnd,
    iroff1 := iroff1, iroff2 := iroff2, iroff3 := iroff3, ier := ier, ierro := ierro,
    erlast := erlast, a1 := a1, b1 := b1, erro12 := erro12 }

/-- `do k = id,jupbnd`: `maxerr = iord(nrmax)`; `errmax = elist(maxerr)`;
    `if(abs(blist(maxerr)-alist(maxerr)).gt.small) go to 90`; `nrmax = nrmax+1`.
    The Boolean tells whether `go to 90` was taken -/
def agseSeek (st : AgseSt K) : Nat → AgseSt K × Bool
  | 0 => (st, false)
  | f+1 =>
    let maxerr := geti st.iord st.nrmax
    let errmax := get1 st.elist maxerr
    let st := { st with maxerr := maxerr, errmax := errmax }
    if st.small < qabs (get1 st.blist maxerr - get1 st.alist maxerr) then (st, true)
    else agseSeek { st with nrmax := st.nrmax + 1 } f

/-- label 60 up to and including `if(ktmin.gt.5.and.abserr.lt.0.1D-02*errsum) ier = 5` -/
def agseLabel60 (E : AgseEnv K) (st : AgseSt K) : AgseSt K :=
  let C := E.C
  let numrl2 := st.numrl2 + 1
  let rlist2 := set1 st.rlist2 numrl2 st.area
  -- `call dqelg(numrl2,rlist2,reseps,abseps,res3la,nres)`
  let e := dqelg C E.epmach E.oflow numrl2 rlist2 st.res3la st.nres
  let ktmin := st.ktmin + 1
  { st with numrl2 := e.n, rlist2 := e.epstab, reseps := e.result, abseps := e.abserr, res3la := e.res3la,
            nres := e.nres, ktmin := ktmin,
            ier := if ktmin > C.ktminMax ∧ st.abserr < C.ktminFactor * st.errsum then 5 else st.ier }

/-- label 70: `if(numrl2.eq.1) noext = .true.`; `if(ier.eq.5) go to 100`; `maxerr = iord(1)` … `go to 90` -/
def agseLabel70 (E : AgseEnv K) (st : AgseSt K) : AgseSt K × LoopExit :=
  let noext := if st.numrl2 = 1 then true else st.noext
  if st.ier = 5 then ({ st with noext := noext }, .to100)
  else
    let maxerr := geti st.iord 1
    ({ st with noext := noext, maxerr := maxerr, errmax := get1 st.elist maxerr, nrmax := 1, extrap := false,
               small := st.small * E.C.half, erlarg := st.errsum }, .exhausted)

/-- labels 60–70: `numrl2 = numrl2+1` … `go to 90` / `go to 100` -/
def agseExtrapolate (E : AgseEnv K) (st : AgseSt K) : AgseSt K × LoopExit :=
  let st := agseLabel60 E st
  -- `if(abseps.ge.abserr) go to 70`
  if st.abserr ≤ st.abseps then agseLabel70 E st
  else
    let st := { st with ktmin := 0, abserr := st.abseps, result := st.reseps, correc := st.erlarg,
                        ertest := qmax E.epsabs (E.epsrel * qabs st.reseps) }
    if st.abserr ≤ st.ertest then (st, .to100) else agseLabel70 E st

/-- label 40: `if(ierro.eq.3.or.erlarg.le.ertest) go to 60`, else the search loop, then label 60 -/
def agseLabel40 (E : AgseEnv K) (st : AgseSt K) : AgseSt K × LoopExit :=
  if st.ierro = 3 ∨ st.erlarg ≤ st.ertest then agseExtrapolate E st
  else
    let id := st.nrmax
    let jupbnd := jupbnOf E.limit st.last
    match agseSeek st (jupbnd + 1 - id) with
    | (st, true) => (st, .exhausted)
    | (st, false) => agseExtrapolate E st

/-- the statements of the loop body after `call dqpsrt`, down to `90 continue`;
    `.exhausted` here means `90 continue` (next iteration) -/
def agseControl (E : AgseEnv K) (st : AgseSt K) : AgseSt K × LoopExit :=
  let C := E.C
  if st.errsum ≤ st.errbnd then (st, .to115)
  else if st.ier ≠ 0 then (st, .to100)
  else if st.last = 2 then
    -- label 80
    ({ st with small := qabs (E.b - E.a) * C.smallFactor, erlarg := st.errsum, ertest := st.errbnd,
               rlist2 := set1 st.rlist2 2 st.area }, .exhausted)
  else if st.noext then (st, .exhausted)
  else
    -- `erlarg = erlarg-erlast`; `if(abs(b1-a1).gt.small) erlarg = erlarg+erro12`
    let st := { st with erlarg := if st.small < qabs (st.b1 - st.a1) then st.erlarg - st.erlast + st.erro12
                                  else st.erlarg - st.erlast }
    if st.extrap then agseLabel40 E st
    else if st.small < qabs (get1 st.blist st.maxerr - get1 st.alist st.maxerr) then (st, .exhausted)
    else agseLabel40 E { st with extrap := true, nrmax := 2 }

/-- one iteration of `do 90 last = 2,limit` -/
def agseBody [DecidableEq K] (E : AgseEnv K) (st : AgseSt K) (last : Nat) : AgseSt K × LoopExit :=
  agseControl E (agseBisect E st last)

/-- `do 90 last = 2,limit` (fuel = remaining iterations).  On completion Fortran leaves
    `last = limit + 1` and continues at label 100 -/
def agseLoop [DecidableEq K] (E : AgseEnv K) : Nat → Nat → AgseSt K → AgseSt K × LoopExit
  | 0, last, st => ({ st with last := last }, .exhausted)
  | f+1, last, st =>
    match agseBody E st last with
    | (st', .exhausted) => agseLoop E f (last + 1) st'
    | r => r

/-- what `dqagse` returns -/
structure AgseOut (K : Type) where
  result : K
  abserr : K
  neval : Nat
  ier : Nat
  alist : List K
  blist : List K
  rlist : List K
  elist : List K
  iord : List Nat
  last : Nat

/-- `do k = 1,last`: `result = result+rlist(k)` (starting from `0.0D+00`) -/
def sumRlist (rlist : List K) (last : Nat) : K :=
  doLoop last (fun acc k => acc + get1 rlist k) 0

/-- label 130–140: `if(ier.gt.2) ier = ier-1`; `neval = 42*last-21` -/
def agseReturn (C : AgseConsts K) (st : AgseSt K) (result abserr : K) (ier : Nat) : AgseOut K :=
  { result := result, abserr := abserr, neval := C.nevalMul * st.last - C.nevalOff,
    ier := if ier > 2 then ier - 1 else ier,
    alist := st.alist, blist := st.blist, rlist := st.rlist, elist := st.elist, iord := st.iord, last := st.last }

/-- label 115: `result = Σ rlist(k)`; `abserr = errsum`; then label 130 -/
def agseLabel115 (C : AgseConsts K) (st : AgseSt K) (ier : Nat) : AgseOut K :=
  agseReturn C st (sumRlist st.rlist st.last) st.errsum ier

/-- label 110: the test on divergence; then label 130 -/
def agseLabel110 [DecidableEq K] (C : AgseConsts K) (st : AgseSt K) (abserr : K) (ier : Nat) : AgseOut K :=
  if st.ksgn = -1 ∧ qmax (qabs st.result) (qabs st.area) ≤ st.defabs * C.divLo then
    agseReturn C st st.result abserr ier
  else
    let ier := if st.result / st.area < C.divLo ∨ C.divHi < st.result / st.area ∨ qabs st.area < st.errsum then 6
      else ier
    agseReturn C st st.result abserr ier

/-- the final part of `dqagse` entered at label 100 (`.to100`, `.exhausted`) or at label 115 -/
def agseFinal [DecidableEq K] (E : AgseEnv K) (st : AgseSt K) (lab : LoopExit) : AgseOut K :=
  let C := E.C
  match lab with
  | .to115 => agseLabel115 C st st.ier
  | _ =>
    -- label 100
    if st.abserr = E.oflow then agseLabel115 C st st.ier
    else if st.ier + st.ierro = 0 then agseLabel110 C st st.abserr st.ier
    else
      let abserr := if st.ierro = 3 then st.abserr + st.correc else st.abserr
      let ier := if st.ier = 0 then 3 else st.ier
      if st.result ≠ 0 ∧ st.area ≠ 0 then
        -- label 105: `if(abserr/abs(result).gt.errsum/abs(area)) go to 115`
        if st.errsum / qabs st.area < abserr / qabs st.result then agseLabel115 C st ier
        else agseLabel110 C st abserr ier
      else if st.errsum < abserr then agseLabel115 C st ier
      else if st.area = 0 then agseReturn C st st.result abserr ier
      else agseLabel110 C st abserr ier

/-- the state at the entry of the main loop (section "initialization" of `dqagse`) -/
def agseInit (E : AgseEnv K) (r : K21Out K) : AgseSt K :=
  let C := E.C
  let limit := E.limit
  let result := r.result
  let abserr := r.abserr
  let defabs := r.resabs
  let dres := qabs result
  let errbnd := qmax E.epsabs (E.epsrel * dres)
  { alist := set1 (List.replicate limit 0) 1 E.a,
    blist := set1 (List.replicate limit 0) 1 E.b,
    rlist := set1 (List.replicate limit 0) 1 result,
    elist := set1 (List.replicate limit 0) 1 abserr,
    iord := seti (List.replicate limit 0) 1 1,
    last := 1,
    maxerr := 1, errmax := abserr, area := result, errsum := abserr, abserr := E.oflow, result := result,
    errbnd := errbnd, nrmax := 1, nres := 0, numrl2 := 2, ktmin := 0, extrap := false, noext := false,
    iroff1 := 0, iroff2 := 0, iroff3 := 0,
    ksgn := if (C.one - C.c50 * E.epmach) * defabs ≤ dres then 1 else -1,
    ier := 0, ierro := 0, small := 0, erlarg := 0, ertest := 0, correc := 0, erlast := 0, a1 := 0, b1 := 0,
    erro12 := 0, rlist2 := set1 (List.replicate 52 0) 1 result, res3la := List.replicate 3 0,
    reseps := 0, abseps := 0, defabs := defabs }

/-- `dqagse(f, a, b, epsabs, epsrel, limit, result, abserr, neval, ier, alist, blist, rlist, elist, iord, last)` -/
def dqagse [DecidableEq K] (E : AgseEnv K) : AgseOut K :=
  let C := E.C
  let limit := E.limit
  let zeros : List K := List.replicate limit 0
  if E.epsabs ≤ 0 ∧ E.epsrel < qmax (C.c50 * E.epmach) C.floor28 then
    { result := 0, abserr := 0, neval := 0, ier := 6,
      alist := set1 zeros 1 E.a, blist := set1 zeros 1 E.b, rlist := set1 zeros 1 0, elist := set1 zeros 1 0,
      iord := List.replicate limit 0, last := 0 }
  else
    -- first approximation to the integral: `call dqk21(f,a,b,result,abserr,defabs,resabs)`
    let r := dqk21 E.pow15 E.epmach E.uflow E.T E.f E.a E.b
    let result := r.result
    let abserr := r.abserr
    let defabs := r.resabs
    let resabs := r.resasc
    let dres := qabs result
    let errbnd := qmax E.epsabs (E.epsrel * dres)
    let ier := if abserr ≤ C.c100 * E.epmach * defabs ∧ errbnd < abserr then 2 else 0
    let ier := if limit = 1 then 1 else ier
    let st0 := agseInit E r
    if ier ≠ 0 ∨ (abserr ≤ errbnd ∧ abserr ≠ resabs) ∨ abserr = 0 then
      -- `go to 140`
      { result := result, abserr := abserr, neval := C.nevalMul * 1 - C.nevalOff, ier := ier,
        alist := st0.alist, blist := st0.blist, rlist := st0.rlist, elist := st0.elist, iord := st0.iord, last := 1 }
    else
      let fin := agseLoop E (limit - 1) 2 st0
      agseFinal E fin.1 fin.2

/-- `compute_length` with the full adaptive quadrature: no node → error, one node → `0`, two nodes →
    `norm2(first_deriv)`, otherwise `dqagse(vec_size, 0, 1, epsabs, epsrel, limit, …)`;
    returns `(length, error_val)` -/
def lengthAdaptive [DecidableEq K] (sqrtK : K → K) (E : AgseEnv K) (thr : Nat) (nodes : List (List K)) :
    Except Err (K × Nat) :=
  match ncols nodes with
  | 0 => .error .valueError
  | 1 => .ok (0, 0)
  | 2 => .ok (sqrtK ((nodes.map firstDerivRow).foldl (fun acc r => acc + seq r 0 * seq r 0) 0), 0)
  | _ =>
    let o := dqagse { E with f := lengthSpeed sqrtK thr nodes, a := 0, b := 1 }
    .ok (o.result, o.ier)

end BezierVerif.Model.Quad
