import BezierVerif.Model.Geometric
import BezierVerif.Model.Solve2x2

/-!
# Model/Self — `self_intersections` and the turning-angle test
(`hazmat/geometric_intersection.py: self_intersections`, `hazmat/curve_helpers.py: discrete_turning_angle`)

`discrete_turning_angle(nodes) < π` is decided without `atan2`: the exterior angle between two
consecutive edge vectors `a, b` is the argument of the complex number `(a·b, |a×b|)` and lies in
`[0, π]`; a sum of such angles is `< π` iff every partial product of these complex numbers stays in
the open upper half plane or on the positive real axis.  A zero edge vector counts as the direction
`(1, 0)` (NumPy: `arctan2(0, 0) = 0`).
-/

namespace BezierVerif.Model

variable {K : Type} [Add K] [Sub K] [Mul K] [Div K] [Neg K] [OfNat K 0] [OfNat K 1] [NatCast K]
  [LT K] [DecidableLT K] [LE K] [DecidableLE K] [DecidableEq K]

/-- edge vectors `(dx, dy)` of the control polygon, zero vectors replaced by `(1, 0)` -/
def edgeDirs (xs ys : List K) : List (K × K) :=
  (List.zip (diffs xs) (diffs ys)).map (fun d => if d.1 = 0 ∧ d.2 = 0 then (1, 0) else d)

/-- complex numbers `(a·b, |a×b|)` of consecutive directions -/
def turnNumbers : List (K × K) → List (K × K)
  | a :: b :: rest => (a.1 * b.1 + a.2 * b.2, absK (a.1 * b.2 - a.2 * b.1)) :: turnNumbers (b :: rest)
  | _ => []

/-- is the sum of the arguments of the given numbers (each in `[0, π]`) `< π` ? -/
def anglesBelowPi (zs : List (K × K)) : Bool :=
  let rec go : List (K × K) → K × K → Bool
    | [], _ => true
    | z :: rest, w =>
      let w' := (w.1 * z.1 - w.2 * z.2, w.1 * z.2 + w.2 * z.1)
      if 0 < w'.2 ∨ (w'.2 = 0 ∧ 0 < w'.1) then go rest w' else false
  go zs (1, 0)

/-- `discrete_turning_angle(nodes) < π` -/
def turningBelowPi (nodes : List (List K)) : Bool :=
  if ncols nodes < 3 then true
  else anglesBelowPi (turnNumbers (edgeDirs (nodes.getD 0 []) (nodes.getD 1 [])))

/-- `self_intersections` with explicit fuel (the library recursion has no bound: running out of fuel
    is the model's `recursion` error, i.e. Python's `RecursionError`) -/
def selfIntersections (P : Prims K) (G : GeoConsts K) : Nat → List (List K) → Except Err (List (K × K))
  | 0, _ => .error .recursion
  | fuel + 1, nodes =>
    if turningBelowPi nodes then .ok []
    else
      let lr := P.subdivide nodes
      let half : K := 1 / (1 + 1)
      match selfIntersections P G fuel lr.1, selfIntersections P G fuel lr.2 with
      | .error e, _ => .error e
      | _, .error e => .error e
      | .ok leftSelf, .ok rightSelf =>
        match allIntersections P G lr.1 lr.2 with
        | .error e => .error e
        | .ok (lrInts, _) =>
          let scaled := lrInts.map (fun p => (half * p.1, half * p.2 + half))
          let kept := scaled.filter (fun p => !(p.1 = half ∧ p.2 = half))
          -- the three blocks are merged with `add_intersection` (a crossing at a split point of the recursion is found
          -- by a half and by the left/right call)
          let blocks := leftSelf.map (fun p => (half * p.1, half * p.2))
                ++ kept ++ rightSelf.map (fun p => (half + half * p.1, half + half * p.2))
          .ok (blocks.foldl (fun acc p => addIntersection G p.1 p.2 acc) [])

end BezierVerif.Model
