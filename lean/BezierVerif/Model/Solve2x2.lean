/-!
# Model/Solve2x2 — executable model of `helpers.solve2x2` (`hazmat/helpers.py`, `helpers.f90`)

The 2×2 linear solve used by every Newton step of the curve–curve intersection
(`intersection_helpers.newton_iterate`): LU with partial pivoting on the first column.
`lhs = [[A, B], [C, D]]`, `rhs = (E, F)`.  The library returns the triple
`(singular, x, y)`; the model returns `none` exactly when the flag is `True`.

No Mathlib; polymorphic in the number type (notation classes only), so that the same definition
runs at `Rat`, is reasoned about in any ordered field and at `Float`.
-/

namespace BezierVerif.Model

variable {K : Type} [Sub K] [Mul K] [Div K] [Neg K] [OfNat K 0] [LT K] [DecidableLT K] [DecidableEq K]

/-- `np.abs` / `abs` on scalars -/
def absK (x : K) : K := if x < 0 then -x else x

/-- `solve2x2(lhs, rhs)`: `none` ⇔ the library's `singular` flag -/
def solve2x2 (A B C D E F : K) : Option (K × K) :=
  if absK A < absK C then                       -- `np.abs(lhs[1, 0]) > np.abs(lhs[0, 0])`
    let ratio := A / C
    let denominator := B - ratio * D
    if denominator = 0 then none
    else
      let y := (E - ratio * F) / denominator
      let x := (F - D * y) / C
      some (x, y)
  else
    if A = 0 then none
    else
      let ratio := C / A
      let denominator := D - ratio * B
      if denominator = 0 then none
      else
        let y := (F - ratio * E) / denominator
        let x := (E - B * y) / A
        some (x, y)

end BezierVerif.Model
