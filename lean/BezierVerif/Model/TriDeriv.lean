import BezierVerif.Model.Triangle

/-!
# Model/TriDeriv — Jacobian nets, Jacobian determinant and the triangle Newton step
(`hazmat/triangle_helpers.py`: `jacobian_s`, `jacobian_t`, `jacobian_both`, `jacobian_det`;
`hazmat/triangle_intersection.py`: `newton_refine_solve`, `newton_refine`; `triangle.f90`,
`triangle_intersection.f90`: same loops)
-/

namespace BezierVerif.Model

variable {K : Type} [Add K] [Sub K] [Mul K] [Div K] [Neg K] [OfNat K 0] [OfNat K 1] [NatCast K]
  [DecidableEq K]

/-- the two nested loops of `jacobian_s` / `jacobian_t` with their running indices `index, i, j`:
    `numVals = degree, degree-1, …, 1`; returns the list of `(i, j)` pairs visited -/
def jacIndexPairs (degree : Nat) : List (Nat × Nat) :=
  let rec outer : Nat → Nat → Nat → List (Nat × Nat)          -- numVals, i, j
    | 0, _, _ => []
    | nv + 1, i, j =>
      let row := (List.range (nv + 1)).map (fun t => (i + t, j + t))
      row ++ outer nv (i + nv + 1 + 1) (j + nv + 1)
  outer degree 0 (degree + 1)

/-- `jacobian_s` on one coordinate row: `degree * (nodes[i+1] - nodes[i])` -/
def jacobianSRow (degree : Nat) (row : List K) : List K :=
  (jacIndexPairs degree).map (fun p => ((degree : Nat) : K) * (seq row (p.1 + 1) - seq row p.1))

/-- `jacobian_t` on one coordinate row: `degree * (nodes[j] - nodes[i])` -/
def jacobianTRow (degree : Nat) (row : List K) : List K :=
  (jacIndexPairs degree).map (fun p => ((degree : Nat) : K) * (seq row p.2 - seq row p.1))

/-- `jacobian_both`: the `dimension` rows of `B_s` followed by the `dimension` rows of `B_t` -/
def jacobianBoth (degree : Nat) (nodes : List (List K)) : List (List K) :=
  nodes.map (jacobianSRow degree) ++ nodes.map (jacobianTRow degree)

/-- `jacobian_det` at one Cartesian point `(s, t)` of a planar triangle (`degree = 1`: the constant
    determinant of the four Jacobian entries) -/
def jacobianDet (thr degree : Nat) (nodes : List (List K)) (s t : K) : K :=
  let jac := jacobianBoth degree nodes
  let vals : List K :=
    if degree = 1 then jac.map (fun r => seq r 0)
    else Py.evalBarycentric thr (degree - 1) jac (cartesian s t)
  seq vals 0 * seq vals 3 - seq vals 1 * seq vals 2

/-- `newton_refine_solve` (Cramer's rule on `[A C; B D]`) and `newton_refine` for triangles -/
def newtonRefineTriangle (thr degree : Nat) (nodes : List (List K)) (xVal yVal s t : K) : K × K :=
  let w := cartesian s t
  let p := Py.evalBarycentric thr degree nodes w
  let tx := seq p 0
  let ty := seq p 1
  if tx = xVal ∧ ty = yVal then (s, t)
  else
    let jb := Py.evalBarycentric thr (degree - 1) (jacobianBoth degree nodes) w
    let a := seq jb 0; let b := seq jb 1; let c := seq jb 2; let d := seq jb 3
    let e := xVal - tx
    let f := yVal - ty
    let denom := a * d - b * c
    (s + (d * e - c * f) / denom, t + (a * f - b * e) / denom)

end BezierVerif.Model
