import BezierVerif.Model.Basic
import BezierVerif.Model.Curve

/-!
# Model/Triangle — executable model of the triangle part of `hazmat/triangle_helpers.py`,
# `triangle.py` and `triangle.f90`

A degree-`d` Bézier triangle has `(d+1)(d+2)/2` control points per coordinate, stored flat: rows of
constant `k` from bottom (`k = 0`, `d+1` points) to top (`k = d`, one point), inside a row `j`
ascending (left to right); `i = d - j - k`.  As everywhere in the model a `dim × N` array is a list
of coordinate rows and every routine acts on one coordinate row at a time.

Transcribed routine by routine with the running indices of the code (`parent_i1/2/3`, `index`,
`new_index`, `curr2`, `curr3`, `read_index`).  Python and Fortran use the *same* algorithm for
`de_casteljau_one_round`, `compute_edge_nodes`, `evaluate_cartesian_multi` (one definition each);
they differ in

* `evaluate_barycentric`: the running binomial is a binary64 number in Python and an
  `integer(c_int)` in Fortran (`F90.binomStep`: 32-bit wrap-around product, truncating division);
  the accumulator is updated as `result * λ₃ + …` resp. `λ₃ * evaluated + …`;
* `specialize_triangle`: Python keeps a dictionary keyed by ascending tuples and multiplies by
  cached one-round matrices (`make_transform`, `reduced_to_matrix`); Fortran runs the rounds
  directly on two alternating flat workspaces indexed by running `read_index`;
* `subdivide_nodes`: matrix products with 16 tables resp. closed forms for degree 1–4 (data: both
  are compared with the model-derived matrices `triSubdivMat` in `Tables/C09.lean`).
-/

namespace BezierVerif.Model

variable {K : Type} [Add K] [Sub K] [Mul K] [Div K] [Neg K] [OfNat K 0] [OfNat K 1] [NatCast K]

/-! ## flat index arithmetic -/

/-- number of control points of a degree-`d` triangle (`((degree + 1) * (degree + 2)) // 2`) -/
def numNodes (d : Nat) : Nat := ((d + 1) * (d + 2)) / 2

/-- flat index of the first node of row `k` (row `m` has `d + 1 - m` nodes) -/
def rowStart (d : Nat) : Nat → Nat
  | 0 => 0
  | k+1 => rowStart d k + (d + 1 - k)

/-- flat index of node `(i, j, k)`, `i = d - j - k` -/
def triIndex (d j k : Nat) : Nat := rowStart d k + j

/-- barycentric weight triple -/
structure Bary (K : Type) where
  l1 : K
  l2 : K
  l3 : K

/-! ## `de_casteljau_one_round` (Python and Fortran: same loops, same expression) -/

/-- inner loop `for unused_j in range(degree - k)`: `cnt` iterations from the running parents -/
def dcInner3 (w : Bary K) (v : Nat → K) : Nat → Nat → Nat → Nat → List K
  | 0, _, _, _ => []
  | cnt+1, p1, p2, p3 =>
    (w.l1 * v p1 + w.l2 * v p2 + w.l3 * v p3) :: dcInner3 w v cnt (p1 + 1) (p2 + 1) (p3 + 1)

/-- outer loop `for k in range(degree)`; `fuel = degree - k` iterations remain; after the inner
    loop (`degree - k` steps) `parent_i1`, `parent_i2` are advanced once more -/
def dcOuter3 (w : Bary K) (v : Nat → K) (degree : Nat) : Nat → Nat → Nat → Nat → Nat → List K
  | 0, _, _, _, _ => []
  | fuel+1, k, p1, p2, p3 =>
    dcInner3 w v (degree - k) p1 p2 p3 ++
      dcOuter3 w v degree fuel (k + 1) (p1 + (degree - k) + 1) (p2 + (degree - k) + 1) (p3 + (degree - k))

/-- `de_casteljau_one_round(nodes, degree, λ₁, λ₂, λ₃)` on one coordinate row:
    `parent_i1 = 0, parent_i2 = 1, parent_i3 = degree + 1` -/
def dcRound3 (degree : Nat) (w : Bary K) (row : List K) : List K :=
  dcOuter3 w (seq row) degree degree 0 0 1 (degree + 1)

/-! ## `evaluate_barycentric` -/

/-- the slice `nodes[:, new_index : index + 1]` -/
def triSlice (row : List K) (first last : Nat) : List K := (row.drop first).take (last + 1 - first)

/-- running variables of the row loop -/
structure TriState (K B : Type) where
  result : K
  binom : B
  index : Nat

/-- Python loop body for `k`:
    `binom_val = (binom_val * (k + 1)) / (degree - k); index -= 1; new_index = index - degree + k;
     result *= lambda3; result += binom_val * col_result; index = new_index` -/
def Py.triStep (thr degree : Nat) (row : List K) (w : Bary K) (st : TriState K K) (k : Nat) :
    TriState K K :=
  let binom := (st.binom * ((k + 1 : Nat) : K)) / ((degree - k : Nat) : K)
  let index := st.index - 1
  let newIndex := index + k - degree
  let colResult := evalBary thr (triSlice row newIndex index) w.l1 w.l2
  { result := st.result * w.l3 + binom * colResult, binom := binom, index := newIndex }

/-- state after `t` iterations (`k = degree-1, …, degree-t`); before the loop
    `result = zeros + nodes[:, num_nodes - 1]`, `binom_val = 1.0`, `index = num_nodes - 1` -/
def Py.triLoop (thr degree : Nat) (row : List K) (w : Bary K) : Nat → TriState K K
  | 0 => { result := 0 + seq row (row.length - 1), binom := 1, index := row.length - 1 }
  | t+1 => Py.triStep thr degree row w (Py.triLoop thr degree row w t) (degree - 1 - t)

/-- `evaluate_barycentric` (Python), one coordinate row -/
def Py.evalBarycentricRow (thr degree : Nat) (row : List K) (w : Bary K) : K :=
  (Py.triLoop thr degree row w degree).result

/-- reduce an integer to the range of `integer(c_int)` (two's complement wrap-around) -/
def wrap32 (z : Int) : Int := (z + 2147483648) % 4294967296 - 2147483648

/-- an `Int` as a number of `K` (the implicit conversion in `binom_val * row_result`) -/
def intToK (z : Int) : K := if z < 0 then -((z.natAbs : Nat) : K) else ((z.natAbs : Nat) : K)

/-- Fortran `binom_val = (binom_val * (k + 1)) / (degree - k)` with `integer(c_int)` operands:
    wrapped product, division truncating towards zero -/
def F90.binomStep (degree k : Nat) (b : Int) : Int :=
  Int.tdiv (wrap32 (b * ((k + 1 : Nat) : Int))) ((degree - k : Nat) : Int)

/-- the same statement evaluated in unbounded integers (what the programmer meant) -/
def F90.binomStepExact (degree k : Nat) (b : Int) : Int :=
  Int.tdiv (b * ((k + 1 : Nat) : Int)) ((degree - k : Nat) : Int)

/-- value of `binom_val` after `t` iterations (`k = degree-1, …, degree-t`) -/
def F90.binomAfter (degree : Nat) : Nat → Int
  | 0 => 1
  | t+1 => F90.binomStep degree (degree - 1 - t) (F90.binomAfter degree t)

def F90.binomAfterExact (degree : Nat) : Nat → Int
  | 0 => 1
  | t+1 => F90.binomStepExact degree (degree - 1 - t) (F90.binomAfterExact degree t)

/-- does some product `binom_val * (k + 1)` of the loop leave the `integer(c_int)` range? -/
def F90.binomOverflows (degree : Nat) : Bool :=
  (List.range degree).any (fun t =>
    let p := F90.binomAfter degree t * (((degree - 1 - t) + 1 : Nat) : Int)
    decide (wrap32 p ≠ p))

/-- Fortran loop body (declared type of `binom_val`: `integer(c_int)`):
    `evaluated = lambda3 * evaluated + binom_val * row_result` -/
def F90.triStep (thr degree : Nat) (row : List K) (w : Bary K) (st : TriState K Int) (k : Nat) :
    TriState K Int :=
  let binom := F90.binomStep degree k st.binom
  let index := st.index - 1
  let newIndex := index + k - degree
  let rowResult := evalBary thr (triSlice row newIndex index) w.l1 w.l2
  { result := w.l3 * st.result + intToK binom * rowResult, binom := binom, index := newIndex }

/-- before the loop: `evaluated = nodes(:, num_nodes)` (a copy), `binom_val = 1` -/
def F90.triLoop (thr degree : Nat) (row : List K) (w : Bary K) : Nat → TriState K Int
  | 0 => { result := seq row (row.length - 1), binom := 1, index := row.length - 1 }
  | t+1 => F90.triStep thr degree row w (F90.triLoop thr degree row w t) (degree - 1 - t)

/-- `evaluate_barycentric_multi` (Fortran, `binom_val` declared `integer(c_int)`), one row, one
    parameter triple (`degree == 0` returns the copy: zero iterations) -/
def F90.evalBarycentricRow (thr degree : Nat) (row : List K) (w : Bary K) : K :=
  (F90.triLoop thr degree row w degree).result

/-- the Fortran loop with `binom_val` declared `real(c_double)` (the form the extractor reports as
    `"real"`): same statements, real arithmetic for the binomial -/
def F90.triStepReal (thr degree : Nat) (row : List K) (w : Bary K) (st : TriState K K) (k : Nat) :
    TriState K K :=
  let binom := (st.binom * ((k + 1 : Nat) : K)) / ((degree - k : Nat) : K)
  let index := st.index - 1
  let newIndex := index + k - degree
  let rowResult := evalBary thr (triSlice row newIndex index) w.l1 w.l2
  { result := w.l3 * st.result + binom * rowResult, binom := binom, index := newIndex }

def F90.triLoopReal (thr degree : Nat) (row : List K) (w : Bary K) : Nat → TriState K K
  | 0 => { result := seq row (row.length - 1), binom := 1, index := row.length - 1 }
  | t+1 => F90.triStepReal thr degree row w (F90.triLoopReal thr degree row w t) (degree - 1 - t)

def F90.evalBarycentricRowReal (thr degree : Nat) (row : List K) (w : Bary K) : K :=
  (F90.triLoopReal thr degree row w degree).result

/-- `evaluate_barycentric`: the `D × 1` point -/
def Py.evalBarycentric (thr degree : Nat) (nodes : List (List K)) (w : Bary K) : List K :=
  nodes.map (fun row => Py.evalBarycentricRow thr degree row w)

def F90.evalBarycentric (thr degree : Nat) (nodes : List (List K)) (w : Bary K) : List K :=
  nodes.map (fun row => F90.evalBarycentricRow thr degree row w)

/-- `evaluate_barycentric_multi`: rows of `param_vals` are weight triples; result `dim × num_vals` -/
def Py.evalBarycentricMulti (thr degree : Nat) (nodes : List (List K)) (params : List (Bary K)) :
    List (List K) :=
  nodes.map (fun row => params.map (fun w => Py.evalBarycentricRow thr degree row w))

def F90.evalBarycentricMulti (thr degree : Nat) (nodes : List (List K)) (params : List (Bary K)) :
    List (List K) :=
  nodes.map (fun row => params.map (fun w => F90.evalBarycentricRow thr degree row w))

def F90.evalBarycentricMultiReal (thr degree : Nat) (nodes : List (List K)) (params : List (Bary K)) :
    List (List K) :=
  nodes.map (fun row => params.map (fun w => F90.evalBarycentricRowReal thr degree row w))

/-- Cartesian → barycentric: `1.0 - s - t`, `s`, `t` -/
def cartesian (s t : K) : Bary K := { l1 := 1 - s - t, l2 := s, l3 := t }

/-- `evaluate_cartesian_multi` -/
def Py.evalCartesianMulti (thr degree : Nat) (nodes : List (List K)) (params : List (K × K)) :
    List (List K) :=
  Py.evalBarycentricMulti thr degree nodes (params.map (fun p => cartesian p.1 p.2))

def F90.evalCartesianMulti (thr degree : Nat) (nodes : List (List K)) (params : List (K × K)) :
    List (List K) :=
  F90.evalBarycentricMulti thr degree nodes (params.map (fun p => cartesian p.1 p.2))

def F90.evalCartesianMultiReal (thr degree : Nat) (nodes : List (List K)) (params : List (K × K)) :
    List (List K) :=
  F90.evalBarycentricMultiReal thr degree nodes (params.map (fun p => cartesian p.1 p.2))

/-! ### `Triangle.evaluate_*`: the verification in front of the hazmat call -/

section Verify
variable [LT K] [DecidableLT K] [LE K] [DecidableLE K]

/-- `|x|` by comparison -/
def triAbs (x : K) : K := if x < 0 then -x else x

/-- `_verify_barycentric`: `np.allclose(total, 1.0, atol=0.0)` is `|total - 1| ≤ rtol * |1|`
    (`rtol` = NumPy's default, a parameter), then all weights non-negative -/
def verifyBarycentric (rtol : K) (w : Bary K) : Bool :=
  decide (triAbs (w.l1 + w.l2 + w.l3 - 1) ≤ rtol * triAbs 1) &&
    !(decide (w.l1 < 0) || decide (w.l2 < 0) || decide (w.l3 < 0))

/-- `_verify_cartesian`: `s < 0 or t < 0 or s + t > 1` raises -/
def verifyCartesian (s t : K) : Bool :=
  !(decide (s < 0) || decide (t < 0) || decide (1 < s + t))

/-- `Triangle.evaluate_barycentric(λ₁, λ₂, λ₃, verify)` on top of a hazmat evaluation `ev` -/
def Tri.evaluateBarycentric (ev : Bary K → List K) (rtol : K) (verify : Bool) (w : Bary K) :
    Except Err (List K) :=
  if verify && !(verifyBarycentric rtol w) then .error .valueError else .ok (ev w)

/-- `Triangle.evaluate_cartesian(s, t, verify)` -/
def Tri.evaluateCartesian (ev : Bary K → List K) (verify : Bool) (s t : K) : Except Err (List K) :=
  if verify && !(verifyCartesian s t) then .error .valueError else .ok (ev (cartesian s t))

/-- `Triangle.evaluate_barycentric_multi(param_vals, verify)` -/
def Tri.evaluateBarycentricMulti (ev : List (Bary K) → List (List K)) (rtol : K) (verify : Bool)
    (params : List (Bary K)) : Except Err (List (List K)) :=
  if verify && !(params.all (verifyBarycentric rtol)) then .error .valueError else .ok (ev params)

/-- `Triangle.evaluate_cartesian_multi(param_vals, verify)` -/
def Tri.evaluateCartesianMulti (ev : List (K × K) → List (List K)) (verify : Bool)
    (params : List (K × K)) : Except Err (List (List K)) :=
  if verify && !(params.all (fun p => verifyCartesian p.1 p.2)) then .error .valueError
  else .ok (ev params)

end Verify

/-! ## `compute_edge_nodes` (Python and Fortran: same running indices) -/

/-- loop `for i in range(degree + 1)`: `curr2 += degree - i`, `curr3 -= i + 2`; Python's negative
    `curr3 = -back` addresses `nodes[:, num_nodes - back]` (Fortran: `index3 = num_nodes - back + 1`,
    1-based) -/
def edgeLoop (v : Nat → K) (n degree : Nat) : Nat → Nat → Nat → Nat → List K × List K × List K
  | 0, _, _, _ => ([], [], [])
  | fuel+1, i, curr2, back =>
    let r := edgeLoop v n degree fuel (i + 1) (curr2 + (degree - i)) (back + (i + 2))
    (v i :: r.1, v curr2 :: r.2.1, v (n - back) :: r.2.2)

/-- `compute_edge_nodes` on one coordinate row: `curr2 = degree`, `curr3 = -1` -/
def computeEdgeNodesRow (degree : Nat) (row : List K) : List K × List K × List K :=
  edgeLoop (seq row) row.length degree (degree + 1) 0 degree 1

def computeEdgeNodes (degree : Nat) (nodes : List (List K)) :
    List (List K) × List (List K) × List (List K) :=
  (nodes.map (fun r => (computeEdgeNodesRow degree r).1),
   nodes.map (fun r => (computeEdgeNodesRow degree r).2.1),
   nodes.map (fun r => (computeEdgeNodesRow degree r).2.2))

/-! ## `specialize_triangle` -/

/-- weights by the id used in the Python keys: `0 ↦ weights_a`, `1 ↦ weights_b`, `2 ↦ weights_c` -/
def pickW (wa wb wc : Bary K) (id : Nat) : Bary K :=
  if id = 0 then wa else if id = 1 then wb else wc

/-- `make_transform(degree, …)[id]`: de Casteljau applied to the identity matrix
    (`num_nodes × (num_nodes - degree - 1)`, acting on the right) -/
def makeTransform (degree : Nat) (w : Bary K) : List (List K) :=
  (identity (numNodes degree)).map (dcRound3 degree w)

/-- a Python dictionary with tuple keys, in insertion order -/
abbrev TriDict (K : Type) := List (List Nat × List K)

/-- `matrix_product(sub_nodes, M)` on one row with `M` given by the list of its columns (so that the
    columns of a cached transform are formed once): `rowMulCols row (transpose M) = rowMul row M` -/
def rowMulCols (row : List K) (cols : List (List K)) : List K := cols.map (fun c => dot row c)

/-- one pass `for reduced_deg …` of `specialize_triangle`: every entry `key ↦ sub_nodes` produces
    `key + (next_id,) ↦ sub_nodes · transform[next_id]` for `next_id` in `range(key[-1], 3)` -/
def Py.triSpecializeStep (reducedDeg : Nat) (wa wb wc : Bary K) (partialVals : TriDict K) : TriDict K :=
  let t0 := transpose (makeTransform reducedDeg wa)
  let t1 := transpose (makeTransform reducedDeg wb)
  let t2 := transpose (makeTransform reducedDeg wc)
  let transform := fun (id : Nat) => if id = 0 then t0 else if id = 1 then t1 else t2
  partialVals.flatMap (fun entry =>
    let last := entry.1.getLastD 0
    (List.range' last (3 - last)).map (fun nextId =>
      (entry.1 ++ [nextId], rowMulCols entry.2 (transform nextId))))

/-- the dictionary after the loop: `reduced_deg = degree - 1, …, 1` (`fuel` passes remain) -/
def Py.triSpecializeLoop (wa wb wc : Bary K) : Nat → TriDict K → TriDict K
  | 0, pv => pv
  | fuel+1, pv => Py.triSpecializeLoop wa wb wc fuel (Py.triSpecializeStep (fuel + 1) wa wb wc pv)

/-- map with early exit on the first error -/
def triMapE {α β : Type} (f : α → Except Err β) : List α → Except Err (List β)
  | [] => .ok []
  | a :: rest =>
    match f a with
    | .error e => .error e
    | .ok b =>
      match triMapE f rest with
      | .error e => .error e
      | .ok bs => .ok (b :: bs)

/-- the index triples `(i, j, k)` in the order of the double loop `for k … for j …` -/
def tripleOrder (degree : Nat) : List (Nat × Nat × Nat) :=
  (List.range (degree + 1)).flatMap (fun k =>
    (List.range (degree + 1 - k)).map (fun j => (degree - j - k, j, k)))

/-- the key `(0,) * i + (1,) * j + (2,) * k` -/
def triKeyOf (ijk : Nat × Nat × Nat) : List Nat :=
  List.replicate ijk.1 0 ++ List.replicate ijk.2.1 1 ++ List.replicate ijk.2.2 2

/-- `reduced_to_matrix`: `for k … for j …: key = (0,)*i + (1,)*j + (2,)*k;
    result[:, index] = vals_by_weight[key][:, 0]`; a missing key is Python's `KeyError` -/
def Py.reducedToMatrix (degree : Nat) (vals : TriDict K) : Except Err (List K) :=
  triMapE (fun ijk =>
      match vals.lookup (triKeyOf ijk) with
      | some sub => .ok (sub.headD 0)
      | none => .error .badInput) (tripleOrder degree)

/-- `specialize_triangle` (Python) on one coordinate row -/
def Py.triSpecializeRow (degree : Nat) (row : List K) (wa wb wc : Bary K) : Except Err (List K) :=
  let partialVals : TriDict K :=
    [([0], dcRound3 degree wa row), ([1], dcRound3 degree wb row), ([2], dcRound3 degree wc row)]
  Py.reducedToMatrix degree (Py.triSpecializeLoop wa wb wc (degree - 1) partialVals)

def Py.triSpecialize (degree : Nat) (nodes : List (List K)) (wa wb wc : Bary K) :
    Except Err (List (List K)) :=
  triMapE (fun row => Py.triSpecializeRow degree row wa wb wc) nodes

/-- `specialize_workspace_sizes` -/
def F90.workspaceSizes (degree : Nat) : Nat × Nat :=
  if degree % 2 = 1 then
    let s := ((degree + 1) * (degree + 3) ^ 2 * (degree + 5)) / 64
    (s, s)
  else if degree % 4 = 0 then
    ((degree * (degree + 2) * (degree + 4) * (degree + 6)) / 64, (((degree + 2) * (degree + 4)) / 8) ^ 2)
  else
    ((((degree + 2) * (degree + 4)) / 8) ^ 2, (degree * (degree + 2) * (degree + 4) * (degree + 6)) / 64)

/-- `cnt` consecutive calls `de_casteljau_one_round(read_nodes(:, read_index:new_read), …)`, the
    results written one after the other; `read_index` advances by `size_read` -/
def F90.roundsFrom (localDegree sizeRead : Nat) (w : Bary K) (read : List K) : Nat → Nat → List K
  | 0, _ => []
  | cnt+1, readIndex =>
    dcRound3 localDegree w ((read.drop readIndex).take sizeRead) ++
      F90.roundsFrom localDegree sizeRead w read cnt (readIndex + sizeRead)

/-- `specialize_triangle_one_round`: first `(step,0,0)` with `weights_a`, second `(i,j,0)`, `j > 0`
    (`step` groups with `weights_b`), third `k > 0` (`(step+1)·step/2` groups with `weights_c`) -/
def F90.triSpecializeOneRound (sizeRead step localDegree : Nat) (wa wb wc : Bary K) (read : List K) :
    List K :=
  dcRound3 localDegree wa (read.take sizeRead) ++
    F90.roundsFrom localDegree sizeRead wb read step 0 ++
    F90.roundsFrom localDegree sizeRead wc read (((step + 1) * step) / 2) 0

/-- running variables of the `do step = 1, degree` loop (the two workspaces alternate: the
    workspace read in one step is the one written in the previous step) -/
structure F90.SpecState (K : Type) where
  work : List K
  size : Nat
  deltaSize : Nat      -- `-delta_size`
  numCurves : Nat
  deltaNc : Nat
  isEven : Bool
  /-- largest extent written to `workspace_odd` / `workspace_even` so far -/
  usedOdd : Nat
  usedEven : Nat

def F90.triSpecializeStepState (degree : Nat) (wa wb wc : Bary K) (st : F90.SpecState K) (step : Nat) :
    F90.SpecState K :=
  let numCurves := st.numCurves + st.deltaNc
  let sizeNew := st.size - st.deltaSize
  let written := F90.triSpecializeOneRound st.size step (degree + 1 - step) wa wb wc st.work
  { work := written, size := sizeNew, deltaSize := st.deltaSize - 1, numCurves := numCurves,
    deltaNc := st.deltaNc + 1, isEven := !st.isEven,
    usedOdd := if st.isEven then st.usedOdd else max st.usedOdd written.length,
    usedEven := if st.isEven then max st.usedEven written.length else st.usedEven }

def F90.triSpecializeLoop (degree : Nat) (wa wb wc : Bary K) (row : List K) : Nat → F90.SpecState K
  | 0 => { work := row, size := numNodes degree, deltaSize := degree + 1, numCurves := 1, deltaNc := 2,
           isEven := false, usedOdd := 0, usedEven := 0 }
  | s+1 => F90.triSpecializeStepState degree wa wb wc (F90.triSpecializeLoop degree wa wb wc row s) (s + 1)

/-- `specialize_triangle` (Fortran) on one coordinate row: `specialized = workspace(:, 1:num_nodes)`
    (assumes `degree ≥ 1` like the code: for `degree = 0` the Fortran routine returns an
    uninitialised workspace, the model the input) -/
def F90.triSpecializeRow (degree : Nat) (row : List K) (wa wb wc : Bary K) : List K :=
  (F90.triSpecializeLoop degree wa wb wc row degree).work.take row.length

def F90.triSpecialize (degree : Nat) (nodes : List (List K)) (wa wb wc : Bary K) : List (List K) :=
  nodes.map (fun row => F90.triSpecializeRow degree row wa wb wc)

/-- do the two allocated workspaces hold everything the loop writes? -/
def F90.workspacesSuffice (degree : Nat) : Bool :=
  let st := F90.triSpecializeLoop (K := Int) degree ⟨0, 0, 0⟩ ⟨0, 0, 0⟩ ⟨0, 0, 0⟩
    (List.replicate (numNodes degree) 0) degree
  decide (st.usedOdd ≤ (F90.workspaceSizes degree).1) && decide (st.usedEven ≤ (F90.workspaceSizes degree).2)

/-! ## `subdivide_nodes` -/

/-- the six module constants `_WEIGHTS_SUBDIVIDE0 … 5` -/
structure SubWeights (K : Type) where
  w0 : Bary K
  w1 : Bary K
  w2 : Bary K
  w3 : Bary K
  w4 : Bary K
  w5 : Bary K

/-- the values of the constants in the library (Tables/C09 compares with the extracted ones) -/
def subWeights : SubWeights K :=
  let h : K := 1 / (1 + 1)
  { w0 := ⟨1, 0, 0⟩, w1 := ⟨h, h, 0⟩, w2 := ⟨h, 0, h⟩, w3 := ⟨0, h, h⟩, w4 := ⟨0, 1, 0⟩, w5 := ⟨0, 0, 1⟩ }

/-- the four sub-triangles, in the order returned -/
inductive Quarter where
  | A | B | C | D
  deriving DecidableEq, Repr

/-- the weight triples of the four `specialize_triangle` calls in `subdivide_nodes` -/
def quarterWeights (W : SubWeights K) : Quarter → Bary K × Bary K × Bary K
  | .A => (W.w0, W.w1, W.w2)
  | .B => (W.w3, W.w2, W.w1)
  | .C => (W.w1, W.w4, W.w3)
  | .D => (W.w2, W.w3, W.w5)

/-- generic branch of `subdivide_nodes` (Python): four `specialize_triangle` calls -/
def Py.triSubdivideGenericRow (W : SubWeights K) (degree : Nat) (row : List K) (qt : Quarter) :
    Except Err (List K) :=
  let w := quarterWeights W qt
  Py.triSpecializeRow degree row w.1 w.2.1 w.2.2

/-- generic branch of `subdivide_nodes` (Fortran) -/
def F90.triSubdivideGenericRow (W : SubWeights K) (degree : Nat) (row : List K) (qt : Quarter) : List K :=
  let w := quarterWeights W qt
  F90.triSpecializeRow degree row w.1 w.2.1 w.2.2

/-- model-derived operator matrix of a quarter (`N × N`, `new = nodes · M`): row `r` is the image
    of the unit net `e_r` under the generic (Fortran workspace) path -/
def triSubdivMat (W : SubWeights K) (degree : Nat) (qt : Quarter) : List (List K) :=
  (identity (numNodes degree)).map (fun e => F90.triSubdivideGenericRow W degree e qt)

/-- the same through the Python dictionary path -/
def Py.triSubdivMat (W : SubWeights K) (degree : Nat) (qt : Quarter) : Except Err (List (List K)) :=
  triMapE (fun e => Py.triSubdivideGenericRow W degree e qt) (identity (numNodes degree))

/-- `subdivide_nodes` (Python) on one row: degrees 1–4 multiply by the tables
    `LINEAR/QUADRATIC/CUBIC/QUARTIC_SUBDIVIDE_A…D` (`tables degree quarter`, data), otherwise the
    generic branch -/
def Py.triSubdivideNodesRow (tables : Nat → Quarter → List (List K)) (W : SubWeights K) (degree : Nat)
    (row : List K) (qt : Quarter) : Except Err (List K) :=
  if 1 ≤ degree ∧ degree ≤ 4 then .ok (rowMul row (tables degree qt))
  else Py.triSubdivideGenericRow W degree row qt

/-- `subdivide_nodes` (Fortran) on one row: closed forms for degree 1–4 (linear maps given by the
    matrices `forms degree quarter`, data), otherwise the generic branch -/
def F90.triSubdivideNodesRow (forms : Nat → Quarter → List (List K)) (W : SubWeights K) (degree : Nat)
    (row : List K) (qt : Quarter) : List K :=
  if 1 ≤ degree ∧ degree ≤ 4 then rowMul row (forms degree qt)
  else F90.triSubdivideGenericRow W degree row qt

/-! ## `Triangle.elevate` (triangle.py; three running parents) -/

/-- `l[p] += x` -/
def triAddAt : List K → Nat → K → List K
  | [], _, _ => []
  | y :: rest, 0, x => (y + x) :: rest
  | y :: rest, p+1, x => y :: triAddAt rest p x

/-- running variables of the elevation loops -/
structure ElevState (K : Type) where
  acc : List K
  index : Nat
  p1 : Nat
  p2 : Nat
  p3 : Nat

/-- inner loop `for j in range(degree + 1 - k)` (`cnt` iterations remain, `i = degree - j - k`) -/
def elevInner (degree k : Nat) (v : Nat → K) : Nat → Nat → ElevState K → ElevState K
  | 0, _, st => st
  | cnt+1, j, st =>
    let i := degree - j - k
    let x := v st.index
    let acc := triAddAt st.acc st.p1 (((i + 1 : Nat) : K) * x)
    let acc := triAddAt acc st.p2 (((j + 1 : Nat) : K) * x)
    let acc := triAddAt acc st.p3 (((k + 1 : Nat) : K) * x)
    elevInner degree k v cnt (j + 1)
      { acc := acc, index := st.index + 1, p1 := st.p1 + 1, p2 := st.p2 + 1, p3 := st.p3 + 1 }

/-- outer loop `for k in range(degree + 1)` -/
def elevOuter (degree : Nat) (v : Nat → K) : Nat → Nat → ElevState K → ElevState K
  | 0, _, st => st
  | fuel+1, k, st =>
    let st := elevInner degree k v (degree + 1 - k) 0 st
    elevOuter degree v fuel (k + 1) { st with p1 := st.p1 + 1, p2 := st.p2 + 1 }

/-- `l[p] = x` -/
def triSetAt : List K → Nat → K → List K
  | [], _, _ => []
  | _ :: rest, 0, x => x :: rest
  | y :: rest, p+1, x => y :: triSetAt rest p x

/-- `Triangle.elevate` on one coordinate row: `new_nodes = zeros(num_nodes + degree + 2)`,
    `parent_i1 = 0, parent_i2 = 1, parent_i3 = degree + 2`, `new_nodes /= degree + 1.0`, then the
    three corners are copied: `new_nodes[:, 0] = nodes[:, 0]`,
    `new_nodes[:, degree + 1] = nodes[:, degree]`, `new_nodes[:, -1] = nodes[:, -1]` -/
def Tri.elevateRow (degree : Nat) (row : List K) : List K :=
  let st := elevOuter degree (seq row) (degree + 1) 0
    { acc := List.replicate (row.length + degree + 2) 0, index := 0, p1 := 0, p2 := 1, p3 := degree + 2 }
  let divided := divRow st.acc (((degree : Nat) : K) + 1)
  let c1 := triSetAt divided 0 (seq row 0)
  let c2 := triSetAt c1 (degree + 1) (seq row degree)
  triSetAt c2 (c2.length - 1) (seq row (row.length - 1))

def Tri.elevate (degree : Nat) (nodes : List (List K)) : List (List K) :=
  nodes.map (Tri.elevateRow degree)

end BezierVerif.Model
