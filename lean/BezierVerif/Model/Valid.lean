import BezierVerif.Model.TriDeriv

/-!
# Model/Valid — `Triangle.is_valid`
(`triangle.py: _compute_valid`; `hazmat/triangle_helpers.py`: `quadratic_jacobian_polynomial`,
`cubic_jacobian_polynomial`, `two_by_two_det`, `polynomial_sign`)

The two "Jacobian helper" tables and the two "to Bernstein" tables of the library are DERIVED here
(`jacobianHelper`, `toBernstein`): the helper's column pair `2i, 2i+1` is `(B_s, B_t)` at lattice node
`i` of the degree-`m` reference lattice as a linear map of the control net, and the change of basis
is the inverse of the Bernstein–Vandermonde matrix at those nodes (computed by exact Gauss–Jordan
elimination).  `Tables/C13` decides that the extracted tables equal them.
-/

namespace BezierVerif.Model

variable {K : Type} [Add K] [Sub K] [Mul K] [Div K] [Neg K] [OfNat K 0] [OfNat K 1] [NatCast K]
  [LT K] [DecidableLT K] [DecidableEq K]

/-- lattice points `(s, t) = (j/m, k/m)` of the degree-`m` reference triangle, in node order -/
def latticePoints (m : Nat) : List (K × K) :=
  (List.range (m + 1)).flatMap (fun k => (List.range (m + 1 - k)).map (fun j =>
    (((j : Nat) : K) / ((m : Nat) : K), ((k : Nat) : K) / ((m : Nat) : K))))

/-- value of `(B_s, B_t)` of ONE coordinate row at `(s, t)` (degree `d ≥ 1`) -/
def partialsAt (thr d : Nat) (row : List K) (s t : K) : K × K :=
  let w := cartesian s t
  if d = 1 then (seq (jacobianSRow d row) 0, seq (jacobianTRow d row) 0)
  else (Py.evalBarycentricRow thr (d - 1) (jacobianSRow d row) w, Py.evalBarycentricRow thr (d - 1) (jacobianTRow d row) w)

/-- the Jacobian helper (`N × 2M`): row `r` = image of the unit net `e_r`; columns `2i, 2i+1` = `(B_s, B_t)` at
    lattice node `i` of the degree-`m` lattice -/
def jacobianHelper (thr d m : Nat) : List (List K) :=
  (identity (numNodes d)).map (fun e =>
    (latticePoints (K := K) m).flatMap (fun p => let q := partialsAt thr d e p.1 p.2; [q.1, q.2]))

/-- Bernstein–Vandermonde matrix at the lattice nodes: `V[i][c]` = value of the `c`-th Bernstein basis function
    (degree `m`) at lattice node `i` -/
def bernsteinVandermonde (thr m : Nat) : List (List K) :=
  (latticePoints (K := K) m).map (fun p =>
    (identity (numNodes m)).map (fun e => Py.evalBarycentricRow thr m e (cartesian p.1 p.2)))

/-- Gauss–Jordan inverse (exact; `none` if a zero pivot column is met) -/
def gaussJordanInverse (a : List (List K)) : Option (List (List K)) :=
  let n := a.length
  let aug := (List.zip a (identity n)).map (fun p => p.1 ++ p.2)
  let step (st : Option (List (List K))) (c : Nat) : Option (List (List K)) :=
    match st with
    | none => none
    | some m =>
      -- pivot row: first row at or below c with a non-zero entry in column c
      match (List.range n).find? (fun r => decide (c ≤ r) && !(decide (seq (m.getD r []) c = 0))) with
      | none => none
      | some pr =>
        let rowP := m.getD pr []
        let rowC := m.getD c []
        let m1 := (List.range n).map (fun r => if r = c then rowP else if r = pr then rowC else m.getD r [])
        let piv := seq rowP c
        let normRow := rowP.map (fun x => x / piv)
        some ((List.range n).map (fun r =>
          if r = c then normRow
          else
            let row := m1.getD r []
            let f := seq row c
            List.zipWith (fun x y => x - f * y) row normRow))
  match (List.range n).foldl step (some aug) with
  | none => none
  | some m => some (m.map (fun r => r.drop n))

/-- values at the lattice nodes → Bernstein coefficients: `coeffs = values · T`, `T = (Vᵀ)⁻¹`…
    (row-vector convention: `values = coeffs · Vᵀ`) -/
def toBernstein (thr m : Nat) : Option (List (List K)) :=
  gaussJordanInverse (transpose (bernsteinVandermonde (K := K) thr m))

def twoByTwoDet (a b c d : K) : K := a * d - b * c

/-- `quadratic_jacobian_polynomial` (`d = 2, m = 2`) / `cubic_jacobian_polynomial` (`d = 3, m = 4`):
    Bernstein coefficients (degree `m`) of `det J`.  `helper`, `toBern` are the tables (data). -/
def jacobianPolynomial (helper toBern : List (List K)) (nodes : List (List K)) : List K :=
  let xs := rowMul (nodes.getD 0 []) helper
  let ys := rowMul (nodes.getD 1 []) helper
  let cnt := xs.length / 2
  let atNodes := (List.range cnt).map (fun i =>
    twoByTwoDet (seq xs (2 * i)) (seq xs (2 * i + 1)) (seq ys (2 * i)) (seq ys (2 * i + 1)))
  rowMul atNodes toBern

def signOf (x : K) : Int := if 0 < x then 1 else if x < 0 then -1 else 0

/-- `polynomial_sign`: `ok s` with `s ∈ {-1, 0, 1}`; `valueError` when undecided after `maxSub` levels.
    `subdiv poly` returns the four sub-polynomials (the triangle subdivision of a one-row net). -/
def polynomialSign (subdiv : List K → List (List K)) (maxSub degree : Nat) (poly : List K) : Except Err Int :=
  let corners (p : List K) : List Int := [signOf (seq p 0), signOf (seq p degree), signOf (seq p (p.length - 1))]
  let addSign (signs : List Int) (s : Int) : List Int := if signs.contains s then signs else signs ++ [s]
  -- one level: returns `(signs, undecided, conflict?)`
  let level (signs : List Int) (polys : List (List K)) : List Int × List (List K) × Bool :=
    polys.foldl (fun (st : List Int × List (List K) × Bool) p =>
      if st.2.2 then st
      else
        let sg := (corners p).foldl addSign st.1
        let (sg, und) :=
          if p.all (fun x => decide (x = 0)) then (addSign sg 0, st.2.1)
          else if p.all (fun x => decide (0 < x)) then (addSign sg 1, st.2.1)
          else if p.all (fun x => decide (x < 0)) then (addSign sg (-1), st.2.1)
          else (sg, st.2.1 ++ [p])
        (sg, und, decide (sg.length > 1))) (signs, [], false)
  let rec go : Nat → List Int → List (List K) → Except Err Int
    | 0, _, _ => .error .valueError
    | fuel + 1, signs, polys =>
      let (sg, und, conflict) := level signs polys
      if conflict then .ok 0
      else
        let next := und.flatMap subdiv
        if next.isEmpty then .ok (sg.headD 0)
        else if fuel = 0 then .error .valueError
        else go fuel sg next
  go maxSub [] [poly]

/-- `_compute_valid` / `is_valid` -/
def isValid (helper2 toBern2 helper3 toBern3 : List (List K)) (bernFactor : K)
    (subdiv2 subdiv4 : List K → List (List K)) (maxSub : Nat) (dimension degree : Nat) (nodes : List (List K)) :
    Except Err Bool :=
  if dimension ≠ 2 then .error .notImplemented
  else if degree = 1 then
    let xs := nodes.getD 0 []; let ys := nodes.getD 1 []
    -- first_deriv = nodes[:, 1:] - nodes[:, :-1]; det of the 2 x 2 matrix
    let d := twoByTwoDet (seq xs 1 - seq xs 0) (seq xs 2 - seq xs 1) (seq ys 1 - seq ys 0) (seq ys 2 - seq ys 1)
    .ok (decide (signOf d = 1))
  else if degree = 2 then
    match polynomialSign subdiv2 maxSub 2 (jacobianPolynomial helper2 toBern2 nodes) with
    | .ok s => .ok (decide (s = 1))
    | .error e => .error e
  else if degree = 3 then
    match polynomialSign subdiv4 maxSub 4 ((jacobianPolynomial helper3 toBern3 nodes).map (fun x => x / bernFactor)) with
    | .ok s => .ok (decide (s = 1))
    | .error e => .error e
  else .error .unsupportedDegree

end BezierVerif.Model
