import BezierVerif.Model.Classify
import BezierVerif.Model.Triangle

/-!
# Model/Walk — the boundary walk of the triangle-triangle intersection

Transcription of

* `hazmat/triangle_helpers.py`: `get_next_first`, `get_next_second`, `get_next_coincident`, `get_next`,
  `tangent_only_intersections`, `basic_interior_combine`, `no_intersections`, `combine_intersections`;
* `hazmat/triangle_intersection.py`: `same_intersection`, `verify_duplicates`, `add_edge_end_unused`,
  `check_unused`, `add_intersection`, `triangle_intersections`, `generic_intersect`;
* `triangle_intersection.f90`: `update_edge_end_unused`, `find_corner_unused`, `add_st_vals`,
  `triangles_intersection_points`, `get_next`, `to_front`, `add_segment`, `finalize_segment`,
  `check_contained`, `interior_combine`, `triangles_intersect`, `triangles_intersect_abi` and the
  status → exception table of the Cython wrapper `_speedup.triangle_intersections`.

## Object identity

The Python code compares nodes with `is` / `in unused` (no `__eq__` on `Intersection`: identity) and the
Fortran code carries positions (`start`, `intersection_index`, the integer array `unused`).  A walk node
is therefore a `WNode`: the value of the node together with `pos = some i` when the node IS the object
`intersections[i]`, `pos = none` for an artificial node created by `get_next` / `to_front`.
`unused` is the list of positions not yet used, in the order of the Python list.

## Domain

Every element of `intersections` built by `triangle_intersections` carries all five fields.  A comparison
`other_s > s` in which one side is `None` (a `TypeError` in Python, never executed by the library) is
`false` here; `basicInteriorCombine` / `interiorCombine` refuse lists with a missing field (`Err.badInput`)
before walking, so every theorem about the walk is about lists of complete intersections.

## Python / Fortran

The two walks visit the same nodes; they differ observably in
* `get_next` on a node that is not FIRST / TANGENT_FIRST / SECOND / TANGENT_SECOND / COINCIDENT
  (Python: `ValueError`; Fortran: treated as COINCIDENT) and `ends_to_curve` / `add_segment` (Python checks
  the edge indices: `ValueError`; Fortran does not);
* the loop shape of `basic_interior_combine` / `interior_combine` (`while` + `max_edges` vs. `do i = 1, MAX_EDGES`);
* `tangent_only_intersections` (Python: `ValueError`; Fortran: `Status_UNKNOWN` ⇒ `RuntimeError`);
* the edge-pair loop: Python keeps the `duplicates` and moves a re-classified corner to the end of the list
  (`add_edge_end_unused`), Fortran re-labels it in place (`update_edge_end_unused`) and looks for a match on
  ONE parameter only (`front_s == 0` ⇒ `s`, otherwise `t`; likewise `find_corner_unused` vs. `check_unused`);
* `verify`: `verify_duplicates` + `verify_edge_segments` exist only in Python (the compiled wrapper ignores
  `verify`).
Edge indices are 0-based in both variants (Fortran's `1 + modulo(i, 3)` on `1..3` is `(i + 1) % 3` on `0..2`;
the wrapper subtracts 1 from `edge_index`).
-/

namespace BezierVerif.Model.Walk

open BezierVerif.Model BezierVerif.Model.Classify

variable {K : Type} [Add K] [Sub K] [Mul K] [Div K] [Neg K] [OfNat K 0] [OfNat K 1] [NatCast K]
  [LT K] [DecidableLT K] [LE K] [DecidableLE K] [DecidableEq K]

/-! ## nodes -/

/-- a node of the walk: `pos = some i` iff the node is the object `intersections[i]` -/
structure WNode (K : Type) where
  pos : Option Nat
  val : Intersection K

/-- an `Intersection` with no field set (only used as the default of an out-of-range read) -/
def blank : Intersection K :=
  { indexFirst := none, s := none, indexSecond := none, t := none, interior := none }

/-- all five fields present (every element of the list built by `triangle_intersections`) -/
def isFull (x : Intersection K) : Bool :=
  x.indexFirst.isSome && x.s.isSome && x.indexSecond.isSome && x.t.isSome && x.interior.isSome

/-- `a > b` on optional numbers (`None` on either side: see "Domain") -/
def optGt (a b : Option K) : Bool :=
  match a, b with
  | some x, some y => decide (x > y)
  | _, _ => false

/-- `a < b` on optional numbers -/
def optLt (a b : Option K) : Bool :=
  match a, b with
  | some x, some y => decide (x < y)
  | _, _ => false

/-! ## `get_next_first`, `get_next_second`, `get_next_coincident`, `get_next` -/

/-- the loop `for other_int in intersections` of `get_next_first` / `get_next_second` (identical up to the
    pair of fields read: `idx`/`par` = `index_first`/`s` resp. `index_second`/`t`); running variables: the
    position `i` of `other_int` and `along_edge` (with its position) -/
def alongLoop (idx : Intersection K → Option Nat) (par : Intersection K → Option K)
    (index : Option Nat) (p : Option K) :
    List (Intersection K) → Nat → Option (Nat × Intersection K) → Option (Nat × Intersection K)
  | [], _, along => along
  | other :: rest, i, along =>
    let along' :=
      if idx other = index ∧ optGt (par other) p = true then
        match along with
        | none => some (i, other)
        | some a => if optLt (par other) (par a.2) then some (i, other) else along
      else along
    alongLoop idx par index p rest (i + 1) along'

/-- `get_next_first(intersection, intersections, to_end)`; `none` is Python's `None` -/
def getNextFirst (x : Intersection K) (ints : List (Intersection K)) (toEnd : Bool) : Option (WNode K) :=
  match alongLoop (·.indexFirst) (·.s) x.indexFirst x.s ints 0 none with
  | none =>
    if toEnd then
      some { pos := none, val := { indexFirst := x.indexFirst, s := some 1, indexSecond := none, t := none,
                                   interior := some .first } }
    else none
  | some a => some { pos := some a.1, val := a.2 }

/-- `get_next_second(intersection, intersections, to_end)` -/
def getNextSecond (x : Intersection K) (ints : List (Intersection K)) (toEnd : Bool) : Option (WNode K) :=
  match alongLoop (·.indexSecond) (·.t) x.indexSecond x.t ints 0 none with
  | none =>
    if toEnd then
      some { pos := none, val := { indexFirst := none, s := none, indexSecond := x.indexSecond, t := some 1,
                                   interior := some .second } }
    else none
  | some a => some { pos := some a.1, val := a.2 }

/-- `get_next_coincident(intersection, intersections)` -/
def getNextCoincident (x : Intersection K) (ints : List (Intersection K)) : WNode K :=
  match getNextFirst x ints false with
  | some alongFirst => alongFirst
  | none =>
    match getNextSecond x ints false with
    | some alongSecond => alongSecond
    | none => { pos := none, val := { indexFirst := x.indexFirst, s := some 1, indexSecond := x.indexSecond,
                                      t := some 1, interior := some .coincident } }

/-- `result = None; if is_first … elif is_second … elif COINCIDENT …`: `none` is the final `else` -/
def getNextCore (x : Intersection K) (ints : List (Intersection K)) : Option (WNode K) :=
  if isFirst x.interior then getNextFirst x ints true
  else if isSecond x.interior then getNextSecond x ints true
  else if x.interior = some .coincident then some (getNextCoincident x ints)
  else none

/-- `if result in unused: unused.remove(result)` (Fortran: `remove_node(intersection_index, …)`) -/
def consume (n : WNode K) (unused : List Nat) : List Nat :=
  match n.pos with
  | some i => unused.erase i
  | none => unused

/-- Python `get_next(intersection, intersections, unused)` -/
def Py.getNext (x : Intersection K) (ints : List (Intersection K)) (unused : List Nat) :
    Except Err (WNode K × List Nat) :=
  match getNextCore x ints with
  | some r => .ok (r, consume r unused)
  | none => .error .valueError

/-- Fortran `get_next`: the last `else` "assumes but does not check" COINCIDENT -/
def F90.getNext (x : Intersection K) (ints : List (Intersection K)) (unused : List Nat) :
    WNode K × List Nat :=
  let r := match getNextCore x ints with
    | some r => r
    | none => getNextCoincident x ints
  (r, consume r unused)

/-! ## `to_front` on walk nodes -/

/-- `to_front(intersection, intersections, unused)` keeping track of identity: the result is an element of
    `intersections` (with its position), a new artificial node, or the argument itself
    (`Classify.toFront` is the same function with the last two cases merged: `Lemmas/Walk.toFrontNode_spec`) -/
def toFrontNode (n : WNode K) (ints : List (Intersection K)) (unused : List Nat) : WNode K × List Nat :=
  if n.val.s = some 1 then
    let nextIndex := ((n.val.indexFirst.getD 0) + 1) % 3
    match findIdx? (fun o => decide (o.s = some 0) && decide (o.indexFirst = some nextIndex)) ints with
    | some i => ({ pos := some i, val := ints.getD i blank }, unused.erase i)
    | none => ({ pos := none, val := { indexFirst := some nextIndex, s := some 0, indexSecond := none, t := none,
                                       interior := some .first } }, unused)
  else if n.val.t = some 1 then
    let nextIndex := ((n.val.indexSecond.getD 0) + 1) % 3
    match findIdx? (fun o => decide (o.t = some 0) && decide (o.indexSecond = some nextIndex)) ints with
    | some i => ({ pos := some i, val := ints.getD i blank }, unused.erase i)
    | none => ({ pos := none, val := { indexFirst := none, s := none, indexSecond := some nextIndex, t := some 0,
                                       interior := some .second } }, unused)
  else (n, unused)

/-! ## `basic_interior_combine` (Python) -/

/-- `edge_ends`: the `(curr_node, next_node)` pairs of one curved polygon -/
abbrev EdgeEnds (K : Type) := List (WNode K × WNode K)

/-- the inner loop `while next_node is not start:`; state: `edge_ends`, `next_node`, `unused`.
    `fuel` is started at `max_edges + 1`: every pass that does not leave appends one pair and the code raises as
    soon as `len(edge_ends) > max_edges`, so the `0` case is never reached (`Lemmas/Walk.innerLoop_fuel`). -/
def Py.innerLoop (maxEdges : Nat) (ints : List (Intersection K)) (start : Nat) :
    Nat → EdgeEnds K → WNode K → List Nat → Except Err (EdgeEnds K × List Nat)
  | 0, _, _, _ => .error .runtimeError
  | fuel + 1, edgeEnds, nextNode, unused =>
    if nextNode.pos = some start then .ok (edgeEnds, unused)
    else
      let cu := toFrontNode nextNode ints unused
      if cu.1.pos = some start then .ok (edgeEnds, cu.2)
      else
        match Py.getNext cu.1.val ints cu.2 with
        | .error e => .error e
        | .ok nu =>
          let edgeEnds := edgeEnds ++ [(cu.1, nu.1)]
          if edgeEnds.length > maxEdges then .error .runtimeError
          else Py.innerLoop maxEdges ints start fuel edgeEnds nu.1 nu.2

/-- one pass of `while unused:` after `start = unused.pop()`: the `edge_ends` of the polygon through `start` -/
def Py.walkFrom (maxEdges : Nat) (ints : List (Intersection K)) (start : Nat) (unused : List Nat) :
    Except Err (EdgeEnds K × List Nat) :=
  let curr : WNode K := { pos := some start, val := ints.getD start blank }
  match Py.getNext curr.val ints unused with
  | .error e => .error e
  | .ok nu => Py.innerLoop maxEdges ints start (maxEdges + 1) [(curr, nu.1)] nu.1 nu.2

/-- `edge_info = tuple(ends_to_curve(start_node, end_node) for start_node, end_node in edge_ends)` -/
def edgeInfoOf (edgeEnds : EdgeEnds K) : Except Err (List (Segment K)) :=
  edgeEnds.mapM (fun p => endsToCurve p.1.val p.2.val)

/-- the outer loop `while unused:`; `fuel` = number of intersections (each pass pops one position, so the `0`
    case with a non-empty `unused` is never reached: `Lemmas/Walk.outerLoop_fuel`).  Returns the `edge_ends` of
    every polygon next to its `edge_info` (the code keeps only the latter). -/
def Py.outerLoop (maxEdges : Nat) (ints : List (Intersection K)) :
    Nat → List Nat → List (EdgeEnds K × List (Segment K)) → Except Err (List (EdgeEnds K × List (Segment K)))
  | 0, unused, result => if unused.isEmpty then .ok result else .error .recursion
  | fuel + 1, unused, result =>
    match unused.getLast? with
    | none => .ok result
    | some start =>
      match Py.walkFrom maxEdges ints start unused.dropLast with
      | .error e => .error e
      | .ok eu =>
        match edgeInfoOf eu.1 with
        | .error e => .error e
        | .ok info => Py.outerLoop maxEdges ints fuel eu.2 (result ++ [(eu.1, info)])

/-- the regions with their node pairs: `unused = intersections[:]`, then the outer loop -/
def Py.walkRegions (maxEdges : Nat) (ints : List (Intersection K)) :
    Except Err (List (EdgeEnds K × List (Segment K))) :=
  if !(ints.all isFull) then .error .badInput
  else Py.outerLoop maxEdges ints ints.length (List.range ints.length) []

/-- `FIRST_TRIANGLE_INFO` / `SECOND_TRIANGLE_INFO` (`base = 0` / `3`) -/
def triangleInfo (base : Nat) : List (List (Segment K)) :=
  [[(base, 0, 1), (base + 1, 0, 1), (base + 2, 0, 1)],
   [(base + 1, 0, 1), (base + 2, 0, 1), (base, 0, 1)],
   [(base + 2, 0, 1), (base, 0, 1), (base + 1, 0, 1)]]

/-- the tail of `basic_interior_combine`: `if len(result) == 1: if result[0] in FIRST_TRIANGLE_INFO …` -/
def Py.finish (result : List (List (Segment K))) : Outcome K :=
  match result with
  | [r] =>
    if r ∈ triangleInfo (K := K) 0 then (none, some true)
    else if r ∈ triangleInfo (K := K) 3 then (none, some false)
    else (some result, none)
  | _ => (some result, none)

/-- `basic_interior_combine(intersections, max_edges=10)` -/
def Py.basicInteriorCombine (maxEdges : Nat) (ints : List (Intersection K)) : Except Err (Outcome K) :=
  match Py.walkRegions maxEdges ints with
  | .error e => .error e
  | .ok regions => .ok (Py.finish (regions.map (·.2)))

/-! ## `interior_combine` (Fortran) -/

/-- `add_segment(curr_node, next_node, …)`: no consistency check of the edge indices; an unset field (never
    read by the walk) is outside the modelled domain -/
def F90.addSegment (a b : Intersection K) : Except Err (Segment K) :=
  if isFirst a.interior then
    match a.indexFirst, a.s, b.s with
    | some i, some s0, some s1 => .ok (i, s0, s1)
    | _, _, _ => .error .badInput
  else if isSecond a.interior then
    match a.indexSecond, a.t, b.t with
    | some i, some t0, some t1 => .ok (i + 3, t0, t1)
    | _, _, _ => .error .badInput
  else if a.indexFirst = b.indexFirst then
    match a.indexFirst, a.s, b.s with
    | some i, some s0, some s1 => .ok (i, s0, s1)
    | _, _, _ => .error .badInput
  else
    match a.indexSecond, a.t, b.t with
    | some i, some t0, some t1 => .ok (i + 3, t0, t1)
    | _, _, _ => .error .badInput

/-- `edge_loop: do i = 1, MAX_EDGES`; state: `curr_node`, the segments written so far (with the node pairs),
    `unused`; `at_start` is `pos = some start`.  Leaving the loop without `at_start` is `Status_BAD_INTERIOR`
    (⇒ `RuntimeError("Unexpected number of edges")` in the wrapper). -/
def F90.edgeLoop (ints : List (Intersection K)) (start : Nat) :
    Nat → WNode K → EdgeEnds K → List (Segment K) → List Nat →
      Except Err (EdgeEnds K × List (Segment K) × List Nat)
  | 0, _, _, _, _ => .error .runtimeError
  | fuel + 1, curr, edgeEnds, segs, unused =>
    let nu := F90.getNext curr.val ints unused
    match F90.addSegment curr.val nu.1.val with
    | .error e => .error e
    | .ok sg =>
      let edgeEnds := edgeEnds ++ [(curr, nu.1)]
      let segs := segs ++ [sg]
      if nu.1.pos = some start then .ok (edgeEnds, segs, nu.2)
      else
        let cu := toFrontNode nu.1 ints nu.2
        if cu.1.pos = some start then .ok (edgeEnds, segs, cu.2)
        else F90.edgeLoop ints start fuel cu.1 edgeEnds segs cu.2

/-- `do while (remaining > 0)`: `start = unused(remaining)`; `fuel` = number of intersections -/
def F90.outerLoop (maxEdges : Nat) (ints : List (Intersection K)) :
    Nat → List Nat → List (EdgeEnds K × List (Segment K)) → Except Err (List (EdgeEnds K × List (Segment K)))
  | 0, unused, result => if unused.isEmpty then .ok result else .error .recursion
  | fuel + 1, unused, result =>
    match unused.getLast? with
    | none => .ok result
    | some start =>
      let curr : WNode K := { pos := some start, val := ints.getD start blank }
      match F90.edgeLoop ints start maxEdges curr [] [] unused.dropLast with
      | .error e => .error e
      | .ok r => F90.outerLoop maxEdges ints fuel r.2.2 (result ++ [(r.1, r.2.1)])

def F90.walkRegions (maxEdges : Nat) (ints : List (Intersection K)) :
    Except Err (List (EdgeEnds K × List (Segment K))) :=
  if !(ints.all isFull) then .error .badInput
  else F90.outerLoop maxEdges ints ints.length (List.range ints.length) []

/-- `TriangleContained` -/
inductive Contained where
  | neither | first | second
  deriving DecidableEq, Repr

/-- `check_contained(num_intersected, segment_ends, segments, contained)`: returns the updated
    `num_intersected = 0` as an empty region list -/
def F90.checkContained (result : List (List (Segment K))) : List (List (Segment K)) × Contained :=
  match result with
  | [r] =>
    if r.length ≠ 3 then (result, .neither)
    else if r.any (fun sg => decide (sg.2.1 ≠ 0)) || r.any (fun sg => decide (sg.2.2 ≠ 1)) then (result, .neither)
    else
      let e := r.map (·.1)
      if e = [0, 1, 2] ∨ e = [1, 2, 0] ∨ e = [2, 0, 1] then ([], .first)
      else if e = [3, 4, 5] ∨ e = [4, 5, 3] ∨ e = [5, 3, 4] then ([], .second)
      else (result, .neither)
  | _ => (result, .neither)

/-- what `_speedup.triangle_intersections` makes of `(segments, contained)` -/
def F90.wrap (r : List (List (Segment K)) × Contained) : Outcome K :=
  match r.2 with
  | .first => (none, some true)
  | .second => (none, some false)
  | .neither => (some r.1, none)

/-- `interior_combine` followed by the wrapper's conversion -/
def F90.interiorCombine (maxEdges : Nat) (ints : List (Intersection K)) : Except Err (Outcome K) :=
  match F90.walkRegions maxEdges ints with
  | .error e => .error e
  | .ok regions => .ok (F90.wrap (F90.checkContained (regions.map (·.2))))

/-! ## `tangent_only_intersections`, `no_intersections`, `combine_intersections` -/

/-- insertion into a `set` kept as a duplicate-free list -/
def setAdd (c : Cls) (s : List Cls) : List Cls := if c ∈ s then s else s ++ [c]

/-- `tangent_only_intersections(all_types)` -/
def Py.tangentOnly (allTypes : List Cls) : Except Err (Outcome K) :=
  match allTypes with
  | [pointType] =>
    match pointType with
    | .opposed => .ok (some [], none)
    | .ignoredCorner => .ok (some [], none)
    | .tangentFirst => .ok (none, some true)
    | .tangentSecond => .ok (none, some false)
    | .coincidentUnused => .ok (some [], none)
    | _ => .error .valueError
  | _ => .error .valueError

/-- the bit set `all_types` of `triangles_intersection_points` -/
def bitOf (c : Cls) : Nat := 2 ^ c.code

/-- the `num_intersections == 0`, `all_types /= 0` branch of `triangles_intersect` (`Status_UNKNOWN` ⇒
    `RuntimeError("Unknown error has occurred.")`) -/
def F90.tangentOnly (allTypes : Nat) : Except Err (Outcome K) :=
  if allTypes = bitOf .opposed then .ok (some [], none)
  else if allTypes = bitOf .ignoredCorner then .ok (some [], none)
  else if allTypes = bitOf .tangentFirst then .ok (none, some true)
  else if allTypes = bitOf .tangentSecond then .ok (none, some false)
  else if allTypes = bitOf .coincidentUnused then .ok (some [], none)
  else .error .runtimeError

/-- the point-location primitive `locate_point(nodes, degree, x_val, y_val)` (modelled in `Model/Locate`-style
    files; here a parameter): `none` = not located -/
abbrev LocateFn (K : Type) := List (List K) → Nat → K → K → Option (K × K)

/-- `no_intersections(nodes1, degree1, nodes2, degree2)` (Python and Fortran alike) -/
def noIntersections (locate : LocateFn K) (nodes1 : List (List K)) (degree1 : Nat) (nodes2 : List (List K))
    (degree2 : Nat) : Outcome K :=
  match locate nodes2 degree2 (seq (nodes1.getD 0 []) 0) (seq (nodes1.getD 1 []) 0) with
  | some _ => (none, some true)
  | none =>
    match locate nodes1 degree1 (seq (nodes2.getD 0 []) 0) (seq (nodes2.getD 1 []) 0) with
    | some _ => (none, some false)
    | none => (some [], none)

/-- `combine_intersections(intersections, nodes1, degree1, nodes2, degree2, all_types)` -/
def Py.combineIntersections (maxEdges : Nat) (locate : LocateFn K) (ints : List (Intersection K))
    (nodes1 : List (List K)) (degree1 : Nat) (nodes2 : List (List K)) (degree2 : Nat) (allTypes : List Cls) :
    Except Err (Outcome K) :=
  if !ints.isEmpty then Py.basicInteriorCombine maxEdges ints
  else if !allTypes.isEmpty then Py.tangentOnly allTypes
  else .ok (noIntersections locate nodes1 degree1 nodes2 degree2)

/-- the dispatch at the end of `triangles_intersect` (+ wrapper) -/
def F90.combineIntersections (maxEdges : Nat) (locate : LocateFn K) (ints : List (Intersection K))
    (nodes1 : List (List K)) (degree1 : Nat) (nodes2 : List (List K)) (degree2 : Nat) (allTypes : Nat) :
    Except Err (Outcome K) :=
  if ints.isEmpty then
    if allTypes = 0 then .ok (noIntersections locate nodes1 degree1 nodes2 degree2)
    else F90.tangentOnly allTypes
  else F90.interiorCombine maxEdges ints

/-! ## `same_intersection`, `verify_duplicates` (Python only) -/

def absK (x : K) : K := if x < 0 then -x else x

/-- `np.allclose([a], [b], atol=0.0, rtol=wiggle)`: `|a - b| <= rtol * |b|` -/
def closeRel (wiggle a b : K) : Bool := decide (absK (a - b) ≤ wiggle * absK b)

/-- `same_intersection(intersection1, intersection2, wiggle=0.5**40)` -/
def sameIntersection (wiggle : K) (x y : Intersection K) : Bool :=
  if x.indexFirst ≠ y.indexFirst then false
  else if x.indexSecond ≠ y.indexSecond then false
  else
    match x.s, x.t, y.s, y.t with
    | some s1, some t1, some s2, some t2 => closeRel wiggle s1 s2 && closeRel wiggle t1 t2
    | _, _, _, _ => false

/-- `0.5 ** 40` -/
def sameWiggle : K := q 1 1099511627776

/-- `for uniq1, uniq2 in itertools.combinations(uniques, 2)` -/
def anyPairSame (wiggle : K) : List (Intersection K) → Bool
  | [] => false
  | u :: rest => rest.any (fun v => sameIntersection wiggle u v) || anyPairSame wiggle rest

/-- positions of the uniques matching `dupe` -/
def matchesOf (wiggle : K) (dupe : Intersection K) (uniques : List (Intersection K)) : List Nat :=
  (List.range uniques.length).filter (fun i => sameIntersection wiggle dupe (uniques.getD i blank))

/-- `counter[matched] += 1` on an insertion-ordered association list -/
def counterIncr (k : Nat) : List (Nat × Nat) → List (Nat × Nat)
  | [] => [(k, 1)]
  | (j, c) :: rest => if j = k then (j, c + 1) :: rest else (j, c) :: counterIncr k rest

/-- the loop `for dupe in duplicates` -/
def countDuplicates (wiggle : K) (uniques : List (Intersection K)) :
    List (Intersection K) → List (Nat × Nat) → Except Err (List (Nat × Nat))
  | [], counter => .ok counter
  | dupe :: rest, counter =>
    match matchesOf wiggle dupe uniques with
    | [matched] => countDuplicates wiggle uniques rest (counterIncr matched counter)
    | _ => .error .valueError

/-- the body of `for index, count in counter.items()` -/
def checkCount (uniques : List (Intersection K)) (ic : Nat × Nat) : Except Err Unit :=
  let uniq := uniques.getD ic.1 blank
  if ic.2 = 1 then
    let zeros := (if uniq.s = some 0 then 1 else 0) + (if uniq.t = some 0 then 1 else 0)
    if zeros ≠ 1 then .error .valueError else .ok ()
  else if ic.2 = 3 then
    if ¬ (uniq.s = some 0 ∧ uniq.t = some 0) then .error .valueError else .ok ()
  else .error .valueError

/-- `verify_duplicates(duplicates, uniques)` -/
def verifyDuplicates (wiggle : K) (duplicates uniques : List (Intersection K)) : Except Err Unit :=
  if anyPairSame wiggle uniques then .error .valueError
  else
    match countDuplicates wiggle uniques duplicates [] with
    | .error e => .error e
    | .ok counter => counter.forM (checkCount uniques)

/-! ## the edge-pair loop (Python): `add_edge_end_unused`, `check_unused`, `add_intersection`,
`triangle_intersections` -/

/-- state of the double loop: `(duplicates, intersections)` -/
abbrev Acc (K : Type) := List (Intersection K) × List (Intersection K)

/-- the match test shared by `add_edge_end_unused` and `check_unused` -/
def cornerMatch (x other : Intersection K) : Bool :=
  decide (x.indexFirst = other.indexFirst) && decide (x.indexSecond = other.indexSecond) &&
    ((decide (x.s = some 0) && decide (other.s = some 0)) || (decide (x.t = some 0) && decide (other.t = some 0)))

/-- `add_edge_end_unused(intersection, duplicates, intersections)` -/
def Py.addEdgeEndUnused (x : Intersection K) (acc : Acc K) : Acc K :=
  match findIdx? (cornerMatch x) acc.2 with
  | some i => (acc.1 ++ [acc.2.getD i blank], acc.2.eraseIdx i ++ [x])
  | none => (acc.1, acc.2 ++ [x])

/-- `check_unused(intersection, duplicates, intersections)`: the flag (the append is done by the caller below) -/
def Py.checkUnused (x : Intersection K) (ints : List (Intersection K)) : Bool :=
  ints.any (fun other => decide (other.interior = some .coincidentUnused) && cornerMatch x other)

/-- `add_intersection(index1, s, index2, t, interior_curve, edge_nodes1, edge_nodes2, duplicates, intersections)` -/
def Py.addIntersection (thr : Nat) (edges1 edges2 : List (List (List K))) (index1 : Nat) (s : K) (index2 : Nat)
    (t : K) (interior : Option Cls) (acc : Acc K) : Except Err (Acc K) :=
  let h := handleEnds index1 s index2 t
  if h.1 then
    let x : Intersection K := { indexFirst := some h.2.2.1, s := some h.2.2.2.1, indexSecond := some h.2.2.2.2.1,
                                t := some h.2.2.2.2.2, interior := interior }
    if interior = some .coincidentUnused then .ok (Py.addEdgeEndUnused x acc)
    else .ok (acc.1 ++ [x], acc.2)
  else
    let x : Intersection K := { indexFirst := some index1, s := some s, indexSecond := some index2, t := some t,
                                interior := none }
    if h.2.1 && Py.checkUnused x acc.2 then .ok (acc.1 ++ [x], acc.2)
    else
      match (match interior with
             | some c => Except.ok c
             | none => classifyIntersection thr index1 s index2 t edges1 edges2) with
      | .error e => .error e
      | .ok c => .ok (acc.1, acc.2 ++ [{ x with interior := some c }])

/-- the curve–curve primitive `all_intersections(nodes1, nodes2)`: the `(s, t)` columns and the coincident flag -/
abbrev AllIntFn (K : Type) := List (List K) → List (List K) → Except Err (List (K × K) × Bool)

/-- `st_vals` as the two rows `[s-values, t-values]` -/
def rowsOfCols (cols : List (K × K)) : List (List K) := [cols.map (·.1), cols.map (·.2)]

/-- the body of the double loop for one edge pair `(index1, index2)` -/
def Py.edgePair (thr : Nat) (allInt : AllIntFn K) (edges1 edges2 : List (List (List K))) (index1 index2 : Nat)
    (acc : Acc K) : Except Err (Acc K) :=
  match allInt (edges1.getD index1 []) (edges2.getD index2 []) with
  | .error e => .error e
  | .ok (stVals, coincident) =>
    let interior := classifyCoincident (rowsOfCols stVals) coincident
    stVals.foldlM (fun acc st => Py.addIntersection thr edges1 edges2 index1 st.1 index2 st.2 interior acc) acc

/-- the index pairs in the order of `for index1 … for index2 …` -/
def edgePairs : List (Nat × Nat) := [(0,0),(0,1),(0,2),(1,0),(1,1),(1,2),(2,0),(2,1),(2,2)]

/-- result of `triangle_intersections`: `(to_keep, duplicates, unused, all_types)` -/
structure TriInts (K : Type) where
  keep : List (Intersection K)
  duplicates : List (Intersection K)
  unused : List (Intersection K)
  allTypes : List Cls

/-- the classification loop at the end of `triangle_intersections` -/
def Py.splitKept (ints : List (Intersection K)) : List Cls × List (Intersection K) × List (Intersection K) :=
  ints.foldl (fun (st : List Cls × List (Intersection K) × List (Intersection K)) x =>
    let types := match x.interior with
      | some c => setAdd c st.1
      | none => st.1
    if shouldUse x then (types, st.2.1 ++ [x], st.2.2) else (types, st.2.1, st.2.2 ++ [x])) ([], [], [])

/-- `triangle_intersections(edge_nodes1, edge_nodes2, all_intersections)` -/
def Py.triangleIntersections (thr : Nat) (allInt : AllIntFn K) (edges1 edges2 : List (List (List K))) :
    Except Err (TriInts K) :=
  match edgePairs.foldlM (fun acc ij => Py.edgePair thr allInt edges1 edges2 ij.1 ij.2 acc) (([], []) : Acc K) with
  | .error e => .error e
  | .ok acc =>
    let r := Py.splitKept acc.2
    .ok { keep := r.2.1, duplicates := acc.1, unused := r.2.2, allTypes := r.1 }

/-! ## the edge-pair loop (Fortran): `update_edge_end_unused`, `find_corner_unused`, `add_st_vals`,
`triangles_intersection_points` -/

/-- `intersections(i)%interior_curve = COINCIDENT_UNUSED` -/
def setUnusedAt (i : Nat) : List (Intersection K) → List (Intersection K)
  | [] => []
  | x :: rest =>
    match i with
    | 0 => { x with interior := some .coincidentUnused } :: rest
    | j + 1 => x :: setUnusedAt j rest

/-- `update_edge_end_unused(s, index_first, t, index_second, intersections, num_intersections)` -/
def F90.updateEdgeEndUnused (s : K) (indexFirst : Nat) (t : K) (indexSecond : Nat)
    (ints : List (Intersection K)) : List (Intersection K) :=
  let frontS : K := if s = 1 then 0 else s
  let index1 := if s = 1 then (indexFirst + 1) % 3 else indexFirst
  let frontT : K := if t = 1 then 0 else t
  let index2 := if t = 1 then (indexSecond + 1) % 3 else indexSecond
  let found :=
    if frontS = 0 then
      findIdx? (fun o => decide (some index1 = o.indexFirst) && decide (some index2 = o.indexSecond) &&
                         decide (o.s = some 0)) ints
    else
      findIdx? (fun o => decide (some index1 = o.indexFirst) && decide (some index2 = o.indexSecond) &&
                         decide (o.t = some 0)) ints
  match found with
  | some i => setUnusedAt i ints
  | none => ints ++ [{ indexFirst := some index1, s := some frontS, indexSecond := some index2, t := some frontT,
                       interior := some .coincidentUnused }]

/-- `find_corner_unused(s, index_first, index_second, intersections, num_intersections, found)` -/
def F90.findCornerUnused (s : K) (indexFirst indexSecond : Nat) (ints : List (Intersection K)) : Bool :=
  if s = 0 then
    ints.any (fun o => decide (o.interior = some .coincidentUnused) && decide (some indexFirst = o.indexFirst) &&
                       decide (some indexSecond = o.indexSecond) && decide (o.s = some 0))
  else
    ints.any (fun o => decide (o.interior = some .coincidentUnused) && decide (some indexFirst = o.indexFirst) &&
                       decide (some indexSecond = o.indexSecond) && decide (o.t = some 0))

/-- one pass of `value_loop` in `add_st_vals` (`known_enum = none` is `UNSET`) -/
def F90.addStVal (thr : Nat) (edges1 edges2 : List (List (List K))) (knownEnum : Option Cls)
    (indexFirst indexSecond : Nat) (ints : List (Intersection K)) (st : K × K) :
    Except Err (List (Intersection K)) :=
  if st.1 = 1 ∨ st.2 = 1 then
    if knownEnum = some .coincidentUnused then
      .ok (F90.updateEdgeEndUnused st.1 indexFirst st.2 indexSecond ints)
    else .ok ints
  else if (st.1 = 0 ∨ st.2 = 0) ∧ F90.findCornerUnused st.1 indexFirst indexSecond ints = true then .ok ints
  else
    match (match knownEnum with
           | some c => Except.ok c
           | none => classifyIntersection thr indexFirst st.1 indexSecond st.2 edges1 edges2) with
    | .error e => .error e
    | .ok c => .ok (ints ++ [{ indexFirst := some indexFirst, s := some st.1, indexSecond := some indexSecond,
                               t := some st.2, interior := some c }])

/-- the body of the double loop of `triangles_intersection_points` for one edge pair -/
def F90.edgePair (thr : Nat) (allInt : AllIntFn K) (edges1 edges2 : List (List (List K))) (index1 index2 : Nat)
    (ints : List (Intersection K)) : Except Err (List (Intersection K)) :=
  match allInt (edges1.getD index1 []) (edges2.getD index2 []) with
  | .error e => .error e
  | .ok (stVals, coincident) =>
    let enum := classifyCoincident (rowsOfCols stVals) coincident
    stVals.foldlM (fun ints st => F90.addStVal thr edges1 edges2 enum index1 index2 ints st) ints

/-- the final `do while (index1 <= num_intersections)` pass: `all_types = ior(all_types, 2**enum_)`, discard what
    `should_keep` refuses -/
def F90.filterKept (ints : List (Intersection K)) : Nat × List (Intersection K) :=
  ints.foldl (fun (st : Nat × List (Intersection K)) x =>
    let types := match x.interior with
      | some c => st.1 ||| bitOf c
      | none => st.1
    if shouldUse x then (types, st.2 ++ [x]) else (types, st.2)) (0, [])

/-- `triangles_intersection_points`: `(intersections, all_types)` -/
def F90.trianglesIntersectionPoints (thr : Nat) (allInt : AllIntFn K) (edges1 edges2 : List (List (List K))) :
    Except Err (List (Intersection K) × Nat) :=
  match edgePairs.foldlM (fun ints ij => F90.edgePair thr allInt edges1 edges2 ij.1 ij.2 ints) [] with
  | .error e => .error e
  | .ok ints => let r := F90.filterKept ints; .ok (r.2, r.1)

/-! ## `generic_intersect` / `triangles_intersect` -/

/-- the three edge nets of a triangle as a list -/
def edgeList (degree : Nat) (nodes : List (List K)) : List (List (List K)) :=
  let e := computeEdgeNodes degree nodes
  [e.1, e.2.1, e.2.2]

/-- `generic_intersect(nodes1, degree1, nodes2, degree2, verify, all_intersections)` (first two components of
    the result; the third — the six edge nets — is `edgeList`) -/
def Py.genericIntersect (thr maxEdges : Nat) (locate : LocateFn K) (allInt : AllIntFn K)
    (nodes1 : List (List K)) (degree1 : Nat) (nodes2 : List (List K)) (degree2 : Nat) (verify : Bool) :
    Except Err (Outcome K) :=
  Classify.genericIntersect nodes1 nodes2 (fun _ =>
    let edges1 := edgeList degree1 nodes1
    let edges2 := edgeList degree2 nodes2
    match Py.triangleIntersections thr allInt edges1 edges2 with
    | .error e => .error e
    | .ok r =>
      match Py.combineIntersections maxEdges locate r.keep nodes1 degree1 nodes2 degree2 r.allTypes with
      | .error e => .error e
      | .ok out =>
        if verify then
          match verifyDuplicates sameWiggle r.duplicates (r.keep ++ r.unused) with
          | .error e => .error e
          | .ok _ =>
            match verifyEdgeSegments out.1 with
            | .error e => .error e
            | .ok _ => .ok out
        else .ok out)

/-- `triangles_intersect` + `triangles_intersect_abi` + `_speedup.triangle_intersections` (`verify` is ignored) -/
def F90.trianglesIntersect (thr maxEdges : Nat) (locate : LocateFn K) (allInt : AllIntFn K)
    (nodes1 : List (List K)) (degree1 : Nat) (nodes2 : List (List K)) (degree2 : Nat) :
    Except Err (Outcome K) :=
  Classify.genericIntersect nodes1 nodes2 (fun _ =>
    let edges1 := edgeList degree1 nodes1
    let edges2 := edgeList degree2 nodes2
    match F90.trianglesIntersectionPoints thr allInt edges1 edges2 with
    | .error e => .error e
    | .ok r => F90.combineIntersections maxEdges locate r.1 nodes1 degree1 nodes2 degree2 r.2)

end BezierVerif.Model.Walk
