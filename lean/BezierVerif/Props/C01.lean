import BezierVerif.Lemmas.Bridge
import BezierVerif.Lemmas.VS
import BezierVerif.Lemmas.Ieee

/-!
# C01 — curve evaluation equals the Bernstein definition

Property theorems only.  `bern n a b v = Σ_{j≤n} C(n,j) a^(n-j) b^j v_j` (Lemmas/Shift).
All statements are about the executable model `Model.evalVS / evalDC / evalBary / evalMulti`
(the transcription of `evaluate_multi_vs`, `evaluate_multi_de_casteljau`,
`evaluate_multi_barycentric`, `evaluate_multi` of both implementations).
-/

namespace BezierVerif.C01

open Finset Model BezierVerif

section Field
variable {K : Type} [Field K]

/-- the VS (Horner-like) algorithm is the Bernstein sum, every degree ≥ 1, every net, every
    parameter pair (not only `a + b = 1`) -/
theorem vs_eq_bernstein [CharZero K] (row : List K) (h : 2 ≤ row.length) (a b : K) :
    evalVS (row.length - 1) a b (seq row) = bern (row.length - 1) a b (seq row) := by
  rw [evalVS_eq_bern (row.length - 1) (by omega)]; rfl

/-- de Casteljau is the Bernstein sum, every degree ≥ 0 -/
theorem dc_eq_bernstein (row : List K) (h : 1 ≤ row.length) (a b : K) :
    evalDC a b (row.length - 1) row = bern (row.length - 1) a b (seq row) :=
  evalDC_eq_bern a b _ row (by omega)

/-- the silent algorithm switch is seamless: wherever the threshold sits, the value is the same -/
theorem dispatch_seamless [CharZero K] (thr : ℕ) (row : List K) (h : 2 ≤ row.length) (a b : K) :
    evalBary thr row a b = bern (row.length - 1) a b (seq row) := by
  unfold evalBary
  split
  · exact dc_eq_bernstein row (by omega) a b
  · exact vs_eq_bernstein row h a b

/-- in particular two different thresholds never disagree -/
theorem dispatch_independent [CharZero K] (thr thr' : ℕ) (row : List K) (h : 2 ≤ row.length) (a b : K) :
    evalBary thr row a b = evalBary thr' row a b := by
  rw [dispatch_seamless thr row h, dispatch_seamless thr' row h]

/-- `evaluate_multi`: every row, every parameter of the vector -/
theorem evaluate_multi [CharZero K] (thr : ℕ) (nodes : List (List K)) (ss : List K)
    (h : ∀ row ∈ nodes, 2 ≤ row.length) :
    evalMulti thr nodes ss =
      nodes.map (fun row => ss.map (fun s => bern (row.length - 1) (1 - s) s (seq row))) := by
  unfold evalMulti evalMultiBary
  apply List.map_congr_left
  intro row hrow
  rw [List.map_map]
  apply List.map_congr_left
  intro s _
  exact dispatch_seamless thr row (h row hrow) (1 - s) s

end Field

/-! ### end points are exact in binary64 (laws of `IeeeLaws` only: no associativity, no
distributivity), for both algorithms, hence on both sides of the switch -/
section Ieee
variable {K : Type} [Add K] [Mul K] [Sub K] [Div K] [Neg K] [OfNat K 0] [OfNat K 1] [NatCast K]
  [IeeeLaws K]

theorem endpoint_zero_exact (thr : ℕ) (row : List K) (h : 1 ≤ row.length) :
    evalBary thr row (1 - (0:K)) 0 = row.headD 0 := by
  unfold evalBary
  split
  · exact evalDC_at_zero _ row (by omega)
  · rw [evalVS_at_zero]; cases row <;> simp_all [seq]

theorem endpoint_one_exact (thr : ℕ) (row : List K) (h : 1 ≤ row.length) :
    evalBary thr row (1 - (1:K)) 1 = row.getD (row.length - 1) 0 := by
  unfold evalBary
  split
  · exact evalDC_at_one _ row (by omega)
  · rw [evalVS_at_one]; rfl

end Ieee

/-! ### the point lies in the bounding box of the control points for `s ∈ [0,1]` -/
section Ordered
variable {K : Type} [Field K] [LinearOrder K] [IsStrictOrderedRing K]

theorem in_box (thr : ℕ) (row : List K) (h : 2 ≤ row.length) (s lo hi : K)
    (hs0 : 0 ≤ s) (hs1 : s ≤ 1) (hlo : ∀ x ∈ row, lo ≤ x) (hhi : ∀ x ∈ row, x ≤ hi) :
    lo ≤ evalBary thr row (1 - s) s ∧ evalBary thr row (1 - s) s ≤ hi := by
  have hdc := evalDC_in_bounds row (row.length - 1) (by omega) s lo hi hs0 hs1 hlo hhi
  have e : evalBary thr row (1 - s) s = evalDC (1 - s) s (row.length - 1) row := by
    rw [dispatch_seamless thr row h, dc_eq_bernstein row (by omega)]
  rw [e]; exact hdc

end Ordered

/-! non-vacuity: a concrete cubic satisfies the hypotheses and the theorem computes its value -/
example : evalBary 55 ([0, 1, 3, 7] : List ℚ) (1 - 1/2) (1/2) = 19/8 := by
  rw [dispatch_seamless 55 _ (by decide)]
  simp [bern, Finset.sum_range_succ, seq, Nat.choose]
  norm_num

end BezierVerif.C01
