import BezierVerif.Lemmas.Rounding
import Mathlib.Algebra.Order.Field.Rat
import Mathlib.Algebra.Order.Ring.Rat

/-!
# C01 (rounding) — the evaluation algorithms *in rounded arithmetic* stay within a small multiple
# of the unit round-off, relative to `Σ_j |C(n,j) a^(n-j) b^j v_j|`

The model definitions `Model.evalDC / evalVS / evalBary / evalMulti` are instantiated, unchanged,
at the number type `Fl F fl` (Lemmas/Rounding): every `+ - * /` is the exact operation of the
ordered field `F` followed by `fl`.  Hypotheses of all theorems:

* standard model of floating-point arithmetic: `0 ≤ u`, `∀ x, |fl x - x| ≤ u * |x|`
  (binary64, round to nearest, no over/underflow: `u = 2⁻⁵³`);
* the inputs (`a`, `b`, control values) are numbers of the arithmetic: injected with `Fl.mk`;
* `0`, `1` and the loop counters are exact (`NatCast` of `Fl` is the exact injection);
* VS branch only: the running binomial is exact, `VSBinomExact fl n`
  (`Tables/C01.lean: binomials_exact_py` for binary64 and every degree below the switch).

`bern n a b v = Σ_{j≤n} C(n,j) a^(n-j) b^j v_j` is what the exact model computes
(`C01.dc_eq_bernstein`, `C01.vs_eq_bernstein`, `C01.dispatch_seamless`).
-/

set_option linter.unusedSectionVars false

namespace BezierVerif.C01

open Finset Model BezierVerif

variable {F : Type} [Field F] [LinearOrder F] [IsStrictOrderedRing F]

/-- de Casteljau, rounded run vs exact run of the same model function, degree `n`, any weights:
    `2n` roundings deep, relative to the same algorithm on absolute values -/
theorem dc_rounding (fl : F → F) (u : F) (hu : 0 ≤ u) (hfl : ∀ x, |fl x - x| ≤ u * |x|)
    (a b : F) (n : ℕ) (l : List F) (hl : l.length = n + 1) :
    |(evalDC (⟨a⟩ : Fl F fl) ⟨b⟩ n (l.map Fl.mk)).val - evalDC a b n l|
      ≤ ((1+u)^(2*n) - 1) * evalDC |a| |b| n (l.map (|·|)) :=
  dc_rounding_evalDC fl u hu hfl a b n l hl

/-- the right-hand side of `dc_rounding` is the sum of the magnitudes of the Bernstein terms -/
theorem dc_rounding_rhs (a b : F) (n : ℕ) (l : List F) (hl : l.length = n + 1) :
    evalDC |a| |b| n (l.map (|·|))
      = ∑ j ∈ range (n+1), |(n.choose j : F) * a^(n-j) * b^j * seq l j| := by
  rw [evalDC_abs_eq_bern a b n l hl, bern_abs]

/-- de Casteljau in rounded arithmetic vs the Bernstein sum:
    `|fl-value − Σ term_j| ≤ ((1+u)^(2n) − 1) · Σ |term_j|` -/
theorem dc_rounding_bernstein (fl : F → F) (u : F) (hu : 0 ≤ u)
    (hfl : ∀ x, |fl x - x| ≤ u * |x|) (a b : F) (row : List F) (h : 1 ≤ row.length) :
    |(evalDC (⟨a⟩ : Fl F fl) ⟨b⟩ (row.length - 1) (row.map Fl.mk)).val
        - bern (row.length - 1) a b (seq row)|
      ≤ ((1+u)^(2*(row.length - 1)) - 1)
          * ∑ j ∈ range (row.length - 1 + 1),
              |((row.length - 1).choose j : F) * a^(row.length - 1 - j) * b^j * seq row j| := by
  rw [← bern_abs]
  exact dc_rounding_bern fl u hu hfl a b _ row (by omega)

/-- VS (Horner-like) algorithm in rounded arithmetic vs the Bernstein sum, every degree `n ≥ 1`:
    `|fl-value − Σ term_j| ≤ ((1+u)^(2n+2) − 1) · Σ |term_j|` -/
theorem vs_rounding (fl : F → F) (u : F) (hu : 0 ≤ u) (hfl : ∀ x, |fl x - x| ≤ u * |x|)
    (n : ℕ) (hn : 1 ≤ n) (hbin : VSBinomExact fl n) (a b : F) (v : ℕ → F) :
    |(evalVS n (⟨a⟩ : Fl F fl) ⟨b⟩ (fun j => ⟨v j⟩)).val - bern n a b v|
      ≤ ((1+u)^(2*n+2) - 1) * ∑ j ∈ range (n+1), |(n.choose j : F) * a^(n-j) * b^j * v j| := by
  rw [← bern_abs]
  exact vs_rounding_bern fl u hu hfl n hn hbin a b v

/-- the same against the exact run of the same model function -/
theorem vs_rounding_model (fl : F → F) (u : F) (hu : 0 ≤ u) (hfl : ∀ x, |fl x - x| ≤ u * |x|)
    (n : ℕ) (hn : 1 ≤ n) (hbin : VSBinomExact fl n) (a b : F) (v : ℕ → F) :
    |(evalVS n (⟨a⟩ : Fl F fl) ⟨b⟩ (fun j => ⟨v j⟩)).val - evalVS n a b v|
      ≤ ((1+u)^(2*n+2) - 1) * evalVS n |a| |b| (fun j => |v j|) :=
  vs_rounding_evalVS fl u hu hfl n hn hbin a b v

/-- `evaluate_multi_barycentric` on one row, whichever branch the switch `thr` selects
    (`n = row.length - 1`; constant `max (2n) (2n+2) = 2n+2`); the binomial hypothesis is only
    needed when the VS branch is taken -/
theorem bary_rounding (fl : F → F) (u : F) (hu : 0 ≤ u) (hfl : ∀ x, |fl x - x| ≤ u * |x|)
    (thr : ℕ) (row : List F) (h : 2 ≤ row.length)
    (hbin : row.length ≤ thr → VSBinomExact fl (row.length - 1)) (a b : F) :
    |(evalBary thr (row.map Fl.mk) (⟨a⟩ : Fl F fl) ⟨b⟩).val - bern (row.length - 1) a b (seq row)|
      ≤ ((1+u)^(2*(row.length - 1)+2) - 1)
          * ∑ j ∈ range (row.length - 1 + 1),
              |((row.length - 1).choose j : F) * a^(row.length - 1 - j) * b^j * seq row j| := by
  rw [← bern_abs]
  exact bary_rounding_bern fl u hu hfl thr row h hbin a b

/-- as the library calls it, `λ₁ = fl (1 - s)`, `λ₂ = s`: `n` more factors `(1+u)`, the
    reference value and the magnitudes are those of the exact `1 - s` -/
theorem bary_rounding_one_less (fl : F → F) (u : F) (hu : 0 ≤ u)
    (hfl : ∀ x, |fl x - x| ≤ u * |x|)
    (thr : ℕ) (row : List F) (h : 2 ≤ row.length)
    (hbin : row.length ≤ thr → VSBinomExact fl (row.length - 1)) (s : F) :
    |(evalBary thr (row.map Fl.mk) (1 - (⟨s⟩ : Fl F fl)) ⟨s⟩).val
        - bern (row.length - 1) (1 - s) s (seq row)|
      ≤ ((1+u)^(3*(row.length - 1)+2) - 1)
          * ∑ j ∈ range (row.length - 1 + 1),
              |((row.length - 1).choose j : F) * (1 - s)^(row.length - 1 - j) * s^j * seq row j| := by
  rw [← bern_abs]
  exact BezierVerif.bary_rounding_one_less fl u hu hfl thr row h hbin s

/-- `evaluate_multi` in rounded arithmetic is, entry by entry, the expression bounded by
    `bary_rounding_one_less` (every row, every parameter of the vector) -/
theorem evaluate_multi_fl (fl : F → F) (thr : ℕ) (nodes : List (List F)) (ss : List F) :
    evalMulti thr (nodes.map (List.map (Fl.mk (fl := fl)))) (ss.map Fl.mk) =
      nodes.map (fun row => ss.map (fun s =>
        evalBary thr (row.map Fl.mk) (1 - (⟨s⟩ : Fl F fl)) ⟨s⟩)) := by
  simp [evalMulti, evalMultiBary, List.map_map, Function.comp_def]

/-! non-vacuity: `fl := id`, `u := 0` satisfy every hypothesis (standard model and exact
binomials); the bound collapses and the rounded run *is* the Bernstein sum -/
example (thr : ℕ) (row : List ℚ) (h : 2 ≤ row.length) (a b : ℚ) :
    (evalBary thr (row.map Fl.mk) (⟨a⟩ : Fl ℚ id) ⟨b⟩).val = bern (row.length - 1) a b (seq row) := by
  have := bary_rounding (F := ℚ) id 0 le_rfl (by intro x; simp) thr row h
    (fun _ i _ => ⟨rfl, rfl⟩) a b
  simpa [sub_eq_zero] using this

end BezierVerif.C01
