import BezierVerif.Lemmas.Solve2x2
import BezierVerif.Lemmas.Lipschitz
import BezierVerif.Lemmas.EvalBary

/-!
# C02 — every reported curve–curve intersection is a real one (component theorems)

Property theorems that need no model of the whole intersection pipeline:

* `solve2x2_exact`, `solve2x2_singular_iff`, `solve2x2_regular`: the 2×2 solve of every Newton step
  (`Model.solve2x2`, transcription of `helpers.solve2x2`) returns the exact solution in both pivot
  branches and raises its `singular` flag exactly when the determinant vanishes;
* `curve_lipschitz`: a coordinate of a Bézier curve is Lipschitz on `[0,1]` with constant
  `n · max |Δv|` read off the control polygon, for the evaluator the code calls (`Model.evalBary`);
* `newton_gate_partial`, `residual_near_root`: what the Lipschitz bound gives for the residual
  `F(s,t) = B₁(s) − B₂(t)` after a parameter update, and at distance `‖p' − p*‖` from a true intersection.
  This is the bound the C02 oracle enforces on certified transversal inputs
  (`|F| ≤ (L₁+L₂)·‖p'−p*‖`, `‖p'−p*‖ ≲ 2⁻³⁶‖p‖` after the Newton exit);
* `curve_taylor`, `newton_gate`, `newton_step_residual`: the second-order statement — after a Newton step
  computed by `solve2x2` from the model's hodographs the residual is `≤ ½(M₁δs² + M₂δt²)`-like
  (`n(n−1)/2 · max|Δ²v|` per curve), in real arithmetic.

All statements are about the executable model (`Model.solve2x2`, `Model.evalBary`, `Model.diffs`).
-/

namespace BezierVerif.C02

open Model BezierVerif

variable {K : Type} [Field K] [LinearOrder K] [IsStrictOrderedRing K]

/-! ### the linear solve of the Newton step -/

/-- whenever `solve2x2` returns a pair, it solves `A x + B y = E`, `C x + D y = F` exactly
    (both pivot branches) -/
theorem solve2x2_exact (A B C D E F x y : K) (h : solve2x2 A B C D E F = some (x, y)) :
    A * x + B * y = E ∧ C * x + D * y = F :=
  Solve2x2.solve2x2_some A B C D E F x y h

/-- the `singular` flag (`none`) is raised exactly when `det = 0` -/
theorem solve2x2_singular_iff (A B C D E F : K) :
    solve2x2 A B C D E F = none ↔ A * D - B * C = 0 :=
  Solve2x2.solve2x2_none_iff A B C D E F

/-- a regular system is always solved, and the returned pair is the unique solution -/
theorem solve2x2_regular (A B C D E F : K) (hdet : A * D - B * C ≠ 0) :
    ∃ x y, solve2x2 A B C D E F = some (x, y) ∧ A * x + B * y = E ∧ C * x + D * y = F ∧
      ∀ x' y', A * x' + B * y' = E → C * x' + D * y' = F → x' = x ∧ y' = y :=
  Solve2x2.solve2x2_regular A B C D E F hdet

/-! ### Lipschitz constant from the control polygon -/

/-- `|B(a) − B(b)| ≤ |a − b| · n · max|v_{j+1} − v_j|` for `a, b ∈ [0,1]`, for the dispatching
    evaluator (either side of the VS / de Casteljau switch) -/
theorem curve_lipschitz (thr : ℕ) (row : List K) (h : 2 ≤ row.length) (a b D : K)
    (ha0 : 0 ≤ a) (ha1 : a ≤ 1) (hb0 : 0 ≤ b) (hb1 : b ≤ 1)
    (hD : ∀ d ∈ diffs row, |d| ≤ D) :
    |evalBary thr row (1 - a) a - evalBary thr row (1 - b) b| ≤ |a - b| * (((row.length - 1 : ℕ) : K) * D) := by
  rw [Geo.evalBary_eq_evalDC thr row h, Geo.evalBary_eq_evalDC thr row h]
  exact Lipschitz.evalDC_lipschitz row (row.length - 1) (by omega) a b D ha0 ha1 hb0 hb1 hD

/-! ### the residual after a parameter update -/

/-- One coordinate of `F(s,t) = B₁(s) − B₂(t)`: moving the parameters from `(s,t)` to `(s',t')` inside the
    unit square changes the residual by at most `L₁|s'−s| + L₂|t'−t|`, `Lᵢ = nᵢ · max|Δvⁱ|`.

    This is the first-order part of the Newton gate; the second-order statement (exact or inexact step) is
    `newton_gate` / `newton_step_residual` below.

    FULL: the gate of `newton_iterate` as executed: binary64 evaluation of `F`, of the Jacobian and of
    `solve2x2`, the exit test `‖δ‖₂ < 2⁻³⁶ ‖p‖₂` computed in floating point, followed by `wiggle_interval`;
    then `‖F(p')‖∞ ≤ defect + ½(M₁δs² + M₂δt²)` with an explicit rounding bound for `defect`.
    Proved: the real-arithmetic statement with the defect of the linear solve as an explicit term
    (`newton_gate`), zero for the exact solve (`newton_step_residual`); not proved: the rounding bound of
    the defect and the effect of the final clamp. -/
theorem newton_gate_partial (thr : ℕ) (r1 r2 : List K) (h1 : 2 ≤ r1.length) (h2 : 2 ≤ r2.length)
    (D1 D2 : K) (hD1 : ∀ d ∈ diffs r1, |d| ≤ D1) (hD2 : ∀ d ∈ diffs r2, |d| ≤ D2)
    (s t s' t' : K) (hs0 : 0 ≤ s) (hs1 : s ≤ 1) (ht0 : 0 ≤ t) (ht1 : t ≤ 1)
    (hs0' : 0 ≤ s') (hs1' : s' ≤ 1) (ht0' : 0 ≤ t') (ht1' : t' ≤ 1) :
    |evalBary thr r1 (1 - s') s' - evalBary thr r2 (1 - t') t'| ≤
      |evalBary thr r1 (1 - s) s - evalBary thr r2 (1 - t) t|
        + |s' - s| * (((r1.length - 1 : ℕ) : K) * D1) + |t' - t| * (((r2.length - 1 : ℕ) : K) * D2) := by
  have e1 := curve_lipschitz thr r1 h1 s' s D1 hs0' hs1' hs0 hs1 hD1
  have e2 := curve_lipschitz thr r2 h2 t' t D2 ht0' ht1' ht0 ht1 hD2
  have key : evalBary thr r1 (1 - s') s' - evalBary thr r2 (1 - t') t' =
      (evalBary thr r1 (1 - s) s - evalBary thr r2 (1 - t) t)
        + (evalBary thr r1 (1 - s') s' - evalBary thr r1 (1 - s) s)
        - (evalBary thr r2 (1 - t') t' - evalBary thr r2 (1 - t) t) := by ring
  rw [key]
  calc |(evalBary thr r1 (1 - s) s - evalBary thr r2 (1 - t) t)
          + (evalBary thr r1 (1 - s') s' - evalBary thr r1 (1 - s) s)
          - (evalBary thr r2 (1 - t') t' - evalBary thr r2 (1 - t) t)|
      ≤ |(evalBary thr r1 (1 - s) s - evalBary thr r2 (1 - t) t)
          + (evalBary thr r1 (1 - s') s' - evalBary thr r1 (1 - s) s)|
          + |evalBary thr r2 (1 - t') t' - evalBary thr r2 (1 - t) t| := abs_sub _ _
    _ ≤ |evalBary thr r1 (1 - s) s - evalBary thr r2 (1 - t) t|
          + |evalBary thr r1 (1 - s') s' - evalBary thr r1 (1 - s) s|
          + |evalBary thr r2 (1 - t') t' - evalBary thr r2 (1 - t) t| := by
        linarith [abs_add_le (evalBary thr r1 (1 - s) s - evalBary thr r2 (1 - t) t)
          (evalBary thr r1 (1 - s') s' - evalBary thr r1 (1 - s) s)]
    _ ≤ _ := by linarith

/-- at parameter distance `(|s'−s*|, |t'−t*|)` from a true intersection `(s*, t*)` the residual of that
    coordinate is at most `L₁|s'−s*| + L₂|t'−t*|` — the oracle's bound for certified transversal inputs -/
theorem residual_near_root (thr : ℕ) (r1 r2 : List K) (h1 : 2 ≤ r1.length) (h2 : 2 ≤ r2.length)
    (D1 D2 : K) (hD1 : ∀ d ∈ diffs r1, |d| ≤ D1) (hD2 : ∀ d ∈ diffs r2, |d| ≤ D2)
    (s t s' t' : K) (hs0 : 0 ≤ s) (hs1 : s ≤ 1) (ht0 : 0 ≤ t) (ht1 : t ≤ 1)
    (hs0' : 0 ≤ s') (hs1' : s' ≤ 1) (ht0' : 0 ≤ t') (ht1' : t' ≤ 1)
    (hroot : evalBary thr r1 (1 - s) s = evalBary thr r2 (1 - t) t) :
    |evalBary thr r1 (1 - s') s' - evalBary thr r2 (1 - t') t'| ≤
      |s' - s| * (((r1.length - 1 : ℕ) : K) * D1) + |t' - t| * (((r2.length - 1 : ℕ) : K) * D2) := by
  have := newton_gate_partial thr r1 r2 h1 h2 D1 D2 hD1 hD2 s t s' t' hs0 hs1 ht0 ht1 hs0' hs1' ht0' ht1'
  rw [hroot, sub_self, abs_zero, zero_add] at this
  exact this

/-! ### the Newton gate: second-order residual after a step -/

/-- first-order Taylor expansion of one coordinate of the model with the remainder bounded by the second
    differences: `|B(a) − B(b) − (a−b)·B'(b)| ≤ (a−b)² · n(n−1)/2 · max|Δ²v|`, `B' = Model.hodographRow`
    (`evaluate_hodograph`) -/
theorem curve_taylor (thr : ℕ) (row : List K) (h : 2 ≤ row.length) (a b M : K)
    (ha0 : 0 ≤ a) (ha1 : a ≤ 1) (hb0 : 0 ≤ b) (hb1 : b ≤ 1)
    (hM : ∀ d ∈ diffs (diffs row), |d| ≤ M) :
    |evalBary thr row (1 - a) a - evalBary thr row (1 - b) b - (a - b) * hodographRow thr row b| ≤
      (a - b)^2 * ((((row.length - 1) * (row.length - 1 - 1) / 2 : ℕ) : K) * M) := by
  rw [Geo.evalBary_eq_evalDC thr row h, Geo.evalBary_eq_evalDC thr row h, Geo.hodographRow_eq thr row h]
  exact Lipschitz.evalDC_taylor row (row.length - 1) (by omega) (by omega) a b M ha0 ha1 hb0 hb1 hM

/-- **Newton gate**, one coordinate of `F(s,t) = B₁(s) − B₂(t)`.  For an update `(s,t) → (s',t')` inside the
    unit square, the new residual is bounded by the defect of the linearised equation
    `B₁'(s)(s−s') − B₂'(t)(t−t') = F(s,t)` (row of `J δ = F`, `p' = p − δ`) plus the second-order terms
    `(s'−s)² n₁(n₁−1)/2 · max|Δ²v¹| + (t'−t)² n₂(n₂−1)/2 · max|Δ²v²|`. -/
theorem newton_gate (thr : ℕ) (r1 r2 : List K) (h1 : 2 ≤ r1.length) (h2 : 2 ≤ r2.length)
    (M1 M2 : K) (hM1 : ∀ d ∈ diffs (diffs r1), |d| ≤ M1) (hM2 : ∀ d ∈ diffs (diffs r2), |d| ≤ M2)
    (s t s' t' : K) (hs0 : 0 ≤ s) (hs1 : s ≤ 1) (ht0 : 0 ≤ t) (ht1 : t ≤ 1)
    (hs0' : 0 ≤ s') (hs1' : s' ≤ 1) (ht0' : 0 ≤ t') (ht1' : t' ≤ 1) :
    |evalBary thr r1 (1 - s') s' - evalBary thr r2 (1 - t') t'| ≤
      |(evalBary thr r1 (1 - s) s - evalBary thr r2 (1 - t) t)
          - (hodographRow thr r1 s * (s - s') - hodographRow thr r2 t * (t - t'))|
        + (s' - s)^2 * ((((r1.length - 1) * (r1.length - 1 - 1) / 2 : ℕ) : K) * M1)
        + (t' - t)^2 * ((((r2.length - 1) * (r2.length - 1 - 1) / 2 : ℕ) : K) * M2) := by
  have e1 := curve_taylor thr r1 h1 s' s M1 hs0' hs1' hs0 hs1 hM1
  have e2 := curve_taylor thr r2 h2 t' t M2 ht0' ht1' ht0 ht1 hM2
  have key : evalBary thr r1 (1 - s') s' - evalBary thr r2 (1 - t') t' =
      ((evalBary thr r1 (1 - s) s - evalBary thr r2 (1 - t) t)
          - (hodographRow thr r1 s * (s - s') - hodographRow thr r2 t * (t - t')))
        + (evalBary thr r1 (1 - s') s' - evalBary thr r1 (1 - s) s - (s' - s) * hodographRow thr r1 s)
        - (evalBary thr r2 (1 - t') t' - evalBary thr r2 (1 - t) t - (t' - t) * hodographRow thr r2 t) := by ring
  rw [key]
  have t1 := abs_sub
    (((evalBary thr r1 (1 - s) s - evalBary thr r2 (1 - t) t)
          - (hodographRow thr r1 s * (s - s') - hodographRow thr r2 t * (t - t')))
        + (evalBary thr r1 (1 - s') s' - evalBary thr r1 (1 - s) s - (s' - s) * hodographRow thr r1 s))
    (evalBary thr r2 (1 - t') t' - evalBary thr r2 (1 - t) t - (t' - t) * hodographRow thr r2 t)
  have t2 := abs_add_le
    ((evalBary thr r1 (1 - s) s - evalBary thr r2 (1 - t) t)
          - (hodographRow thr r1 s * (s - s') - hodographRow thr r2 t * (t - t')))
    (evalBary thr r1 (1 - s') s' - evalBary thr r1 (1 - s) s - (s' - s) * hodographRow thr r1 s)
  linarith

/-- **exact Newton step**: `(δs, δt)` is what `solve2x2` returns for the Jacobian
    `[[x₁'(s), −x₂'(t)], [y₁'(s), −y₂'(t)]]` and the right-hand side `F(s,t)` — the call made by
    `newton_iterate` with `NewtonSimpleRoot` — and `p' = p − δ` stays in the unit square.  Then in both
    coordinates the residual at `p'` is purely second order in the step:
    `|F(p')| ≤ δs² n₁(n₁−1)/2 · M₁ + δt² n₂(n₂−1)/2 · M₂`. -/
theorem newton_step_residual (thr : ℕ) (x1 y1 x2 y2 : List K)
    (hx1 : 2 ≤ x1.length) (hy1 : y1.length = x1.length) (hx2 : 2 ≤ x2.length) (hy2 : y2.length = x2.length)
    (M1 M2 : K)
    (hMx1 : ∀ d ∈ diffs (diffs x1), |d| ≤ M1) (hMy1 : ∀ d ∈ diffs (diffs y1), |d| ≤ M1)
    (hMx2 : ∀ d ∈ diffs (diffs x2), |d| ≤ M2) (hMy2 : ∀ d ∈ diffs (diffs y2), |d| ≤ M2)
    (s t ds dt : K) (hs0 : 0 ≤ s) (hs1 : s ≤ 1) (ht0 : 0 ≤ t) (ht1 : t ≤ 1)
    (hs0' : 0 ≤ s - ds) (hs1' : s - ds ≤ 1) (ht0' : 0 ≤ t - dt) (ht1' : t - dt ≤ 1)
    (hsolve : solve2x2 (hodographRow thr x1 s) (-(hodographRow thr x2 t))
                       (hodographRow thr y1 s) (-(hodographRow thr y2 t))
                       (evalBary thr x1 (1 - s) s - evalBary thr x2 (1 - t) t)
                       (evalBary thr y1 (1 - s) s - evalBary thr y2 (1 - t) t) = some (ds, dt)) :
    |evalBary thr x1 (1 - (s - ds)) (s - ds) - evalBary thr x2 (1 - (t - dt)) (t - dt)| ≤
        ds^2 * ((((x1.length - 1) * (x1.length - 1 - 1) / 2 : ℕ) : K) * M1)
          + dt^2 * ((((x2.length - 1) * (x2.length - 1 - 1) / 2 : ℕ) : K) * M2) ∧
    |evalBary thr y1 (1 - (s - ds)) (s - ds) - evalBary thr y2 (1 - (t - dt)) (t - dt)| ≤
        ds^2 * ((((x1.length - 1) * (x1.length - 1 - 1) / 2 : ℕ) : K) * M1)
          + dt^2 * ((((x2.length - 1) * (x2.length - 1 - 1) / 2 : ℕ) : K) * M2) := by
  obtain ⟨ex, ey⟩ := solve2x2_exact _ _ _ _ _ _ ds dt hsolve
  have gx := newton_gate thr x1 x2 hx1 hx2 M1 M2 hMx1 hMx2 s t (s - ds) (t - dt)
    hs0 hs1 ht0 ht1 hs0' hs1' ht0' ht1'
  have gy := newton_gate thr y1 y2 (by omega) (by omega) M1 M2 hMy1 hMy2 s t (s - ds) (t - dt)
    hs0 hs1 ht0 ht1 hs0' hs1' ht0' ht1'
  have zx : (evalBary thr x1 (1 - s) s - evalBary thr x2 (1 - t) t)
      - (hodographRow thr x1 s * (s - (s - ds)) - hodographRow thr x2 t * (t - (t - dt))) = 0 := by
    rw [← ex]; ring
  have zy : (evalBary thr y1 (1 - s) s - evalBary thr y2 (1 - t) t)
      - (hodographRow thr y1 s * (s - (s - ds)) - hodographRow thr y2 t * (t - (t - dt))) = 0 := by
    rw [← ey]; ring
  rw [zx, abs_zero, zero_add] at gx
  rw [zy, abs_zero, zero_add, hy1, hy2] at gy
  have sq1 : (s - ds - s)^2 = ds^2 := by ring
  have sq2 : (t - dt - t)^2 = dt^2 := by ring
  rw [sq1, sq2] at gx gy
  exact ⟨gx, gy⟩

/-! ### non-vacuity -/

/-- pivot on the second row (`|A| < |C|`) -/
example : solve2x2 (1 : ℚ) 2 3 4 5 6 = some (-4, 9/2) := by decide +kernel
/-- pivot on the first row -/
example : solve2x2 (3 : ℚ) 4 1 2 6 5 = some (-4, 9/2) := by decide +kernel
/-- singular matrix -/
example : solve2x2 (1 : ℚ) 2 2 4 5 6 = none := by decide +kernel
/-- the hypotheses of `curve_lipschitz` are satisfiable: the cubic `0, 1, 3, 7` has `max|Δv| = 4` -/
example : |evalBary 55 ([0, 1, 3, 7] : List ℚ) (1 - 1/4) (1/4) - evalBary 55 [0, 1, 3, 7] (1 - 3/4) (3/4)|
    ≤ |(1/4 : ℚ) - 3/4| * (((([0, 1, 3, 7] : List ℚ).length - 1 : ℕ) : ℚ) * 4) := by
  apply curve_lipschitz 55 _ (by decide) _ _ 4 (by norm_num) (by norm_num) (by norm_num) (by norm_num)
  intro d hd
  simp [diffs] at hd
  rcases hd with rfl | rfl | rfl <;> norm_num

/-- the hypotheses of `newton_step_residual` are satisfiable: the parabolas `(0,0),(1,2),(2,0)` and
    `(0,1),(1,0),(2,1)` at `s = t = 1/4`; `solve2x2` returns the step `(1/24, 1/24)`, and the bound
    `(1/24)²·(1·4 + 1·2) = 1/96` is attained by the y-residual `-1/96` -/
example :
    |evalBary 55 ([0, 2, 0] : List ℚ) (1 - (1/4 - 1/24)) (1/4 - 1/24)
        - evalBary 55 ([1, 0, 1] : List ℚ) (1 - (1/4 - 1/24)) (1/4 - 1/24)| ≤ 1/96 := by
  have h := (newton_step_residual 55 ([0, 1, 2] : List ℚ) [0, 2, 0] [0, 1, 2] [1, 0, 1]
    (by decide) rfl (by decide) rfl 4 2
    (by simp [diffs]; norm_num) (by simp [diffs]; norm_num) (by simp [diffs]; norm_num) (by simp [diffs]; norm_num)
    (1/4) (1/4) (1/24) (1/24) (by norm_num) (by norm_num) (by norm_num) (by norm_num)
    (by norm_num) (by norm_num) (by norm_num) (by norm_num) (by decide +kernel)).2
  norm_num at h ⊢
  exact h

end BezierVerif.C02
