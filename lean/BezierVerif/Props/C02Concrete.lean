import BezierVerif.Lemmas.PipelineInst
import BezierVerif.Props.C02Pipeline
import BezierVerif.Props.C18

/-!
# C02 / C18 (concrete part) — the unit-square theorems for the primitives the driver really runs

`Props/C02Pipeline.lean` and `Props/C18.lean` are stated for ANY record `Prims K` satisfying the contract
`Pipe.PrimsOK`.  Here the contract is discharged for `concretePrims py C` (`Model/GeometricInst.lean`:
the transcriptions of `wiggle_interval`, `in_interval`, `parallel_lines_parameters`, `locate_point`, …), for
both variants (`py = true`: pure Python, `py = false`: compiled) and every set of constants with a
non-negative wiggle, so that the conclusions hold for the model the scripts compare the library with.
-/

namespace BezierVerif.C02

open Model BezierVerif Pipe

set_option linter.unusedSectionVars false

variable {K : Type} [Field K] [LinearOrder K] [IsStrictOrderedRing K]

/-- the concrete primitives satisfy the contract: `wiggle_interval` (C16.wiggle_spec), `in_interval`
    (C16.in_interval_exact), `parallel_lines_parameters` (C16.parallel_unit; a failing call is mapped to
    "disjoint"), `locate_point` (C10.in_domain; only `.found s` yields a parameter) -/
theorem concrete_primsOK (py : Bool) (C : PipelineConsts K) (hw : 0 ≤ C.wiggle) :
    PrimsOK (concretePrims py C) :=
  PipeInst.concrete_primsOK py C hw

/-- **C02, unit square, concrete primitives** (both variants): whenever the model of `all_intersections`
    returns, through whichever exit, every parameter pair lies in `[0,1]²` -/
theorem concrete_params_in_unit_square (py : Bool) (C : PipelineConsts K) (hw : 0 ≤ C.wiggle)
    (n1 n2 : List (List K)) (pts : List (K × K)) (flag : Bool)
    (h : allIntersections (concretePrims py C) C.geo n1 n2 = .ok (pts, flag)) :
    ∀ p ∈ pts, 0 ≤ p.1 ∧ p.1 ≤ 1 ∧ 0 ≤ p.2 ∧ p.2 ≤ 1 :=
  params_in_unit_square (concretePrims py C) (PipeInst.concrete_primsOK py C hw) C.geo n1 n2 pts flag h

/-- **C18, structure, concrete primitives**: every pair returned by the model of `self_intersections`
    satisfies `0 ≤ s < t ≤ 1` -/
theorem concrete_self_pairs_structure (py : Bool) (C : PipelineConsts K) (hw : 0 ≤ C.wiggle)
    (fuel : ℕ) (nodes : List (List K)) (pts : List (K × K))
    (h : selfIntersections (concretePrims py C) C.geo fuel nodes = .ok pts) :
    ∀ p ∈ pts, 0 ≤ p.1 ∧ p.1 < p.2 ∧ p.2 ≤ 1 :=
  C18.structure_of_primsOK (concretePrims py C) (PipeInst.concrete_primsOK py C hw) C.geo fuel nodes pts h

/-! ### non-vacuity (the library's constants, exact rationals) -/

open PipeInst in
/-- the contract holds for the library's constants, both variants -/
example : PrimsOK (concretePrims true libConsts) ∧ PrimsOK (concretePrims false libConsts) :=
  ⟨concrete_primsOK true libConsts libConsts_wiggle, concrete_primsOK false libConsts libConsts_wiggle⟩

open PipeInst in
/-- a successful run through the round loop (parabola against a horizontal line: subdivision, linearisation,
    Newton refinement, `wiggle_interval`) and the theorem applied to it -/
example : ∀ p ∈ [((1 / 2 : ℚ), (1 / 2 : ℚ))], 0 ≤ p.1 ∧ p.1 ≤ 1 ∧ 0 ≤ p.2 ∧ p.2 ≤ 1 :=
  concrete_params_in_unit_square true libConsts libConsts_wiggle [[0, 1, 2], [0, 2, 0]] [[0, 2], [1, 1]] _ false
    (by decide +kernel)

open PipeInst in
/-- the compiled variant, the line given second and vertical -/
example : allIntersections (concretePrims false libConsts) libConsts.geo [[0, 1, 2], [0, 2, 0]] [[1, 1], [0, 2]]
    = .ok ([(1 / 2, 1 / 2)], false) := by decide +kernel

open PipeInst in
/-- `self_intersections` on a cubic with a loop returns one pair (to which `concrete_self_pairs_structure`
    applies) -/
example : (selfIntersections (concretePrims true libConsts) libConsts.geo 10 [[0, 3, -2, 1], [0, 3, 3, 0]]).map
    List.length = .ok 1 := by decide +kernel

end BezierVerif.C02
