import BezierVerif.Lemmas.NewtonGate
import BezierVerif.Props.C02

/-!
# C02 (Newton part) — what a converged run of `newton_iterate` guarantees

Statements about the executable model `Model.newtonIterate` / `Model.fullNewtonNonzero`
(`hazmat/intersection_helpers.py`, `curve_intersection.f90`):

* `newtonIterate_converged_cases`, `newtonIterate_converged_cases_reach`: a `.converged` outcome is either
  the exact-zero exit (`evaluate_fn` returned `None` at the returned point) or the small-step exit
  (`‖δ‖² < ratioSq·‖p₀‖²` for a solved step `δ` from a visited point `p₀`, result `rnd (p₀ − δ)`);
* `simple_exact_zero_exit`, `double_exact_zero_exit`: at the exact-zero exit `B₁(s') = B₂(t')` exactly;
* `simple_exit_residual`: small-step exit of the SIMPLE system with the exact solve (`solverOf` =
  `solve2x2`) and `rnd = id`: both coordinates of `F(s',t') = B₁(s') − B₂(t')` are bounded by
  `δs²·C₁M₁ + δt²·C₂M₂ ≤ 2·ratioSq·(C₁M₁ + C₂M₂)`; `simple_exit_residual_rounded` adds `ε·(n₁D₁ + n₂D₂)`
  for a rounding of the iterates with `|rnd x − x| ≤ ε`;
* `simple_converged_residual`: the same for a whole run `newtonIterate … = .converged s' t'` all of whose
  visited points lie in the unit square;
* `fullNewtonNonzero_ok_cases`: `full_newton_nonzero` returns either the simple-root result or the result
  of the double-root (Gauss–Newton) iteration started where the simple one stopped;
* `double_root_exit_no_bound_counterexample*`: the Gauss–Newton small-step exit has NO residual guarantee
  (decided over `ℚ` on the model with the library's constants) — finding
  `residual-too-large:geometric:tangential-input`.
-/

namespace BezierVerif.C02

open Model BezierVerif Gate

set_option linter.unusedSectionVars false

variable {K : Type} [Field K] [LinearOrder K] [IsStrictOrderedRing K]

/-! ### the two exits of `newton_iterate` -/

/-- **exits of `newton_iterate`**: `.converged s' t'` means (a) `evaluate_fn(s', t')` returned `None`
    (`F = 0` exactly) or (b) the last solved step `δ = (ds, dt)` from an iterate `p₀ = (s₀, t₀)` was small,
    `ds² + dt² < ratioSq·(s₀² + t₀²)`, and `(s', t') = rnd (p₀ − δ)`. Any solver, cut rule, rounding, fuel. -/
theorem newtonIterate_converged_cases (solve : Solver K) (cut : ℕ → ℕ → Bool) (rnd : K → K) (ratioSq : K)
    (ev : NewtonEval K) (fuel : ℕ) (s t s' t' : K)
    (h : newtonIterate solve cut rnd ratioSq ev fuel s t = .converged s' t') :
    ev s' t' = none ∨
    ∃ s₀ t₀ lhs rhs ds dt, ev s₀ t₀ = some (lhs, rhs) ∧ solve lhs rhs = some (ds, dt) ∧
      s' = rnd (s₀ - ds) ∧ t' = rnd (t₀ - dt) ∧ ds * ds + dt * dt < ratioSq * (s₀ * s₀ + t₀ * t₀) := by
  unfold newtonIterate at h
  rcases go_converged solve cut rnd ratioSq ev s t fuel 0 _ s' t' Reach.start h with ⟨h0, _⟩ |
    ⟨s₀, t₀, lhs, rhs, ds, dt, _, h1, h2, h3, h4, h5⟩
  · exact Or.inl h0
  · exact Or.inr ⟨s₀, t₀, lhs, rhs, ds, dt, h1, h2, h3, h4, h5⟩

/-- the same with the information that all points involved were visited by the iteration
    (`Gate.Reach`: start point, then `rnd (p − δ)` for every solved step) -/
theorem newtonIterate_converged_cases_reach (solve : Solver K) (cut : ℕ → ℕ → Bool) (rnd : K → K) (ratioSq : K)
    (ev : NewtonEval K) (fuel : ℕ) (s t s' t' : K)
    (h : newtonIterate solve cut rnd ratioSq ev fuel s t = .converged s' t') :
    (ev s' t' = none ∧ Reach solve rnd ev s t s' t') ∨
    ∃ s₀ t₀ lhs rhs ds dt, Reach solve rnd ev s t s₀ t₀ ∧ ev s₀ t₀ = some (lhs, rhs) ∧
      solve lhs rhs = some (ds, dt) ∧ s' = rnd (s₀ - ds) ∧ t' = rnd (t₀ - dt) ∧
      ds * ds + dt * dt < ratioSq * (s₀ * s₀ + t₀ * t₀) := by
  unfold newtonIterate at h
  exact go_converged solve cut rnd ratioSq ev s t fuel 0 _ s' t' Reach.start h

/-- a failed run hands a visited point to the caller -/
theorem newtonIterate_failed_reach (solve : Solver K) (cut : ℕ → ℕ → Bool) (rnd : K → K) (ratioSq : K)
    (ev : NewtonEval K) (fuel : ℕ) (s t s' t' : K)
    (h : newtonIterate solve cut rnd ratioSq ev fuel s t = .failed s' t') :
    Reach solve rnd ev s t s' t' := by
  unfold newtonIterate at h
  exact go_failed solve cut rnd ratioSq ev s t fuel 0 _ s' t' Reach.start h

/-- exit (a) for the simple system: the curves meet exactly at the returned parameters -/
theorem simple_exact_zero_exit (thr : ℕ) (x1 y1 x2 y2 : List K) (s t : K)
    (h : newtonSimple thr [x1, y1] [x2, y2] s t = none) :
    evalPoint thr [x1, y1] s = evalPoint thr [x2, y2] t := by
  obtain ⟨e1, e2⟩ := (newtonSimple_none_iff thr x1 y1 x2 y2 s t).mp h
  simp [evalPoint, e1, e2]

/-- exit (a) for the double-root system -/
theorem double_exact_zero_exit (thr : ℕ) (x1 y1 x2 y2 : List K) (s t : K)
    (h : newtonDouble thr [x1, y1] [x2, y2] s t = none) :
    evalPoint thr [x1, y1] s = evalPoint thr [x2, y2] t := by
  obtain ⟨e1, e2⟩ := newtonDouble_none_imp thr x1 y1 x2 y2 s t h
  simp [evalPoint, e1, e2]

/-! ### the small-step exit of the simple system -/

/-- **small-step exit, simple root, exact arithmetic** (`solve = solve2x2`, `rnd = id`).
    `p₀ = (s₀,t₀)` and `p' = p₀ − δ` in the unit square, `δ = (ds, dt)` the step `solve2x2` returns for the
    system of `NewtonSimpleRoot` at `p₀`, exit test `ds² + dt² < ratioSq·(s₀² + t₀²)` passed.  Then both
    coordinates of `F(p') = B₁(s') − B₂(t')` are at most `ds²·C₁M₁ + dt²·C₂M₂` (`Cᵢ = nᵢ(nᵢ−1)/2`, `Mᵢ` a bound
    of the second differences of curve `i`), which is below `2·ratioSq·(C₁M₁ + C₂M₂)`
    (`= 2⁻⁷¹·(C₁M₁ + C₂M₂)` for the library's `NEWTON_ERROR_RATIO = 2⁻³⁶`). -/
theorem simple_exit_residual (thr : ℕ) (x1 y1 x2 y2 : List K)
    (hx1 : 2 ≤ x1.length) (hy1 : y1.length = x1.length) (hx2 : 2 ≤ x2.length) (hy2 : y2.length = x2.length)
    (M1 M2 : K) (hM1 : 0 ≤ M1) (hM2 : 0 ≤ M2)
    (hMx1 : ∀ d ∈ diffs (diffs x1), |d| ≤ M1) (hMy1 : ∀ d ∈ diffs (diffs y1), |d| ≤ M1)
    (hMx2 : ∀ d ∈ diffs (diffs x2), |d| ≤ M2) (hMy2 : ∀ d ∈ diffs (diffs y2), |d| ≤ M2)
    (ratioSq s₀ t₀ ds dt : K) (lhs : K × K × K × K) (rhs : K × K)
    (hs0 : 0 ≤ s₀) (hs1 : s₀ ≤ 1) (ht0 : 0 ≤ t₀) (ht1 : t₀ ≤ 1)
    (hs0' : 0 ≤ s₀ - ds) (hs1' : s₀ - ds ≤ 1) (ht0' : 0 ≤ t₀ - dt) (ht1' : t₀ - dt ≤ 1)
    (hev : newtonSimple thr [x1, y1] [x2, y2] s₀ t₀ = some (lhs, rhs))
    (hsol : solverOf lhs rhs = some (ds, dt))
    (hexit : ds * ds + dt * dt < ratioSq * (s₀ * s₀ + t₀ * t₀)) :
    (|evalBary thr x1 (1 - (s₀ - ds)) (s₀ - ds) - evalBary thr x2 (1 - (t₀ - dt)) (t₀ - dt)| ≤
        ds^2 * ((((x1.length - 1) * (x1.length - 1 - 1) / 2 : ℕ) : K) * M1)
          + dt^2 * ((((x2.length - 1) * (x2.length - 1 - 1) / 2 : ℕ) : K) * M2) ∧
     |evalBary thr y1 (1 - (s₀ - ds)) (s₀ - ds) - evalBary thr y2 (1 - (t₀ - dt)) (t₀ - dt)| ≤
        ds^2 * ((((x1.length - 1) * (x1.length - 1 - 1) / 2 : ℕ) : K) * M1)
          + dt^2 * ((((x2.length - 1) * (x2.length - 1 - 1) / 2 : ℕ) : K) * M2)) ∧
    ds^2 * ((((x1.length - 1) * (x1.length - 1 - 1) / 2 : ℕ) : K) * M1)
        + dt^2 * ((((x2.length - 1) * (x2.length - 1 - 1) / 2 : ℕ) : K) * M2) ≤
      ratioSq * 2 * ((((x1.length - 1) * (x1.length - 1 - 1) / 2 : ℕ) : K) * M1
        + (((x2.length - 1) * (x2.length - 1 - 1) / 2 : ℕ) : K) * M2) := by
  obtain ⟨rfl, rfl⟩ := newtonSimple_some thr x1 y1 x2 y2 hx1 (by omega) hx2 (by omega) s₀ t₀ lhs rhs hev
  have hstep := newton_step_residual thr x1 y1 x2 y2 hx1 hy1 hx2 hy2 M1 M2 hMx1 hMy1 hMx2 hMy2
    s₀ t₀ ds dt hs0 hs1 ht0 ht1 hs0' hs1' ht0' ht1' hsol
  refine ⟨hstep, ?_⟩
  have hC1 : (0 : K) ≤ (((x1.length - 1) * (x1.length - 1 - 1) / 2 : ℕ) : K) * M1 :=
    mul_nonneg (Nat.cast_nonneg _) hM1
  have hC2 : (0 : K) ≤ (((x2.length - 1) * (x2.length - 1 - 1) / 2 : ℕ) : K) * M2 :=
    mul_nonneg (Nat.cast_nonneg _) hM2
  have hns : s₀ * s₀ + t₀ * t₀ ≤ 2 := by nlinarith
  have hds : 0 ≤ ds * ds := mul_self_nonneg ds
  have hdt : 0 ≤ dt * dt := mul_self_nonneg dt
  have hr : 0 < ratioSq := by
    by_contra hneg
    have : ratioSq * (s₀ * s₀ + t₀ * t₀) ≤ 0 :=
      mul_nonpos_of_nonpos_of_nonneg (not_lt.mp hneg) (by nlinarith)
    linarith
  have hnu : ds * ds + dt * dt ≤ ratioSq * 2 := by
    have := mul_le_mul_of_nonneg_left hns hr.le
    linarith
  have e1 : ds ^ 2 ≤ ratioSq * 2 := by rw [pow_two]; linarith
  have e2 : dt ^ 2 ≤ ratioSq * 2 := by rw [pow_two]; linarith
  have := mul_le_mul_of_nonneg_right e1 hC1
  have := mul_le_mul_of_nonneg_right e2 hC2
  linarith

/-- **small-step exit, simple root, rounded iterates**: the step is solved exactly but the new iterate is
    rounded, `|rnd x − x| ≤ ε`.  With `Dᵢ` bounding the first differences (Lipschitz constants `nᵢDᵢ`,
    `C02.curve_lipschitz`) the residual at the RETURNED point `rnd (p₀ − δ)` is at most
    `ds²·C₁M₁ + dt²·C₂M₂ + ε·(n₁D₁ + n₂D₂)`. -/
theorem simple_exit_residual_rounded (thr : ℕ) (x1 y1 x2 y2 : List K)
    (hx1 : 2 ≤ x1.length) (hy1 : y1.length = x1.length) (hx2 : 2 ≤ x2.length) (hy2 : y2.length = x2.length)
    (M1 M2 D1 D2 : K) (hD1 : 0 ≤ D1) (hD2 : 0 ≤ D2)
    (hMx1 : ∀ d ∈ diffs (diffs x1), |d| ≤ M1) (hMy1 : ∀ d ∈ diffs (diffs y1), |d| ≤ M1)
    (hMx2 : ∀ d ∈ diffs (diffs x2), |d| ≤ M2) (hMy2 : ∀ d ∈ diffs (diffs y2), |d| ≤ M2)
    (hDx1 : ∀ d ∈ diffs x1, |d| ≤ D1) (hDy1 : ∀ d ∈ diffs y1, |d| ≤ D1)
    (hDx2 : ∀ d ∈ diffs x2, |d| ≤ D2) (hDy2 : ∀ d ∈ diffs y2, |d| ≤ D2)
    (rnd : K → K) (ε : K) (hrnd : ∀ x, |rnd x - x| ≤ ε)
    (s₀ t₀ ds dt : K) (lhs : K × K × K × K) (rhs : K × K)
    (hs0 : 0 ≤ s₀) (hs1 : s₀ ≤ 1) (ht0 : 0 ≤ t₀) (ht1 : t₀ ≤ 1)
    (hs0' : 0 ≤ s₀ - ds) (hs1' : s₀ - ds ≤ 1) (ht0' : 0 ≤ t₀ - dt) (ht1' : t₀ - dt ≤ 1)
    (hrs0 : 0 ≤ rnd (s₀ - ds)) (hrs1 : rnd (s₀ - ds) ≤ 1) (hrt0 : 0 ≤ rnd (t₀ - dt)) (hrt1 : rnd (t₀ - dt) ≤ 1)
    (hev : newtonSimple thr [x1, y1] [x2, y2] s₀ t₀ = some (lhs, rhs))
    (hsol : solverOf lhs rhs = some (ds, dt)) :
    |evalBary thr x1 (1 - rnd (s₀ - ds)) (rnd (s₀ - ds)) - evalBary thr x2 (1 - rnd (t₀ - dt)) (rnd (t₀ - dt))| ≤
        ds^2 * ((((x1.length - 1) * (x1.length - 1 - 1) / 2 : ℕ) : K) * M1)
          + dt^2 * ((((x2.length - 1) * (x2.length - 1 - 1) / 2 : ℕ) : K) * M2)
          + ε * (((x1.length - 1 : ℕ) : K) * D1 + ((x2.length - 1 : ℕ) : K) * D2) ∧
    |evalBary thr y1 (1 - rnd (s₀ - ds)) (rnd (s₀ - ds)) - evalBary thr y2 (1 - rnd (t₀ - dt)) (rnd (t₀ - dt))| ≤
        ds^2 * ((((x1.length - 1) * (x1.length - 1 - 1) / 2 : ℕ) : K) * M1)
          + dt^2 * ((((x2.length - 1) * (x2.length - 1 - 1) / 2 : ℕ) : K) * M2)
          + ε * (((x1.length - 1 : ℕ) : K) * D1 + ((x2.length - 1 : ℕ) : K) * D2) := by
  obtain ⟨rfl, rfl⟩ := newtonSimple_some thr x1 y1 x2 y2 hx1 (by omega) hx2 (by omega) s₀ t₀ lhs rhs hev
  obtain ⟨gx, gy⟩ := newton_step_residual thr x1 y1 x2 y2 hx1 hy1 hx2 hy2 M1 M2 hMx1 hMy1 hMx2 hMy2
    s₀ t₀ ds dt hs0 hs1 ht0 ht1 hs0' hs1' ht0' ht1' hsol
  have px := newton_gate_partial thr x1 x2 hx1 hx2 D1 D2 hDx1 hDx2 (s₀ - ds) (t₀ - dt)
    (rnd (s₀ - ds)) (rnd (t₀ - dt)) hs0' hs1' ht0' ht1' hrs0 hrs1 hrt0 hrt1
  have py := newton_gate_partial thr y1 y2 (by omega) (by omega) D1 D2 hDy1 hDy2 (s₀ - ds) (t₀ - dt)
    (rnd (s₀ - ds)) (rnd (t₀ - dt)) hs0' hs1' ht0' ht1' hrs0 hrs1 hrt0 hrt1
  rw [hy1, hy2] at py
  have hL1 : (0 : K) ≤ ((x1.length - 1 : ℕ) : K) * D1 := mul_nonneg (Nat.cast_nonneg _) hD1
  have hL2 : (0 : K) ≤ ((x2.length - 1 : ℕ) : K) * D2 := mul_nonneg (Nat.cast_nonneg _) hD2
  have r1 := mul_le_mul_of_nonneg_right (hrnd (s₀ - ds)) hL1
  have r2 := mul_le_mul_of_nonneg_right (hrnd (t₀ - dt)) hL2
  constructor <;> linarith

/-- **a converged run of the simple system** (`solve2x2`, `rnd = id`), all visited points in the unit square:
    both coordinates of `F(s',t')` are at most `2·ratioSq·(C₁M₁ + C₂M₂)` — through either exit. -/
theorem simple_converged_residual (thr : ℕ) (x1 y1 x2 y2 : List K)
    (hx1 : 2 ≤ x1.length) (hy1 : y1.length = x1.length) (hx2 : 2 ≤ x2.length) (hy2 : y2.length = x2.length)
    (M1 M2 : K) (hM1 : 0 ≤ M1) (hM2 : 0 ≤ M2)
    (hMx1 : ∀ d ∈ diffs (diffs x1), |d| ≤ M1) (hMy1 : ∀ d ∈ diffs (diffs y1), |d| ≤ M1)
    (hMx2 : ∀ d ∈ diffs (diffs x2), |d| ≤ M2) (hMy2 : ∀ d ∈ diffs (diffs y2), |d| ≤ M2)
    (cut : ℕ → ℕ → Bool) (ratioSq : K) (hr : 0 ≤ ratioSq) (fuel : ℕ) (s t s' t' : K)
    (hrun : newtonIterate solverOf cut id ratioSq (newtonSimple thr [x1, y1] [x2, y2]) fuel s t = .converged s' t')
    (hunit : ∀ a b, Reach solverOf id (newtonSimple thr [x1, y1] [x2, y2]) s t a b →
      0 ≤ a ∧ a ≤ 1 ∧ 0 ≤ b ∧ b ≤ 1) :
    |evalBary thr x1 (1 - s') s' - evalBary thr x2 (1 - t') t'| ≤
      ratioSq * 2 * ((((x1.length - 1) * (x1.length - 1 - 1) / 2 : ℕ) : K) * M1
        + (((x2.length - 1) * (x2.length - 1 - 1) / 2 : ℕ) : K) * M2) ∧
    |evalBary thr y1 (1 - s') s' - evalBary thr y2 (1 - t') t'| ≤
      ratioSq * 2 * ((((x1.length - 1) * (x1.length - 1 - 1) / 2 : ℕ) : K) * M1
        + (((x2.length - 1) * (x2.length - 1 - 1) / 2 : ℕ) : K) * M2) := by
  have hC1 : (0 : K) ≤ (((x1.length - 1) * (x1.length - 1 - 1) / 2 : ℕ) : K) * M1 :=
    mul_nonneg (Nat.cast_nonneg _) hM1
  have hC2 : (0 : K) ≤ (((x2.length - 1) * (x2.length - 1 - 1) / 2 : ℕ) : K) * M2 :=
    mul_nonneg (Nat.cast_nonneg _) hM2
  rcases newtonIterate_converged_cases_reach solverOf cut id ratioSq _ fuel s t s' t' hrun with ⟨h0, _⟩ |
    ⟨s₀, t₀, lhs, rhs, ds, dt, hreach, hev, hsol, rfl, rfl, hexit⟩
  · obtain ⟨e1, e2⟩ := (newtonSimple_none_iff thr x1 y1 x2 y2 s' t').mp h0
    rw [e1, e2, sub_self, sub_self, abs_zero]
    have : (0 : K) ≤ ratioSq * 2 * ((((x1.length - 1) * (x1.length - 1 - 1) / 2 : ℕ) : K) * M1
        + (((x2.length - 1) * (x2.length - 1 - 1) / 2 : ℕ) : K) * M2) :=
      mul_nonneg (mul_nonneg hr (by norm_num)) (add_nonneg hC1 hC2)
    exact ⟨this, this⟩
  · obtain ⟨a0, a1, b0, b1⟩ := hunit s₀ t₀ hreach
    obtain ⟨c0, c1, d0, d1⟩ := hunit _ _ (Reach.step hreach hev hsol)
    simp only [id] at c0 c1 d0 d1 ⊢
    obtain ⟨⟨gx, gy⟩, hb⟩ := simple_exit_residual thr x1 y1 x2 y2 hx1 hy1 hx2 hy2 M1 M2 hM1 hM2
      hMx1 hMy1 hMx2 hMy2 ratioSq s₀ t₀ ds dt lhs rhs a0 a1 b0 b1 c0 c1 d0 d1 hev hsol hexit
    exact ⟨le_trans gx hb, le_trans gy hb⟩

/-! ### `full_newton_nonzero`: which iteration produced the answer -/

/-- `full_newton_nonzero` returns the result of the simple-root iteration if that converged, otherwise the
    result of the double-root iteration started at the point where the simple one stopped -/
theorem fullNewtonNonzero_ok_cases (solve : Solver K) (cut : ℕ → ℕ → Bool) (rnd : K → K) (ratioSq : K)
    (thr fuel : ℕ) (s t : K) (n1 n2 : List (List K)) (s' t' : K)
    (h : fullNewtonNonzero solve cut rnd ratioSq thr fuel s n1 t n2 = .ok (s', t')) :
    newtonIterate solve cut rnd ratioSq (newtonSimple thr n1 n2) fuel s t = .converged s' t' ∨
    ∃ a b, newtonIterate solve cut rnd ratioSq (newtonSimple thr n1 n2) fuel s t = .failed a b ∧
      newtonIterate solve cut rnd ratioSq (newtonDouble thr n1 n2) fuel a b = .converged s' t' := by
  unfold fullNewtonNonzero at h
  split at h
  · rename_i a b h1
    simp only [Except.ok.injEq, Prod.mk.injEq] at h
    obtain ⟨rfl, rfl⟩ := h
    exact Or.inl h1
  · rename_i a b h1
    split at h
    · rename_i c d h2
      simp only [Except.ok.injEq, Prod.mk.injEq] at h
      obtain ⟨rfl, rfl⟩ := h
      exact Or.inr ⟨a, b, h1, h2⟩
    · cases h

/-! ### the double-root (Gauss–Newton) exit has no residual guarantee -/

/-- **counter-example, double-root exit** (model run decided over `ℚ`; library constants
    `NEWTON_ERROR_RATIO² = 2⁻⁷²`, evaluation switch 55, 10 iterations; both cut rules; iterates rounded to 40
    fractional bits as in the driver).  Curve 1 is the parabola `(s, (s−½)²)`, curve 2 the parabola
    `(t, −(t−½)² − 1/16)`: they never meet (gap `1/16` at closest approach).  Started at `(9/16, 7/16)`:
    * the simple-root iteration fails at once (singular Jacobian) and hands `(9/16, 7/16)` on,
    * the double-root iteration converges through the small-step exit,
    * `full_newton_nonzero` returns `(1/2, 1/2)` — the stationary point of `‖G‖²` —
    * where `B₁(½) = (½, 0)` and `B₂(½) = (½, −1/16)`: residual `1/16`, while the bound of the simple exit
      (`simple_exit_residual`) would be `2⁻⁷¹·(C₁M₁ + C₂M₂) = 2⁻⁷⁰`.
    Nothing after the Gauss–Newton exit re-checks `F(s,t) = 0`
    (finding `residual-too-large:geometric:tangential-input`). -/
theorem double_root_exit_no_bound_counterexample :
    (∀ s t : ℚ, evalPoint 55 [[0, 1/2, 1], [1/4, -1/4, 1/4]] s ≠ evalPoint 55 [[0, 1/2, 1], [-5/16, 3/16, -5/16]] t) ∧
    (∀ cut ∈ [Py.cut, F90.cut],
      (match newtonIterate solverOf cut (roundBits 40) ((1 / 2 ^ 36) ^ 2 : ℚ)
          (newtonSimple 55 [[0, 1/2, 1], [1/4, -1/4, 1/4]] [[0, 1/2, 1], [-5/16, 3/16, -5/16]]) 10 (9/16) (7/16) with
        | .failed a b => decide (a = 9/16 ∧ b = 7/16)
        | .converged _ _ => false) = true ∧
      (match newtonIterate solverOf cut (roundBits 40) ((1 / 2 ^ 36) ^ 2 : ℚ)
          (newtonDouble 55 [[0, 1/2, 1], [1/4, -1/4, 1/4]] [[0, 1/2, 1], [-5/16, 3/16, -5/16]]) 10 (9/16) (7/16) with
        | .converged a b => decide (a = 1/2 ∧ b = 1/2)
        | .failed _ _ => false) = true ∧
      newtonDouble 55 [[0, 1/2, 1], [1/4, -1/4, 1/4]] [[0, 1/2, 1], [-5/16, 3/16, -5/16]] (1/2 : ℚ) (1/2) ≠ none ∧
      fullNewtonNonzero solverOf cut (roundBits 40) ((1 / 2 ^ 36) ^ 2 : ℚ) 55 10
        (9/16) [[0, 1/2, 1], [1/4, -1/4, 1/4]] (7/16) [[0, 1/2, 1], [-5/16, 3/16, -5/16]] = .ok (1/2, 1/2)) ∧
    evalPoint 55 [[0, 1/2, 1], [1/4, -1/4, 1/4]] (1/2 : ℚ) = [1/2, 0] ∧
    evalPoint 55 [[0, 1/2, 1], [-5/16, 3/16, -5/16]] (1/2 : ℚ) = [1/2, -1/16] := by
  refine ⟨?_, ?_, by decide +kernel, by decide +kernel⟩
  · intro s t h
    simp only [evalPoint, List.map_cons, List.map_nil, List.cons.injEq, and_true] at h
    have h2 := h.2
    rw [evalBary_quadratic, evalBary_quadratic] at h2
    nlinarith [sq_nonneg (s - 1/2), sq_nonneg (t - 1/2)]
  · intro cut hcut
    simp only [List.mem_cons, List.not_mem_nil, or_false] at hcut
    rcases hcut with rfl | rfl <;>
      exact ⟨by decide +kernel, by decide +kernel, by decide +kernel, by decide +kernel⟩

/-- the same phenomenon in EXACT rational arithmetic (`rnd = id`): the parabolas `(s, (s−½)²)` and
    `(t, −(t−½)² − 1/1024)`, start `(17/32, 15/32)`: `full_newton_nonzero` returns a pair `(s, t)` with
    `|y₁(s) − y₂(t)| > 1/2048` (the curves are `1/1024` apart) -/
theorem double_root_exit_no_bound_counterexample_exact :
    (match fullNewtonNonzero solverOf Py.cut id ((1 / 2 ^ 36) ^ 2 : ℚ) 55 10
        (17/32) [[0, 1/2, 1], [1/4, -1/4, 1/4]] (15/32) [[0, 1/2, 1], [-257/1024, 255/1024, -257/1024]] with
      | .ok (s, t) => decide (1/2048 <
          |evalBary 55 [1/4, -1/4, 1/4] (1 - s) s - evalBary 55 [-257/1024, 255/1024, -257/1024] (1 - t) t|)
      | .error _ => false) = true := by decide +kernel

/-- the witness of the library finding: the segment `[[49/16,−5/4],[19/8,17/16]]` and the cubic
    `[[13/4,1,5/4,−11/4],[11/4,1/2,4,−5/2]]` (tangent at `s = t = ½`).  Started at `(1/4, 7/32)` (iterates rounded
    to 40 fractional bits) the simple iteration is cut off as "linearly converging", the double-root iteration
    converges, and `full_newton_nonzero` returns `(s, t) ≈ (0.25096, 0.22857)` where the curves are more than
    `1/8` apart in `y` (net size ≈ 4). -/
theorem double_root_exit_no_bound_counterexample_witness :
    fullNewtonNonzero solverOf Py.cut (roundBits 40) ((1 / 2 ^ 36) ^ 2 : ℚ) 55 10
      (1/4) [[49/16, -5/4], [19/8, 17/16]] (7/32) [[13/4, 1, 5/4, -11/4], [11/4, 1/2, 4, -5/2]]
      = .ok (68983681415 / 2 ^ 38, 62829235873 / 2 ^ 38) ∧
    (match newtonIterate solverOf Py.cut (roundBits 40) ((1 / 2 ^ 36) ^ 2 : ℚ)
        (newtonSimple 55 [[49/16, -5/4], [19/8, 17/16]] [[13/4, 1, 5/4, -11/4], [11/4, 1/2, 4, -5/2]]) 10 (1/4) (7/32) with
      | .failed _ _ => true
      | .converged _ _ => false) = true ∧
    1/8 < |evalBary 55 ([19/8, 17/16] : List ℚ) (1 - 68983681415 / 2 ^ 38) (68983681415 / 2 ^ 38)
          - evalBary 55 ([11/4, 1/2, 4, -5/2] : List ℚ) (1 - 62829235873 / 2 ^ 38) (62829235873 / 2 ^ 38)| := by
  refine ⟨by decide +kernel, by decide +kernel, by decide +kernel⟩

/-! ### non-vacuity -/

/-- a run of the simple system that exits through the small step: the parabolas `(0,0),(1,2),(2,0)` and
    `(0,1),(1,0),(2,1)` from `(1/4, 1/4)` with a coarse ratio `1/10`; step `(1/24, 1/24)`, result `(5/24, 5/24)` -/
example : (match newtonIterate solverOf Py.cut id (1/10 : ℚ) (newtonSimple 55 [[0, 1, 2], [0, 2, 0]] [[0, 1, 2], [1, 0, 1]])
      10 (1/4) (1/4) with
    | .converged a b => decide (a = 5/24 ∧ b = 5/24)
    | .failed _ _ => false) = true := by decide +kernel

/-- the hypotheses of `simple_exit_residual` hold for that step; the bound `(1/24)²·(1·4 + 1·2) = 1/96` -/
example :
    |evalBary 55 ([0, 2, 0] : List ℚ) (1 - (1/4 - 1/24)) (1/4 - 1/24)
        - evalBary 55 ([1, 0, 1] : List ℚ) (1 - (1/4 - 1/24)) (1/4 - 1/24)| ≤ 1/96 := by
  have h := (simple_exit_residual 55 ([0, 1, 2] : List ℚ) [0, 2, 0] [0, 1, 2] [1, 0, 1]
    (by decide) rfl (by decide) rfl 4 2 (by norm_num) (by norm_num)
    (by simp [diffs]; norm_num) (by simp [diffs]; norm_num) (by simp [diffs]; norm_num) (by simp [diffs]; norm_num)
    (1/10) (1/4) (1/4) (1/24) (1/24) (2, -2, 2, 1) (0, 1/8)
    (by norm_num) (by norm_num) (by norm_num) (by norm_num)
    (by norm_num) (by norm_num) (by norm_num) (by norm_num) (by decide +kernel) (by decide +kernel)
    (by norm_num)).1.2
  norm_num at h ⊢
  exact h

/-- `simple_converged_residual` applies to a complete run: two crossing segments from `(1/4, 1/4)`; the first step
    lands on the intersection `(1/2, 1/2)`, the second call of `evaluate_fn` returns `None`.  The visited points
    are `(1/4,1/4)` and `(1/2,1/2)`. -/
example : evalBary 55 ([0, 1] : List ℚ) (1 - 1/2) (1/2) - evalBary 55 ([0, 1] : List ℚ) (1 - 1/2) (1/2) = 0 ∧
    evalBary 55 ([0, 1] : List ℚ) (1 - 1/2) (1/2) - evalBary 55 ([1, 0] : List ℚ) (1 - 1/2) (1/2) = 0 := by
  have hrun : newtonIterate solverOf Py.cut id ((1 / 2 ^ 36) ^ 2 : ℚ) (newtonSimple 55 [[0, 1], [0, 1]] [[0, 1], [1, 0]])
      10 (1/4) (1/4) = .converged (1/2) (1/2) := by
    have : (match newtonIterate solverOf Py.cut id ((1 / 2 ^ 36) ^ 2 : ℚ)
        (newtonSimple 55 [[0, 1], [0, 1]] [[0, 1], [1, 0]]) 10 (1/4) (1/4) with
      | .converged a b => decide (a = 1/2 ∧ b = 1/2)
      | .failed _ _ => false) = true := by decide +kernel
    split at this
    · rename_i a b hab
      simp only [decide_eq_true_eq] at this
      rw [hab, this.1, this.2]
    · cases this
  have hreach : ∀ a b, Reach solverOf id (newtonSimple 55 ([[0, 1], [0, 1]] : List (List ℚ)) [[0, 1], [1, 0]]) (1/4) (1/4) a b →
      (a = 1/4 ∧ b = 1/4) ∨ (a = 1/2 ∧ b = 1/2) := by
    intro a b h
    induction h with
    | start => exact Or.inl ⟨rfl, rfl⟩
    | step _ hev hsol ih =>
      rcases ih with ⟨rfl, rfl⟩ | ⟨rfl, rfl⟩
      · rw [show newtonSimple 55 ([[0, 1], [0, 1]] : List (List ℚ)) [[0, 1], [1, 0]] (1/4) (1/4)
            = some ((1, -1, 1, 1), (0, -1/2)) by decide +kernel] at hev
        simp only [Option.some.injEq, Prod.mk.injEq] at hev
        obtain ⟨rfl, rfl⟩ := hev
        rw [show solverOf ((1 : ℚ), (-1 : ℚ), (1 : ℚ), (1 : ℚ)) ((0 : ℚ), (-1/2 : ℚ)) = some (-1/4, -1/4) by decide +kernel] at hsol
        simp only [Option.some.injEq, Prod.mk.injEq] at hsol
        obtain ⟨rfl, rfl⟩ := hsol
        right; constructor <;> norm_num
      · rw [show newtonSimple 55 ([[0, 1], [0, 1]] : List (List ℚ)) [[0, 1], [1, 0]] (1/2) (1/2) = none by decide +kernel] at hev
        cases hev
  have h := simple_converged_residual 55 ([0, 1] : List ℚ) [0, 1] [0, 1] [1, 0] (by decide) rfl (by decide) rfl
    0 0 (le_refl _) (le_refl _) (by simp [diffs]) (by simp [diffs]) (by simp [diffs]) (by simp [diffs])
    Py.cut ((1 / 2 ^ 36) ^ 2) (by positivity) 10 (1/4) (1/4) (1/2) (1/2) hrun
    (by intro a b hab; rcases hreach a b hab with ⟨rfl, rfl⟩ | ⟨rfl, rfl⟩ <;> norm_num)
  simp only [mul_zero, add_zero, abs_nonpos_iff] at h
  exact h

end BezierVerif.C02
