import BezierVerif.Lemmas.Pipeline

/-!
# C02 (pipeline part) — every parameter pair emitted by `all_intersections` lies in the unit square

Theorems about the executable model of the curve–curve pipeline (`Model/Geometric.lean`) for ANY record
`Prims K` of primitives satisfying the contract `Pipe.PrimsOK`:

* `wiggle_unit`   — `wiggle_interval` returns values of `[0,1]` when it succeeds,
* `inUnit_unit`   — `in_interval(v, 0, 1)` is only true for `v ∈ [0,1]`,
* `parallel_unit` — the parameters of `parallel_lines_parameters` lie in `[0,1]`,
* `locate_unit`   — a located parameter lies in `[0,1]`.

`params_in_unit_square` covers all exits: `check_lines`, the round loop (`endpoint_check`,
`from_linearized`), and `coincident_parameters`.
-/

namespace BezierVerif.C02

open Model BezierVerif Pipe

set_option linter.unusedSectionVars false

variable {K : Type} [Field K] [LinearOrder K] [IsStrictOrderedRing K]

/-! ### `add_intersection` only appends -/

/-- every element of the result is an old element or the new pair -/
theorem addIntersection_mem (G : GeoConsts K) (s t : K) (acc : List (K × K)) :
    ∀ p ∈ addIntersection G s t acc, p ∈ acc ∨ p = (s, t) :=
  Pipe.addIntersection_mem G s t acc

/-- the old accumulator is a prefix of the result (nothing is removed or reordered) -/
theorem addIntersection_sublist (G : GeoConsts K) (s t : K) (acc : List (K × K)) :
    acc <+: addIntersection G s t acc :=
  Pipe.addIntersection_prefix G s t acc

/-! ### the candidate invariant `0 ≤ start ≤ stop ≤ 1` -/

/-- `Linearization.from_shape` keeps the parameter interval -/
theorem fromShape_candOK (P : Prims K) (G : GeoConsts K) (c : Cand K)
    (h : 0 ≤ c.sub.start ∧ c.sub.start ≤ c.sub.stop ∧ c.sub.stop ≤ 1) :
    0 ≤ (fromShape P G c).sub.start ∧ (fromShape P G c).sub.start ≤ (fromShape P G c).sub.stop ∧
      (fromShape P G c).sub.stop ≤ 1 :=
  Pipe.fromShape_ok P G c h

/-- `subdivide()` splits the interval at its midpoint: both halves are sub-intervals of `[0,1]` -/
theorem subdivideCand_candOK (P : Prims K) (G : GeoConsts K) (c : Cand K)
    (h : 0 ≤ c.sub.start ∧ c.sub.start ≤ c.sub.stop ∧ c.sub.stop ≤ 1) :
    ∀ d ∈ subdivideCand P G c, 0 ≤ d.sub.start ∧ d.sub.start ≤ d.sub.stop ∧ d.sub.stop ≤ 1 :=
  Pipe.subdivideCand_ok P G c h

/-! ### the emitting routines -/

/-- `endpoint_check` emits `(1−s)·start + s·stop`, a point of the candidate's interval -/
theorem endpointCheck_unit (P : Prims K) (G : GeoConsts K) (first second : Cand K)
    (nf ns : List K) (s t : K) (acc : List (K × K))
    (h1 : CandOK first) (h2 : CandOK second) (hs : 0 ≤ s ∧ s ≤ 1) (ht : 0 ≤ t ∧ t ≤ 1)
    (hacc : ∀ p ∈ acc, 0 ≤ p.1 ∧ p.1 ≤ 1 ∧ 0 ≤ p.2 ∧ p.2 ≤ 1) :
    ∀ p ∈ endpointCheck P G first.sub nf s second.sub ns t acc, 0 ≤ p.1 ∧ p.1 ≤ 1 ∧ 0 ≤ p.2 ∧ p.2 ≤ 1 :=
  Pipe.endpointCheck_unit P G _ _ nf ns s t acc h1.start_unit h1.stop_unit h2.start_unit h2.stop_unit hs ht hacc

/-- `tangent_bbox_intersection` (four end-point pairs) -/
theorem tangentBbox_unit (P : Prims K) (G : GeoConsts K) (first second : Cand K) (acc : List (K × K))
    (h1 : CandOK first) (h2 : CandOK second)
    (hacc : ∀ p ∈ acc, 0 ≤ p.1 ∧ p.1 ≤ 1 ∧ 0 ≤ p.2 ∧ p.2 ≤ 1) :
    ∀ p ∈ tangentBbox P G first.sub second.sub acc, 0 ≤ p.1 ∧ p.1 ≤ 1 ∧ 0 ≤ p.2 ∧ p.2 ≤ 1 :=
  Pipe.tangentBbox_unit P G _ _ acc h1.start_unit h1.stop_unit h2.start_unit h2.stop_unit hacc

/-- `from_linearized` emits only wiggled values (no assumption on the candidates or on Newton) -/
theorem fromLinearized_unit (P : Prims K) (hP : PrimsOK P) (G : GeoConsts K) (o1 o2 : List (List K))
    (c1 : SubCurve K) (e1 : K) (c2 : SubCurve K) (e2 : K) (acc acc' : List (K × K))
    (h : fromLinearized P G o1 o2 c1 e1 c2 e2 acc = .ok acc')
    (hacc : ∀ p ∈ acc, 0 ≤ p.1 ∧ p.1 ≤ 1 ∧ 0 ≤ p.2 ∧ p.2 ≤ 1) :
    ∀ p ∈ acc', 0 ≤ p.1 ∧ p.1 ≤ 1 ∧ 0 ≤ p.2 ∧ p.2 ≤ 1 :=
  Pipe.fromLinearized_unit P hP G o1 o2 c1 e1 c2 e2 acc acc' h hacc

/-- `intersect_one_round`: the next candidates satisfy the invariant, the accumulator stays in the unit square -/
theorem intersectOneRound_unit (P : Prims K) (hP : PrimsOK P) (G : GeoConsts K) (o1 o2 : List (List K))
    (cands next : List (Cand K × Cand K)) (acc acc' : List (K × K))
    (h : intersectOneRound P G o1 o2 cands acc = .ok (next, acc'))
    (hc : ∀ pr ∈ cands, CandOK pr.1 ∧ CandOK pr.2)
    (hacc : ∀ p ∈ acc, 0 ≤ p.1 ∧ p.1 ≤ 1 ∧ 0 ≤ p.2 ∧ p.2 ≤ 1) :
    (∀ pr ∈ next, CandOK pr.1 ∧ CandOK pr.2) ∧ ∀ p ∈ acc', 0 ≤ p.1 ∧ p.1 ≤ 1 ∧ 0 ≤ p.2 ∧ p.2 ≤ 1 :=
  Pipe.intersectOneRound_unit P hP G o1 o2 cands next acc acc' h hc hacc

/-- `check_lines`: the segment parameters are guarded by `in_interval`, the parallel ones by the contract -/
theorem checkLines_unit (P : Prims K) (hP : PrimsOK P) (c1 c2 : Cand K) (pts : List (K × K)) (flag : Bool)
    (h : checkLines P c1 c2 = some (pts, flag)) : ∀ p ∈ pts, 0 ≤ p.1 ∧ p.1 ≤ 1 ∧ 0 ≤ p.2 ∧ p.2 ≤ 1 :=
  Pipe.checkLines_unit P hP c1 c2 pts flag h

/-- `coincident_parameters`: located parameters or the literals `0`, `1` -/
theorem coincidentParameters_unit (P : Prims K) (hP : PrimsOK P) (G : GeoConsts K) (n1 n2 : List (List K))
    (params : List (K × K)) (h : coincidentParameters P G n1 n2 = .ok (some params)) :
    ∀ p ∈ params, 0 ≤ p.1 ∧ p.1 ≤ 1 ∧ 0 ≤ p.2 ∧ p.2 ≤ 1 :=
  Pipe.coincidentParameters_unit P hP G n1 n2 params h

/-- the round loop from any state satisfying the invariants -/
theorem rounds_unit (P : Prims K) (hP : PrimsOK P) (G : GeoConsts K) (n1 n2 : List (List K))
    (fuel : ℕ) (cands : List (Cand K × Cand K)) (acc pts : List (K × K)) (flag : Bool)
    (h : allIntersections.rounds P G n1 n2 fuel cands acc = .ok (pts, flag))
    (hc : ∀ pr ∈ cands, CandOK pr.1 ∧ CandOK pr.2)
    (hacc : ∀ p ∈ acc, 0 ≤ p.1 ∧ p.1 ≤ 1 ∧ 0 ≤ p.2 ∧ p.2 ≤ 1) :
    ∀ p ∈ pts, 0 ≤ p.1 ∧ p.1 ≤ 1 ∧ 0 ≤ p.2 ∧ p.2 ≤ 1 :=
  Pipe.rounds_unit P hP G n1 n2 fuel cands acc pts flag h hc hacc

/-- **C02, unit square**: whenever `all_intersections` returns, through whichever exit, every returned
    parameter pair lies in `[0,1]²` -/
theorem params_in_unit_square (P : Prims K) (hP : PrimsOK P) (G : GeoConsts K) (n1 n2 : List (List K))
    (pts : List (K × K)) (flag : Bool) (h : allIntersections P G n1 n2 = .ok (pts, flag)) :
    ∀ p ∈ pts, 0 ≤ p.1 ∧ p.1 ≤ 1 ∧ 0 ≤ p.2 ∧ p.2 ≤ 1 :=
  Pipe.allIntersections_unit P hP G n1 n2 pts flag h

/-! ### non-vacuity -/

/-- the contract is satisfiable: a concrete record of primitives over `ℚ` -/
example : PrimsOK (stubPrims .intersection 1) := stubPrims_ok _ _

/-- exit `check_lines`: two crossing lines -/
example : allIntersections (stubPrims .intersection 1) (stubConsts 20 64) [[0, 1], [0, 1]] [[0, 1], [1, 0]]
    = .ok ([(1/2, 1/2)], false) := by decide +kernel

/-- exit through the round loop, `endpoint_check` (tangent boxes, shared end point) -/
example : allIntersections (stubPrims .tangent 1) (stubConsts 20 64) [[0, 1, 2], [0, 1, 0]] [[2, 3, 4], [0, 1, 0]]
    = .ok ([(1, 0)], false) := by decide +kernel

/-- exit through the round loop, `from_linearized` (both curves linearised with non-zero error) -/
example : allIntersections (stubPrims .intersection (1 / 2 ^ 60)) (stubConsts 20 64)
    [[0, 1, 2], [0, 1, 0]] [[2, 3, 4], [0, 1, 0]] = .ok ([(1/2, 1/2)], false) := by decide +kernel

/-- the theorem applied to a concrete successful run -/
example : ∀ p ∈ [((1 : ℚ), (0 : ℚ))], 0 ≤ p.1 ∧ p.1 ≤ 1 ∧ 0 ≤ p.2 ∧ p.2 ≤ 1 :=
  params_in_unit_square (stubPrims .tangent 1) (stubPrims_ok _ _) (stubConsts 20 64)
    [[0, 1, 2], [0, 1, 0]] [[2, 3, 4], [0, 1, 0]] _ false (by decide +kernel)

end BezierVerif.C02
