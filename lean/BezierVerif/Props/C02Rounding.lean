import BezierVerif.Lemmas.RoundingNewton
import BezierVerif.Props.C02Newton

/-!
# C02 (floating point) — one Newton step of the curve–curve intersection in rounded arithmetic

The model `Model.newtonSimple` / `Model.solve2x2` (`solverOf`) run on the number type `Fl F fl` (every operation followed
by a rounding `fl` with `|fl x − x| ≤ u·|x|`: `StdModel fl u`; comparisons are exact: `FlCmp`) against the same model
run in exact arithmetic.  `Near fl u k x̂ x X`: `|x̂ − x| ≤ ((1+u)^k − 1)·X` and `|x| ≤ X`.

* `Sys2`, `simpleSys`: the exact system `J·δ = F` of `NewtonSimpleRoot` at `(s, t)` with the scales of its six numbers
  (Bernstein sums of absolute values); `Sys2.pivotC`, `Sys2.pivotA`: the operands of the two branches of the partial
  pivoting of `solve2x2` as `ElimData` (exact intermediate quantities `ratio`, `den`, `x`, `y` and scales `xS`, `yS`);
* `newtonSimple_rounded`: the six numbers computed in rounded arithmetic are `Near` the exact ones with
  `k = 3·max(n₁, n₂) + 3` roundings;
* `solve2x2_rounded_pivotC`, `solve2x2_rounded_pivotA`: `solve2x2` on operands known with `k` roundings, in the branch
  it takes (`|Â| < |Ĉ|` or not, decided on the COMPUTED numbers), with the pivot and the eliminated denominator bounded
  away from zero by more than their own error: it does not report `singular`, and the solution carries `3k+7` / `2k+4`
  roundings relative to explicit scales;
* `newton_step_rounded`: one step `NewtonSimpleRoot` + `solve2x2` in rounded arithmetic, both branches;
  `exact_step_is_elim`: the quantities `x`, `y` of either branch ARE the exact Newton step returned by the exact model;
* `exit_test_rounded`, `exit_test_rounded_kappa`: the exit test `‖δ‖² < ratioSq·‖p‖²` evaluated in rounded arithmetic
  implies the exact test on the computed numbers with `ratioSq·(1+u)³/(1−u)²  ≤ (1 + 6u)·ratioSq`;
* `simple_exit_residual_fl`: floating-point version of `C02.simple_exit_residual`: at the small-step exit of a run in
  rounded arithmetic, the residual at the RETURNED point `fl (p₀ − δ̂)` is bounded by the second-order term of the exact
  step plus the Lipschitz constants times (step error + `u·|p₀ − δ̂|`), and the exact step obeys
  `‖δ‖² ≤ 2(1+6u)·ratioSq·‖p₀‖² + 2(ε_s² + ε_t²)`.
-/

namespace BezierVerif.C02

open Model BezierVerif Gate RNewton RNewton.FlCmp

set_option linter.unusedSectionVars false
set_option linter.unusedVariables false

variable {F : Type} [Field F] [LinearOrder F] [IsStrictOrderedRing F] {fl : F → F} {u : F}

/-! ### `solve2x2` in rounded arithmetic, both branches -/

/-- **`solve2x2`, branch `|Â| < |Ĉ|`** (decided on the computed numbers): the six operands are known with `k` roundings;
    the pivot `c` and the denominator `b − (a/c)·d` exceed their own rounding error by `mP`, `md > 0`.  Then the routine
    returns a pair, whose components carry `3k+7` and `2k+4` roundings relative to the scales `xS`, `yS` of
    `σ.pivotC mP md`. -/
theorem solve2x2_rounded_pivotC (S : StdModel fl u) (σ : Sys2 F) (mP md : F) {k : ℕ} {Ah Bh Ch Dh Eh Fh : Fl F fl}
    (hA : Near fl u k Ah σ.a σ.ab) (hB : Near fl u k Bh σ.b σ.bb) (hC : Near fl u k Ch σ.c σ.cb)
    (hD : Near fl u k Dh σ.d σ.db) (hE : Near fl u k Eh σ.e σ.eb) (hF : Near fl u k Fh σ.f σ.fb)
    (hbr : absK Ah < absK Ch)
    (hmP : 0 < mP) (hP : mP ≤ |σ.c| - ((1+u)^k - 1) * σ.cb)
    (hmd : 0 < md) (hd : md ≤ |(σ.pivotC mP md).den| - ((1+u)^(2*k+3) - 1) * (σ.pivotC mP md).denS) :
    ∃ xh yh, solve2x2 Ah Bh Ch Dh Eh Fh = some (xh, yh) ∧
      Near fl u (3*k+7) xh (σ.pivotC mP md).x (σ.pivotC mP md).xS ∧
      Near fl u (2*k+4) yh (σ.pivotC mP md).y (σ.pivotC mP md).yS := by
  rw [solve2x2_eq_elim, if_pos hbr]
  exact elimStep_near S (σ.pivotC mP md) hC hA hD hB hF hE hmP hP hmd hd

/-- **`solve2x2`, branch `|Â| ≥ |Ĉ|`**: pivot `a`, denominator `d − (c/a)·b` -/
theorem solve2x2_rounded_pivotA (S : StdModel fl u) (σ : Sys2 F) (mP md : F) {k : ℕ} {Ah Bh Ch Dh Eh Fh : Fl F fl}
    (hA : Near fl u k Ah σ.a σ.ab) (hB : Near fl u k Bh σ.b σ.bb) (hC : Near fl u k Ch σ.c σ.cb)
    (hD : Near fl u k Dh σ.d σ.db) (hE : Near fl u k Eh σ.e σ.eb) (hF : Near fl u k Fh σ.f σ.fb)
    (hbr : ¬ absK Ah < absK Ch)
    (hmP : 0 < mP) (hP : mP ≤ |σ.a| - ((1+u)^k - 1) * σ.ab)
    (hmd : 0 < md) (hd : md ≤ |(σ.pivotA mP md).den| - ((1+u)^(2*k+3) - 1) * (σ.pivotA mP md).denS) :
    ∃ xh yh, solve2x2 Ah Bh Ch Dh Eh Fh = some (xh, yh) ∧
      Near fl u (3*k+7) xh (σ.pivotA mP md).x (σ.pivotA mP md).xS ∧
      Near fl u (2*k+4) yh (σ.pivotA mP md).y (σ.pivotA mP md).yS := by
  have hne := (Near.val_ne_zero S hA hmP hP).1
  rw [solve2x2_eq_elim, if_neg hbr, if_neg (fun h => hne ((eq_zero_iff _).mp h))]
  exact elimStep_near S (σ.pivotA mP md) hA hC hB hD hE hF hmP hP hmd hd

/-- in either branch the exact quantities `(x, y)` are THE solution of the system: whatever branch the exact model
    takes, it returns them -/
theorem exact_step_is_elim (σ : Sys2 F) (δ : ElimData F) (hδ : ∃ mP md, δ = σ.pivotC mP md ∨ δ = σ.pivotA mP md)
    (hP : δ.P ≠ 0) (hd : δ.den ≠ 0) (ds dt : F)
    (hsol : solve2x2 σ.a σ.b σ.c σ.d σ.e σ.f = some (ds, dt)) : ds = δ.x ∧ dt = δ.y := by
  obtain ⟨e1, e2⟩ := Solve2x2.solve2x2_some _ _ _ _ _ _ ds dt hsol
  obtain ⟨mP, md, rfl | rfl⟩ := hδ
  · exact (σ.pivotC mP md).unique hP hd ds dt e2 e1
  · exact (σ.pivotA mP md).unique hP hd ds dt e1 e2

/-! ### the system of `NewtonSimpleRoot` in rounded arithmetic -/

/-- **`NewtonSimpleRoot.__call__` in rounded arithmetic**: planar nets of numbers of the arithmetic with `n₁+1`, `n₂+1`
    nodes, parameters `s`, `t` numbers of the arithmetic, binomials of the VS evaluation exact below the switch.  If the
    evaluation does not take the exact-zero exit, each of the six numbers it hands to `solve2x2` is within
    `k = 3·max(n₁,n₂) + 3` roundings of the corresponding number of the exact system `simpleSys`. -/
theorem newtonSimple_rounded (S : StdModel fl u) (thr : ℕ) (hbin : ∀ n, n + 1 ≤ thr → VSBinomExact fl n)
    (x1 y1 x2 y2 : List F) (hx1 : 2 ≤ x1.length) (hy1 : y1.length = x1.length) (hx2 : 2 ≤ x2.length)
    (hy2 : y2.length = x2.length) (s t : F) (lhsh : Fl F fl × Fl F fl × Fl F fl × Fl F fl) (rhsh : Fl F fl × Fl F fl)
    (hev : newtonSimple thr [x1.map Fl.mk, y1.map Fl.mk] [x2.map Fl.mk, y2.map Fl.mk] (⟨s⟩ : Fl F fl) ⟨t⟩
      = some (lhsh, rhsh)) :
    Near fl u (3 * max (x1.length - 1) (x2.length - 1) + 3) lhsh.1 (simpleSys thr x1 y1 x2 y2 s t).a
        (simpleSys thr x1 y1 x2 y2 s t).ab ∧
    Near fl u (3 * max (x1.length - 1) (x2.length - 1) + 3) lhsh.2.1 (simpleSys thr x1 y1 x2 y2 s t).b
        (simpleSys thr x1 y1 x2 y2 s t).bb ∧
    Near fl u (3 * max (x1.length - 1) (x2.length - 1) + 3) lhsh.2.2.1 (simpleSys thr x1 y1 x2 y2 s t).c
        (simpleSys thr x1 y1 x2 y2 s t).cb ∧
    Near fl u (3 * max (x1.length - 1) (x2.length - 1) + 3) lhsh.2.2.2 (simpleSys thr x1 y1 x2 y2 s t).d
        (simpleSys thr x1 y1 x2 y2 s t).db ∧
    Near fl u (3 * max (x1.length - 1) (x2.length - 1) + 3) rhsh.1 (simpleSys thr x1 y1 x2 y2 s t).e
        (simpleSys thr x1 y1 x2 y2 s t).eb ∧
    Near fl u (3 * max (x1.length - 1) (x2.length - 1) + 3) rhsh.2 (simpleSys thr x1 y1 x2 y2 s t).f
        (simpleSys thr x1 y1 x2 y2 s t).fb := by
  have hm1 : x1.length - 1 ≤ max (x1.length - 1) (x2.length - 1) := le_max_left _ _
  have hm2 : x2.length - 1 ≤ max (x1.length - 1) (x2.length - 1) := le_max_right _ _
  unfold newtonSimple at hev
  simp only [List.getD_cons_zero, List.getD_cons_succ] at hev
  split_ifs at hev with h0
  simp only [Option.some.injEq, Prod.mk.injEq] at hev
  obtain ⟨⟨rfl, rfl, rfl, rfl⟩, rfl, rfl⟩ := hev
  have ea := evalRow_derivNet_near S thr hbin x1 hx1 s
  have eb := (evalRow_derivNet_near S thr hbin x2 hx2 t).neg S
  have ec := evalRow_derivNet_near S thr hbin y1 (by omega) s
  have ed := (evalRow_derivNet_near S thr hbin y2 (by omega) t).neg S
  have ee := (evalRow_near S thr hbin x1 hx1 s).sub' S (evalRow_near S thr hbin x2 hx2 t)
  have ef := (evalRow_near S thr hbin y1 (by omega) s).sub' S (evalRow_near S thr hbin y2 (by omega) t)
  rw [evalRow_derivNet thr x1 hx1] at ea
  rw [evalRow_derivNet thr x2 hx2] at eb
  rw [evalRow_derivNet thr y1 (by omega)] at ec
  rw [evalRow_derivNet thr y2 (by omega)] at ed
  rw [hy1] at ec
  rw [hy2] at ed
  rw [hy1, hy2] at ef
  refine ⟨ea.mono S (by omega), eb.mono S (by omega), ec.mono S (by omega), ed.mono S (by omega),
    ee.mono S ?_, ef.mono S ?_⟩ <;>
  · have : max (3 * (x1.length - 1) + 2) (3 * (x2.length - 1) + 2)
        = 3 * max (x1.length - 1) (x2.length - 1) + 2 := by omega
    omega

/-- **one Newton step in rounded arithmetic** (`NewtonSimpleRoot` + `solve2x2`, both pivot branches).  `σ` the exact
    system at `(s, t)`, `k = 3·max(n₁,n₂) + 3`.  In the branch taken by the rounded computation, if the pivot and the
    eliminated denominator of the EXACT system exceed their rounding errors by `mP`, `md > 0`, the rounded solve succeeds
    and its result `(d̂s, d̂t)` is within `3k+7` / `2k+4` roundings of the exact step `(x, y)` of that branch, relative to
    the explicit scales `xS`, `yS`. -/
theorem newton_step_rounded (S : StdModel fl u) (thr : ℕ) (hbin : ∀ n, n + 1 ≤ thr → VSBinomExact fl n)
    (x1 y1 x2 y2 : List F) (hx1 : 2 ≤ x1.length) (hy1 : y1.length = x1.length) (hx2 : 2 ≤ x2.length)
    (hy2 : y2.length = x2.length) (s t : F) (lhsh : Fl F fl × Fl F fl × Fl F fl × Fl F fl) (rhsh : Fl F fl × Fl F fl)
    (hev : newtonSimple thr [x1.map Fl.mk, y1.map Fl.mk] [x2.map Fl.mk, y2.map Fl.mk] (⟨s⟩ : Fl F fl) ⟨t⟩
      = some (lhsh, rhsh)) (mP md : F) (hmP : 0 < mP) (hmd : 0 < md) :
    (absK lhsh.1 < absK lhsh.2.2.1 →
      mP ≤ |(simpleSys thr x1 y1 x2 y2 s t).c|
        - ((1+u)^(3 * max (x1.length - 1) (x2.length - 1) + 3) - 1) * (simpleSys thr x1 y1 x2 y2 s t).cb →
      md ≤ |((simpleSys thr x1 y1 x2 y2 s t).pivotC mP md).den|
        - ((1+u)^(2 * (3 * max (x1.length - 1) (x2.length - 1) + 3) + 3) - 1)
          * ((simpleSys thr x1 y1 x2 y2 s t).pivotC mP md).denS →
      ∃ dsh dth, solverOf lhsh rhsh = some (dsh, dth) ∧
        Near fl u (3 * (3 * max (x1.length - 1) (x2.length - 1) + 3) + 7) dsh
          ((simpleSys thr x1 y1 x2 y2 s t).pivotC mP md).x ((simpleSys thr x1 y1 x2 y2 s t).pivotC mP md).xS ∧
        Near fl u (2 * (3 * max (x1.length - 1) (x2.length - 1) + 3) + 4) dth
          ((simpleSys thr x1 y1 x2 y2 s t).pivotC mP md).y ((simpleSys thr x1 y1 x2 y2 s t).pivotC mP md).yS) ∧
    (¬ absK lhsh.1 < absK lhsh.2.2.1 →
      mP ≤ |(simpleSys thr x1 y1 x2 y2 s t).a|
        - ((1+u)^(3 * max (x1.length - 1) (x2.length - 1) + 3) - 1) * (simpleSys thr x1 y1 x2 y2 s t).ab →
      md ≤ |((simpleSys thr x1 y1 x2 y2 s t).pivotA mP md).den|
        - ((1+u)^(2 * (3 * max (x1.length - 1) (x2.length - 1) + 3) + 3) - 1)
          * ((simpleSys thr x1 y1 x2 y2 s t).pivotA mP md).denS →
      ∃ dsh dth, solverOf lhsh rhsh = some (dsh, dth) ∧
        Near fl u (3 * (3 * max (x1.length - 1) (x2.length - 1) + 3) + 7) dsh
          ((simpleSys thr x1 y1 x2 y2 s t).pivotA mP md).x ((simpleSys thr x1 y1 x2 y2 s t).pivotA mP md).xS ∧
        Near fl u (2 * (3 * max (x1.length - 1) (x2.length - 1) + 3) + 4) dth
          ((simpleSys thr x1 y1 x2 y2 s t).pivotA mP md).y ((simpleSys thr x1 y1 x2 y2 s t).pivotA mP md).yS) := by
  obtain ⟨hA, hB, hC, hD, hE, hF⟩ := newtonSimple_rounded S thr hbin x1 y1 x2 y2 hx1 hy1 hx2 hy2 s t lhsh rhsh hev
  constructor
  · intro hbr hP hd
    exact solve2x2_rounded_pivotC S _ mP md hA hB hC hD hE hF hbr hmP hP hmd hd
  · intro hbr hP hd
    exact solve2x2_rounded_pivotA S _ mP md hA hB hC hD hE hF hbr hmP hP hmd hd

/-- the exact model at the same point returns the `(x, y)` of either branch (they are the unique solution) -/
theorem exact_newton_step_is_elim (thr : ℕ) (x1 y1 x2 y2 : List F) (hx1 : 2 ≤ x1.length) (hy1 : y1.length = x1.length)
    (hx2 : 2 ≤ x2.length) (hy2 : y2.length = x2.length) (s t ds dt : F) (lhs : F × F × F × F) (rhs : F × F)
    (hev : newtonSimple thr [x1, y1] [x2, y2] s t = some (lhs, rhs)) (hsol : solverOf lhs rhs = some (ds, dt))
    (δ : ElimData F) (hδ : ∃ mP md, δ = (simpleSys thr x1 y1 x2 y2 s t).pivotC mP md ∨
      δ = (simpleSys thr x1 y1 x2 y2 s t).pivotA mP md) (hP : δ.P ≠ 0) (hd : δ.den ≠ 0) :
    ds = δ.x ∧ dt = δ.y := by
  obtain ⟨rfl, rfl⟩ := newtonSimple_some thr x1 y1 x2 y2 hx1 (by omega) hx2 (by omega) s t lhs rhs hev
  exact exact_step_is_elim (simpleSys thr x1 y1 x2 y2 s t) δ hδ hP hd ds dt hsol

/-! ### the exit test -/

/-- **the exit test in rounded arithmetic**: `ds·ds + dt·dt < ratioSq·(s·s + t·t)` evaluated in `Fl` (six roundings on the
    left and right together) implies the exact inequality between the computed numbers up to `(1+u)³/(1−u)²` -/
theorem exit_test_rounded (S : StdModel fl u) (hu1 : u ≤ 1) (r : F) (hr : 0 ≤ r) (dsh dth sh th : Fl F fl)
    (h : dsh * dsh + dth * dth < (⟨r⟩ : Fl F fl) * (sh * sh + th * th)) :
    (1 - u)^2 * (dsh.val * dsh.val + dth.val * dth.val)
      < (1 + u)^3 * (r * (sh.val * sh.val + th.val * th.val)) := by
  have hu := S.hu
  have lo := sumSq_fl_ge S hu1 dsh dth
  have hi := sumSq_fl_le S sh th
  have hN : 0 ≤ (sh * sh + th * th).val := by
    show 0 ≤ fl (fl (sh.val * sh.val) + fl (th.val * th.val))
    exact fl_nonneg S hu1 _ (add_nonneg (fl_nonneg S hu1 _ (mul_self_nonneg _)) (fl_nonneg S hu1 _ (mul_self_nonneg _)))
  have h' : (dsh * dsh + dth * dth).val < fl (r * (sh * sh + th * th).val) := h
  have hp := fl_le S (r * (sh * sh + th * th).val) (mul_nonneg hr hN)
  have h2 : r * (sh * sh + th * th).val ≤ r * ((1 + u)^2 * (sh.val * sh.val + th.val * th.val)) :=
    mul_le_mul_of_nonneg_left hi hr
  have h3 : (1 + u) * (r * (sh * sh + th * th).val)
      ≤ (1 + u) * (r * ((1 + u)^2 * (sh.val * sh.val + th.val * th.val))) :=
    mul_le_mul_of_nonneg_left h2 (by linarith)
  calc _ ≤ (dsh * dsh + dth * dth).val := lo
    _ < fl (r * (sh * sh + th * th).val) := h'
    _ ≤ (1 + u) * (r * ((1 + u)^2 * (sh.val * sh.val + th.val * th.val))) := le_trans hp h3
    _ = _ := by ring

/-- the factor in the form `1 + κu`, `κ = 6`, for `u ≤ 1/14` (binary64: `u = 2⁻⁵³`) -/
theorem exit_test_rounded_kappa (S : StdModel fl u) (hu14 : u ≤ 1 / 14) (r : F) (hr : 0 ≤ r) (dsh dth sh th : Fl F fl)
    (h : dsh * dsh + dth * dth < (⟨r⟩ : Fl F fl) * (sh * sh + th * th)) :
    dsh.val * dsh.val + dth.val * dth.val < (1 + 6 * u) * r * (sh.val * sh.val + th.val * th.val) := by
  have hu := S.hu
  have key := exit_test_rounded S (by linarith) r hr dsh dth sh th h
  have hR : 0 ≤ r * (sh.val * sh.val + th.val * th.val) :=
    mul_nonneg hr (add_nonneg (mul_self_nonneg _) (mul_self_nonneg _))
  have hfac : (1 + u)^3 ≤ (1 + 6 * u) * (1 - u)^2 := by nlinarith [mul_nonneg hu hu, mul_nonneg (mul_nonneg hu hu) hu]
  have hpos : 0 < (1 - u)^2 := by
    have : 0 < 1 - u := by linarith
    positivity
  have h1 : (1 - u)^2 * (dsh.val * dsh.val + dth.val * dth.val)
      < (1 - u)^2 * ((1 + 6 * u) * r * (sh.val * sh.val + th.val * th.val)) := by
    have := mul_le_mul_of_nonneg_right hfac hR
    calc _ < (1 + u)^3 * (r * (sh.val * sh.val + th.val * th.val)) := key
      _ ≤ (1 + 6 * u) * (1 - u)^2 * (r * (sh.val * sh.val + th.val * th.val)) := this
      _ = _ := by ring
  exact lt_of_mul_lt_mul_left h1 hpos.le

/-! ### the small-step exit of a run in rounded arithmetic -/

/-- **small-step exit, simple root, rounded arithmetic** (floating-point version of `C02.simple_exit_residual`).
    `p₀ = (s₀, t₀)` numbers of the arithmetic in the unit square; `(ds, dt)` the EXACT Newton step at `p₀` (exact model),
    `p₀ − δ` in the unit square; `(d̂s, d̂t)` the step computed in rounded arithmetic, `|d̂s − ds| ≤ εs`, `|d̂t − dt| ≤ εt`
    (`newton_step_rounded` + `exact_newton_step_is_elim` provide `εs = ((1+u)^(3k+7) − 1)·xS`, `εt = ((1+u)^(2k+4) − 1)·yS`);
    the exit test passes IN ROUNDED ARITHMETIC; the returned point `p̂' = (fl (s₀ − d̂s), fl (t₀ − d̂t))` lies in the unit
    square.  Then both coordinates of the residual at the returned point satisfy
    `|F(p̂')| ≤ ds²·C₁M₁ + dt²·C₂M₂ + (εs + u·|s₀ − d̂s|)·n₁D₁ + (εt + u·|t₀ − d̂t|)·n₂D₂`, and
    `ds² + dt² ≤ 2(1+6u)·ratioSq·(s₀² + t₀²) + 2(εs² + εt²)`. -/
theorem simple_exit_residual_fl (S : StdModel fl u) (hu14 : u ≤ 1 / 14) (thr : ℕ) (x1 y1 x2 y2 : List F)
    (hx1 : 2 ≤ x1.length) (hy1 : y1.length = x1.length) (hx2 : 2 ≤ x2.length) (hy2 : y2.length = x2.length)
    (M1 M2 D1 D2 : F)
    (hMx1 : ∀ d ∈ diffs (diffs x1), |d| ≤ M1) (hMy1 : ∀ d ∈ diffs (diffs y1), |d| ≤ M1)
    (hMx2 : ∀ d ∈ diffs (diffs x2), |d| ≤ M2) (hMy2 : ∀ d ∈ diffs (diffs y2), |d| ≤ M2)
    (hDx1 : ∀ d ∈ diffs x1, |d| ≤ D1) (hDy1 : ∀ d ∈ diffs y1, |d| ≤ D1)
    (hDx2 : ∀ d ∈ diffs x2, |d| ≤ D2) (hDy2 : ∀ d ∈ diffs y2, |d| ≤ D2)
    (r s₀ t₀ ds dt εs εt : F) (hr : 0 ≤ r) (lhs : F × F × F × F) (rhs : F × F)
    (hs0 : 0 ≤ s₀) (hs1 : s₀ ≤ 1) (ht0 : 0 ≤ t₀) (ht1 : t₀ ≤ 1)
    (hs0' : 0 ≤ s₀ - ds) (hs1' : s₀ - ds ≤ 1) (ht0' : 0 ≤ t₀ - dt) (ht1' : t₀ - dt ≤ 1)
    (hev : newtonSimple thr [x1, y1] [x2, y2] s₀ t₀ = some (lhs, rhs))
    (hsol : solverOf lhs rhs = some (ds, dt))
    (dsh dth : Fl F fl) (hεs : |dsh.val - ds| ≤ εs) (hεt : |dth.val - dt| ≤ εt)
    (hexit : dsh * dsh + dth * dth < (⟨r⟩ : Fl F fl) * ((⟨s₀⟩ : Fl F fl) * ⟨s₀⟩ + (⟨t₀⟩ : Fl F fl) * ⟨t₀⟩))
    (hrs0 : 0 ≤ ((⟨s₀⟩ : Fl F fl) - dsh).val) (hrs1 : ((⟨s₀⟩ : Fl F fl) - dsh).val ≤ 1)
    (hrt0 : 0 ≤ ((⟨t₀⟩ : Fl F fl) - dth).val) (hrt1 : ((⟨t₀⟩ : Fl F fl) - dth).val ≤ 1) :
    (|evalBary thr x1 (1 - ((⟨s₀⟩ : Fl F fl) - dsh).val) ((⟨s₀⟩ : Fl F fl) - dsh).val
        - evalBary thr x2 (1 - ((⟨t₀⟩ : Fl F fl) - dth).val) ((⟨t₀⟩ : Fl F fl) - dth).val| ≤
      ds^2 * ((((x1.length - 1) * (x1.length - 1 - 1) / 2 : ℕ) : F) * M1)
        + dt^2 * ((((x2.length - 1) * (x2.length - 1 - 1) / 2 : ℕ) : F) * M2)
        + (εs + u * |s₀ - dsh.val|) * (((x1.length - 1 : ℕ) : F) * D1)
        + (εt + u * |t₀ - dth.val|) * (((x2.length - 1 : ℕ) : F) * D2) ∧
     |evalBary thr y1 (1 - ((⟨s₀⟩ : Fl F fl) - dsh).val) ((⟨s₀⟩ : Fl F fl) - dsh).val
        - evalBary thr y2 (1 - ((⟨t₀⟩ : Fl F fl) - dth).val) ((⟨t₀⟩ : Fl F fl) - dth).val| ≤
      ds^2 * ((((x1.length - 1) * (x1.length - 1 - 1) / 2 : ℕ) : F) * M1)
        + dt^2 * ((((x2.length - 1) * (x2.length - 1 - 1) / 2 : ℕ) : F) * M2)
        + (εs + u * |s₀ - dsh.val|) * (((x1.length - 1 : ℕ) : F) * D1)
        + (εt + u * |t₀ - dth.val|) * (((x2.length - 1 : ℕ) : F) * D2)) ∧
    ds^2 + dt^2 ≤ 2 * ((1 + 6 * u) * r * (s₀ * s₀ + t₀ * t₀)) + 2 * (εs^2 + εt^2) := by
  have hu := S.hu
  obtain ⟨rfl, rfl⟩ := newtonSimple_some thr x1 y1 x2 y2 hx1 (by omega) hx2 (by omega) s₀ t₀ lhs rhs hev
  obtain ⟨gx, gy⟩ := newton_step_residual thr x1 y1 x2 y2 hx1 hy1 hx2 hy2 M1 M2 hMx1 hMy1 hMx2 hMy2
    s₀ t₀ ds dt hs0 hs1 ht0 ht1 hs0' hs1' ht0' ht1' hsol
  set sh' : F := ((⟨s₀⟩ : Fl F fl) - dsh).val with hsh'
  set th' : F := ((⟨t₀⟩ : Fl F fl) - dth).val with hth'
  have es : |sh' - (s₀ - ds)| ≤ εs + u * |s₀ - dsh.val| := by
    have e := S.hfl (s₀ - dsh.val)
    have : sh' - (s₀ - ds) = (fl (s₀ - dsh.val) - (s₀ - dsh.val)) - (dsh.val - ds) := by
      show fl (s₀ - dsh.val) - (s₀ - ds) = _
      ring
    rw [this]
    have tri := abs_sub (fl (s₀ - dsh.val) - (s₀ - dsh.val)) (dsh.val - ds)
    linarith
  have et : |th' - (t₀ - dt)| ≤ εt + u * |t₀ - dth.val| := by
    have e := S.hfl (t₀ - dth.val)
    have : th' - (t₀ - dt) = (fl (t₀ - dth.val) - (t₀ - dth.val)) - (dth.val - dt) := by
      show fl (t₀ - dth.val) - (t₀ - dt) = _
      ring
    rw [this]
    have tri := abs_sub (fl (t₀ - dth.val) - (t₀ - dth.val)) (dth.val - dt)
    linarith
  have hD1 : 0 ≤ D1 := by
    have hl := Lipschitz.diffs_length x1
    have hm : seq (diffs x1) 0 ∈ diffs x1 := seq_mem _ 0 (by omega)
    exact le_trans (abs_nonneg _) (hDx1 _ hm)
  have hD2 : 0 ≤ D2 := by
    have hl := Lipschitz.diffs_length x2
    have hm : seq (diffs x2) 0 ∈ diffs x2 := seq_mem _ 0 (by omega)
    exact le_trans (abs_nonneg _) (hDx2 _ hm)
  have hL1 : (0 : F) ≤ ((x1.length - 1 : ℕ) : F) * D1 := mul_nonneg (Nat.cast_nonneg _) hD1
  have hL2 : (0 : F) ≤ ((x2.length - 1 : ℕ) : F) * D2 := mul_nonneg (Nat.cast_nonneg _) hD2
  have px := newton_gate_partial thr x1 x2 hx1 hx2 D1 D2 hDx1 hDx2 (s₀ - ds) (t₀ - dt) sh' th'
    hs0' hs1' ht0' ht1' hrs0 hrs1 hrt0 hrt1
  have py := newton_gate_partial thr y1 y2 (by omega) (by omega) D1 D2 hDy1 hDy2 (s₀ - ds) (t₀ - dt) sh' th'
    hs0' hs1' ht0' ht1' hrs0 hrs1 hrt0 hrt1
  rw [hy1, hy2] at py
  have r1 := mul_le_mul_of_nonneg_right es hL1
  have r2 := mul_le_mul_of_nonneg_right et hL2
  refine ⟨⟨by linarith, by linarith⟩, ?_⟩
  have hk := exit_test_rounded_kappa S hu14 r hr dsh dth ⟨s₀⟩ ⟨t₀⟩ hexit
  simp only at hk
  have a1 : ds^2 ≤ 2 * (dsh.val * dsh.val) + 2 * εs^2 := by
    have h1 : (ds - dsh.val)^2 ≤ εs^2 := by
      rw [← sq_abs (ds - dsh.val), abs_sub_comm]
      exact pow_le_pow_left₀ (abs_nonneg _) hεs 2
    have key : ds^2 = 2 * (dsh.val * dsh.val) + 2 * (ds - dsh.val)^2 - (dsh.val - (ds - dsh.val))^2 := by ring
    linarith [sq_nonneg (dsh.val - (ds - dsh.val))]
  have a2 : dt^2 ≤ 2 * (dth.val * dth.val) + 2 * εt^2 := by
    have h1 : (dt - dth.val)^2 ≤ εt^2 := by
      rw [← sq_abs (dt - dth.val), abs_sub_comm]
      exact pow_le_pow_left₀ (abs_nonneg _) hεt 2
    have key : dt^2 = 2 * (dth.val * dth.val) + 2 * (dt - dth.val)^2 - (dth.val - (dt - dth.val))^2 := by ring
    linarith [sq_nonneg (dth.val - (dt - dth.val))]
  linarith

/-! ### non-vacuity (a rounding that is not the identity: `flDy`, `u = 2⁻¹⁰`, `ℚ`) -/

/-- the lines `(s, 0)` and `(1/2, t − 1/2)` at `(s, t) = (1/4, 1/4)`: the rounded evaluation does not take the exact-zero
    exit, the rounded `solve2x2` takes the branch with pivot `a`, the lower bounds hold with `mP = md = 1/2`, and
    `newton_step_rounded` applies: the rounded solve succeeds within `25` / `16` roundings of the exact step -/
example :
    ∃ lhsh rhsh dsh dth,
      newtonSimple 55 [([0, 1] : List ℚ).map Fl.mk, ([0, 0] : List ℚ).map Fl.mk]
        [([1/2, 1/2] : List ℚ).map Fl.mk, ([-1/2, 1/2] : List ℚ).map Fl.mk] (⟨1/4⟩ : Fl ℚ flDy) ⟨1/4⟩ = some (lhsh, rhsh) ∧
      solverOf lhsh rhsh = some (dsh, dth) ∧
      Near flDy (1/1024) 25 dsh ((simpleSys 55 [0, 1] [0, 0] [1/2, 1/2] [-1/2, 1/2] (1/4) (1/4)).pivotA (1/2) (1/2)).x
        ((simpleSys 55 [0, 1] [0, 0] [1/2, 1/2] [-1/2, 1/2] (1/4) (1/4)).pivotA (1/2) (1/2)).xS ∧
      Near flDy (1/1024) 16 dth ((simpleSys 55 [0, 1] [0, 0] [1/2, 1/2] [-1/2, 1/2] (1/4) (1/4)).pivotA (1/2) (1/2)).y
        ((simpleSys 55 [0, 1] [0, 0] [1/2, 1/2] [-1/2, 1/2] (1/4) (1/4)).pivotA (1/2) (1/2)).yS := by
  have hsome : (newtonSimple 55 [([0, 1] : List ℚ).map Fl.mk, ([0, 0] : List ℚ).map Fl.mk]
      [([1/2, 1/2] : List ℚ).map Fl.mk, ([-1/2, 1/2] : List ℚ).map Fl.mk] (⟨1/4⟩ : Fl ℚ flDy) ⟨1/4⟩).isSome = true := by
    decide +kernel
  obtain ⟨⟨lhsh, rhsh⟩, hev⟩ := Option.isSome_iff_exists.mp hsome
  have hbr : ¬ absK lhsh.1 < absK lhsh.2.2.1 := by
    have : (match newtonSimple 55 [([0, 1] : List ℚ).map Fl.mk, ([0, 0] : List ℚ).map Fl.mk]
        [([1/2, 1/2] : List ℚ).map Fl.mk, ([-1/2, 1/2] : List ℚ).map Fl.mk] (⟨1/4⟩ : Fl ℚ flDy) ⟨1/4⟩ with
        | some (l, _) => decide (absK l.1 < absK l.2.2.1)
        | none => true) = false := by decide +kernel
    rw [hev] at this
    simpa using this
  obtain ⟨dsh, dth, h1, h2, h3⟩ := (newton_step_rounded flDy_std 55 (fun n _ => flDy_vsBinomExact n)
    [0, 1] [0, 0] [1/2, 1/2] [-1/2, 1/2] (by decide) rfl (by decide) rfl (1/4) (1/4) lhsh rhsh hev (1/2) (1/2)
    (by norm_num) (by norm_num)).2 hbr (by decide +kernel) (by decide +kernel)
  exact ⟨lhsh, rhsh, dsh, dth, hev, h1, h2, h3⟩

end BezierVerif.C02
