import BezierVerif.Lemmas.TangentEnds
import BezierVerif.Lemmas.EvalBary

/-!
# C03 — no well-conditioned curve–curve intersection is missed or duplicated (component theorems)

Property theorems that need no model of the whole pipeline, about the geometric predicates on which
the subdivision prunes candidates:

* `box_disjoint_no_intersection`: strictly disjoint control-point boxes (any of the four separations
  tested by `bbox_intersect`) ⇒ the curves have no common point for parameters in `[0,1]²`; pruning
  a `DISJOINT` pair loses nothing;
* `tangent_only_endpoints`, `tangent_boxes_only_endpoints`: a coordinate attains the maximum / minimum of
  its control values only at `s ∈ {0,1}` unless *every* control value equals it; hence for boxes tangent
  along `x = c` and neither curve on that line, every intersection has `s ∈ {0,1}` and `t ∈ {0,1}`
  — what `tangent_bbox_intersection` relies on when it compares end points only;
* `tangent_degenerate_counterexample`: the side condition is necessary.  For the nets
  `[[0,0,0],[0,3,1]]` and `[[0,1,2],[1,2,1]]` (boxes tangent along `x = 0`, curve 1 on that line)
  `(s,t) = (1/5, 0)` is an intersection with `s ∉ {0,1}` — the crossing the library does not report.

All statements are about the executable model (`Model.evalBary`, `Model.evalPoint`).
-/

namespace BezierVerif.C03

open Model BezierVerif

variable {K : Type} [Field K] [LinearOrder K] [IsStrictOrderedRing K]

/-- one coordinate: every control value of row 1 is `≤ c`, every control value of row 2 is `> c`
    ⇒ the two coordinate functions never agree on `[0,1]²` -/
theorem separated_rows_never_equal (thr : ℕ) (r1 r2 : List K) (h1 : 2 ≤ r1.length) (h2 : 2 ≤ r2.length)
    (c : K) (hA : ∀ x ∈ r1, x ≤ c) (hB : ∀ y ∈ r2, c < y)
    (s t : K) (hs0 : 0 ≤ s) (hs1 : s ≤ 1) (ht0 : 0 ≤ t) (ht1 : t ≤ 1) :
    evalBary thr r1 (1 - s) s ≠ evalBary thr r2 (1 - t) t := by
  rw [Geo.evalBary_eq_evalDC thr r1 h1, Geo.evalBary_eq_evalDC thr r2 h2]
  exact disjoint_ranges_no_meet r1 r2 (r1.length - 1) (r2.length - 1) (by omega) (by omega) c hA hB
    s t hs0 hs1 ht0 ht1

/-- `bbox_intersect = DISJOINT` is safe: if the control-point boxes of two planar nets are strictly
    separated in one of the four ways the code tests (`right1 < left2`, `right2 < left1`, `top1 < bottom2`,
    `top2 < bottom1`; each written with a separating value `c`), then `B₁(s) ≠ B₂(t)` on `[0,1]²` -/
theorem box_disjoint_no_intersection (thr : ℕ) (x1 y1 x2 y2 : List K)
    (hx1 : 2 ≤ x1.length) (hy1 : 2 ≤ y1.length) (hx2 : 2 ≤ x2.length) (hy2 : 2 ≤ y2.length)
    (hsep : (∃ c, (∀ v ∈ x1, v ≤ c) ∧ (∀ w ∈ x2, c < w)) ∨ (∃ c, (∀ w ∈ x2, w ≤ c) ∧ (∀ v ∈ x1, c < v)) ∨
            (∃ c, (∀ v ∈ y1, v ≤ c) ∧ (∀ w ∈ y2, c < w)) ∨ (∃ c, (∀ w ∈ y2, w ≤ c) ∧ (∀ v ∈ y1, c < v)))
    (s t : K) (hs0 : 0 ≤ s) (hs1 : s ≤ 1) (ht0 : 0 ≤ t) (ht1 : t ≤ 1) :
    evalPoint thr [x1, y1] s ≠ evalPoint thr [x2, y2] t := by
  intro heq
  simp only [evalPoint, List.map_cons, List.map_nil, List.cons.injEq, and_true] at heq
  obtain ⟨ex, ey⟩ := heq
  rcases hsep with ⟨c, hA, hB⟩ | ⟨c, hA, hB⟩ | ⟨c, hA, hB⟩ | ⟨c, hA, hB⟩
  · exact separated_rows_never_equal thr x1 x2 hx1 hx2 c hA hB s t hs0 hs1 ht0 ht1 ex
  · exact separated_rows_never_equal thr x2 x1 hx2 hx1 c hA hB t s ht0 ht1 hs0 hs1 ex.symm
  · exact separated_rows_never_equal thr y1 y2 hy1 hy2 c hA hB s t hs0 hs1 ht0 ht1 ey
  · exact separated_rows_never_equal thr y2 y1 hy2 hy1 c hA hB t s ht0 ht1 hs0 hs1 ey.symm

/-- all control values `≤ c`, not all equal to `c`: the coordinate equals `c` only at `s ∈ {0,1}` -/
theorem tangent_only_endpoints (thr : ℕ) (row : List K) (h : 2 ≤ row.length) (c s : K)
    (hs0 : 0 ≤ s) (hs1 : s ≤ 1) (hle : ∀ x ∈ row, x ≤ c) (hk : ∃ x ∈ row, x < c)
    (htouch : evalBary thr row (1 - s) s = c) : s = 0 ∨ s = 1 := by
  rw [Geo.evalBary_eq_evalDC thr row h] at htouch
  exact TangentEnds.evalDC_touches_max_only_at_ends row (row.length - 1) (by omega) c s hs0 hs1 hle hk htouch

/-- mirrored: all control values `≥ c`, not all equal to `c` -/
theorem tangent_only_endpoints_min (thr : ℕ) (row : List K) (h : 2 ≤ row.length) (c s : K)
    (hs0 : 0 ≤ s) (hs1 : s ≤ 1) (hge : ∀ x ∈ row, c ≤ x) (hk : ∃ x ∈ row, c < x)
    (htouch : evalBary thr row (1 - s) s = c) : s = 0 ∨ s = 1 := by
  rw [Geo.evalBary_eq_evalDC thr row h] at htouch
  exact TangentEnds.evalDC_touches_min_only_at_ends row (row.length - 1) (by omega) c s hs0 hs1 hge hk htouch

/-- boxes tangent along the line `x = c` (`right1 = c = left2`) and neither curve lying on that line:
    every common point of the two coordinate functions — in particular every intersection of the
    curves — has `s ∈ {0,1}` and `t ∈ {0,1}`; comparing the four end-point pairs finds them all -/
theorem tangent_boxes_only_endpoints (thr : ℕ) (x1 x2 : List K) (h1 : 2 ≤ x1.length) (h2 : 2 ≤ x2.length)
    (c : K) (hle : ∀ v ∈ x1, v ≤ c) (hge : ∀ w ∈ x2, c ≤ w)
    (hnot1 : ∃ v ∈ x1, v < c) (hnot2 : ∃ w ∈ x2, c < w)
    (s t : K) (hs0 : 0 ≤ s) (hs1 : s ≤ 1) (ht0 : 0 ≤ t) (ht1 : t ≤ 1)
    (hmeet : evalBary thr x1 (1 - s) s = evalBary thr x2 (1 - t) t) :
    (s = 0 ∨ s = 1) ∧ (t = 0 ∨ t = 1) := by
  have b1 : evalBary thr x1 (1 - s) s ≤ c := by
    rw [Geo.evalBary_eq_evalDC thr x1 h1]
    exact TangentEnds.evalDC_le_of_forall_le x1 (x1.length - 1) (by omega) c s hs0 hs1 hle
  have b2 : c ≤ evalBary thr x2 (1 - t) t := by
    rw [Geo.evalBary_eq_evalDC thr x2 h2]
    exact TangentEnds.evalDC_ge_of_forall_ge x2 (x2.length - 1) (by omega) c t ht0 ht1 hge
  have e1 : evalBary thr x1 (1 - s) s = c := le_antisymm b1 (hmeet ▸ b2)
  have e2 : evalBary thr x2 (1 - t) t = c := hmeet ▸ e1
  exact ⟨tangent_only_endpoints thr x1 h1 c s hs0 hs1 hle hnot1 e1,
         tangent_only_endpoints_min thr x2 h2 c t ht0 ht1 hge hnot2 e2⟩

/-- planar form: two nets whose boxes are tangent along `x = c`, neither curve on that line:
    every intersection `B₁(s) = B₂(t)` in the unit square is a pair of end points -/
theorem tangent_boxes_intersections_are_endpoints (thr : ℕ) (x1 y1 x2 y2 : List K)
    (hx1 : 2 ≤ x1.length) (hx2 : 2 ≤ x2.length)
    (c : K) (hle : ∀ v ∈ x1, v ≤ c) (hge : ∀ w ∈ x2, c ≤ w)
    (hnot1 : ∃ v ∈ x1, v < c) (hnot2 : ∃ w ∈ x2, c < w)
    (s t : K) (hs0 : 0 ≤ s) (hs1 : s ≤ 1) (ht0 : 0 ≤ t) (ht1 : t ≤ 1)
    (hmeet : evalPoint thr [x1, y1] s = evalPoint thr [x2, y2] t) :
    (s = 0 ∨ s = 1) ∧ (t = 0 ∨ t = 1) := by
  simp only [evalPoint, List.map_cons, List.map_nil, List.cons.injEq, and_true] at hmeet
  exact tangent_boxes_only_endpoints thr x1 x2 hx1 hx2 c hle hge hnot1 hnot2 s t hs0 hs1 ht0 ht1 hmeet.1

/-- The hypothesis "not every control value equals `c`" of `tangent_boxes_only_endpoints` is necessary.
    Nets `[[0,0,0],[0,3,1]]` and `[[0,1,2],[1,2,1]]`: every x-value of curve 1 is `≤ 0`, every x-value of
    curve 2 is `≥ 0` (boxes tangent along `x = 0`), curve 2 is not on that line, `s = 1/5` and `t = 0` lie in
    `[0,1]`, the curves meet there — and `s ∉ {0, 1}`.  (Curve 1 lies on the line.)  This is the crossing
    that `tangent_bbox_intersection` does not report. -/
theorem tangent_degenerate_counterexample :
    (∀ v ∈ ([0, 0, 0] : List ℚ), v ≤ 0) ∧ (∀ w ∈ ([0, 1, 2] : List ℚ), 0 ≤ w) ∧ (∃ w ∈ ([0, 1, 2] : List ℚ), 0 < w) ∧
    evalPoint 55 [[0, 0, 0], [0, 3, 1]] (1/5 : ℚ) = evalPoint 55 [[0, 1, 2], [1, 2, 1]] (0 : ℚ) ∧
    ¬ ((1/5 : ℚ) = 0 ∨ (1/5 : ℚ) = 1) := by
  refine ⟨by decide +kernel, by decide +kernel, ⟨1, by decide +kernel, by decide +kernel⟩, by decide +kernel, by decide +kernel⟩

/-- the same witness through the de Casteljau evaluator -/
theorem tangent_degenerate_counterexample_dc :
    evalDC (1 - 1/5 : ℚ) (1/5) 2 [0, 0, 0] = evalDC (1 - 0 : ℚ) 0 2 [0, 1, 2] ∧
    evalDC (1 - 1/5 : ℚ) (1/5) 2 [0, 3, 1] = evalDC (1 - 0 : ℚ) 0 2 [1, 2, 1] := by
  constructor <;> decide +kernel

/-! ### non-vacuity -/

/-- disjoint boxes: the hypotheses of `box_disjoint_no_intersection` hold for a concrete pair -/
example : evalPoint 55 [[0, 1, 2], [0, 3, 0]] (1/2 : ℚ) ≠ evalPoint 55 [[3, 4], [0, 1]] (1/4 : ℚ) := by
  apply box_disjoint_no_intersection 55 _ _ _ _ (by decide) (by decide) (by decide) (by decide)
    (Or.inl ⟨2, by decide +kernel, by decide +kernel⟩) _ _ <;> norm_num

/-- tangent boxes, neither curve on the common line `x = 1`: the shared end point is found at end points -/
example : evalBary 55 ([0, 1/2, 1] : List ℚ) (1 - 1) 1 = evalBary 55 ([1, 3, 2] : List ℚ) (1 - 0) 0 := by
  decide +kernel
example (s t : ℚ) (hs0 : 0 ≤ s) (hs1 : s ≤ 1) (ht0 : 0 ≤ t) (ht1 : t ≤ 1)
    (h : evalBary 55 ([0, 1/2, 1] : List ℚ) (1 - s) s = evalBary 55 ([1, 3, 2] : List ℚ) (1 - t) t) :
    (s = 0 ∨ s = 1) ∧ (t = 0 ∨ t = 1) :=
  tangent_boxes_only_endpoints 55 _ _ (by decide) (by decide) 1 (by decide +kernel) (by decide +kernel)
    ⟨0, by decide +kernel, by decide +kernel⟩ ⟨3, by decide +kernel, by decide +kernel⟩ s t hs0 hs1 ht0 ht1 h

end BezierVerif.C03
