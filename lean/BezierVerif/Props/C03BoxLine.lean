import BezierVerif.Lemmas.CoverageBoxLine
import BezierVerif.Props.C03Coverage

/-!
# C03 (coverage part, mixed pairs) — what `bbox_line_intersect = DISJOINT` guarantees about the TRUE linearised piece

`intersect_one_round` drops a mixed pair (one linearised piece, one curve piece) when
`bbox_line_intersect(curve.nodes, chord of the linearised piece)` answers `DISJOINT`.  On a control box with interior that
answer means exactly "the closed chord misses the closed box" (`C16.bbox_line_intersect_disjoint_iff`).  The true
linearised piece, however, is only within its linearisation error `δ` of the chord (`Cover.ChordWithin thr δ nodes`, a
HYPOTHESIS here: the classical bound `δ = linearization_error(nodes) < _ERROR_VAL = 2⁻²⁶` is not proved in this
framework).  Hence:

* `bbox_line_disjoint_sound_partial` (+ `…_swapped_partial` for the other order of the pair): if the pair is dropped, every
  true intersection of the original curves in its rectangle has its point in the control box of the curve piece and within
  `δ` (max-norm) of the boundary of that box — the `δ`-collar `Cover.InCollar`.  This is the strongest statement that
  holds: the drop is NOT sound (`boxline_disjoint_loses_intersection`, an exact-arithmetic instance of the family of
  finding F-N `missed-crossing:endpoint-on-other-curve`, where the lost point is an end point of the curve piece and
  therefore on the boundary of its control box);
* `bbox_line_deep_point_kept`: contrapositive — an intersection whose point is at least `δ` inside the box is never dropped
  by this test;
* `bbox_line_disjoint_sound_line`: for a genuinely linear piece (two control points, `δ = 0`) the drop is sound.

Boxes without interior are excluded: there `bbox_line_intersect` itself misses hits
(`C16.bbox_line_intersect_degenerate_box_miss`, `C16.bbox_line_intersect_segment_box_miss`).
-/

namespace BezierVerif.C03

open Model BezierVerif Pipe Cover Predicates

set_option linter.unusedSectionVars false

variable {K : Type} [Field K] [LinearOrder K] [IsStrictOrderedRing K]

/-- **`bbox_line_intersect = DISJOINT`, quantitatively** (pair `(linearised, curve)`).  `c1` linearised, `c2` a curve piece,
    both faithful and planar; the control box `(l, r, b, t)` of `c2` has interior; every point of the true piece `c1` is
    within `δ` of its chord; the library's `bbox_line_intersect` answers `DISJOINT`, so `intersect_one_round` drops the pair.
    Then every true intersection `(s, t')` of the original curves in the rectangle of the pair has its point in the
    `δ`-collar of the box of `c2`: inside the box, and within `δ` of one of its four sides.

    FULL (soundness: "no true intersection lies in the rectangle of a dropped pair") is FALSE for `δ > 0`:
    `boxline_disjoint_loses_intersection`. -/
theorem bbox_line_disjoint_sound_partial (py : Bool) (C : PipelineConsts K) (thr : ℕ) (orig1 orig2 : List (List K))
    (c1 : SubCurve K) (e1 : K) (c2 : SubCurve K)
    (ha : CandInv thr orig1 (.lin c1 e1)) (hb : CandInv thr orig2 (.curve c2))
    (l r b t : K) (hbox : bbox c2.nodes = .ok (l, r, b, t)) (hlr : l < r) (hbt : b < t)
    (hdis : pairBox (concretePrims py C) (.lin c1 e1) (.curve c2) = .disjoint)
    (δ : K) (hch : ChordWithin thr δ c1.nodes)
    (s t' : K) (hc : Covers (Cand.lin c1 e1, Cand.curve c2) s t') (hi : TrueInt thr orig1 orig2 s t') :
    ∃ px py : K, evalPoint thr orig2 t' = [px, py] ∧ InCollar (l, r, b, t) δ (px, py) := by
  obtain ⟨σ, hσ0, hσ1, hσ⟩ := local_param c1.start c1.stop s ⟨hc.1, hc.2.1⟩
  obtain ⟨τ, hτ0, hτ1, hτ⟩ := local_param c2.start c2.stop t' ⟨hc.2.2.1, hc.2.2.2⟩
  have e1' : evalPoint thr c1.nodes σ = evalPoint thr orig1 s := by
    have := ha.1 σ; simp only [Cand.sub] at this; rw [this, hσ]
  have e2' : evalPoint thr c2.nodes τ = evalPoint thr orig2 t' := by
    have := hb.1 τ; simp only [Cand.sub] at this; rw [this, hτ]
  have hmeet : evalPoint thr c1.nodes σ = evalPoint thr c2.nodes τ := by rw [e1', e2']; exact hi.2.2.2.2
  obtain ⟨px, py, hp, hcol⟩ := boxLine_disjoint_collar thr c1.nodes c2.nodes hb.2 l r b t hbox hlr hbt hdis δ hch
    σ τ hσ0 hσ1 hτ0 hτ1 hmeet
  exact ⟨px, py, by rw [← e2']; exact hp, hcol⟩

/-- the other order of the pair: `(curve, linearised)`; the point is in the `δ`-collar of the box of the curve piece `c1` -/
theorem bbox_line_disjoint_sound_swapped_partial (py : Bool) (C : PipelineConsts K) (thr : ℕ) (orig1 orig2 : List (List K))
    (c1 : SubCurve K) (c2 : SubCurve K) (e2 : K)
    (ha : CandInv thr orig1 (.curve c1)) (hb : CandInv thr orig2 (.lin c2 e2))
    (l r b t : K) (hbox : bbox c1.nodes = .ok (l, r, b, t)) (hlr : l < r) (hbt : b < t)
    (hdis : pairBox (concretePrims py C) (.curve c1) (.lin c2 e2) = .disjoint)
    (δ : K) (hch : ChordWithin thr δ c2.nodes)
    (s t' : K) (hc : Covers (Cand.curve c1, Cand.lin c2 e2) s t') (hi : TrueInt thr orig1 orig2 s t') :
    ∃ px py : K, evalPoint thr orig1 s = [px, py] ∧ InCollar (l, r, b, t) δ (px, py) := by
  obtain ⟨σ, hσ0, hσ1, hσ⟩ := local_param c1.start c1.stop s ⟨hc.1, hc.2.1⟩
  obtain ⟨τ, hτ0, hτ1, hτ⟩ := local_param c2.start c2.stop t' ⟨hc.2.2.1, hc.2.2.2⟩
  have e1' : evalPoint thr c1.nodes σ = evalPoint thr orig1 s := by
    have := ha.1 σ; simp only [Cand.sub] at this; rw [this, hσ]
  have e2' : evalPoint thr c2.nodes τ = evalPoint thr orig2 t' := by
    have := hb.1 τ; simp only [Cand.sub] at this; rw [this, hτ]
  have hmeet : evalPoint thr c2.nodes τ = evalPoint thr c1.nodes σ := by rw [e1', e2']; exact hi.2.2.2.2.symm
  obtain ⟨px, py, hp, hcol⟩ := boxLine_disjoint_collar thr c2.nodes c1.nodes ha.2 l r b t hbox hlr hbt hdis δ hch
    τ σ hτ0 hτ1 hσ0 hσ1 hmeet
  exact ⟨px, py, by rw [← e1']; exact hp, hcol⟩

/-- contrapositive: a true intersection whose point lies at least `δ` inside the control box of the curve piece is never
    dropped by `bbox_line_intersect` -/
theorem bbox_line_deep_point_kept (py : Bool) (C : PipelineConsts K) (thr : ℕ) (orig1 orig2 : List (List K))
    (c1 : SubCurve K) (e1 : K) (c2 : SubCurve K)
    (ha : CandInv thr orig1 (.lin c1 e1)) (hb : CandInv thr orig2 (.curve c2))
    (l r b t : K) (hbox : bbox c2.nodes = .ok (l, r, b, t)) (hlr : l < r) (hbt : b < t)
    (δ : K) (hch : ChordWithin thr δ c1.nodes)
    (s t' : K) (hc : Covers (Cand.lin c1 e1, Cand.curve c2) s t') (hi : TrueInt thr orig1 orig2 s t')
    (qx qy : K) (hp : evalPoint thr orig2 t' = [qx, qy])
    (hdeep : l + δ ≤ qx ∧ qx ≤ r - δ ∧ b + δ ≤ qy ∧ qy ≤ t - δ) :
    pairBox (concretePrims py C) (.lin c1 e1) (.curve c2) ≠ .disjoint := by
  intro hdis
  obtain ⟨px, py', hq, _, hcol⟩ := bbox_line_disjoint_sound_partial py C thr orig1 orig2 c1 e1 c2 ha hb l r b t hbox hlr hbt
    hdis δ hch s t' hc hi
  have e : [qx, qy] = [px, py'] := by rw [← hp, ← hq]
  simp only [List.cons.injEq, and_true] at e
  obtain ⟨rfl, rfl⟩ := e
  rcases hcol with h | h | h | h <;> simp only at h <;> linarith [hdeep.1, hdeep.2.1, hdeep.2.2.1, hdeep.2.2.2]

/-- a genuinely linear piece (`2 × 2` net: the piece IS its chord) against a control box with interior: the drop is sound -/
theorem bbox_line_disjoint_sound_line (py : Bool) (C : PipelineConsts K) (thr : ℕ) (orig1 orig2 : List (List K))
    (x0 x1 y0 y1 a0 a1 e1 : K) (c2 : SubCurve K)
    (ha : CandInv thr orig1 (.lin { nodes := [[x0, x1], [y0, y1]], start := a0, stop := a1 } e1))
    (hb : CandInv thr orig2 (.curve c2))
    (l r b t : K) (hbox : bbox c2.nodes = .ok (l, r, b, t)) (hlr : l < r) (hbt : b < t)
    (hdis : pairBox (concretePrims py C) (.lin { nodes := [[x0, x1], [y0, y1]], start := a0, stop := a1 } e1) (.curve c2)
      = .disjoint)
    (s t' : K) (hi : TrueInt thr orig1 orig2 s t') :
    ¬ Covers (Cand.lin { nodes := [[x0, x1], [y0, y1]], start := a0, stop := a1 } e1, Cand.curve c2) s t' := by
  intro hc
  obtain ⟨px, py, _, hin, hcol⟩ := bbox_line_disjoint_sound_partial py C thr orig1 orig2 _ e1 c2 ha hb l r b t hbox hlr hbt
    hdis 0 (chordWithin_line thr x0 x1 y0 y1) s t' hc hi
  obtain ⟨h1, h2, h3, h4⟩ := hin
  rcases hcol with h | h | h | h <;> simp only at h h1 h2 h3 h4 <;> linarith

/-! ### decided example (`ℚ`, the library's primitives and constants): the drop loses an intersection -/

/-- **the drop is not sound.**  Curve 1: net `[[0,1,2],[0,ε,0]]`, `ε = 2⁻²⁶` — the flat parabola `(2s, 2εs(1−s))`, whose
    squared linearisation error `ε²/4 = 2⁻⁵⁴` is below `_ERROR_VAL² = 2⁻⁵²`, so `from_shape` linearises it; its chord is
    the segment `y = 0`.  Curve 2: net `[[1,1/2,3/2],[ε/2,1,1]]`, starting at `(1, ε/2) = B₁(1/2)` (an end point of curve 2 in
    the interior of curve 1: the situation of finding F-N); control box `[1/2,3/2] × [ε/2,1]`, with interior.  The chord
    misses the box, `bbox_line_intersect` answers `DISJOINT`, the round returns no candidate and no intersection, and the
    true intersection `(1/2, 0)` is lost.  Its point `(1, ε/2)` lies on the bottom side of the box — in the `δ`-collar
    for every `δ > 0`, in agreement with `bbox_line_disjoint_sound_partial`; and curve 1 is within `ε/2` of its chord. -/
theorem boxline_disjoint_loses_intersection :
    let ε : ℚ := 1 / 2 ^ 26
    let n1 : List (List ℚ) := [[0, 1, 2], [0, ε, 0]]
    let n2 : List (List ℚ) := [[1, 1/2, 3/2], [ε / 2, 1, 1]]
    let c1 : Cand ℚ := fromShape (concretePrims true exConsts) exConsts.geo (.curve { nodes := n1, start := 0, stop := 1 })
    let c2 : Cand ℚ := .curve { nodes := n2, start := 0, stop := 1 }
    c1.isLin = true ∧ c2 = fromShape (concretePrims true exConsts) exConsts.geo c2 ∧
    bbox n2 = .ok (1/2, 3/2, ε / 2, 1) ∧
    pairBox (concretePrims true exConsts) c1 c2 = .disjoint ∧
    intersectOneRound (concretePrims true exConsts) exConsts.geo n1 n2 [(c1, c2)] [] = .ok ([], []) ∧
    TrueInt 55 n1 n2 (1/2) 0 ∧ Covers (c1, c2) (1/2) 0 ∧ evalPoint 55 n2 0 = [1, ε / 2] ∧
    ChordWithin 55 (ε / 2) n1 ∧ ∀ δ : ℚ, 0 < δ → InCollar (1/2, 3/2, ε / 2, 1) δ (1, ε / 2) := by
  intro ε n1 n2 c1 c2
  have hdis : pairBox (concretePrims true exConsts) c1 c2 = .disjoint := by decide +kernel
  refine ⟨by decide +kernel, ?_, by decide +kernel, hdis, ?_,
    ⟨by norm_num, by norm_num, by norm_num, by norm_num, by decide +kernel⟩, ?_, by decide +kernel, ?_, ?_⟩
  · have : (fromShape (concretePrims true exConsts) exConsts.geo c2).isLin = false := by decide +kernel
    revert this
    simp only [c2, fromShape]
    split_ifs <;> simp [Cand.isLin]
  · rw [intersectOneRound_single, intersectPair_disjoint _ _ _ _ c1 c2 [] hdis]
    rfl
  · have hs : c1.sub = { nodes := n1, start := 0, stop := 1 } := fromShape_sub _ _ _
    show c1.sub.start ≤ 1/2 ∧ 1/2 ≤ c1.sub.stop ∧ c2.sub.start ≤ 0 ∧ 0 ≤ c2.sub.stop
    rw [hs]
    simp only [c2, Cand.sub]
    norm_num
  · intro σ h0 h1
    have hx : evalBary 55 [0, 1, 2] (1 - σ) σ = 2 * σ := by
      rw [evalBary_unit_bern 55 [0, 1, 2] (by simp) σ]
      simp [seq, bern, Finset.sum_range_succ, Nat.choose]
      ring
    have hy : evalBary 55 [0, ε, 0] (1 - σ) σ = 2 * ε * σ * (1 - σ) := by
      rw [evalBary_unit_bern 55 [0, ε, 0] (by simp) σ]
      simp [seq, bern, Finset.sum_range_succ, Nat.choose]
      ring
    have hε : (0 : ℚ) < ε := by norm_num [ε]
    have cS : chordS n1 = (0, 0) := by simp [n1, chordS, firstNode, ptOf, seq]
    have cE : chordE n1 = (2, 0) := by simp [n1, chordE, lastNode, ptOf, seq]
    refine ⟨σ, h0, h1, 2 * σ, 2 * ε * σ * (1 - σ), by simp [n1, evalPoint, hx, hy], ?_, ?_⟩
    · rw [cS, cE]
      have : 2 * σ - (((0 : ℚ), (0 : ℚ)).1 + σ * (((2 : ℚ), (0 : ℚ)).1 - ((0 : ℚ), (0 : ℚ)).1)) = 0 := by
        simp only; ring
      rw [this, abs_zero]
      linarith
    · rw [cS, cE]
      have : 2 * ε * σ * (1 - σ) - (((0 : ℚ), (0 : ℚ)).2 + σ * (((2 : ℚ), (0 : ℚ)).2 - ((0 : ℚ), (0 : ℚ)).2))
          = 2 * ε * σ * (1 - σ) := by simp only; ring
      rw [this, abs_le]
      constructor
      · nlinarith [mul_nonneg hε.le (mul_nonneg h0 (sub_nonneg.mpr h1))]
      · nlinarith [mul_nonneg hε.le (sq_nonneg (σ - 1/2))]
  · intro δ hδ
    refine ⟨⟨by norm_num, by norm_num, le_refl _, by norm_num [ε]⟩, ?_⟩
    right; right; left
    show ε / 2 < ε / 2 + δ
    linarith

end BezierVerif.C03
