import BezierVerif.Lemmas.Coverage
import BezierVerif.Props.C03

/-!
# C03 (coverage part) — an EXACT pruning step never loses a true intersection

Vocabulary (`Lemmas/Coverage.lean`, namespace `Cover`): `TrueInt thr n1 n2 s t` — `(s,t) ∈ [0,1]²` with
`B₁(s) = B₂(t)` for the ORIGINAL nets; `Covers (a, b) s t` — the parameter rectangle of the candidate pair
contains `(s,t)`; `Faithful thr orig c` — the nodes of the candidate are the original curve reparametrised to
`[start, stop]`; `Planar` — two rows of at least two nodes; `CandInv = Faithful ∧ Planar`.

* `subdivision_covers`: the midpoint split of both candidates (closed intervals) keeps every covered
  parameter pair covered — any primitives;
* `subdivision_faithful`: the halves produced by `subdivide_nodes` (Python matrices or Fortran closed forms /
  generic loop: `concretePrims py C`) are again faithful (from `C04.subdivide_left_correct`,
  `C04.subdivide_right_correct`, `C04.subdivide_variants_agree`) and planar;
* `box_disjoint_sound`: a faithful pair covering a true intersection is never declared `DISJOINT` by the exact
  box test `bbox_intersect` on the candidates' nodes (`C03.box_disjoint_no_intersection`);
* `exact_round_eq`, `coverage_invariant_partial`: for a round of `intersect_one_round` in which every pair is
  decided by `bbox_intersect` alone, every true intersection covered before the round is covered after it,
  and the candidate invariant is preserved;
* `coverage_exact_rounds_partial`: the same over any number of such rounds.
-/

namespace BezierVerif.C03

open Model BezierVerif Pipe Cover

set_option linter.unusedSectionVars false

variable {K : Type} [Field K] [LinearOrder K] [IsStrictOrderedRing K]

/-! ### subdivision -/

/-- **subdivision covers**: if the rectangle of `(a, b)` contains `(s, t)` then so does the rectangle of one
    of the pairs `subdivide(a) × subdivide(b)` formed by `intersect_one_round` (a linearised candidate is kept
    whole, a curve is split at the midpoint; closed intervals, so the midpoint belongs to both halves) -/
theorem subdivision_covers (P : Prims K) (G : GeoConsts K) (a b : Cand K) (s t : K)
    (h : Covers (a, b) s t) : ∃ pr ∈ subdividePairs P G a b, Covers pr s t :=
  subdividePairs_covers P G a b s t h

/-- **subdivision is faithful**: with the concrete `subdivide_nodes` (either implementation) every piece of a
    faithful planar candidate is a faithful planar candidate of the same original curve -/
theorem subdivision_faithful (py : Bool) (C : PipelineConsts K) (G : GeoConsts K) (thr : ℕ)
    (orig : List (List K)) (c : Cand K) (h : CandInv thr orig c) :
    ∀ d ∈ subdivideCand (concretePrims py C) G c, CandInv thr orig d := by
  obtain ⟨hf, hp⟩ := h
  cases c with
  | lin c e =>
    intro d hd
    simp only [subdivideCand, List.mem_singleton] at hd
    subst hd
    exact ⟨hf, hp⟩
  | curve c =>
    simp only [Cand.sub] at hp
    have hsub : (concretePrims py C).subdivide c.nodes = subdivideOf py c.nodes := rfl
    obtain ⟨pl, pr⟩ := subdivide_planar py c.nodes hp
    intro d hd
    simp only [subdivideCand, List.mem_cons, List.not_mem_nil, or_false] at hd
    rcases hd with rfl | rfl
    · refine ⟨faithful_fromShape _ _ thr orig _ ?_, by rw [fromShape_sub]; exact hsub ▸ pl⟩
      intro σ
      simp only [Cand.sub]
      rw [hsub, subdivide_left_eval py thr c.nodes hp.2 σ]
      have := hf (σ / 2)
      simp only [Cand.sub] at this
      rw [this]
      congr 1
      rw [half_eq]; ring
    · refine ⟨faithful_fromShape _ _ thr orig _ ?_, by rw [fromShape_sub]; exact hsub ▸ pr⟩
      intro σ
      simp only [Cand.sub]
      rw [hsub, subdivide_right_eval py thr c.nodes hp.2 σ]
      have := hf ((1 + σ) / 2)
      simp only [Cand.sub] at this
      rw [this]
      congr 1
      rw [half_eq]; ring

/-! ### the exact box test -/

/-- **box-disjoint is sound**: `a`, `b` faithful planar candidates of `orig1`, `orig2` whose rectangle contains a
    true intersection `(s, t)` of the original curves.  Then `bbox_intersect(a.nodes, b.nodes)` — the exact test
    used by `concretePrims` — does not answer `DISJOINT`: `B₁(s)` lies in the box of `a`, `B₂(t) = B₁(s)` in the
    box of `b`. -/
theorem box_disjoint_sound (py : Bool) (C : PipelineConsts K) (thr : ℕ) (orig1 orig2 : List (List K))
    (a b : Cand K) (ha : CandInv thr orig1 a) (hb : CandInv thr orig2 b) (s t : K)
    (hc : Covers (a, b) s t) (hi : TrueInt thr orig1 orig2 s t) :
    (concretePrims py C).bboxIntersect a.sub.nodes b.sub.nodes ≠ .disjoint := by
  intro hdis
  obtain ⟨x1, y1, e1, hx1, hy1⟩ := planar_shape _ ha.2
  obtain ⟨x2, y2, e2, hx2, hy2⟩ := planar_shape _ hb.2
  obtain ⟨σ, hσ0, hσ1, hσ⟩ := local_param a.sub.start a.sub.stop s ⟨hc.1, hc.2.1⟩
  obtain ⟨τ, hτ0, hτ1, hτ⟩ := local_param b.sub.start b.sub.stop t ⟨hc.2.2.1, hc.2.2.2⟩
  have hmeet : evalPoint thr [x1, y1] σ = evalPoint thr [x2, y2] τ := by
    rw [← e1, ← e2, ha.1 σ, hb.1 τ, hσ, hτ]
    exact hi.2.2.2.2
  have hdis' : boxKindOf (bboxIntersect [x1, y1] [x2, y2]) = .disjoint := by
    rw [← e1, ← e2]; exact hdis
  have hsep := boxKind_disjoint_sep x1 y1 x2 y2 (by omega) (by omega) (by omega) (by omega) hdis'
  exact box_disjoint_no_intersection thr x1 y1 x2 y2 hx1 hy1 hx2 hy2 hsep σ τ hσ0 hσ1 hτ0 hτ1 hmeet

/-! ### one round of `intersect_one_round` -/

/-- a round in which every candidate pair is decided by the exact box test alone (`Cover.ExactPair`: two curves
    with non-tangent boxes, or two linearisations with disjoint boxes) never fails, does not touch the
    accumulator, drops the box-disjoint pairs and subdivides the others -/
theorem exact_round_eq (P : Prims K) (G : GeoConsts K) (o1 o2 : List (List K))
    (cands : List (Cand K × Cand K)) (acc : List (K × K)) (h : ∀ pr ∈ cands, ExactPair P pr) :
    intersectOneRound P G o1 o2 cands acc = .ok (cands.flatMap (exactStep P G), acc) :=
  intersectOneRound_exact P G o1 o2 cands acc h

/-- **coverage invariant, exact steps**.  Round function `intersect_one_round` with the concrete primitives.
    Hypothesis on the round, stated explicitly: every candidate pair is an `ExactPair`, i.e. NO pair is handed to
    `tangent_bbox_intersection`, to `bbox_line_intersect` (mixed curve / linearisation pairs) or to
    `from_linearized` in this round.  Then
    * the candidate invariant (faithful, planar) passes to every candidate of the next round,
    * nothing is emitted (`acc' = acc`),
    * every true intersection of the original curves covered by some candidate pair before the round is covered
      by some candidate pair after it.

    FULL: the same for an arbitrary round, with "covered after the round OR within the de-duplication distance of
    an emitted pair of `acc'`" as conclusion.  The remaining gap is exactly the three approximate hand-off steps:
    * `tangentBbox` (`tangent_bbox_intersection`) — compares END POINTS only; sound when neither curve lies on
      the common tangent line (`C03.tangent_only_endpoints`, `C03.tangent_boxes_only_endpoints`), unsound otherwise
      (`C03.tangent_degenerate_counterexample`; finding `tangent-bbox:curve-on-axis-parallel-line`);
    * `bboxLineIntersect` (`bbox_line_intersect`) — tests the CHORD of the linearised piece against three edges of
      the other piece's box, although the true piece only lies within `linearization_error` of its chord
      (finding `missed-crossing:endpoint-on-other-curve`; `C16.bbox_line_intersect_*_miss`);
    * `fromLinearized` (`from_linearized`) — segment intersection / hull test, then Newton's method on the original
      curves (`C02.simple_converged_residual`; no guarantee through the double-root exit:
      `C02.double_root_exit_no_bound_counterexample`), `wiggle_interval` and `add_intersection`.
    These are the places where the listed C03 findings live. -/
theorem coverage_invariant_partial (py : Bool) (C : PipelineConsts K) (G : GeoConsts K) (thr : ℕ)
    (orig1 orig2 : List (List K)) (cands next : List (Cand K × Cand K)) (acc acc' : List (K × K))
    (hround : intersectOneRound (concretePrims py C) G orig1 orig2 cands acc = .ok (next, acc'))
    (hexact : ∀ pr ∈ cands, ExactPair (concretePrims py C) pr)
    (hinv : ∀ pr ∈ cands, CandInv thr orig1 pr.1 ∧ CandInv thr orig2 pr.2) :
    (∀ pr ∈ next, CandInv thr orig1 pr.1 ∧ CandInv thr orig2 pr.2) ∧ acc' = acc ∧
    ∀ s t, TrueInt thr orig1 orig2 s t → (∃ pr ∈ cands, Covers pr s t) → ∃ pr ∈ next, Covers pr s t := by
  rw [exact_round_eq _ G orig1 orig2 cands acc hexact] at hround
  simp only [Except.ok.injEq, Prod.mk.injEq] at hround
  obtain ⟨rfl, rfl⟩ := hround
  refine ⟨?_, rfl, ?_⟩
  · intro q hq
    obtain ⟨pr, hpr, hq⟩ := List.mem_flatMap.mp hq
    unfold exactStep at hq
    split_ifs at hq with hd
    · cases hq
    · obtain ⟨h1, h2⟩ := (mem_subdividePairs _ G pr.1 pr.2 q).mp hq
      exact ⟨subdivision_faithful py C G thr orig1 pr.1 (hinv pr hpr).1 q.1 h1,
        subdivision_faithful py C G thr orig2 pr.2 (hinv pr hpr).2 q.2 h2⟩
  · rintro s t hi ⟨pr, hpr, hcov⟩
    have hnd := box_disjoint_sound py C thr orig1 orig2 pr.1 pr.2 (hinv pr hpr).1 (hinv pr hpr).2 s t hcov hi
    obtain ⟨q, hq, hqc⟩ := subdivision_covers (concretePrims py C) G pr.1 pr.2 s t hcov
    refine ⟨q, List.mem_flatMap.mpr ⟨pr, hpr, ?_⟩, hqc⟩
    unfold exactStep
    rw [if_neg hnd]
    exact hq

/-- any number of consecutive exact rounds: a true intersection covered at the beginning is covered at the end -/
theorem coverage_exact_rounds_partial (py : Bool) (C : PipelineConsts K) (G : GeoConsts K) (thr : ℕ)
    (orig1 orig2 : List (List K)) (s t : K) (hi : TrueInt thr orig1 orig2 s t) :
    ∀ (k : ℕ) (cs : ℕ → List (Cand K × Cand K)) (as : ℕ → List (K × K)),
      (∀ i < k, intersectOneRound (concretePrims py C) G orig1 orig2 (cs i) (as i) = .ok (cs (i + 1), as (i + 1))) →
      (∀ i < k, ∀ pr ∈ cs i, ExactPair (concretePrims py C) pr) →
      (∀ pr ∈ cs 0, CandInv thr orig1 pr.1 ∧ CandInv thr orig2 pr.2) →
      (∃ pr ∈ cs 0, Covers pr s t) →
      (∀ pr ∈ cs k, CandInv thr orig1 pr.1 ∧ CandInv thr orig2 pr.2) ∧ (∃ pr ∈ cs k, Covers pr s t) ∧
        as k = as 0 := by
  intro k
  induction k with
  | zero => intro cs as _ _ hinv hcov; exact ⟨hinv, hcov, rfl⟩
  | succ k ih =>
    intro cs as hr he hinv hcov
    obtain ⟨hinvk, hcovk, hacc⟩ := ih cs as (fun i hi' => hr i (by omega)) (fun i hi' => he i (by omega)) hinv hcov
    obtain ⟨h1, h2, h3⟩ := coverage_invariant_partial py C G thr orig1 orig2 (cs k) (cs (k + 1)) (as k) (as (k + 1))
      (hr k (by omega)) (he k (by omega)) hinvk
    exact ⟨h1, h3 s t hi hcovk, by rw [h2, hacc]⟩

/-! ### non-vacuity (over `ℚ`, the library's constants) -/

/-- the parabolas `(2s, 4s(1−s))` and `(2t, 1 − 2t + 4t²)` meet at `s = t = 1/4` in `(1/2, 3/4)` -/
example : TrueInt 55 ([[0, 1, 2], [0, 2, 0]] : List (List ℚ)) [[0, 1, 2], [1, 0, 3]] (1/4) (1/4) := by
  refine ⟨by norm_num, by norm_num, by norm_num, by norm_num, by decide +kernel⟩

/-- the initial candidates satisfy the invariant and cover every parameter pair of the unit square -/
example : CandInv 55 ([[0, 1, 2], [0, 2, 0]] : List (List ℚ)) (.curve { nodes := [[0, 1, 2], [0, 2, 0]], start := 0, stop := 1 }) :=
  ⟨faithful_initial _ _, planar_pair _ _ (by decide) (by decide)⟩

/-- the first round on these curves is an exact round (boxes `[0,2]×[0,2]`, `[0,2]×[0,3]` overlap properly) … -/
example : ExactPair (concretePrims true exConsts)
    ((.curve { nodes := [[0, 1, 2], [0, 2, 0]], start := 0, stop := 1 } : Cand ℚ),
     (.curve { nodes := [[0, 1, 2], [1, 0, 3]], start := 0, stop := 1 } : Cand ℚ)) :=
  ExactPair.curves _ _ (by decide +kernel)

/-- … it succeeds, and its output still covers the intersection `(1/4, 1/4)` -/
example : ∃ next, intersectOneRound (concretePrims true exConsts) exConsts.geo [[0, 1, 2], [0, 2, 0]] [[0, 1, 2], [1, 0, 3]]
      [((.curve { nodes := [[0, 1, 2], [0, 2, 0]], start := 0, stop := 1 } : Cand ℚ),
        (.curve { nodes := [[0, 1, 2], [1, 0, 3]], start := 0, stop := 1 } : Cand ℚ))] [] = .ok (next, []) ∧
      ∃ pr ∈ next, Covers pr (1/4) (1/4) := by
  have hex : ∀ pr ∈ [((.curve { nodes := [[0, 1, 2], [0, 2, 0]], start := 0, stop := 1 } : Cand ℚ),
        (.curve { nodes := [[0, 1, 2], [1, 0, 3]], start := 0, stop := 1 } : Cand ℚ))],
      ExactPair (concretePrims true exConsts) pr := by
    intro pr hpr
    rw [List.mem_singleton] at hpr
    subst hpr
    exact ExactPair.curves _ _ (by decide +kernel)
  have hrows : ∀ a b c d e f : ℚ, Planar [[a, b, c], [d, e, f]] :=
    fun a b c d e f => planar_pair _ _ (by simp) (by simp)
  refine ⟨_, exact_round_eq _ _ _ _ _ _ hex, ?_⟩
  refine (coverage_invariant_partial true exConsts exConsts.geo 55 [[0, 1, 2], [0, 2, 0]] [[0, 1, 2], [1, 0, 3]]
    _ _ [] [] (exact_round_eq _ _ _ _ _ _ hex) hex ?_).2.2 (1/4) (1/4) ?_ ?_
  · intro pr hpr
    rw [List.mem_singleton] at hpr
    subst hpr
    exact ⟨⟨faithful_initial _ _, hrows _ _ _ _ _ _⟩, ⟨faithful_initial _ _, hrows _ _ _ _ _ _⟩⟩
  · exact ⟨by norm_num, by norm_num, by norm_num, by norm_num, by decide +kernel⟩
  · exact ⟨_, List.mem_singleton.mpr rfl, by norm_num [Covers, Cand.sub]⟩

/-- box-disjoint pruning does happen (x-ranges `[0,2]` and `[3,5]`): such a pair is an exact pair of either kind -/
example : (concretePrims true exConsts).bboxIntersect ([[0, 1, 2], [0, 2, 0]] : List (List ℚ)) [[3, 4, 5], [1, 0, 3]]
    = .disjoint := by decide +kernel

end BezierVerif.C03
