import BezierVerif.Lemmas.Pipeline

/-!
# C03 (pipeline part) — the decision logic of `all_intersections`, stated outright

For ANY record `Prims K` of primitives (no contract is needed here):

* `budget_exhausted` — the round loop running out of `_MAX_INTERSECT_SUBDIVISIONS` rounds is the
  `ValueError` exit;
* `too_many_candidates_not_coincident` — more than `_MAX_CANDIDATES` candidates after pruning and
  `coincident_parameters = None` is the `NotImplementedError` exit (and the other two outcomes of
  `coincident_parameters` are passed on);
* `box_disjoint_empty` — disjoint boxes at the top level give the empty answer;
* `dedup_sound` / `dedup_complete` / `distinct_not_merged` — `add_intersection` drops a pair exactly when an
  existing entry is within the relative distance `NEWTON_ERROR_RATIO`; pairs at max-norm distance `≥ d` with
  `d² ≥ 2·ratioSq` are never merged.
-/

namespace BezierVerif.C03

open Model BezierVerif Pipe

set_option linter.unusedSectionVars false

variable {K : Type} [Field K] [LinearOrder K] [IsStrictOrderedRing K]

/-! ### the subdivision budget -/

/-- out of rounds: `ValueError` -/
theorem budget_exhausted_zero (P : Prims K) (G : GeoConsts K) (n1 n2 : List (List K))
    (cands : List (Cand K × Cand K)) (acc : List (K × K)) :
    allIntersections.rounds P G n1 n2 0 cands acc = .error .valueError := rfl

/-- one round that leaves a non-empty candidate list within the budget hands over to the next round -/
theorem round_continues (P : Prims K) (G : GeoConsts K) (n1 n2 : List (List K)) (f : ℕ)
    (cands next : List (Cand K × Cand K)) (acc acc' : List (K × K))
    (hround : intersectOneRound P G n1 n2 cands acc = .ok (next, acc'))
    (hlen : (afterPrune P G next).length ≤ G.maxCandidates) (hne : afterPrune P G next ≠ []) :
    allIntersections.rounds P G n1 n2 (f + 1) cands acc =
      allIntersections.rounds P G n1 n2 f (afterPrune P G next) acc' := by
  rw [rounds_succ, hround]
  dsimp only
  rw [if_neg (by omega), if_neg (by simpa using hne)]

/-- if each of the `fuel` rounds succeeds and leaves a non-empty candidate list within the candidate
    budget (`Pipe.survives`), the loop ends with `ValueError` -/
theorem budget_exhausted_rounds (P : Prims K) (G : GeoConsts K) (n1 n2 : List (List K)) (fuel : ℕ)
    (cands : List (Cand K × Cand K)) (acc : List (K × K))
    (h : survives P G n1 n2 fuel cands acc = true) :
    allIntersections.rounds P G n1 n2 fuel cands acc = .error .valueError :=
  rounds_of_survives P G n1 n2 fuel cands acc h

/-- **budget**: not two exact lines, and every one of the `maxRounds` rounds leaves candidates within the
    candidate budget ⇒ `all_intersections` raises `ValueError` -/
theorem budget_exhausted (P : Prims K) (G : GeoConsts K) (n1 n2 : List (List K))
    (hlines : checkLines P (fromShape P G (.curve { nodes := n1, start := 0, stop := 1 }))
      (fromShape P G (.curve { nodes := n2, start := 0, stop := 1 })) = none)
    (h : survives P G n1 n2 G.maxRounds
      [(fromShape P G (.curve { nodes := n1, start := 0, stop := 1 }),
        fromShape P G (.curve { nodes := n2, start := 0, stop := 1 }))] [] = true) :
    allIntersections P G n1 n2 = .error .valueError := by
  unfold allIntersections
  dsimp only
  rw [hlines]
  exact rounds_of_survives P G n1 n2 _ _ _ h

/-! ### the candidate budget -/

/-- more than `maxCandidates` candidates after pruning: the answer is decided by `coincident_parameters` -/
theorem too_many_candidates (P : Prims K) (G : GeoConsts K) (n1 n2 : List (List K)) (f : ℕ)
    (cands next : List (Cand K × Cand K)) (acc acc' : List (K × K))
    (hround : intersectOneRound P G n1 n2 cands acc = .ok (next, acc'))
    (hmany : G.maxCandidates < (pruneCandidates P next).length) :
    allIntersections.rounds P G n1 n2 (f + 1) cands acc =
      match coincidentParameters P G n1 n2 with
      | .error e => .error e
      | .ok none => .error .notImplemented
      | .ok (some params) => .ok (params, true) :=
  rounds_too_many P G n1 n2 f cands next acc acc' hround hmany

/-- … and not coincident: `NotImplementedError` -/
theorem too_many_candidates_not_coincident (P : Prims K) (G : GeoConsts K) (n1 n2 : List (List K)) (f : ℕ)
    (cands next : List (Cand K × Cand K)) (acc acc' : List (K × K))
    (hround : intersectOneRound P G n1 n2 cands acc = .ok (next, acc'))
    (hmany : G.maxCandidates < (pruneCandidates P next).length)
    (hco : coincidentParameters P G n1 n2 = .ok none) :
    allIntersections.rounds P G n1 n2 (f + 1) cands acc = .error .notImplemented := by
  rw [too_many_candidates P G n1 n2 f cands next acc acc' hround hmany, hco]

/-- … and coincident: the coincident parameters with the flag set -/
theorem too_many_candidates_coincident (P : Prims K) (G : GeoConsts K) (n1 n2 : List (List K)) (f : ℕ)
    (cands next : List (Cand K × Cand K)) (acc acc' : List (K × K)) (params : List (K × K))
    (hround : intersectOneRound P G n1 n2 cands acc = .ok (next, acc'))
    (hmany : G.maxCandidates < (pruneCandidates P next).length)
    (hco : coincidentParameters P G n1 n2 = .ok (some params)) :
    allIntersections.rounds P G n1 n2 (f + 1) cands acc = .ok (params, true) := by
  rw [too_many_candidates P G n1 n2 f cands next acc acc' hround hmany, hco]

/-- pruning is only tried above the budget, and never enlarges the list -/
theorem prune_only_above_budget (P : Prims K) (G : GeoConsts K) (next : List (Cand K × Cand K))
    (h : next.length ≤ G.maxCandidates) : afterPrune P G next = next := by
  unfold afterPrune; rw [if_neg (by omega)]

/-! ### disjoint boxes at the top level -/

/-- general form: not two exact lines, the box test of the initial pair says `disjoint`, at least one round -/
theorem box_disjoint_empty (P : Prims K) (G : GeoConsts K) (n1 n2 : List (List K))
    (hlines : checkLines P (fromShape P G (.curve { nodes := n1, start := 0, stop := 1 }))
      (fromShape P G (.curve { nodes := n2, start := 0, stop := 1 })) = none)
    (hbox : pairBox P (fromShape P G (.curve { nodes := n1, start := 0, stop := 1 }))
      (fromShape P G (.curve { nodes := n2, start := 0, stop := 1 })) = .disjoint)
    (hr : 1 ≤ G.maxRounds) : allIntersections P G n1 n2 = .ok ([], false) := by
  unfold allIntersections
  dsimp only
  rw [hlines]
  obtain ⟨f, hf⟩ : ∃ f, G.maxRounds = f + 1 := ⟨G.maxRounds - 1, by omega⟩
  rw [hf]
  exact rounds_disjoint P G n1 n2 f _ _ hbox

/-- neither curve is linearised, `bbox_intersect` says disjoint -/
theorem box_disjoint_empty_curves (P : Prims K) (G : GeoConsts K) (n1 n2 : List (List K))
    (h1 : ¬ P.linErrSq n1 < G.errValSq) (h2 : ¬ P.linErrSq n2 < G.errValSq)
    (hbox : P.bboxIntersect n1 n2 = .disjoint) (hr : 1 ≤ G.maxRounds) :
    allIntersections P G n1 n2 = .ok ([], false) := by
  apply box_disjoint_empty P G n1 n2 _ _ hr <;> simp only [fromShape, if_neg h1, if_neg h2]
  · rfl
  · exact hbox

/-- only the first curve is linearised, `bbox_line_intersect` of the second against the segment says disjoint -/
theorem box_disjoint_empty_line_curve (P : Prims K) (G : GeoConsts K) (n1 n2 : List (List K))
    (h1 : P.linErrSq n1 < G.errValSq) (h2 : ¬ P.linErrSq n2 < G.errValSq)
    (hbox : P.bboxLineIntersect n2 (firstNode n1) (lastNode n1) = .disjoint) (hr : 1 ≤ G.maxRounds) :
    allIntersections P G n1 n2 = .ok ([], false) := by
  apply box_disjoint_empty P G n1 n2 _ _ hr <;> simp only [fromShape, if_pos h1, if_neg h2]
  · rfl
  · exact hbox

/-- only the second curve is linearised -/
theorem box_disjoint_empty_curve_line (P : Prims K) (G : GeoConsts K) (n1 n2 : List (List K))
    (h1 : ¬ P.linErrSq n1 < G.errValSq) (h2 : P.linErrSq n2 < G.errValSq)
    (hbox : P.bboxLineIntersect n1 (firstNode n2) (lastNode n2) = .disjoint) (hr : 1 ≤ G.maxRounds) :
    allIntersections P G n1 n2 = .ok ([], false) := by
  apply box_disjoint_empty P G n1 n2 _ _ hr <;> simp only [fromShape, if_neg h1, if_pos h2]
  · rfl
  · exact hbox

/-- both linearised but not both with error exactly `0` (so `check_lines` does not apply) -/
theorem box_disjoint_empty_lines (P : Prims K) (G : GeoConsts K) (n1 n2 : List (List K))
    (h1 : P.linErrSq n1 < G.errValSq) (h2 : P.linErrSq n2 < G.errValSq)
    (hne : ¬ (P.linErrSq n1 = 0 ∧ P.linErrSq n2 = 0))
    (hbox : P.bboxIntersect n1 n2 = .disjoint) (hr : 1 ≤ G.maxRounds) :
    allIntersections P G n1 n2 = .ok ([], false) := by
  apply box_disjoint_empty P G n1 n2 _ _ hr <;> simp only [fromShape, if_pos h1, if_pos h2]
  · simp only [checkLines, if_neg hne]
  · exact hbox

/-! ### de-duplication -/

/-- `add_intersection` either appends the pair, or drops it because an existing entry `p` satisfies
    `(s−p₁)² + (t−p₂)² < ratioSq · normSq` (`normSq = Pipe.normSq`: the squared norm of `(s,t)`, each
    coordinate replaced by `1 − ·` when it is below `ZERO_THRESHOLD`) -/
theorem dedup_sound (G : GeoConsts K) (s t : K) (acc : List (K × K)) :
    addIntersection G s t acc = acc ++ [(s, t)] ∨
    (addIntersection G s t acc = acc ∧
      ∃ p ∈ acc, (s - p.1) * (s - p.1) + (t - p.2) * (t - p.2) < G.ratioSq * normSq G s t) := by
  rcases addIntersection_cases G s t acc with ⟨h, _⟩ | h
  · exact Or.inl h
  · exact Or.inr h

/-- conversely a close existing entry makes it drop the pair -/
theorem dedup_complete (G : GeoConsts K) (s t : K) (acc : List (K × K)) (p : K × K) (hp : p ∈ acc)
    (hclose : (s - p.1) * (s - p.1) + (t - p.2) * (t - p.2) < G.ratioSq * normSq G s t) :
    addIntersection G s t acc = acc := by
  rcases addIntersection_cases G s t acc with ⟨_, h⟩ | ⟨h, _⟩
  · exact absurd hclose (h p hp)
  · exact h

/-- for parameters of the unit square the reference norm is at most `√2` -/
theorem normSq_le_two (G : GeoConsts K) (s t : K) (hs : 0 ≤ s ∧ s ≤ 1) (ht : 0 ≤ t ∧ t ≤ 1) :
    normSq G s t ≤ 2 :=
  Pipe.normSq_le_two G s t hs ht

/-- a pair of the unit square whose max-norm distance to every existing entry is at least `d`, where
    `d² ≥ 2·ratioSq`, is never merged -/
theorem distinct_not_merged (G : GeoConsts K) (s t d : K) (acc : List (K × K))
    (hs : 0 ≤ s ∧ s ≤ 1) (ht : 0 ≤ t ∧ t ≤ 1) (hr : 0 ≤ G.ratioSq) (hd : 0 ≤ d)
    (hd2 : G.ratioSq * 2 ≤ d * d) (hfar : ∀ p ∈ acc, d ≤ |s - p.1| ∨ d ≤ |t - p.2|) :
    addIntersection G s t acc = acc ++ [(s, t)] := by
  rcases addIntersection_cases G s t acc with ⟨h, _⟩ | ⟨_, p, hp, hclose⟩
  · exact h
  · exfalso
    have hn := Pipe.normSq_le_two G s t hs ht
    have h1 : G.ratioSq * normSq G s t ≤ d * d := le_trans (mul_le_mul_of_nonneg_left hn hr) hd2
    have sq : ∀ x : K, d ≤ |x| → d * d ≤ x * x := by
      intro x hx
      rw [← abs_mul_abs_self x]
      exact mul_self_le_mul_self hd hx
    rcases hfar p hp with h | h
    · nlinarith [sq _ h, mul_self_nonneg (t - p.2)]
    · nlinarith [sq _ h, mul_self_nonneg (s - p.1)]

/-! ### non-vacuity -/

/-- budget: 2 rounds, the candidates (4, then 16) stay within 64, never empty -/
example : survives (stubPrims .intersection 1) (stubConsts 2 64) [[0, 1, 2], [0, 1, 0]] [[2, 3, 4], [0, 1, 0]] 2
    [(fromShape (stubPrims .intersection 1) (stubConsts 2 64) (.curve { nodes := [[0, 1, 2], [0, 1, 0]], start := 0, stop := 1 }),
      fromShape (stubPrims .intersection 1) (stubConsts 2 64) (.curve { nodes := [[2, 3, 4], [0, 1, 0]], start := 0, stop := 1 }))] []
    = true := by decide +kernel

example : allIntersections (stubPrims .intersection 1) (stubConsts 2 64) [[0, 1, 2], [0, 1, 0]] [[2, 3, 4], [0, 1, 0]]
    = .error .valueError := by decide +kernel

/-- candidate budget: 4, 16, 64, 256 > 64 candidates, nothing pruned, not coincident -/
example : allIntersections (stubPrims .intersection 1) (stubConsts 20 64) [[0, 1, 2], [0, 1, 0]] [[2, 3, 4], [0, 1, 0]]
    = .error .notImplemented := by decide +kernel

/-- disjoint boxes -/
example : allIntersections (stubPrims .disjoint 1) (stubConsts 20 64) [[0, 1, 2], [0, 1, 0]] [[2, 3, 4], [0, 1, 0]]
    = .ok ([], false) :=
  box_disjoint_empty_curves _ _ _ _ (by decide +kernel) (by decide +kernel) rfl (by decide)

/-- de-duplication with the library's constants: an exact repeat is dropped, a pair at distance `2⁻³⁵` is kept -/
example : addIntersection (stubConsts 20 64) (1/2) (1/2) [(1/2, 1/2)] = [(1/2, 1/2)] := by decide +kernel

example : addIntersection (stubConsts 20 64) (1/2 + 1/2^35) (1/2) [(1/2, 1/2)] = [(1/2, 1/2), (1/2 + 1/2^35, 1/2)] :=
  distinct_not_merged _ _ _ (1/2^35) _ (by norm_num) (by norm_num) (by norm_num [stubConsts])
    (by norm_num) (by norm_num [stubConsts]) (by intro p hp; simp at hp; subst hp; left; norm_num)

end BezierVerif.C03
