import BezierVerif.Lemmas.CoverageTangent

/-!
# C03 (coverage part, tangent boxes) — `tangent_bbox_intersection` loses no intersection unless a coordinate is constant

Extends `Props/C03Coverage.lean` (vocabulary `TrueInt`, `Covers`, `Faithful`, `CandInv` of `Lemmas/Coverage.lean`) to the
first of the three approximate hand-offs of `intersect_one_round`.  New vocabulary (`Lemmas/CoverageTangent.lean`):
`RowVaries row` — two different control values; `CoordVaries thr row` — the coordinate FUNCTION is not constant on `K`
(equivalent for rows of length ≥ 2: `coord_varies_iff_row_varies`); `NoConstCoord thr nodes` — no coordinate function of the
curve is constant; `RowsTouch r1 r2` — the ranges of the control values are weakly separated; `TangentSide n1 n2` — in some
coordinate the ranges touch and the coordinate varies in both nets (the side condition whose failure is finding F-E,
`tangent-bbox:curve-on-axis-parallel-line`); `Accum G acc s t` — `(s, t)` is in the accumulator or was dropped by
`add_intersection` because of a stored pair (`SelfCover.Near`); `TanPair P pr` — two un-linearised candidates with
`bbox_intersect = TANGENT`; `CandInvW` — `CandInv` and `start < stop`.

* `tangent_branch_reached_iff`: with the library's primitives exactly the pairs `TanPair` reach `tangentBbox`
  (`bbox_line_intersect` never answers `TANGENT`; two linearisations are excluded by the guard);
* `tangent_box_common_point_is_endpoint` (+ `…_local`, `…_of_tangent`): under the side condition every true intersection
  in the rectangle of a faithful planar pair has `s ∈ {start, stop}`, `t ∈ {start, stop}` and its point is the first / last
  node of both pieces;
* `tangentBbox_covers`: if `vector_close` accepts equal vectors, after `tangentBbox` every such intersection is
  represented in the accumulator with its ORIGINAL parameters; "covered or accumulated" is preserved;
* `side_condition_inherited`, `coord_varies_iff_row_varies`: a candidate of positive width of a curve without constant
  coordinate has no constant coordinate (so the side condition is stated once, on the input curves);
* `coverage_invariant_tangent_partial`, `coverage_tangent_rounds_partial`: rounds whose pairs are `ExactPair` or `TanPair`
  never fail and preserve "every true intersection is covered by a live pair or represented in the accumulator", provided
  neither input curve has a constant coordinate;
* `tangent_round_accumulates_shared_endpoint` (decided, `ℚ`, library constants): a tangent round that emits the shared
  end point; `tangent_round_loses_intersection_FE`: the same round on the nets of `C03.tangent_degenerate_counterexample`
  (curve 1 on the common tangent line): every other hypothesis holds, the intersection `(1/5, 0)` is covered before the
  round and neither covered nor represented after it.
-/

namespace BezierVerif.C03

open Model BezierVerif Pipe Cover SelfCover

set_option linter.unusedSectionVars false

variable {K : Type} [Field K] [LinearOrder K] [IsStrictOrderedRing K]

/-! ### which pairs reach `tangent_bbox_intersection` -/

/-- the branch `box = TANGENT ∧ ¬ both linearised` of `intersect_one_round` (library primitives) is taken exactly by two
    un-linearised candidates whose control boxes `bbox_intersect` classifies as `TANGENT` -/
theorem tangent_branch_reached_iff (py : Bool) (C : PipelineConsts K) (a b : Cand K) :
    (pairBox (concretePrims py C) a b = .tangent ∧ (!(a.isLin && b.isLin)) = true) ↔
      TanPair (concretePrims py C) (a, b) :=
  tangent_branch_iff py C a b

/-- such a pair emits `tangentBbox` and produces no candidate -/
theorem tangent_pair_step (P : Prims K) (G : GeoConsts K) (o1 o2 : List (List K)) (pr : Cand K × Cand K)
    (acc : List (K × K)) (h : TanPair P pr) :
    intersectPair P G o1 o2 pr.1 pr.2 acc = .ok ([], tangentBbox P G pr.1.sub pr.2.sub acc) :=
  intersectPair_tangent P G o1 o2 pr acc h

/-! ### 1. a common point of a tangent pair is a pair of end points -/

/-- local parameters: two planar nets satisfying the side condition `TangentSide` (in some coordinate the ranges of the
    control values touch, and that coordinate is not constant in either net) meet on `[0,1]²` only at
    `σ ∈ {0,1}`, `τ ∈ {0,1}` -/
theorem tangent_box_common_point_is_endpoint_local (thr : ℕ) (n1 n2 : List (List K)) (hp1 : Planar n1) (hp2 : Planar n2)
    (hside : TangentSide n1 n2) (σ τ : K) (hσ0 : 0 ≤ σ) (hσ1 : σ ≤ 1) (hτ0 : 0 ≤ τ) (hτ1 : τ ≤ 1)
    (hmeet : evalPoint thr n1 σ = evalPoint thr n2 τ) : (σ = 0 ∨ σ = 1) ∧ (τ = 0 ∨ τ = 1) :=
  tangentSide_only_endpoints thr n1 n2 hp1 hp2 hside σ τ hσ0 hσ1 hτ0 hτ1 hmeet

/-- **a common point of a tangent pair is a pair of end points**: `a`, `b` faithful planar candidates of `orig1`, `orig2`
    satisfying the side condition.  Every true intersection `(s, t)` of the original curves in the rectangle of `(a, b)` has
    `s ∈ {a.start, a.stop}`, `t ∈ {b.start, b.stop}`, and its point is the corresponding first / last node of each piece —
    one of the four pairs compared by `tangent_bbox_intersection`. -/
theorem tangent_box_common_point_is_endpoint (thr : ℕ) (orig1 orig2 : List (List K)) (a b : Cand K)
    (ha : CandInv thr orig1 a) (hb : CandInv thr orig2 b) (hside : TangentSide a.sub.nodes b.sub.nodes)
    (s t : K) (hc : Covers (a, b) s t) (hi : TrueInt thr orig1 orig2 s t) :
    ((s = a.sub.start ∧ evalPoint thr orig1 s = firstNode a.sub.nodes) ∨
      (s = a.sub.stop ∧ evalPoint thr orig1 s = lastNode a.sub.nodes)) ∧
    ((t = b.sub.start ∧ evalPoint thr orig2 t = firstNode b.sub.nodes) ∨
      (t = b.sub.stop ∧ evalPoint thr orig2 t = lastNode b.sub.nodes)) :=
  common_point_is_endpoint thr orig1 orig2 a b ha hb hside s t hc hi

/-- what `bbox_intersect = TANGENT` provides: the x-ranges or the y-ranges of the two nets touch -/
theorem tangent_boxes_touch (py : Bool) (C : PipelineConsts K) (n1 n2 : List (List K)) (hp1 : Planar n1) (hp2 : Planar n2)
    (h : (concretePrims py C).bboxIntersect n1 n2 = .tangent) : ∃ p ∈ List.zip n1 n2, RowsTouch p.1 p.2 := by
  obtain ⟨x1, y1, rfl, hx1, hy1⟩ := planar_shape _ hp1
  obtain ⟨x2, y2, rfl, hx2, hy2⟩ := planar_shape _ hp2
  rcases boxKind_tangent_touch x1 y1 x2 y2 (by omega) (by omega) (by omega) (by omega) h with ht | ht
  · exact ⟨(x1, x2), by simp, ht⟩
  · exact ⟨(y1, y2), by simp, ht⟩

/-- the same with the box classification as hypothesis: boxes `TANGENT` (library test), every row of both pieces has two
    different control values -/
theorem tangent_box_common_point_is_endpoint_of_tangent (py : Bool) (C : PipelineConsts K) (thr : ℕ)
    (orig1 orig2 : List (List K)) (a b : Cand K) (ha : CandInv thr orig1 a) (hb : CandInv thr orig2 b)
    (htan : (concretePrims py C).bboxIntersect a.sub.nodes b.sub.nodes = .tangent)
    (hv1 : ∀ row ∈ a.sub.nodes, RowVaries row) (hv2 : ∀ row ∈ b.sub.nodes, RowVaries row)
    (s t : K) (hc : Covers (a, b) s t) (hi : TrueInt thr orig1 orig2 s t) :
    ((s = a.sub.start ∧ evalPoint thr orig1 s = firstNode a.sub.nodes) ∨
      (s = a.sub.stop ∧ evalPoint thr orig1 s = lastNode a.sub.nodes)) ∧
    ((t = b.sub.start ∧ evalPoint thr orig2 t = firstNode b.sub.nodes) ∨
      (t = b.sub.stop ∧ evalPoint thr orig2 t = lastNode b.sub.nodes)) :=
  common_point_is_endpoint thr orig1 orig2 a b ha hb
    (tangentSide_of_tangent py C _ _ ha.2 hb.2 hv1 hv2 htan) s t hc hi

/-! ### 2. `tangent_bbox_intersection` keeps "covered or accumulated" -/

/-- **`tangentBbox` covers**: any primitives whose `vector_close` accepts equal vectors (exactness hypothesis; the
    library's does for `eps ≥ 0`: `Overlap.concrete_close_refl`).  For faithful planar candidates satisfying the side
    condition the accumulator is only extended, and every true intersection that was in the rectangle of the pair or
    represented before is represented after `tangentBbox` — with the ORIGINAL parameters `(s, t)`, up to the drop
    relation of `add_intersection`. -/
theorem tangentBbox_covers (P : Prims K) (G : GeoConsts K) (thr : ℕ) (orig1 orig2 : List (List K)) (a b : Cand K)
    (acc : List (K × K)) (hclose : ∀ u, P.vectorClose u u = true)
    (ha : CandInv thr orig1 a) (hb : CandInv thr orig2 b) (hside : TangentSide a.sub.nodes b.sub.nodes) :
    acc <+: tangentBbox P G a.sub b.sub acc ∧
    ∀ s t, TrueInt thr orig1 orig2 s t → (Covers (a, b) s t ∨ Accum G acc s t) →
      Accum G (tangentBbox P G a.sub b.sub acc) s t := by
  refine ⟨tangentBbox_prefix P G _ _ acc, ?_⟩
  rintro s t hi (hc | hacc)
  · exact tangentBbox_covers_core P G thr orig1 orig2 a b acc hclose ha hb hside s t hi hc
  · exact accum_mono G (tangentBbox_prefix P G _ _ acc) s t hacc

/-! ### 3. the side condition on the input curves; rounds with tangent pairs -/

/-- a coordinate function is non-constant iff its control values are not all equal (rows of length ≥ 2) -/
theorem coord_varies_iff_row_varies (thr : ℕ) (row : List K) (h : 2 ≤ row.length) :
    CoordVaries thr row ↔ RowVaries row :=
  coordVaries_iff_rowVaries thr row h

/-- **the side condition is inherited by every sub-curve of positive width**: if no coordinate function of the original
    curve is constant, no coordinate of a faithful candidate with `start ≠ stop` is constant (a polynomial constant on a
    parameter interval of non-zero width is constant), hence every row of the candidate has two different values -/
theorem side_condition_inherited (thr : ℕ) (orig : List (List K)) (c : Cand K) (h : CandInvW thr orig c)
    (hn : NoConstCoord thr orig) :
    NoConstCoord thr c.sub.nodes ∧ ∀ row ∈ c.sub.nodes, RowVaries row :=
  ⟨noConstCoord_inherit thr orig c h.1.1 (ne_of_lt h.2) hn, cand_rows_vary thr orig c h hn⟩

/-- candidates always have positive width: the midpoint split preserves `start < stop` (and the candidate invariant, with
    the library's `subdivide_nodes`) -/
theorem subdivision_candInvW (py : Bool) (C : PipelineConsts K) (G : GeoConsts K) (thr : ℕ) (orig : List (List K))
    (c : Cand K) (h : CandInvW thr orig c) : ∀ d ∈ subdivideCand (concretePrims py C) G c, CandInvW thr orig d :=
  fun d hd => ⟨subdivision_faithful py C G thr orig c h.1 d hd, subdivideCand_width _ G c h.2 d hd⟩

/-- **coverage invariant, exact and tangent steps**.  Round function `intersect_one_round` with the library's primitives;
    `vector_close` accepts equal vectors (`0 ≤ eps`); NEITHER INPUT CURVE HAS A CONSTANT COORDINATE.  Hypothesis on the
    round: every candidate pair is decided by the exact box test (`ExactPair`: two curves with non-tangent boxes, two
    linearisations with disjoint boxes) or is handed to `tangent_bbox_intersection` (`TanPair`: two curves with tangent
    boxes — by `tangent_branch_reached_iff` these are all pairs that reach it).  Then the round does not fail, the
    candidate invariant (faithful, planar, positive width) passes to the next round, the accumulator is only extended, and
    every true intersection of the original curves that is covered by a candidate pair or represented in the accumulator
    before the round is covered or represented after it.

    FULL: the same for an arbitrary round.  The remaining gap is the two other approximate hand-offs,
    `bbox_line_intersect` against the chord (mixed pairs) and `from_linearized`; and the side condition cannot be dropped
    (`tangent_round_loses_intersection_FE`). -/
theorem coverage_invariant_tangent_partial (py : Bool) (C : PipelineConsts K) (G : GeoConsts K) (thr : ℕ)
    (orig1 orig2 : List (List K)) (cands : List (Cand K × Cand K)) (acc : List (K × K))
    (hclose : ∀ u, (concretePrims py C).vectorClose u u = true)
    (hn1 : NoConstCoord thr orig1) (hn2 : NoConstCoord thr orig2)
    (hkind : ∀ pr ∈ cands, ExactPair (concretePrims py C) pr ∨ TanPair (concretePrims py C) pr)
    (hinv : ∀ pr ∈ cands, CandInvW thr orig1 pr.1 ∧ CandInvW thr orig2 pr.2) :
    ∃ next acc', intersectOneRound (concretePrims py C) G orig1 orig2 cands acc = .ok (next, acc') ∧
      (∀ pr ∈ next, CandInvW thr orig1 pr.1 ∧ CandInvW thr orig2 pr.2) ∧ acc <+: acc' ∧
      ∀ s t, TrueInt thr orig1 orig2 s t → ((∃ pr ∈ cands, Covers pr s t) ∨ Accum G acc s t) →
        ((∃ pr ∈ next, Covers pr s t) ∨ Accum G acc' s t) := by
  obtain ⟨more, acc', e, p, i, c⟩ := foldl_roundStep_cover py C G thr orig1 orig2 hclose hn1 hn2 cands [] acc hkind hinv
  refine ⟨more, acc', by rw [intersectOneRound_eq, e, List.nil_append], i, p, ?_⟩
  rintro s t hi (hcov | hacc)
  · exact c s t hi hcov
  · exact Or.inr (accum_mono G p s t hacc)

/-- the same with the side condition stated on the control nets: every row of both input nets has two different values -/
theorem coverage_invariant_tangent_nets_partial (py : Bool) (C : PipelineConsts K) (G : GeoConsts K) (thr : ℕ)
    (orig1 orig2 : List (List K)) (cands : List (Cand K × Cand K)) (acc : List (K × K))
    (hclose : ∀ u, (concretePrims py C).vectorClose u u = true)
    (hr1 : RowsOK orig1) (hr2 : RowsOK orig2)
    (hv1 : ∀ row ∈ orig1, RowVaries row) (hv2 : ∀ row ∈ orig2, RowVaries row)
    (hkind : ∀ pr ∈ cands, ExactPair (concretePrims py C) pr ∨ TanPair (concretePrims py C) pr)
    (hinv : ∀ pr ∈ cands, CandInvW thr orig1 pr.1 ∧ CandInvW thr orig2 pr.2) :
    ∃ next acc', intersectOneRound (concretePrims py C) G orig1 orig2 cands acc = .ok (next, acc') ∧
      (∀ pr ∈ next, CandInvW thr orig1 pr.1 ∧ CandInvW thr orig2 pr.2) ∧ acc <+: acc' ∧
      ∀ s t, TrueInt thr orig1 orig2 s t → ((∃ pr ∈ cands, Covers pr s t) ∨ Accum G acc s t) →
        ((∃ pr ∈ next, Covers pr s t) ∨ Accum G acc' s t) :=
  coverage_invariant_tangent_partial py C G thr orig1 orig2 cands acc hclose
    ((noConstCoord_iff_rows thr orig1 hr1).mpr hv1) ((noConstCoord_iff_rows thr orig2 hr2).mpr hv2) hkind hinv

/-- any number of consecutive rounds of exact / tangent pairs, started from the initial pair `[0,1] × [0,1]` of two planar
    nets without constant coordinate: the `k` rounds succeed, and every true intersection of the curves is covered by a
    candidate pair of round `k` or represented in the accumulator; in particular, if no candidate is left, EVERY true
    intersection is represented in the accumulator (no intersection was lost) -/
theorem coverage_tangent_rounds_partial (py : Bool) (C : PipelineConsts K) (G : GeoConsts K) (thr : ℕ)
    (orig1 orig2 : List (List K)) (hclose : ∀ u, (concretePrims py C).vectorClose u u = true)
    (hp1 : Planar orig1) (hp2 : Planar orig2) (hn1 : NoConstCoord thr orig1) (hn2 : NoConstCoord thr orig2) :
    ∀ (k : ℕ) (cs : ℕ → List (Cand K × Cand K)) (as : ℕ → List (K × K)),
      cs 0 = [(.curve { nodes := orig1, start := 0, stop := 1 }, .curve { nodes := orig2, start := 0, stop := 1 })] →
      (∀ i < k, ∀ next acc', intersectOneRound (concretePrims py C) G orig1 orig2 (cs i) (as i) = .ok (next, acc') →
        cs (i + 1) = next ∧ as (i + 1) = acc') →
      (∀ i < k, ∀ pr ∈ cs i, ExactPair (concretePrims py C) pr ∨ TanPair (concretePrims py C) pr) →
      (∀ i < k, ∃ next acc', intersectOneRound (concretePrims py C) G orig1 orig2 (cs i) (as i) = .ok (next, acc')) ∧
      (∀ pr ∈ cs k, CandInvW thr orig1 pr.1 ∧ CandInvW thr orig2 pr.2) ∧ as 0 <+: as k ∧
      (∀ s t, TrueInt thr orig1 orig2 s t → (∃ pr ∈ cs k, Covers pr s t) ∨ Accum G (as k) s t) ∧
      (cs k = [] → ∀ s t, TrueInt thr orig1 orig2 s t → Accum G (as k) s t) := by
  intro k
  induction k with
  | zero =>
    intro cs as h0 _ _
    have hcov : ∀ s t, TrueInt thr orig1 orig2 s t → (∃ pr ∈ cs 0, Covers pr s t) ∨ Accum G (as 0) s t := by
      intro s t hi
      left
      rw [h0]
      exact ⟨_, List.mem_singleton.mpr rfl, hi.1, hi.2.1, hi.2.2.1, hi.2.2.2.1⟩
    refine ⟨fun i hi => absurd hi (Nat.not_lt_zero i), ?_, List.prefix_refl _, hcov, ?_⟩
    · intro pr hpr
      rw [h0, List.mem_singleton] at hpr
      subst hpr
      exact ⟨candInvW_initial thr orig1 hp1, candInvW_initial thr orig2 hp2⟩
    · intro hnil s t hi
      rcases hcov s t hi with ⟨pr, hpr, _⟩ | h
      · rw [hnil] at hpr; cases hpr
      · exact h
  | succ k ih =>
    intro cs as h0 hstep hkind
    obtain ⟨hok, hinv, hpre, hcov, _⟩ := ih cs as h0 (fun i hi => hstep i (by omega)) (fun i hi => hkind i (by omega))
    obtain ⟨next, acc', e, i1, p1, c1⟩ := coverage_invariant_tangent_partial py C G thr orig1 orig2 (cs k) (as k) hclose
      hn1 hn2 (hkind k (by omega)) hinv
    obtain ⟨ec, ea⟩ := hstep k (by omega) next acc' e
    have hcov' : ∀ s t, TrueInt thr orig1 orig2 s t →
        (∃ pr ∈ cs (k + 1), Covers pr s t) ∨ Accum G (as (k + 1)) s t := by
      intro s t hi
      rw [ec, ea]
      exact c1 s t hi (hcov s t hi)
    refine ⟨?_, by rw [ec]; exact i1, by rw [ea]; exact hpre.trans p1, hcov', ?_⟩
    · intro i hi
      rcases Nat.lt_succ_iff_lt_or_eq.mp hi with h | rfl
      · exact hok i h
      · exact ⟨next, acc', e⟩
    · intro hnil s t hi
      rcases hcov' s t hi with ⟨pr, hpr, _⟩ | h
      · rw [hnil] at hpr; cases hpr
      · exact h

/-! ### 4. decided examples (`ℚ`, the library's primitives and constants) -/

/-- the library's `vector_close` (eps = 2⁻⁴⁰) accepts equal vectors -/
theorem exConsts_close_refl (py : Bool) (u : List ℚ) : (concretePrims py exConsts).vectorClose u u = true :=
  Overlap.concrete_close_refl py exConsts (by norm_num [exConsts]) u

/-- **(i) a tangent round that emits the shared end point.**  Nets `[[0,1/2,1],[0,1,0]]` and
    `[[1,3,2],[0,2,1]]`; boxes `[0,1]×[0,1]` and `[1,3]×[0,2]` are tangent along `x = 1`, no coordinate is constant, the
    curves share the end point `B₁(1) = B₂(0) = (1, 0)`.  The pair is a `TanPair`, the hypotheses of
    `coverage_invariant_tangent_partial` hold, the round returns no candidate and the accumulator `[(1, 0)]`, which
    represents the true intersection `(1, 0)`. -/
theorem tangent_round_accumulates_shared_endpoint :
    let n1 : List (List ℚ) := [[0, 1/2, 1], [0, 1, 0]]
    let n2 : List (List ℚ) := [[1, 3, 2], [0, 2, 1]]
    let c1 : Cand ℚ := .curve { nodes := n1, start := 0, stop := 1 }
    let c2 : Cand ℚ := .curve { nodes := n2, start := 0, stop := 1 }
    TanPair (concretePrims true exConsts) (c1, c2) ∧ NoConstCoord 55 n1 ∧ NoConstCoord 55 n2 ∧
    CandInvW 55 n1 c1 ∧ CandInvW 55 n2 c2 ∧ TrueInt 55 n1 n2 1 0 ∧ Covers (c1, c2) 1 0 ∧
    intersectOneRound (concretePrims true exConsts) exConsts.geo n1 n2 [(c1, c2)] [] = .ok ([], [(1, 0)]) ∧
    Accum exConsts.geo [(1, 0)] 1 0 := by
  intro n1 n2 c1 c2
  have htan : TanPair (concretePrims true exConsts) (c1, c2) := TanPair.curves _ _ (by decide +kernel)
  have hp1 : Planar n1 := planar_pair _ _ (by decide) (by decide)
  have hp2 : Planar n2 := planar_pair _ _ (by decide) (by decide)
  refine ⟨htan, (noConstCoord_iff_rows 55 n1 hp1.2).mpr (by decide +kernel),
    (noConstCoord_iff_rows 55 n2 hp2.2).mpr (by decide +kernel), candInvW_initial 55 n1 hp1, candInvW_initial 55 n2 hp2,
    ⟨by norm_num, by norm_num, by norm_num, by norm_num, by decide +kernel⟩, by norm_num [Covers, Cand.sub, c1, c2], ?_,
    ⟨(1, 0), by simp, Or.inl rfl⟩⟩
  rw [intersectOneRound_single, tangent_pair_step _ _ _ _ (c1, c2) [] htan]
  have : tangentBbox (concretePrims true exConsts) exConsts.geo c1.sub c2.sub [] = [(1, 0)] := by decide +kernel
  simp only [this, List.nil_append]

/-- the general theorem applied to (i): the round succeeds and the shared end point is represented afterwards -/
example :
    ∃ next acc', intersectOneRound (concretePrims true exConsts) exConsts.geo [[0, 1/2, 1], [0, 1, 0]] [[1, 3, 2], [0, 2, 1]]
        [((.curve { nodes := [[0, 1/2, 1], [0, 1, 0]], start := 0, stop := 1 } : Cand ℚ),
          (.curve { nodes := [[1, 3, 2], [0, 2, 1]], start := 0, stop := 1 } : Cand ℚ))] [] = .ok (next, acc') ∧
      ((∃ pr ∈ next, Covers pr 1 0) ∨ Accum exConsts.geo acc' 1 0) := by
  obtain ⟨htan, h1, h2, i1, i2, hi, hc, _, _⟩ := tangent_round_accumulates_shared_endpoint
  obtain ⟨next, acc', e, _, _, c⟩ := coverage_invariant_tangent_partial true exConsts exConsts.geo 55 _ _ _ []
    (exConsts_close_refl true) h1 h2
    (by intro pr hpr; rw [List.mem_singleton] at hpr; subst hpr; exact Or.inr htan)
    (by intro pr hpr; rw [List.mem_singleton] at hpr; subst hpr; exact ⟨i1, i2⟩)
  exact ⟨next, acc', e, c 1 0 hi (Or.inl ⟨_, List.mem_singleton.mpr rfl, hc⟩)⟩

/-- **(ii) the side condition is necessary (finding F-E, `tangent-bbox:curve-on-axis-parallel-line`).**  The nets of
    `C03.tangent_degenerate_counterexample`: `[[0,0,0],[0,3,1]]` (on the line `x = 0`) and `[[0,1,2],[1,2,1]]`; boxes tangent
    along `x = 0`.  Every hypothesis of `coverage_invariant_tangent_partial` holds except `NoConstCoord` of curve 1.  The
    true intersection `(s, t) = (1/5, 0)` (point `(0, 1)`) is covered by the initial pair; the round returns no candidate
    and the accumulator `[(1, 0)]` (the end-point pair `B₁(1) = B₂(0) = (0, 1)`), and `(1/5, 0)` is neither covered nor
    represented: the invariant breaks. -/
theorem tangent_round_loses_intersection_FE :
    let n1 : List (List ℚ) := [[0, 0, 0], [0, 3, 1]]
    let n2 : List (List ℚ) := [[0, 1, 2], [1, 2, 1]]
    let c1 : Cand ℚ := .curve { nodes := n1, start := 0, stop := 1 }
    let c2 : Cand ℚ := .curve { nodes := n2, start := 0, stop := 1 }
    TanPair (concretePrims true exConsts) (c1, c2) ∧ ¬ NoConstCoord 55 n1 ∧ NoConstCoord 55 n2 ∧
    CandInvW 55 n1 c1 ∧ CandInvW 55 n2 c2 ∧ TrueInt 55 n1 n2 (1/5) 0 ∧ Covers (c1, c2) (1/5) 0 ∧
    intersectOneRound (concretePrims true exConsts) exConsts.geo n1 n2 [(c1, c2)] [] = .ok ([], [(1, 0)]) ∧
    ¬ ((∃ pr ∈ ([] : List (Cand ℚ × Cand ℚ)), Covers pr (1/5) 0) ∨ Accum exConsts.geo [(1, 0)] (1/5) 0) := by
  intro n1 n2 c1 c2
  have htan : TanPair (concretePrims true exConsts) (c1, c2) := TanPair.curves _ _ (by decide +kernel)
  have hp1 : Planar n1 := planar_pair _ _ (by decide) (by decide)
  have hp2 : Planar n2 := planar_pair _ _ (by decide) (by decide)
  refine ⟨htan, ?_, (noConstCoord_iff_rows 55 n2 hp2.2).mpr (by decide +kernel), candInvW_initial 55 n1 hp1,
    candInvW_initial 55 n2 hp2,
    ⟨by norm_num, by norm_num, by norm_num, by norm_num, tangent_degenerate_counterexample.2.2.2.1⟩,
    by norm_num [Covers, Cand.sub, c1, c2], ?_, ?_⟩
  · intro h
    have := (noConstCoord_iff_rows 55 n1 hp1.2).mp h [0, 0, 0] (by simp [n1])
    revert this
    decide +kernel
  · rw [intersectOneRound_single, tangent_pair_step _ _ _ _ (c1, c2) [] htan]
    have : tangentBbox (concretePrims true exConsts) exConsts.geo c1.sub c2.sub [] = [(1, 0)] := by decide +kernel
    simp only [this, List.nil_append]
  · rintro (⟨pr, hpr, _⟩ | ⟨q, hq, hn⟩)
    · cases hpr
    · rw [List.mem_singleton] at hq
      subst hq
      rcases hn with h | h
      · have := congrArg Prod.fst h
        norm_num at this
      · unfold Drops Pipe.normSq at h
        norm_num [exConsts, stubConsts] at h

end BezierVerif.C03
