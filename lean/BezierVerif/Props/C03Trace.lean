import BezierVerif.Model.GeometricTrace
import Mathlib.Tactic.SplitIfs

/-!
# Props/C03Trace — the traced pipeline is the pipeline

The step-level correspondence (`harness/props/c03.py`, pure configuration) compares the log of
`allIntersectionsTrace` with the candidate lists recorded from the running implementation.  These
theorems state that the traced function computes exactly `allIntersections`, so that whatever the
trace comparison establishes is established about the function all other theorems speak about.
-/

namespace BezierVerif.C03

open BezierVerif.Model

variable {K : Type} [Add K] [Sub K] [Mul K] [Div K] [Neg K] [OfNat K 0] [OfNat K 1] [NatCast K]
  [LT K] [DecidableLT K] [LE K] [DecidableLE K] [DecidableEq K]

/-- the round loop with a log computes the round loop -/
theorem rounds_trace_result (P : Prims K) (G : GeoConsts K) (n1 n2 : List (List K)) (fuel : Nat)
    (cands : List (Cand K × Cand K)) (acc : List (K × K)) :
    (roundsTrace P G n1 n2 fuel cands acc).1 = allIntersections.rounds P G n1 n2 fuel cands acc := by
  induction fuel generalizing cands acc with
  | zero => simp [roundsTrace, allIntersections.rounds]
  | succ f ih =>
    unfold roundsTrace allIntersections.rounds
    cases h : intersectOneRound P G n1 n2 cands acc with
    | error e => simp
    | ok r =>
      obtain ⟨next, acc'⟩ := r
      simp only []
      split_ifs <;> first | rfl | (simp only []; exact ih _ _) | (cases coincidentParameters P G n1 n2 <;> rfl)

/-- **the traced pipeline returns what `all_intersections` returns** (any primitives, any constants) -/
theorem trace_result (P : Prims K) (G : GeoConsts K) (n1 n2 : List (List K)) :
    (allIntersectionsTrace P G n1 n2).1 = allIntersections P G n1 n2 := by
  unfold allIntersectionsTrace allIntersections
  simp only []
  cases checkLines P _ _ with
  | some r => rfl
  | none => exact rounds_trace_result P G n1 n2 _ _ _

/-- the log has at most `maxRounds` entries -/
theorem rounds_trace_length (P : Prims K) (G : GeoConsts K) (n1 n2 : List (List K)) (fuel : Nat)
    (cands : List (Cand K × Cand K)) (acc : List (K × K)) :
    (roundsTrace P G n1 n2 fuel cands acc).2.length ≤ fuel := by
  induction fuel generalizing cands acc with
  | zero => simp [roundsTrace]
  | succ f ih =>
    unfold roundsTrace
    cases h : intersectOneRound P G n1 n2 cands acc with
    | error e => simp
    | ok r =>
      obtain ⟨next, acc'⟩ := r
      simp only []
      split_ifs
      all_goals first
        | (simp only [List.length_cons, List.length_nil]; omega)
        | (simp only [List.length_cons]; exact Nat.succ_le_succ (ih _ _))

end BezierVerif.C03
