import BezierVerif.Lemmas.Subdivide

/-!
# C04 — subdivision and specialisation are reparametrisations of the same curve

Property theorems only.  `bern n a b v = Σ_{j≤n} C(n,j) a^(n-j) b^j v_j` (Lemmas/Shift), so
`bern n (1-σ) σ (seq row)` is the value at `σ` of the Bézier curve with control row `row`.
All statements are about the executable model `Model.Py.specializeRow / F90.specializeRow`
(`specialize_curve`: blossom dictionary resp. closed forms + column workspace) and
`Model.Py.subdivideRow / F90.subdivideRow` (`subdivide_nodes`: matrix products with the matrices
of `make_subdivision_matrices` resp. closed forms + in-place Pascal row).
-/

set_option linter.unusedSectionVars false
set_option linter.unusedVariables false

namespace BezierVerif.C04

open Finset Model BezierVerif

section Field
variable {K : Type} [Field K]

/-! ### specialisation -/

/-- the specialised curve has the same number of control points -/
theorem specialize_length (row : List K) (a b : K) :
    (Py.specializeRow row a b).length = row.length :=
  Subdivide.specializeRow_length row a b

/-- bridge: entry `i` of the Python blossom dictionary is the operator `specPt` of Lemmas/Shift
    (`i` rounds with `b` after `n-i` rounds with `a`) -/
theorem specPoint_eq (row : List K) (a b : K) (i : ℕ) (hi : i + 1 ≤ row.length) :
    specPoint a b row i = specPt (row.length - 1) a b (seq row) i :=
  Subdivide.specPoint_eq_specPt row a b i hi

/-- the specialised control points are those of `σ ↦ B(a + (b-a)σ)`: every degree, every `a`, `b`
    (also `a > b`, `a = b`, outside `[0,1]`), every `σ` -/
theorem specialize_correct (row : List K) (h : 1 ≤ row.length) (a b σ : K) :
    bern (row.length - 1) (1-σ) σ (seq (Py.specializeRow row a b))
      = bern (row.length - 1) (1 - ((1-σ)*a + σ*b)) ((1-σ)*a + σ*b) (seq row) := by
  rw [← BezierVerif.specialize_correct (row.length - 1) a b σ (seq row)]
  apply Subdivide.bern_congr
  intro j hj
  exact Subdivide.seq_specializeRow row a b j (by omega)

/-- Fortran closed form (linear) = Python dictionary -/
theorem specialize_variants_agree_linear (x y a b : K) :
    F90.specializeRow [x, y] a b = Py.specializeRow [x, y] a b := by
  simp [F90.specializeRow, Py.specializeRow, specPoint, iter, dcRound, List.range_succ]

/-- Fortran closed form (quadratic) = Python dictionary -/
theorem specialize_variants_agree_quadratic (x y z a b : K) :
    F90.specializeRow [x, y, z] a b = Py.specializeRow [x, y, z] a b := by
  simp only [F90.specializeRow, Py.specializeRow, specPoint, iter, dcRound, List.range_succ,
    List.range_zero, List.length_cons, List.length_nil, List.nil_append, List.cons_append,
    List.map_cons, List.map_nil, List.headD_cons, Nat.reduceAdd, Nat.reduceSub]
  refine congrArg₂ _ ?_ (congrArg₂ _ ?_ (congrArg₂ _ ?_ rfl)) <;> ring

/-- Fortran generic column workspace = Python dictionary (any row with at least 2 nodes; the
    Fortran routine is only reached with `num_nodes ≥ 4`) -/
theorem specialize_variants_agree_generic (row : List K) (h : 2 ≤ row.length) (a b : K) :
    F90.specializeGenericRow row a b = Py.specializeRow row a b :=
  Subdivide.f90_specializeGeneric_eq row h a b

/-- the three Fortran code paths (linear, quadratic closed forms, generic workspace) all equal the
    Python blossom dictionary.  (`2 ≤ row.length`: on a row with 0 or 1 entries the model of the
    Fortran workspace has two columns whereas the Python dictionary has 0 resp. 1 entries.) -/
theorem specialize_variants_agree (row : List K) (h : 2 ≤ row.length) (a b : K) :
    F90.specializeRow row a b = Py.specializeRow row a b := by
  match row, h with
  | [x, y], _ => exact specialize_variants_agree_linear x y a b
  | [x, y, z], _ => exact specialize_variants_agree_quadratic x y z a b
  | x :: y :: z :: w :: rest, _ =>
    exact specialize_variants_agree_generic (x :: y :: z :: w :: rest) (by simp) a b

/-! ### subdivision -/

/-- the two matrix products of `subdivide_nodes` (matrices built by the Pascal-type recurrence of
    `make_subdivision_matrices`) are the blossom specialisations to `[0, ½]` and `[½, 1]` -/
theorem subdivide_is_specialize_of_two_ne_zero (row : List K) (h : 1 ≤ row.length)
    [NeZero (2 : K)] :
    Py.subdivideRow row = (Py.specializeRow row 0 (1/2), Py.specializeRow row (1/2) 1) := by
  unfold Py.subdivideRow
  simp only
  rw [Subdivide.rowMul_leftMat row h, Subdivide.rowMul_rightMat row h]

theorem subdivide_is_specialize (row : List K) (h : 1 ≤ row.length) [CharZero K] :
    Py.subdivideRow row = (Py.specializeRow row 0 (1/2), Py.specializeRow row (1/2) 1) :=
  subdivide_is_specialize_of_two_ne_zero row h

/-- the left half is the curve `σ ↦ B(σ/2)` -/
theorem subdivide_left_correct (row : List K) (h : 1 ≤ row.length) [CharZero K] (σ : K) :
    bern (row.length - 1) (1-σ) σ (seq (Py.subdivideRow row).1)
      = bern (row.length - 1) (1 - σ/2) (σ/2) (seq row) := by
  rw [subdivide_is_specialize row h, specialize_correct row h]
  congr 1 <;> ring

/-- the right half is the curve `σ ↦ B((1+σ)/2)` -/
theorem subdivide_right_correct (row : List K) (h : 1 ≤ row.length) [CharZero K] (σ : K) :
    bern (row.length - 1) (1-σ) σ (seq (Py.subdivideRow row).2)
      = bern (row.length - 1) (1 - (1+σ)/2) ((1+σ)/2) (seq row) := by
  rw [subdivide_is_specialize row h, specialize_correct row h]
  congr 1 <;> ring

/-- Fortran closed form for 2 nodes = Python matrix product -/
theorem subdivide_variants_agree_linear (a b : K) :
    F90.subdivideRow [a, b] = Py.subdivideRow [a, b] := by
  simp only [F90.subdivideRow, Py.subdivideRow, rowMul, ncols, leftMat, rightMat, col, dot,
    leftCol, pascalHalfStep, List.range_succ, List.range_zero, List.length_cons, List.length_nil,
    List.nil_append, List.cons_append, List.map_cons, List.map_nil, List.headD_cons,
    List.zipWith_cons_cons, List.zipWith_nil_right, List.foldl_cons, List.foldl_nil,
    List.getD_cons_zero, List.getD_cons_succ, List.getD_nil, Nat.reduceAdd, Nat.reduceSub,
    Nat.reduceLT, Nat.lt_irrefl, if_true, if_false]
  refine Prod.ext (congrArg₂ _ ?_ (congrArg₂ _ ?_ rfl)) (congrArg₂ _ ?_ (congrArg₂ _ ?_ rfl)) <;>
    ring

/-- Fortran closed form for 3 nodes = Python matrix product -/
theorem subdivide_variants_agree_quadratic (a b c : K) :
    F90.subdivideRow [a, b, c] = Py.subdivideRow [a, b, c] := by
  simp only [F90.subdivideRow, Py.subdivideRow, rowMul, ncols, leftMat, rightMat, col, dot,
    leftCol, pascalHalfStep, List.range_succ, List.range_zero, List.length_cons, List.length_nil,
    List.nil_append, List.cons_append, List.map_cons, List.map_nil, List.headD_cons,
    List.zipWith_cons_cons, List.zipWith_nil_right, List.foldl_cons, List.foldl_nil,
    List.getD_cons_zero, List.getD_cons_succ, List.getD_nil, Nat.reduceAdd, Nat.reduceSub,
    Nat.reduceLT, Nat.lt_irrefl, if_true, if_false, Subdivide.quarter_eq]
  refine Prod.ext (congrArg₂ _ ?_ (congrArg₂ _ ?_ (congrArg₂ _ ?_ rfl)))
    (congrArg₂ _ ?_ (congrArg₂ _ ?_ (congrArg₂ _ ?_ rfl))) <;> ring

/-- Fortran closed form for 4 nodes = Python matrix product -/
theorem subdivide_variants_agree_cubic (a b c d : K) :
    F90.subdivideRow [a, b, c, d] = Py.subdivideRow [a, b, c, d] := by
  simp only [F90.subdivideRow, Py.subdivideRow, rowMul, ncols, leftMat, rightMat, col, dot,
    leftCol, pascalHalfStep, List.range_succ, List.range_zero, List.length_cons, List.length_nil,
    List.nil_append, List.cons_append, List.map_cons, List.map_nil, List.headD_cons,
    List.zipWith_cons_cons, List.zipWith_nil_right, List.foldl_cons, List.foldl_nil,
    List.getD_cons_zero, List.getD_cons_succ, List.getD_nil, Nat.reduceAdd, Nat.reduceSub,
    Nat.reduceLT, Nat.lt_irrefl, if_true, if_false, Subdivide.quarter_eq, Subdivide.eighth_eq]
  refine Prod.ext (congrArg₂ _ ?_ (congrArg₂ _ ?_ (congrArg₂ _ ?_ (congrArg₂ _ ?_ rfl))))
    (congrArg₂ _ ?_ (congrArg₂ _ ?_ (congrArg₂ _ ?_ (congrArg₂ _ ?_ rfl)))) <;> ring

/-- the generic Fortran path (in-place Pascal row `f90PascalRow`, explicit accumulation loops,
    reversed right half) = Python matrix products, any row with at least one node -/
theorem subdivide_variants_agree_generic (row : List K) (h : 1 ≤ row.length) :
    F90.subdivideGenericRow row = Py.subdivideRow row :=
  Subdivide.f90_subdivideGeneric_eq row h

/-- all Fortran code paths of `subdivide_nodes` equal the Python matrix products.  No assumption
    on the characteristic is needed.  (`1 ≤ row.length`: for the empty row the Python model
    multiplies by the `1 × 1` matrix and returns one entry, the Fortran loops return none.) -/
theorem subdivide_variants_agree (row : List K) (h : 1 ≤ row.length) :
    F90.subdivideRow row = Py.subdivideRow row := by
  match row, h with
  | [x], _ => exact subdivide_variants_agree_generic [x] (by simp)
  | [a, b], _ => exact subdivide_variants_agree_linear a b
  | [a, b, c], _ => exact subdivide_variants_agree_quadratic a b c
  | [a, b, c, d], _ => exact subdivide_variants_agree_cubic a b c d
  | a :: b :: c :: d :: e :: rest, _ =>
    exact subdivide_variants_agree_generic (a :: b :: c :: d :: e :: rest) (by simp)

/-- consequently the Fortran halves are the blossom specialisations, too -/
theorem f90_subdivide_is_specialize (row : List K) (h : 1 ≤ row.length) [CharZero K] :
    F90.subdivideRow row = (Py.specializeRow row 0 (1/2), Py.specializeRow row (1/2) 1) := by
  rw [subdivide_variants_agree row h, subdivide_is_specialize row h]

end Field

/-! ### junction: the two halves meet in the *same* value in any arithmetic

No arithmetic law at all is assumed about `K` (in particular `K` may be binary64 with rounding):
the statements are equalities of lists / syntactic copies. -/
section Junction
variable {K : Type} [Add K] [Sub K] [Mul K] [Div K] [Neg K] [OfNat K 0] [OfNat K 1] [NatCast K]

/-- Python: the last column of `left` and the first column of `right` are the same list, so the
    two junction points are the same `dot` of the same two lists -/
theorem py_junction_same_coefficients (n : ℕ) :
    col (leftMat (K := K) n) n = col (rightMat (K := K) n) 0 :=
  Subdivide.col_leftMat_last_eq_col_rightMat_zero n

/-- hence the junction entries of the two Python halves are the same expression -/
theorem py_junction_same_value (row : List K) :
    dot row (col (leftMat (K := K) (row.length - 1)) (row.length - 1))
      = dot row (col (rightMat (K := K) (row.length - 1)) 0) := by
  rw [py_junction_same_coefficients]

/-- Fortran closed forms copy the junction value (2, 3, 4 nodes) -/
theorem f90_junction_copy_linear (a b : K) :
    ((F90.subdivideRow [a, b]).1).getLast? = ((F90.subdivideRow [a, b]).2).head? := rfl

theorem f90_junction_copy_quadratic (a b c : K) :
    ((F90.subdivideRow [a, b, c]).1).getLast? = ((F90.subdivideRow [a, b, c]).2).head? := rfl

theorem f90_junction_copy_cubic (a b c d : K) :
    ((F90.subdivideRow [a, b, c, d]).1).getLast? = ((F90.subdivideRow [a, b, c, d]).2).head? := rfl

theorem f90_junction_copy (row : List K) (h2 : 2 ≤ row.length) (h4 : row.length ≤ 4) :
    ((F90.subdivideRow row).1).getLast? = ((F90.subdivideRow row).2).head? := by
  match row, h2, h4 with
  | [a, b], _, _ => rfl
  | [a, b, c], _, _ => rfl
  | [a, b, c, d], _, _ => rfl
  | _ :: _ :: _ :: _ :: _ :: _, _, h => simp at h; omega

/-- THE CURRENT SOURCE (both implementations, every number of nodes, since the repair e1b4310): `subdivide_nodes` ends by copying the
    last left value into the first right slot, so in ANY arithmetic - no law assumed, `K` may be binary64 - the two halves share
    their junction point bit for bit.  (`py_junction_same_value` above only says that the two junction dot products have the same
    coefficient lists; defect F-B showed that BLAS need not round two equal dot products alike, hence the copy.) -/
theorem junction_copied (lr : List K × List K) (h1 : lr.1 ≠ []) (h2 : lr.2 ≠ []) :
    (withJunction lr).1.getLast? = (withJunction lr).2.head? := by
  obtain ⟨l, r⟩ := lr
  cases r with
  | nil => exact absurd rfl h2
  | cons y ys =>
    simp only [withJunction, List.set_cons_zero, List.head?_cons]
    rw [List.getLast?_eq_getLast_of_ne_nil h1, List.getLast_eq_getElem]
    have hpos : 0 < l.length := List.length_pos_of_ne_nil h1
    have hlt : l.length - 1 < l.length := by omega
    simp [seq, List.getD_eq_getElem?_getD, List.getElem?_eq_getElem hlt]

theorem py_junction_copied (row : List K) (h : 1 ≤ row.length) :
    (Py.subdivideRowJ row).1.getLast? = (Py.subdivideRowJ row).2.head? := by
  unfold Py.subdivideRowJ
  apply junction_copied
  · intro hnil
    have := congrArg List.length hnil
    simp [rowMul, leftMat, ncols, List.range_succ_eq_map] at this
  · intro hnil
    have := congrArg List.length hnil
    simp [rowMul, rightMat, ncols, List.range_succ_eq_map] at this

theorem f90_generic_junction_copied (row : List K) (h : 1 ≤ row.length) :
    (F90.subdivideGenericRowJ row).1.getLast? = (F90.subdivideGenericRowJ row).2.head? := by
  unfold F90.subdivideGenericRowJ
  apply junction_copied
  · intro hnil
    have := congrArg List.length hnil
    simp [F90.subdivideGenericRow] at this
    subst this
    simp at h
  · intro hnil
    have := congrArg List.length hnil
    simp [F90.subdivideGenericRow] at this
    subst this
    simp at h

/-- non-vacuity / the copy is visible: on a concrete 5-node row the right half starts with the last left value -/
example : (F90.subdivideGenericRowJ ([1, 2, 4, 8, 16] : List ℚ)).2.head? = some (81 / 16) := by decide +kernel

end Junction

/-! ### non-vacuity: concrete cubic over ℚ -/

example : Py.subdivideRow ([0, 1, 3, 7] : List ℚ) = ([0, 1/2, 5/4, 19/8], [19/8, 7/2, 5, 7]) := by
  decide +kernel

example : Py.specializeRow ([0, 1, 3, 7] : List ℚ) 0 (1/2) = [0, 1/2, 5/4, 19/8] := by
  decide +kernel

example : F90.subdivideRow ([0, 1, 3, 7, 2] : List ℚ) = Py.subdivideRow [0, 1, 3, 7, 2] :=
  subdivide_variants_agree _ (by decide)

/-- theorem 5 instantiated: hypotheses are satisfiable and the conclusion computes -/
example : (Py.specializeRow ([0, 1, 3, 7] : List ℚ) 0 (1/2), Py.specializeRow ([0, 1, 3, 7] : List ℚ) (1/2) 1)
    = ([0, 1/2, 5/4, 19/8], [19/8, 7/2, 5, 7]) := by
  rw [← subdivide_is_specialize _ (by decide)]
  decide +kernel

/-- theorem 3 instantiated: the middle half `[¼, ¾]` of the cubic, evaluated at `σ = ½`, is the
    original curve at `½` (`= 19/8`, cf. the example in C01) -/
example : bern 3 (1 - 1/2) (1/2) (seq (Py.specializeRow ([0, 1, 3, 7] : List ℚ) (1/4) (3/4))) = 19/8 := by
  have h := specialize_correct ([0, 1, 3, 7] : List ℚ) (by decide) (1/4) (3/4) (1/2)
  simp only [List.length_cons, List.length_nil, Nat.reduceAdd, Nat.reduceSub] at h
  rw [h]
  simp [bern, Finset.sum_range_succ, seq, Nat.choose]
  norm_num

end BezierVerif.C04
