import BezierVerif.Lemmas.RoundingMore
import Mathlib.Algebra.Order.Field.Rat
import Mathlib.Algebra.Order.Ring.Rat

/-!
# C04 (rounding) — curve subdivision / specialisation *in rounded arithmetic*

The model functions `Model.Py.specializeRow`, `F90.specializeRow` (closed forms for 2 and 3 nodes,
column workspace otherwise), `Py.subdivideRow` (two matrix products) and `F90.subdivideRow` (closed
forms for 2, 3, 4 nodes, accumulation loops otherwise) are instantiated, unchanged, at the number
type `Fl F fl` (Lemmas/Rounding): every `+ - * /` is the exact operation followed by `fl`.

Hypotheses: the standard model `|fl x - x| ≤ u |x|`; the inputs (control values, `a`, `b`) are
numbers of the arithmetic (injected with `Fl.mk`); `0`, `1` exact.  Subdivision only: the dyadic
weights are exactly representable, `DyadicExact fl n` (`fl (m/2^k) = m/2^k` for `k ≤ n`,
`m ≤ 2^(n+1)`; binary64: every `n ≤ 52`); under it the matrices / Pascal rows computed *in* the
arithmetic are proved to be the exact ones (`subdivMat_exact`, `f90PascalRow_exact`).

Scale: the absolute blossom `absSpecPoint a b row i` – the blossom with `n-i` parameters `a` and `i`
parameters `b` of the absolute values with the weights `|1-t|`, `|t|` – which is what
`harness/props/c04.py: spec_scale` computes; for subdivision it is the same routine run on the
absolute values (`Σ_j w_j |v_j|`, all weights are non-negative).

Proven exponents `k` in `(1+u)^k - 1` (degree `n = row.length - 1`):
* specialisation, Python dictionary and Fortran column workspace: `3n`;
* Fortran closed forms: linear `3`, quadratic `6` (the middle coefficient `b + a - 2ab` relative to
  `|a| + |b| + 2|ab|`, see `specialize_rounding_f90_quadratic`);
* subdivision, all variants: `n + 2`.
The script uses `4(3n+3) u` (and `+ 8u Σ|v| (1+max(|a|,|b|))^n` for the closed forms).
-/

set_option linter.unusedSectionVars false
set_option linter.unusedVariables false

namespace BezierVerif.C04

open Finset Model BezierVerif

variable {F : Type} [Field F] [LinearOrder F] [IsStrictOrderedRing F]

/-! ### specialisation -/

/-- **`specialize_curve` (Python)**, entry `i`: `3n` roundings relative to the absolute blossom -/
theorem specialize_rounding_py (fl : F → F) (u : F) (hu : 0 ≤ u) (hfl : ∀ x, |fl x - x| ≤ u * |x|)
    (row : List F) (a b : F) (i : ℕ) (hi : i < row.length) :
    |(seq (Py.specializeRow (row.map Fl.mk) (⟨a⟩ : Fl F fl) ⟨b⟩) i).val - seq (Py.specializeRow row a b) i|
      ≤ ((1+u)^(3 * (row.length - 1)) - 1) * absSpecPoint a b row i := by
  unfold Py.specializeRow
  rw [List.length_map, Subdivide.seq_map_range _ _ _ hi, Subdivide.seq_map_range _ _ _ hi]
  exact (specPoint_near ⟨hu, hfl⟩ a b row i (by omega)).1

/-- the exact value is bounded by the scale (so the bound is a relative one whenever the blossom
    does not cancel) -/
theorem specialize_abs_le (row : List F) (a b : F) (i : ℕ) (hi : i < row.length) :
    |seq (Py.specializeRow row a b) i| ≤ absSpecPoint a b row i := by
  unfold Py.specializeRow
  rw [Subdivide.seq_map_range _ _ _ hi]
  exact (specPoint_near (fl := id) (u := 0) ⟨le_rfl, by intro x; simp⟩ a b row i (by omega)).2

/-- **`specialize_curve` (Fortran, generic column workspace, reached with `≥ 4` nodes)**: the rounds
    are applied in a different order (first `b`, then `a`), same exponent, same scale -/
theorem specialize_rounding_f90_generic (fl : F → F) (u : F) (hu : 0 ≤ u)
    (hfl : ∀ x, |fl x - x| ≤ u * |x|) (row : List F) (h : 2 ≤ row.length) (a b : F) (j : ℕ)
    (hj : j < row.length) :
    |(seq (F90.specializeGenericRow (row.map Fl.mk) (⟨a⟩ : Fl F fl) ⟨b⟩) j).val
        - seq (F90.specializeGenericRow row a b) j|
      ≤ ((1+u)^(3 * (row.length - 1)) - 1) * absSpecPoint a b row j :=
  (f90_specializeGeneric_near ⟨hu, hfl⟩ a b row h j hj).1

/-- the Fortran dispatch for `≥ 4` nodes -/
theorem specialize_rounding_f90 (fl : F → F) (u : F) (hu : 0 ≤ u)
    (hfl : ∀ x, |fl x - x| ≤ u * |x|) (row : List F) (h : 4 ≤ row.length) (a b : F) (j : ℕ)
    (hj : j < row.length) :
    |(seq (F90.specializeRow (row.map Fl.mk) (⟨a⟩ : Fl F fl) ⟨b⟩) j).val - seq (F90.specializeRow row a b) j|
      ≤ ((1+u)^(3 * (row.length - 1)) - 1) * absSpecPoint a b row j := by
  match row, h with
  | x :: y :: z :: w :: rest, _ =>
    exact specialize_rounding_f90_generic fl u hu hfl (x :: y :: z :: w :: rest) (by simp) a b j hj

/-- **Fortran closed form, 2 nodes**: `(1-a) x + a y`, three roundings, scale = absolute blossom -/
theorem specialize_rounding_f90_linear (fl : F → F) (u : F) (hu : 0 ≤ u)
    (hfl : ∀ x, |fl x - x| ≤ u * |x|) (x y a b : F) (i : ℕ) :
    |(seq (F90.specializeRow [(⟨x⟩ : Fl F fl), ⟨y⟩] ⟨a⟩ ⟨b⟩) i).val - seq (F90.specializeRow [x, y] a b) i|
      ≤ ((1+u)^3 - 1) * seq [|1 - a| * |x| + |a| * |y|, |1 - b| * |x| + |b| * |y|] i := by
  have S : StdModel fl u := ⟨hu, hfl⟩
  have ex := Near.exact 0 S x
  have ey := Near.exact 0 S y
  have h1 := ((Near.one_sub S a).mul S ex).add' S ((Near.exact 0 S a).mul S ey)
  have h2 := ((Near.one_sub S b).mul S ex).add' S ((Near.exact 0 S b).mul S ey)
  have H : NearL fl u 3 (F90.specializeRow [(⟨x⟩ : Fl F fl), ⟨y⟩] ⟨a⟩ ⟨b⟩) (F90.specializeRow [x, y] a b)
      [|1 - a| * |x| + |a| * |y|, |1 - b| * |x| + |b| * |y|] :=
    .cons h1 (.cons h2 .nil)
  exact H.bound S i

/-- the scale of the linear closed form is the absolute blossom -/
theorem specialize_scale_linear (x y a b : F) :
    [|1 - a| * |x| + |a| * |y|, |1 - b| * |x| + |b| * |y|]
      = (List.range 2).map (absSpecPoint a b [x, y]) := by
  simp [absSpecPoint, absBlossomL, dcRound, List.range_succ]

/-- **Fortran closed form, 3 nodes**: six roundings (`fl (1+1) = 2` as in binary64).  First and
    last entry: scale = absolute blossom.  Middle entry: the coefficient of `y` is computed as
    `b + a - 2ab`, so its error is relative to `|a| + |b| + 2|ab|`, not to
    `|a(1-b) + b(1-a)|` (cancellation) -/
theorem specialize_rounding_f90_quadratic (fl : F → F) (u : F) (hu : 0 ≤ u)
    (hfl : ∀ x, |fl x - x| ≤ u * |x|) (h2 : fl (1 + 1) = 1 + 1) (x y z a b : F) (i : ℕ) :
    |(seq (F90.specializeRow [(⟨x⟩ : Fl F fl), ⟨y⟩, ⟨z⟩] ⟨a⟩ ⟨b⟩) i).val
        - seq (F90.specializeRow [x, y, z] a b) i|
      ≤ ((1+u)^6 - 1) * seq
          [|1 - a| * |1 - a| * |x| + (1 + 1) * |a| * |1 - a| * |y| + |a| * |a| * |z|,
           |1 - a| * |1 - b| * |x| + (|b| + |a| + (1 + 1) * (|a| * |b|)) * |y| + |a| * |b| * |z|,
           |1 - b| * |1 - b| * |x| + (1 + 1) * |b| * |1 - b| * |y| + |b| * |b| * |z|] i := by
  have S : StdModel fl u := ⟨hu, hfl⟩
  have ex := Near.exact 0 S x
  have ey := Near.exact 0 S y
  have ez := Near.exact 0 S z
  have ea := Near.exact 0 S a
  have eb := Near.exact 0 S b
  have ma := Near.one_sub S a
  have mb := Near.one_sub S b
  have c2 : ((1 : Fl F fl) + 1) = ⟨1 + 1⟩ := by
    show (⟨fl (1 + 1)⟩ : Fl F fl) = _
    rw [h2]
  have n2 : Near fl u 0 ((1 : Fl F fl) + 1) (1 + 1) (1 + 1) := by
    rw [c2]; exact Near.exact_nonneg S 0 (by norm_num)
  have h0 := ((((ma.mul S ma).mul S ex).add' S (((n2.mul S ea).mul S ma).mul S ey)).add' S
    ((ea.mul S ea).mul S ez))
  have h1 := ((((ma.mul S mb).mul S ex).add' S
    ((((eb.add S ea).sub' S (n2.mul S (ea.mul S eb))).mul S ey))).add' S ((ea.mul S eb).mul S ez))
  have h2' := ((((mb.mul S mb).mul S ex).add' S (((n2.mul S eb).mul S mb).mul S ey)).add' S
    ((eb.mul S eb).mul S ez))
  have H : NearL fl u 6 (F90.specializeRow [(⟨x⟩ : Fl F fl), ⟨y⟩, ⟨z⟩] ⟨a⟩ ⟨b⟩)
      (F90.specializeRow [x, y, z] a b)
      [|1 - a| * |1 - a| * |x| + (1 + 1) * |a| * |1 - a| * |y| + |a| * |a| * |z|,
       |1 - a| * |1 - b| * |x| + (|b| + |a| + (1 + 1) * (|a| * |b|)) * |y| + |a| * |b| * |z|,
       |1 - b| * |1 - b| * |x| + (1 + 1) * |b| * |1 - b| * |y| + |b| * |b| * |z|] :=
    .cons (h0.mono S (by norm_num)) (.cons (h1.mono S (by norm_num)) (.cons (h2'.mono S (by norm_num)) .nil))
  exact H.bound S i

/-- first and last scale of the quadratic closed form are the absolute blossoms -/
theorem specialize_scale_quadratic_ends (x y z a b : F) :
    |1 - a| * |1 - a| * |x| + (1 + 1) * |a| * |1 - a| * |y| + |a| * |a| * |z| = absSpecPoint a b [x, y, z] 0 ∧
    |1 - b| * |1 - b| * |x| + (1 + 1) * |b| * |1 - b| * |y| + |b| * |b| * |z| = absSpecPoint a b [x, y, z] 2 := by
  constructor
  · show _ = |1 - a| * (|1 - a| * |x| + |a| * |y|) + |a| * (|1 - a| * |y| + |a| * |z|)
    ring
  · show _ = |1 - b| * (|1 - b| * |x| + |b| * |y|) + |b| * (|1 - b| * |y| + |b| * |z|)
    ring

/-- the middle scale is the absolute blossom plus the cancellation term, and it is bounded by the
    scale used in `c04.py`: `2 (1+M)^2 Σ|v|` for `|a|, |b| ≤ M`, and `(1+M)^2 Σ|v|` if moreover
    `M ≤ 1` (parameters in `[-1, 1]`) -/
theorem specialize_scale_quadratic_middle (x y z a b M : F) (ha : |a| ≤ M) (hb : |b| ≤ M) :
    |1 - a| * |1 - b| * |x| + (|b| + |a| + (1 + 1) * (|a| * |b|)) * |y| + |a| * |b| * |z|
      ≤ absSpecPoint a b [x, y, z] 1 + (|b| + |a| + (1 + 1) * (|a| * |b|)) * |y| ∧
    |1 - a| * |1 - b| * |x| + (|b| + |a| + (1 + 1) * (|a| * |b|)) * |y| + |a| * |b| * |z|
      ≤ 2 * (1 + M)^2 * (|x| + |y| + |z|) ∧
    (M ≤ 1 → |1 - a| * |1 - b| * |x| + (|b| + |a| + (1 + 1) * (|a| * |b|)) * |y| + |a| * |b| * |z|
      ≤ (1 + M)^2 * (|x| + |y| + |z|)) := by
  have hM : 0 ≤ M := le_trans (abs_nonneg _) ha
  have h1a : |1 - a| ≤ 1 + M := by
    have := abs_sub (1 : F) a; rw [abs_one] at this; linarith
  have h1b : |1 - b| ≤ 1 + M := by
    have := abs_sub (1 : F) b; rw [abs_one] at this; linarith
  have hx := abs_nonneg x
  have hy := abs_nonneg y
  have hz := abs_nonneg z
  have ha0 := abs_nonneg a
  have hb0 := abs_nonneg b
  have p1 : |1 - a| * |1 - b| ≤ (1 + M)^2 := by
    rw [sq]; exact mul_le_mul h1a h1b (abs_nonneg _) (by linarith)
  have p3 : |a| * |b| ≤ M^2 := by rw [sq]; exact mul_le_mul ha hb hb0 hM
  refine ⟨?_, ?_, ?_⟩
  · have e : absSpecPoint a b [x, y, z] 1
        = |1 - a| * |1 - b| * |x| + (|1 - b| * |a| + |b| * |1 - a|) * |y| + |a| * |b| * |z| := by
      simp [absSpecPoint, absBlossomL, dcRound]; ring
    rw [e]
    have : 0 ≤ (|1 - b| * |a| + |b| * |1 - a|) * |y| := by positivity
    linarith
  · have t1 : |1 - a| * |1 - b| * |x| ≤ 2 * (1 + M)^2 * |x| := by
      have := mul_le_mul_of_nonneg_right p1 hx; nlinarith
    have t2 : (|b| + |a| + (1 + 1) * (|a| * |b|)) * |y| ≤ 2 * (1 + M)^2 * |y| := by
      apply mul_le_mul_of_nonneg_right _ hy; nlinarith
    have t3 : |a| * |b| * |z| ≤ 2 * (1 + M)^2 * |z| := by
      apply mul_le_mul_of_nonneg_right _ hz; nlinarith
    linarith
  · intro hM1
    have t1 : |1 - a| * |1 - b| * |x| ≤ (1 + M)^2 * |x| := mul_le_mul_of_nonneg_right p1 hx
    have t2 : (|b| + |a| + (1 + 1) * (|a| * |b|)) * |y| ≤ (1 + M)^2 * |y| := by
      apply mul_le_mul_of_nonneg_right _ hy; nlinarith
    have t3 : |a| * |b| * |z| ≤ (1 + M)^2 * |z| := by
      apply mul_le_mul_of_nonneg_right _ hz; nlinarith
    linarith

/-! ### subdivision -/

/-- **`subdivide_nodes` (Python: products with the matrices of `make_subdivision_matrices`, which
    are themselves computed in the arithmetic)**: `n+2` roundings, relative to the same routine on
    the absolute values -/
theorem subdivide_rounding_py (fl : F → F) (u : F) (hu : 0 ≤ u) (hfl : ∀ x, |fl x - x| ≤ u * |x|)
    (row : List F) (hD : DyadicExact fl (row.length - 1)) (i : ℕ) :
    |(seq (Py.subdivideRow (row.map (Fl.mk (fl := fl)))).1 i).val - seq (Py.subdivideRow row).1 i|
      ≤ ((1+u)^(row.length + 1) - 1) * seq (Py.subdivideRow (row.map (|·|))).1 i ∧
    |(seq (Py.subdivideRow (row.map (Fl.mk (fl := fl)))).2 i).val - seq (Py.subdivideRow row).2 i|
      ≤ ((1+u)^(row.length + 1) - 1) * seq (Py.subdivideRow (row.map (|·|))).2 i :=
  ⟨(py_subdivide_near ⟨hu, hfl⟩ row hD).1.bound ⟨hu, hfl⟩ i,
   (py_subdivide_near ⟨hu, hfl⟩ row hD).2.bound ⟨hu, hfl⟩ i⟩

/-- **`subdivide_nodes` (Fortran: closed forms for 2, 3, 4 nodes; in-place Pascal row and
    accumulation loops otherwise)**: the same exponent `n+2` (closed forms: `2`, `4`, `5`) -/
theorem subdivide_rounding_f90 (fl : F → F) (u : F) (hu : 0 ≤ u) (hfl : ∀ x, |fl x - x| ≤ u * |x|)
    (row : List F) (hD : DyadicExact fl (max 3 (row.length - 1))) (i : ℕ) :
    |(seq (F90.subdivideRow (row.map (Fl.mk (fl := fl)))).1 i).val - seq (F90.subdivideRow row).1 i|
      ≤ ((1+u)^(row.length + 1) - 1) * seq (F90.subdivideRow (row.map (|·|))).1 i ∧
    |(seq (F90.subdivideRow (row.map (Fl.mk (fl := fl)))).2 i).val - seq (F90.subdivideRow row).2 i|
      ≤ ((1+u)^(row.length + 1) - 1) * seq (F90.subdivideRow (row.map (|·|))).2 i :=
  ⟨(f90_subdivide_near ⟨hu, hfl⟩ row hD).1.bound ⟨hu, hfl⟩ i,
   (f90_subdivide_near ⟨hu, hfl⟩ row hD).2.bound ⟨hu, hfl⟩ i⟩

/-- the scale of the subdivision bounds is the absolute blossom of `c04.py` (`[0,½]` resp. `[½,1]`) -/
theorem subdivide_scale (row : List F) (h : 1 ≤ row.length) (i : ℕ) (hi : i < row.length) :
    seq (Py.subdivideRow (row.map (|·|))).1 i = absSpecPoint 0 (1/2) row i ∧
    seq (Py.subdivideRow (row.map (|·|))).2 i = absSpecPoint (1/2) 1 row i := by
  have hl : 1 ≤ (row.map (|·|)).length := by simpa using h
  have : NeZero (2 : F) := ⟨two_ne_zero⟩
  unfold Py.subdivideRow
  simp only
  rw [Subdivide.rowMul_leftMat _ hl, Subdivide.rowMul_rightMat _ hl]
  unfold Py.specializeRow
  simp only [List.length_map]
  rw [Subdivide.seq_map_range _ _ _ hi, Subdivide.seq_map_range _ _ _ hi,
    specPoint_eq_blossomL, specPoint_eq_blossomL]
  unfold absSpecPoint
  simp only [List.length_map]
  constructor
  · rw [absBlossomL_eq_blossomL]
    intro t ht
    rcases List.mem_append.mp ht with ht | ht <;> rcases List.mem_replicate.mp ht with ⟨_, rfl⟩ <;>
      norm_num
  · rw [absBlossomL_eq_blossomL]
    intro t ht
    rcases List.mem_append.mp ht with ht | ht <;> rcases List.mem_replicate.mp ht with ⟨_, rfl⟩ <;>
      norm_num

/-! ### comparator forms: `≤ C·u·scale` for binary64 (`u ≤ 2⁻⁵³`) -/

/-- specialisation (both generic variants share the bound of `specPoint_near`): the script's
    constant `4(3n+3)` is more than `1.01·3n` -/
theorem specialize_comparator_py (fl : F → F) (u : F) (hu : 0 ≤ u) (hfl : ∀ x, |fl x - x| ≤ u * |x|)
    (hu53 : u ≤ 1 / 2^53) (row : List F) (hlen : row.length ≤ 2^38) (a b : F) (i : ℕ)
    (hi : i < row.length) :
    |(seq (Py.specializeRow (row.map Fl.mk) (⟨a⟩ : Fl F fl) ⟨b⟩) i).val - seq (Py.specializeRow row a b) i|
      ≤ (101 / 100 * (3 * ((row.length - 1 : ℕ) : F))) * u * absSpecPoint a b row i ∧
    |(seq (Py.specializeRow (row.map Fl.mk) (⟨a⟩ : Fl F fl) ⟨b⟩) i).val - seq (Py.specializeRow row a b) i|
      ≤ (4 * (3 * ((row.length - 1 : ℕ) : F) + 3)) * u * absSpecPoint a b row i := by
  have S : StdModel fl u := ⟨hu, hfl⟩
  have hN : specPoint_near S a b row i (by omega) = specPoint_near S a b row i (by omega) := rfl
  have hk : ((3 * (row.length - 1) : ℕ) : F) * u ≤ 1 / 100 :=
    ku_small u hu hu53 _ (by have : (2:ℕ)^40 = 4 * 2^38 := by norm_num
                             omega)
  have e1 : seq (Py.specializeRow (row.map Fl.mk) (⟨a⟩ : Fl F fl) ⟨b⟩) i
      = specPoint (⟨a⟩ : Fl F fl) ⟨b⟩ (row.map Fl.mk) i := by
    unfold Py.specializeRow
    rw [List.length_map, Subdivide.seq_map_range _ _ _ hi]
  have e2 : seq (Py.specializeRow row a b) i = specPoint a b row i := by
    unfold Py.specializeRow
    rw [Subdivide.seq_map_range _ _ _ hi]
  rw [e1, e2]
  have hn0 : (0 : F) ≤ ((row.length - 1 : ℕ) : F) := Nat.cast_nonneg _
  constructor
  · exact (specPoint_near S a b row i (by omega)).comparator_le S hk _ (by push_cast; linarith)
  · exact (specPoint_near S a b row i (by omega)).comparator_le S hk _ (by push_cast; linarith)

/-- Fortran column workspace: the same comparator -/
theorem specialize_comparator_f90 (fl : F → F) (u : F) (hu : 0 ≤ u) (hfl : ∀ x, |fl x - x| ≤ u * |x|)
    (hu53 : u ≤ 1 / 2^53) (row : List F) (h : 2 ≤ row.length) (hlen : row.length ≤ 2^38) (a b : F)
    (j : ℕ) (hj : j < row.length) :
    |(seq (F90.specializeGenericRow (row.map Fl.mk) (⟨a⟩ : Fl F fl) ⟨b⟩) j).val
        - seq (F90.specializeGenericRow row a b) j|
      ≤ (4 * (3 * ((row.length - 1 : ℕ) : F) + 3)) * u * absSpecPoint a b row j := by
  have S : StdModel fl u := ⟨hu, hfl⟩
  have hk : ((3 * (row.length - 1) : ℕ) : F) * u ≤ 1 / 100 :=
    ku_small u hu hu53 _ (by have : (2:ℕ)^40 = 4 * 2^38 := by norm_num
                             omega)
  have hn0 : (0 : F) ≤ ((row.length - 1 : ℕ) : F) := Nat.cast_nonneg _
  exact (f90_specializeGeneric_near S a b row h j hj).comparator_le S hk _ (by push_cast; linarith)

/-- subdivision, Python: `1.01 (n+2) u`, below the script's `4(3n+3) u` for every `n ≥ 0` -/
theorem subdivide_comparator_py (fl : F → F) (u : F) (hu : 0 ≤ u) (hfl : ∀ x, |fl x - x| ≤ u * |x|)
    (hu53 : u ≤ 1 / 2^53) (row : List F) (hlen : row.length ≤ 2^38)
    (hD : DyadicExact fl (row.length - 1)) (i : ℕ) :
    |(seq (Py.subdivideRow (row.map (Fl.mk (fl := fl)))).1 i).val - seq (Py.subdivideRow row).1 i|
      ≤ (101 / 100 * ((row.length : F) + 1)) * u * seq (Py.subdivideRow (row.map (|·|))).1 i ∧
    |(seq (Py.subdivideRow (row.map (Fl.mk (fl := fl)))).2 i).val - seq (Py.subdivideRow row).2 i|
      ≤ (101 / 100 * ((row.length : F) + 1)) * u * seq (Py.subdivideRow (row.map (|·|))).2 i := by
  have S : StdModel fl u := ⟨hu, hfl⟩
  have hk : ((row.length + 1 : ℕ) : F) * u ≤ 1 / 100 :=
    ku_small u hu hu53 _ (by have : (2:ℕ)^40 = 4 * 2^38 := by norm_num
                             omega)
  obtain ⟨h1, h2⟩ := py_subdivide_near S row hD
  exact ⟨(h1.seq S i).comparator_le S hk _ (by push_cast; linarith),
    (h2.seq S i).comparator_le S hk _ (by push_cast; linarith)⟩

/-- subdivision, Fortran -/
theorem subdivide_comparator_f90 (fl : F → F) (u : F) (hu : 0 ≤ u) (hfl : ∀ x, |fl x - x| ≤ u * |x|)
    (hu53 : u ≤ 1 / 2^53) (row : List F) (hlen : row.length ≤ 2^38)
    (hD : DyadicExact fl (max 3 (row.length - 1))) (i : ℕ) :
    |(seq (F90.subdivideRow (row.map (Fl.mk (fl := fl)))).1 i).val - seq (F90.subdivideRow row).1 i|
      ≤ (101 / 100 * ((row.length : F) + 1)) * u * seq (F90.subdivideRow (row.map (|·|))).1 i ∧
    |(seq (F90.subdivideRow (row.map (Fl.mk (fl := fl)))).2 i).val - seq (F90.subdivideRow row).2 i|
      ≤ (101 / 100 * ((row.length : F) + 1)) * u * seq (F90.subdivideRow (row.map (|·|))).2 i := by
  have S : StdModel fl u := ⟨hu, hfl⟩
  have hk : ((row.length + 1 : ℕ) : F) * u ≤ 1 / 100 :=
    ku_small u hu hu53 _ (by have : (2:ℕ)^40 = 4 * 2^38 := by norm_num
                             omega)
  obtain ⟨h1, h2⟩ := f90_subdivide_near S row hD
  exact ⟨(h1.seq S i).comparator_le S hk _ (by push_cast; linarith),
    (h2.seq S i).comparator_le S hk _ (by push_cast; linarith)⟩

/-- the closed forms of Fortran `specialize_curve` against the script's two-part tolerance
    `4(3n+3) u · blossom + 8 u · Σ|v| (1+M)^n` (`n = 2`, `|a|, |b| ≤ M ≤ 1`): the proven bound
    `1.01·6·u·(1+M)² Σ|v|` is below the second part alone -/
theorem specialize_comparator_f90_quadratic (fl : F → F) (u : F) (hu : 0 ≤ u)
    (hfl : ∀ x, |fl x - x| ≤ u * |x|) (hu53 : u ≤ 1 / 2^53) (h2 : fl (1 + 1) = 1 + 1)
    (x y z a b M : F) (ha : |a| ≤ M) (hb : |b| ≤ M) :
    |(seq (F90.specializeRow [(⟨x⟩ : Fl F fl), ⟨y⟩, ⟨z⟩] ⟨a⟩ ⟨b⟩) 1).val
        - seq (F90.specializeRow [x, y, z] a b) 1|
      ≤ 13 * u * ((1 + M)^2 * (|x| + |y| + |z|)) ∧
    (M ≤ 1 → |(seq (F90.specializeRow [(⟨x⟩ : Fl F fl), ⟨y⟩, ⟨z⟩] ⟨a⟩ ⟨b⟩) 1).val
        - seq (F90.specializeRow [x, y, z] a b) 1|
      ≤ 8 * u * ((1 + M)^2 * (|x| + |y| + |z|))) := by
  have h := specialize_rounding_f90_quadratic fl u hu hfl h2 x y z a b 1
  obtain ⟨_, s2, s1⟩ := specialize_scale_quadratic_middle x y z a b M ha hb
  have hk : ((6 : ℕ) : F) * u ≤ 1 / 100 := ku_small u hu hu53 6 (by norm_num)
  have hc := pow_sub_one_le_comparator u hu 6 hk
  have hc0 := pow_sub_one_nonneg u hu 6
  simp only [seq, List.getD_cons_succ, List.getD_cons_zero] at h
  have hT : 0 ≤ (1 + M)^2 * (|x| + |y| + |z|) := by positivity
  set Smid := |1 - a| * |1 - b| * |x| + (|b| + |a| + (1 + 1) * (|a| * |b|)) * |y| + |a| * |b| * |z|
  have hS0 : 0 ≤ Smid := by positivity
  push_cast at hc
  constructor
  · calc _ ≤ ((1+u)^6 - 1) * Smid := h
      _ ≤ (101 / 100 * (6 * u)) * (2 * (1 + M)^2 * (|x| + |y| + |z|)) :=
          mul_le_mul hc s2 hS0 (by positivity)
      _ ≤ 13 * u * ((1 + M)^2 * (|x| + |y| + |z|)) := by nlinarith
  · intro hM1
    calc _ ≤ ((1+u)^6 - 1) * Smid := h
      _ ≤ (101 / 100 * (6 * u)) * ((1 + M)^2 * (|x| + |y| + |z|)) :=
          mul_le_mul hc (s1 hM1) hS0 (by positivity)
      _ ≤ 8 * u * ((1 + M)^2 * (|x| + |y| + |z|)) := by nlinarith

/-- the non-cancelling entries of the Fortran closed forms against the script's first part
    `4(3n+3) u · blossom`: linear (`n = 1`, all entries) `1.01·3 ≤ 24`, quadratic (`n = 2`, first
    and last entry) `1.01·6 ≤ 36` -/
theorem specialize_comparator_f90_closed (fl : F → F) (u : F) (hu : 0 ≤ u)
    (hfl : ∀ x, |fl x - x| ≤ u * |x|) (hu53 : u ≤ 1 / 2^53) (h2 : fl (1 + 1) = 1 + 1) (x y z a b : F) :
    (∀ i, i < 2 →
      |(seq (F90.specializeRow [(⟨x⟩ : Fl F fl), ⟨y⟩] ⟨a⟩ ⟨b⟩) i).val - seq (F90.specializeRow [x, y] a b) i|
        ≤ 24 * u * absSpecPoint a b [x, y] i) ∧
    (∀ i, i = 0 ∨ i = 2 →
      |(seq (F90.specializeRow [(⟨x⟩ : Fl F fl), ⟨y⟩, ⟨z⟩] ⟨a⟩ ⟨b⟩) i).val
          - seq (F90.specializeRow [x, y, z] a b) i|
        ≤ 36 * u * absSpecPoint a b [x, y, z] i) := by
  have k3 : ((3 : ℕ) : F) * u ≤ 1 / 100 := ku_small u hu hu53 3 (by norm_num)
  have k6 : ((6 : ℕ) : F) * u ≤ 1 / 100 := ku_small u hu hu53 6 (by norm_num)
  have c3 := pow_sub_one_le_comparator u hu 3 k3
  have c6 := pow_sub_one_le_comparator u hu 6 k6
  push_cast at c3 c6
  constructor
  · intro i hi
    have h := specialize_rounding_f90_linear fl u hu hfl x y a b i
    rw [specialize_scale_linear] at h
    have hs : seq ((List.range 2).map (absSpecPoint a b [x, y])) i = absSpecPoint a b [x, y] i :=
      Subdivide.seq_map_range _ _ _ hi
    rw [hs] at h
    have h0 : 0 ≤ absSpecPoint a b [x, y] i :=
      le_trans (abs_nonneg _) (specialize_abs_le [x, y] a b i (by simpa using hi))
    refine le_trans h ?_
    have : (1+u)^3 - 1 ≤ 24 * u := by linarith
    exact mul_le_mul_of_nonneg_right this h0
  · intro i hi
    have h := specialize_rounding_f90_quadratic fl u hu hfl h2 x y z a b i
    obtain ⟨e0, e2⟩ := specialize_scale_quadratic_ends x y z a b
    have h0 : 0 ≤ absSpecPoint a b [x, y, z] i :=
      le_trans (abs_nonneg _) (specialize_abs_le [x, y, z] a b i (by rcases hi with rfl | rfl <;> simp))
    have hc : (1+u)^6 - 1 ≤ 36 * u := by linarith
    rcases hi with rfl | rfl
    · simp only [seq, List.getD_cons_zero] at h ⊢
      rw [e0] at h
      exact le_trans h (mul_le_mul_of_nonneg_right hc h0)
    · simp only [seq, List.getD_cons_succ, List.getD_cons_zero] at h ⊢
      rw [e2] at h
      exact le_trans h (mul_le_mul_of_nonneg_right hc h0)

/-! ### non-vacuity -/

/-- exact arithmetic satisfies every hypothesis; the bounds collapse to equalities -/
example (row : List ℚ) (a b : ℚ) (i : ℕ) (hi : i < row.length) :
    (seq (Py.specializeRow (row.map Fl.mk) (⟨a⟩ : Fl ℚ id) ⟨b⟩) i).val = seq (Py.specializeRow row a b) i := by
  have := specialize_rounding_py (F := ℚ) id 0 le_rfl (by intro x; simp) row a b i hi
  simpa [sub_eq_zero] using this

example (n : ℕ) : DyadicExact (id : ℚ → ℚ) n := fun _ _ _ _ => rfl

example (row : List ℚ) (i : ℕ) :
    (seq (F90.subdivideRow (row.map (Fl.mk (fl := (id : ℚ → ℚ))))).1 i).val = seq (F90.subdivideRow row).1 i := by
  have := (subdivide_rounding_f90 (F := ℚ) id 0 le_rfl (by intro x; simp) row
    (fun _ _ _ _ => rfl) i).1
  simpa [sub_eq_zero] using this

/-- a genuinely inexact arithmetic on `ℚ`: `fl x = x (1 + 2⁻¹⁰)` satisfies the standard model with
    `u = 2⁻¹⁰`; the specialisation bound holds for it with a non-zero right-hand side -/
example (row : List ℚ) (a b : ℚ) (i : ℕ) (hi : i < row.length) :
    |(seq (Py.specializeRow (row.map Fl.mk) (⟨a⟩ : Fl ℚ (fun x => x * (1 + 1/1024))) ⟨b⟩) i).val
        - seq (Py.specializeRow row a b) i|
      ≤ ((1 + 1/1024 : ℚ)^(3 * (row.length - 1)) - 1) * absSpecPoint a b row i :=
  specialize_rounding_py (F := ℚ) (fun x => x * (1 + 1/1024)) (1/1024) (by norm_num)
    (by intro x
        have : x * (1 + 1/1024) - x = 1/1024 * x := by ring
        rw [this, abs_mul]; norm_num) row a b i hi

/-- the subdivision theorems for an inexact arithmetic in which the dyadic weights are exact
    (`flDy`: `fl (1/3) ≠ 1/3`, `u = 2⁻¹⁰`), every row with at most 65 nodes -/
example (row : List ℚ) (h : row.length ≤ 65) (i : ℕ) :
    |(seq (F90.subdivideRow (row.map (Fl.mk (fl := flDy)))).1 i).val - seq (F90.subdivideRow row).1 i|
      ≤ ((1 + 1/1024 : ℚ)^(row.length + 1) - 1) * seq (F90.subdivideRow (row.map (|·|))).1 i :=
  (subdivide_rounding_f90 flDy (1/1024) flDy_std.hu flDy_std.hfl row (flDy_dyadic _ (by omega)) i).1

example (row : List ℚ) (h : row.length ≤ 65) (i : ℕ) :
    |(seq (Py.subdivideRow (row.map (Fl.mk (fl := flDy)))).2 i).val - seq (Py.subdivideRow row).2 i|
      ≤ ((1 + 1/1024 : ℚ)^(row.length + 1) - 1) * seq (Py.subdivideRow (row.map (|·|))).2 i :=
  (subdivide_rounding_py flDy (1/1024) flDy_std.hu flDy_std.hfl row (flDy_dyadic _ (by omega)) i).2

/-- concrete instance of the scale: the cubic `[0,1,3,7]` restricted to `[¼,¾]`, entry 1 -/
example : absSpecPoint (1/4 : ℚ) (3/4) [0, 1, -3, 7] 1 = 111 / 64 := by
  simp [absSpecPoint, absBlossomL, dcRound]
  norm_num [abs_of_nonneg, abs_of_neg]

end BezierVerif.C04
