import BezierVerif.Lemmas.Triangle

/-!
# C05 — triangle evaluation equals the bivariate Bernstein definition

Property theorems only.  A coordinate row of a degree-`d` triangle is a flat list of
`numNodes d = (d+1)(d+2)/2` numbers, rows of constant `k` bottom to top, `j` ascending inside a row
(`netOf d row j k = row[rowStart d k + j]`, `i = d - j - k`); the specification is

  `triBern d λ₁ λ₂ λ₃ w = Σ_{k ≤ d} Σ_{j ≤ d-k} C(d,k)·C(d-k,j) · λ₁^(d-k-j) λ₂^j λ₃^k · w j k`

with `C(d,k)·C(d-k,j) = d!/(i! j! k!)` (`bernstein_coefficient`).  All statements are about the
executable model `Model.Py.evalBarycentricRow`, `Model.F90.evalBarycentricRow` (`binom_val`
declared `integer(c_int)`), `Model.F90.evalBarycentricRowReal`, `Model.computeEdgeNodesRow`,
`Model.cartesian` (the transcription of `evaluate_barycentric(_multi)`, `evaluate_cartesian_multi`,
`compute_edge_nodes` of `triangle_helpers.py` / `triangle.f90`).
-/

set_option linter.unusedSectionVars false
set_option linter.unusedVariables false

namespace BezierVerif.C05

open Finset Model BezierVerif BezierVerif.Tri

section Field
variable {K : Type} [Field K] [CharZero K]

/-- the coefficient of the specification is the trinomial coefficient `d!/(i! j! k!)` -/
theorem bernstein_coefficient (d j k : ℕ) (h : j + k ≤ d) :
    (d.choose k * (d-k).choose j) * ((d-k-j).factorial * j.factorial * k.factorial) = d.factorial :=
  trinomial_coeff d j k h

/-- **evaluation is the bivariate Bernstein sum**: every degree, every control net, every weight
    triple (not only `λ₁+λ₂+λ₃ = 1`, not only non-negative weights), on either side of the curve
    routine's algorithm switch `thr` -/
theorem eval_eq_bernstein (thr d : ℕ) (row : List K) (h : row.length = numNodes d) (w : Bary K) :
    Py.evalBarycentricRow thr d row w = triBern d w.l1 w.l2 w.l3 (netOf d row) :=
  Py_evalBarycentricRow_eq thr d row w (by rw [h, numNodes_eq_rowStart])

/-- … which is what `d` rounds of the triangle de Casteljau algorithm produce -/
theorem eval_eq_de_casteljau (thr d : ℕ) (row : List K) (h : row.length = numNodes d) (w : Bary K) :
    Py.evalBarycentricRow thr d row w = ((T3 w.l1 w.l2 w.l3)^d) (netOf d row) 0 0 := by
  rw [eval_eq_bernstein thr d row h, T3_pow_apply_zero']

/-- `evaluate_barycentric_multi`: every coordinate row, every parameter row -/
theorem eval_multi_eq_bernstein (thr d : ℕ) (nodes : List (List K)) (params : List (Bary K))
    (h : ∀ row ∈ nodes, row.length = numNodes d) :
    Py.evalBarycentricMulti thr d nodes params
      = nodes.map (fun row => params.map (fun w => triBern d w.l1 w.l2 w.l3 (netOf d row))) := by
  unfold Py.evalBarycentricMulti
  apply List.map_congr_left
  intro row hrow
  apply List.map_congr_left
  intro w _
  exact eval_eq_bernstein thr d row (h row hrow) w

/-! ### Cartesian entry point -/

/-- `evaluate_cartesian_multi` is `evaluate_barycentric_multi` at `(1 - s - t, s, t)` -/
theorem cartesian_is_barycentric (thr d : ℕ) (nodes : List (List K)) (params : List (K × K)) :
    Py.evalCartesianMulti thr d nodes params
      = Py.evalBarycentricMulti thr d nodes (params.map (fun p => ⟨1 - p.1 - p.2, p.1, p.2⟩)) := rfl

theorem cartesian_is_barycentric_f90 (thr d : ℕ) (nodes : List (List K)) (params : List (K × K)) :
    F90.evalCartesianMulti thr d nodes params
      = F90.evalBarycentricMulti thr d nodes (params.map (fun p => ⟨1 - p.1 - p.2, p.1, p.2⟩)) := rfl

/-- the weights formed from Cartesian parameters are barycentric -/
theorem cartesian_weights_sum (s t : K) :
    (cartesian s t).l1 + (cartesian s t).l2 + (cartesian s t).l3 = 1 := by
  simp only [cartesian]; ring

theorem eval_cartesian_eq_bernstein (thr d : ℕ) (nodes : List (List K)) (params : List (K × K))
    (h : ∀ row ∈ nodes, row.length = numNodes d) :
    Py.evalCartesianMulti thr d nodes params
      = nodes.map (fun row => params.map (fun p => triBern d (1 - p.1 - p.2) p.1 p.2 (netOf d row))) := by
  rw [cartesian_is_barycentric, eval_multi_eq_bernstein thr d nodes _ h]
  apply List.map_congr_left
  intro row _
  rw [List.map_map]; rfl

/-! ### the three edge curves are the restrictions to the sides of the reference triangle -/

/-- side `λ₃ = 0`: `B(1-s, s, 0)` is the curve with the first edge's nodes -/
theorem edge1_is_restriction (thr d : ℕ) (row : List K) (h : row.length = numNodes d) (hd : 1 ≤ d) (s : K) :
    Py.evalBarycentricRow thr d row ⟨1 - s, s, 0⟩
      = evalBary thr (computeEdgeNodesRow d row).1 (1 - s) s :=
  Py_edge1 thr d row (by rw [h, numNodes_eq_rowStart]) hd s

/-- side `λ₁ = 0`: `B(0, 1-s, s)` is the curve with the second edge's nodes -/
theorem edge2_is_restriction (thr d : ℕ) (row : List K) (h : row.length = numNodes d) (hd : 1 ≤ d) (s : K) :
    Py.evalBarycentricRow thr d row ⟨0, 1 - s, s⟩
      = evalBary thr (computeEdgeNodesRow d row).2.1 (1 - s) s :=
  Py_edge2 thr d row (by rw [h, numNodes_eq_rowStart]) hd s

/-- side `λ₂ = 0`: `B(s, 0, 1-s)` is the curve with the third edge's nodes -/
theorem edge3_is_restriction (thr d : ℕ) (row : List K) (h : row.length = numNodes d) (hd : 1 ≤ d) (s : K) :
    Py.evalBarycentricRow thr d row ⟨s, 0, 1 - s⟩
      = evalBary thr (computeEdgeNodesRow d row).2.2 (1 - s) s :=
  Py_edge3 thr d row (by rw [h, numNodes_eq_rowStart]) hd s

/-- the three edges are closed up: end of one edge = start of the next -/
theorem edges_closed (d : ℕ) (row : List K) (h : row.length = numNodes d) :
    seq (computeEdgeNodesRow d row).1 d = seq (computeEdgeNodesRow d row).2.1 0 ∧
    seq (computeEdgeNodesRow d row).2.1 d = seq (computeEdgeNodesRow d row).2.2 0 ∧
    seq (computeEdgeNodesRow d row).2.2 d = seq (computeEdgeNodesRow d row).1 0 := by
  have hl : row.length = rowStart d (d+1) := by rw [h, numNodes_eq_rowStart]
  have a := computeEdgeNodesRow_spec d row hl d le_rfl
  have b := computeEdgeNodesRow_spec d row hl 0 (Nat.zero_le _)
  simp only [Nat.sub_self, Nat.sub_zero, Nat.add_zero] at a b
  refine ⟨?_, ?_, ?_⟩
  · rw [a.1, b.2.1]; simp [rowStart]
  · rw [a.2.1, b.2.2]
  · rw [a.2.2, b.1]; simp [rowStart]

/-! ### Fortran: `binom_val` declared `integer(c_int)` -/

/-- with a `real(c_double)` binomial the Fortran loop is the Python loop, every degree -/
theorem f90_real_agrees (thr d : ℕ) (row : List K) (w : Bary K) :
    F90.evalBarycentricRowReal thr d row w = Py.evalBarycentricRow thr d row w :=
  (F90_triLoopReal_eq thr d row w d).2.2

/-- with the 32-bit integer binomial the Fortran routine agrees with the Python routine (hence
    with the Bernstein sum) for every degree up to 29 -/
theorem f90_agrees_below_30 (thr d : ℕ) (hd : d ≤ 29) (row : List K) (h : row.length = numNodes d)
    (w : Bary K) :
    F90.evalBarycentricRow thr d row w = Py.evalBarycentricRow thr d row w :=
  (F90_triLoop_eq thr d row w (by rw [h, numNodes_eq_rowStart]) (binomAfter_exact_le_29 d hd) d le_rfl).2

theorem f90_eq_bernstein_below_30 (thr d : ℕ) (hd : d ≤ 29) (row : List K) (h : row.length = numNodes d)
    (w : Bary K) :
    F90.evalBarycentricRow thr d row w = triBern d w.l1 w.l2 w.l3 (netOf d row) := by
  rw [f90_agrees_below_30 thr d hd row h, eval_eq_bernstein thr d row h]

theorem f90_multi_agrees_below_30 (thr d : ℕ) (hd : d ≤ 29) (nodes : List (List K))
    (params : List (Bary K)) (h : ∀ row ∈ nodes, row.length = numNodes d) :
    F90.evalBarycentricMulti thr d nodes params = Py.evalBarycentricMulti thr d nodes params := by
  unfold F90.evalBarycentricMulti Py.evalBarycentricMulti
  apply List.map_congr_left
  intro row hrow
  apply List.map_congr_left
  intro w _
  exact f90_agrees_below_30 thr d hd row (h row hrow) w

end Field

/-- from degree 30 the 32-bit product `binom_val * (k + 1)` wraps around: on the all-ones net of
    degree 30 at `λ = (¼, ½, ¼)` the Fortran routine does not return the Bernstein sum `1` -/
theorem f90_overflow_counterexample :
    Py.evalBarycentricRow 55 30 (List.replicate (numNodes 30) (1:ℚ)) ⟨1/4, 1/2, 1/4⟩ = 1 ∧
    F90.evalBarycentricRow 55 30 (List.replicate (numNodes 30) (1:ℚ)) ⟨1/4, 1/2, 1/4⟩ < 0 := by
  decide +kernel

/-- the first wrong value of the running binomial: `C(30,15) = 155117520` is computed as
    `-131213633` (the product `C(30,16)·16 = 2326762800 > 2^31`) -/
theorem f90_overflow_binomial :
    F90.binomAfter 30 14 = 145422675 ∧ F90.binomAfter 30 15 = -131213633 ∧
    F90.binomAfterExact 30 15 = 155117520 := by decide +kernel

/-! ### the three corners are interpolated exactly in binary64 (laws of `IeeeLaws` only: no
associativity, no distributivity) -/
section Ieee
variable {K : Type} [Add K] [Mul K] [Sub K] [Div K] [Neg K] [OfNat K 0] [OfNat K 1] [NatCast K]
  [L : IeeeLaws K]

/-- corner `λ = (0,0,1)`: the last node, every degree, every net (Python) -/
theorem corner3_exact (thr d : ℕ) (hthr : 1 ≤ thr) (row : List K) :
    Py.evalBarycentricRow thr d row ⟨0, 0, 1⟩ = seq row (row.length - 1) :=
  Py_corner3_loop thr d hthr row d

/-- corner `λ = (0,0,1)` (Fortran, also with the 32-bit binomial and beyond degree 29) -/
theorem corner3_exact_f90 (thr d : ℕ) (hthr : 1 ≤ thr) (row : List K) :
    F90.evalBarycentricRow thr d row ⟨0, 0, 1⟩ = seq row (row.length - 1) :=
  F90_corner3_loop thr d hthr row d

/-- corner `λ = (1,0,0)`: node `0`, provided the running binomial ends in exactly `1` -/
theorem corner1_exact_of_binom (thr d : ℕ) (hd : 1 ≤ d) (row : List K) (h : row.length = numNodes d)
    (hb : pyBinomAfter K d d = 1) :
    Py.evalBarycentricRow thr d row ⟨1, 0, 0⟩ = seq row 0 := by
  have hl : row.length = rowStart d (d+1) := by rw [h, numNodes_eq_rowStart]
  obtain ⟨s1, s2, _⟩ := slice_bottom d row hl
  rw [Py_last_step thr d hd row hl, hb, evalBary_one_zero thr _ (by omega), L.one_mul, L.zero_add, s2]

/-- corner `λ = (0,1,0)`: node `d` -/
theorem corner2_exact_of_binom (thr d : ℕ) (hd : 1 ≤ d) (row : List K) (h : row.length = numNodes d)
    (hb : pyBinomAfter K d d = 1) :
    Py.evalBarycentricRow thr d row ⟨0, 1, 0⟩ = seq row d := by
  have hl : row.length = rowStart d (d+1) := by rw [h, numNodes_eq_rowStart]
  obtain ⟨s1, _, s3⟩ := slice_bottom d row hl
  rw [Py_last_step thr d hd row hl, hb, evalBary_zero_one thr _ (by omega), L.one_mul, L.zero_add, s1]
  simpa using s3

/-- the running binomial is exact (small integers are exact in binary64) up to degree 51, so the
    corners `(1,0,0)`, `(0,1,0)` are exact there -/
theorem corners_exact [N : IeeeNatLaws K] (thr d : ℕ) (hthr : 1 ≤ thr) (hd : 1 ≤ d) (hd' : d ≤ 51)
    (row : List K) (h : row.length = numNodes d) :
    Py.evalBarycentricRow thr d row ⟨1, 0, 0⟩ = seq row 0 ∧
    Py.evalBarycentricRow thr d row ⟨0, 1, 0⟩ = seq row d ∧
    Py.evalBarycentricRow thr d row ⟨0, 0, 1⟩ = seq row (numNodes d - 1) :=
  ⟨corner1_exact_of_binom thr d hd row h (pyBinomAfter_final d hd'),
   corner2_exact_of_binom thr d hd row h (pyBinomAfter_final d hd'),
   by rw [corner3_exact thr d hthr row, h]⟩

/-- Fortran with the 32-bit binomial: the three corners are exact up to degree 29 -/
theorem corners_exact_f90 [N : IeeeNatLaws K] (thr d : ℕ) (hthr : 1 ≤ thr) (hd : 1 ≤ d) (hd' : d ≤ 29)
    (row : List K) (h : row.length = numNodes d) :
    F90.evalBarycentricRow thr d row ⟨1, 0, 0⟩ = seq row 0 ∧
    F90.evalBarycentricRow thr d row ⟨0, 1, 0⟩ = seq row d ∧
    F90.evalBarycentricRow thr d row ⟨0, 0, 1⟩ = seq row (numNodes d - 1) := by
  have hl : row.length = rowStart d (d+1) := by rw [h, numNodes_eq_rowStart]
  obtain ⟨s1, s2, s3⟩ := slice_bottom d row hl
  have hb : intToK (K := K) (F90.binomAfter d d) = 1 := by
    rw [binomAfter_exact_le_29 d hd' d le_rfl]
    simp [intToK, N.natCast_one]
  refine ⟨?_, ?_, ?_⟩
  · rw [F90_last_step thr d hd row hl, hb, evalBary_one_zero thr _ (by omega), L.one_mul, L.zero_add, s2]
  · rw [F90_last_step thr d hd row hl, hb, evalBary_zero_one thr _ (by omega), L.one_mul, L.zero_add, s1]
    simpa using s3
  · rw [corner3_exact_f90 thr d hthr row, h]

/-- at degree 30 the 32-bit binomial ends in `0`, not `1`: corner `(1,0,0)` is lost -/
theorem corner1_lost_at_30 : F90.binomAfter 30 30 = 0 := by decide +kernel

end Ieee

/-! non-vacuity: a concrete quadratic triangle over ℚ -/
example : Py.evalBarycentricRow 55 2 ([0, 1, 3, 7, 2, 5] : List ℚ) ⟨1/4, 1/2, 1/4⟩ = 43/16 := by
  decide +kernel

example : triBern 2 (1/4 : ℚ) (1/2) (1/4) (netOf 2 [0, 1, 3, 7, 2, 5]) = 43/16 := by
  have h := eval_eq_bernstein 55 2 ([0, 1, 3, 7, 2, 5] : List ℚ) (by decide) ⟨1/4, 1/2, 1/4⟩
  simp only at h
  rw [← h]
  decide +kernel

example : computeEdgeNodesRow 2 ([0, 1, 3, 7, 2, 5] : List ℚ) = ([0, 1, 3], [3, 2, 5], [5, 7, 0]) := by
  decide +kernel

end BezierVerif.C05
