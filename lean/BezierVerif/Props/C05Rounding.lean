import BezierVerif.Lemmas.TriRoundingTables

/-!
# C05 (rounding) — triangle evaluation *in rounded arithmetic* stays within a small multiple of the
# unit round-off of the bivariate Bernstein sum, relative to the sum of the magnitudes of its terms

The model `Model.Py.evalBarycentricRow` is instantiated, unchanged, at the number type `Fl F fl`
(Lemmas/Rounding): every `+ - * /` is the exact operation of the ordered field `F` followed by
`fl`.  Hypotheses: the standard model `|fl x - x| ≤ u·|x|` (binary64, round to nearest, no
over/underflow: `u = 2⁻⁵³`); weights and control values are numbers of the arithmetic; `0`, `1`
and loop counters are exact; the running binomials are exact (`TriBinomExact`, `VSBinomExact`,
discharged for binary64 and every degree below the extracted switch in `eval_rounding_py`).
-/

set_option linter.unusedSectionVars false

namespace BezierVerif.C05

open Finset Model BezierVerif BezierVerif.Tri BezierVerif.Generated

variable {F : Type} [Field F] [LinearOrder F] [IsStrictOrderedRing F]

/-- the magnitude sum `Σ |C · λ₁^i λ₂^j λ₃^k · v_ijk|` is the Bernstein sum of the absolute values -/
theorem triBern_abs (d : ℕ) (l1 l2 l3 : F) (row : List F) :
    triBern d |l1| |l2| |l3| (netOf d (row.map (|·|)))
      = ∑ k ∈ range (d+1), ∑ j ∈ range (d-k+1),
          |((d.choose k * (d-k).choose j : ℕ) : F) * l1^(d-k-j) * l2^j * l3^k * netOf d row j k| := by
  unfold triBern
  apply Finset.sum_congr rfl; intro k _
  apply Finset.sum_congr rfl; intro j _
  simp only [netOf]
  rw [seq_map_abs, abs_mul, abs_mul, abs_mul, abs_mul, abs_pow, abs_pow, abs_pow, Nat.abs_cast]

/-- **`evaluate_barycentric` in rounded arithmetic** vs the bivariate Bernstein sum, every degree:
    `|fl-value − Σ term| ≤ ((1+u)^(2d+4) − 1) · Σ |term|` -/
theorem eval_rounding (fl : F → F) (u : F) (hu : 0 ≤ u) (hfl : ∀ x, |fl x - x| ≤ u * |x|)
    (thr d : ℕ) (hbin : TriBinomExact fl d)
    (hrows : ∀ n, 1 ≤ n → n ≤ d → n + 1 ≤ thr → VSBinomExact fl n)
    (row : List F) (h : row.length = numNodes d) (w : Bary F) :
    |(Py.evalBarycentricRow thr d (row.map Fl.mk) (mkBary fl w)).val
        - triBern d w.l1 w.l2 w.l3 (netOf d row)|
      ≤ ((1+u)^(2*d+4) - 1)
          * ∑ k ∈ range (d+1), ∑ j ∈ range (d-k+1),
              |((d.choose k * (d-k).choose j : ℕ) : F) * w.l1^(d-k-j) * w.l2^j * w.l3^k * netOf d row j k| := by
  have hlen : row.length = rowStart d (d+1) := by rw [h, numNodes_eq_rowStart]
  have hlenA : (row.map (|·|)).length = rowStart d (d+1) := by rw [List.length_map, hlen]
  have := (triLoop_rounding fl u hu hfl thr d hbin hrows row hlen w d le_rfl).1
  rw [← triBern_abs, ← Py_evalBarycentricRow_eq thr d row w hlen]
  have ha := Py_evalBarycentricRow_eq thr d (row.map (|·|)) (absBary w) hlenA
  simp only [absBary] at ha
  rw [← ha]
  exact this

/-- the bound for the Python implementation's extracted switch: standard model plus "integers with
    odd part `< 2^53` are exact"; no hypothesis on binomials is left for any degree below the
    switch (`d ≤ 54`) -/
theorem eval_rounding_py (fl : F → F) (u : F) (hu : 0 ≤ u) (hfl : ∀ x, |fl x - x| ≤ u * |x|)
    (hrep : Rep53Exact fl) (d : ℕ) (hd : d < py_curve_vs_threshold)
    (row : List F) (h : row.length = numNodes d) (w : Bary F) :
    |(Py.evalBarycentricRow py_curve_vs_threshold d (row.map Fl.mk) (mkBary fl w)).val
        - triBern d w.l1 w.l2 w.l3 (netOf d row)|
      ≤ ((1+u)^(2*d+4) - 1)
          * ∑ k ∈ range (d+1), ∑ j ∈ range (d-k+1),
              |((d.choose k * (d-k).choose j : ℕ) : F) * w.l1^(d-k-j) * w.l2^j * w.l3^k * netOf d row j k| :=
  eval_rounding fl u hu hfl _ d
    (triBinomExact_below fl hrep _ Tables.C01.binomials_exact_py d hd)
    (fun n _ hn _ => vsBinomExact_below fl hrep _ Tables.C01.binomials_exact_py n (by omega))
    row h w

/-! non-vacuity: `fl := id`, `u := 0` satisfy every hypothesis; the bound collapses and the rounded
run *is* the Bernstein sum -/
example (thr d : ℕ) (row : List ℚ) (h : row.length = numNodes d) (w : Bary ℚ) :
    (Py.evalBarycentricRow thr d (row.map Fl.mk) (mkBary (id : ℚ → ℚ) w)).val
      = triBern d w.l1 w.l2 w.l3 (netOf d row) := by
  have := eval_rounding (F := ℚ) id 0 le_rfl (by intro x; simp) thr d
    (fun _ _ => ⟨rfl, rfl⟩) (fun _ _ _ _ _ _ => ⟨rfl, rfl⟩) row h w
  simpa [sub_eq_zero] using this

end BezierVerif.C05
