import BezierVerif.Lemmas.RoundingMore
import BezierVerif.Lemmas.TriRoundingTables
import Mathlib.Algebra.Order.Field.Rat
import Mathlib.Algebra.Order.Ring.Rat

/-!
# C05 (rounding, part 2) — the Fortran loop of `evaluate_barycentric_multi` and the Cartesian entry
# points, in rounded arithmetic

`Model.F90.evalBarycentricRowReal` (the Fortran loop with a `real(c_double)` binomial: the
accumulator starts as a *copy* of the last control value and is updated as
`λ₃ * evaluated + binom * row_result`) is instantiated at `Fl F fl` exactly like the Python loop in
`Props/C05Rounding.lean`.  The exponent is the same, `2d+4`: the product order is immaterial and the
copy only saves the rounding of `0 + v`.

Cartesian entry points (`evaluate_cartesian_multi`, both implementations): the weight
`λ₁ = fl (fl (1 - s) - t)` is formed in the arithmetic.
* `cartesian_rounding_*_computed`: against the Bernstein sum *at the weights actually used*
  `(λ̂₁, s, t)` (what `harness/props/c05.py` compares with, see `impl_weights`): exponent `2d+4`.
* `cartesian_rounding_*`: against the Bernstein sum at the exact `λ₁ = 1 - s - t`: `2d` more
  factors `(1+u)` (two per power of `λ₁`), and the scale has `|1 - s| + |t|` in place of `|λ₁|`
  (the subtractions cancel near the edge `s + t = 1`): exponent `4d+4`.
Comparator: both are below `4(3d+6) u · scale` (`u ≤ 2⁻⁵³`, `d ≤ 2^37`).
-/

set_option linter.unusedSectionVars false
set_option linter.unusedVariables false

namespace BezierVerif.C05

open Finset Model BezierVerif BezierVerif.Tri BezierVerif.Generated

variable {F : Type} [Field F] [LinearOrder F] [IsStrictOrderedRing F]

/-- the magnitude sum as the Bernstein sum of the absolute values (same statement as
    `C05.triBern_abs`, with an arbitrary non-negative first weight) -/
theorem triBern_abs' (d : ℕ) (L l2 l3 : F) (hL : 0 ≤ L) (row : List F) :
    triBern d L |l2| |l3| (netOf d (row.map (|·|)))
      = ∑ k ∈ range (d+1), ∑ j ∈ range (d-k+1),
          |((d.choose k * (d-k).choose j : ℕ) : F) * L^(d-k-j) * l2^j * l3^k * netOf d row j k| := by
  unfold triBern
  apply Finset.sum_congr rfl; intro k _
  apply Finset.sum_congr rfl; intro j _
  simp only [netOf]
  rw [seq_map_abs, abs_mul, abs_mul, abs_mul, abs_mul, abs_pow, abs_pow, abs_pow, Nat.abs_cast,
    abs_of_nonneg hL]

/-- **`evaluate_barycentric_multi` (Fortran, real binomial) in rounded arithmetic** vs the bivariate
    Bernstein sum, every degree: `|fl-value − Σ term| ≤ ((1+u)^(2d+4) − 1) · Σ |term|` -/
theorem eval_rounding_f90_real (fl : F → F) (u : F) (hu : 0 ≤ u) (hfl : ∀ x, |fl x - x| ≤ u * |x|)
    (thr d : ℕ) (hbin : TriBinomExact fl d)
    (hrows : ∀ n, 1 ≤ n → n ≤ d → n + 1 ≤ thr → VSBinomExact fl n)
    (row : List F) (h : row.length = numNodes d) (w : Bary F) :
    |(F90.evalBarycentricRowReal thr d (row.map Fl.mk) (mkBary fl w)).val
        - triBern d w.l1 w.l2 w.l3 (netOf d row)|
      ≤ ((1+u)^(2*d+4) - 1)
          * ∑ k ∈ range (d+1), ∑ j ∈ range (d-k+1),
              |((d.choose k * (d-k).choose j : ℕ) : F) * w.l1^(d-k-j) * w.l2^j * w.l3^k * netOf d row j k| := by
  have := (f90_evalBarycentricRowReal_near ⟨hu, hfl⟩ thr d hbin hrows row h w).1
  rw [triBern_abs' d |w.l1| w.l2 w.l3 (abs_nonneg _) row] at this
  simpa [abs_pow, abs_mul] using this

/-- the bound for the Fortran implementation's extracted switch: standard model plus "integers with
    odd part `< 2^53` are exact"; no hypothesis on binomials is left below the switch -/
theorem eval_rounding_f90 (fl : F → F) (u : F) (hu : 0 ≤ u) (hfl : ∀ x, |fl x - x| ≤ u * |x|)
    (hrep : Rep53Exact fl) (d : ℕ) (hd : d < f90_curve_vs_threshold)
    (row : List F) (h : row.length = numNodes d) (w : Bary F) :
    |(F90.evalBarycentricRowReal f90_curve_vs_threshold d (row.map Fl.mk) (mkBary fl w)).val
        - triBern d w.l1 w.l2 w.l3 (netOf d row)|
      ≤ ((1+u)^(2*d+4) - 1)
          * ∑ k ∈ range (d+1), ∑ j ∈ range (d-k+1),
              |((d.choose k * (d-k).choose j : ℕ) : F) * w.l1^(d-k-j) * w.l2^j * w.l3^k * netOf d row j k| :=
  eval_rounding_f90_real fl u hu hfl _ d
    (triBinomExact_below fl hrep _ Tables.C01.binomials_exact_f90 d hd)
    (fun n _ hn _ => vsBinomExact_below fl hrep _ Tables.C01.binomials_exact_f90 n (by omega))
    row h w

/-- **the shipped Fortran loop (`binom_val` declared `integer(c_int)`)**: for every degree `d ≤ 29`
    (where the 32-bit binomial is the true one, `Tri.binomAfter_exact_le_29`) it computes in the
    rounded arithmetic exactly the value of the real-binomial loop, for every input – so every
    theorem of this file about `F90.evalBarycentricRowReal` is a theorem about
    `F90.evalBarycentricRow` for these degrees (Cartesian entry points included) -/
theorem f90_int32_eq_real (fl : F → F) (thr d : ℕ) (hd : d ≤ 29) (hbin : TriBinomExact fl d)
    (row : List (Fl F fl)) (w : Bary (Fl F fl)) :
    F90.evalBarycentricRow thr d row w = F90.evalBarycentricRowReal thr d row w :=
  F90_evalBarycentricRow_eq_real_fl thr d hbin (fun t ht => binomAfter_exact_le_29 d hd t ht) row w

/-- the bound for the shipped Fortran loop and the extracted switch, `d ≤ 29` -/
theorem eval_rounding_f90_int32 (fl : F → F) (u : F) (hu : 0 ≤ u) (hfl : ∀ x, |fl x - x| ≤ u * |x|)
    (hrep : Rep53Exact fl) (d : ℕ) (hd : d ≤ 29) (hd' : d < f90_curve_vs_threshold)
    (row : List F) (h : row.length = numNodes d) (w : Bary F) :
    |(F90.evalBarycentricRow f90_curve_vs_threshold d (row.map Fl.mk) (mkBary fl w)).val
        - triBern d w.l1 w.l2 w.l3 (netOf d row)|
      ≤ ((1+u)^(2*d+4) - 1)
          * ∑ k ∈ range (d+1), ∑ j ∈ range (d-k+1),
              |((d.choose k * (d-k).choose j : ℕ) : F) * w.l1^(d-k-j) * w.l2^j * w.l3^k * netOf d row j k| := by
  rw [f90_int32_eq_real fl _ d hd (triBinomExact_below fl hrep _ Tables.C01.binomials_exact_f90 d hd')]
  exact eval_rounding_f90 fl u hu hfl hrep d hd' row h w

/-! ### Cartesian entry points -/

/-- Python, against the Bernstein sum at the weights actually used `(fl (fl (1-s) - t), s, t)` -/
theorem cartesian_rounding_py_computed (fl : F → F) (u : F) (hu : 0 ≤ u)
    (hfl : ∀ x, |fl x - x| ≤ u * |x|) (thr d : ℕ) (hbin : TriBinomExact fl d)
    (hrows : ∀ n, 1 ≤ n → n ≤ d → n + 1 ≤ thr → VSBinomExact fl n)
    (row : List F) (h : row.length = numNodes d) (s t : F) :
    |(Py.evalBarycentricRow thr d (row.map Fl.mk) (cartesian (⟨s⟩ : Fl F fl) ⟨t⟩)).val
        - triBern d (fl (fl (1 - s) - t)) s t (netOf d row)|
      ≤ ((1+u)^(2*d+4) - 1)
          * triBern d |fl (fl (1 - s) - t)| |s| |t| (netOf d (row.map (|·|))) := by
  rw [cartesian_fl]
  exact (py_evalBarycentricRow_near ⟨hu, hfl⟩ thr d hbin hrows row h ⟨fl (fl (1 - s) - t), s, t⟩).1

/-- Fortran, against the Bernstein sum at the weights actually used -/
theorem cartesian_rounding_f90_computed (fl : F → F) (u : F) (hu : 0 ≤ u)
    (hfl : ∀ x, |fl x - x| ≤ u * |x|) (thr d : ℕ) (hbin : TriBinomExact fl d)
    (hrows : ∀ n, 1 ≤ n → n ≤ d → n + 1 ≤ thr → VSBinomExact fl n)
    (row : List F) (h : row.length = numNodes d) (s t : F) :
    |(F90.evalBarycentricRowReal thr d (row.map Fl.mk) (cartesian (⟨s⟩ : Fl F fl) ⟨t⟩)).val
        - triBern d (fl (fl (1 - s) - t)) s t (netOf d row)|
      ≤ ((1+u)^(2*d+4) - 1)
          * triBern d |fl (fl (1 - s) - t)| |s| |t| (netOf d (row.map (|·|))) := by
  rw [cartesian_fl]
  exact (f90_evalBarycentricRowReal_near ⟨hu, hfl⟩ thr d hbin hrows row h ⟨fl (fl (1 - s) - t), s, t⟩).1

/-- **Python `evaluate_cartesian_multi`** against the exact weights `(1 - s - t, s, t)`:
    exponent `4d+4`, scale with `|1 - s| + |t|` in place of `|λ₁|` -/
theorem cartesian_rounding_py (fl : F → F) (u : F) (hu : 0 ≤ u)
    (hfl : ∀ x, |fl x - x| ≤ u * |x|) (thr d : ℕ) (hbin : TriBinomExact fl d)
    (hrows : ∀ n, 1 ≤ n → n ≤ d → n + 1 ≤ thr → VSBinomExact fl n)
    (row : List F) (h : row.length = numNodes d) (s t : F) :
    |(Py.evalBarycentricRow thr d (row.map Fl.mk) (cartesian (⟨s⟩ : Fl F fl) ⟨t⟩)).val
        - triBern d (1 - s - t) s t (netOf d row)|
      ≤ ((1+u)^(4*d+4) - 1)
          * ∑ k ∈ range (d+1), ∑ j ∈ range (d-k+1),
              |((d.choose k * (d-k).choose j : ℕ) : F) * (|1 - s| + |t|)^(d-k-j) * s^j * t^k
                * netOf d row j k| := by
  have S : StdModel fl u := ⟨hu, hfl⟩
  rw [cartesian_fl, ← triBern_abs' d (|1 - s| + |t|) s t (by positivity) row]
  have := cartesian_perturb S d _ row s t
    (py_evalBarycentricRow_near S thr d hbin hrows row h ⟨fl (fl (1 - s) - t), s, t⟩)
  exact (this.cast (by ring : 2*d+4 + 2*d = 4*d+4)).1

/-- **Fortran `evaluate_cartesian_multi`** against the exact weights -/
theorem cartesian_rounding_f90 (fl : F → F) (u : F) (hu : 0 ≤ u)
    (hfl : ∀ x, |fl x - x| ≤ u * |x|) (thr d : ℕ) (hbin : TriBinomExact fl d)
    (hrows : ∀ n, 1 ≤ n → n ≤ d → n + 1 ≤ thr → VSBinomExact fl n)
    (row : List F) (h : row.length = numNodes d) (s t : F) :
    |(F90.evalBarycentricRowReal thr d (row.map Fl.mk) (cartesian (⟨s⟩ : Fl F fl) ⟨t⟩)).val
        - triBern d (1 - s - t) s t (netOf d row)|
      ≤ ((1+u)^(4*d+4) - 1)
          * ∑ k ∈ range (d+1), ∑ j ∈ range (d-k+1),
              |((d.choose k * (d-k).choose j : ℕ) : F) * (|1 - s| + |t|)^(d-k-j) * s^j * t^k
                * netOf d row j k| := by
  have S : StdModel fl u := ⟨hu, hfl⟩
  rw [cartesian_fl, ← triBern_abs' d (|1 - s| + |t|) s t (by positivity) row]
  have := cartesian_perturb S d _ row s t
    (f90_evalBarycentricRowReal_near S thr d hbin hrows row h ⟨fl (fl (1 - s) - t), s, t⟩)
  exact (this.cast (by ring : 2*d+4 + 2*d = 4*d+4)).1

/-- the Cartesian bounds for the extracted switches (standard model plus "integers with odd part
    `< 2^53` are exact"): no hypothesis on binomials is left below the switch.  Python variant and
    Fortran variant (real binomial; the shipped `integer(c_int)` loop for `d ≤ 29` by
    `f90_int32_eq_real`) -/
theorem cartesian_rounding_extracted (fl : F → F) (u : F) (hu : 0 ≤ u)
    (hfl : ∀ x, |fl x - x| ≤ u * |x|) (hrep : Rep53Exact fl) (d : ℕ)
    (row : List F) (h : row.length = numNodes d) (s t : F) :
    (d < py_curve_vs_threshold →
      |(Py.evalBarycentricRow py_curve_vs_threshold d (row.map Fl.mk) (cartesian (⟨s⟩ : Fl F fl) ⟨t⟩)).val
          - triBern d (1 - s - t) s t (netOf d row)|
        ≤ ((1+u)^(4*d+4) - 1)
            * ∑ k ∈ range (d+1), ∑ j ∈ range (d-k+1),
                |((d.choose k * (d-k).choose j : ℕ) : F) * (|1 - s| + |t|)^(d-k-j) * s^j * t^k
                  * netOf d row j k|) ∧
    (d < f90_curve_vs_threshold →
      |(F90.evalBarycentricRowReal f90_curve_vs_threshold d (row.map Fl.mk)
            (cartesian (⟨s⟩ : Fl F fl) ⟨t⟩)).val - triBern d (1 - s - t) s t (netOf d row)|
        ≤ ((1+u)^(4*d+4) - 1)
            * ∑ k ∈ range (d+1), ∑ j ∈ range (d-k+1),
                |((d.choose k * (d-k).choose j : ℕ) : F) * (|1 - s| + |t|)^(d-k-j) * s^j * t^k
                  * netOf d row j k|) :=
  ⟨fun hd => cartesian_rounding_py fl u hu hfl _ d
      (triBinomExact_below fl hrep _ Tables.C01.binomials_exact_py d hd)
      (fun n _ hn _ => vsBinomExact_below fl hrep _ Tables.C01.binomials_exact_py n (by omega)) row h s t,
   fun hd => cartesian_rounding_f90 fl u hu hfl _ d
      (triBinomExact_below fl hrep _ Tables.C01.binomials_exact_f90 d hd)
      (fun n _ hn _ => vsBinomExact_below fl hrep _ Tables.C01.binomials_exact_f90 n (by omega)) row h s t⟩

/-- the multi-point entry points are, entry by entry, the expressions bounded above -/
theorem evalCartesianMulti_fl (fl : F → F) (thr d : ℕ) (nodes : List (List F)) (params : List (F × F)) :
    F90.evalCartesianMultiReal thr d (nodes.map (List.map (Fl.mk (fl := fl))))
        (params.map (fun p => ((⟨p.1⟩ : Fl F fl), (⟨p.2⟩ : Fl F fl))))
      = nodes.map (fun row => params.map (fun p =>
          F90.evalBarycentricRowReal thr d (row.map Fl.mk) (cartesian (⟨p.1⟩ : Fl F fl) ⟨p.2⟩))) ∧
    Py.evalCartesianMulti thr d (nodes.map (List.map (Fl.mk (fl := fl))))
        (params.map (fun p => ((⟨p.1⟩ : Fl F fl), (⟨p.2⟩ : Fl F fl))))
      = nodes.map (fun row => params.map (fun p =>
          Py.evalBarycentricRow thr d (row.map Fl.mk) (cartesian (⟨p.1⟩ : Fl F fl) ⟨p.2⟩))) := by
  simp [F90.evalCartesianMultiReal, F90.evalBarycentricMultiReal, Py.evalCartesianMulti,
    Py.evalBarycentricMulti, List.map_map, Function.comp_def]

/-! ### comparator forms: the constant `4(3d+6)` of `c05.py` -/

/-- barycentric entry points (Python and Fortran): `1.01 (2d+4) ≤ 4 (3d+6)` -/
theorem eval_comparator (fl : F → F) (u : F) (hu : 0 ≤ u) (hfl : ∀ x, |fl x - x| ≤ u * |x|)
    (hu53 : u ≤ 1 / 2^53) (thr d : ℕ) (hd : d ≤ 2^37) (hbin : TriBinomExact fl d)
    (hrows : ∀ n, 1 ≤ n → n ≤ d → n + 1 ≤ thr → VSBinomExact fl n)
    (row : List F) (h : row.length = numNodes d) (w : Bary F) :
    |(F90.evalBarycentricRowReal thr d (row.map Fl.mk) (mkBary fl w)).val
        - triBern d w.l1 w.l2 w.l3 (netOf d row)|
      ≤ (4 * (3 * (d : F) + 6)) * u * triBern d |w.l1| |w.l2| |w.l3| (netOf d (row.map (|·|))) ∧
    |(Py.evalBarycentricRow thr d (row.map Fl.mk) (mkBary fl w)).val
        - triBern d w.l1 w.l2 w.l3 (netOf d row)|
      ≤ (4 * (3 * (d : F) + 6)) * u * triBern d |w.l1| |w.l2| |w.l3| (netOf d (row.map (|·|))) := by
  have S : StdModel fl u := ⟨hu, hfl⟩
  have hk : ((2*d+4 : ℕ) : F) * u ≤ 1 / 100 :=
    ku_small u hu hu53 _ (by have : (2:ℕ)^40 = 8 * 2^37 := by norm_num
                             omega)
  have hd0 : (0 : F) ≤ (d : F) := Nat.cast_nonneg _
  exact ⟨(f90_evalBarycentricRowReal_near S thr d hbin hrows row h w).comparator_le S hk _
      (by push_cast; linarith),
    (py_evalBarycentricRow_near S thr d hbin hrows row h w).comparator_le S hk _
      (by push_cast; linarith)⟩

/-- Cartesian entry points against the exact `λ₁`: `1.01 (4d+4) ≤ 4 (3d+6)` -/
theorem cartesian_comparator (fl : F → F) (u : F) (hu : 0 ≤ u) (hfl : ∀ x, |fl x - x| ≤ u * |x|)
    (hu53 : u ≤ 1 / 2^53) (thr d : ℕ) (hd : d ≤ 2^37) (hbin : TriBinomExact fl d)
    (hrows : ∀ n, 1 ≤ n → n ≤ d → n + 1 ≤ thr → VSBinomExact fl n)
    (row : List F) (h : row.length = numNodes d) (s t : F) :
    |(F90.evalBarycentricRowReal thr d (row.map Fl.mk) (cartesian (⟨s⟩ : Fl F fl) ⟨t⟩)).val
        - triBern d (1 - s - t) s t (netOf d row)|
      ≤ (4 * (3 * (d : F) + 6)) * u * triBern d (|1 - s| + |t|) |s| |t| (netOf d (row.map (|·|))) ∧
    |(Py.evalBarycentricRow thr d (row.map Fl.mk) (cartesian (⟨s⟩ : Fl F fl) ⟨t⟩)).val
        - triBern d (1 - s - t) s t (netOf d row)|
      ≤ (4 * (3 * (d : F) + 6)) * u * triBern d (|1 - s| + |t|) |s| |t| (netOf d (row.map (|·|))) := by
  have S : StdModel fl u := ⟨hu, hfl⟩
  have hk : ((2*d+4 + 2*d : ℕ) : F) * u ≤ 1 / 100 :=
    ku_small u hu hu53 _ (by have : (2:ℕ)^40 = 8 * 2^37 := by norm_num
                             omega)
  have hd0 : (0 : F) ≤ (d : F) := Nat.cast_nonneg _
  rw [cartesian_fl]
  exact ⟨(cartesian_perturb S d _ row s t
      (f90_evalBarycentricRowReal_near S thr d hbin hrows row h ⟨fl (fl (1 - s) - t), s, t⟩)).comparator_le
        S hk _ (by push_cast; linarith),
    (cartesian_perturb S d _ row s t
      (py_evalBarycentricRow_near S thr d hbin hrows row h ⟨fl (fl (1 - s) - t), s, t⟩)).comparator_le
        S hk _ (by push_cast; linarith)⟩

/-! ### non-vacuity -/

/-- exact arithmetic: every hypothesis holds, the rounded Fortran loop *is* the Bernstein sum -/
example (thr d : ℕ) (row : List ℚ) (h : row.length = numNodes d) (w : Bary ℚ) :
    (F90.evalBarycentricRowReal thr d (row.map Fl.mk) (mkBary (id : ℚ → ℚ) w)).val
      = triBern d w.l1 w.l2 w.l3 (netOf d row) := by
  have := eval_rounding_f90_real (F := ℚ) id 0 le_rfl (by intro x; simp) thr d
    (fun _ _ => ⟨rfl, rfl⟩) (fun _ _ _ _ _ _ => ⟨rfl, rfl⟩) row h w
  simpa [sub_eq_zero] using this

/-- exact arithmetic, Cartesian entry -/
example (thr d : ℕ) (row : List ℚ) (h : row.length = numNodes d) (s t : ℚ) :
    (F90.evalBarycentricRowReal thr d (row.map Fl.mk) (cartesian (⟨s⟩ : Fl ℚ id) ⟨t⟩)).val
      = triBern d (1 - s - t) s t (netOf d row) := by
  have := cartesian_rounding_f90 (F := ℚ) id 0 le_rfl (by intro x; simp) thr d
    (fun _ _ => ⟨rfl, rfl⟩) (fun _ _ _ _ _ _ => ⟨rfl, rfl⟩) row h s t
  simpa [sub_eq_zero] using this

end BezierVerif.C05
