import BezierVerif.Lemmas.Classify

/-!
# C06 — triangle-triangle intersection: component theorems about the decision functions

The boundary walk as a whole (`basic_interior_combine`) is NOT proved (the property is `partial`);
the statements below are about the transcriptions in `Model/Classify.lean` of
`classify_intersection` (+ corner handling), `handle_ends`, `classify_coincident`, `should_use`,
`to_front`, `ends_to_curve`, `verify_edge_segments` and the bounding-box gate of `generic_intersect`,
over an arbitrary linearly ordered field.  The same functions, instantiated at `ℚ`, are replayed
against every recorded call of the pure-Python run on the lattice (harness/props/c06.py).
-/

set_option linter.unusedSectionVars false
set_option linter.unusedVariables false

namespace BezierVerif.C06

open Model Model.Classify ClassifyLemmas

variable {K : Type} [Field K] [LinearOrder K] [IsStrictOrderedRing K]

/-! ### `classify_intersection` -/

/-- an intersection at the END of an edge is refused (the code raises `ValueError`) -/
theorem classify_edge_end_raises (s t : K) (T1 T2 p1 p2 : List K) (c1 n1 c2 n2 : K)
    (h : s = 1 ∨ t = 1) :
    classifyWithTangents s t T1 T2 p1 p2 c1 n1 c2 n2 = .error .valueError := by
  unfold classifyWithTangents
  simp [h]

/-- a corner where the triangles only "kiss" is classified `IGNORED_CORNER` -/
theorem classify_ignored_corner (s t : K) (T1 T2 p1 p2 : List K) (c1 n1 c2 n2 : K)
    (hs1 : s ≠ 1) (ht1 : t ≠ 1) (h : ignoredCorner s t T1 T2 p1 p2 = true) :
    classifyWithTangents s t T1 T2 p1 p2 c1 n1 c2 n2 = .ok .ignoredCorner := by
  unfold classifyWithTangents
  simp [hs1, ht1, h]

/-- transversal intersection that is not an ignored corner: with `|T₁ × T₂| > ALMOST_TANGENT = 2⁻⁵⁰` the
    result is `FIRST` when `T₁ × T₂ < 0` and `SECOND` otherwise — exactly the code's two comparisons -/
theorem classify_transversal_of_not_ignored (s t : K) (T1 T2 p1 p2 : List K) (c1 n1 c2 n2 : K)
    (hs1 : s ≠ 1) (ht1 : t ≠ 1) (hic : ignoredCorner s t T1 T2 p1 p2 = false)
    (h : almostTangent < |cross2 T1 T2|) :
    classifyWithTangents s t T1 T2 p1 p2 c1 n1 c2 n2 =
      .ok (if cross2 T1 T2 < 0 then .first else .second) := by
  have hpos := almostTangent_pos (K := K)
  unfold classifyWithTangents
  simp only [hs1, ht1, or_self, if_false, hic, Bool.false_eq_true]
  by_cases hneg : cross2 T1 T2 < 0
  · have h1 : cross2 T1 T2 < -almostTangent := by
      rw [abs_of_neg hneg] at h; linarith
    simp [h1, hneg]
  · have hge : 0 ≤ cross2 T1 T2 := not_lt.mp hneg
    rw [abs_of_nonneg hge] at h
    have h1 : ¬ cross2 T1 T2 < -almostTangent := by
      intro hh; linarith
    simp [h1, h, hneg]

/-- the same at a non-corner intersection (`s, t ∉ {0, 1}`): no corner handling is involved -/
theorem classify_transversal (s t : K) (T1 T2 p1 p2 : List K) (c1 n1 c2 n2 : K)
    (hs0 : s ≠ 0) (ht0 : t ≠ 0) (hs1 : s ≠ 1) (ht1 : t ≠ 1)
    (h : almostTangent < |cross2 T1 T2|) :
    classifyWithTangents s t T1 T2 p1 p2 c1 n1 c2 n2 =
      .ok (if cross2 T1 T2 < 0 then .first else .second) := by
  apply classify_transversal_of_not_ignored s t T1 T2 p1 p2 c1 n1 c2 n2 hs1 ht1 _ h
  simp [ignoredCorner, hs0, ht0]

/-- `FIRST` iff the cross product of the tangents is negative (transversal, non-corner) -/
theorem classify_first_iff (s t : K) (T1 T2 p1 p2 : List K) (c1 n1 c2 n2 : K)
    (hs0 : s ≠ 0) (ht0 : t ≠ 0) (hs1 : s ≠ 1) (ht1 : t ≠ 1)
    (h : almostTangent < |cross2 T1 T2|) :
    classifyWithTangents s t T1 T2 p1 p2 c1 n1 c2 n2 = .ok .first ↔ cross2 T1 T2 < 0 := by
  rw [classify_transversal s t T1 T2 p1 p2 c1 n1 c2 n2 hs0 ht0 hs1 ht1 h]
  by_cases hneg : cross2 T1 T2 < 0 <;> simp [hneg]

/-- inside the band `|T₁ × T₂| ≤ ALMOST_TANGENT` the curvature comparison decides -/
theorem classify_near_tangent (s t : K) (T1 T2 p1 p2 : List K) (c1 n1 c2 n2 : K)
    (hs1 : s ≠ 1) (ht1 : t ≠ 1) (hic : ignoredCorner s t T1 T2 p1 p2 = false)
    (h : |cross2 T1 T2| ≤ almostTangent) :
    classifyWithTangents s t T1 T2 p1 p2 c1 n1 c2 n2 = classifyTangent (dot T1 T2) c1 n1 c2 n2 := by
  unfold classifyWithTangents
  obtain ⟨h1, h2⟩ := abs_le.mp h
  have h1' : ¬ cross2 T1 T2 < -almostTangent := not_lt.mpr h1
  have h2' : ¬ cross2 T1 T2 > almostTangent := not_lt.mpr h2
  simp [hs1, ht1, hic, h1', h2']

/-- two straight edges (zero curvature) that are parallel at the intersection: opposite directions give
    `TANGENT_BOTH`, equal directions are refused (`NotImplementedError`, "same curvature") -/
theorem classify_tangent_lines (d n1 n2 : K) (h1 : 0 < n1) (h2 : 0 < n2) :
    classifyTangent d 0 n1 0 n2 = if d < 0 then .ok .tangentBoth else .error .notImplemented := by
  unfold classifyTangent
  simp [h1, h2, sgn, curvCmp]

/-- corner in the middle of an edge: ignored iff the edge direction is to the right of (or along) both the
    leaving tangent and the reversed arriving tangent of the corner -/
theorem ignored_edge_corner_iff (e c p : List K) :
    ignoredEdgeCorner e c p = true ↔ cross2 e c ≤ 0 ∧ cross2 e (negVec p) ≤ 0 := by
  unfold ignoredEdgeCorner
  by_cases h : cross2 e c > 0
  · simp [h, not_le.mpr h]
  · simp [h, not_lt.mp h]

/-! ### `handle_ends` -/

/-- closed form of `handle_ends` -/
theorem handle_ends_spec (i1 i2 : Nat) (s t : K) :
    handleEnds i1 s i2 t =
      (decide (s = 1) || decide (t = 1),
       decide ((if s = 1 then 0 else s) = 0) || decide ((if t = 1 then 0 else t) = 0),
       (if s = 1 then (i1 + 1) % 3 else i1, if s = 1 then 0 else s,
        if t = 1 then (i2 + 1) % 3 else i2, if t = 1 then 0 else t)) := by
  unfold handleEnds
  by_cases hs : s = 1 <;> by_cases ht : t = 1 <;> simp [hs, ht]

/-- `s = 1` on edge `i` is re-expressed as `s = 0` on edge `(i+1) mod 3` of the same triangle (same for `t`):
    for ANY edge parametrisations `P`, `Q` of the two triangles whose consecutive edges share their end point,
    the re-expressed intersection denotes the same point on both boundaries -/
theorem handle_ends_preserves_point {α : Type} (P Q : Nat → K → α)
    (hP : ∀ i, P i 1 = P ((i + 1) % 3) 0) (hQ : ∀ i, Q i 1 = Q ((i + 1) % 3) 0)
    (i1 i2 : Nat) (s t : K) :
    P (handleEnds i1 s i2 t).2.2.1 (handleEnds i1 s i2 t).2.2.2.1 = P i1 s ∧
    Q (handleEnds i1 s i2 t).2.2.2.2.1 (handleEnds i1 s i2 t).2.2.2.2.2 = Q i2 t := by
  rw [handle_ends_spec]
  constructor
  · by_cases hs : s = 1
    · simp [hs, hP]
    · simp [hs]
  · by_cases ht : t = 1
    · simp [ht, hQ]
    · simp [ht]

/-- after `handle_ends` no parameter is `1`, the edge indices stay below 3, and the flags mean what they say -/
theorem handle_ends_normalised (i1 i2 : Nat) (s t : K) (h1 : i1 < 3) (h2 : i2 < 3) :
    (handleEnds i1 s i2 t).2.2.2.1 ≠ 1 ∧ (handleEnds i1 s i2 t).2.2.2.2.2 ≠ 1 ∧
    (handleEnds i1 s i2 t).2.2.1 < 3 ∧ (handleEnds i1 s i2 t).2.2.2.2.1 < 3 ∧
    ((handleEnds i1 s i2 t).1 = true ↔ (s = 1 ∨ t = 1)) ∧
    ((handleEnds i1 s i2 t).2.1 = true ↔
      ((handleEnds i1 s i2 t).2.2.2.1 = 0 ∨ (handleEnds i1 s i2 t).2.2.2.2.2 = 0)) := by
  rw [handle_ends_spec]
  refine ⟨?_, ?_, ?_, ?_, ?_, ?_⟩
  · by_cases hs : s = 1 <;> simp [hs]
  · by_cases ht : t = 1 <;> simp [ht]
  · by_cases hs : s = 1
    · simp only [hs, if_true]; exact Nat.mod_lt _ (by decide)
    · simpa [hs] using h1
  · by_cases ht : t = 1
    · simp only [ht, if_true]; exact Nat.mod_lt _ (by decide)
    · simpa [ht] using h2
  · simp
  · by_cases hs : s = 1 <;> by_cases ht : t = 1 <;> simp [hs, ht]

/-! ### `classify_coincident`, `should_use` -/

theorem classify_not_coincident (st : List (List K)) : classifyCoincident st false = none := by
  simp [classifyCoincident]

/-- coincident segments `(s₀,t₀)–(s₁,t₁)`: `COINCIDENT_UNUSED` iff `s` or `t` does not increase
    (the edges run in opposite directions), `COINCIDENT` otherwise -/
theorem classify_coincident_spec (s0 s1 t0 t1 : K) :
    classifyCoincident [[s0, s1], [t0, t1]] true =
      some (if s1 ≤ s0 ∨ t1 ≤ t0 then .coincidentUnused else .coincident) := by
  simp only [classifyCoincident, seq, Bool.not_true, Bool.false_eq_true, if_false,
    List.getD_cons_zero, List.getD_cons_succ]
  split_ifs <;> rfl

theorem classify_coincident_opposite (s0 s1 t0 t1 : K) (h : s1 < s0 ∨ t1 < t0) :
    classifyCoincident [[s0, s1], [t0, t1]] true = some .coincidentUnused := by
  rw [classify_coincident_spec]
  have : s1 ≤ s0 ∨ t1 ≤ t0 := h.imp le_of_lt le_of_lt
  simp [this]

theorem classify_coincident_same_direction (s0 s1 t0 t1 : K) (hs : s0 < s1) (ht : t0 < t1) :
    classifyCoincident [[s0, s1], [t0, t1]] true = some .coincident := by
  rw [classify_coincident_spec]
  simp [not_le.mpr hs, not_le.mpr ht]

/-- `should_use`: `FIRST`, `SECOND`, `COINCIDENT` always; `TANGENT_FIRST` / `TANGENT_SECOND` only at the start of
    an edge; nothing else -/
theorem should_use_spec (x : Intersection K) :
    shouldUse x = true ↔
      (x.interior = some .first ∨ x.interior = some .second ∨ x.interior = some .coincident) ∨
      ((x.interior = some .tangentFirst ∨ x.interior = some .tangentSecond) ∧
        (x.s = some 0 ∨ x.t = some 0)) := by
  rcases x with ⟨a, s, b, t, c⟩
  cases c with
  | none => simp [shouldUse]
  | some c => cases c <;> simp [shouldUse]

/-! ### `to_front` -/

/-- a node that is not at the end of an edge is returned unchanged -/
theorem to_front_interior (x : Intersection K) (ints : List (Intersection K)) (unused : List Nat)
    (hs : x.s ≠ some 1) (ht : x.t ≠ some 1) : toFront x ints unused = (.other x, unused) := by
  simp [toFront, hs, ht]

/-- a node at the end (`s = 1`) of edge `i₁` of the first triangle moves to the start of edge `(i₁+1) mod 3`:
    either the FIRST recorded intersection sitting there (removed from `unused`), or a new artificial node
    classified `FIRST` -/
theorem to_front_first_end (x : Intersection K) (ints : List (Intersection K)) (unused : List Nat) (i1 : Nat)
    (hi : x.indexFirst = some i1) (hs : x.s = some 1) :
    (∃ i, ∃ h : i < ints.length, toFront x ints unused = (.existing i, unused.erase i) ∧
        (ints[i]).s = some 0 ∧ (ints[i]).indexFirst = some ((i1 + 1) % 3) ∧
        ∀ j, j < i → ∀ hj : j < ints.length,
          ¬ ((ints[j]).s = some 0 ∧ (ints[j]).indexFirst = some ((i1 + 1) % 3))) ∨
    ((∀ o ∈ ints, ¬ (o.s = some 0 ∧ o.indexFirst = some ((i1 + 1) % 3))) ∧
      toFront x ints unused =
        (.other { indexFirst := some ((i1 + 1) % 3), s := some 0, indexSecond := none, t := none,
                  interior := some .first }, unused)) := by
  unfold toFront
  simp only [hs, if_true, hi, Option.getD_some]
  cases hf : Classify.findIdx? (fun o => decide (o.s = some 0) && decide (o.indexFirst = some ((i1 + 1) % 3))) ints with
  | some i =>
    left
    obtain ⟨h1, h2, h3⟩ := findIdx?_some _ ints i hf
    refine ⟨i, h1, rfl, ?_, ?_, ?_⟩
    · have := h2 h1; simp at this; exact this.1
    · have := h2 h1; simp at this; exact this.2
    · intro j hj hjl hc
      have := h3 j hj hjl
      simp [hc.1, hc.2] at this
  | none =>
    right
    refine ⟨?_, rfl⟩
    intro o ho hc
    have := findIdx?_none _ ints hf o ho
    simp [hc.1, hc.2] at this

/-- the same for the second triangle (`t = 1`, reached only when `s ≠ 1`) -/
theorem to_front_second_end (x : Intersection K) (ints : List (Intersection K)) (unused : List Nat) (i2 : Nat)
    (hi : x.indexSecond = some i2) (hs : x.s ≠ some 1) (ht : x.t = some 1) :
    (∃ i, ∃ h : i < ints.length, toFront x ints unused = (.existing i, unused.erase i) ∧
        (ints[i]).t = some 0 ∧ (ints[i]).indexSecond = some ((i2 + 1) % 3) ∧
        ∀ j, j < i → ∀ hj : j < ints.length,
          ¬ ((ints[j]).t = some 0 ∧ (ints[j]).indexSecond = some ((i2 + 1) % 3))) ∨
    ((∀ o ∈ ints, ¬ (o.t = some 0 ∧ o.indexSecond = some ((i2 + 1) % 3))) ∧
      toFront x ints unused =
        (.other { indexFirst := none, s := none, indexSecond := some ((i2 + 1) % 3), t := some 0,
                  interior := some .second }, unused)) := by
  unfold toFront
  simp only [hs, if_false, ht, if_true, hi, Option.getD_some]
  cases hf : Classify.findIdx? (fun o => decide (o.t = some 0) && decide (o.indexSecond = some ((i2 + 1) % 3))) ints with
  | some i =>
    left
    obtain ⟨h1, h2, h3⟩ := findIdx?_some _ ints i hf
    refine ⟨i, h1, rfl, ?_, ?_, ?_⟩
    · have := h2 h1; simp at this; exact this.1
    · have := h2 h1; simp at this; exact this.2
    · intro j hj hjl hc
      have := h3 j hj hjl
      simp [hc.1, hc.2] at this
  | none =>
    right
    refine ⟨?_, rfl⟩
    intro o ho hc
    have := findIdx?_none _ ints hf o ho
    simp [hc.1, hc.2] at this

/-! ### `ends_to_curve` -/

/-- a segment that starts at a node classified `FIRST` / `TANGENT_FIRST` lies on the edge of the first triangle
    shared by both nodes and runs from the start node's `s` to the end node's `s` -/
theorem ends_to_curve_first (a b : Intersection K) (i : Nat) (s0 s1 : K)
    (hc : a.interior = some .first ∨ a.interior = some .tangentFirst)
    (ha : a.indexFirst = some i) (hb : b.indexFirst = some i) (hs : a.s = some s0) (hs' : b.s = some s1) :
    endsToCurve a b = .ok (i, s0, s1) := by
  unfold endsToCurve
  have : isFirst a.interior = true := by rcases hc with h | h <;> simp [isFirst, h]
  simp [this, ha, hb, hs, hs']

/-- ... `SECOND` / `TANGENT_SECOND`: edge index shifted by 3 -/
theorem ends_to_curve_second (a b : Intersection K) (i : Nat) (t0 t1 : K)
    (hc : a.interior = some .second ∨ a.interior = some .tangentSecond)
    (ha : a.indexSecond = some i) (hb : b.indexSecond = some i) (ht : a.t = some t0) (ht' : b.t = some t1) :
    endsToCurve a b = .ok (i + 3, t0, t1) := by
  unfold endsToCurve
  have h1 : isFirst a.interior = false := by rcases hc with h | h <;> simp [isFirst, h]
  have h2 : isSecond a.interior = true := by rcases hc with h | h <;> simp [isSecond, h]
  simp [h1, h2, ha, hb, ht, ht']

/-- start and end on different edges of the first triangle: the code raises `ValueError` -/
theorem ends_to_curve_wrong_curve (a b : Intersection K)
    (hc : a.interior = some .first ∨ a.interior = some .tangentFirst) (hne : b.indexFirst ≠ a.indexFirst) :
    endsToCurve a b = .error .valueError := by
  unfold endsToCurve
  have : isFirst a.interior = true := by rcases hc with h | h <;> simp [isFirst, h]
  simp [this, hne]

/-- every segment index produced is below 6 (edges 0-2: first triangle, 3-5: second) -/
theorem ends_to_curve_index_lt (a b : Intersection K) (sg : Segment K) (h : endsToCurve a b = .ok sg)
    (h1 : ∀ i, a.indexFirst = some i → i < 3) (h2 : ∀ i, a.indexSecond = some i → i < 3) : sg.1 < 6 := by
  rcases a with ⟨ai, as, aj, at', ac⟩
  rcases b with ⟨bi, bs, bj, bt, bc⟩
  unfold endsToCurve at h
  simp only at h h1 h2
  split_ifs at h
  all_goals first
    | (cases ai with
       | none => simp at h
       | some i =>
         cases as with
         | none => simp at h
         | some s0 =>
           cases bs with
           | none => simp at h
           | some s1 =>
             simp only [Except.ok.injEq] at h
             have := h1 i rfl
             rw [← h]; show i < 6; omega)
    | (cases aj with
       | none => simp at h
       | some i =>
         cases at' with
         | none => simp at h
         | some t0 =>
           cases bt with
           | none => simp at h
           | some t1 =>
             simp only [Except.ok.injEq] at h
             have := h2 i rfl
             rw [← h]; show i + 3 < 6; omega)

/-! ### `verify_edge_segments` -/

/-- what `verify=True` guarantees about every returned region: `0 ≤ start < end ≤ 1` for every segment and
    cyclically consecutive segments lie on different edges (`verify_edge_segments` does NOT look at the range
    of the edge index — that is `ends_to_curve_index_lt`) -/
theorem segments_wellformed_of_verified (infos : List (List (Segment K)))
    (h : verifyEdgeSegments (some infos) = .ok ()) :
    ∀ info ∈ infos, ∀ k, ∀ hk : k < info.length,
      0 ≤ (info[k]).2.1 ∧ (info[k]).2.1 < (info[k]).2.2 ∧ (info[k]).2.2 ≤ 1 ∧
      (info[k]).1 ≠ (info[(k + 1) % info.length]'(Nat.mod_lt _ (by omega))).1 := by
  intro info hinfo k hk
  have h0 : ∀ i ∈ infos, verifyEdgeInfo i = .ok () := (forM_ok_iff _ infos).mp h
  have h1 := h0 info hinfo
  unfold verifyEdgeInfo at h1
  have h2 := (forM_ok_iff _ _).mp h1 ((k + 1) % info.length) (by
    simp only [List.mem_range]; exact Nat.mod_lt _ (by omega))
  have hidx : ((k + 1) % info.length + info.length - 1) % info.length = k := by
    by_cases hlast : k + 1 = info.length
    · have e : (k + 1) % info.length = 0 := by rw [hlast, Nat.mod_self]
      rw [e, Nat.zero_add, Nat.mod_eq_of_lt (by omega)]; omega
    · have e : (k + 1) % info.length = k + 1 := Nat.mod_eq_of_lt (by omega)
      have e2 : k + 1 + info.length - 1 = k + info.length := by omega
      rw [e, e2, Nat.add_mod_right, Nat.mod_eq_of_lt hk]
  rw [hidx] at h2
  have hm : (k + 1) % info.length < info.length := Nat.mod_lt _ (by omega)
  rw [show info.getD k (0, 0, 0) = info[k] by simp [List.getD, hk],
      show info.getD ((k + 1) % info.length) (0, 0, 0) = info[(k + 1) % info.length] by
        simp [List.getD, hm]] at h2
  unfold verifyPair at h2
  split_ifs at h2 with ha hb
  · exact ⟨ha.1, ha.2.1, ha.2.2, hb⟩

/-- consequence: a verified region never consists of a single segment -/
theorem verified_region_not_singleton (infos : List (List (Segment K)))
    (h : verifyEdgeSegments (some infos) = .ok ()) : ∀ info ∈ infos, info.length ≠ 1 := by
  intro info hinfo hlen
  have := (segments_wellformed_of_verified infos h info hinfo 0 (by omega)).2.2.2
  apply this
  simp [hlen]

/-- `None` (containment) passes the check -/
theorem verify_none : verifyEdgeSegments (K := K) none = .ok () := rfl

/-! ### the bounding-box gate -/

/-- boxes that do not properly overlap: `generic_intersect` returns the empty list without looking at the edges -/
theorem box_gate (nodes1 nodes2 : List (List K)) (walk : Unit → Except Err (Outcome K))
    (h : bboxIntersect nodes1 nodes2 ≠ .intersection) :
    genericIntersect nodes1 nodes2 walk = .ok (some [], none) := by
  simp [genericIntersect, h]

theorem box_gate_pass (nodes1 nodes2 : List (List K)) (walk : Unit → Except Err (Outcome K))
    (h : bboxIntersect nodes1 nodes2 = .intersection) :
    genericIntersect nodes1 nodes2 walk = walk () := by
  simp [genericIntersect, h]

/-- `DISJOINT` means: one of the four strict separations -/
theorem bbox_disjoint_iff (xs1 ys1 xs2 ys2 : List K) :
    bboxIntersect [xs1, ys1] [xs2, ys2] = .disjoint ↔
      (maxRow xs2 < minRow xs1 ∨ maxRow xs1 < minRow xs2 ∨ maxRow ys2 < minRow ys1 ∨ maxRow ys1 < minRow ys2) := by
  unfold bboxIntersect
  simp only [List.getD_cons_zero, List.getD_cons_succ]
  split_ifs with h1 h2 <;> simp [h1]

/-- correctness of the gate on DISJOINT boxes (link to `Lemmas/Bridge.disjoint_ranges_no_meet`): two Bézier
    curves whose control points are taken from the two node sets (in particular: any two edges of the two
    triangles) have no common point for parameters in `[0,1]` -/
theorem bbox_disjoint_no_common_point (xs1 ys1 xs2 ys2 : List K)
    (h : bboxIntersect [xs1, ys1] [xs2, ys2] = .disjoint)
    (ex1 ey1 ex2 ey2 : List K) (m1 m2 : ℕ)
    (lx1 : ex1.length = m1 + 1) (ly1 : ey1.length = m1 + 1) (lx2 : ex2.length = m2 + 1) (ly2 : ey2.length = m2 + 1)
    (sx1 : ∀ v ∈ ex1, v ∈ xs1) (sy1 : ∀ v ∈ ey1, v ∈ ys1) (sx2 : ∀ v ∈ ex2, v ∈ xs2) (sy2 : ∀ v ∈ ey2, v ∈ ys2)
    (s t : K) (hs0 : 0 ≤ s) (hs1 : s ≤ 1) (ht0 : 0 ≤ t) (ht1 : t ≤ 1) :
    ¬ (evalDC (1 - s) s m1 ex1 = evalDC (1 - t) t m2 ex2 ∧ evalDC (1 - s) s m1 ey1 = evalDC (1 - t) t m2 ey2) := by
  rintro ⟨hx, hy⟩
  rcases (bbox_disjoint_iff xs1 ys1 xs2 ys2).mp h with hd | hd | hd | hd
  · exact disjoint_ranges_no_meet ex2 ex1 m2 m1 lx2 lx1 (maxRow xs2)
      (fun v hv => le_maxRow xs2 v (sx2 v hv))
      (fun v hv => lt_of_lt_of_le hd (minRow_le xs1 v (sx1 v hv))) t s ht0 ht1 hs0 hs1 hx.symm
  · exact disjoint_ranges_no_meet ex1 ex2 m1 m2 lx1 lx2 (maxRow xs1)
      (fun v hv => le_maxRow xs1 v (sx1 v hv))
      (fun v hv => lt_of_lt_of_le hd (minRow_le xs2 v (sx2 v hv))) s t hs0 hs1 ht0 ht1 hx
  · exact disjoint_ranges_no_meet ey2 ey1 m2 m1 ly2 ly1 (maxRow ys2)
      (fun v hv => le_maxRow ys2 v (sy2 v hv))
      (fun v hv => lt_of_lt_of_le hd (minRow_le ys1 v (sy1 v hv))) t s ht0 ht1 hs0 hs1 hy.symm
  · exact disjoint_ranges_no_meet ey1 ey2 m1 m2 ly1 ly2 (maxRow ys1)
      (fun v hv => le_maxRow ys1 v (sy1 v hv))
      (fun v hv => lt_of_lt_of_le hd (minRow_le ys2 v (sy2 v hv))) s t hs0 hs1 ht0 ht1 hy

/-! ### non-vacuity (ℚ) -/

/-- the first doc-test of `classify_intersection`: `FIRST` -/
example : (match classifyIntersection (K := ℚ) 55 0 (1/4) 0 (1/2)
      [[[1, 7/4, 2], [0, 1/4, 1]]] [[[0, 27/16, 2], [0, 1/16, 1/2]]] with
    | .ok c => c.code | .error _ => 99) = 0 := by decide +kernel

/-- the kissing-corner doc-test: `IGNORED_CORNER` (edges of the two quadratic triangles) -/
example : (match classifyIntersection (K := ℚ) 55 0 (1/2) 0 0
      [[[1/4, 0, 0], [1, 1/2, 0]], [[0, 1/2, 1], [0, 3/8, 3/4]], [[1, 5/8, 1/4], [3/4, 7/8, 1]]]
      [[[1/16, -1/4, -1], [1/2, 1, 1]], [[-1, -1, -1], [1, 1/2, 0]], [[-1, -1/2, 1/16], [0, 1/8, 1/2]]] with
    | .ok c => c.code | .error _ => 99) = 5 := by decide +kernel

/-- a verified two-segment region, and a rejected one (consecutive segments on one edge) -/
example : verifyEdgeSegments (K := ℚ) (some [[(0, 0, 1/2), (3, 1/2, 1), (1, 0, 1)]]) = .ok () := by decide +kernel
example : verifyEdgeSegments (K := ℚ) (some [[(0, 0, 1/2), (0, 1/2, 2/3), (4, 1/3, 1/2)]]) = .error .valueError := by
  decide +kernel

/-- the gate on two lattice triangles whose boxes only touch -/
example : bboxIntersect (K := ℚ) [[0, 1, 0], [0, 0, 1]] [[1, 2, 1], [0, 0, 1]] = .tangent := by decide +kernel

end BezierVerif.C06
