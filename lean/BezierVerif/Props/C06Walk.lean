import BezierVerif.Lemmas.Walk
import BezierVerif.Props.C06
import BezierVerif.Props.C06WalkBook

/-!
# C06 — the boundary walk of the triangle-triangle intersection (`Model/Walk.lean`)

Statements about `get_next_first` / `get_next_second` / `get_next_coincident` / `get_next`,
`basic_interior_combine` (Python) and `interior_combine` (Fortran), over an arbitrary linearly ordered field and
for intersection lists of ARBITRARY length:

(a) `get_next_*` returns the nearest node further along the same edge, or the edge end;
(b) `basic_interior_combine` ends with a list of closed chains, with `RuntimeError` (more than `max_edges`
    edges), or — only when the list contains an intersection from which the walk cannot continue — with
    `ValueError`; never anything else; every region is a closed chain of `(curr, get_next(curr))` pairs linked by
    `to_front`; the `unused` bookkeeping: every list element is met by a region and the start of a region has not
    been met by an earlier region;
(e) with `verify=True` every segment of every returned region has `0 ≤ start < end ≤ 1` and consecutive
    segments lie on different edges (link to `C06.segments_wellformed_of_verified`).
Python / Fortran: `f90_walk_regions_eq`, `f90_interior_combine_eq` (same regions, same failures on the lists the
library produces), `f90_get_next`, `check_contained_eq_finish`; the variants differ outside that domain (examples).
(c) and (d) (dispatch, bookkeeping of the edge-pair loop, `verify_duplicates`) are in `Props/C06WalkBook.lean`;
`kept_walk_outcome` below joins the two files (the list kept by the edge-pair loop is in the domain of the walk theorems).

The predicates `Cand`, `ClosedWalk`, `ChainFrom`, `RegionsFrom`, `posOf`, `frontOf` are defined in
`Lemmas/Walk.lean`.  The same functions at `K := ℚ` are compared with the real code by `harness/props/c06w.py`.
-/

set_option linter.unusedSectionVars false
set_option linter.unusedVariables false

namespace BezierVerif.C06

open Model Model.Classify Model.Walk ClassifyLemmas WalkLemmas

variable {K : Type} [Field K] [LinearOrder K] [IsStrictOrderedRing K]

/-! ### (a) `get_next_first`, `get_next_second`, `get_next_coincident`, `get_next` -/

/-- `get_next_first(intersection, intersections)`: either the result IS a list element (identity: its position
    is reported) on the same edge of the first triangle with a strictly larger `s`, and no list element on that
    edge has its `s` strictly between; or no list element on that edge has a larger `s` and the result is the
    artificial edge end `(index_first, 1.0, None, None, FIRST)`. -/
theorem get_next_first_spec (x : Intersection K) (ints : List (Intersection K)) :
    (∃ i o, getNextFirst x ints true = some { pos := some i, val := o } ∧ ints[i]? = some o ∧
        o.indexFirst = x.indexFirst ∧
        ∃ s0 s1, x.s = some s0 ∧ o.s = some s1 ∧ s0 < s1 ∧
          ∀ o' ∈ ints, o'.indexFirst = x.indexFirst → ∀ s', o'.s = some s' → s0 < s' → s1 ≤ s') ∨
    (getNextFirst x ints true = some (endFirst x) ∧
        ∀ o' ∈ ints, o'.indexFirst = x.indexFirst → ∀ s0 s', x.s = some s0 → o'.s = some s' → ¬ s0 < s') := by
  rcases getNextFirst_cases x ints true with ⟨h1, h2⟩ | ⟨i, o, h1, h2, h3, h4⟩
  · right
    refine ⟨by simpa using h1, ?_⟩
    intro o' ho' hidx s0 s' hs0 hs' hlt
    exact h2 o' ho' ⟨hidx, (optGt_iff _ _).mpr ⟨s', s0, hs', hs0, hlt⟩⟩
  · left
    obtain ⟨s1, s0, hs1, hs0, hlt⟩ := cand_some h3
    refine ⟨i, o, h1, h2, h3.1, s0, s1, hs0, hs1, hlt, ?_⟩
    intro o' ho' hidx s' hs' hlt'
    exact h4 o' ho' ⟨hidx, (optGt_iff _ _).mpr ⟨s', s0, hs', hs0, hlt'⟩⟩ s' s1 hs' hs1

/-- `get_next_second`: the same along the edges of the second triangle (`index_second`, `t`) -/
theorem get_next_second_spec (x : Intersection K) (ints : List (Intersection K)) :
    (∃ i o, getNextSecond x ints true = some { pos := some i, val := o } ∧ ints[i]? = some o ∧
        o.indexSecond = x.indexSecond ∧
        ∃ t0 t1, x.t = some t0 ∧ o.t = some t1 ∧ t0 < t1 ∧
          ∀ o' ∈ ints, o'.indexSecond = x.indexSecond → ∀ t', o'.t = some t' → t0 < t' → t1 ≤ t') ∨
    (getNextSecond x ints true = some (endSecond x) ∧
        ∀ o' ∈ ints, o'.indexSecond = x.indexSecond → ∀ t0 t', x.t = some t0 → o'.t = some t' → ¬ t0 < t') := by
  rcases getNextSecond_cases x ints true with ⟨h1, h2⟩ | ⟨i, o, h1, h2, h3, h4⟩
  · right
    refine ⟨by simpa using h1, ?_⟩
    intro o' ho' hidx t0 t' ht0 ht' hlt
    exact h2 o' ho' ⟨hidx, (optGt_iff _ _).mpr ⟨t', t0, ht', ht0, hlt⟩⟩
  · left
    obtain ⟨t1, t0, ht1, ht0, hlt⟩ := cand_some h3
    refine ⟨i, o, h1, h2, h3.1, t0, t1, ht0, ht1, hlt, ?_⟩
    intro o' ho' hidx t' ht' hlt'
    exact h4 o' ho' ⟨hidx, (optGt_iff _ _).mpr ⟨t', t0, ht', ht0, hlt'⟩⟩ t' t1 ht' ht1

/-- with `to_end=False` the answer is `None` exactly when no list element lies further along the edge; when one
    does, `to_end` is irrelevant -/
theorem get_next_first_to_end (x : Intersection K) (ints : List (Intersection K)) :
    (getNextFirst x ints false = none ↔ ∀ o ∈ ints, ¬ Cand (·.indexFirst) (·.s) x.indexFirst x.s o) ∧
    (∀ n, getNextFirst x ints false = some n → getNextFirst x ints true = some n) := by
  rcases getNextFirst_cases x ints false with ⟨h1, h2⟩ | ⟨i, o, h1, h2, h3, _⟩
  · refine ⟨⟨fun _ => h2, fun _ => by simpa using h1⟩, ?_⟩
    intro n hn; rw [h1] at hn; simp at hn
  · refine ⟨⟨fun h => by rw [h1] at h; simp at h, fun h => absurd h3 (h o (List.mem_of_getElem? h2))⟩, ?_⟩
    intro n hn
    rcases getNextFirst_cases x ints true with ⟨g1, g2⟩ | ⟨j, o', g1, _⟩
    · exact absurd h3 (g2 o (List.mem_of_getElem? h2))
    · unfold getNextFirst at hn g1 ⊢
      cases ha : alongLoop (·.indexFirst) (·.s) x.indexFirst x.s ints 0 none with
      | none => rw [ha] at hn; simp at hn
      | some a => rw [ha] at hn; simpa using hn

/-- `get_next_coincident`: the nearest list element further along the edge of the FIRST triangle if there is one;
    otherwise the nearest one along the edge of the SECOND triangle; otherwise the artificial node
    `(index_first, 1.0, index_second, 1.0, COINCIDENT)` -/
theorem get_next_coincident_spec (x : Intersection K) (ints : List (Intersection K)) :
    (∃ i o, getNextCoincident x ints = { pos := some i, val := o } ∧ ints[i]? = some o ∧
      Cand (·.indexFirst) (·.s) x.indexFirst x.s o ∧
      ∀ o' ∈ ints, Cand (·.indexFirst) (·.s) x.indexFirst x.s o' → ∀ a b, o'.s = some a → o.s = some b → b ≤ a) ∨
    ((∀ o ∈ ints, ¬ Cand (·.indexFirst) (·.s) x.indexFirst x.s o) ∧
      ∃ i o, getNextCoincident x ints = { pos := some i, val := o } ∧ ints[i]? = some o ∧
      Cand (·.indexSecond) (·.t) x.indexSecond x.t o ∧
      ∀ o' ∈ ints, Cand (·.indexSecond) (·.t) x.indexSecond x.t o' → ∀ a b, o'.t = some a → o.t = some b → b ≤ a) ∨
    ((∀ o ∈ ints, ¬ Cand (·.indexFirst) (·.s) x.indexFirst x.s o) ∧
      (∀ o ∈ ints, ¬ Cand (·.indexSecond) (·.t) x.indexSecond x.t o) ∧
      getNextCoincident x ints = endCoincident x) :=
  getNextCoincident_cases x ints

/-- Python `get_next`: `ValueError` exactly when the node is not FIRST / TANGENT_FIRST / SECOND / TANGENT_SECOND /
    COINCIDENT; otherwise the node found is removed from `unused` (if it is there) -/
theorem get_next_error_iff (x : Intersection K) (ints : List (Intersection K)) (unused : List Nat) :
    (Py.getNext x ints unused = .error .valueError ↔ ¬ Walkable x.interior) ∧
    (∀ e, Py.getNext x ints unused = .error e → e = .valueError) ∧
    (∀ r, Py.getNext x ints unused = .ok r → getNextCore x ints = some r.1 ∧ r.2 = consume r.1 unused) := by
  refine ⟨⟨fun h => (getNext_error _ _ _ _ h).2, fun h => ?_⟩, fun e h => (getNext_error _ _ _ _ h).1,
    fun r h => getNext_ok _ _ _ _ h⟩
  unfold Py.getNext
  rw [(getNextCore_none_iff x ints).mpr h]

/-- Fortran `get_next` agrees with the Python one whenever the latter does not raise; on any other class it walks
    as if the node were COINCIDENT -/
theorem f90_get_next (x : Intersection K) (ints : List (Intersection K)) (unused : List Nat) :
    (∀ r, Py.getNext x ints unused = .ok r → F90.getNext x ints unused = r) ∧
    (¬ Walkable x.interior →
      F90.getNext x ints unused = (getNextCoincident x ints, consume (getNextCoincident x ints) unused)) := by
  constructor
  · intro r h
    obtain ⟨h1, h2⟩ := getNext_ok _ _ _ _ h
    unfold F90.getNext
    rw [h1]
    exact Prod.ext rfl h2.symm
  · intro h
    unfold F90.getNext
    rw [(getNextCore_none_iff x ints).mpr h]

/-- what `get_next` returns is a list element (at the reported position) or an artificial edge end, and
    `to_front` turns it into a list element or an artificial edge start -/
theorem get_next_then_to_front (x : Intersection K) (ints : List (Intersection K)) (m : WNode K)
    (h : getNextCore x ints = some m) : NodeOK ints m ∧ CurrOK ints (frontOf m ints) :=
  ⟨getNextCore_nodeOK x ints m h, frontOf_currOK ints m (getNextCore_nodeOK x ints m h)⟩

/-- `toFrontNode` is `Classify.toFront` (about which `C06.to_front_first_end` … speak) with identity tracked -/
theorem to_front_node_eq (n : WNode K) (ints : List (Intersection K)) (unused : List Nat) :
    (toFrontNode n ints unused).2 = (toFront n.val ints unused).2 ∧
    (match (toFront n.val ints unused).1 with
     | .existing i => (toFrontNode n ints unused).1.pos = some i
     | .other y => (toFrontNode n ints unused).1.val = y) := by
  unfold toFrontNode toFront
  split_ifs with h1 h2
  · dsimp only
    cases hf : findIdx? (fun o => decide (o.s = some 0) &&
        decide (o.indexFirst = some ((n.val.indexFirst.getD 0 + 1) % 3))) ints <;> simp
  · dsimp only
    cases hf : findIdx? (fun o => decide (o.t = some 0) &&
        decide (o.indexSecond = some ((n.val.indexSecond.getD 0 + 1) % 3))) ints <;> simp
  · simp

/-! ### (b) `basic_interior_combine` -/

/-- the inner `while` loop never stops because the model's fuel is exhausted: any two positive amounts of fuel
    that exceed `max_edges - len(edge_ends)` give the same result (the `RuntimeError` comes from the code's own
    test `len(edge_ends) > max_edges`) -/
theorem inner_loop_fuel_irrelevant (maxEdges : Nat) (ints : List (Intersection K)) (st f1 f2 : Nat)
    (E : EdgeEnds K) (n : WNode K) (u : List Nat) (h1 : 0 < f1) (h2 : 0 < f2)
    (h3 : maxEdges < E.length + f1) (h4 : maxEdges < E.length + f2) :
    Py.innerLoop maxEdges ints st f1 E n u = Py.innerLoop maxEdges ints st f2 E n u :=
  innerLoop_fuel maxEdges ints st f1 f2 E n u h1 h2 h3 h4

/-- OUTCOMES.  On a list of complete intersections `basic_interior_combine` returns regions or raises
    `RuntimeError("Unexpected number of edges")` or `ValueError` — nothing else (in particular the model's outer
    fuel is never exhausted); a list with a missing field is outside the modelled domain (`badInput`). -/
theorem walk_regions_outcome (maxEdges : Nat) (ints : List (Intersection K)) :
    (∃ regs, Py.walkRegions maxEdges ints = .ok regs) ∨
    Py.walkRegions maxEdges ints = .error .runtimeError ∨
    Py.walkRegions maxEdges ints = .error .valueError ∨
    Py.walkRegions maxEdges ints = .error .badInput := by
  unfold Py.walkRegions
  split_ifs with hf
  · exact Or.inr (Or.inr (Or.inr rfl))
  · cases h : Py.outerLoop maxEdges ints ints.length (List.range ints.length) [] with
    | ok regs => exact Or.inl ⟨regs, rfl⟩
    | error e =>
      rcases outerLoop_error_general maxEdges ints _ _ _ e List.nodup_range (by simp) h with g | g | g <;>
        subst g <;> simp

/-- OUTCOMES on the lists the library produces (`should_use` keeps only FIRST / SECOND / COINCIDENT and
    TANGENT_FIRST / TANGENT_SECOND corners, all fields set): regions, or `RuntimeError` — never `ValueError`:
    `get_next` always continues and `ends_to_curve` never sees mismatching edge indices. -/
theorem walk_regions_outcome_walkable (maxEdges : Nat) (ints : List (Intersection K))
    (hfull : ints.all isFull = true) (hw : ∀ x ∈ ints, Walkable x.interior) :
    (∃ regs, Py.walkRegions maxEdges ints = .ok regs) ∨ Py.walkRegions maxEdges ints = .error .runtimeError := by
  unfold Py.walkRegions
  rw [hfull]
  simp only [Bool.not_true, Bool.false_eq_true, if_false]
  cases h : Py.outerLoop maxEdges ints ints.length (List.range ints.length) [] with
  | ok regs => exact Or.inl ⟨regs, rfl⟩
  | error e =>
    have := outerLoop_error maxEdges ints (allFull_of_all ints hfull) hw _ _ _ e List.nodup_range
      (fun i hi => List.mem_range.mp hi) (by simp) h
    subst this
    exact Or.inr rfl

/-- what `should_use` lets through is walkable -/
theorem should_use_walkable (x : Intersection K) (h : shouldUse x = true) : Walkable x.interior := by
  unfold shouldUse at h
  unfold Walkable
  cases hx : x.interior with
  | none => rw [hx] at h; simp at h
  | some c =>
    rw [hx] at h
    cases c <;> simp [isFirst, isSecond] at h ⊢

/-- REGIONS.  When `basic_interior_combine` returns, the regions are exactly the polygons obtained by repeatedly
    popping a start from the end of `unused`, walking the closed chain through it and deleting every list element
    met from `unused` (`RegionsFrom`, by induction over the outer loop, `ClosedWalk`/`ChainFrom` by induction over
    the inner loop). -/
theorem walk_regions_spec (maxEdges : Nat) (ints : List (Intersection K))
    (regs : List (EdgeEnds K × List (Segment K))) (h : Py.walkRegions maxEdges ints = .ok regs) :
    RegionsFrom maxEdges ints (List.range ints.length) regs := by
  unfold Py.walkRegions at h
  split_ifs at h with hf
  obtain ⟨new, h1, h2⟩ := outerLoop_spec maxEdges ints _ _ _ regs List.nodup_range h
  simpa [h1] using h2

/-- every region is a CLOSED CHAIN through a list element `st`, at most `max_edges` pairs long (a single pair
    when `max_edges = 0`), and its `edge_info` is `ends_to_curve` applied to each `(curr, next)` pair -/
theorem region_closed_chain (maxEdges : Nat) (ints : List (Intersection K))
    (regs : List (EdgeEnds K × List (Segment K))) (h : Py.walkRegions maxEdges ints = .ok regs) :
    ∀ r ∈ regs, ∃ st, st < ints.length ∧ ClosedWalk ints st r.1 ∧
      (r.1.length = 1 ∨ r.1.length ≤ maxEdges) ∧
      List.Forall₂ (fun p sg => endsToCurve p.1.val p.2.val = .ok sg) r.1 r.2 := by
  intro r hr
  obtain ⟨st, h1, h2, h3, h4⟩ := regionsFrom_mem maxEdges ints _ regs (walk_regions_spec maxEdges ints regs h) r hr
  exact ⟨st, List.mem_range.mp h1, h2, h4, mapM_except_forall₂ _ _ _ h3⟩

/-- index form of a closed chain `E = [(c₀,n₀), …, (c_m,n_m)]` through the list element at position `st`:
    * `c₀` is that list element;
    * every `n_k = get_next(c_k)`: by (a) on the same edge, further along, nearest — or the edge end;
    * consecutive segments share their junction: `c_{k+1} = to_front(n_k)` (the same point re-expressed at the
      start of the next edge, `C06.to_front_first_end`), and the start object is not met before the end;
    * the chain returns to the start object: `n_m` or `to_front(n_m)` IS `intersections[st]`. -/
theorem closed_chain_index_form (ints : List (Intersection K)) (st : Nat) (E : EdgeEnds K)
    (h : ClosedWalk ints st E) (hst : st < ints.length) :
    (∃ p, E.head? = some p ∧ p.1 = startNode ints st) ∧
    (∀ p ∈ E, CurrOK ints p.1 ∧ getNextCore p.1.val ints = some p.2) ∧
    (∀ k (hk : k + 1 < E.length), (E[k + 1]).1 = frontOf (E[k]'(by omega)).2 ints ∧
        (E[k]'(by omega)).2.pos ≠ some st ∧ (frontOf (E[k]'(by omega)).2 ints).pos ≠ some st) ∧
    (∃ p, E.getLast? = some p ∧ (p.2.pos = some st ∨ (frontOf p.2 ints).pos = some st)) := by
  have hp := closedWalk_pairs ints st E h hst
  obtain ⟨n0, T, rfl, g1, g2⟩ := h
  obtain ⟨l1, l2⟩ := chainFrom_links ints st n0 T g2 (startNode ints st)
  exact ⟨⟨_, rfl, rfl⟩, hp, l1, l2⟩

/-- the segment of a pair whose start is of FIRST type lies on that edge of the first triangle and runs from the
    start node's `s` to the strictly larger `s` of the next node (or to `1`) — so the walk itself produces
    `start < end` on FIRST / SECOND pairs whenever the end is a list element -/
theorem pair_segment_first (ints : List (Intersection K)) (c m : WNode K) (hc : isFirst c.val.interior = true)
    (hm : getNextCore c.val ints = some m) (sg : Segment K) (hsg : endsToCurve c.val m.val = .ok sg) :
    c.val.indexFirst = some sg.1 ∧ c.val.s = some sg.2.1 ∧ m.val.s = some sg.2.2 ∧
      (m.pos = none → sg.2.2 = 1) ∧ (m.pos ≠ none → sg.2.1 < sg.2.2) := by
  unfold getNextCore at hm
  rw [if_pos hc] at hm
  unfold endsToCurve at hsg
  rw [if_pos hc] at hsg
  split_ifs at hsg with hidx
  split at hsg
  · rename_i i s0 s1 h1 h2 h3
    simp only [Except.ok.injEq] at hsg
    subst hsg
    refine ⟨h1, h2, h3, ?_, ?_⟩
    · intro hpos
      rcases get_next_first_spec c.val ints with ⟨j, o, g, _⟩ | ⟨g, _⟩
      · rw [g] at hm; simp only [Option.some.injEq] at hm; subst hm; simp at hpos
      · rw [g] at hm; simp only [Option.some.injEq] at hm; subst hm
        simpa [endFirst] using h3.symm
    · intro hpos
      rcases get_next_first_spec c.val ints with ⟨j, o, g, _, _, a, b, ha, hb, hlt, _⟩ | ⟨g, _⟩
      · rw [g] at hm; simp only [Option.some.injEq] at hm; subst hm
        rw [h2] at ha; rw [h3] at hb
        cases ha; cases hb
        exact hlt
      · rw [g] at hm; simp only [Option.some.injEq] at hm; subst hm; simp [endFirst] at hpos
  · simp at hsg

/-- the same for a pair whose start is of SECOND type (edge index shifted by 3, parameters `t`) -/
theorem pair_segment_second (ints : List (Intersection K)) (c m : WNode K) (hc1 : ¬ isFirst c.val.interior = true)
    (hc : isSecond c.val.interior = true)
    (hm : getNextCore c.val ints = some m) (sg : Segment K) (hsg : endsToCurve c.val m.val = .ok sg) :
    (∃ i, c.val.indexSecond = some i ∧ sg.1 = i + 3) ∧ c.val.t = some sg.2.1 ∧ m.val.t = some sg.2.2 ∧
      (m.pos = none → sg.2.2 = 1) ∧ (m.pos ≠ none → sg.2.1 < sg.2.2) := by
  unfold getNextCore at hm
  rw [if_neg hc1, if_pos hc] at hm
  unfold endsToCurve at hsg
  rw [if_neg hc1, if_pos hc] at hsg
  split_ifs at hsg with hidx
  split at hsg
  · rename_i i t0 t1 h1 h2 h3
    simp only [Except.ok.injEq] at hsg
    subst hsg
    refine ⟨⟨i, h1, rfl⟩, h2, h3, ?_, ?_⟩
    · intro hpos
      rcases get_next_second_spec c.val ints with ⟨j, o, g, _⟩ | ⟨g, _⟩
      · rw [g] at hm; simp only [Option.some.injEq] at hm; subst hm; simp at hpos
      · rw [g] at hm; simp only [Option.some.injEq] at hm; subst hm
        simpa [endSecond] using h3.symm
    · intro hpos
      rcases get_next_second_spec c.val ints with ⟨j, o, g, _, _, a, b, ha, hb, hlt, _⟩ | ⟨g, _⟩
      · rw [g] at hm; simp only [Option.some.injEq] at hm; subst hm
        rw [h2] at ha; rw [h3] at hb
        cases ha; cases hb
        exact hlt
      · rw [g] at hm; simp only [Option.some.injEq] at hm; subst hm; simp [endSecond] at hpos
  · simp at hsg

/-- BOOKKEEPING (`unused`): every list element is met by some region (it left `unused` exactly when it was first
    met), and the start of a region has not been met by any EARLIER region — it was still in `unused` when popped;
    in particular the starts are pairwise distinct.  (A list element can be met again by a later region: the walk
    does not consult `unused` when it follows an edge — the code guarantees no more than this.) -/
theorem unused_invariant (maxEdges : Nat) (ints : List (Intersection K))
    (regs : List (EdgeEnds K × List (Segment K))) (h : Py.walkRegions maxEdges ints = .ok regs) :
    (∀ i, i < ints.length → ∃ r ∈ regs, i ∈ posOf r.1) ∧
    regs.Pairwise (fun a b => ∀ st, startPos b.1 = some st → st ∉ posOf a.1) ∧
    (∀ r ∈ regs, ∃ st, startPos r.1 = some st ∧ st < ints.length ∧ st ∈ posOf r.1) := by
  have hr := walk_regions_spec maxEdges ints regs h
  refine ⟨fun i hi => regionsFrom_cover maxEdges ints _ regs hr i (List.mem_range.mpr hi),
    regionsFrom_fresh maxEdges ints _ regs hr, ?_⟩
  intro r hmem
  obtain ⟨st, h1, h2, _⟩ := regionsFrom_mem maxEdges ints _ regs hr r hmem
  exact ⟨st, (closedWalk_startPos ints st r.1 h2).1, List.mem_range.mp h1, (closedWalk_startPos ints st r.1 h2).2⟩

/-- `basic_interior_combine` = the regions of the walk, then the containment test: a single region equal to a
    rotation of `((0,0,1),(1,0,1),(2,0,1))` means "first triangle contained", of `((3,0,1),(4,0,1),(5,0,1))`
    "second triangle contained" -/
theorem basic_interior_combine_spec (maxEdges : Nat) (ints : List (Intersection K)) :
    (∀ e, Py.walkRegions maxEdges ints = .error e → Py.basicInteriorCombine maxEdges ints = .error e) ∧
    (∀ regs, Py.walkRegions maxEdges ints = .ok regs →
      Py.basicInteriorCombine maxEdges ints = .ok (Py.finish (regs.map (·.2)))) ∧
    (∀ result : List (List (Segment K)),
      (Py.finish result = (none, some true) ↔ ∃ r, result = [r] ∧ r ∈ triangleInfo (K := K) 0) ∧
      (Py.finish result = (none, some false) ↔ ∃ r, result = [r] ∧ r ∉ triangleInfo (K := K) 0 ∧ r ∈ triangleInfo (K := K) 3)) := by
  refine ⟨fun e h => by unfold Py.basicInteriorCombine; rw [h], fun regs h => by unfold Py.basicInteriorCombine; rw [h], ?_⟩
  intro result
  unfold Py.finish
  match result with
  | [] => simp
  | _ :: _ :: _ => simp
  | [r] =>
    dsimp only
    constructor
    · split_ifs <;> simp [*]
    · split_ifs <;> simp [*]

/-- Fortran `check_contained` + wrapper = the Python tail of `basic_interior_combine` -/
theorem check_contained_eq_finish (result : List (List (Segment K))) :
    F90.wrap (F90.checkContained result) = Py.finish result :=
  finish_eq_checkContained result

/-! ### Python and Fortran walks -/

/-- On the lists the library produces (complete intersections of walkable classes) and for `MAX_EDGES ≥ 1` the
    Fortran loop `interior_combine` (`do i = 1, MAX_EDGES`: `get_next`, `add_segment`, test, `to_front`, test)
    visits the same node pairs, writes the same segments and fails (`Status_BAD_INTERIOR` ⇒ `RuntimeError`) in the
    same cases as the Python loop (`while next_node is not start` with `len(edge_ends) > max_edges`). -/
theorem f90_walk_regions_eq (maxEdges : Nat) (ints : List (Intersection K)) (hfull : ints.all isFull = true)
    (hw : ∀ x ∈ ints, Walkable x.interior) (hme : 1 ≤ maxEdges) :
    F90.walkRegions maxEdges ints = Py.walkRegions maxEdges ints := by
  unfold F90.walkRegions Py.walkRegions
  rw [hfull]
  simp only [Bool.not_true, Bool.false_eq_true, if_false]
  exact f90_outerLoop_eq maxEdges ints (allFull_of_all ints hfull) hw hme _ _ _ List.nodup_range
    (fun i hi => List.mem_range.mp hi)

/-- consequently `interior_combine` + `check_contained` + wrapper = `basic_interior_combine` on those lists -/
theorem f90_interior_combine_eq (maxEdges : Nat) (ints : List (Intersection K)) (hfull : ints.all isFull = true)
    (hw : ∀ x ∈ ints, Walkable x.interior) (hme : 1 ≤ maxEdges) :
    F90.interiorCombine maxEdges ints = Py.basicInteriorCombine maxEdges ints := by
  unfold F90.interiorCombine Py.basicInteriorCombine
  rw [f90_walk_regions_eq maxEdges ints hfull hw hme]
  cases Py.walkRegions maxEdges ints with
  | error e => rfl
  | ok regs => simp only [finish_eq_checkContained]

/-! ### the walk on what the edge-pair loop produces -/

/-- END TO END.  Whatever `triangle_intersections` keeps is a list of complete intersections of walkable classes
    (`C06.triangle_intersections_stored`, `should_use_walkable`); hence inside `generic_intersect` the walk returns
    closed chains or raises `RuntimeError("Unexpected number of edges")` — `get_next` never raises and
    `ends_to_curve` never meets mismatching edges — and (for `MAX_EDGES ≥ 1`) the Fortran walk on the same list
    does exactly the same. -/
theorem kept_walk_outcome (thr : Nat) (allInt : AllIntFn K) (e1 e2 : List (List (List K))) (r : TriInts K)
    (h : Py.triangleIntersections thr allInt e1 e2 = .ok r) (maxEdges : Nat) :
    ((∃ o, Py.basicInteriorCombine maxEdges r.keep = .ok o) ∨
      Py.basicInteriorCombine maxEdges r.keep = .error .runtimeError) ∧
    (1 ≤ maxEdges → F90.interiorCombine maxEdges r.keep = Py.basicInteriorCombine maxEdges r.keep) := by
  obtain ⟨_, hk, _, hfull⟩ := triangle_intersections_stored thr allInt e1 e2 r h
  have hw : ∀ x ∈ r.keep, Walkable x.interior := fun x hx => should_use_walkable x (hk x hx)
  refine ⟨?_, fun hme => f90_interior_combine_eq maxEdges r.keep hfull hw hme⟩
  unfold Py.basicInteriorCombine
  rcases walk_regions_outcome_walkable maxEdges r.keep hfull hw with ⟨regs, hr⟩ | hr
  · left; rw [hr]; exact ⟨_, rfl⟩
  · right; rw [hr]

/-! ### (e) `verify=True` -/

/-- every segment of every region returned by `generic_intersect(..., verify=True, ...)` satisfies
    `0 ≤ start < end ≤ 1`, and cyclically consecutive segments lie on different edges -/
theorem generic_intersect_verified (thr maxEdges : Nat) (locate : LocateFn K) (allInt : AllIntFn K)
    (nodes1 : List (List K)) (degree1 : Nat) (nodes2 : List (List K)) (degree2 : Nat) (out : Outcome K)
    (h : Py.genericIntersect thr maxEdges locate allInt nodes1 degree1 nodes2 degree2 true = .ok out) :
    ∀ infos, out.1 = some infos → ∀ info ∈ infos, ∀ k, ∀ hk : k < info.length,
      0 ≤ (info[k]).2.1 ∧ (info[k]).2.1 < (info[k]).2.2 ∧ (info[k]).2.2 ≤ 1 ∧
      (info[k]).1 ≠ (info[(k + 1) % info.length]'(Nat.mod_lt _ (by omega))).1 := by
  intro infos hinfos
  unfold Py.genericIntersect Classify.genericIntersect at h
  simp only [↓reduceIte] at h
  split_ifs at h with hbox
  · simp only [Except.ok.injEq] at h
    subst h
    simp only [Option.some.injEq] at hinfos
    subst hinfos
    intro info hi; simp at hi
  · split at h
    · simp at h
    · split at h
      · simp at h
      · split at h
        · simp at h
        · split at h
          · simp at h
          · rename_i hver
            simp only [Except.ok.injEq] at h
            subst h
            rw [hinfos] at hver
            exact segments_wellformed_of_verified infos hver

/-- … and with `verify=True` an answer is only returned when `verify_duplicates` accepted the duplicates -/
theorem generic_intersect_verified_duplicates (thr maxEdges : Nat) (locate : LocateFn K) (allInt : AllIntFn K)
    (nodes1 : List (List K)) (degree1 : Nat) (nodes2 : List (List K)) (degree2 : Nat) (out : Outcome K)
    (h : Py.genericIntersect thr maxEdges locate allInt nodes1 degree1 nodes2 degree2 true = .ok out)
    (hbox : Classify.bboxIntersect nodes1 nodes2 = Classify.BoxType.intersection) :
    ∃ r, Py.triangleIntersections thr allInt (edgeList degree1 nodes1) (edgeList degree2 nodes2) = .ok r ∧
      verifyDuplicates sameWiggle r.duplicates (r.keep ++ r.unused) = .ok () ∧
      Py.combineIntersections maxEdges locate r.keep nodes1 degree1 nodes2 degree2 r.allTypes = .ok out := by
  unfold Py.genericIntersect Classify.genericIntersect at h
  simp only [↓reduceIte] at h
  rw [if_neg (by rw [hbox]; simp)] at h
  split at h
  · simp at h
  · rename_i r hr
    split at h
    · simp at h
    · rename_i out' hcomb
      split at h
      · simp at h
      · rename_i hdup
        split at h
        · simp at h
        · simp only [Except.ok.injEq] at h
          subst h
          exact ⟨r, hr, hdup, hcomb⟩

/-! ### non-vacuity (ℚ, kernel-evaluated) -/

section Examples

/-- (a) four intersections, three of them on edge 0 of the first triangle (`s = 3/4, 1/4, 1/2`): from the one at
    `1/4` the next node is the list element at position 2 (`s = 1/2`), not the one at `3/4`; from `3/4` there is
    none and the artificial end `s = 1` is returned; `to_end=False` gives `None` there -/
example : (getNextFirst (mkInt 0 (1/4) 1 (1/2) .first)
    [mkInt 0 (3/4) 2 (1/2) .second, mkInt 0 (1/4) 1 (1/2) .first, mkInt 0 (1/2) 0 (1/3) .second,
     mkInt 1 (3/8) 0 (1/3) .second] true).map (fun n => (n.pos, n.val.s)) = some (some 2, some (1/2)) := by
  decide +kernel
example : (getNextFirst (mkInt 0 (3/4) 2 (1/2) .second)
    [mkInt 0 (3/4) 2 (1/2) .second, mkInt 0 (1/4) 1 (1/2) .first, mkInt 0 (1/2) 0 (1/3) .second,
     mkInt 1 (3/8) 0 (1/3) .second] true).map (fun n => (n.pos, n.val.s, n.val.indexFirst)) =
    some (none, some 1, some 0) := by
  decide +kernel
example : (getNextFirst (mkInt 0 (3/4) 2 (1/2) .second)
    [mkInt 0 (3/4) 2 (1/2) .second, mkInt 0 (1/4) 1 (1/2) .first] false).isNone = true := by
  decide +kernel
/-- `get_next_second` along edge 0 of the second triangle: from `t = 1/3` at position 2 the nearest is position 0
    (`t = 1/2`); a tie (`t` equal) keeps the first one found -/
example : (getNextSecond (mkInt 0 (1/2) 0 (1/3) .second)
    [mkInt 1 (1/4) 0 (1/2) .first, mkInt 2 (1/4) 0 (1/2) .first, mkInt 0 (1/2) 0 (1/3) .second] true).map
      (fun n => (n.pos, n.val.t)) = some (some 0, some (1/2)) := by
  decide +kernel
/-- `get_next_coincident`: nothing further on the first edge, something on the second -/
example : ((getNextCoincident (mkInt 0 (1/2) 1 0 .coincident)
    [mkInt 0 (1/2) 1 0 .coincident, mkInt 2 (1/4) 1 (1/2) .first]).pos,
   (getNextCoincident (mkInt 0 (1/2) 1 0 .coincident) [mkInt 0 (1/2) 1 0 .coincident]).val.t) =
    (some 1, some 1) := by
  decide +kernel
/-- `get_next` from an OPPOSED node: Python raises `ValueError`, Fortran goes on as if COINCIDENT -/
example : isErr (Py.getNext (mkInt 0 (1/2) 1 (1/2) .opposed) [mkInt 0 (3/4) 1 (1/2) .first] [0]) .valueError = true ∧
    ((F90.getNext (mkInt 0 (1/2) 1 (1/2) .opposed) [mkInt 0 (3/4) 1 (1/2) .first] [0]).1.pos,
     (F90.getNext (mkInt 0 (1/2) 1 (1/2) .opposed) [mkInt 0 (3/4) 1 (1/2) .first] [0]).2) = (some 0, []) := by
  decide +kernel

/-- (b) HEXAGON: the triangles `(0,0),(6,0),(3,6)` and `(0,4),(3,-2),(6,4)` through the whole `generic_intersect`
    (edge-pair loop with the pipeline model as curve–curve primitive, classification, walk, `verify=True`):
    one region of six segments, alternating between the two triangles; the Fortran variant gives the same -/
example : isOut (Py.genericIntersect 55 10 exampleLocate (exampleAllInt true)
      [[0, 6, 3], [0, 0, 6]] 1 [[0, 3, 6], [4, -2, 4]] 1 true)
    (some [[(2, 1/3, 2/3), (3, 1/3, 2/3), (0, 1/3, 2/3), (4, 1/3, 2/3), (1, 1/3, 2/3), (5, 1/3, 2/3)]]) none = true := by
  decide +kernel
example : isOut (F90.trianglesIntersect 55 10 exampleLocate (exampleAllInt false)
      [[0, 6, 3], [0, 0, 6]] 1 [[0, 3, 6], [4, -2, 4]] 1)
    (some [[(2, 1/3, 2/3), (3, 1/3, 2/3), (0, 1/3, 2/3), (4, 1/3, 2/3), (1, 1/3, 2/3), (5, 1/3, 2/3)]]) none = true := by
  decide +kernel
/-- the six intersections of that configuration (what the edge-pair loop keeps) and the walk on them alone -/
example : isOut (Py.basicInteriorCombine 10
      [mkInt 0 (1/3) 0 (2/3) .first, mkInt 0 (2/3) 1 (1/3) .second, mkInt 1 (1/3) 1 (2/3) .first,
       mkInt 1 (2/3) 2 (1/3) .second, mkInt 2 (2/3) 0 (1/3) .second, mkInt 2 (1/3) 2 (2/3) .first])
    (some [[(2, 1/3, 2/3), (3, 1/3, 2/3), (0, 1/3, 2/3), (4, 1/3, 2/3), (1, 1/3, 2/3), (5, 1/3, 2/3)]]) none = true := by
  decide +kernel

/-- TWO REGIONS (two straight triangles always meet in one convex region; this list is of the kind curved edges
    produce: each of the edge pairs (0,0) and (1,1) crosses twice): two closed chains of five segments; the
    Fortran walk returns the same -/
example : isOut (Py.basicInteriorCombine 10
      [mkInt 0 (1/4) 0 (3/4) .second, mkInt 0 (1/2) 0 (1/2) .first, mkInt 1 (1/4) 1 (3/4) .second,
       mkInt 1 (1/2) 1 (1/2) .first])
    (some [[(1, 1/2, 1), (2, 0, 1), (0, 0, 1/4), (3, 3/4, 1), (4, 0, 1/2)],
           [(4, 3/4, 1), (5, 0, 1), (3, 0, 1/2), (0, 1/2, 1), (1, 0, 1/4)]]) none = true := by
  decide +kernel
example : isOut (F90.interiorCombine 10
      [mkInt 0 (1/4) 0 (3/4) .second, mkInt 0 (1/2) 0 (1/2) .first, mkInt 1 (1/4) 1 (3/4) .second,
       mkInt 1 (1/2) 1 (1/2) .first])
    (some [[(1, 1/2, 1), (2, 0, 1), (0, 0, 1/4), (3, 3/4, 1), (4, 0, 1/2)],
           [(4, 3/4, 1), (5, 0, 1), (3, 0, 1/2), (0, 1/2, 1), (1, 0, 1/4)]]) none = true := by
  decide +kernel
/-- the hypotheses of `region_closed_chain` / `unused_invariant` are satisfiable: that walk returns two regions,
    started at positions 3 and 2, which meet the list elements {3, 0} and {2, 1} -/
example : isOk ((Py.walkRegions 10
      [mkInt 0 (1/4) 0 (3/4) .second, mkInt 0 (1/2) 0 (1/2) .first, mkInt 1 (1/4) 1 (3/4) .second,
       mkInt 1 (1/2) 1 (1/2) .first]).map (fun regs => regs.map (fun r => (startPos r.1, posOf r.1))))
    [(some 3, [3, 0, 0, 3]), (some 2, [2, 1, 1, 2])] = true := by
  decide +kernel

/-- the `RuntimeError` branch: one FIRST intersection needs four edges to come back (`edge 0 → 1 → 2 → 0`); with
    `max_edges = 3` Python raises (`len(edge_ends) = 4 > 3`) and so does Fortran (`do i = 1, 3` ends without
    `at_start`); with the code's `max_edges = 10` the first triangle is recognised as contained -/
example : isErr (Py.basicInteriorCombine 3 [mkInt 0 (1/2) 0 (1/2) .first]) .runtimeError = true ∧
    isErr (F90.interiorCombine 3 [mkInt 0 (1/2) 0 (1/2) .first]) .runtimeError = true ∧
    isOut (Py.basicInteriorCombine 4 [mkInt 0 (1/2) 0 (1/2) .first])
      (some [[(0, 1/2, 1), (1, 0, 1), (2, 0, 1), (0, 0, 1/2)]]) none = true ∧
    isOut (Py.basicInteriorCombine 10 [mkInt 0 0 0 (1/2) .first]) none (some true) = true := by
  decide +kernel
/-- outside the domain of `f90_walk_regions_eq` the two walks differ: from an OPPOSED node Python raises, Fortran
    walks on as if it were COINCIDENT and returns a region -/
example : isErr (Py.basicInteriorCombine 10 [mkInt 0 (1/2) 0 (1/2) .opposed]) .valueError = true ∧
    isOut (F90.interiorCombine 10 [mkInt 0 (1/2) 0 (1/2) .opposed])
      (some [[(0, 1/2, 1), (1, 0, 1), (2, 0, 1), (0, 0, 1/2)]]) none = true := by
  decide +kernel
/-- the `ValueError` branch (a class the walk cannot continue from; the library never passes such a list) and the
    domain guard (missing field) -/
example : isErr (Py.basicInteriorCombine 10 [mkInt 0 (1/2) 0 (1/2) .opposed]) .valueError = true ∧
    isErr (Py.basicInteriorCombine 10 [{ (mkInt 0 (1/2) 0 (1/2) .first) with t := none }]) .badInput = true := by
  decide +kernel

/-- (e) and the known defect F-H: `(0,0),(1,0),(0,2)` × `(0,1),(1,0),(2,0)` (an edge of one triangle collinear with an
    edge of the other, touching in one point).  Python: `verify_duplicates` raises `ValueError` (duplicate count 4);
    with `verify=False` — and in the Fortran variant, which has no verification — a region with two consecutive
    segments on edge 5 is returned, which `verify_edge_segments` would have refused -/
example : isErr (Py.genericIntersect 55 10 exampleLocate (exampleAllInt true)
      [[0, 1, 0], [0, 0, 2]] 1 [[0, 1, 2], [1, 0, 0]] 1 true) .valueError = true := by
  decide +kernel
example : isOut (Py.genericIntersect 55 10 exampleLocate (exampleAllInt true)
      [[0, 1, 0], [0, 0, 2]] 1 [[0, 1, 2], [1, 0, 0]] 1 false)
    (some [[(3, 0, 1), (4, 0, 1), (5, 0, 2/3), (5, 2/3, 1)]]) none = true := by
  decide +kernel
example : isOut (F90.trianglesIntersect 55 10 exampleLocate (exampleAllInt false)
      [[0, 1, 0], [0, 0, 2]] 1 [[0, 1, 2], [1, 0, 0]] 1)
    (some [[(3, 0, 1), (4, 0, 1), (5, 0, 2/3), (5, 2/3, 1)]]) none = true := by
  decide +kernel
example : isErr (verifyEdgeSegments (K := ℚ) (some [[(3, 0, 1), (4, 0, 1), (5, 0, 2/3), (5, 2/3, 1)]])) .valueError = true := by
  decide +kernel
/-- a verified answer: a square corner cut, four segments -/
example : isOut (Py.genericIntersect 55 10 exampleLocate (exampleAllInt true)
      [[0, 2, 0], [0, 0, 2]] 1 [[1, 2, 2], [0, -1, 2]] 1 true)
    (Py.genericIntersect 55 10 exampleLocate (exampleAllInt true)
      [[0, 2, 0], [0, 0, 2]] 1 [[1, 2, 2], [0, -1, 2]] 1 false |>.toOption.bind (·.1)) none = true := by
  decide +kernel

end Examples

end BezierVerif.C06
