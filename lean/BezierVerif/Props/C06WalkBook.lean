import BezierVerif.Lemmas.WalkBook
import BezierVerif.Props.C06

/-!
# C06 — triangle-triangle intersection: dispatch and bookkeeping of the edge-pair loop

Statements about the transcriptions in `Model/Walk.lean` of

* the dispatch `combine_intersections` / the tail of `triangles_intersect` (`tangent_only_intersections`,
  `no_intersections`, the Fortran bit set `all_types`), and the classification loop at the end of
  `triangle_intersections` / `triangles_intersection_points`;
* the bookkeeping of the double loop over edge pairs: `add_intersection`, `add_edge_end_unused`,
  `check_unused` (Python), `add_st_vals`, `update_edge_end_unused`, `find_corner_unused` (Fortran);
* `same_intersection`, `verify_duplicates` (Python, `verify=True`).

The boundary walk itself (`basic_interior_combine` / `interior_combine`) is not touched here.
-/

set_option linter.unusedSectionVars false
set_option linter.unusedVariables false

namespace BezierVerif.C06

open Model Model.Classify Model.Walk ClassifyLemmas WalkLemmas

variable {K : Type} [Field K] [LinearOrder K] [IsStrictOrderedRing K]

/-! ### (c) dispatch: `tangent_only_intersections` -/

/-- `tangent_only_intersections` returns (does not raise) exactly when `all_types` is a singleton whose element
    is one of OPPOSED, IGNORED_CORNER, TANGENT_FIRST, TANGENT_SECOND, COINCIDENT_UNUSED -/
theorem tangent_only_ok_iff (types : List Cls) :
    (∃ o, Py.tangentOnly (K := K) types = .ok o) ↔
      ∃ c, types = [c] ∧ (c = .opposed ∨ c = .ignoredCorner ∨ c = .tangentFirst ∨ c = .tangentSecond ∨
        c = .coincidentUnused) := by
  match types with
  | [] => simp [Py.tangentOnly]
  | [c] => cases c <;> simp [Py.tangentOnly]
  | _ :: _ :: _ => simp [Py.tangentOnly]

/-- in every other case the code raises `ValueError` (two or more classes: "Unexpected value, types should all
    match"; a single FIRST / SECOND / TANGENT_BOTH / COINCIDENT: "Point type not for tangency") -/
theorem tangent_only_error (types : List Cls)
    (h : ¬ ∃ c, types = [c] ∧ (c = .opposed ∨ c = .ignoredCorner ∨ c = .tangentFirst ∨ c = .tangentSecond ∨
        c = .coincidentUnused)) :
    Py.tangentOnly (K := K) types = .error .valueError := by
  match types, h with
  | [], _ => rfl
  | [c], h => cases c <;> first | rfl | (exfalso; apply h; simp)
  | _ :: _ :: _, _ => rfl

/-- the values: TANGENT_FIRST ⇒ the first triangle is contained (`(None, True)`), TANGENT_SECOND ⇒ the second
    (`(None, False)`), OPPOSED / IGNORED_CORNER / COINCIDENT_UNUSED ⇒ empty intersection (`([], None)`) -/
theorem tangent_only_value :
    Py.tangentOnly (K := K) [.tangentFirst] = .ok (none, some true) ∧
    Py.tangentOnly (K := K) [.tangentSecond] = .ok (none, some false) ∧
    Py.tangentOnly (K := K) [.opposed] = .ok (some [], none) ∧
    Py.tangentOnly (K := K) [.ignoredCorner] = .ok (some [], none) ∧
    Py.tangentOnly (K := K) [.coincidentUnused] = .ok (some [], none) :=
  ⟨rfl, rfl, rfl, rfl, rfl⟩

example : Py.tangentOnly (K := ℚ) [.tangentFirst] = .ok (none, some true) := by rfl
example : Py.tangentOnly (K := ℚ) [.opposed, .tangentFirst] = .error .valueError := by rfl
example : Py.tangentOnly (K := ℚ) [.first] = .error .valueError := by rfl

/-! ### (c) dispatch: the Fortran bit set -/

/-- on a single class the Fortran branch returns what Python returns; where Python raises `ValueError` the
    Fortran status is `UNKNOWN`, which the wrapper turns into `RuntimeError` — a different exception class -/
theorem f90_tangent_only_single (c : Cls) :
    (∀ o, Py.tangentOnly (K := K) [c] = .ok o → F90.tangentOnly (K := K) (bitOf c) = .ok o) ∧
    (Py.tangentOnly (K := K) [c] = .error .valueError →
      F90.tangentOnly (K := K) (bitOf c) = .error .runtimeError) := by
  cases c <;> simp [Py.tangentOnly, F90.tangentOnly, bitOf, Cls.code]

/-- two or more distinct classes: Python raises `ValueError`, Fortran (bit set = OR of ≥ 2 distinct powers of two,
    never a single power of two) ends in `RuntimeError` -/
theorem f90_tangent_only_mixed (types : List Cls) (hnd : types.Nodup) (hlen : 2 ≤ types.length) :
    Py.tangentOnly (K := K) types = .error .valueError ∧
    F90.tangentOnly (K := K) (bitsOf types) = .error .runtimeError := by
  constructor
  · match types, hlen with
    | _ :: _ :: _, _ => rfl
  · have h := bitsOf_ne_two_pow types hnd hlen
    simp [F90.tangentOnly, bitOf, h]

/-- the bit set is `0` iff no class was recorded -/
theorem bits_eq_zero_iff (types : List Cls) : bitsOf types = 0 ↔ types = [] := bitsOf_eq_zero_iff types

/-- bit `k` of the bit set is set iff a class with code `k` was recorded -/
theorem bits_testBit (types : List Cls) (k : Nat) :
    (bitsOf types).testBit k = true ↔ ∃ c ∈ types, c.code = k := testBit_bitsOf types k

example : F90.tangentOnly (K := ℚ) (bitsOf [.tangentSecond]) = .ok (none, some false) := by rfl
example : F90.tangentOnly (K := ℚ) (bitsOf [.opposed, .tangentFirst]) = .error .runtimeError := by rfl
example : bitsOf [.opposed, .tangentFirst, .opposed] = 12 := by decide

/-! ### (c) dispatch: `combine_intersections`, `no_intersections` -/

/-- a non-empty list of kept intersections: the boundary walk decides -/
theorem combine_dispatch_walk (maxEdges : Nat) (locate : LocateFn K) (ints : List (Intersection K))
    (n1 : List (List K)) (d1 : Nat) (n2 : List (List K)) (d2 : Nat) (types : List Cls) (h : ints ≠ []) :
    Py.combineIntersections maxEdges locate ints n1 d1 n2 d2 types = Py.basicInteriorCombine maxEdges ints := by
  cases ints with
  | nil => exact absurd rfl h
  | cons a rest => simp [Py.combineIntersections]

/-- nothing kept but some class recorded: `tangent_only_intersections` decides -/
theorem combine_dispatch_tangent (maxEdges : Nat) (locate : LocateFn K)
    (n1 : List (List K)) (d1 : Nat) (n2 : List (List K)) (d2 : Nat) (types : List Cls) (h : types ≠ []) :
    Py.combineIntersections maxEdges locate [] n1 d1 n2 d2 types = Py.tangentOnly types := by
  cases types with
  | nil => exact absurd rfl h
  | cons a rest => simp [Py.combineIntersections]

/-- no intersection of any kind: point location of one corner of each triangle in the other decides -/
theorem combine_dispatch_locate (maxEdges : Nat) (locate : LocateFn K)
    (n1 : List (List K)) (d1 : Nat) (n2 : List (List K)) (d2 : Nat) :
    Py.combineIntersections maxEdges locate [] n1 d1 n2 d2 [] = .ok (noIntersections locate n1 d1 n2 d2) := by
  simp [Py.combineIntersections]

/-- Fortran: `num_intersections > 0` ⇒ `interior_combine` -/
theorem f90_combine_dispatch_walk (maxEdges : Nat) (locate : LocateFn K) (ints : List (Intersection K))
    (n1 : List (List K)) (d1 : Nat) (n2 : List (List K)) (d2 : Nat) (allTypes : Nat) (h : ints ≠ []) :
    F90.combineIntersections maxEdges locate ints n1 d1 n2 d2 allTypes = F90.interiorCombine maxEdges ints := by
  cases ints with
  | nil => exact absurd rfl h
  | cons a rest => simp [F90.combineIntersections]

/-- Fortran: `num_intersections == 0`, `all_types /= 0` ⇒ the tangent-only table -/
theorem f90_combine_dispatch_tangent (maxEdges : Nat) (locate : LocateFn K)
    (n1 : List (List K)) (d1 : Nat) (n2 : List (List K)) (d2 : Nat) (allTypes : Nat) (h : allTypes ≠ 0) :
    F90.combineIntersections maxEdges locate [] n1 d1 n2 d2 allTypes = F90.tangentOnly allTypes := by
  simp [F90.combineIntersections, h]

/-- Fortran: `num_intersections == 0`, `all_types == 0` ⇒ `no_intersections` -/
theorem f90_combine_dispatch_locate (maxEdges : Nat) (locate : LocateFn K)
    (n1 : List (List K)) (d1 : Nat) (n2 : List (List K)) (d2 : Nat) :
    F90.combineIntersections maxEdges locate [] n1 d1 n2 d2 0 = .ok (noIntersections locate n1 d1 n2 d2) := by
  simp [F90.combineIntersections]

/-- `no_intersections`: the first corner of triangle 1 located in triangle 2 ⇒ `(None, True)`; otherwise the
    first corner of triangle 2 located in triangle 1 ⇒ `(None, False)`; otherwise disjoint `([], None)` -/
theorem no_intersections_spec (locate : LocateFn K) (n1 : List (List K)) (d1 : Nat) (n2 : List (List K))
    (d2 : Nat) :
    noIntersections locate n1 d1 n2 d2 =
      if (locate n2 d2 (seq (n1.getD 0 []) 0) (seq (n1.getD 1 []) 0)).isSome then (none, some true)
      else if (locate n1 d1 (seq (n2.getD 0 []) 0) (seq (n2.getD 1 []) 0)).isSome then (none, some false)
      else (some [], none) := by
  unfold noIntersections
  cases locate n2 d2 (seq (n1.getD 0 []) 0) (seq (n1.getD 1 []) 0) with
  | some p => simp
  | none =>
    cases locate n1 d1 (seq (n2.getD 0 []) 0) (seq (n2.getD 1 []) 0) with
    | some p => simp
    | none => simp

/-- the three outcomes determine the two `locate_point` answers -/
theorem no_intersections_iff (locate : LocateFn K) (n1 : List (List K)) (d1 : Nat) (n2 : List (List K))
    (d2 : Nat) :
    (noIntersections locate n1 d1 n2 d2 = (none, some true) ↔
      (locate n2 d2 (seq (n1.getD 0 []) 0) (seq (n1.getD 1 []) 0)).isSome = true) ∧
    (noIntersections locate n1 d1 n2 d2 = (none, some false) ↔
      (locate n2 d2 (seq (n1.getD 0 []) 0) (seq (n1.getD 1 []) 0)) = none ∧
      (locate n1 d1 (seq (n2.getD 0 []) 0) (seq (n2.getD 1 []) 0)).isSome = true) ∧
    (noIntersections locate n1 d1 n2 d2 = (some [], none) ↔
      (locate n2 d2 (seq (n1.getD 0 []) 0) (seq (n1.getD 1 []) 0)) = none ∧
      (locate n1 d1 (seq (n2.getD 0 []) 0) (seq (n2.getD 1 []) 0)) = none) := by
  unfold noIntersections
  cases locate n2 d2 (seq (n1.getD 0 []) 0) (seq (n1.getD 1 []) 0) with
  | some p => simp
  | none =>
    cases locate n1 d1 (seq (n2.getD 0 []) 0) (seq (n2.getD 1 []) 0) with
    | some p => simp
    | none => simp

example : Py.combineIntersections (K := ℚ) 10 (fun _ _ _ _ => none) [] [[0, 1, 0], [0, 0, 1]] 1
    [[2, 3, 2], [0, 0, 1]] 1 [] = .ok (some [], none) := by rfl
example : Py.combineIntersections (K := ℚ) 10 (fun _ _ x _ => if x = 0 then some (0, 0) else none) []
    [[0, 1, 0], [0, 0, 1]] 1 [[2, 3, 2], [0, 0, 1]] 1 [] = .ok (none, some true) := by rfl
example : F90.combineIntersections (K := ℚ) 10 (fun _ _ _ _ => none) [] [[0, 1, 0], [0, 0, 1]] 1
    [[2, 3, 2], [0, 0, 1]] 1 (bitOf .tangentSecond) = .ok (none, some false) := by rfl

/-! ### (d) `add_intersection`: an intersection at the END of an edge -/

/-- an intersection with `s = 1` or `t = 1` that is not COINCIDENT_UNUSED is never stored in `intersections`:
    its rotated form (`s = 1` on edge `i` ↦ `s = 0` on edge `(i + 1) % 3`, same for `t`) goes to `duplicates`;
    only the twin found at the START of the next edge is stored ("stored once") -/
theorem add_intersection_edge_end (thr : Nat) (e1 e2 : List (List (List K))) (i1 : Nat) (s : K) (i2 : Nat) (t : K)
    (interior : Option Cls) (acc : Acc K) (h : s = 1 ∨ t = 1) (hi : interior ≠ some .coincidentUnused) :
    Py.addIntersection thr e1 e2 i1 s i2 t interior acc = .ok (acc.1 ++ [rotated i1 s i2 t interior], acc.2) := by
  have hb : (decide (s = 1) || decide (t = 1)) = true := by simpa using h
  unfold Py.addIntersection
  simp only [handle_ends_spec, hb, if_true, hi, if_false]
  rfl

/-- the same with COINCIDENT_UNUSED: the rotated intersection IS stored, through `add_edge_end_unused` -/
theorem add_intersection_edge_end_unused (thr : Nat) (e1 e2 : List (List (List K))) (i1 : Nat) (s : K) (i2 : Nat)
    (t : K) (acc : Acc K) (h : s = 1 ∨ t = 1) :
    Py.addIntersection thr e1 e2 i1 s i2 t (some .coincidentUnused) acc =
      .ok (Py.addEdgeEndUnused (rotated i1 s i2 t (some .coincidentUnused)) acc) := by
  have hb : (decide (s = 1) || decide (t = 1)) = true := by simpa using h
  unfold Py.addIntersection
  simp only [handle_ends_spec, hb, if_true]
  rfl

/-- `add_edge_end_unused`: the FIRST stored intersection at the same corner of the same edge pair (if any) is
    moved to `duplicates`; the new intersection is appended to `intersections` -/
theorem add_edge_end_unused_spec (x : Intersection K) (acc : Acc K) :
    (∃ i, ∃ hi : i < acc.2.length, cornerMatch x (acc.2[i]) = true ∧
        (∀ j, j < i → ∀ hj : j < acc.2.length, cornerMatch x (acc.2[j]) = false) ∧
        Py.addEdgeEndUnused x acc = (acc.1 ++ [acc.2[i]], acc.2.eraseIdx i ++ [x])) ∨
    ((∀ o ∈ acc.2, cornerMatch x o = false) ∧ Py.addEdgeEndUnused x acc = (acc.1, acc.2 ++ [x])) := by
  unfold Py.addEdgeEndUnused
  cases hf : Classify.findIdx? (cornerMatch x) acc.2 with
  | some i =>
    left
    obtain ⟨h1, h2, h3⟩ := findIdx?_some _ _ i hf
    refine ⟨i, h1, h2 h1, h3, ?_⟩
    simp [List.getD, h1]
  | none =>
    right
    exact ⟨findIdx?_none _ _ hf, rfl⟩

/-- the new intersection is the last element of `intersections` -/
theorem add_edge_end_unused_last (x : Intersection K) (acc : Acc K) :
    (Py.addEdgeEndUnused x acc).2.getLast? = some x := by
  rcases add_edge_end_unused_spec x acc with ⟨i, hi, _, _, h⟩ | ⟨_, h⟩ <;> rw [h] <;> simp

/-- nothing is lost: `duplicates ++ intersections` grows by exactly the new intersection (up to order) -/
theorem add_edge_end_unused_perm (x : Intersection K) (acc : Acc K) :
    ((Py.addEdgeEndUnused x acc).1 ++ (Py.addEdgeEndUnused x acc).2).Perm (acc.1 ++ acc.2 ++ [x]) := by
  rcases add_edge_end_unused_spec x acc with ⟨i, hi, _, _, h⟩ | ⟨_, h⟩
  · rw [h]
    have hp := List.getElem_cons_eraseIdx_perm (l := acc.2) hi
    have e : (acc.1 ++ [acc.2[i]]) ++ (acc.2.eraseIdx i ++ [x]) =
        acc.1 ++ (acc.2[i] :: acc.2.eraseIdx i) ++ [x] := by simp
    show ((acc.1 ++ [acc.2[i]]) ++ (acc.2.eraseIdx i ++ [x])).Perm _
    rw [e]
    exact (hp.append_left acc.1).append_right [x]
  · rw [h]
    show (acc.1 ++ (acc.2 ++ [x])).Perm _
    rw [List.append_assoc]

/-! ### (d) `add_intersection`: an intersection that is not at the end of an edge -/

/-- a corner (`s = 0` or `t = 0`) already recorded as COINCIDENT_UNUSED for the same edge pair (`check_unused`)
    is a duplicate: it is appended, unclassified, to `duplicates` -/
theorem add_intersection_corner_duplicate (thr : Nat) (e1 e2 : List (List (List K))) (i1 : Nat) (s : K) (i2 : Nat)
    (t : K) (interior : Option Cls) (acc : Acc K) (hs : s ≠ 1) (ht : t ≠ 1) (hc : s = 0 ∨ t = 0)
    (hu : Py.checkUnused (⟨some i1, some s, some i2, some t, none⟩ : Intersection K) acc.2 = true) :
    Py.addIntersection thr e1 e2 i1 s i2 t interior acc =
      .ok (acc.1 ++ [⟨some i1, some s, some i2, some t, none⟩], acc.2) := by
  have hh : handleEnds i1 s i2 t = (false, decide (s = 0) || decide (t = 0), (i1, s, i2, t)) := by
    rw [handle_ends_spec]; simp [hs, ht]
  have hcb : (decide (s = 0) || decide (t = 0)) = true := by simpa using hc
  unfold Py.addIntersection
  simp only [hh, Bool.false_eq_true, if_false, hcb, hu, Bool.and_self, if_true]

/-- otherwise, with the class known from `classify_coincident`, the intersection is stored with that class -/
theorem add_intersection_known (thr : Nat) (e1 e2 : List (List (List K))) (i1 : Nat) (s : K) (i2 : Nat)
    (t : K) (c : Cls) (acc : Acc K) (hs : s ≠ 1) (ht : t ≠ 1)
    (hn : ¬ ((s = 0 ∨ t = 0) ∧
      Py.checkUnused (⟨some i1, some s, some i2, some t, none⟩ : Intersection K) acc.2 = true)) :
    Py.addIntersection thr e1 e2 i1 s i2 t (some c) acc =
      .ok (acc.1, acc.2 ++ [⟨some i1, some s, some i2, some t, some c⟩]) := by
  have hh : handleEnds i1 s i2 t = (false, decide (s = 0) || decide (t = 0), (i1, s, i2, t)) := by
    rw [handle_ends_spec]; simp [hs, ht]
  have hb : ((decide (s = 0) || decide (t = 0)) &&
      Py.checkUnused (⟨some i1, some s, some i2, some t, none⟩ : Intersection K) acc.2) = false := by
    rw [Bool.eq_false_iff]; intro h; apply hn; simpa using h
  unfold Py.addIntersection
  simp only [hh, Bool.false_eq_true, if_false, hb]

/-- otherwise, with no class known, `classify_intersection` is called: its error is the error of the call, its
    class is stored with the intersection -/
theorem add_intersection_classified (thr : Nat) (e1 e2 : List (List (List K))) (i1 : Nat) (s : K) (i2 : Nat)
    (t : K) (acc : Acc K) (hs : s ≠ 1) (ht : t ≠ 1)
    (hn : ¬ ((s = 0 ∨ t = 0) ∧
      Py.checkUnused (⟨some i1, some s, some i2, some t, none⟩ : Intersection K) acc.2 = true)) :
    Py.addIntersection thr e1 e2 i1 s i2 t none acc =
      (match classifyIntersection thr i1 s i2 t e1 e2 with
       | .error e => .error e
       | .ok c => .ok (acc.1, acc.2 ++ [⟨some i1, some s, some i2, some t, some c⟩])) := by
  have hh : handleEnds i1 s i2 t = (false, decide (s = 0) || decide (t = 0), (i1, s, i2, t)) := by
    rw [handle_ends_spec]; simp [hs, ht]
  have hb : ((decide (s = 0) || decide (t = 0)) &&
      Py.checkUnused (⟨some i1, some s, some i2, some t, none⟩ : Intersection K) acc.2) = false := by
    rw [Bool.eq_false_iff]; intro h; apply hn; simpa using h
  unfold Py.addIntersection
  simp only [hh, Bool.false_eq_true, if_false, hb]
  cases classifyIntersection thr i1 s i2 t e1 e2 <;> rfl

/-- every successful call adds exactly one element to `duplicates ++ intersections` -/
theorem add_intersection_one_more (thr : Nat) (e1 e2 : List (List (List K))) (i1 : Nat) (s : K) (i2 : Nat) (t : K)
    (interior : Option Cls) (acc acc' : Acc K)
    (h : Py.addIntersection thr e1 e2 i1 s i2 t interior acc = .ok acc') :
    acc'.1.length + acc'.2.length = acc.1.length + acc.2.length + 1 := by
  by_cases he : s = 1 ∨ t = 1
  · by_cases hi : interior = some .coincidentUnused
    · subst hi
      rw [add_intersection_edge_end_unused thr e1 e2 i1 s i2 t acc he] at h
      cases h
      have := (add_edge_end_unused_perm (rotated i1 s i2 t (some .coincidentUnused)) acc).length_eq
      simp only [List.length_append, List.length_singleton] at this
      exact this
    · rw [add_intersection_edge_end thr e1 e2 i1 s i2 t interior acc he hi] at h
      cases h
      simp only [List.length_append, List.length_singleton]; omega
  · have hs : s ≠ 1 := fun h1 => he (Or.inl h1)
    have ht : t ≠ 1 := fun h1 => he (Or.inr h1)
    by_cases hn : (s = 0 ∨ t = 0) ∧
        Py.checkUnused (⟨some i1, some s, some i2, some t, none⟩ : Intersection K) acc.2 = true
    · rw [add_intersection_corner_duplicate thr e1 e2 i1 s i2 t interior acc hs ht hn.1 hn.2] at h
      cases h
      simp only [List.length_append, List.length_singleton]; omega
    · cases interior with
      | some c =>
        rw [add_intersection_known thr e1 e2 i1 s i2 t c acc hs ht hn] at h
        cases h
        simp only [List.length_append, List.length_singleton]; omega
      | none =>
        rw [add_intersection_classified thr e1 e2 i1 s i2 t acc hs ht hn] at h
        cases hc : classifyIntersection thr i1 s i2 t e1 e2 with
        | error e => rw [hc] at h; cases h
        | ok c =>
          rw [hc] at h
          cases h
          simp only [List.length_append, List.length_singleton]; omega

/-- the only failure of `add_intersection` is a failure of `classify_intersection` on an intersection that is
    neither at the end of an edge nor a recorded corner and has no class yet -/
theorem add_intersection_error_iff (thr : Nat) (e1 e2 : List (List (List K))) (i1 : Nat) (s : K) (i2 : Nat) (t : K)
    (interior : Option Cls) (acc : Acc K) (e : Err) :
    Py.addIntersection thr e1 e2 i1 s i2 t interior acc = .error e ↔
      s ≠ 1 ∧ t ≠ 1 ∧ interior = none ∧
      ¬ ((s = 0 ∨ t = 0) ∧
        Py.checkUnused (⟨some i1, some s, some i2, some t, none⟩ : Intersection K) acc.2 = true) ∧
      classifyIntersection thr i1 s i2 t e1 e2 = .error e := by
  by_cases he : s = 1 ∨ t = 1
  · have hne : ¬ (s ≠ 1 ∧ t ≠ 1) := by
      rintro ⟨h1, h2⟩; rcases he with h | h
      · exact h1 h
      · exact h2 h
    by_cases hi : interior = some .coincidentUnused
    · subst hi
      rw [add_intersection_edge_end_unused thr e1 e2 i1 s i2 t acc he]
      constructor
      · intro h; cases h
      · rintro ⟨h1, h2, _⟩; exact absurd ⟨h1, h2⟩ hne
    · rw [add_intersection_edge_end thr e1 e2 i1 s i2 t interior acc he hi]
      constructor
      · intro h; cases h
      · rintro ⟨h1, h2, _⟩; exact absurd ⟨h1, h2⟩ hne
  · have hs : s ≠ 1 := fun h1 => he (Or.inl h1)
    have ht : t ≠ 1 := fun h1 => he (Or.inr h1)
    by_cases hn : (s = 0 ∨ t = 0) ∧
        Py.checkUnused (⟨some i1, some s, some i2, some t, none⟩ : Intersection K) acc.2 = true
    · rw [add_intersection_corner_duplicate thr e1 e2 i1 s i2 t interior acc hs ht hn.1 hn.2]
      constructor
      · intro h; cases h
      · rintro ⟨_, _, _, h4, _⟩; exact absurd hn h4
    · cases interior with
      | some c =>
        rw [add_intersection_known thr e1 e2 i1 s i2 t c acc hs ht hn]
        constructor
        · intro h; cases h
        · rintro ⟨_, _, h3, _⟩; cases h3
      | none =>
        rw [add_intersection_classified thr e1 e2 i1 s i2 t acc hs ht hn]
        cases hc : classifyIntersection thr i1 s i2 t e1 e2 with
        | error e' =>
          constructor
          · intro h; cases h; exact ⟨hs, ht, rfl, hn, rfl⟩
          · rintro ⟨_, _, _, _, h5⟩; cases h5; rfl
        | ok c =>
          constructor
          · intro h; cases h
          · rintro ⟨_, _, _, _, h5⟩; cases h5

/-- `s = 1` on edge 0 against the middle of edge 2: only the rotated twin goes to `duplicates` -/
example : Py.addIntersection (K := ℚ) 55 [] [] 0 1 2 (1/2) none ([], []) =
    .ok ([⟨some 1, some 0, some 2, some (1/2), none⟩], []) := (eqAcc_iff _ _).mp (by decide +kernel)

/-- end of a COINCIDENT_UNUSED segment at a corner that is already stored: the stored one moves to `duplicates` -/
example : Py.addIntersection (K := ℚ) 55 [] [] 0 1 0 (1/2) (some .coincidentUnused)
      ([], [⟨some 2, some (1/3), some 0, some (1/4), some .first⟩,
            ⟨some 1, some 0, some 0, some (1/2), some .second⟩]) =
    .ok ([⟨some 1, some 0, some 0, some (1/2), some .second⟩],
         [⟨some 2, some (1/3), some 0, some (1/4), some .first⟩,
          ⟨some 1, some 0, some 0, some (1/2), some .coincidentUnused⟩]) := (eqAcc_iff _ _).mp (by decide +kernel)

/-- a corner already recorded as COINCIDENT_UNUSED: duplicate -/
example : Py.addIntersection (K := ℚ) 55 [] [] 1 0 0 (1/2) none
      ([], [⟨some 1, some 0, some 0, some (1/2), some .coincidentUnused⟩]) =
    .ok ([⟨some 1, some 0, some 0, some (1/2), none⟩],
         [⟨some 1, some 0, some 0, some (1/2), some .coincidentUnused⟩]) := (eqAcc_iff _ _).mp (by decide +kernel)

/-- a known class is stored as is -/
example : Py.addIntersection (K := ℚ) 55 [] [] 1 (1/3) 0 (1/2) (some .coincident) ([], []) =
    .ok ([], [⟨some 1, some (1/3), some 0, some (1/2), some .coincident⟩]) := (eqAcc_iff _ _).mp (by decide +kernel)

/-! ### (d) `same_intersection`, `verify_duplicates` -/

/-- `same_intersection`: same edge pair and both parameters equal up to the RELATIVE tolerance `wiggle`
    (`np.allclose(…, atol=0, rtol=wiggle)`: the second argument is the reference) -/
theorem same_intersection_spec (w : K) (x y : Intersection K) :
    sameIntersection w x y = true ↔
      x.indexFirst = y.indexFirst ∧ x.indexSecond = y.indexSecond ∧
      ∃ s1 t1 s2 t2, x.s = some s1 ∧ x.t = some t1 ∧ y.s = some s2 ∧ y.t = some t2 ∧
        |s1 - s2| ≤ w * |s2| ∧ |t1 - t2| ≤ w * |t2| := by
  rcases x with ⟨xi, xs, xj, xt, xc⟩
  rcases y with ⟨yi, ys, yj, yt, yc⟩
  unfold sameIntersection
  simp only
  by_cases h1 : xi = yi
  · by_cases h2 : xj = yj
    · cases xs <;> cases xt <;> cases ys <;> cases yt <;> simp [h1, h2, closeRel_iff]
    · simp [h1, h2]
  · simp [h1]

/-- for a non-negative tolerance an intersection with both parameters present is the same as itself -/
theorem same_intersection_refl (w : K) (hw : 0 ≤ w) (x : Intersection K) (s t : K) (hs : x.s = some s)
    (ht : x.t = some t) : sameIntersection w x x = true := by
  rw [same_intersection_spec]
  refine ⟨rfl, rfl, s, t, s, t, hs, ht, hs, ht, ?_, ?_⟩
  · rw [sub_self, abs_zero]; exact mul_nonneg hw (abs_nonneg _)
  · rw [sub_self, abs_zero]; exact mul_nonneg hw (abs_nonneg _)

/-- with tolerance `0` (and `0 ≤ 0 * |·|`) `same_intersection` is equality of the four fields read -/
theorem same_intersection_zero (x y : Intersection K) :
    sameIntersection 0 x y = true ↔
      x.indexFirst = y.indexFirst ∧ x.indexSecond = y.indexSecond ∧ x.s = y.s ∧ x.t = y.t ∧
      x.s.isSome = true ∧ x.t.isSome = true := by
  rw [same_intersection_spec]
  constructor
  · rintro ⟨h1, h2, s1, t1, s2, t2, hs1, ht1, hs2, ht2, ha, hb⟩
    rw [zero_mul] at ha hb
    have e1 : s1 = s2 := sub_eq_zero.mp (abs_nonpos_iff.mp ha)
    have e2 : t1 = t2 := sub_eq_zero.mp (abs_nonpos_iff.mp hb)
    refine ⟨h1, h2, ?_, ?_, ?_, ?_⟩
    · rw [hs1, hs2, e1]
    · rw [ht1, ht2, e2]
    · rw [hs1]; rfl
    · rw [ht1]; rfl
  · rintro ⟨h1, h2, h3, h4, h5, h6⟩
    obtain ⟨s1, hs1⟩ := Option.isSome_iff_exists.mp h5
    obtain ⟨t1, ht1⟩ := Option.isSome_iff_exists.mp h6
    refine ⟨h1, h2, s1, t1, s1, t1, hs1, ht1, by rw [← h3, hs1], by rw [← h4, ht1], ?_, ?_⟩
    · simp
    · simp

/-- positions matched by a duplicate -/
theorem matches_of_mem (w : K) (d : Intersection K) (uniq : List (Intersection K)) (i : Nat) :
    i ∈ matchesOf w d uniq ↔ i < uniq.length ∧ sameIntersection w d (uniq.getD i blank) = true := by
  simp [matchesOf]

/-- the `itertools.combinations(uniques, 2)` loop: some pair `i < j` is the same intersection -/
theorem any_pair_same_iff (w : K) (l : List (Intersection K)) :
    anyPairSame w l = true ↔
      ∃ (i j : Nat) (hi : i < l.length) (hj : j < l.length), i < j ∧ sameIntersection w l[i] l[j] = true := by
  rw [← Bool.not_eq_false, anyPairSame_false_iff, List.pairwise_iff_getElem]
  simp only [not_forall, Bool.not_eq_false, exists_prop]

/-- `verify_duplicates` returns iff (1) no two uniques are the same intersection, (2) every duplicate matches
    exactly one unique, (3) every unique is matched by 0 duplicates, or by 1 duplicate and exactly one of its
    parameters is `0` (a corner of one triangle), or by 3 duplicates and both parameters are `0` (a common
    corner).  Any other count — 2, or 4 and more — raises. -/
theorem verify_duplicates_ok_iff (w : K) (dups uniq : List (Intersection K)) :
    verifyDuplicates w dups uniq = .ok () ↔
      anyPairSame w uniq = false ∧ (∀ d ∈ dups, ∃ i, matchesOf w d uniq = [i]) ∧
      ∀ i, (dups.filter (fun d => decide (matchesOf w d uniq = [i]))).length = 0 ∨
        ((dups.filter (fun d => decide (matchesOf w d uniq = [i]))).length = 1 ∧
          (((uniq.getD i blank).s = some 0 ∧ (uniq.getD i blank).t ≠ some 0) ∨
           ((uniq.getD i blank).s ≠ some 0 ∧ (uniq.getD i blank).t = some 0))) ∨
        ((dups.filter (fun d => decide (matchesOf w d uniq = [i]))).length = 3 ∧
          (uniq.getD i blank).s = some 0 ∧ (uniq.getD i blank).t = some 0) := by
  unfold verifyDuplicates
  by_cases hap : anyPairSame w uniq = true
  · simp [hap]
  · have hap' : anyPairSame w uniq = false := by simpa using hap
    simp only [hap', Bool.false_eq_true, if_false, true_and]
    rcases countDuplicates_spec w uniq dups [] with ⟨h1, h2⟩ | ⟨c', h1, h2, h3, h4⟩
    · rw [h1]
      constructor
      · intro h; cases h
      · rintro ⟨h, _⟩; exact absurd h h2
    · rw [h1]
      have hwf := h3 counterWF_nil
      have hget : ∀ k, counterGet k c' =
          (dups.filter (fun d => decide (matchesOf w d uniq = [k]))).length := by
        intro k; rw [h4 k]; simp [counterGet]
      show c'.forM (checkCount uniq) = .ok () ↔ _
      rw [forM_ok_iff]
      constructor
      · intro h
        refine ⟨h2, fun i => ?_⟩
        by_cases h0 : (dups.filter (fun d => decide (matchesOf w d uniq = [i]))).length = 0
        · left; exact h0
        · right
          have hmem : (i, (dups.filter (fun d => decide (matchesOf w d uniq = [i]))).length) ∈ c' :=
            (mem_counter_iff c' hwf _ _).mpr ⟨(hget i).symm, by omega⟩
          exact (checkCount_ok_iff uniq _ _).mp (h _ hmem)
      · rintro ⟨_, h⟩ ⟨k, c⟩ hp
        obtain ⟨hc1, hc2⟩ := (mem_counter_iff c' hwf k c).mp hp
        rw [hget k] at hc1
        rcases h k with h0 | h0
        · omega
        · rw [hc1]; exact (checkCount_ok_iff uniq _ _).mpr h0

/-- every failure of `verify_duplicates` is a `ValueError` -/
theorem verify_duplicates_error (w : K) (dups uniq : List (Intersection K)) :
    verifyDuplicates w dups uniq = .ok () ∨ verifyDuplicates w dups uniq = .error .valueError := by
  unfold verifyDuplicates
  by_cases hap : anyPairSame w uniq = true
  · right; simp [hap]
  · have hap' : anyPairSame w uniq = false := by simpa using hap
    simp only [hap', Bool.false_eq_true, if_false]
    rcases countDuplicates_spec w uniq dups [] with ⟨h1, _⟩ | ⟨c', h1, _⟩
    · right; rw [h1]
    · rw [h1]
      exact forM_ok_or_valueError _ (checkCount_ok_or_valueError uniq) c'

/-- a unique matched by exactly 2 or by at least 4 duplicates makes `verify_duplicates` raise
    (`ValueError("Unexpected duplicate count", count)`) — the failure observed on touching collinear edges -/
theorem verify_duplicates_count_raises (w : K) (dups uniq : List (Intersection K)) (i : Nat)
    (h : (dups.filter (fun d => decide (matchesOf w d uniq = [i]))).length = 2 ∨
      4 ≤ (dups.filter (fun d => decide (matchesOf w d uniq = [i]))).length) :
    verifyDuplicates w dups uniq = .error .valueError := by
  rcases verify_duplicates_error w dups uniq with hok | herr
  · exfalso
    obtain ⟨_, _, h3⟩ := (verify_duplicates_ok_iff w dups uniq).mp hok
    rcases h3 i with h0 | ⟨h0, _⟩ | ⟨h0, _⟩ <;> omega
  · exact herr

/-- a unique that is matched by one duplicate but is not at a corner of exactly one triangle: raise -/
theorem verify_duplicates_single_not_corner_raises (w : K) (dups uniq : List (Intersection K)) (i : Nat)
    (h : (dups.filter (fun d => decide (matchesOf w d uniq = [i]))).length = 1)
    (hz : ((uniq.getD i blank).s = some 0 ↔ (uniq.getD i blank).t = some 0)) :
    verifyDuplicates w dups uniq = .error .valueError := by
  rcases verify_duplicates_error w dups uniq with hok | herr
  · exfalso
    obtain ⟨_, _, h3⟩ := (verify_duplicates_ok_iff w dups uniq).mp hok
    rcases h3 i with h0 | ⟨_, ⟨ha, hb⟩ | ⟨ha, hb⟩⟩ | ⟨h0, _⟩
    · omega
    · exact hb (hz.mp ha)
    · exact ha (hz.mpr hb)
    · omega
  · exact herr

example : verifyDuplicates (K := ℚ) sameWiggle [] [] = .ok () := by decide +kernel

/-- one duplicate of a unique at a corner of the first triangle: accepted -/
example : verifyDuplicates (K := ℚ) sameWiggle [⟨some 1, some 0, some 2, some (1/2), none⟩]
    [⟨some 1, some 0, some 2, some (1/2), some .first⟩] = .ok () := by decide +kernel

/-- the same duplicate twice: `ValueError("Unexpected duplicate count", 2)` -/
example : verifyDuplicates (K := ℚ) sameWiggle
    [⟨some 1, some 0, some 2, some (1/2), none⟩, ⟨some 1, some 0, some 2, some (1/2), none⟩]
    [⟨some 1, some 0, some 2, some (1/2), some .first⟩] = .error .valueError := by decide +kernel

/-- a common corner with four duplicates: `ValueError("Unexpected duplicate count", 4)`; with three: accepted -/
example : verifyDuplicates (K := ℚ) sameWiggle
    [⟨some 0, some 0, some 0, some 0, none⟩, ⟨some 0, some 0, some 0, some 0, none⟩,
     ⟨some 0, some 0, some 0, some 0, none⟩, ⟨some 0, some 0, some 0, some 0, none⟩]
    [⟨some 0, some 0, some 0, some 0, some .coincidentUnused⟩] = .error .valueError := by decide +kernel
example : verifyDuplicates (K := ℚ) sameWiggle
    [⟨some 0, some 0, some 0, some 0, none⟩, ⟨some 0, some 0, some 0, some 0, none⟩,
     ⟨some 0, some 0, some 0, some 0, none⟩]
    [⟨some 0, some 0, some 0, some 0, some .coincidentUnused⟩] = .ok () := by decide +kernel

/-- the tolerance is relative to the SECOND argument: `0` is only the same as `0` -/
example : sameIntersection (K := ℚ) sameWiggle ⟨some 0, some (1/1099511627776), some 0, some (1/2), none⟩
    ⟨some 0, some 0, some 0, some (1/2), none⟩ = false := by decide +kernel
example : sameIntersection (K := ℚ) sameWiggle ⟨some 0, some (1/2 + 1/4398046511104), some 0, some (1/2), none⟩
    ⟨some 0, some (1/2), some 0, some (1/2), none⟩ = true := by decide +kernel

/-- the first and the third unique are the same intersection: "Non-unique intersection" -/
example : anyPairSame (K := ℚ) sameWiggle [⟨some 0, some (1/2), some 0, some (1/2), some .first⟩,
    ⟨some 1, some 0, some 0, some 0, none⟩,
    ⟨some 0, some (1/2), some 0, some (1/2), some .second⟩] = true := by decide +kernel
example : verifyDuplicates (K := ℚ) sameWiggle [] [⟨some 0, some (1/2), some 0, some (1/2), some .first⟩,
    ⟨some 0, some (1/2), some 0, some (1/2), some .second⟩] = .error .valueError := by decide +kernel

/-! ### (c) the classification loop at the end of `triangle_intersections` -/

/-- `to_keep` / `unused` are the stored intersections that `should_use` accepts / refuses, in order; `all_types`
    is the duplicate-free set of the classes of ALL stored intersections -/
theorem split_kept_spec (ints : List (Intersection K)) :
    (Py.splitKept ints).2.1 = ints.filter shouldUse ∧
    (Py.splitKept ints).2.2 = ints.filter (fun x => !shouldUse x) ∧
    (Py.splitKept ints).1.Nodup ∧
    ∀ c, c ∈ (Py.splitKept ints).1 ↔ ∃ x ∈ ints, x.interior = some c := by
  rw [splitKept_eq]
  obtain ⟨h1, h2, h3, h4⟩ := splitStep_fold ints ([], [], [])
  exact ⟨by simpa using h1, by simpa using h2, h3 (by simp), fun c => by simpa using h4 c⟩

/-- Fortran: the kept list is the same filter; `all_types` is the OR of `2 ** class` over all stored ones -/
theorem filter_kept_spec (ints : List (Intersection K)) :
    (F90.filterKept ints).2 = ints.filter shouldUse ∧
    (F90.filterKept ints).1 = bitsOf (ints.filterMap (·.interior)) := by
  rw [filterKept_eq]
  obtain ⟨h1, h2⟩ := filterStep_fold ints (0, [])
  exact ⟨by simpa using h1, h2⟩

/-- bit `k` of the Fortran `all_types` is set iff a stored intersection has the class with code `k` -/
theorem filter_kept_testBit (ints : List (Intersection K)) (k : Nat) :
    (F90.filterKept ints).1.testBit k = true ↔ ∃ x ∈ ints, ∃ c, x.interior = some c ∧ c.code = k := by
  rw [(filter_kept_spec ints).2, testBit_bitsOf]
  constructor
  · rintro ⟨c, hc, hk⟩
    obtain ⟨x, hx, hxc⟩ := List.mem_filterMap.mp hc
    exact ⟨x, hx, c, hxc, hk⟩
  · rintro ⟨x, hx, c, hxc, hk⟩
    exact ⟨c, List.mem_filterMap.mpr ⟨x, hx, hxc⟩, hk⟩

/-- Python and Fortran compute the same kept list and the same set of classes -/
theorem filter_kept_agrees (ints : List (Intersection K)) :
    (F90.filterKept ints).2 = (Py.splitKept ints).2.1 ∧
    (F90.filterKept ints).1 = bitsOf (Py.splitKept ints).1 := by
  refine ⟨by rw [(filter_kept_spec ints).1, (split_kept_spec ints).1], ?_⟩
  apply Nat.eq_of_testBit_eq
  intro k
  rw [Bool.eq_iff_iff, filter_kept_testBit, testBit_bitsOf]
  constructor
  · rintro ⟨x, hx, c, hxc, hk⟩
    exact ⟨c, ((split_kept_spec ints).2.2.2 c).mpr ⟨x, hx, hxc⟩, hk⟩
  · rintro ⟨c, hc, hk⟩
    obtain ⟨x, hx, hxc⟩ := ((split_kept_spec ints).2.2.2 c).mp hc
    exact ⟨x, hx, c, hxc, hk⟩

/-- which branch of `combine_intersections` runs, as a function of the stored intersections: the walk iff some
    stored intersection passes `should_use`; otherwise `tangent_only_intersections` on the set of classes iff
    some stored intersection carries a class; otherwise `no_intersections` -/
theorem dispatch_of_classes (maxEdges : Nat) (locate : LocateFn K) (ints : List (Intersection K))
    (n1 : List (List K)) (d1 : Nat) (n2 : List (List K)) (d2 : Nat) :
    Py.combineIntersections maxEdges locate (Py.splitKept ints).2.1 n1 d1 n2 d2 (Py.splitKept ints).1 =
      if ints.any shouldUse = true then Py.basicInteriorCombine maxEdges (ints.filter shouldUse)
      else if ints.any (fun x => x.interior.isSome) = true then Py.tangentOnly (Py.splitKept ints).1
      else .ok (noIntersections locate n1 d1 n2 d2) := by
  obtain ⟨h1, _, _, h4⟩ := split_kept_spec ints
  rw [h1]
  by_cases h : ints.any shouldUse = true
  · rw [if_pos h]
    apply combine_dispatch_walk
    obtain ⟨x, hx, hu⟩ := List.any_eq_true.mp h
    intro hnil
    have : x ∈ ints.filter shouldUse := List.mem_filter.mpr ⟨hx, hu⟩
    rw [hnil] at this
    simp at this
  · rw [if_neg h]
    have hnil : ints.filter shouldUse = [] := by
      rw [List.filter_eq_nil_iff]
      intro x hx hu
      exact h (List.any_eq_true.mpr ⟨x, hx, hu⟩)
    rw [hnil]
    by_cases h2 : ints.any (fun x => x.interior.isSome) = true
    · rw [if_pos h2]
      apply combine_dispatch_tangent
      obtain ⟨x, hx, hs⟩ := List.any_eq_true.mp h2
      obtain ⟨c, hc⟩ := Option.isSome_iff_exists.mp hs
      intro hnil2
      have : c ∈ (Py.splitKept ints).1 := (h4 c).mpr ⟨x, hx, hc⟩
      rw [hnil2] at this
      simp at this
    · rw [if_neg h2]
      have hnil2 : (Py.splitKept ints).1 = [] := by
        rw [List.eq_nil_iff_forall_not_mem]
        intro c hc
        obtain ⟨x, hx, hxc⟩ := (h4 c).mp hc
        exact h2 (List.any_eq_true.mpr ⟨x, hx, by rw [hxc]; rfl⟩)
      rw [hnil2]
      exact combine_dispatch_locate maxEdges locate n1 d1 n2 d2

/-- the same for the Fortran dispatch -/
theorem f90_dispatch_of_classes (maxEdges : Nat) (locate : LocateFn K) (ints : List (Intersection K))
    (n1 : List (List K)) (d1 : Nat) (n2 : List (List K)) (d2 : Nat) :
    F90.combineIntersections maxEdges locate (F90.filterKept ints).2 n1 d1 n2 d2 (F90.filterKept ints).1 =
      if ints.any shouldUse = true then F90.interiorCombine maxEdges (ints.filter shouldUse)
      else if ints.any (fun x => x.interior.isSome) = true then F90.tangentOnly (F90.filterKept ints).1
      else .ok (noIntersections locate n1 d1 n2 d2) := by
  obtain ⟨h1, h2⟩ := filter_kept_spec ints
  rw [h1]
  by_cases h : ints.any shouldUse = true
  · rw [if_pos h]
    apply f90_combine_dispatch_walk
    obtain ⟨x, hx, hu⟩ := List.any_eq_true.mp h
    intro hnil
    have : x ∈ ints.filter shouldUse := List.mem_filter.mpr ⟨hx, hu⟩
    rw [hnil] at this
    simp at this
  · rw [if_neg h]
    have hnil : ints.filter shouldUse = [] := by
      rw [List.filter_eq_nil_iff]
      intro x hx hu
      exact h (List.any_eq_true.mpr ⟨x, hx, hu⟩)
    rw [hnil]
    by_cases h3 : ints.any (fun x => x.interior.isSome) = true
    · rw [if_pos h3]
      apply f90_combine_dispatch_tangent
      obtain ⟨x, hx, hs⟩ := List.any_eq_true.mp h3
      obtain ⟨c, hc⟩ := Option.isSome_iff_exists.mp hs
      rw [h2]
      intro h0
      have := (bitsOf_eq_zero_iff _).mp h0
      have hm : c ∈ ints.filterMap (·.interior) := List.mem_filterMap.mpr ⟨x, hx, hc⟩
      rw [this] at hm
      simp at hm
    · rw [if_neg h3]
      have h0 : (F90.filterKept ints).1 = 0 := by
        rw [h2, bitsOf_eq_zero_iff, List.eq_nil_iff_forall_not_mem]
        intro c hc
        obtain ⟨x, hx, hxc⟩ := List.mem_filterMap.mp hc
        exact h3 (List.any_eq_true.mpr ⟨x, hx, by rw [hxc]; rfl⟩)
      rw [h0]
      exact f90_combine_dispatch_locate maxEdges locate n1 d1 n2 d2

example : (Py.splitKept (K := ℚ) [⟨some 0, some (1/2), some 1, some (1/2), some .first⟩,
      ⟨some 0, some (1/3), some 1, some (1/4), some .opposed⟩,
      ⟨some 1, some (1/2), some 2, some (1/2), some .first⟩]).1 = [.first, .opposed] := by decide +kernel
example : (F90.filterKept (K := ℚ) [⟨some 0, some (1/2), some 1, some (1/2), some .first⟩,
      ⟨some 0, some (1/3), some 1, some (1/4), some .opposed⟩,
      ⟨some 1, some (1/2), some 2, some (1/2), some .first⟩]).1 = 5 := by decide +kernel
example : ((Py.splitKept (K := ℚ) [⟨some 0, some (1/2), some 1, some (1/2), some .tangentFirst⟩,
      ⟨some 0, some 0, some 1, some (1/4), some .tangentSecond⟩]).2.1.map (·.interior)) =
      [some .tangentSecond] := by decide +kernel

/-! ### (d) invariants of the edge-pair loop -/

/-- one call of `add_intersection` keeps the invariant of the stored intersections -/
theorem add_intersection_stored (thr : Nat) (e1 e2 : List (List (List K))) (i1 : Nat) (s : K) (i2 : Nat) (t : K)
    (interior : Option Cls) (acc acc' : Acc K) (h1 : i1 < 3) (h2 : i2 < 3)
    (hacc : ∀ x ∈ acc.2, StoredOK x)
    (h : Py.addIntersection thr e1 e2 i1 s i2 t interior acc = .ok acc') : ∀ x ∈ acc'.2, StoredOK x := by
  by_cases he : s = 1 ∨ t = 1
  · by_cases hi : interior = some .coincidentUnused
    · subst hi
      rw [add_intersection_edge_end_unused thr e1 e2 i1 s i2 t acc he] at h
      cases h
      intro x hx
      rcases add_edge_end_unused_spec (rotated i1 s i2 t (some .coincidentUnused)) acc with
        ⟨i, hi, _, _, hr⟩ | ⟨_, hr⟩
      · rw [hr] at hx
        rcases List.mem_append.mp hx with hx | hx
        · exact hacc x (List.mem_of_mem_eraseIdx hx)
        · rw [List.mem_singleton.mp hx]; exact rotated_stored i1 s i2 t _ h1 h2
      · rw [hr] at hx
        rcases List.mem_append.mp hx with hx | hx
        · exact hacc x hx
        · rw [List.mem_singleton.mp hx]; exact rotated_stored i1 s i2 t _ h1 h2
    · rw [add_intersection_edge_end thr e1 e2 i1 s i2 t interior acc he hi] at h
      cases h
      exact hacc
  · have hs : s ≠ 1 := fun h1 => he (Or.inl h1)
    have ht : t ≠ 1 := fun h1 => he (Or.inr h1)
    by_cases hn : (s = 0 ∨ t = 0) ∧
        Py.checkUnused (⟨some i1, some s, some i2, some t, none⟩ : Intersection K) acc.2 = true
    · rw [add_intersection_corner_duplicate thr e1 e2 i1 s i2 t interior acc hs ht hn.1 hn.2] at h
      cases h
      exact hacc
    · cases interior with
      | some c =>
        rw [add_intersection_known thr e1 e2 i1 s i2 t c acc hs ht hn] at h
        cases h
        intro x hx
        rcases List.mem_append.mp hx with hx | hx
        · exact hacc x hx
        · rw [List.mem_singleton.mp hx]; exact plain_stored i1 s i2 t c h1 h2 hs ht
      | none =>
        rw [add_intersection_classified thr e1 e2 i1 s i2 t acc hs ht hn] at h
        cases hc : classifyIntersection thr i1 s i2 t e1 e2 with
        | error e => rw [hc] at h; cases h
        | ok c =>
          rw [hc] at h
          cases h
          intro x hx
          rcases List.mem_append.mp hx with hx | hx
          · exact hacc x hx
          · rw [List.mem_singleton.mp hx]; exact plain_stored i1 s i2 t c h1 h2 hs ht

/-- one edge pair keeps the invariant -/
theorem edge_pair_stored (thr : Nat) (allInt : AllIntFn K) (e1 e2 : List (List (List K))) (i1 i2 : Nat)
    (acc acc' : Acc K) (h1 : i1 < 3) (h2 : i2 < 3) (hacc : ∀ x ∈ acc.2, StoredOK x)
    (h : Py.edgePair thr allInt e1 e2 i1 i2 acc = .ok acc') : ∀ x ∈ acc'.2, StoredOK x := by
  unfold Py.edgePair at h
  cases ha : allInt (e1.getD i1 []) (e2.getD i2 []) with
  | error e => rw [ha] at h; cases h
  | ok r =>
    rcases r with ⟨stVals, coincident⟩
    rw [ha] at h
    exact foldlM_inv _ (fun a : Acc K => ∀ x ∈ a.2, StoredOK x) stVals
      (fun st _ b b' hb hst => add_intersection_stored thr e1 e2 i1 st.1 i2 st.2 _ b b' h1 h2 hb hst)
      acc acc' hacc h

/-- a successful `triangle_intersections` is the classification loop applied to the result of the double loop -/
theorem triangle_intersections_ok (thr : Nat) (allInt : AllIntFn K) (e1 e2 : List (List (List K)))
    (r : TriInts K) (h : Py.triangleIntersections thr allInt e1 e2 = .ok r) :
    ∃ acc : Acc K,
      edgePairs.foldlM (fun acc ij => Py.edgePair thr allInt e1 e2 ij.1 ij.2 acc) (([], []) : Acc K) = .ok acc ∧
      r.keep = acc.2.filter shouldUse ∧ r.unused = acc.2.filter (fun x => !shouldUse x) ∧
      r.duplicates = acc.1 ∧ r.allTypes = (Py.splitKept acc.2).1 := by
  unfold Py.triangleIntersections at h
  cases hf : edgePairs.foldlM (fun acc ij => Py.edgePair thr allInt e1 e2 ij.1 ij.2 acc) (([], []) : Acc K) with
  | error e => rw [hf] at h; cases h
  | ok acc =>
    rw [hf] at h
    cases h
    obtain ⟨h1, h2, _, _⟩ := split_kept_spec acc.2
    exact ⟨acc, rfl, h1, h2, rfl, rfl⟩

/-- what `triangle_intersections` returns: every stored intersection (`to_keep` and `unused`) has all five fields,
    no parameter equal to `1` (an END of an edge is never stored), edge indices `0, 1, 2`; `to_keep` is exactly
    what `should_use` accepts, `unused` what it refuses; in particular the guard of the walk
    (`Py.walkRegions`: every field present) holds for `to_keep` -/
theorem triangle_intersections_stored (thr : Nat) (allInt : AllIntFn K) (e1 e2 : List (List (List K)))
    (r : TriInts K) (h : Py.triangleIntersections thr allInt e1 e2 = .ok r) :
    (∀ x ∈ r.keep ++ r.unused, isFull x = true ∧ x.s ≠ some 1 ∧ x.t ≠ some 1 ∧
      (∃ i, i < 3 ∧ x.indexFirst = some i) ∧ (∃ j, j < 3 ∧ x.indexSecond = some j)) ∧
    (∀ x ∈ r.keep, shouldUse x = true) ∧ (∀ x ∈ r.unused, shouldUse x = false) ∧
    r.keep.all isFull = true := by
  obtain ⟨acc, hf, hk, hu, _, _⟩ := triangle_intersections_ok thr allInt e1 e2 r h
  have hlt : ∀ ij ∈ edgePairs, ij.1 < 3 ∧ ij.2 < 3 := by decide
  have hinv : ∀ x ∈ acc.2, StoredOK x :=
    foldlM_inv _ (fun a : Acc K => ∀ x ∈ a.2, StoredOK x) edgePairs
      (fun ij hij b b' hb hst =>
        edge_pair_stored thr allInt e1 e2 ij.1 ij.2 b b' (hlt ij hij).1 (hlt ij hij).2 hb hst)
      ([], []) acc (by simp) hf
  refine ⟨?_, ?_, ?_, ?_⟩
  · intro x hx
    rw [hk, hu] at hx
    rcases List.mem_append.mp hx with hx | hx
    · exact hinv x (List.mem_filter.mp hx).1
    · exact hinv x (List.mem_filter.mp hx).1
  · intro x hx
    rw [hk] at hx
    exact (List.mem_filter.mp hx).2
  · intro x hx
    rw [hu] at hx
    simpa using (List.mem_filter.mp hx).2
  · rw [List.all_eq_true]
    intro x hx
    rw [hk] at hx
    exact (hinv x (List.mem_filter.mp hx).1).1

/-- every stored intersection carries a class, hence: `all_types` is empty iff nothing is stored -/
theorem triangle_intersections_types_nil_iff (thr : Nat) (allInt : AllIntFn K) (e1 e2 : List (List (List K)))
    (r : TriInts K) (h : Py.triangleIntersections thr allInt e1 e2 = .ok r) :
    r.allTypes = [] ↔ r.keep = [] ∧ r.unused = [] := by
  obtain ⟨hall, _, _, _⟩ := triangle_intersections_stored thr allInt e1 e2 r h
  obtain ⟨acc, hf, hk, hu, _, ht⟩ := triangle_intersections_ok thr allInt e1 e2 r h
  obtain ⟨_, _, _, h4⟩ := split_kept_spec acc.2
  constructor
  · intro hnil
    have hacc : acc.2 = [] := by
      rw [List.eq_nil_iff_forall_not_mem]
      intro x hx
      have hx' : x ∈ r.keep ++ r.unused := by
        rw [hk, hu, List.mem_append, List.mem_filter, List.mem_filter]
        by_cases hs : shouldUse x = true
        · left; exact ⟨hx, hs⟩
        · right; exact ⟨hx, by simpa using hs⟩
      have hfull := (hall x hx').1
      simp only [isFull, Bool.and_eq_true] at hfull
      obtain ⟨c, hc⟩ := Option.isSome_iff_exists.mp hfull.2
      have : c ∈ r.allTypes := by rw [ht]; exact (h4 c).mpr ⟨x, hx, hc⟩
      rw [hnil] at this
      simp at this
    rw [hk, hu, hacc]
    simp
  · rintro ⟨h1, h2⟩
    rw [ht, List.eq_nil_iff_forall_not_mem]
    intro c hc
    obtain ⟨x, hx, _⟩ := (h4 c).mp hc
    have hx' : x ∈ r.keep ++ r.unused := by
      rw [hk, hu, List.mem_append, List.mem_filter, List.mem_filter]
      by_cases hs : shouldUse x = true
      · left; exact ⟨hx, hs⟩
      · right; exact ⟨hx, by simpa using hs⟩
    rw [h1, h2] at hx'
    simp at hx'

/-- the dispatch of `generic_intersect` in terms of what `triangle_intersections` returned: the walk iff
    `to_keep` is non-empty; otherwise `tangent_only_intersections` iff `unused` is non-empty; otherwise
    `no_intersections` -/
theorem triangle_intersections_dispatch (thr maxEdges : Nat) (allInt : AllIntFn K) (locate : LocateFn K)
    (e1 e2 : List (List (List K))) (n1 : List (List K)) (d1 : Nat) (n2 : List (List K)) (d2 : Nat)
    (r : TriInts K) (h : Py.triangleIntersections thr allInt e1 e2 = .ok r) :
    Py.combineIntersections maxEdges locate r.keep n1 d1 n2 d2 r.allTypes =
      if r.keep ≠ [] then Py.basicInteriorCombine maxEdges r.keep
      else if r.unused ≠ [] then Py.tangentOnly r.allTypes
      else .ok (noIntersections locate n1 d1 n2 d2) := by
  have hnil := triangle_intersections_types_nil_iff thr allInt e1 e2 r h
  by_cases hk : r.keep = []
  · rw [if_neg (not_not.mpr hk), hk]
    by_cases hu : r.unused = []
    · rw [if_neg (not_not.mpr hu), hnil.mpr ⟨hk, hu⟩]
      exact combine_dispatch_locate maxEdges locate n1 d1 n2 d2
    · rw [if_pos hu]
      apply combine_dispatch_tangent
      intro ht
      exact hu (hnil.mp ht).2
  · rw [if_pos hk]
    exact combine_dispatch_walk maxEdges locate r.keep n1 d1 n2 d2 r.allTypes hk

/-! ### (d) error propagation -/

/-- `triangle_intersections` raises `e` iff the double loop reaches an edge pair — all earlier pairs having
    succeeded — whose body raises `e` -/
theorem triangle_intersections_error_iff (thr : Nat) (allInt : AllIntFn K) (e1 e2 : List (List (List K)))
    (e : Err) :
    Py.triangleIntersections thr allInt e1 e2 = .error e ↔
      ∃ (l1 : List (Nat × Nat)) (ij : Nat × Nat) (l2 : List (Nat × Nat)) (acc : Acc K),
        edgePairs = l1 ++ ij :: l2 ∧
        l1.foldlM (fun acc ij => Py.edgePair thr allInt e1 e2 ij.1 ij.2 acc) (([], []) : Acc K) = .ok acc ∧
        Py.edgePair thr allInt e1 e2 ij.1 ij.2 acc = .error e := by
  rw [← foldlM_error_iff]
  unfold Py.triangleIntersections
  cases edgePairs.foldlM (fun acc ij => Py.edgePair thr allInt e1 e2 ij.1 ij.2 acc) (([], []) : Acc K) with
  | error e' => simp
  | ok acc => simp

/-- the body for one edge pair raises `e` iff `all_intersections` raises `e` on the two edges, or some
    `add_intersection` call — all earlier ones of this pair having succeeded — raises `e` (by
    `add_intersection_error_iff`: `classify_intersection` raises `e`) -/
theorem edge_pair_error_iff (thr : Nat) (allInt : AllIntFn K) (e1 e2 : List (List (List K))) (i1 i2 : Nat)
    (acc : Acc K) (e : Err) :
    Py.edgePair thr allInt e1 e2 i1 i2 acc = .error e ↔
      allInt (e1.getD i1 []) (e2.getD i2 []) = .error e ∨
      ∃ stVals coincident, allInt (e1.getD i1 []) (e2.getD i2 []) = .ok (stVals, coincident) ∧
        ∃ (c1 : List (K × K)) (st : K × K) (c2 : List (K × K)) (acc' : Acc K), stVals = c1 ++ st :: c2 ∧
          c1.foldlM (fun acc st => Py.addIntersection thr e1 e2 i1 st.1 i2 st.2
            (classifyCoincident (rowsOfCols stVals) coincident) acc) acc = .ok acc' ∧
          Py.addIntersection thr e1 e2 i1 st.1 i2 st.2
            (classifyCoincident (rowsOfCols stVals) coincident) acc' = .error e := by
  unfold Py.edgePair
  cases ha : allInt (e1.getD i1 []) (e2.getD i2 []) with
  | error e' => simp
  | ok r =>
    rcases r with ⟨stVals, coincident⟩
    simp only [reduceCtorEq, false_or, Except.ok.injEq, Prod.mk.injEq]
    rw [foldlM_error_iff]
    constructor
    · rintro ⟨c1, st, c2, acc', h1, h2, h3⟩
      exact ⟨stVals, coincident, ⟨rfl, rfl⟩, c1, st, c2, acc', h1, h2, h3⟩
    · rintro ⟨sv, co, ⟨rfl, rfl⟩, c1, st, c2, acc', h1, h2, h3⟩
      exact ⟨c1, st, c2, acc', h1, h2, h3⟩

/-- in particular: a failure of `all_intersections` on the very first edge pair is the failure of the whole -/
theorem triangle_intersections_first_pair_error (thr : Nat) (allInt : AllIntFn K) (e1 e2 : List (List (List K)))
    (e : Err) (h : allInt (e1.getD 0 []) (e2.getD 0 []) = .error e) :
    Py.triangleIntersections thr allInt e1 e2 = .error e := by
  rw [triangle_intersections_error_iff]
  refine ⟨[], (0, 0), [(0,1),(0,2),(1,0),(1,1),(1,2),(2,0),(2,1),(2,2)], ([], []), rfl, rfl, ?_⟩
  rw [edge_pair_error_iff]
  left; exact h

/-- two coincident points on edge pair (0, 0), nothing elsewhere: both stored and kept, class set `{COINCIDENT}` -/
example : (match Py.triangleIntersections (K := ℚ) 55
      (fun n1 n2 => if n1 = [[0]] ∧ n2 = [[0]] then .ok ([(1/4, 1/4), (1/2, 1/2)], true) else .ok ([], false))
      [[[0]], [[1]], [[2]]] [[[0]], [[1]], [[2]]] with
    | .ok r => (r.keep.length, r.unused.length, r.duplicates.length, r.allTypes)
    | .error _ => (9, 9, 9, [])) = (2, 0, 0, [.coincident]) := by decide +kernel

/-- a coincident segment ending at `s = 1`: the end point goes to `duplicates`, only the start is stored -/
example : (match Py.triangleIntersections (K := ℚ) 55
      (fun n1 n2 => if n1 = [[0]] ∧ n2 = [[0]] then .ok ([(1/2, 1/4), (1, 3/4)], true) else .ok ([], false))
      [[[0]], [[1]], [[2]]] [[[0]], [[1]], [[2]]] with
    | .ok r => (r.keep.map (·.s), r.unused.length, r.duplicates.map (fun x => (x.indexFirst, x.s)), r.allTypes)
    | .error _ => ([], 9, [], [])) = ([some (1/2)], 0, [(some 1, some 0)], [.coincident]) := by decide +kernel

/-- an error of `all_intersections` on the pair (1, 1) is the error of the whole function -/
example : (match Py.triangleIntersections (K := ℚ) 55
      (fun n1 n2 => if n1 = [[1]] ∧ n2 = [[1]] then .error .notImplemented else .ok ([], false))
      [[[0]], [[1]], [[2]]] [[[0]], [[1]], [[2]]] with
    | .ok _ => none
    | .error e => some e) = some .notImplemented := by decide +kernel

/-- a failing classification (degenerate edges: vanishing tangent) on the pair (1, 1) is the error of the whole -/
example : (match Py.triangleIntersections (K := ℚ) 55
      (fun n1 n2 => if n1 = [[1]] ∧ n2 = [[1]] then .ok ([(1/2, 1/2)], false) else .ok ([], false))
      [[[0]], [[1]], [[2]]] [[[0]], [[1]], [[2]]] with
    | .ok _ => none
    | .error e => some e) = some .badInput := by decide +kernel

/-! ### (d) the Fortran edge-pair loop -/

/-- `setUnusedAt i`: length and order are kept, only the class of element `i` changes -/
theorem set_unused_at_spec (ints : List (Intersection K)) (i : Nat) :
    (setUnusedAt i ints).length = ints.length ∧
    ∀ j, j < ints.length → (setUnusedAt i ints).getD j blank =
      if j = i then { ints.getD j blank with interior := some .coincidentUnused } else ints.getD j blank :=
  ⟨setUnusedAt_length ints i, fun j hj => setUnusedAt_getD ints i j hj⟩

/-- `update_edge_end_unused`: the FIRST stored intersection on the rotated edge pair with the tested parameter
    `0` (`s` when the rotated `s` is 0, else `t`: `f90Match`) is re-labelled COINCIDENT_UNUSED in place; if there
    is none the rotated COINCIDENT_UNUSED intersection is appended -/
theorem update_edge_end_unused_spec (s : K) (i1 : Nat) (t : K) (i2 : Nat) (ints : List (Intersection K)) :
    (∃ i, ∃ hi : i < ints.length, f90Match s i1 t i2 (ints[i]) = true ∧
        (∀ j, j < i → ∀ hj : j < ints.length, f90Match s i1 t i2 (ints[j]) = false) ∧
        F90.updateEdgeEndUnused s i1 t i2 ints = setUnusedAt i ints) ∨
    ((∀ o ∈ ints, f90Match s i1 t i2 o = false) ∧
      F90.updateEdgeEndUnused s i1 t i2 ints = ints ++ [rotated i1 s i2 t (some .coincidentUnused)]) := by
  unfold F90.updateEdgeEndUnused
  dsimp only
  by_cases hs0 : (if s = 1 then (0 : K) else s) = 0
  · have hp : f90Match s i1 t i2 = (fun o => decide (some (if s = 1 then (i1 + 1) % 3 else i1) = o.indexFirst) &&
        decide (some (if t = 1 then (i2 + 1) % 3 else i2) = o.indexSecond) && decide (o.s = some 0)) := by
      funext o; unfold f90Match; rw [if_pos hs0]
    rw [if_pos hs0, hp]
    cases hf : Classify.findIdx? (fun o => decide (some (if s = 1 then (i1 + 1) % 3 else i1) = o.indexFirst) &&
        decide (some (if t = 1 then (i2 + 1) % 3 else i2) = o.indexSecond) && decide (o.s = some 0)) ints with
    | some i =>
      left
      obtain ⟨h1, h2, h3⟩ := findIdx?_some _ _ i hf
      exact ⟨i, h1, h2 h1, h3, rfl⟩
    | none =>
      right
      exact ⟨findIdx?_none _ _ hf, rfl⟩
  · have hp : f90Match s i1 t i2 = (fun o => decide (some (if s = 1 then (i1 + 1) % 3 else i1) = o.indexFirst) &&
        decide (some (if t = 1 then (i2 + 1) % 3 else i2) = o.indexSecond) && decide (o.t = some 0)) := by
      funext o; unfold f90Match; rw [if_neg hs0]
    rw [if_neg hs0, hp]
    cases hf : Classify.findIdx? (fun o => decide (some (if s = 1 then (i1 + 1) % 3 else i1) = o.indexFirst) &&
        decide (some (if t = 1 then (i2 + 1) % 3 else i2) = o.indexSecond) && decide (o.t = some 0)) ints with
    | some i =>
      left
      obtain ⟨h1, h2, h3⟩ := findIdx?_some _ _ i hf
      exact ⟨i, h1, h2 h1, h3, rfl⟩
    | none =>
      right
      exact ⟨findIdx?_none _ _ hf, rfl⟩

/-- what Fortran matches, Python matches (at the end of an edge); the converse fails: see the example below -/
theorem f90_match_imp_corner_match (s : K) (i1 : Nat) (t : K) (i2 : Nat) (c : Option Cls) (o : Intersection K)
    (he : s = 1 ∨ t = 1) (h : f90Match s i1 t i2 o = true) : cornerMatch (rotated i1 s i2 t c) o = true := by
  unfold f90Match at h
  unfold cornerMatch rotated
  simp only [Bool.and_eq_true, decide_eq_true_eq] at h
  obtain ⟨⟨h1, h2⟩, h3⟩ := h
  simp only [Bool.and_eq_true, Bool.or_eq_true, decide_eq_true_eq, Option.some.injEq]
  refine ⟨⟨h1, h2⟩, ?_⟩
  by_cases hs0 : (if s = 1 then (0 : K) else s) = 0
  · rw [if_pos hs0] at h3
    left; exact ⟨hs0, by simpa using h3⟩
  · rw [if_neg hs0] at h3
    right
    refine ⟨?_, by simpa using h3⟩
    have hs1 : s ≠ 1 := by
      intro h1; apply hs0; rw [if_pos h1]
    have ht1 : t = 1 := by
      rcases he with h | h
      · exact absurd h hs1
      · exact h
    rw [if_pos ht1]

/-- both parameters at an edge end, the stored intersection has `t = 0` but `s ≠ 0`: Python moves it to
    `duplicates` and stores the new COINCIDENT_UNUSED one; Fortran (looking at `s` only) keeps it and appends -/
example : Py.addEdgeEndUnused (K := ℚ) (rotated 0 1 0 1 (some .coincidentUnused))
      ([], [⟨some 1, some (1/2), some 1, some 0, some .first⟩]) =
    ([⟨some 1, some (1/2), some 1, some 0, some .first⟩],
     [⟨some 1, some 0, some 1, some 0, some .coincidentUnused⟩]) :=
  Except.ok.inj ((eqAcc_iff (.ok _) _).mp (by decide +kernel))
example : F90.updateEdgeEndUnused (K := ℚ) 1 0 1 0 [⟨some 1, some (1/2), some 1, some 0, some .first⟩] =
    [⟨some 1, some (1/2), some 1, some 0, some .first⟩,
     ⟨some 1, some 0, some 1, some 0, some .coincidentUnused⟩] := (eqL_iff _ _).mp (by decide +kernel)

/-- `find_corner_unused` (Fortran) finds only what `check_unused` (Python) finds … -/
theorem find_corner_unused_imp_check_unused (s t : K) (i1 i2 : Nat) (ints : List (Intersection K))
    (hc : s = 0 ∨ t = 0) (h : F90.findCornerUnused s i1 i2 ints = true) :
    Py.checkUnused (⟨some i1, some s, some i2, some t, none⟩ : Intersection K) ints = true := by
  unfold F90.findCornerUnused at h
  unfold Py.checkUnused
  rw [List.any_eq_true]
  by_cases hs : s = 0
  · rw [if_pos hs, List.any_eq_true] at h
    obtain ⟨o, ho, hp⟩ := h
    simp only [Bool.and_eq_true, decide_eq_true_eq] at hp
    obtain ⟨⟨⟨h1, h2⟩, h3⟩, h4⟩ := hp
    refine ⟨o, ho, ?_⟩
    simp only [cornerMatch, Bool.and_eq_true, Bool.or_eq_true, decide_eq_true_eq, Option.some.injEq]
    exact ⟨h1, ⟨h2, h3⟩, Or.inl ⟨hs, h4⟩⟩
  · rw [if_neg hs, List.any_eq_true] at h
    obtain ⟨o, ho, hp⟩ := h
    simp only [Bool.and_eq_true, decide_eq_true_eq] at hp
    obtain ⟨⟨⟨h1, h2⟩, h3⟩, h4⟩ := hp
    have ht : t = 0 := by
      rcases hc with h | h
      · exact absurd h hs
      · exact h
    refine ⟨o, ho, ?_⟩
    simp only [cornerMatch, Bool.and_eq_true, Bool.or_eq_true, decide_eq_true_eq, Option.some.injEq]
    exact ⟨h1, ⟨h2, h3⟩, Or.inr ⟨ht, h4⟩⟩

/-- … but not conversely: at a common corner (`s = t = 0`) a stored COINCIDENT_UNUSED intersection with `t = 0`,
    `s ≠ 0` is found by Python only -/
example : Py.checkUnused (K := ℚ) ⟨some 0, some 0, some 0, some 0, none⟩
    [⟨some 0, some (1/2), some 0, some 0, some .coincidentUnused⟩] = true := by decide +kernel
example : F90.findCornerUnused (K := ℚ) 0 0 0
    [⟨some 0, some (1/2), some 0, some 0, some .coincidentUnused⟩] = false := by decide +kernel

/-- Fortran `add_st_vals`, a value at the END of an edge: dropped (there is no `duplicates` list), unless the
    pair is COINCIDENT_UNUSED, in which case `update_edge_end_unused` runs -/
theorem f90_add_st_val_edge_end (thr : Nat) (e1 e2 : List (List (List K))) (known : Option Cls) (i1 i2 : Nat)
    (ints : List (Intersection K)) (st : K × K) (h : st.1 = 1 ∨ st.2 = 1) :
    F90.addStVal thr e1 e2 known i1 i2 ints st =
      .ok (if known = some .coincidentUnused then F90.updateEdgeEndUnused st.1 i1 st.2 i2 ints else ints) := by
  unfold F90.addStVal
  rw [if_pos h]
  split_ifs <;> rfl

/-- a corner already recorded as COINCIDENT_UNUSED (`find_corner_unused`): dropped -/
theorem f90_add_st_val_corner (thr : Nat) (e1 e2 : List (List (List K))) (known : Option Cls) (i1 i2 : Nat)
    (ints : List (Intersection K)) (st : K × K) (h : ¬ (st.1 = 1 ∨ st.2 = 1))
    (hc : (st.1 = 0 ∨ st.2 = 0) ∧ F90.findCornerUnused st.1 i1 i2 ints = true) :
    F90.addStVal thr e1 e2 known i1 i2 ints st = .ok ints := by
  unfold F90.addStVal
  rw [if_neg h, if_pos hc]

/-- otherwise the intersection is stored with the known class, or classified -/
theorem f90_add_st_val_store (thr : Nat) (e1 e2 : List (List (List K))) (known : Option Cls) (i1 i2 : Nat)
    (ints : List (Intersection K)) (st : K × K) (h : ¬ (st.1 = 1 ∨ st.2 = 1))
    (hc : ¬ ((st.1 = 0 ∨ st.2 = 0) ∧ F90.findCornerUnused st.1 i1 i2 ints = true)) :
    F90.addStVal thr e1 e2 known i1 i2 ints st =
      (match known with
       | some c => .ok (ints ++ [⟨some i1, some st.1, some i2, some st.2, some c⟩])
       | none =>
         match classifyIntersection thr i1 st.1 i2 st.2 e1 e2 with
         | .error e => .error e
         | .ok c => .ok (ints ++ [⟨some i1, some st.1, some i2, some st.2, some c⟩])) := by
  unfold F90.addStVal
  rw [if_neg h, if_neg hc]
  cases known with
  | some c => rfl
  | none => cases classifyIntersection thr i1 st.1 i2 st.2 e1 e2 <;> rfl

/-- one pass of `value_loop` keeps the invariant of the stored intersections -/
theorem f90_add_st_val_stored (thr : Nat) (e1 e2 : List (List (List K))) (known : Option Cls) (i1 i2 : Nat)
    (ints ints' : List (Intersection K)) (st : K × K) (h1 : i1 < 3) (h2 : i2 < 3)
    (hacc : ∀ x ∈ ints, StoredOK x) (h : F90.addStVal thr e1 e2 known i1 i2 ints st = .ok ints') :
    ∀ x ∈ ints', StoredOK x := by
  by_cases he : st.1 = 1 ∨ st.2 = 1
  · rw [f90_add_st_val_edge_end thr e1 e2 known i1 i2 ints st he] at h
    by_cases hk : known = some .coincidentUnused
    · rw [if_pos hk] at h
      cases h
      intro x hx
      rcases update_edge_end_unused_spec st.1 i1 st.2 i2 ints with ⟨i, hi, _, _, hr⟩ | ⟨_, hr⟩
      · rw [hr] at hx
        rcases mem_setUnusedAt ints i x hx with hx | ⟨y, hy, hxy⟩
        · exact hacc x hx
        · rw [hxy]; exact relabel_stored y (hacc y hy)
      · rw [hr] at hx
        rcases List.mem_append.mp hx with hx | hx
        · exact hacc x hx
        · rw [List.mem_singleton.mp hx]; exact rotated_stored i1 st.1 i2 st.2 _ h1 h2
    · rw [if_neg hk] at h
      cases h
      exact hacc
  · have hs : st.1 ≠ 1 := fun h1 => he (Or.inl h1)
    have ht : st.2 ≠ 1 := fun h1 => he (Or.inr h1)
    by_cases hc : (st.1 = 0 ∨ st.2 = 0) ∧ F90.findCornerUnused st.1 i1 i2 ints = true
    · rw [f90_add_st_val_corner thr e1 e2 known i1 i2 ints st he hc] at h
      cases h
      exact hacc
    · rw [f90_add_st_val_store thr e1 e2 known i1 i2 ints st he hc] at h
      cases known with
      | some c =>
        cases h
        intro x hx
        rcases List.mem_append.mp hx with hx | hx
        · exact hacc x hx
        · rw [List.mem_singleton.mp hx]; exact plain_stored i1 st.1 i2 st.2 c h1 h2 hs ht
      | none =>
        simp only at h
        cases hcl : classifyIntersection thr i1 st.1 i2 st.2 e1 e2 with
        | error e => rw [hcl] at h; cases h
        | ok c =>
          rw [hcl] at h
          cases h
          intro x hx
          rcases List.mem_append.mp hx with hx | hx
          · exact hacc x hx
          · rw [List.mem_singleton.mp hx]; exact plain_stored i1 st.1 i2 st.2 c h1 h2 hs ht

/-- the Fortran list never grows by more than one element per value, and never shrinks -/
theorem f90_add_st_val_length (thr : Nat) (e1 e2 : List (List (List K))) (known : Option Cls) (i1 i2 : Nat)
    (ints ints' : List (Intersection K)) (st : K × K)
    (h : F90.addStVal thr e1 e2 known i1 i2 ints st = .ok ints') :
    ints'.length = ints.length ∨ ints'.length = ints.length + 1 := by
  by_cases he : st.1 = 1 ∨ st.2 = 1
  · rw [f90_add_st_val_edge_end thr e1 e2 known i1 i2 ints st he] at h
    by_cases hk : known = some .coincidentUnused
    · rw [if_pos hk] at h
      cases h
      rcases update_edge_end_unused_spec st.1 i1 st.2 i2 ints with ⟨i, hi, _, _, hr⟩ | ⟨_, hr⟩
      · left; rw [hr]; exact setUnusedAt_length ints i
      · right; rw [hr]; simp
    · rw [if_neg hk] at h
      cases h
      left; rfl
  · by_cases hc : (st.1 = 0 ∨ st.2 = 0) ∧ F90.findCornerUnused st.1 i1 i2 ints = true
    · rw [f90_add_st_val_corner thr e1 e2 known i1 i2 ints st he hc] at h
      cases h
      left; rfl
    · rw [f90_add_st_val_store thr e1 e2 known i1 i2 ints st he hc] at h
      cases known with
      | some c => cases h; right; simp
      | none =>
        simp only at h
        cases hcl : classifyIntersection thr i1 st.1 i2 st.2 e1 e2 with
        | error e => rw [hcl] at h; cases h
        | ok c => rw [hcl] at h; cases h; right; simp

/-- one edge pair (Fortran) keeps the invariant -/
theorem f90_edge_pair_stored (thr : Nat) (allInt : AllIntFn K) (e1 e2 : List (List (List K))) (i1 i2 : Nat)
    (ints ints' : List (Intersection K)) (h1 : i1 < 3) (h2 : i2 < 3) (hacc : ∀ x ∈ ints, StoredOK x)
    (h : F90.edgePair thr allInt e1 e2 i1 i2 ints = .ok ints') : ∀ x ∈ ints', StoredOK x := by
  unfold F90.edgePair at h
  cases ha : allInt (e1.getD i1 []) (e2.getD i2 []) with
  | error e => rw [ha] at h; cases h
  | ok r =>
    rcases r with ⟨stVals, coincident⟩
    rw [ha] at h
    exact foldlM_inv _ (fun a : List (Intersection K) => ∀ x ∈ a, StoredOK x) stVals
      (fun st _ b b' hb hst => f90_add_st_val_stored thr e1 e2 _ i1 i2 b b' st h1 h2 hb hst)
      ints ints' hacc h

/-- what `triangles_intersection_points` returns: every intersection has all five fields, no parameter equal to
    `1`, edge indices `0, 1, 2`, and passes `should_keep`; the guard of `F90.walkRegions` holds -/
theorem f90_intersection_points_stored (thr : Nat) (allInt : AllIntFn K) (e1 e2 : List (List (List K)))
    (r : List (Intersection K) × Nat) (h : F90.trianglesIntersectionPoints thr allInt e1 e2 = .ok r) :
    (∀ x ∈ r.1, isFull x = true ∧ x.s ≠ some 1 ∧ x.t ≠ some 1 ∧
      (∃ i, i < 3 ∧ x.indexFirst = some i) ∧ (∃ j, j < 3 ∧ x.indexSecond = some j) ∧ shouldUse x = true) ∧
    r.1.all isFull = true := by
  unfold F90.trianglesIntersectionPoints at h
  cases hf : edgePairs.foldlM (fun ints ij => F90.edgePair thr allInt e1 e2 ij.1 ij.2 ints)
      ([] : List (Intersection K)) with
  | error e => rw [hf] at h; cases h
  | ok ints =>
    rw [hf] at h
    cases h
    have hlt : ∀ ij ∈ edgePairs, ij.1 < 3 ∧ ij.2 < 3 := by decide
    have hinv : ∀ x ∈ ints, StoredOK x :=
      foldlM_inv _ (fun a : List (Intersection K) => ∀ x ∈ a, StoredOK x) edgePairs
        (fun ij hij b b' hb hst =>
          f90_edge_pair_stored thr allInt e1 e2 ij.1 ij.2 b b' (hlt ij hij).1 (hlt ij hij).2 hb hst)
        [] ints (by simp) hf
    have hk := (filter_kept_spec ints).1
    refine ⟨?_, ?_⟩
    · intro x hx
      change x ∈ (F90.filterKept ints).2 at hx
      rw [hk] at hx
      obtain ⟨hm, hu⟩ := List.mem_filter.mp hx
      obtain ⟨a, b, c, d, e⟩ := hinv x hm
      exact ⟨a, b, c, d, e, hu⟩
    · rw [List.all_eq_true]
      intro x hx
      change x ∈ (F90.filterKept ints).2 at hx
      rw [hk] at hx
      exact (hinv x (List.mem_filter.mp hx).1).1

/-- Fortran raises `e` iff the double loop reaches an edge pair whose body raises `e` -/
theorem f90_intersection_points_error_iff (thr : Nat) (allInt : AllIntFn K) (e1 e2 : List (List (List K)))
    (e : Err) :
    F90.trianglesIntersectionPoints thr allInt e1 e2 = .error e ↔
      ∃ (l1 : List (Nat × Nat)) (ij : Nat × Nat) (l2 : List (Nat × Nat)) (ints : List (Intersection K)),
        edgePairs = l1 ++ ij :: l2 ∧
        l1.foldlM (fun ints ij => F90.edgePair thr allInt e1 e2 ij.1 ij.2 ints) [] = .ok ints ∧
        F90.edgePair thr allInt e1 e2 ij.1 ij.2 ints = .error e := by
  rw [← foldlM_error_iff]
  unfold F90.trianglesIntersectionPoints
  cases edgePairs.foldlM (fun ints ij => F90.edgePair thr allInt e1 e2 ij.1 ij.2 ints)
      ([] : List (Intersection K)) with
  | error e' => simp
  | ok ints => simp

/-- the Fortran twin of the coincident-segment example: the end point at `s = 1` is dropped -/
example : (match F90.trianglesIntersectionPoints (K := ℚ) 55
      (fun n1 n2 => if n1 = [[0]] ∧ n2 = [[0]] then .ok ([(1/2, 1/4), (1, 3/4)], true) else .ok ([], false))
      [[[0]], [[1]], [[2]]] [[[0]], [[1]], [[2]]] with
    | .ok r => (r.1.map (·.s), r.2)
    | .error _ => ([], 0)) = ([some (1/2)], 128) := by decide +kernel

end BezierVerif.C06
