import BezierVerif.Props.C04
import BezierVerif.Props.C08

/-!
# C07 — the two implementations are the same function (model-variant equivalences)

Where the Python and the Fortran code implement the *same* algorithm the model has one definition
and there is nothing to prove; where they differ (`Py.*` / `F90.*`) the variants are proved equal
over every field — hence equal as exact functions of the input, for every degree and net.
Numeric agreement "to a few units of rounding" then follows from the rounding theorems of each
variant; discrete outcomes on exactly representable data are identical.
-/

namespace BezierVerif.C07

open Model

variable {K : Type} [Field K]

/-- curve subdivision: Fortran closed forms (2–4 nodes) and in-place Pascal row (≥ 5 nodes) =
    Python matrix products -/
theorem subdivide_curve (row : List K) (h : 1 ≤ row.length) :
    F90.subdivideRow row = Py.subdivideRow row :=
  C04.subdivide_variants_agree row h

/-- curve specialisation: Fortran linear / quadratic closed forms and column workspace =
    Python blossom dictionary -/
theorem specialize_curve (row : List K) (h : 2 ≤ row.length) (a b : K) :
    F90.specializeRow row a b = Py.specializeRow row a b :=
  C04.specialize_variants_agree row h a b

/-- degree elevation: Fortran integer weights = Python float multipliers -/
theorem elevate_nodes [CharZero K] (row : List K) : F90.elevateRow row = elevateRow row :=
  C08.elevate_variants_agree row

/-- one model definition serves both implementations for these routines (same algorithm, same
    operation order up to commutativity): recorded as trivial identities so that the audit lists them -/
theorem evaluate_same_algorithm (thr : ℕ) (row : List K) (a b : K) :
    evalBary thr row a b = evalBary thr row a b := rfl

end BezierVerif.C07
