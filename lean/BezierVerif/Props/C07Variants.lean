import BezierVerif.Lemmas.Variants
import BezierVerif.Props.C05
import BezierVerif.Props.C06Walk
import BezierVerif.Props.C06WalkBook
import BezierVerif.Props.C08
import BezierVerif.Props.C09
import BezierVerif.Props.C10
import BezierVerif.Props.C10Triangle
import BezierVerif.Props.C16
import BezierVerif.Props.C16Hull

/-!
# C07 (variants) — pure Python and compiled code: the inventory of the model's variants, primitive by
primitive, and the equivalence of the two intersection pipelines in exact arithmetic

Property theorems only (helpers: `Lemmas/Variants.lean`).  Everything is about the executable model
(`Model/*.lean`) exactly as it is; `K` is any ordered field, the decided examples are over `ℚ` with the
library's constants `PipeInst.libConsts`.

## Inventory: routine × (one definition | variants proved equal | variants differ exactly on …)

| routine (module)                                   | model                                   | status / theorem |
|----------------------------------------------------|-----------------------------------------|------------------|
| evaluate_multi(_barycentric), evaluate (curve)     | `evalBary`, `evalMulti`, `evalPoint`    | one definition |
| evaluate_hodograph, get_curvature                  | `hodograph`, `curvatureParts`           | one definition |
| newton_refine (curve)                              | `newtonRefine`                          | one definition |
| compute_length integrand / closed form             | `lengthIntegrandSq`, `lengthClosedFormSq` | one definition |
| reduce_pseudo_inverse, projection, full_reduce     | `reducePinv`, `canReduce`, `fullReduce` | one definition |
| subdivide_nodes (curve)                            | `Py/F90.subdivideRow`                   | equal iff the row is non-empty: `subdivide_curve_variants_agree`, `prims_subdivide_iff`, `subdivide_empty_row_differs` |
| specialize_curve                                   | `Py/F90.specializeRow`                  | equal iff ≥ 2 nodes: `specialize_curve_variants_agree`, `prims_specialize_iff`, `specialize_short_row_differs` |
| elevate_nodes                                      | `elevateRow`, `F90.elevateRow`          | equal: `elevate_nodes_variants_agree` |
| locate_point (curve)                               | `locatePoint` (+ subdivision routine)   | equal on nets without empty row: `locate_point_variants_agree`; as primitive: `prims_locate`, `prims_locate_differ_iff`, `locate_invalid_differs` |
| vector_close, in_interval, wiggle_interval, bbox, bbox_intersect, bbox_line_intersect, linearization_error, segment_intersection, parallel_lines_parameters, line_line_collide, cross_product, solve2x2 | `Model/Helpers`, `Model/Solve2x2` | one definition (`prims_unconditional`) |
| contains_nd                                        | `Py/F90.containsND`                     | equal: `contains_nd_variants_agree` |
| in_sorted                                          | `Py/F90.inSorted`                       | equal on strictly increasing lists: `in_sorted_variants_agree`; `in_sorted_unsorted_differs` |
| simple_convex_hull                                 | `Py/F90.convexHull`                     | equal on every input: `simple_convex_hull_variants_agree` |
| is_separating                                      | `Py.isSeparating`, `F90.isSeparatingCore` | differ exactly on the zero direction: `is_separating_variants` |
| polygon_collide                                    | `Py/F90.polygonCollide`                 | `polygon_collide_variants` (Python = Fortran ∧ no zero edge direction); `C16.polygon_collide_variants_differ` |
| convex_hull_collide (primitive `hullCollide`)      | `Py/F90.convexHullCollide`              | `prims_hullCollide`, `prims_hullCollide_agree`, `prims_hullCollide_differ_iff`; witnesses `hull_collide_point_in_square_differs`, `hull_collide_two_points_differs`, `hull_collide_one_empty_differs` |
| newton_iterate / full_newton                       | `newtonIterate` + `Py/F90.cut`          | equal on every input since the repair `ab67aa1`: `cut_rule_variants_agree`, `prims_fullNewton_agree` (`newton_iterate_cut_congr`); HISTORICAL (old rule `Py.cutOld`): `cut_rule_differ_iff`, `cut_rule_differ_values`, `cut_rule_differ_reachable`, `cut_rule_witness`, `full_newton_old_agree_of_fuel`, witnesses `newton_iterate_old_differ`, `full_newton_old_differ` |
| from_linearized (`_UNHANDLED_LINES`)               | flag `unhandledLinesRaise`              | differs at the level of one candidate pair (`unhandled_lines_differs`), but unreachable from `all_intersections` / `self_intersections` in exact arithmetic: `unhandled_lines_unreachable(_self)`; any primitives: `raise_flag_relation` |
| all_intersections, coincident_parameters, self_intersections | `allIntersections`, … over `Prims` | one algorithm; `allIntersections_congr(_on)`, `coincidentParameters_congr`, `selfIntersections_congr(_on)`, `pipeline_variants_agree(_on, _same_consts)`, `pipeline_variants_relation`, `coincident_variants_agree`, `coincident_variants_relation`, `self_variants_agree`; HISTORICAL witness `pipeline_old_differs` (`Variants.concretePrimsOld`), after the repair `pipeline_repaired_agrees` |
| de_casteljau_one_round (triangle), compute_edge_nodes, jacobian_both, jacobian_det, newton_refine (triangle), elevate (triangle), is_valid, shoelace / compute_area, classify_*, handle_ends, to_front, ends_to_curve, verify_* | `Model/Triangle`, `TriDeriv`, `Valid`, `Area`, `Classify` | one definition |
| evaluate_barycentric(_multi), evaluate_cartesian_multi | `Py/F90.evalBarycentricRow(Real)`   | `real(c_double)` binomial (current code): equal, every degree: `evaluate_barycentric_variants_agree`, `evaluate_barycentric_multi_variants_agree`, `evaluate_cartesian_multi_variants_agree`; historical `integer(c_int)`: equal for degree ≤ 29 (`evaluate_barycentric_int32_agree`), differs at 30 (`C05.f90_overflow_counterexample`) |
| specialize_triangle                                | `Py/F90.triSpecializeRow`               | equal for degree ≥ 1: `specialize_triangle_variants_agree`; degree 0: `specialize_triangle_degree_zero_differs` |
| subdivide_nodes (triangle)                         | `Py/F90.triSubdivideNodesRow`           | equal (given the tables): `subdivide_triangle_variants_agree` |
| locate_point (triangle)                            | `Py/F90.locatePointTri`                 | equal: `locate_triangle_rounds_variants_agree`, `locate_triangle_variants_agree` |
| get_next                                           | `Py/F90.getNext`                        | equal where Python does not raise: `get_next_variants_agree` |
| basic_interior_combine / interior_combine          | `Py/F90.walkRegions`, `…Combine`        | equal on complete walkable lists: `walk_regions_variants_agree`, `interior_combine_variants_agree`, `check_contained_variants_agree` |
| tangent_only_intersections                         | `Py/F90.tangentOnly`                    | same value, different exception class: `tangent_only_variants` |
| triangle_intersections kept list                   | `Py.splitKept`, `F90.filterKept`        | equal: `filter_kept_variants_agree` |
| combine_intersections                              | `Py/F90.combineIntersections`           | walk and `no_intersections` branches equal: `combine_intersections_variants_agree`; `tangent_only` branch: `tangent_only_variants` |
| add_intersection / add_st_val, edge-pair loop, generic_intersect / triangles_intersect | `Py.addIntersection`, `F90.addStVal`, `Py/F90.edgePair`, `Py.genericIntersect`, `F90.trianglesIntersect` | NOT proved equal: each variant has its own specification (`C06.add_intersection_stored` / `C06.f90_add_st_val_stored`, `C06.triangle_intersections_stored` / `C06.f90_intersection_points_stored`); known difference: `verify_duplicates` / `verify_edge_segments` exist in Python only (`C06.verify_duplicates_count_raises`, finding F-H) |
| algebraic strategy (`Model/Algebraic`), clipping   | —                                       | Python only (no compiled counterpart) |

The differences found: empty rows / one-node rows (outside every routine's contract: the transcriptions of the Fortran
workspaces have fixed sizes), `in_sorted` on unsorted lists, `is_separating` on the zero direction and therefore
`polygon_collide` / `convex_hull_collide` on single-point hulls, the exception class of an invalid `locate_point`
inside `coincident_parameters`, the `_UNHANDLED_LINES` exit of `from_linearized`, `specialize_triangle` of degree 0,
`tangent_only_intersections` exception class; and historically (both repaired in /repo) the 32-bit binomial and the
Newton cut rule (`index ≥ 4 ∧ 3·lu ≥ 2·index` with a 0-based index in Python, the same formula with the 1-based index in
Fortran: repaired by `ab67aa1`, the old rule is `Py.cutOld`).
-/

set_option linter.unusedSectionVars false
set_option linter.unusedVariables false

namespace BezierVerif.C07

open Model BezierVerif Variants

/-! ## 2. the pipeline is congruent in its primitives (any number type) -/

section Generic
variable {K : Type} [Add K] [Sub K] [Mul K] [Div K] [Neg K] [OfNat K 0] [OfNat K 1] [NatCast K]
  [LT K] [DecidableLT K] [LE K] [DecidableLE K] [DecidableEq K]

/-- **congruence**: two records of primitives that agree field by field on every input, and equal constants, give
    the same `all_intersections` -/
theorem allIntersections_congr (P Q : Prims K) (G : GeoConsts K)
    (h1 : ∀ a b, P.bboxIntersect a b = Q.bboxIntersect a b)
    (h2 : ∀ a s e, P.bboxLineIntersect a s e = Q.bboxLineIntersect a s e)
    (h3 : ∀ a, P.linErrSq a = Q.linErrSq a)
    (h4 : ∀ a b c d, P.segmentIntersection a b c d = Q.segmentIntersection a b c d)
    (h5 : ∀ a b c d, P.parallelLines a b c d = Q.parallelLines a b c d)
    (h6 : ∀ a b, P.hullCollide a b = Q.hullCollide a b)
    (h7 : ∀ u v, P.vectorClose u v = Q.vectorClose u v)
    (h8 : ∀ v, P.wiggle v = Q.wiggle v)
    (h9 : ∀ v, P.inUnit v = Q.inUnit v)
    (h10 : ∀ s a t b, P.fullNewton s a t b = Q.fullNewton s a t b)
    (h11 : ∀ a p, P.locate a p = Q.locate a p)
    (h12 : ∀ a, P.subdivide a = Q.subdivide a)
    (h13 : ∀ a s t, P.specialize a s t = Q.specialize a s t) (n1 n2 : List (List K)) :
    allIntersections P G n1 n2 = allIntersections Q G n1 n2 := by
  rw [prims_ext P Q h1 h2 h3 h4 h5 h6 h7 h8 h9 h10 h11 h12 h13]

/-- the same for `self_intersections` and `coincident_parameters` -/
theorem selfIntersections_congr (P Q : Prims K) (G : GeoConsts K)
    (h1 : ∀ a b, P.bboxIntersect a b = Q.bboxIntersect a b)
    (h2 : ∀ a s e, P.bboxLineIntersect a s e = Q.bboxLineIntersect a s e)
    (h3 : ∀ a, P.linErrSq a = Q.linErrSq a)
    (h4 : ∀ a b c d, P.segmentIntersection a b c d = Q.segmentIntersection a b c d)
    (h5 : ∀ a b c d, P.parallelLines a b c d = Q.parallelLines a b c d)
    (h6 : ∀ a b, P.hullCollide a b = Q.hullCollide a b)
    (h7 : ∀ u v, P.vectorClose u v = Q.vectorClose u v)
    (h8 : ∀ v, P.wiggle v = Q.wiggle v)
    (h9 : ∀ v, P.inUnit v = Q.inUnit v)
    (h10 : ∀ s a t b, P.fullNewton s a t b = Q.fullNewton s a t b)
    (h11 : ∀ a p, P.locate a p = Q.locate a p)
    (h12 : ∀ a, P.subdivide a = Q.subdivide a)
    (h13 : ∀ a s t, P.specialize a s t = Q.specialize a s t) (fuel : Nat) (n1 n2 : List (List K)) :
    selfIntersections P G fuel n1 = selfIntersections Q G fuel n1 ∧
    coincidentParameters P G n1 n2 = coincidentParameters Q G n1 n2 := by
  rw [prims_ext P Q h1 h2 h3 h4 h5 h6 h7 h8 h9 h10 h11 h12 h13]
  exact ⟨rfl, rfl⟩

/-- **refined congruence**: agreement is only needed on predicates `S1`, `S2` (sub-curves of the first / second
    curve) closed under the halving routine (`AgreeOn`), of `full_newton` on the two original curves, and of
    `coincident_parameters` on them.  The two sets of constants may differ in `unhandledLinesRaise` (`GeoAgree`); the
    results are then related by `Rel`: equal, or the first run raised the "unhandled lines" `ValueError` -/
theorem allIntersections_congr_rel {P Q : Prims K} {S1 S2 : List (List K) → Prop} (h : AgreeOn P Q S1 S2)
    {G1 G2 : GeoConsts K} (hG : GeoAgree G1 G2) (n1 n2 : List (List K)) (h1 : S1 n1) (h2 : S2 n2)
    (hN : ∀ s t, P.fullNewton s n1 t n2 = Q.fullNewton s n1 t n2)
    (hC : coincidentParameters P G1 n1 n2 = coincidentParameters Q G2 n1 n2) :
    allIntersections P G1 n1 n2 = allIntersections Q G2 n1 n2 ∨
      (G1.unhandledLinesRaise = true ∧ G2.unhandledLinesRaise = false ∧
        allIntersections P G1 n1 n2 = .error .valueError) :=
  allIntersections_rel h hG n1 n2 h1 h2 hN hC

/-- … with the same constants: equal results -/
theorem allIntersections_congr_on {P Q : Prims K} {S1 S2 : List (List K) → Prop} (h : AgreeOn P Q S1 S2)
    (G : GeoConsts K) (n1 n2 : List (List K)) (h1 : S1 n1) (h2 : S2 n2)
    (hN : ∀ s t, P.fullNewton s n1 t n2 = Q.fullNewton s n1 t n2)
    (hC : coincidentParameters P G n1 n2 = coincidentParameters Q G n1 n2) :
    allIntersections P G n1 n2 = allIntersections Q G n1 n2 :=
  (allIntersections_rel h (GeoAgree.refl G) n1 n2 h1 h2 hN hC).same

/-- the smallest admissible predicates: everything reachable from the two nets by halving -/
theorem allIntersections_congr_reach {P Q : Prims K} (G : GeoConsts K) (n1 n2 : List (List K))
    (h : AgreeOn P Q (Reach P.subdivide n1) (Reach P.subdivide n2))
    (hN : ∀ s t, P.fullNewton s n1 t n2 = Q.fullNewton s n1 t n2)
    (hC : coincidentParameters P G n1 n2 = coincidentParameters Q G n1 n2) :
    allIntersections P G n1 n2 = allIntersections Q G n1 n2 :=
  allIntersections_congr_on h G n1 n2 Reach.base Reach.base hN hC

/-- `coincident_parameters`: agreement of `locate_point` and `specialize_curve` on the two degree-matched curves and of
    `vector_close` suffices -/
theorem coincidentParameters_congr {P Q : Prims K} {G1 G2 : GeoConsts K} (hG : GeoAgree G1 G2)
    (n1 n2 : List (List K))
    (hl1 : ∀ pt, P.locate (makeSameDegree n1 n2).1 pt = Q.locate (makeSameDegree n1 n2).1 pt)
    (hl2 : ∀ pt, P.locate (makeSameDegree n1 n2).2 pt = Q.locate (makeSameDegree n1 n2).2 pt)
    (hs1 : ∀ a b, P.specialize (makeSameDegree n1 n2).1 a b = Q.specialize (makeSameDegree n1 n2).1 a b)
    (hs2 : ∀ a b, P.specialize (makeSameDegree n1 n2).2 a b = Q.specialize (makeSameDegree n1 n2).2 a b)
    (hv : ∀ u v, P.vectorClose u v = Q.vectorClose u v) :
    coincidentParameters P G1 n1 n2 = coincidentParameters Q G2 n1 n2 :=
  Variants.coincidentParameters_congr hG n1 n2 hl1 hl2 hs1 hs2 hv

/-- `self_intersections`: the halving routines agree on a closed predicate `S` and the `all_intersections` calls on the
    two halves of every net in `S` are related -/
theorem selfIntersections_congr_on {P Q : Prims K} {S : List (List K) → Prop} {G1 G2 : GeoConsts K} (hG : GeoAgree G1 G2)
    (hclosed : ∀ a, S a → S (P.subdivide a).1 ∧ S (P.subdivide a).2)
    (hsub : ∀ a, S a → P.subdivide a = Q.subdivide a)
    (hall : ∀ a, S a → Rel G1 G2 (allIntersections P G1 (P.subdivide a).1 (P.subdivide a).2)
      (allIntersections Q G2 (P.subdivide a).1 (P.subdivide a).2))
    (fuel : Nat) (nodes : List (List K)) (hn : S nodes) :
    selfIntersections P G1 fuel nodes = selfIntersections Q G2 fuel nodes ∨
      (G1.unhandledLinesRaise = true ∧ G2.unhandledLinesRaise = false ∧
        selfIntersections P G1 fuel nodes = .error .valueError) :=
  selfIntersections_rel hG hclosed hsub hall fuel nodes hn

/-- **the `_UNHANDLED_LINES` exit** (same primitives): switching the flag off either changes nothing or removes a
    `ValueError` -/
theorem raise_flag_relation (P : Prims K) (G : GeoConsts K) (n1 n2 : List (List K)) :
    allIntersections P (withRaise G true) n1 n2 = allIntersections P (withRaise G false) n1 n2 ∨
      allIntersections P (withRaise G true) n1 n2 = .error .valueError := by
  rcases allIntersections_rel (AgreeOn.refl P) (GeoAgree.withRaise G false) n1 n2 trivial trivial
    (fun _ _ => rfl) (Variants.coincidentParameters_congr (GeoAgree.withRaise G false) n1 n2
      (fun _ => rfl) (fun _ => rfl) (fun _ _ => rfl) (fun _ _ => rfl) (fun _ _ => rfl)) with h | ⟨_, _, h⟩
  · exact Or.inl h
  · exact Or.inr h

/-! ## 1. the primitives one by one: the fields that do not depend on the variant -/

/-- eight of the thirteen fields of `concretePrims` are the same function in both variants -/
theorem prims_unconditional (C : PipelineConsts K) :
    (concretePrims true C).bboxIntersect = (concretePrims false C).bboxIntersect ∧
    (concretePrims true C).bboxLineIntersect = (concretePrims false C).bboxLineIntersect ∧
    (concretePrims true C).linErrSq = (concretePrims false C).linErrSq ∧
    (concretePrims true C).segmentIntersection = (concretePrims false C).segmentIntersection ∧
    (concretePrims true C).parallelLines = (concretePrims false C).parallelLines ∧
    (concretePrims true C).vectorClose = (concretePrims false C).vectorClose ∧
    (concretePrims true C).wiggle = (concretePrims false C).wiggle ∧
    (concretePrims true C).inUnit = (concretePrims false C).inUnit :=
  ⟨rfl, rfl, rfl, rfl, rfl, rfl, rfl, rfl⟩

end Generic

/-! ## 1. the primitives one by one: the five variant-dependent fields (ordered field) -/

section Field
variable {K : Type} [Field K] [LinearOrder K] [IsStrictOrderedRing K]

/-- `subdivide`: equal exactly on the nets without an empty row -/
theorem prims_subdivide_iff (C : PipelineConsts K) (nodes : List (List K)) :
    (concretePrims true C).subdivide nodes = (concretePrims false C).subdivide nodes ↔
      ∀ row ∈ nodes, 1 ≤ row.length :=
  subdivide_variants_iff C nodes

/-- `specialize`: equal exactly on the nets whose rows have at least two entries -/
theorem prims_specialize_iff (C : PipelineConsts K) (nodes : List (List K)) (a b : K) :
    (concretePrims true C).specialize nodes a b = (concretePrims false C).specialize nodes a b ↔
      ∀ row ∈ nodes, 2 ≤ row.length :=
  specialize_variants_iff C nodes a b

/-- `is_separating`: Python answers `True` on the zero direction (NaN parameters), otherwise the routines agree -/
theorem is_separating_variants (d : Pt K) (P Q : List (Pt K)) :
    Py.isSeparating d P Q = (decide (d = (0, 0)) || F90.isSeparatingCore d P Q) :=
  py_isSeparating_eq d P Q

/-- `polygon_collide` on arbitrary vertex lists: Python = (no zero edge direction) ∧ Fortran; the Fortran routine
    is outside its contract on an empty polygon -/
theorem polygon_collide_variants (P Q : List (Pt K)) :
    Py.polygonCollide P Q =
      (!(decide (((0, 0) : Pt K) ∈ polygonEdgeDirs P ++ polygonEdgeDirs Q)) &&
        !((polygonEdgeDirs P ++ polygonEdgeDirs Q).any (fun d => F90.isSeparatingCore d P Q))) ∧
    (P ≠ [] → Q ≠ [] → F90.polygonCollide P Q =
      .ok (!((polygonEdgeDirs P ++ polygonEdgeDirs Q).any (fun d => F90.isSeparatingCore d P Q)))) :=
  ⟨py_polygonCollide_eq P Q, f90_polygonCollide_eq P Q⟩

/-- `hullCollide`, exact comparison: Python = Fortran ∧ ¬(exactly one hull empty, or some hull a single point) -/
theorem prims_hullCollide (C : PipelineConsts K) (n1 n2 : List (List K)) :
    (concretePrims true C).hullCollide n1 n2 =
      ((concretePrims false C).hullCollide n1 n2 &&
        !(decide (DegenerateHulls (Py.convexHull (colsOf n1)) (Py.convexHull (colsOf n2))))) :=
  hullCollide_variants C n1 n2

/-- … equal when each net has two distinct control points -/
theorem prims_hullCollide_agree (C : PipelineConsts K) (n1 n2 : List (List K))
    (h1 : 2 ≤ (Py.sortUnique (colsOf n1)).length) (h2 : 2 ≤ (Py.sortUnique (colsOf n2)).length) :
    (concretePrims true C).hullCollide n1 n2 = (concretePrims false C).hullCollide n1 n2 :=
  hullCollide_variants_agree C n1 n2 (not_degenerate_of_two _ _ h1 h2)

/-- … different exactly when the hulls are degenerate and the Fortran routine answers "collide" (Python then answers
    "do not collide") -/
theorem prims_hullCollide_differ_iff (C : PipelineConsts K) (n1 n2 : List (List K)) :
    (concretePrims true C).hullCollide n1 n2 ≠ (concretePrims false C).hullCollide n1 n2 ↔
      (DegenerateHulls (Py.convexHull (colsOf n1)) (Py.convexHull (colsOf n2)) ∧
        (concretePrims false C).hullCollide n1 n2 = true ∧ (concretePrims true C).hullCollide n1 n2 = false) :=
  hullCollide_differ_iff C n1 n2

/-- the cut rule of `newton_iterate`: after the repair `ab67aa1` the Python test (`3·linear_updates ≥ 2·(index + 1)`,
    0-based `index`) is the Fortran test (`3·linear_updates ≥ 2·i`, `i = index + 1`) -/
theorem cut_rule_variants_agree : Py.cut = F90.cut := py_cut_eq_f90

/-- HISTORICAL (documents the defect repaired by `ab67aa1`): the old Python rule `Py.cutOld` (`3·lu ≥ 2·index`) and the
    Fortran rule differ exactly for `2·index ≤ 3·linear_updates < 2·index + 2`, `index ≥ 4`: Python stopped, Fortran went on -/
theorem cut_rule_differ_iff (i l : ℕ) :
    Py.cutOld i l ≠ F90.cut i l ↔ (4 ≤ i ∧ 2 * i ≤ 3 * l ∧ 3 * l < 2 * i + 2) :=
  cut_differ_iff i l

/-- HISTORICAL (defect repaired by `ab67aa1`) -/
theorem cut_rule_differ_values (i l : ℕ) (h : Py.cutOld i l ≠ F90.cut i l) :
    Py.cutOld i l = true ∧ F90.cut i l = false :=
  cut_differ_values i l h

/-- HISTORICAL (defect repaired by `ab67aa1`): within ten iterations (`linear_updates ≤ index < 10`) these are four
    counter states -/
theorem cut_rule_differ_reachable : ∀ i < 10, ∀ l ≤ i,
    (Py.cutOld i l ≠ F90.cut i l ↔ (i, l) ∈ [(4, 3), (6, 4), (7, 5), (9, 6)]) :=
  cut_differ_reachable

/-- `newton_iterate` depends on the cut rule only at the counter states `linear_updates ≤ index < fuel` -/
theorem newton_iterate_cut_congr (solve : Solver K) (cut1 cut2 : ℕ → ℕ → Bool) (rnd : K → K) (ratioSq : K)
    (ev : NewtonEval K) (fuel : ℕ) (s t : K) (h : ∀ i l, i < fuel → l ≤ i → cut1 i l = cut2 i l) :
    newtonIterate solve cut1 rnd ratioSq ev fuel s t = newtonIterate solve cut2 rnd ratioSq ev fuel s t :=
  newtonIterate_cut_congr solve cut1 cut2 rnd ratioSq ev fuel s t h

/-- **`fullNewton`: the variants agree on every input and for every iteration budget** (the cut rules are the same
    function since the repair `ab67aa1`; before it: `full_newton_old_differ`) -/
theorem prims_fullNewton_agree (C : PipelineConsts K) (s : K) (n1 : List (List K)) (t : K) (n2 : List (List K)) :
    (concretePrims true C).fullNewton s n1 t n2 = (concretePrims false C).fullNewton s n1 t n2 :=
  fullNewton_variants_agree C s n1 t n2

/-- HISTORICAL (defect repaired by `ab67aa1`): with the old rule `full_newton` agreed with the Fortran routine on every
    input only for at most four iterations (the library allows ten: `full_newton_old_differ`) -/
theorem full_newton_old_agree_of_fuel (solve : Solver K) (rnd : K → K) (ratioSq zeroThr : K) (thr fuel : ℕ) (h : fuel ≤ 4)
    (s : K) (n1 : List (List K)) (t : K) (n2 : List (List K)) :
    fullNewton solve Py.cutOld rnd ratioSq zeroThr thr fuel s n1 t n2
      = fullNewton solve F90.cut rnd ratioSq zeroThr thr fuel s n1 t n2 :=
  fullNewton_old_agree_of_fuel solve rnd ratioSq zeroThr thr fuel h s n1 t n2

/-- `locate`: on nets without empty row the compiled variant returns the Python result, with the invalid bisection
    (`ValueError`) turned into `NotImplementedError` -/
theorem prims_locate (C : PipelineConsts K) (nodes : List (List K)) (point : List K)
    (hn : ∀ row ∈ nodes, 1 ≤ row.length) :
    (concretePrims false C).locate nodes point =
      match (concretePrims true C).locate nodes point with
      | .ok r => .ok r
      | .error _ => .error .notImplemented :=
  locate_variants C nodes point hn

theorem prims_locate_differ_iff (C : PipelineConsts K) (nodes : List (List K)) (point : List K)
    (hn : ∀ row ∈ nodes, 1 ≤ row.length) :
    (concretePrims true C).locate nodes point ≠ (concretePrims false C).locate nodes point ↔
      locatePoint Py.subdivide C.vsThr C.locateRounds C.locateCapSq nodes point = .invalid :=
  locate_differ_iff C nodes point hn

/-! ## 2. the two pipelines -/

/-- **`all_intersections`, pure Python (with the `_UNHANDLED_LINES` exit) against compiled (without)**, general form:
    `S1`, `S2` are closed under subdivision, contain the two curves and only nets without empty rows, and the hull test
    agrees on `S1 × S2` (`full_newton` agrees on every input: `prims_fullNewton_agree`), and `coincident_parameters` agrees
    (`coincident_variants_agree`).  Then the results are equal, or Python raised `ValueError` from `from_linearized` -/
theorem pipeline_variants_agree_on (C : PipelineConsts K) (S1 S2 : List (List K) → Prop)
    (hc1 : ∀ a, S1 a → S1 (Py.subdivide a).1 ∧ S1 (Py.subdivide a).2)
    (hc2 : ∀ a, S2 a → S2 (Py.subdivide a).1 ∧ S2 (Py.subdivide a).2)
    (hr1 : ∀ a, S1 a → ∀ row ∈ a, 1 ≤ row.length) (hr2 : ∀ a, S2 a → ∀ row ∈ a, 1 ≤ row.length)
    (hh : ∀ a b, S1 a → S2 b → (concretePrims true C).hullCollide a b = (concretePrims false C).hullCollide a b)
    (n1 n2 : List (List K)) (h1 : S1 n1) (h2 : S2 n2)
    (hC : coincidentParameters (concretePrims true C) (withRaise C.geo true) n1 n2
      = coincidentParameters (concretePrims false C) (withRaise C.geo false) n1 n2) :
    allIntersections (concretePrims true C) (withRaise C.geo true) n1 n2
        = allIntersections (concretePrims false C) (withRaise C.geo false) n1 n2 ∨
      allIntersections (concretePrims true C) (withRaise C.geo true) n1 n2 = .error .valueError := by
  rcases allIntersections_rel (concrete_agreeOn C S1 S2 hc1 hc2 hr1 hr2 hh) (GeoAgree.withRaise C.geo false)
    n1 n2 h1 h2 (fun s t => fullNewton_variants_agree C s n1 t n2) hC with h | ⟨_, _, h⟩
  · exact Or.inl h
  · exact Or.inr h

/-- **the `_UNHANDLED_LINES` exit is dead code in exact arithmetic**: with a positive linearisation threshold either
    variant of the concrete pipeline returns the same with and without the exit, on every input (a piece of a curve has
    linearisation error exactly `0` only if the whole curve has, and two such curves are answered by `check_lines`).
    In binary64 the exit is reachable (underflow / cancellation in the second differences) -/
theorem unhandled_lines_unreachable (py : Bool) (C : PipelineConsts K) (G : GeoConsts K) (hE : 0 < G.errValSq)
    (b1 b2 : Bool) (n1 n2 : List (List K)) :
    allIntersections (concretePrims py C) (withRaise G b1) n1 n2
      = allIntersections (concretePrims py C) (withRaise G b2) n1 n2 :=
  allIntersections_noflag py C G hE b1 b2 n1 n2

theorem unhandled_lines_unreachable_self (py : Bool) (C : PipelineConsts K) (G : GeoConsts K) (hE : 0 < G.errValSq)
    (b1 b2 : Bool) (fuel : ℕ) (nodes : List (List K)) :
    selfIntersections (concretePrims py C) (withRaise G b1) fuel nodes
      = selfIntersections (concretePrims py C) (withRaise G b2) fuel nodes :=
  selfIntersections_noflag py C G hE b1 b2 fuel nodes

/-- **`pipeline_variants_agree`**: pure Python with the `_UNHANDLED_LINES` exit = compiled without it, for planar nets
    (two coordinate rows of equal length) with two distinct control points and a positive linearisation threshold.
    The hull hypothesis is automatic — in exact arithmetic the halves of a non-constant net are non-constant
    (`Variants.netVaries_subdivide`) — so is the flag (`unhandled_lines_unreachable`), and `full_newton` agrees on every
    input (`prims_fullNewton_agree`, since the repair `ab67aa1`); what remains is the one genuine difference: the
    exception class of an invalid `locate_point` inside `coincident_parameters` (`hC`, see `coincident_variants_agree`;
    without `hC`: `pipeline_variants_relation`) -/
theorem pipeline_variants_agree (C : PipelineConsts K) (hE : 0 < C.geo.errValSq) (n1 n2 : List (List K))
    (h1 : NetVaries n1) (h2 : NetVaries n2)
    (hC : coincidentParameters (concretePrims true C) C.geo n1 n2
      = coincidentParameters (concretePrims false C) C.geo n1 n2) :
    allIntersections (concretePrims true C) (withRaise C.geo true) n1 n2
        = allIntersections (concretePrims false C) (withRaise C.geo false) n1 n2 := by
  rw [allIntersections_noflag true C C.geo hE true false]
  exact allIntersections_congr_on (concrete_agreeOn_varies C) (withRaise C.geo false) n1 n2 h1 h2
    (fun s t => fullNewton_variants_agree C s n1 t n2) hC

/-- **`pipeline_variants_relation`** (the precise relation where `coincident_parameters` is not assumed to agree): the
    two runs return the same, or the candidate list overflowed and an invalid `locate_point` inside
    `coincident_parameters` made pure Python raise `ValueError` where the compiled code raises `NotImplementedError`
    (`locate_invalid_differs`) -/
theorem pipeline_variants_relation (C : PipelineConsts K) (hE : 0 < C.geo.errValSq) (n1 n2 : List (List K))
    (h1 : NetVaries n1) (h2 : NetVaries n2) :
    allIntersections (concretePrims true C) (withRaise C.geo true) n1 n2
        = allIntersections (concretePrims false C) (withRaise C.geo false) n1 n2 ∨
      (allIntersections (concretePrims true C) (withRaise C.geo true) n1 n2 = .error .valueError ∧
        allIntersections (concretePrims false C) (withRaise C.geo false) n1 n2 = .error .notImplemented) := by
  rw [allIntersections_noflag true C C.geo hE true false]
  have hrows := makeSameDegree_rows n1 n2 h1.rows2 h2.rows2
  rcases allIntersections_rel2 (concrete_agreeOn_varies C) (GeoAgree.refl (withRaise C.geo false)) n1 n2 h1 h2
    (fun s t => fullNewton_variants_agree C s n1 t n2)
    .valueError .notImplemented (concrete_coincident_cases C _ n1 n2 hrows.1 hrows.2) with hr | hr
  · exact Or.inl hr.same
  · exact Or.inr hr

/-- the same constants on both sides (e.g. the driver's, which runs both variants with the flag): equal results -/
theorem pipeline_variants_agree_same_consts (C : PipelineConsts K) (n1 n2 : List (List K)) (h1 : NetVaries n1)
    (h2 : NetVaries n2)
    (hC : coincidentParameters (concretePrims true C) C.geo n1 n2 = coincidentParameters (concretePrims false C) C.geo n1 n2) :
    allIntersections (concretePrims true C) C.geo n1 n2 = allIntersections (concretePrims false C) C.geo n1 n2 :=
  allIntersections_congr_on (concrete_agreeOn_varies C) C.geo n1 n2 h1 h2
    (fun s t => fullNewton_variants_agree C s n1 t n2) hC

/-- `coincident_parameters` of the two variants: equal when the degree-matched nets have at least two entries per row
    and no `locate_point` call on them is invalid (otherwise: `ValueError` against `NotImplementedError`,
    `prims_locate`) -/
theorem coincident_variants_agree (C : PipelineConsts K) {G1 G2 : GeoConsts K} (hG : GeoAgree G1 G2)
    (n1 n2 : List (List K))
    (hr1 : ∀ row ∈ (makeSameDegree n1 n2).1, 2 ≤ row.length)
    (hr2 : ∀ row ∈ (makeSameDegree n1 n2).2, 2 ≤ row.length)
    (hv1 : ∀ pt, locatePoint Py.subdivide C.vsThr C.locateRounds C.locateCapSq (makeSameDegree n1 n2).1 pt ≠ .invalid)
    (hv2 : ∀ pt, locatePoint Py.subdivide C.vsThr C.locateRounds C.locateCapSq (makeSameDegree n1 n2).2 pt ≠ .invalid) :
    coincidentParameters (concretePrims true C) G1 n1 n2 = coincidentParameters (concretePrims false C) G2 n1 n2 :=
  concrete_coincident_agree C hG n1 n2 hr1 hr2 hv1 hv2

/-- … and in general the compiled result is the Python result with the `ValueError` of an invalid `locate_point` replaced
    by `NotImplementedError` -/
theorem coincident_variants_relation (C : PipelineConsts K) (G : GeoConsts K) (n1 n2 : List (List K))
    (hr1 : ∀ row ∈ (makeSameDegree n1 n2).1, 2 ≤ row.length)
    (hr2 : ∀ row ∈ (makeSameDegree n1 n2).2, 2 ≤ row.length) :
    coincidentParameters (concretePrims false C) G n1 n2
        = (coincidentParameters (concretePrims true C) G n1 n2).mapError (fun _ => .notImplemented) ∧
    (coincidentParameters (concretePrims true C) G n1 n2 = coincidentParameters (concretePrims false C) G n1 n2 ∨
      (coincidentParameters (concretePrims true C) G n1 n2 = .error .valueError ∧
        coincidentParameters (concretePrims false C) G n1 n2 = .error .notImplemented)) :=
  ⟨concrete_coincident_rel C G n1 n2 hr1 hr2, concrete_coincident_cases C G n1 n2 hr1 hr2⟩

/-- **`self_intersections` of the two variants**: on a non-constant planar net, if on the two halves of every
    non-constant net `coincident_parameters` agrees -/
theorem self_variants_agree (C : PipelineConsts K)
    (hC : ∀ a, NetVaries a →
      coincidentParameters (concretePrims true C) C.geo (Py.subdivide a).1 (Py.subdivide a).2
        = coincidentParameters (concretePrims false C) C.geo (Py.subdivide a).1 (Py.subdivide a).2)
    (fuel : ℕ) (nodes : List (List K)) (hn : NetVaries nodes) :
    selfIntersections (concretePrims true C) C.geo fuel nodes = selfIntersections (concretePrims false C) C.geo fuel nodes :=
  (selfIntersections_rel (GeoAgree.refl C.geo) (P := concretePrims true C) (Q := concretePrims false C)
    netVaries_subdivide (fun a ha => (subdivide_variants_iff C a).2 ha.rowsNE)
    (fun a ha => Rel.of_eq (allIntersections_congr_on (concrete_agreeOn_varies C) C.geo _ _
      (netVaries_subdivide a ha).1 (netVaries_subdivide a ha).2
      (fun s t => fullNewton_variants_agree C s _ t _) (hC a ha))) fuel nodes hn).same

/-! ## 3. the other routines with two variants, under uniform names -/

/-- `subdivide_nodes` (curve), one row with at least one node -/
theorem subdivide_curve_variants_agree (row : List K) (h : 1 ≤ row.length) :
    F90.subdivideRow row = Py.subdivideRow row := C04.subdivide_variants_agree row h

/-- `specialize_curve`, one row with at least two nodes -/
theorem specialize_curve_variants_agree (row : List K) (h : 2 ≤ row.length) (a b : K) :
    F90.specializeRow row a b = Py.specializeRow row a b := C04.specialize_variants_agree row h a b

/-- `elevate_nodes` -/
theorem elevate_nodes_variants_agree (row : List K) : F90.elevateRow row = elevateRow row :=
  C08.elevate_variants_agree row

/-- `locate_point` (curve): the bisection with the Fortran subdivision is the bisection with the Python subdivision -/
theorem locate_point_variants_agree (thr rounds : ℕ) (capSq : K) (nodes : List (List K)) (point : List K)
    (hn : ∀ row ∈ nodes, 1 ≤ row.length) :
    locatePoint F90.subdivide thr rounds capSq nodes point = locatePoint Py.subdivide thr rounds capSq nodes point :=
  locatePoint_variants_agree thr rounds capSq nodes point hn

/-- `contains_nd` -/
theorem contains_nd_variants_agree (nodes : List (List K)) (p : List K) :
    F90.containsND nodes p = Py.containsND nodes p := C16.contains_variants_agree nodes p

/-- `in_sorted` on a strictly increasing list -/
theorem in_sorted_variants_agree (l : List ℕ) (h : l.Pairwise (· < ·)) (v : ℕ) :
    F90.inSorted l v = Py.inSorted l v := (C16.in_sorted_variants_agree l h v).2.2

/-- `simple_convex_hull`, every input -/
theorem simple_convex_hull_variants_agree (pts : List (Pt K)) : F90.convexHull pts = Py.convexHull pts :=
  C16.hull_variants_agree pts

/-- `evaluate_barycentric` (triangle), the compiled routine with its `real(c_double)` binomial: every degree -/
theorem evaluate_barycentric_variants_agree (thr d : ℕ) (row : List K) (w : Bary K) :
    F90.evalBarycentricRowReal thr d row w = Py.evalBarycentricRow thr d row w :=
  C05.f90_real_agrees thr d row w

theorem evaluate_barycentric_multi_variants_agree (thr d : ℕ) (nodes : List (List K)) (params : List (Bary K)) :
    F90.evalBarycentricMultiReal thr d nodes params = Py.evalBarycentricMulti thr d nodes params := by
  unfold F90.evalBarycentricMultiReal Py.evalBarycentricMulti
  apply List.map_congr_left
  intro row _
  apply List.map_congr_left
  intro w _
  exact C05.f90_real_agrees thr d row w

theorem evaluate_cartesian_multi_variants_agree (thr d : ℕ) (nodes : List (List K)) (params : List (K × K)) :
    F90.evalCartesianMultiReal thr d nodes params = Py.evalCartesianMulti thr d nodes params :=
  evaluate_barycentric_multi_variants_agree thr d nodes _

/-- historical (`integer(c_int)` binomial): equal up to degree 29 (`C05.f90_overflow_counterexample`: not at 30) -/
theorem evaluate_barycentric_int32_agree (thr d : ℕ) (hd : d ≤ 29) (row : List K) (h : row.length = numNodes d)
    (w : Bary K) : F90.evalBarycentricRow thr d row w = Py.evalBarycentricRow thr d row w :=
  C05.f90_agrees_below_30 thr d hd row h w

/-- `specialize_triangle`, degree ≥ 1 -/
theorem specialize_triangle_variants_agree (d : ℕ) (hd : 1 ≤ d) (row : List K) (h : row.length = numNodes d)
    (a b c : Bary K) : Py.triSpecializeRow d row a b c = .ok (F90.triSpecializeRow d row a b c) :=
  C09.specialize_variants_agree d hd row h a b c

/-- `subdivide_nodes` (triangle): hard-coded tables / closed forms (degree 1–4, equal to the model-derived matrices:
    Tables/C09) and the generic branches -/
theorem subdivide_triangle_variants_agree (tables forms : ℕ → Quarter → List (List K)) (W : SubWeights K)
    (ht : ∀ d qt, 1 ≤ d → d ≤ 4 → tables d qt = triSubdivMat W d qt)
    (hf : ∀ d qt, 1 ≤ d → d ≤ 4 → forms d qt = triSubdivMat W d qt)
    (d : ℕ) (hd : 1 ≤ d) (row : List K) (h : row.length = numNodes d) (qt : Quarter) :
    Py.triSubdivideNodesRow tables W d row qt = .ok (F90.triSubdivideNodesRow forms W d row qt) := by
  rw [C09.subdivide_nodes_py tables W ht d hd row h qt, C09.subdivide_nodes_f90 forms W hf d row h qt]

/-- `locate_point` (triangle): the candidate loops, and the whole routine -/
theorem locate_triangle_rounds_variants_agree (subdiv : List (List K) → Except Err (TriFour K)) (point : List K)
    (r : ℕ) (cands : List (TriCand K)) :
    F90.triLocateRounds subdiv point r cands = Py.triLocateRounds subdiv point r cands :=
  C10.tri_rounds_f90_eq_py subdiv point r cands

theorem locate_triangle_variants_agree (subdiv : List (List K) → Except Err (TriFour K)) (realBinom : Bool)
    (thr rounds : ℕ) (epsSq : K) (d : ℕ) (hd : 1 ≤ d) (nodes : List (List K))
    (h : realBinom = true ∨ (d ≤ 29 ∧ ∀ row ∈ nodes, row.length = numNodes d)) (x y : K) :
    F90.locatePointTri subdiv realBinom thr rounds epsSq d nodes x y
      = Py.locatePointTri subdiv thr rounds epsSq d nodes x y :=
  C10.tri_variants_agree subdiv realBinom thr rounds epsSq d hd nodes h x y

open Model.Classify Model.Walk in
/-- `get_next`: the Fortran routine returns what the Python routine returns whenever the latter does not raise -/
theorem get_next_variants_agree (x : Intersection K) (ints : List (Intersection K)) (unused : List Nat) (r)
    (h : Py.getNext x ints unused = .ok r) : F90.getNext x ints unused = r :=
  (C06.f90_get_next x ints unused).1 r h

open Model.Classify Model.Walk WalkLemmas in
/-- the walk over complete intersections of walkable classes (what the edge-pair loop keeps) -/
theorem walk_regions_variants_agree (maxEdges : Nat) (ints : List (Intersection K)) (hfull : ints.all isFull = true)
    (hw : ∀ x ∈ ints, Walkable x.interior) (hme : 1 ≤ maxEdges) :
    F90.walkRegions maxEdges ints = Py.walkRegions maxEdges ints :=
  C06.f90_walk_regions_eq maxEdges ints hfull hw hme

open Model.Classify Model.Walk WalkLemmas in
theorem interior_combine_variants_agree (maxEdges : Nat) (ints : List (Intersection K)) (hfull : ints.all isFull = true)
    (hw : ∀ x ∈ ints, Walkable x.interior) (hme : 1 ≤ maxEdges) :
    F90.interiorCombine maxEdges ints = Py.basicInteriorCombine maxEdges ints :=
  C06.f90_interior_combine_eq maxEdges ints hfull hw hme

open Model.Classify Model.Walk in
theorem check_contained_variants_agree (result : List (List (Segment K))) :
    F90.wrap (F90.checkContained result) = Py.finish result :=
  C06.check_contained_eq_finish result

open Model.Classify Model.Walk in
/-- `tangent_only_intersections` on a single class: same value; where Python raises `ValueError` the compiled code
    ends in `RuntimeError` (status `UNKNOWN`) — a difference of the exception class -/
theorem tangent_only_variants (c : Cls) :
    (∀ o, Py.tangentOnly (K := K) [c] = .ok o → F90.tangentOnly (K := K) (bitOf c) = .ok o) ∧
    (Py.tangentOnly (K := K) [c] = .error .valueError →
      F90.tangentOnly (K := K) (bitOf c) = .error .runtimeError) :=
  C06.f90_tangent_only_single c

open Model.Classify Model.Walk WalkLemmas in
/-- `combine_intersections` on the same stored intersections (complete where they are used): the walk branch and the
    `no_intersections` branch return the same in both implementations (the `tangent_only` branch: `tangent_only_variants`) -/
theorem combine_intersections_variants_agree (maxEdges : Nat) (locate : LocateFn K) (ints : List (Intersection K))
    (n1 : List (List K)) (d1 : Nat) (n2 : List (List K)) (d2 : Nat) (hme : 1 ≤ maxEdges)
    (hfull : ∀ x ∈ ints, shouldUse x = true → isFull x = true)
    (hbranch : ints.any shouldUse = true ∨ ints.any (fun x => x.interior.isSome) = false) :
    F90.combineIntersections maxEdges locate (F90.filterKept ints).2 n1 d1 n2 d2 (F90.filterKept ints).1
      = Py.combineIntersections maxEdges locate (Py.splitKept ints).2.1 n1 d1 n2 d2 (Py.splitKept ints).1 := by
  rw [C06.dispatch_of_classes, C06.f90_dispatch_of_classes]
  by_cases hany : ints.any shouldUse = true
  · rw [if_pos hany, if_pos hany]
    exact C06.f90_interior_combine_eq maxEdges (ints.filter shouldUse)
      (List.all_eq_true.2 (fun x hx => hfull x (List.mem_filter.1 hx).1 (List.mem_filter.1 hx).2))
      (fun x hx => C06.should_use_walkable x (List.mem_filter.1 hx).2) hme
  · rw [if_neg hany, if_neg hany]
    rcases hbranch with h | h
    · exact absurd h hany
    · have h' : ¬ (ints.any (fun x => x.interior.isSome) = true) := by rw [h]; simp
      rw [if_neg h', if_neg h']

open Model.Classify Model.Walk WalkLemmas in
/-- the list kept by the edge-pair loop and the set of classes -/
theorem filter_kept_variants_agree (ints : List (Intersection K)) :
    (F90.filterKept ints).2 = (Py.splitKept ints).2.1 ∧
    (F90.filterKept ints).1 = bitsOf (Py.splitKept ints).1 :=
  C06.filter_kept_agrees ints

end Field

/-! ## decided differences (`ℚ`, the library's constants) -/

open PipeInst

/-! `Variants.nearTangent`: the parabola `y = (x − 3/8)² − 2⁻³²` over `[0,1]` (all control points dyadic); it crosses the
    `x`-axis at `x = 3/8 ∓ 2⁻¹⁶`.  `Variants.concretePrimsOld C`: `concretePrims true C` with the Newton cut rule as it was
    before the repair `ab67aa1` (`Py.cutOld`). -/

/-- HISTORICAL (defect repaired by `ab67aa1`): the old cut rule against the Fortran rule -/
theorem cut_rule_witness : Py.cutOld 4 3 = true ∧ F90.cut 4 3 = false ∧ Py.cut 4 3 = false := by decide

/-- HISTORICAL (defect repaired by `ab67aa1`): **`newton_iterate` differed**: from `s = t = 3/8 + 2⁻¹³` the simple-root
    iteration makes three "linear" steps out of four; the old Python rule gave up at `index = 4` (`9 ≥ 8`), Fortran
    (`9 < 10`) goes on and converges to `3/8 + 2⁻¹⁶` -/
theorem newton_iterate_old_differ :
    (match newtonIterate solverOf Py.cutOld id libConsts.geo.ratioSq (newtonSimple 55 nearTangent [[0,1],[0,0]]) 10
        (3/8 + 1/2^13) (3/8 + 1/2^13) with
      | .failed _ _ => true
      | .converged _ _ => false) = true ∧
    (match newtonIterate solverOf F90.cut id libConsts.geo.ratioSq (newtonSimple 55 nearTangent [[0,1],[0,0]]) 10
        (3/8 + 1/2^13) (3/8 + 1/2^13) with
      | .failed _ _ => false
      | .converged s t => decide (|s - (3/8 + 1/2^16)| < 1/2^60 ∧ |t - (3/8 + 1/2^16)| < 1/2^60)) = true := by
  decide +kernel

/-- HISTORICAL (defect repaired by `ab67aa1`): **`full_newton` differed**: with the old rule Python continued with the
    double-root iteration and returned `≈ (3/8, 3/8)`, which is not an intersection (`y(3/8) = −2⁻³²`); Fortran returns
    the crossing `≈ 3/8 + 2⁻¹⁶` -/
theorem full_newton_old_differ :
    (match fullNewton solverOf Py.cutOld libConsts.rnd libConsts.geo.ratioSq libConsts.geo.zeroThr libConsts.vsThr
        libConsts.newtonFuel (3/8 + 1/2^13) nearTangent (3/8 + 1/2^13) [[0,1],[0,0]] with
      | .ok (s, t) => decide (|s - 3/8| < 1/2^60 ∧ |t - 3/8| < 1/2^60)
      | .error _ => false) = true ∧
    (match (concretePrims false libConsts).fullNewton (3/8 + 1/2^13) nearTangent (3/8 + 1/2^13) [[0,1],[0,0]] with
      | .ok (s, t) => decide (|s - (3/8 + 1/2^16)| < 1/2^60 ∧ |t - (3/8 + 1/2^16)| < 1/2^60)
      | .error _ => false) = true := by
  decide +kernel

/-- HISTORICAL (defect repaired by `ab67aa1`): **the pipelines differed** in a discrete outcome (the number of
    intersections): on this exactly representable input the pure-Python pipeline with the old cut rule returns ONE
    parameter pair, the compiled variant the TWO crossings.  The real library before the repair did the same
    (`all_intersections` pure: `[[0.375], [0.375]]`, compiled: `0.37498474…, 0.37501525…`). -/
theorem pipeline_old_differs :
    (allIntersections (concretePrimsOld libConsts) libConsts.geo nearTangent [[0,1],[0,0]]).map
        (fun r => (r.1.length, r.2)) = .ok (1, false) ∧
    (allIntersections (concretePrims false libConsts) libConsts.geo nearTangent [[0,1],[0,0]]).map
        (fun r => (r.1.length, r.2)) = .ok (2, false) := by
  decide +kernel

/-- … and after the repair: on the same input the pure-Python variant returns the same two crossings `3/8 ∓ 2⁻¹⁶` as the
    compiled variant (the very same result) -/
theorem pipeline_repaired_agrees :
    allIntersections (concretePrims true libConsts) libConsts.geo nearTangent [[0,1],[0,0]]
      = allIntersections (concretePrims false libConsts) libConsts.geo nearTangent [[0,1],[0,0]] ∧
    (match allIntersections (concretePrims true libConsts) libConsts.geo nearTangent [[0,1],[0,0]] with
      | .ok ([(s1, t1), (s2, t2)], false) =>
        decide (|s1 - (3/8 - 1/2^16)| < 1/2^40 ∧ |t1 - (3/8 - 1/2^16)| < 1/2^40 ∧
          |s2 - (3/8 + 1/2^16)| < 1/2^40 ∧ |t2 - (3/8 + 1/2^16)| < 1/2^40)
      | _ => false) = true := by
  decide +kernel

/-- `subdivide_nodes` on an empty row (outside the contract): Python's matrix product returns one entry -/
theorem subdivide_empty_row_differs :
    Py.subdivide [([] : List ℚ)] = ([[0]], [[0]]) ∧ F90.subdivide [([] : List ℚ)] = ([[]], [[]]) := by
  decide +kernel

/-- `specialize_curve` on a one-node row (outside the contract): the Fortran workspace has two columns -/
theorem specialize_short_row_differs :
    Py.specialize [[(5 : ℚ)]] 0 1 = [[5]] ∧ F90.specialize [[(5 : ℚ)]] 0 1 = [[0, 0]] := by
  decide +kernel

/-- `in_sorted` on a list that is not sorted (outside the contract) -/
theorem in_sorted_unsorted_differs : Py.inSorted [2, 1] 2 = false ∧ F90.inSorted [2, 1] 2 = true := by
  decide

/-- `hullCollide`: a curve whose control points coincide in `(1,1)`, inside the square `[0,2]²` -/
theorem hull_collide_point_in_square_differs :
    (concretePrims true libConsts).hullCollide [[1, 1], [1, 1]] [[0, 2, 2, 0], [0, 0, 2, 2]] = false ∧
    (concretePrims false libConsts).hullCollide [[1, 1], [1, 1]] [[0, 2, 2, 0], [0, 0, 2, 2]] = true := by
  decide +kernel

/-- `hullCollide`: two different single points — Fortran finds no non-zero direction and answers "collide" -/
theorem hull_collide_two_points_differs :
    (concretePrims true libConsts).hullCollide [[1], [1]] [[5], [5]] = false ∧
    (concretePrims false libConsts).hullCollide [[1], [1]] [[5], [5]] = true := by
  decide +kernel

/-- `hullCollide`: exactly one empty net (outside the contract) -/
theorem hull_collide_one_empty_differs :
    (concretePrims true libConsts).hullCollide [] [[5, 6], [5, 7]] = false ∧
    (concretePrims false libConsts).hullCollide [] [[5, 6], [5, 7]] = true := by
  decide +kernel

/-- `locate`: a point through which the curve passes twice — `ValueError` against `NotImplementedError` -/
theorem locate_invalid_differs :
    (concretePrims true libConsts).locate [[0, 1, 0], [0, 0, 0]] [3/8, 0] = .error .valueError ∧
    (concretePrims false libConsts).locate [[0, 1, 0], [0, 0, 0]] [3/8, 0] = .error .notImplemented := by
  decide +kernel

/-- **the `_UNHANDLED_LINES` exit**: two exactly linear candidates (error `0`) with intersecting boxes and parallel
    chords `(0,0)–(2,2)`, `(1,0)–(3,2)`: Python raises `ValueError`, the compiled code goes on (hulls do not collide:
    nothing is added) -/
theorem unhandled_lines_differs :
    (match intersectPair (concretePrims true libConsts) (withRaise libConsts.geo true) [[0, 2], [0, 2]] [[1, 3], [0, 2]]
        (.lin ⟨[[0, 2], [0, 2]], 0, 1⟩ 0) (.lin ⟨[[1, 3], [0, 2]], 0, 1⟩ 0) [] with
      | .ok _ => false
      | .error e => decide (e = .valueError)) = true ∧
    (match intersectPair (concretePrims false libConsts) (withRaise libConsts.geo false) [[0, 2], [0, 2]] [[1, 3], [0, 2]]
        (.lin ⟨[[0, 2], [0, 2]], 0, 1⟩ 0) (.lin ⟨[[1, 3], [0, 2]], 0, 1⟩ 0) [] with
      | .ok (next, acc) => next.isEmpty && acc.isEmpty
      | .error _ => false) = true := by
  decide +kernel

/-- … whereas two whole parallel lines are answered by `check_lines` before the round loop, in both variants -/
theorem parallel_lines_same :
    allIntersections (concretePrims true libConsts) (withRaise libConsts.geo true) [[0, 2], [0, 2]] [[1, 3], [0, 2]]
      = .ok ([], false) ∧
    allIntersections (concretePrims false libConsts) (withRaise libConsts.geo false) [[0, 2], [0, 2]] [[1, 3], [0, 2]]
      = .ok ([], false) := by
  decide +kernel

/-- `specialize_triangle` of degree 0 (excluded by the documentation): Python `KeyError`, Fortran returns the point -/
theorem specialize_triangle_degree_zero_differs :
    Py.triSpecializeRow 0 [(5 : ℚ)] ⟨1, 0, 0⟩ ⟨0, 1, 0⟩ ⟨0, 0, 1⟩ = .error .badInput ∧
    F90.triSpecializeRow 0 [(5 : ℚ)] ⟨1, 0, 0⟩ ⟨0, 1, 0⟩ ⟨0, 0, 1⟩ = [5] := by
  decide +kernel

/-! ## non-vacuity -/

/-- a run through the round loop (13 rounds of subdivision, linearisation, Newton refinement) on which both variants
    return the same two intersections `s = 1/4, 3/4` (parabola `(0,0),(1,2),(2,0)` against the line `y = 3/4`) -/
example :
    allIntersections (concretePrims true libConsts) libConsts.geo [[0, 1, 2], [0, 2, 0]] [[0, 2], [3/4, 3/4]]
      = allIntersections (concretePrims false libConsts) libConsts.geo [[0, 1, 2], [0, 2, 0]] [[0, 2], [3/4, 3/4]] ∧
    (match allIntersections (concretePrims true libConsts) libConsts.geo [[0, 1, 2], [0, 2, 0]] [[0, 2], [3/4, 3/4]] with
      | .ok ([(s1, t1), (s2, t2)], false) =>
        decide (|s1 - 1/4| < 1/2^40 ∧ |t1 - 1/4| < 1/2^40 ∧ |s2 - 3/4| < 1/2^40 ∧ |t2 - 3/4| < 1/2^40)
      | _ => false) = true := by
  decide +kernel

/-- the hypotheses of `pipeline_variants_agree_same_consts` are satisfiable with the library's constants: both nets are
    planar with two distinct control points, `coincident_parameters` agrees by evaluation -/
example :
    allIntersections (concretePrims true libConsts) libConsts.geo [[0, 1, 2], [0, 2, 0]] [[0, 2], [3/4, 3/4]]
      = allIntersections (concretePrims false libConsts) libConsts.geo [[0, 1, 2], [0, 2, 0]] [[0, 2], [3/4, 3/4]] :=
  pipeline_variants_agree_same_consts libConsts _ _
    ⟨[0, 1, 2], [0, 2, 0], rfl, rfl, Or.inl ⟨0, 1, by decide, by decide, by decide +kernel⟩⟩
    ⟨[0, 2], [3/4, 3/4], rfl, rfl, Or.inl ⟨0, 1, by decide, by decide, by decide +kernel⟩⟩
    (by decide +kernel)

/-- … and of `pipeline_variants_agree` (Python with the `_UNHANDLED_LINES` exit = compiled without), on the near-tangent
    input on which the variants differed before the repair -/
example :
    allIntersections (concretePrims true libConsts) (withRaise libConsts.geo true) nearTangent [[0, 1], [0, 0]]
      = allIntersections (concretePrims false libConsts) (withRaise libConsts.geo false) nearTangent [[0, 1], [0, 0]] :=
  pipeline_variants_agree libConsts libConsts_errVal _ _
    ⟨[0, 1/2, 1], _, rfl, rfl, Or.inl ⟨0, 1, by decide, by decide, by decide +kernel⟩⟩
    ⟨[0, 1], [0, 0], rfl, rfl, Or.inl ⟨0, 1, by decide, by decide, by decide +kernel⟩⟩
    (by decide +kernel)

/-- the flag is dead for the library's constants -/
example (n1 n2 : List (List ℚ)) :
    allIntersections (concretePrims true libConsts) libConsts.geo n1 n2
      = allIntersections (concretePrims true libConsts) (withRaise libConsts.geo false) n1 n2 :=
  unhandled_lines_unreachable true libConsts libConsts.geo libConsts_errVal true false n1 n2

/-- the degenerate-hull hypothesis of `prims_hullCollide_differ_iff` occurs -/
example : DegenerateHulls (Py.convexHull (colsOf ([[1, 1], [1, 1]] : List (List ℚ))))
    (Py.convexHull (colsOf ([[0, 2, 2, 0], [0, 0, 2, 2]] : List (List ℚ)))) :=
  ((prims_hullCollide_differ_iff libConsts _ _).1 (by
    rw [hull_collide_point_in_square_differs.1, hull_collide_point_in_square_differs.2]; decide)).1

/-- `raise_flag_relation` applied: on the parabola / line input the flag changes nothing -/
example :
    allIntersections (concretePrims true libConsts) (withRaise libConsts.geo true) [[0, 1, 2], [0, 2, 0]] [[0, 2], [1, 1]]
      = allIntersections (concretePrims true libConsts) (withRaise libConsts.geo false) [[0, 1, 2], [0, 2, 0]] [[0, 2], [1, 1]] := by
  rcases raise_flag_relation (concretePrims true libConsts) libConsts.geo [[0, 1, 2], [0, 2, 0]] [[0, 2], [1, 1]] with h | h
  · exact h
  · exact absurd h (by decide +kernel)

end BezierVerif.C07
