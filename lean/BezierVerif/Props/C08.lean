import BezierVerif.Lemmas.Elevate
import Mathlib.Data.Finset.Insert

/-!
# C08 — degree elevation is the same map; reduction is its pseudo-inverse

Property theorems only.  All statements are about the executable model
`Model.elevateRow / F90.elevateRow / reducePinv / projectionMat / canReduce / fullReduce`
(the transcription of `elevate_nodes`, `reduce_pseudo_inverse`, `projection_error`,
`maybe_reduce`, `full_reduce` of both implementations).  A row with `N = row.length` nodes has
degree `N - 1`; the elevated row has `N + 1` nodes, degree `N`.
`bern n a b v = Σ_{j≤n} C(n,j) a^(n-j) b^j v_j` (Lemmas/Shift).
-/

set_option linter.unusedSectionVars false

namespace BezierVerif.C08

open Finset Model BezierVerif

/-! ### end points are copies: no arithmetic law is used, hence bit-identical in binary64
(no hypothesis on the length is needed: on the empty row both sides are the default `0`) -/
section Raw
variable {K : Type} [Add K] [Sub K] [Mul K] [Div K] [Neg K] [OfNat K 0] [OfNat K 1] [NatCast K]

theorem elevate_length_raw (row : List K) : (elevateRow row).length = row.length + 1 :=
  elevateRow_length row

theorem elevate_first_exact (row : List K) :
    (elevateRow row).headD 0 = row.headD 0 := elevateRow_headD row

theorem elevate_last_exact (row : List K) :
    (elevateRow row).getD row.length 0 = row.getD (row.length - 1) 0 := elevateRow_getD_last row

theorem f90_elevate_length_raw (row : List K) : (F90.elevateRow row).length = row.length + 1 :=
  F90.elevateRow_length row

theorem f90_elevate_first_exact (row : List K) :
    (F90.elevateRow row).headD 0 = row.headD 0 := F90.elevateRow_headD row

theorem f90_elevate_last_exact (row : List K) :
    (F90.elevateRow row).getD row.length 0 = row.getD (row.length - 1) 0 :=
  F90.elevateRow_getD_last row

/-- outside 2, 3, 4, 5 nodes `reduce_pseudo_inverse` raises (plain formulation) -/
theorem unsupported' (nodes : List (List K)) (h2 : ncols nodes ≠ 2) (h3 : ncols nodes ≠ 3)
    (h4 : ncols nodes ≠ 4) (h5 : ncols nodes ≠ 5) :
    reducePinv nodes = .error .unsupportedDegree := by
  unfold reducePinv
  rw [reductionMat_none _ h2 h3 h4 h5]

theorem unsupported (nodes : List (List K)) (h : ncols nodes ∉ ({2, 3, 4, 5} : Finset ℕ)) :
    reducePinv nodes = .error .unsupportedDegree := by
  simp only [Finset.mem_insert, Finset.mem_singleton, not_or] at h
  exact unsupported' nodes h.1 h.2.1 h.2.2.1 h.2.2.2

end Raw

/-! ### elevation over a field -/
section Field
variable {K : Type} [Field K] [CharZero K]

theorem elevate_length (row : List K) : (elevateRow row).length = row.length + 1 :=
  elevateRow_length row

/-- interior control points: `(j v_{j-1} + (N - j) v_j) / N` -/
theorem elevate_formula (row : List K) (j : ℕ) (h0 : 0 < j) (hj : j < row.length) :
    seq (elevateRow row) j
      = ((j : K) * seq row (j - 1) + ((row.length : K) - j) * seq row j) / row.length := by
  rw [seq_elevateRow row j (by omega), if_neg (by omega), if_neg (by omega)]

theorem elevate_first (row : List K) : seq (elevateRow row) 0 = seq row 0 := by
  rw [seq_elevateRow row 0 (by omega), if_pos rfl]

theorem elevate_last (row : List K) :
    seq (elevateRow row) row.length = seq row (row.length - 1) := by
  rw [seq_elevateRow row row.length le_rfl]
  split
  · next h => rw [h]
  · rw [if_pos rfl]

/-- the Fortran weights (`num_nodes - i` as an integer) give the same row as the Python ones -/
theorem elevate_variants_agree (row : List K) : F90.elevateRow row = elevateRow row :=
  F90_elevateRow_eq row

/-- **elevation is the same map**, every degree, every net, every weight pair: the elevated net
    of degree `N` evaluates to `(a+b) ·` the original one of degree `N-1` -/
theorem elevate_same_map (row : List K) (h : 1 ≤ row.length) (a b : K) :
    bern row.length a b (seq (elevateRow row))
      = (a + b) * bern (row.length - 1) a b (seq row) := by
  obtain ⟨n, hn⟩ : ∃ n, row.length = n + 1 := ⟨row.length - 1, by omega⟩
  rw [hn, Nat.add_sub_cancel, ← elevSeq_same_map n a b (seq row)]
  exact bern_congr (n+1) a b _ _ (fun j hj => seq_elevateRow_eq_elevSeq row n hn j hj)

/-- with `a = 1 - s`, `b = s`: the same point for every parameter -/
theorem elevate_same_point (row : List K) (h : 1 ≤ row.length) (s : K) :
    bern row.length (1 - s) s (seq (elevateRow row))
      = bern (row.length - 1) (1 - s) s (seq row) := by
  rw [elevate_same_map row h]; ring

/-- … and for the evaluation routine itself, on either side of the algorithm switch, and for
    either implementation's elevation -/
theorem elevate_same_point_eval (thr thr' : ℕ) (row : List K) (h : 2 ≤ row.length) (s : K) :
    evalBary thr (elevateRow row) (1 - s) s = evalBary thr' row (1 - s) s := by
  rw [evalBary_eq_bern thr _ (by rw [elevateRow_length]; omega),
    evalBary_eq_bern thr' row h, elevateRow_length, Nat.add_sub_cancel,
    elevate_same_point row (by omega)]

theorem f90_elevate_same_point_eval (thr thr' : ℕ) (row : List K) (h : 2 ≤ row.length) (s : K) :
    evalBary thr (F90.elevateRow row) (1 - s) s = evalBary thr' row (1 - s) s := by
  rw [elevate_variants_agree]; exact elevate_same_point_eval thr thr' row h s

/-- all rows at once -/
theorem elevate_nodes_same_point (thr thr' : ℕ) (nodes : List (List K))
    (h : ∀ row ∈ nodes, 2 ≤ row.length) (s : K) :
    evalPoint thr (elevate nodes) s = evalPoint thr' nodes s := by
  unfold evalPoint elevate
  rw [List.map_map]
  apply List.map_congr_left
  intro row hrow
  exact elevate_same_point_eval thr thr' row (h row hrow) s

/-! ### reduction inverts elevation (every net with 1, 2, 3, 4 nodes) -/

theorem reduce_elevate_1 (row : List K) (h : row.length = 1) :
    reducePinv [elevateRow row] = .ok [row] := by
  match row, h with
  | [a], _ => exact reducePinv_elevate1 a

theorem reduce_elevate_2 (row : List K) (h : row.length = 2) :
    reducePinv [elevateRow row] = .ok [row] := by
  match row, h with
  | [a, b], _ => exact reducePinv_elevate2 a b

theorem reduce_elevate_3 (row : List K) (h : row.length = 3) :
    reducePinv [elevateRow row] = .ok [row] := by
  match row, h with
  | [a, b, c], _ => exact reducePinv_elevate3 a b c

theorem reduce_elevate_4 (row : List K) (h : row.length = 4) :
    reducePinv [elevateRow row] = .ok [row] := by
  match row, h with
  | [a, b, c, d], _ => exact reducePinv_elevate4 a b c d

theorem reduce_elevate (row : List K) (h1 : 1 ≤ row.length) (h4 : row.length ≤ 4) :
    reducePinv [elevateRow row] = .ok [row] := by
  have : row.length = 1 ∨ row.length = 2 ∨ row.length = 3 ∨ row.length = 4 := by omega
  rcases this with h | h | h | h
  · exact reduce_elevate_1 row h
  · exact reduce_elevate_2 row h
  · exact reduce_elevate_3 row h
  · exact reduce_elevate_4 row h

/-- a whole net (any number of rows = any dimension) -/
theorem reduce_elevate_nodes (nodes : List (List K)) (n : ℕ) (h1 : 1 ≤ n) (h4 : n ≤ 4)
    (hne : nodes ≠ []) (hlen : ∀ row ∈ nodes, row.length = n) :
    reducePinv (elevate nodes) = .ok nodes := by
  obtain ⟨r, hr⟩ : ∃ r, reductionMat (K := K) (n + 1) = some r := by
    have : n = 1 ∨ n = 2 ∨ n = 3 ∨ n = 4 := by omega
    rcases this with h | h | h | h <;> subst h <;> exact ⟨_, rfl⟩
  have hnc : ncols (elevate nodes) = n + 1 := by
    match nodes, hne, hlen with
    | r0 :: rest, _, hlen =>
      show (elevateRow r0).length = n + 1
      rw [elevateRow_length, hlen r0 (by simp)]
  have hfix : ∀ row ∈ nodes, rowMul (elevateRow row) r = row := by
    intro row hrow
    have h := reduce_elevate row (by rw [hlen row hrow]; exact h1) (by rw [hlen row hrow]; exact h4)
    have hnc1 : ncols [elevateRow row] = n + 1 := by
      show (elevateRow row).length = n + 1
      rw [elevateRow_length, hlen row hrow]
    unfold reducePinv at h
    rw [hnc1, hr] at h
    simpa [matMul] using h
  unfold reducePinv
  rw [hnc, hr]
  simp only [matMul, elevate, List.map_map]
  congr 1
  conv_rhs => rw [← List.map_id nodes]
  apply List.map_congr_left
  intro row hrow
  exact hfix row hrow

theorem reduce_elevate_f90 (row : List K) (h1 : 1 ≤ row.length) (h4 : row.length ≤ 4) :
    reducePinv [F90.elevateRow row] = .ok [row] := by
  rw [elevate_variants_agree]; exact reduce_elevate row h1 h4

end Field

/-! ### least squares: `R` is the Moore–Penrose pseudo-inverse of `E` (kernel computation in ℚ)

`E · R = I` (so `R` is a right inverse of the full-row-rank `E`, acting on the right) and
`R · E` is symmetric (so `R · E` is the *orthogonal* projection onto the row space of `E`);
together these characterise `R = Eᵀ (E Eᵀ)⁻¹`. -/
section Pinv

theorem pinv_left_inverse_2 :
    (reductionMat (K := ℚ) 2).map (fun R => matMul (elevMat 1) R) = some (identity 1) := by
  decide +kernel
theorem pinv_left_inverse_3 :
    (reductionMat (K := ℚ) 3).map (fun R => matMul (elevMat 2) R) = some (identity 2) := by
  decide +kernel
theorem pinv_left_inverse_4 :
    (reductionMat (K := ℚ) 4).map (fun R => matMul (elevMat 3) R) = some (identity 3) := by
  decide +kernel
theorem pinv_left_inverse_5 :
    (reductionMat (K := ℚ) 5).map (fun R => matMul (elevMat 4) R) = some (identity 4) := by
  decide +kernel

theorem pinv_projection_symmetric_2 :
    (reductionMat (K := ℚ) 2).map (fun R => transpose (matMul R (elevMat 1)))
      = (reductionMat (K := ℚ) 2).map (fun R => matMul R (elevMat 1)) := by decide +kernel
theorem pinv_projection_symmetric_3 :
    (reductionMat (K := ℚ) 3).map (fun R => transpose (matMul R (elevMat 2)))
      = (reductionMat (K := ℚ) 3).map (fun R => matMul R (elevMat 2)) := by decide +kernel
theorem pinv_projection_symmetric_4 :
    (reductionMat (K := ℚ) 4).map (fun R => transpose (matMul R (elevMat 3)))
      = (reductionMat (K := ℚ) 4).map (fun R => matMul R (elevMat 3)) := by decide +kernel
theorem pinv_projection_symmetric_5 :
    (reductionMat (K := ℚ) 5).map (fun R => transpose (matMul R (elevMat 4)))
      = (reductionMat (K := ℚ) 5).map (fun R => matMul R (elevMat 4)) := by decide +kernel

/-- the matrices are there (the `Option.map` statements above are not about `none`) and
    `projectionMat` is that symmetric `R · E` -/
theorem pinv_defined : (reductionMat (K := ℚ) 2).isSome ∧ (reductionMat (K := ℚ) 3).isSome ∧
    (reductionMat (K := ℚ) 4).isSome ∧ (reductionMat (K := ℚ) 5).isSome := by decide +kernel

theorem projection_symmetric :
    ∀ nn ∈ [2, 3, 4, 5], ∃ p, projectionMat (K := ℚ) nn = some p ∧ transpose p = p := by
  decide +kernel

/-- the projection is idempotent -/
theorem projection_idempotent :
    ∀ nn ∈ [2, 3, 4, 5], ∃ p, projectionMat (K := ℚ) nn = some p ∧ matMul p p = p := by
  decide +kernel

end Pinv

/-! ### `full_reduce` -/
section Ordered
variable {K : Type} [Field K] [LinearOrder K] [IsStrictOrderedRing K]

/-- more than 5 nodes: `full_reduce` raises on the first round -/
theorem full_reduce_guard (thrSq : K) (nodes : List (List K)) (h : 5 < ncols nodes) :
    fullReduce thrSq nodes = .error .unsupportedDegree := by
  unfold fullReduce
  obtain ⟨k, hk⟩ : ∃ k, ncols nodes - 1 = k + 1 := ⟨ncols nodes - 2, by omega⟩
  rw [hk, fullReduce.go, canReduce_unsupported thrSq nodes h]

/-- an elevated net has projection error exactly `0`: it is always accepted for reduction,
    whatever the (positive or not) threshold -/
theorem full_reduce_strips_one (row : List K) (h1 : 1 ≤ row.length) (h4 : row.length ≤ 4)
    (thrSq : K) : canReduce thrSq [elevateRow row] = .ok true := by
  have hlen := elevateRow_length row
  have hsome : ∃ p, projectionMat (K := K) (elevateRow row).length = some p := by
    rw [hlen]
    have : row.length = 1 ∨ row.length = 2 ∨ row.length = 3 ∨ row.length = 4 := by omega
    rcases this with h | h | h | h <;> rw [h] <;> exact ⟨_, rfl⟩
  obtain ⟨p, hp⟩ := hsome
  refine canReduce_of_fixed thrSq _ p (by omega) hp ?_
  rw [hlen] at hp
  exact project_elevate row h1 h4 p hp

/-- `full_reduce` of an elevated net first undoes the elevation, then goes on exactly as on the
    original net -/
theorem full_reduce_elevate (row : List K) (h1 : 1 ≤ row.length) (h4 : row.length ≤ 4)
    (thrSq : K) : fullReduce thrSq [elevateRow row] = fullReduce thrSq [row] := by
  have hnc : ncols [elevateRow row] - 1 = (row.length - 1) + 1 := by
    show (elevateRow row).length - 1 = _
    rw [elevateRow_length]; omega
  have hnc' : ncols [row] - 1 = row.length - 1 := rfl
  unfold fullReduce
  rw [hnc, hnc', fullReduce.go, full_reduce_strips_one row h1 h4 thrSq, reduce_elevate row h1 h4]

end Ordered

/-! ### non-vacuity -/

example : reducePinv [elevateRow ([0, 3, 1] : List ℚ)] = .ok [[0, 3, 1]] :=
  reduce_elevate_3 _ rfl

example : reducePinv [elevateRow ([0, 3, 1] : List ℚ)] = .ok [[0, 3, 1]] := by decide +kernel

example : elevateRow ([0, 3, 1] : List ℚ) = [0, 2, 7/3, 1] := by decide +kernel

example : canReduce (1/100 : ℚ) [elevateRow [0, 3, 1]] = .ok true :=
  full_reduce_strips_one _ (by decide) (by decide) _

/-- the hypotheses of `unsupported` / `full_reduce_guard` are satisfiable -/
example : reducePinv [([1, 2, 3, 4, 5, 6] : List ℚ)] = .error .unsupportedDegree :=
  unsupported _ (by decide)

example : fullReduce (1/100 : ℚ) [[1, 2, 3, 4, 5, 6]] = .error .unsupportedDegree :=
  full_reduce_guard _ _ (by decide)

end BezierVerif.C08
