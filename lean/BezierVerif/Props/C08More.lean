import BezierVerif.Props.C08

/-!
# C08, continued — `full_reduce` strips every spurious elevation, in any dimension

`Props/C08.lean` proves `full_reduce_elevate` for ONE coordinate row and ONE elevation step.  Here:

* `can_reduce_elevate_nodes`: a whole elevated net (any number of rows ≥ 1 = any ambient dimension)
  has projection error exactly `0`, so `maybe_reduce` accepts it whatever the threshold is;
* `full_reduce_elevate_nodes`: `full_reduce (elevate nodes) = full_reduce nodes` for every net with
  1..4 nodes per row;
* `full_reduce_elevate_iter`: the same after `k` elevations as long as the net stays within the
  supported 5 nodes (`n + k ≤ 5`), by induction on `k`;
* `full_reduce_genuine` / `full_reduce_strips_exactly`: if `maybe_reduce` declines the original net
  (it is of genuine degree at the threshold), `full_reduce` of its `k`-fold elevation returns exactly
  the original net: exactly the spurious elevations are stripped, nothing more.
-/

set_option linter.unusedSectionVars false

namespace BezierVerif.C08

open Model BezierVerif

section Ordered
variable {K : Type} [Field K] [LinearOrder K] [IsStrictOrderedRing K]

/-- an elevated net (any dimension) has projection error exactly `0` -/
theorem can_reduce_elevate_nodes (nodes : List (List K)) (n : ℕ) (h1 : 1 ≤ n) (h4 : n ≤ 4)
    (hne : nodes ≠ []) (hlen : ∀ row ∈ nodes, row.length = n) (thrSq : K) :
    canReduce thrSq (elevate nodes) = .ok true := by
  have hnc : ncols (elevate nodes) = n + 1 := by
    match nodes, hne, hlen with
    | r0 :: rest, _, hlen =>
      show (elevateRow r0).length = n + 1
      rw [elevateRow_length, hlen r0 (by simp)]
  obtain ⟨p, hp⟩ : ∃ p, projectionMat (K := K) (n + 1) = some p := by
    have : n = 1 ∨ n = 2 ∨ n = 3 ∨ n = 4 := by omega
    rcases this with h | h | h | h <;> subst h <;> exact ⟨_, rfl⟩
  refine canReduce_of_fixed_nodes thrSq _ p (by omega) (by rw [hnc]; exact hp) ?_
  intro e he
  unfold elevate at he
  obtain ⟨row, hrow, rfl⟩ := List.mem_map.mp he
  have hl := hlen row hrow
  exact project_elevate row (by omega) (by omega) p (by rw [hl]; exact hp)

/-- `full_reduce` of an elevated net (any dimension) first undoes the elevation, then goes on
    exactly as on the original net -/
theorem full_reduce_elevate_nodes (nodes : List (List K)) (n : ℕ) (h1 : 1 ≤ n) (h4 : n ≤ 4)
    (hne : nodes ≠ []) (hlen : ∀ row ∈ nodes, row.length = n) (thrSq : K) :
    fullReduce thrSq (elevate nodes) = fullReduce thrSq nodes := by
  have hnc : ncols (elevate nodes) = n + 1 := by
    match nodes, hne, hlen with
    | r0 :: rest, _, hlen =>
      show (elevateRow r0).length = n + 1
      rw [elevateRow_length, hlen r0 (by simp)]
  have hnc' : ncols nodes = n := by
    match nodes, hne, hlen with
    | r0 :: rest, _, hlen => exact hlen r0 (by simp)
  unfold fullReduce
  rw [hnc, hnc', show n + 1 - 1 = (n - 1) + 1 by omega, fullReduce.go,
    can_reduce_elevate_nodes nodes n h1 h4 hne hlen thrSq,
    reduce_elevate_nodes nodes n h1 h4 hne hlen]

/-- `k`-fold elevation of a net -/
def elevateIter : ℕ → List (List K) → List (List K)
  | 0, nodes => nodes
  | k + 1, nodes => elevate (elevateIter k nodes)

theorem elevateIter_ne_nil (k : ℕ) (nodes : List (List K)) (hne : nodes ≠ []) :
    elevateIter k nodes ≠ [] := by
  induction k with
  | zero => exact hne
  | succ k ih =>
    show elevate (elevateIter k nodes) ≠ []
    unfold elevate
    simpa using ih

theorem elevateIter_length (k n : ℕ) (nodes : List (List K))
    (hlen : ∀ row ∈ nodes, row.length = n) :
    ∀ row ∈ elevateIter k nodes, row.length = n + k := by
  induction k with
  | zero => simpa [elevateIter] using hlen
  | succ k ih =>
    intro e he
    change e ∈ elevate (elevateIter k nodes) at he
    unfold elevate at he
    obtain ⟨row, hrow, rfl⟩ := List.mem_map.mp he
    rw [elevateRow_length, ih row hrow]; omega

/-- **every spurious elevation is stripped**: after `k` elevations that stay within the supported
    five nodes, `full_reduce` continues exactly as on the original net -/
theorem full_reduce_elevate_iter (k : ℕ) (nodes : List (List K)) (n : ℕ) (h1 : 1 ≤ n)
    (h5 : n + k ≤ 5) (hne : nodes ≠ []) (hlen : ∀ row ∈ nodes, row.length = n) (thrSq : K) :
    fullReduce thrSq (elevateIter k nodes) = fullReduce thrSq nodes := by
  induction k with
  | zero => rfl
  | succ k ih =>
    show fullReduce thrSq (elevate (elevateIter k nodes)) = _
    rw [full_reduce_elevate_nodes (elevateIter k nodes) (n + k) (by omega) (by omega)
      (elevateIter_ne_nil k nodes hne) (elevateIter_length k n nodes hlen) thrSq]
    exact ih (by omega)

/-- a net that `maybe_reduce` declines is returned unchanged -/
theorem full_reduce_genuine (nodes : List (List K)) (thrSq : K) (h2 : 2 ≤ ncols nodes)
    (hdecl : canReduce thrSq nodes = .ok false) : fullReduce thrSq nodes = .ok nodes := by
  unfold fullReduce
  obtain ⟨f, hf⟩ : ∃ f, ncols nodes - 1 = f + 1 := ⟨ncols nodes - 2, by omega⟩
  rw [hf, fullReduce.go, hdecl]

/-- a one-node net is returned unchanged -/
theorem full_reduce_point (nodes : List (List K)) (thrSq : K) (h : ncols nodes ≤ 1) :
    fullReduce thrSq nodes = .ok nodes := by
  unfold fullReduce
  rw [show ncols nodes - 1 = 0 by omega, fullReduce.go]

/-- **exactly the spurious elevations are stripped**: a net of genuine degree (declined by
    `maybe_reduce` at the threshold) comes back unchanged from `full_reduce` of any of its
    elevations within the supported range -/
theorem full_reduce_strips_exactly (k : ℕ) (nodes : List (List K)) (n : ℕ) (h2 : 2 ≤ n)
    (h5 : n + k ≤ 5) (hne : nodes ≠ []) (hlen : ∀ row ∈ nodes, row.length = n) (thrSq : K)
    (hdecl : canReduce thrSq nodes = .ok false) :
    fullReduce thrSq (elevateIter k nodes) = .ok nodes := by
  rw [full_reduce_elevate_iter k nodes n (by omega) h5 hne hlen thrSq]
  have hnc : ncols nodes = n := by
    match nodes, hne, hlen with
    | r0 :: rest, _, hlen => exact hlen r0 (by simp)
  exact full_reduce_genuine nodes thrSq (by omega) hdecl

end Ordered

/-! ### non-vacuity: a genuine planar quadratic, elevated twice, comes back bit for bit (over ℚ) -/

example : canReduce (1/1000000 : ℚ) [[0, 1, 0], [0, 1, 3]] = .ok false := by decide +kernel

example : fullReduce (1/1000000 : ℚ) (elevateIter 2 [[0, 1, 0], [0, 1, 3]])
    = .ok [[0, 1, 0], [0, 1, 3]] :=
  full_reduce_strips_exactly 2 _ 3 (by decide) (by decide) (by simp)
    (by intro row hrow; simp at hrow; rcases hrow with h | h <;> subst h <;> rfl) _
    (by decide +kernel)

example : fullReduce (1/1000000 : ℚ) (elevateIter 2 [[0, 1, 0], [0, 1, 3]])
    = .ok [[0, 1, 0], [0, 1, 3]] := by decide +kernel

end BezierVerif.C08
