import BezierVerif.Lemmas.RoundingMore
import BezierVerif.Lemmas.Elevate
import Mathlib.Algebra.Order.Field.Rat
import Mathlib.Algebra.Order.Ring.Rat

/-!
# C08 (rounding) — degree elevation and pseudo-inverse reduction *in rounded arithmetic*

`Model.elevateRow` (Python: weights `j` and `N - j` formed as floating-point numbers),
`Model.F90.elevateRow` (integer weights) and `Model.reducePinv` (`nodes · R_k` with the table
entries `a / b` formed in the arithmetic) are instantiated, unchanged, at `Fl F fl`.
Hypotheses: the standard model `|fl x - x| ≤ u |x|`; control values are numbers of the arithmetic;
`0`, `1` and small integers are exact (`NatCast` of `Fl`).  No further side condition.

Proven exponents: elevation `4` (Python) / `3` (Fortran), relative to the same convex combination
of the absolute values `(j |v_{j-1}| + (N-j) |v_j|) / N ≤ |v_{j-1}| + |v_j|`; reduction `N + 3`
(`≤ 8`), relative to `Σ_i |v_i| |R_ic|`.  `harness/props/c08.py` uses `8u (|v_{j-1}| + |v_j|)`
resp. `16u Σ_i |v_i R_ic|`.
-/

set_option linter.unusedSectionVars false
set_option linter.unusedVariables false

namespace BezierVerif.C08

open Finset Model BezierVerif

variable {F : Type} [Field F] [LinearOrder F] [IsStrictOrderedRing F]

/-- **`elevate_nodes` (Python) in rounded arithmetic**: four roundings per interior control point
    (`fl (N - j)`, two products, the sum, the quotient — counted as nested factors), none at the
    end points -/
theorem elevate_rounding_py (fl : F → F) (u : F) (hu : 0 ≤ u) (hfl : ∀ x, |fl x - x| ≤ u * |x|)
    (row : List F) (j : ℕ) :
    |(seq (elevateRow (row.map (Fl.mk (fl := fl)))) j).val - seq (elevateRow row) j|
      ≤ ((1+u)^4 - 1) * seq (elevateRow (row.map (|·|))) j :=
  (elevateRow_near ⟨hu, hfl⟩ row).bound ⟨hu, hfl⟩ j

/-- **`elevate_nodes` (Fortran)**: integer weights, three roundings -/
theorem elevate_rounding_f90 (fl : F → F) (u : F) (hu : 0 ≤ u) (hfl : ∀ x, |fl x - x| ≤ u * |x|)
    (row : List F) (j : ℕ) :
    |(seq (F90.elevateRow (row.map (Fl.mk (fl := fl)))) j).val - seq (F90.elevateRow row) j|
      ≤ ((1+u)^3 - 1) * seq (F90.elevateRow (row.map (|·|))) j :=
  (f90_elevateRow_near ⟨hu, hfl⟩ row).bound ⟨hu, hfl⟩ j

/-- the end points are copied (no rounding at all, in any arithmetic: `C08.elevate_first_exact`);
    here: the bound at `j = 0` has scale `|v_0|` and error `0` -/
theorem elevate_rounding_first (fl : F → F) (row : List F) :
    (seq (elevateRow (row.map (Fl.mk (fl := fl)))) 0).val = seq (elevateRow row) 0 := by
  unfold elevateRow
  simp only [List.length_map]
  rw [Subdivide.seq_map_range _ _ _ (by omega), Subdivide.seq_map_range _ _ _ (by omega)]
  simp [seq_map_mk]

/-- the scale of the elevation bounds is a convex combination of two neighbouring magnitudes, hence
    at most their sum (the scale used by `c08.py`) -/
theorem elevate_scale_le (row : List F) (j : ℕ) (h0 : 0 < j) (hj : j < row.length) :
    seq (elevateRow (row.map (|·|))) j ≤ |seq row (j - 1)| + |seq row j| := by
  rw [seq_elevateRow _ _ (by simp; omega), List.length_map, if_neg (by omega), if_neg (by omega),
    seq_map_abs, seq_map_abs]
  have hN : (0 : F) < (row.length : F) := by exact_mod_cast (by omega : 0 < row.length)
  have hjN : (j : F) ≤ (row.length : F) := by exact_mod_cast hj.le
  have hj0 : (0 : F) ≤ (j : F) := Nat.cast_nonneg _
  have ha := abs_nonneg (seq row (j - 1))
  have hb := abs_nonneg (seq row j)
  rw [div_le_iff₀ hN]
  nlinarith

/-- comparator form for `u ≤ 2⁻⁵³`: the proven `1.01·4 u` is below the script's `8 u`
    (both implementations; `F90.elevateRow = elevateRow` exactly, `C08.elevate_variants_agree`) -/
theorem elevate_comparator (fl : F → F) (u : F) (hu : 0 ≤ u) (hfl : ∀ x, |fl x - x| ≤ u * |x|)
    (hu53 : u ≤ 1 / 2^53) (row : List F) (j : ℕ) (h0 : 0 < j) (hj : j < row.length) :
    |(seq (elevateRow (row.map (Fl.mk (fl := fl)))) j).val - seq (elevateRow row) j|
      ≤ 8 * u * (|seq row (j - 1)| + |seq row j|) ∧
    |(seq (F90.elevateRow (row.map (Fl.mk (fl := fl)))) j).val - seq (F90.elevateRow row) j|
      ≤ 8 * u * (|seq row (j - 1)| + |seq row j|) := by
  have S : StdModel fl u := ⟨hu, hfl⟩
  have hs := elevate_scale_le row j h0 hj
  have h4 : ((4 : ℕ) : F) * u ≤ 1 / 100 := ku_small u hu hu53 4 (by norm_num)
  have h3 : ((3 : ℕ) : F) * u ≤ 1 / 100 := ku_small u hu hu53 3 (by norm_num)
  constructor
  · exact (((elevateRow_near S row).seq S j).mono_scale S hs).comparator_le S h4 8 (by norm_num)
  · have e : F90.elevateRow (row.map (|·|)) = elevateRow (row.map (|·|)) := F90_elevateRow_eq _
    have := (f90_elevateRow_near S row).seq S j
    rw [e] at this
    exact (this.mono_scale S hs).comparator_le S h3 8 (by norm_num)

/-- **`reduce_pseudo_inverse` in rounded arithmetic**: the call succeeds exactly when the exact one
    does, and every output entry is within `((1+u)^(N+3) - 1) · Σ_i |v_i| |R_ic|` of the exact
    product (`N = ` number of nodes; the table entries `a/b` carry up to two roundings, the products
    one, the accumulation `N`) -/
theorem reduce_rounding (fl : F → F) (u : F) (hu : 0 ≤ u) (hfl : ∀ x, |fl x - x| ≤ u * |x|)
    (nodes : List (List F)) (r : List (List F)) (hr : reductionMat (K := F) (ncols nodes) = some r) :
    reducePinv nodes = .ok (matMul nodes r) ∧
    ∃ out, reducePinv (nodes.map (List.map (Fl.mk (fl := fl)))) = .ok out ∧
      All3 (fun oh o O => ∀ c,
          |(seq oh c).val - seq (rowMul o r) c|
            ≤ ((1+u)^(o.length + 3) - 1) * seq (rowMul O (r.map (List.map (|·|)))) c)
        out nodes (nodes.map (List.map (|·|))) := by
  have S : StdModel fl u := ⟨hu, hfl⟩
  refine ⟨by unfold reducePinv; rw [hr], ?_⟩
  obtain ⟨out, e, H⟩ := reducePinv_near (fl := fl) S nodes r hr
  exact ⟨out, e, All3.mono (fun oh o O h c => (h o.length le_rfl).bound S c) H⟩

/-- comparator form: at most 5 nodes per row (the only supported sizes), `1.01·8 u ≤ 16 u` -/
theorem reduce_comparator (fl : F → F) (u : F) (hu : 0 ≤ u) (hfl : ∀ x, |fl x - x| ≤ u * |x|)
    (hu53 : u ≤ 1 / 2^53) (nodes : List (List F)) (r : List (List F))
    (hr : reductionMat (K := F) (ncols nodes) = some r) :
    ∃ out, reducePinv (nodes.map (List.map (Fl.mk (fl := fl)))) = .ok out ∧
      All3 (fun oh o O => o.length ≤ 5 → ∀ c,
          |(seq oh c).val - seq (rowMul o r) c|
            ≤ 16 * u * seq (rowMul O (r.map (List.map (|·|)))) c)
        out nodes (nodes.map (List.map (|·|))) := by
  have S : StdModel fl u := ⟨hu, hfl⟩
  obtain ⟨out, e, H⟩ := reducePinv_near (fl := fl) S nodes r hr
  refine ⟨out, e, All3.mono (fun oh o O h h5 c => ?_) H⟩
  have h8 : ((5 + 3 : ℕ) : F) * u ≤ 1 / 100 := ku_small u hu hu53 _ (by norm_num)
  exact ((h 5 h5).seq S c).comparator_le S h8 16 (by norm_num)

/-! ### non-vacuity -/

/-- exact arithmetic satisfies the standard model with `u = 0`; the rounded run is the exact run -/
example (row : List ℚ) (j : ℕ) :
    (seq (elevateRow (row.map (Fl.mk (fl := (id : ℚ → ℚ))))) j).val = seq (elevateRow row) j := by
  have := elevate_rounding_py (F := ℚ) id 0 le_rfl (by intro x; simp) row j
  simpa [sub_eq_zero] using this

/-- an inexact arithmetic on `ℚ` (`fl x = x (1 + 2⁻¹⁰)`, `u = 2⁻¹⁰`): all hypotheses hold -/
example (row : List ℚ) (j : ℕ) :
    |(seq (elevateRow (row.map (Fl.mk (fl := fun x : ℚ => x * (1 + 1/1024))))) j).val
        - seq (elevateRow row) j|
      ≤ ((1 + 1/1024 : ℚ)^4 - 1) * seq (elevateRow (row.map (|·|))) j :=
  elevate_rounding_py (F := ℚ) (fun x => x * (1 + 1/1024)) (1/1024) (by norm_num)
    (by intro x
        have : x * (1 + 1/1024) - x = 1/1024 * x := by ring
        rw [this, abs_mul]; norm_num) row j

/-- the hypothesis of `reduce_rounding` is satisfiable (4 nodes), and the reduction of an inexact
    arithmetic is defined exactly when the exact one is -/
example : ∃ r, reductionMat (K := ℚ) (ncols [[(1 : ℚ), 2, 3, 4]]) = some r := ⟨_, rfl⟩

example : ∃ out, reducePinv ([[(1 : ℚ), 2, 3, 4]].map (List.map (Fl.mk (fl := fun x : ℚ => x * (1 + 1/1024)))))
    = .ok out :=
  let ⟨out, e, _⟩ := (reduce_rounding (F := ℚ) (fun x => x * (1 + 1/1024)) (1/1024) (by norm_num)
    (by intro x
        have : x * (1 + 1/1024) - x = 1/1024 * x := by ring
        rw [this, abs_mul]; norm_num) [[1, 2, 3, 4]] _ rfl).2
  ⟨out, e⟩

end BezierVerif.C08
