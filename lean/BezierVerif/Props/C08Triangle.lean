import BezierVerif.Lemmas.TriDeriv

/-!
# C08 (triangle part) — `Triangle.elevate` returns a triangle of degree one higher that is the same
# map point for point, with the three corners unchanged bit for bit

Property theorems only.  All statements are about the executable model `Model.Tri.elevateRow`
(`Model/Triangle.lean`: the transcription of `Triangle.elevate` of `triangle.py` on one coordinate
row, with the three running parents `parent_i1/2/3`, the division by `degree + 1.0` and the three
final corner copies).  `netOf d row j k = row[triIndex d j k]` is node `(i, j, k)`, `i = d - j - k`,
of the flat row; `triBern` is the bivariate Bernstein sum of Props/C05 (what
`evaluate_barycentric` computes).

* `tri_elevate_length_raw`, `tri_elevate_corners_exact`: no arithmetic law of `K` is used (only the
  notation classes), so they hold verbatim for binary64.
* `tri_elevate_formula`: the running-parent loops compute
  `(i·v(i-1,j,k) + j·v(i,j-1,k) + k·v(i,j,k-1)) / (d+1)`, every degree.
* `tri_elevate_same_map`, `tri_elevate_same_point(_eval)`: the elevated net defines the same map,
  every degree, every weight triple.
-/

set_option linter.unusedSectionVars false
set_option linter.unusedVariables false

namespace BezierVerif.C08

open Finset Model BezierVerif BezierVerif.Tri BezierVerif.TriD

/-! ### no arithmetic laws: shape and corners -/

section Raw
variable {K : Type} [Add K] [Sub K] [Mul K] [Div K] [Neg K] [OfNat K 0] [OfNat K 1] [NatCast K]

/-- `new_nodes = zeros(num_nodes + degree + 2)`: the result has `degree + 2` more nodes -/
theorem tri_elevate_length_raw (d : ℕ) (row : List K) :
    (Tri.elevateRow d row).length = row.length + d + 2 :=
  triElevateRow_length d row

/-- **the three corners are copies** of the corners of the input (flat indices `0`, `d + 1`, last of
    the result; `0`, `d`, last of the input), whatever the arithmetic of `K` does -/
theorem tri_elevate_corners_exact (d : ℕ) (row : List K) (h : 1 ≤ row.length) :
    seq (Tri.elevateRow d row) 0 = seq row 0 ∧
    seq (Tri.elevateRow d row) (d + 1) = seq row d ∧
    seq (Tri.elevateRow d row) ((Tri.elevateRow d row).length - 1) = seq row (row.length - 1) :=
  triElevateRow_corners d row h

/-- all coordinate rows -/
theorem tri_elevate_rows_raw (d : ℕ) (nodes : List (List K)) :
    (Tri.elevate d nodes).length = nodes.length ∧
    ∀ r ∈ Tri.elevate d nodes, ∃ row ∈ nodes, r = Tri.elevateRow d row := by
  unfold Tri.elevate
  refine ⟨List.length_map _, ?_⟩
  intro r hr
  obtain ⟨row, hrow, rfl⟩ := List.mem_map.mp hr
  exact ⟨row, hrow, rfl⟩

end Raw

/-! ### over a field of characteristic 0 -/

section Field
variable {K : Type} [Field K] [CharZero K]

/-- the result is a net of degree `d + 1` -/
theorem tri_elevate_length (d : ℕ) (row : List K) (h : row.length = numNodes d) :
    (Tri.elevateRow d row).length = numNodes (d + 1) := by
  rw [triElevateRow_length, h, numNodes_eq_rowStart, numNodes_eq_rowStart, rowStart_shift d (d+1)]
  omega

/-- **the running-parent loops compute the degree-elevation formula**: node `(j, k)` of the result
    (`i = d + 1 - j - k`) is `(i·v(j,k) + j·v(j-1,k) + k·v(j,k-1)) / (d+1)`, where `v(j,k)` is the
    input node with the same `(j,k)` (i.e. barycentric index `(i-1, j, k)`); a term whose integer
    coefficient is `0` is absent (it would read outside the input net).  At the three corners the
    copied value coincides with the formula. -/
theorem tri_elevate_formula (d : ℕ) (row : List K) (h : row.length = numNodes d) (j k : ℕ)
    (hjk : j + k ≤ d + 1) :
    seq (Tri.elevateRow d row) (triIndex (d+1) j k) =
      (((d + 1 - j - k : ℕ) : K) * seq row (triIndex d j k) + (j : K) * seq row (triIndex d (j-1) k)
        + (k : K) * seq row (triIndex d j (k-1))) / ((d : K) + 1) :=
  netOf_triElevateRow d row h j k hjk

/-- the same with the barycentric index triple `(i, j, k)`, `i + j + k = d + 1` -/
theorem tri_elevate_formula_ijk (d : ℕ) (row : List K) (h : row.length = numNodes d) (i j k : ℕ)
    (hijk : i + j + k = d + 1) :
    seq (Tri.elevateRow d row) (triIndex (d+1) j k) =
      ((i : K) * seq row (triIndex d j k) + (j : K) * seq row (triIndex d (j-1) k)
        + (k : K) * seq row (triIndex d j (k-1))) / ((d : K) + 1) := by
  rw [tri_elevate_formula d row h j k (by omega), show d + 1 - j - k = i by omega]

/-- **elevation keeps the map**: for every weight triple (not only barycentric ones) the Bernstein
    sum of the elevated net is `(λ₁+λ₂+λ₃)` times that of the input net; every degree -/
theorem tri_elevate_same_map (d : ℕ) (row : List K) (h : row.length = numNodes d) (l1 l2 l3 : K) :
    triBern (d+1) l1 l2 l3 (netOf (d+1) (Tri.elevateRow d row))
      = (l1 + l2 + l3) * triBern d l1 l2 l3 (netOf d row) :=
  triBern_triElevateRow d row h l1 l2 l3

/-- … hence the same point whenever the weights sum to one -/
theorem tri_elevate_same_point (d : ℕ) (row : List K) (h : row.length = numNodes d) (l1 l2 l3 : K)
    (hs : l1 + l2 + l3 = 1) :
    triBern (d+1) l1 l2 l3 (netOf (d+1) (Tri.elevateRow d row)) = triBern d l1 l2 l3 (netOf d row) := by
  rw [tri_elevate_same_map d row h, hs, one_mul]

/-- in terms of the library's evaluation routine (any positions `thr`, `thr'` of the curve
    routine's algorithm switch) -/
theorem tri_elevate_same_point_eval (thr thr' d : ℕ) (row : List K) (h : row.length = numNodes d)
    (w : Bary K) (hs : w.l1 + w.l2 + w.l3 = 1) :
    Py.evalBarycentricRow thr' (d+1) (Tri.elevateRow d row) w = Py.evalBarycentricRow thr d row w := by
  rw [Py_evalBarycentricRow_eq thr' (d+1) _ w (by rw [tri_elevate_length d row h, numNodes_eq_rowStart]),
    Py_evalBarycentricRow_eq thr d row w (by rw [h, numNodes_eq_rowStart])]
  exact tri_elevate_same_point d row h w.l1 w.l2 w.l3 hs

/-- Cartesian parameters, all coordinate rows: `Triangle.elevate` followed by `evaluate_cartesian`
    is `evaluate_cartesian` -/
theorem tri_elevate_nodes_same_point (thr thr' d : ℕ) (nodes : List (List K))
    (h : ∀ row ∈ nodes, row.length = numNodes d) (s t : K) :
    Py.evalBarycentric thr' (d+1) (Tri.elevate d nodes) (cartesian s t)
      = Py.evalBarycentric thr d nodes (cartesian s t) := by
  unfold Py.evalBarycentric Tri.elevate
  rw [List.map_map]
  apply List.map_congr_left
  intro row hrow
  exact tri_elevate_same_point_eval thr thr' d row (h row hrow) (cartesian s t)
    (by simp only [cartesian]; ring)

/-- the corners in the field reading (they also follow from the formula) -/
theorem tri_elevate_corners (d : ℕ) (row : List K) (h : row.length = numNodes d) :
    seq (Tri.elevateRow d row) 0 = seq row 0 ∧
    seq (Tri.elevateRow d row) (d + 1) = seq row d ∧
    seq (Tri.elevateRow d row) (numNodes (d + 1) - 1) = seq row (numNodes d - 1) := by
  have h1 : 1 ≤ row.length := by rw [h, numNodes_eq_rowStart, rowStart_succ]; omega
  have := triElevateRow_corners d row h1
  rw [tri_elevate_length d row h, h] at this
  exact this

end Field

/-! ### non-vacuity (ℚ, kernel evaluation) -/

example : Tri.elevateRow 1 [(0 : ℚ), 1, 0] = [0, 1/2, 1, 0, 1/2, 0] := by decide +kernel

example : Tri.elevateRow 2 [(1 : ℚ), 3, -2, 5, 7, 4] = [1, 7/3, 4/3, -2, 11/3, 5, 4, 14/3, 6, 4] := by
  decide +kernel

example : Py.evalBarycentricRow 55 3 (Tri.elevateRow 2 [(1 : ℚ), 3, -2, 5, 7, 4]) (cartesian (1/3) (1/4))
    = Py.evalBarycentricRow 55 2 [(1 : ℚ), 3, -2, 5, 7, 4] (cartesian (1/3) (1/4)) := by decide +kernel

example : Py.evalBarycentricRow 55 2 [(1 : ℚ), 3, -2, 5, 7, 4] (cartesian (1/3) (1/4)) = 467/144 := by
  decide +kernel

end BezierVerif.C08
