import BezierVerif.Lemmas.RoundingTriElev
import Mathlib.Algebra.Order.Field.Rat
import Mathlib.Algebra.Order.Ring.Rat

/-!
# C08 (triangle part, rounding) — `Triangle.elevate` *in rounded arithmetic*

`Model.Tri.elevateRow` (the transcription of `Triangle.elevate` of `triangle.py`: the accumulation
loops `new_nodes[:, parent_i] += (i+1) * nodes[:, index]` with the three running parents, the
division `new_nodes /= degree + 1.0`, the three corner copies) is instantiated, unchanged, at
`Fl F fl`.  Hypotheses: the standard model `|fl x - x| ≤ u |x|`; the control values are numbers of
the arithmetic; `0`, `1` and small integers are exact (`NatCast` of `Fl`); the divisor `d + 1`
(one rounded addition in `Fl`) is exact, `fl (d + 1) = d + 1` — stated explicitly.  No hypothesis on
the length of the row is needed for the bound itself.

Proven exponent: `5` per entry (one product `c * x`, up to three additions — the first one onto the
initial `0` counts, since `fl (0 + y)` is a rounded operation without further hypotheses — and the
division), `4` when `fl` is idempotent; relative to the same routine on the absolute values, i.e.
the weighted mean `(i |v(i-1,j,k)| + j |v(i,j-1,k)| + k |v(i,j,k-1)|) / (d+1) ≤ max |v|`.
The three corners are copies (error `0`).  `harness/props/c08.py` uses `16 u max |v|`.
-/

set_option linter.unusedSectionVars false
set_option linter.unusedVariables false

namespace BezierVerif.C08

open Finset Model BezierVerif BezierVerif.Tri BezierVerif.TriD BezierVerif.TriElevR

variable {F : Type} [Field F] [LinearOrder F] [IsStrictOrderedRing F]

/-- **`Triangle.elevate` in rounded arithmetic** (list form): every entry of the computed row is
    within `((1+u)^5 - 1)` times the same routine run on the absolute values; every degree, every
    row -/
theorem tri_elevate_rounding_near (fl : F → F) (u : F) (hu : 0 ≤ u) (hfl : ∀ x, |fl x - x| ≤ u * |x|)
    (d : ℕ) (hd : fl ((d : F) + 1) = (d : F) + 1) (row : List F) :
    NearL fl u 5 (Tri.elevateRow d (row.map (Fl.mk (fl := fl)))) (Tri.elevateRow d row)
      (Tri.elevateRow d (row.map (|·|))) :=
  triElevateRow_near ⟨hu, hfl⟩ d hd row

/-- **entry-wise form**: five roundings per entry (product, three additions, division) -/
theorem tri_elevate_rounding (fl : F → F) (u : F) (hu : 0 ≤ u) (hfl : ∀ x, |fl x - x| ≤ u * |x|)
    (d : ℕ) (hd : fl ((d : F) + 1) = (d : F) + 1) (row : List F) (q : ℕ) :
    |(seq (Tri.elevateRow d (row.map (Fl.mk (fl := fl)))) q).val - seq (Tri.elevateRow d row) q|
      ≤ ((1+u)^5 - 1) * seq (Tri.elevateRow d (row.map (|·|))) q :=
  (triElevateRow_near ⟨hu, hfl⟩ d hd row).bound ⟨hu, hfl⟩ q

/-- **idempotent rounding** (`fl (fl x) = fl x`): the addition onto the initial zero is free, four
    roundings per entry -/
theorem tri_elevate_rounding_idem (fl : F → F) (u : F) (hu : 0 ≤ u) (hfl : ∀ x, |fl x - x| ≤ u * |x|)
    (hidem : ∀ x, fl (fl x) = fl x) (d : ℕ) (hd : fl ((d : F) + 1) = (d : F) + 1) (row : List F)
    (q : ℕ) :
    |(seq (Tri.elevateRow d (row.map (Fl.mk (fl := fl)))) q).val - seq (Tri.elevateRow d row) q|
      ≤ ((1+u)^4 - 1) * seq (Tri.elevateRow d (row.map (|·|))) q :=
  (triElevateRow_near_idem ⟨hu, hfl⟩ hidem d hd row).bound ⟨hu, hfl⟩ q

/-- **the scale**: the routine on the absolute values is the elevation formula on `|v|`
    (`C08.tri_elevate_formula` applied to `row.map |·|`) -/
theorem tri_elevate_rounding_scale (d : ℕ) (row : List F) (h : row.length = numNodes d) (j k : ℕ)
    (hjk : j + k ≤ d + 1) :
    seq (Tri.elevateRow d (row.map (|·|))) (triIndex (d+1) j k) =
      (((d + 1 - j - k : ℕ) : F) * |seq row (triIndex d j k)| + (j : F) * |seq row (triIndex d (j-1) k)|
        + (k : F) * |seq row (triIndex d j (k-1))|) / ((d : F) + 1) :=
  triElevateRow_abs_scale d row h j k hjk

/-- the weights sum to `d + 1`: the scale is at most `max |v|` (the scale used by `c08.py`) -/
theorem tri_elevate_rounding_scale_le (d : ℕ) (row : List F) (h : row.length = numNodes d) (M : F)
    (hM : ∀ i, |seq row i| ≤ M) (q : ℕ) :
    seq (Tri.elevateRow d (row.map (|·|))) q ≤ M :=
  triElevateRow_abs_scale_le d row h M hM q

/-- **the three corners are copies also in rounded arithmetic**: the computed corner is the input
    value, bit for bit (no hypothesis on `fl` at all) -/
theorem tri_elevate_rounding_corners_exact (fl : F → F) (d : ℕ) (row : List F) (h : 1 ≤ row.length) :
    (seq (Tri.elevateRow d (row.map (Fl.mk (fl := fl)))) 0).val = seq row 0 ∧
    (seq (Tri.elevateRow d (row.map (Fl.mk (fl := fl)))) (d + 1)).val = seq row d ∧
    (seq (Tri.elevateRow d (row.map (Fl.mk (fl := fl))))
      ((Tri.elevateRow d (row.map (Fl.mk (fl := fl)))).length - 1)).val = seq row (row.length - 1) := by
  obtain ⟨h1, h2, h3⟩ := triElevateRow_corners d (row.map (Fl.mk (fl := fl))) (by simpa using h)
  rw [h1, h2, h3, List.length_map]
  exact ⟨seq_map_mk fl row 0, seq_map_mk fl row d, seq_map_mk fl row _⟩

/-- … hence they agree with the corners of the exact run -/
theorem tri_elevate_rounding_corners (fl : F → F) (d : ℕ) (row : List F) (h : 1 ≤ row.length) :
    (seq (Tri.elevateRow d (row.map (Fl.mk (fl := fl)))) 0).val = seq (Tri.elevateRow d row) 0 ∧
    (seq (Tri.elevateRow d (row.map (Fl.mk (fl := fl)))) (d + 1)).val
      = seq (Tri.elevateRow d row) (d + 1) ∧
    (seq (Tri.elevateRow d (row.map (Fl.mk (fl := fl)))) (row.length + d + 1)).val
      = seq (Tri.elevateRow d row) (row.length + d + 1) := by
  obtain ⟨h1, h2, h3⟩ := tri_elevate_rounding_corners_exact fl d row h
  obtain ⟨e1, e2, e3⟩ := triElevateRow_corners d row h
  rw [triElevateRow_length, List.length_map, show row.length + d + 2 - 1 = row.length + d + 1 from rfl] at h3
  rw [triElevateRow_length, show row.length + d + 2 - 1 = row.length + d + 1 from rfl] at e3
  exact ⟨by rw [h1, e1], by rw [h2, e2], by rw [h3, e3]⟩

/-- **comparator form** for `u ≤ 2⁻⁵³`: the proven `1.01·5 u` is below the `16 u` of
    `harness/props/c08.py`, with the script's scale `max |v|`; every entry of the result -/
theorem tri_elevate_rounding_comparator (fl : F → F) (u : F) (hu : 0 ≤ u)
    (hfl : ∀ x, |fl x - x| ≤ u * |x|) (hu53 : u ≤ 1 / 2^53) (d : ℕ)
    (hd : fl ((d : F) + 1) = (d : F) + 1) (row : List F) (h : row.length = numNodes d) (M : F)
    (hM : ∀ i, |seq row i| ≤ M) (q : ℕ) :
    |(seq (Tri.elevateRow d (row.map (Fl.mk (fl := fl)))) q).val - seq (Tri.elevateRow d row) q|
      ≤ 16 * u * M := by
  have S : StdModel fl u := ⟨hu, hfl⟩
  have h5 : ((5 : ℕ) : F) * u ≤ 1 / 100 := ku_small u hu hu53 5 (by norm_num)
  exact (((triElevateRow_near S d hd row).seq S q).mono_scale S
    (triElevateRow_abs_scale_le d row h M hM q)).comparator_le S h5 16 (by norm_num)

/-! ### non-vacuity -/

/-- (a) exact arithmetic satisfies the hypotheses with `u = 0`; the rounded run is the exact run -/
example (d : ℕ) (row : List ℚ) (q : ℕ) :
    (seq (Tri.elevateRow d (row.map (Fl.mk (fl := (id : ℚ → ℚ))))) q).val
      = seq (Tri.elevateRow d row) q := by
  have := tri_elevate_rounding (F := ℚ) id 0 le_rfl (by intro x; simp) d rfl row q
  simpa [sub_eq_zero] using this

/-- (b) the inexact arithmetic `flDy` on `ℚ` (`u = 2⁻¹⁰`) satisfies all hypotheses, every degree
    (a natural number has denominator `1`, so `d + 1` is kept) -/
example (d : ℕ) (row : List ℚ) (q : ℕ) :
    |(seq (Tri.elevateRow d (row.map (Fl.mk (fl := flDy)))) q).val - seq (Tri.elevateRow d row) q|
      ≤ ((1 + 1/1024 : ℚ)^5 - 1) * seq (Tri.elevateRow d (row.map (|·|))) q :=
  tri_elevate_rounding (F := ℚ) flDy (1/1024) flDy_std.hu flDy_std.hfl d (flDy_natCast_succ d) row q

/-- … and the statement is not about an exact run: with `flDy`, degree 2, the entry `2/3` of the
    elevated net is rounded -/
example : (seq (Tri.elevateRow 2 ([(1 : ℚ), 0, 0, 0, 0, 0].map (Fl.mk (fl := flDy)))) 1).val
    ≠ seq (Tri.elevateRow 2 [(1 : ℚ), 0, 0, 0, 0, 0]) 1 := by decide +kernel

/-- (c) an idempotent inexact arithmetic (`TriPy.flFlush`, `u = 1`) satisfies the hypotheses of the
    sharper statement -/
example (d : ℕ) (row : List ℚ) (q : ℕ) :
    |(seq (Tri.elevateRow d (row.map (Fl.mk (fl := TriPy.flFlush)))) q).val
        - seq (Tri.elevateRow d row) q|
      ≤ ((1 + 1 : ℚ)^4 - 1) * seq (Tri.elevateRow d (row.map (|·|))) q :=
  tri_elevate_rounding_idem (F := ℚ) TriPy.flFlush 1 TriPy.flFlush_std.hu TriPy.flFlush_std.hfl
    TriPy.flFlush_idem.idem d (flFlush_natCast_succ d) row q

/-- the hypotheses of the scale statements are satisfiable, and the scale is what it should be -/
example : Tri.elevateRow 2 ([(1 : ℚ), 3, -2, 5, 7, 4].map (|·|))
    = [1, 7/3, 8/3, 2, 11/3, 5, 16/3, 14/3, 6, 4] := by decide +kernel

end BezierVerif.C08
