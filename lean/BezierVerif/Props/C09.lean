import BezierVerif.Lemmas.TriSpecializePy

/-!
# C09 — triangle subdivision tiles the original surface

Property theorems only.  `triBern d λ₁ λ₂ λ₃ (netOf d row)` is the value at the barycentric point
`(λ₁, λ₂, λ₃)` of the Bézier triangle with the flat control row `row` (Props/C05: it is what
`evaluate_barycentric` computes).  The statements are about the executable model
`Model.F90.triSpecializeRow` (the workspace algorithm of `specialize_triangle` in `triangle.f90`:
running `read_index`, groups written in the order of the index triples) and
`Model.F90.triSubdivideGenericRow` (`subdivide_nodes`, generic branch: four `specialize_triangle`
calls with the six weight constants), and they are transferred to the Python dictionary algorithm
(`Model.Py.triSpecializeRow`: `make_transform` matrices, ascending keys, `reduced_to_matrix`) by
`specialize_variants_agree`, and to the hard-coded branch of degree 1–4 by `tables_are_generic`
(the hypothesis of `subdivide_nodes_py` / `subdivide_nodes_f90` — the 16 Python tables and the 16
Fortran closed forms are the operator matrices `triSubdivMat` of the generic path — is what
`Tables/C09a`, `Tables/C09b` decide on the extracted data).
-/

set_option linter.unusedSectionVars false
set_option linter.unusedVariables false

namespace BezierVerif.C09

open Finset Model BezierVerif BezierVerif.Tri

section Field
variable {K : Type} [Field K]

/-- the specialised net has as many control points as the original -/
theorem specialize_length (d : ℕ) (row : List K) (h : row.length = numNodes d) (a b c : Bary K) :
    (F90.triSpecializeRow d row a b c).length = numNodes d := by
  rw [F90_specializeRow_length d a b c row (by rw [h, numNodes_eq_rowStart]), h]

/-- control point `(i, j, k)` of the specialised net is the blossom of the original net with `i`
    arguments `a`, `j` arguments `b`, `k` arguments `c` (in operator form) -/
theorem specialize_is_blossom (d : ℕ) (row : List K) (h : row.length = numNodes d) (a b c : Bary K)
    (j k : ℕ) (hjk : j + k ≤ d) :
    netOf d (F90.triSpecializeRow d row a b c) j k
      = (((T3 a.l1 a.l2 a.l3)^(d-j-k) * (T3 b.l1 b.l2 b.l3)^j * (T3 c.l1 c.l2 c.l3)^k) (netOf d row)) 0 0 :=
  seq_F90_specializeRow d a b c row (by rw [h, numNodes_eq_rowStart]) j k hjk

/-- **`specialize_triangle` is a reparametrisation**: the specialised net evaluated at `μ` is the
    original surface at `μ₁·a + μ₂·b + μ₃·c`; every degree, every three weight triples (also
    outside the reference triangle, also degenerate), every `μ` -/
theorem specialize_triangle_correct (d : ℕ) (row : List K) (h : row.length = numNodes d)
    (a b c : Bary K) (m1 m2 m3 : K) :
    triBern d m1 m2 m3 (netOf d (F90.triSpecializeRow d row a b c))
      = triBern d (m1*a.l1 + m2*b.l1 + m3*c.l1) (m1*a.l2 + m2*b.l2 + m3*c.l2)
          (m1*a.l3 + m2*b.l3 + m3*c.l3) (netOf d row) := by
  have hrow : row.length = rowStart d (d+1) := by rw [h, numNodes_eq_rowStart]
  rw [triBern_congr d m1 m2 m3 _ _ (fun j k hjk => seq_F90_specializeRow d a b c row hrow j k hjk),
    triBern_eq_bernTri, triBern_eq_bernTri]
  exact specNet_correct d (baryTriple a) (baryTriple b) (baryTriple c) m1 m2 m3 (netOf d row)

/-! ### the Python dictionary algorithm and the hard-coded branch -/

/-- the Python variant (one-round matrices from `make_transform`, dictionary keyed by ascending
    tuples, `reduced_to_matrix`) returns exactly what the Fortran workspace variant returns -/
theorem specialize_variants_agree (d : ℕ) (hd : 1 ≤ d) (row : List K) (h : row.length = numNodes d)
    (a b c : Bary K) :
    Py.triSpecializeRow d row a b c = .ok (F90.triSpecializeRow d row a b c) :=
  Py_specializeRow_eq_F90 d hd a b c row (by rw [h, numNodes_eq_rowStart])

/-- the error branch: for degree 0 (excluded by the documentation, not checked by the code)
    `reduced_to_matrix` asks for the empty key, which is a `KeyError` -/
theorem py_specialize_degree_zero (x : K) (a b c : Bary K) :
    Py.triSpecializeRow 0 [x] a b c = .error .badInput := by
  simp [Py.triSpecializeRow, Py.triSpecializeLoop, Py.reducedToMatrix, tripleOrder, triKeyOf, triMapE,
    List.lookup]

/-- consequently the Python variant is a reparametrisation, too -/
theorem py_specialize_triangle_correct (d : ℕ) (hd : 1 ≤ d) (row : List K) (h : row.length = numNodes d)
    (a b c : Bary K) (m1 m2 m3 : K) :
    ∃ out, Py.triSpecializeRow d row a b c = .ok out ∧
      triBern d m1 m2 m3 (netOf d out)
        = triBern d (m1*a.l1 + m2*b.l1 + m3*c.l1) (m1*a.l2 + m2*b.l2 + m3*c.l2)
            (m1*a.l3 + m2*b.l3 + m3*c.l3) (netOf d row) :=
  ⟨_, specialize_variants_agree d hd row h a b c, specialize_triangle_correct d row h a b c m1 m2 m3⟩

theorem subdivide_generic_variants_agree (W : SubWeights K) (d : ℕ) (hd : 1 ≤ d) (row : List K)
    (h : row.length = numNodes d) (qt : Quarter) :
    Py.triSubdivideGenericRow W d row qt = .ok (F90.triSubdivideGenericRow W d row qt) :=
  specialize_variants_agree d hd row h _ _ _

/-- multiplying a net by the operator matrix derived from the unit nets is the generic path on
    that net (the specialisation is linear in the control net): every degree -/
theorem tables_are_generic (W : SubWeights K) (d : ℕ) (row : List K) (h : row.length = numNodes d)
    (qt : Quarter) :
    rowMul row (triSubdivMat W d qt) = F90.triSubdivideGenericRow W d row qt :=
  rowMul_triSubdivMat W d row h qt

/-- `subdivide_nodes` (Python): if the tables of degree 1–4 are the model-derived operator matrices
    (Tables/C09a), the hard-coded branch and the generic branch return the same pieces -/
theorem subdivide_nodes_py (tables : ℕ → Quarter → List (List K)) (W : SubWeights K)
    (ht : ∀ d qt, 1 ≤ d → d ≤ 4 → tables d qt = triSubdivMat W d qt)
    (d : ℕ) (hd : 1 ≤ d) (row : List K) (h : row.length = numNodes d) (qt : Quarter) :
    Py.triSubdivideNodesRow tables W d row qt = .ok (F90.triSubdivideGenericRow W d row qt) := by
  unfold Py.triSubdivideNodesRow
  split
  · rename_i hc
    rw [ht d qt hc.1 hc.2, tables_are_generic W d row h qt]
  · exact subdivide_generic_variants_agree W d hd row h qt

/-- `subdivide_nodes` (Fortran): the same for the closed forms (Tables/C09b) -/
theorem subdivide_nodes_f90 (forms : ℕ → Quarter → List (List K)) (W : SubWeights K)
    (hf : ∀ d qt, 1 ≤ d → d ≤ 4 → forms d qt = triSubdivMat W d qt)
    (d : ℕ) (row : List K) (h : row.length = numNodes d) (qt : Quarter) :
    F90.triSubdivideNodesRow forms W d row qt = F90.triSubdivideGenericRow W d row qt := by
  unfold F90.triSubdivideNodesRow
  split
  · rename_i hc
    rw [hf d qt hc.1 hc.2, tables_are_generic W d row h qt]
  · rfl

/-! ### the four pieces are the four quarters of the reference triangle, in the documented order

Cartesian parameters `(s, t)` of a piece, i.e. `μ = (1-s-t, s, t)`, are mapped to
lower left `(s/2, t/2)`, centre (rotated) `((1-s)/2, (1-t)/2)`, lower right `((1+s)/2, t/2)`,
upper left `(s/2, (1+t)/2)`. -/

/-- piece A: the lower-left quarter -/
theorem quarter_A [CharZero K] (d : ℕ) (row : List K) (h : row.length = numNodes d) (s t : K) :
    triBern d (1 - s - t) s t (netOf d (F90.triSubdivideGenericRow subWeights d row .A))
      = triBern d (1 - s/2 - t/2) (s/2) (t/2) (netOf d row) := by
  unfold F90.triSubdivideGenericRow
  rw [specialize_triangle_correct d row h]
  simp only [quarterWeights, subWeights]
  congr 1 <;> ring

/-- piece B: the central quarter, rotated by a half turn -/
theorem quarter_B [CharZero K] (d : ℕ) (row : List K) (h : row.length = numNodes d) (s t : K) :
    triBern d (1 - s - t) s t (netOf d (F90.triSubdivideGenericRow subWeights d row .B))
      = triBern d (1 - (1-s)/2 - (1-t)/2) ((1-s)/2) ((1-t)/2) (netOf d row) := by
  unfold F90.triSubdivideGenericRow
  rw [specialize_triangle_correct d row h]
  simp only [quarterWeights, subWeights]
  congr 1 <;> ring

/-- piece C: the lower-right quarter -/
theorem quarter_C [CharZero K] (d : ℕ) (row : List K) (h : row.length = numNodes d) (s t : K) :
    triBern d (1 - s - t) s t (netOf d (F90.triSubdivideGenericRow subWeights d row .C))
      = triBern d (1 - (1+s)/2 - t/2) ((1+s)/2) (t/2) (netOf d row) := by
  unfold F90.triSubdivideGenericRow
  rw [specialize_triangle_correct d row h]
  simp only [quarterWeights, subWeights]
  congr 1 <;> ring

/-- piece D: the upper-left quarter -/
theorem quarter_D [CharZero K] (d : ℕ) (row : List K) (h : row.length = numNodes d) (s t : K) :
    triBern d (1 - s - t) s t (netOf d (F90.triSubdivideGenericRow subWeights d row .D))
      = triBern d (1 - s/2 - (1+t)/2) (s/2) ((1+t)/2) (netOf d row) := by
  unfold F90.triSubdivideGenericRow
  rw [specialize_triangle_correct d row h]
  simp only [quarterWeights, subWeights]
  congr 1 <;> ring

/-! ### neighbouring pieces share their common boundary control points

For any six weight constants `W` (only the pattern in which `subdivide_nodes` passes them matters):
the side `b–c` of A is the side `c–b` of B, the side `a–c` of B is the side `c–a` of C, the side
`a–b` of B is the side `b–a` of D. -/

theorem shared_boundary_AB (W : SubWeights K) (d : ℕ) (row : List K) (h : row.length = numNodes d)
    (j k : ℕ) (hjk : j + k = d) :
    netOf d (F90.triSubdivideGenericRow W d row .A) j k
      = netOf d (F90.triSubdivideGenericRow W d row .B) k j := by
  have hrow : row.length = rowStart d (d+1) := by rw [h, numNodes_eq_rowStart]
  unfold F90.triSubdivideGenericRow
  rw [seq_F90_specializeRow d _ _ _ row hrow j k (by omega),
    seq_F90_specializeRow d _ _ _ row hrow k j (by omega)]
  exact specNet_swap_bc d _ _ _ _ _ j k hjk

theorem shared_boundary_BC (W : SubWeights K) (d : ℕ) (row : List K) (h : row.length = numNodes d)
    (k : ℕ) (hk : k ≤ d) :
    netOf d (F90.triSubdivideGenericRow W d row .B) 0 k
      = netOf d (F90.triSubdivideGenericRow W d row .C) 0 (d - k) := by
  have hrow : row.length = rowStart d (d+1) := by rw [h, numNodes_eq_rowStart]
  unfold F90.triSubdivideGenericRow
  rw [seq_F90_specializeRow d _ _ _ row hrow 0 k (by omega),
    seq_F90_specializeRow d _ _ _ row hrow 0 (d - k) (by omega)]
  exact specNet_swap_ac d _ _ _ _ _ k hk

theorem shared_boundary_BD (W : SubWeights K) (d : ℕ) (row : List K) (h : row.length = numNodes d)
    (j : ℕ) (hj : j ≤ d) :
    netOf d (F90.triSubdivideGenericRow W d row .B) j 0
      = netOf d (F90.triSubdivideGenericRow W d row .D) (d - j) 0 := by
  have hrow : row.length = rowStart d (d+1) := by rw [h, numNodes_eq_rowStart]
  unfold F90.triSubdivideGenericRow
  rw [seq_F90_specializeRow d _ _ _ row hrow j 0 (by omega),
    seq_F90_specializeRow d _ _ _ row hrow (d - j) 0 (by omega)]
  exact specNet_swap_ab d _ _ _ _ _ j hj

/-- the three corners of the original triangle are corners of A, C, D -/
theorem corners_kept (d : ℕ) (row : List K) (h : row.length = numNodes d) :
    netOf d (F90.triSubdivideGenericRow subWeights d row .A) 0 0 = netOf d row 0 0 ∧
    netOf d (F90.triSubdivideGenericRow subWeights d row .C) d 0 = netOf d row d 0 ∧
    netOf d (F90.triSubdivideGenericRow subWeights d row .D) 0 d = netOf d row 0 d := by
  have hrow : row.length = rowStart d (d+1) := by rw [h, numNodes_eq_rowStart]
  unfold F90.triSubdivideGenericRow
  refine ⟨?_, ?_, ?_⟩
  · rw [seq_F90_specializeRow d _ _ _ row hrow 0 0 (by omega)]
    simp only [specNet, quarterWeights, subWeights, baryTriple, Nat.sub_zero, pow_zero, mul_one]
    have : T3 (1:K) 0 0 = 1 := by unfold T3; simp
    rw [this, one_pow]; rfl
  · rw [seq_F90_specializeRow d _ _ _ row hrow d 0 (by omega)]
    simp only [specNet, quarterWeights, subWeights, baryTriple, Nat.sub_zero, Nat.sub_self, pow_zero,
      mul_one, one_mul]
    have : T3 (0:K) 1 0 = Sj := by unfold T3; simp
    rw [this, Sj_pow_apply]; simp
  · rw [seq_F90_specializeRow d _ _ _ row hrow 0 d (by omega)]
    simp only [specNet, quarterWeights, subWeights, baryTriple, Nat.sub_zero, Nat.sub_self, pow_zero,
      mul_one, one_mul]
    have : T3 (0:K) 0 1 = Sk := by unfold T3; simp
    rw [this, Sk_pow_apply]; simp

end Field

/-! non-vacuity: a concrete quadratic triangle over ℚ -/
example : F90.triSubdivideGenericRow (subWeights (K := ℚ)) 2 [0, 1, 3, 7, 2, 5] .A
    = [0, 1/2, 5/4, 7/2, 5/2, 19/4] := by decide +kernel

example : F90.triSubdivideGenericRow (subWeights (K := ℚ)) 2 [0, 1, 3, 7, 2, 5] .B
    = [3, 15/4, 19/4, 13/4, 5/2, 5/4] := by decide +kernel

end BezierVerif.C09
